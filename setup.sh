#!/bin/bash
# Run once after a fresh restore, offline: builds the Lean development and the native driver,
# and warms the numba cache used by mapper-level checks.
set -e
cd "$(dirname "$(readlink -f "$0")")"
(cd lean && lake build 2>&1 | tail -5)
test -x lean/.lake/build/bin/afv
mkdir -p .cache/numba .scratch evidence
echo setup-ok
