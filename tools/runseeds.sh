#!/bin/bash
# usage: tools/runseeds.sh <seed> <id>... — quick checks with a given seed; evidence of the real tree is rewritten
cd "$(dirname "$(readlink -f "$0")")/.."
seed=$1; shift
mkdir -p .scratch/runs
for id in "$@"; do
  s=$(date +%s)
  VERIF_SEED=$seed ./check $id --tier quick > .scratch/runs/$id.seed$seed.log 2>&1; rc=$?
  echo "$id seed=$seed exit=$rc wall=$(( $(date +%s) - s ))s viol=$(grep -c '^VIOLATION' .scratch/runs/$id.seed$seed.log) known=$(grep -c '^KNOWN-FINDING' .scratch/runs/$id.seed$seed.log)" | tee -a .scratch/runs/seeds.txt
done
