#!/bin/bash
# usage: tools/domerge.sh <branch>  — merge a builder branch into main, resolving generated files
cd "$(dirname "$(readlink -f "$0")")/.."
b=$1
git add -A; git commit -qm "wip before merging $b" -q
git merge --no-edit $b > /tmp/merge.log 2>&1; tail -1 /tmp/merge.log
for f in $(git diff --name-only --diff-filter=U); do
  if [ "$f" = known_findings.jsonl ] || [[ "$f" == evidence/* ]] || [ "$f" = MANIFEST.json ] || [ "$f" = seeded/README.md ]; then git checkout --ours $f; else echo "REAL CONFLICT: $f"; fi
done
python3-vt tools/mkmanifest.py
git add -A; git commit -qm "Merge $b" -q
echo -n "contained: "; git branch --contains $(git rev-parse $b) | grep -c main
