#!/usr/bin/env python3
"""usage: keep_mutant.py <name> <property> <src _mutant dir> <caught_by json-list> <what_I_ran text>
Copies patch.diff + demo.py and writes meta.json under /verif/seeded/<name>/."""
import json, shutil, sys
from pathlib import Path
name, prop, src, caught, ran = sys.argv[1:6]
src = Path(src); dst = Path('/verif/seeded') / name
dst.mkdir(parents=True, exist_ok=True)
shutil.copy(src / 'patch.diff', dst / 'patch.diff')
shutil.copy(src / 'demo.py', dst / 'demo.py')
meta = {}
if (src / 'meta.json').exists():
    try:
        meta = json.loads((src / 'meta.json').read_text())
    except Exception:
        meta = {}
out = {
    "property": prop,
    "summary": meta.get("summary", ""),
    "needs": meta.get("needs", ""),
    "files": meta.get("files", []),
    "author": "independent sub-agent given only the property text and a scratch worktree of /repo",
    "confirmed_by_coordinator": ran,
    "caught_by": json.loads(caught),
    "agent_test_evidence": {k: str(meta.get(k, ""))[-1500:] for k in ("baseline_tests", "mutant_tests", "demo_before", "demo_after")},
}
(dst / 'meta.json').write_text(json.dumps(out, indent=1) + "\n")
print("kept", dst)
