#!/bin/bash
# usage: tools/try_mutant.sh <patch.diff> <demo.py|-> <check-id>...   — applies the patch to a private copy of /repo and runs demo + checks there
set -u
patch=$(readlink -f "$1"); demo=$2; shift 2
cd "$(dirname "$(readlink -f "$0")")/.."
copy=/root/w/mut-copy-$$
rm -rf $copy; cp -r /repo $copy; rm -rf $copy/.git/worktrees 2>/dev/null
if [ "$demo" != "-" ]; then
  demo=$(readlink -f "$demo")
  cp "$demo" $copy/_demo_under_test.py; demo=$copy/_demo_under_test.py
  echo "--- demo on clean copy"; (cd $copy && /venv/bin/python -W ignore $demo 2>&1 | tail -3; echo "demo-exit=${PIPESTATUS[0]}")
fi
(cd $copy && git apply "$patch") || { echo "patch does not apply"; rm -rf $copy; exit 2; }
if [ "$demo" != "-" ]; then
  echo "--- demo on mutated copy"; (cd $copy && /venv/bin/python -W ignore $demo 2>&1 | tail -5; echo "demo-exit=${PIPESTATUS[0]}")
fi
for id in "$@"; do
  echo "--- check $id on mutated copy"
  AFV_REPO=$copy ./check $id --tier quick > .scratch/mut-$id-$$.log 2>&1; rc=$?
  grep -E "^VIOLATION|^KNOWN-FINDING" .scratch/mut-$id-$$.log | cut -c1-220 | head -8
  echo "check-exit=$rc"
done
rm -rf $copy
