#!/usr/bin/env python3
"""Regenerate /verif/MANIFEST.json from manifest.d/*.json (one file per claimed property)
and manifest.d/_not_applicable.json.  Every property of properties.jsonl must be either claimed
or listed as not applicable (with a reason)."""
import json, sys
from pathlib import Path

V = Path(__file__).resolve().parent.parent
props = [json.loads(l)["id"] for l in (V / "properties.jsonl").read_text().splitlines() if l.strip()]
checks, claimed = [], set()
for pid in props:
    f = V / "manifest.d" / f"{pid}.json"
    if not f.exists():
        continue
    d = json.loads(f.read_text())
    entry = {
        "property_id": pid,
        "quick_cmd": f"./check {pid} --tier quick",
        "thorough_cmd": f"./check {pid} --tier thorough",
        "evidence_file": f"/verif/evidence/{pid}.json",
        "replay_cmd_template": f"./check {pid} --replay {{path}}",
        "engine": "afv-lean",
        "level_claimed": {"category": "proof", "text": d["level_text"], "design_ref": d.get("design_ref", f"DESIGN.md §5 {pid}")},
        "level_note": d["level_note"],
        "technique": d.get("technique", "Lean 4 theorem about an executable model + differential correspondence of model and code"),
    }
    checks.append(entry)
    claimed.add(pid)
na_file = V / "manifest.d" / "_not_applicable.json"
na = json.loads(na_file.read_text()) if na_file.exists() else {}
not_applicable = []
for pid in props:
    if pid in claimed:
        continue
    not_applicable.append({"property_id": pid, "reason": na.get(pid, "not yet claimed: no machine-checked model and tie built for it in this tree (see DESIGN.md)")})
m = {
    "version": 1,
    "setup_cmd": "cd /verif && ./setup.sh",
    "hooks": {
        "guard": "ACCELFORGE_VERIF",
        "enable": "checks export ACCELFORGE_VERIF=1 before importing accelforge from /repo in place (pure Python, nothing to rebuild); no hook commits exist in /repo: completion orders, oracle answers and caches are controlled by monkeypatching inside the harness process",
        "baseline_off_cmd": "cd /repo && env -u ACCELFORGE_VERIF /venv/bin/python -m pytest -ra -q -p no:cacheprovider --timeout=900 --continue-on-collection-errors",
        "source_commits": [],
        "add_only": True,
    },
    "engines": [
        {
            "name": "afv-lean",
            "path": "/verif/lean",
            "serves_properties": sorted(claimed),
            "kind_free_text": "Lean 4 development AFV (models, specs, property theorems), native line-protocol driver `afv`, Python correspondence/translator harness under /verif/harness",
        }
    ],
    "checks": checks,
    "notes": "Every check: lake build of the property's theorems, axiom + forbidden-token audit, then translator and/or correspondence against /repo's working tree; see DESIGN.md. Exit 2 = harness error/timeout (never a violation).",
    "not_applicable": not_applicable,
}
(V / "MANIFEST.json").write_text(json.dumps(m, indent=1) + "\n")
try:
    import jsonschema
    jsonschema.validate(m, json.loads(Path("/root/.vp/MANIFEST.schema.json").read_text()))
    print("MANIFEST.json valid;", len(checks), "claimed,", len(not_applicable), "not claimed")
except ImportError:
    print("MANIFEST.json written (jsonschema not available to validate)")
