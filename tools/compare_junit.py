#!/usr/bin/env python3
"""Compare a junit xml against BASELINE.json stable_pass: every stable test must pass."""
import json, sys, xml.etree.ElementTree as ET
base = set(json.load(open('/root/.vp/BASELINE.json'))['stable_pass'])
t = ET.parse(sys.argv[1]).getroot()
res = {}
for tc in t.iter('testcase'):
    name = tc.get('classname') + '::' + tc.get('name')
    bad = any(ch.tag in ('failure', 'error', 'skipped') for ch in tc)
    res[name] = not bad
missing = sorted(n for n in base if n not in res)
failed = sorted(n for n in base if n in res and not res[n])
print('stable tests:', len(base), 'passed:', sum(1 for n in base if res.get(n)), 'failed:', len(failed), 'missing:', len(missing))
for n in failed[:40]: print('FAILED', n)
for n in missing[:20]: print('MISSING', n)
