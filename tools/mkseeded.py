#!/usr/bin/env python3
"""Regenerate seeded/README.md (which seeded change is caught by which check) from seeded/*/meta.json."""
import json
from pathlib import Path
V = Path(__file__).resolve().parent.parent
rows = []
for d in sorted((V / 'seeded').iterdir()):
    m = d / 'meta.json'
    if not m.exists():
        continue
    j = json.loads(m.read_text())
    caught = []
    for c in j.get('caught_by', []):
        if c.get('keys'):
            caught.append(f"{c['check']} ({c.get('tier','quick')}): " + ', '.join(c['keys']))
        else:
            caught.append(f"{c['check']}: not caught" + (f" — {c['note']}" if c.get('note') else ''))
    rows.append((d.name, j.get('property', ''), (j.get('summary') or '').replace('\n', ' ')[:260], (j.get('needs') or '').replace('\n', ' ')[:220], '; '.join(caught)))
out = ["# Seeded changes (independent sub-agents; each breaks one property, compiles, passes the repo's tests)\n",
       "Each directory holds `patch.diff` (apply with `git -C /repo apply`), `demo.py` (exits 0 on the clean tree, 1 with the patch) and `meta.json`.\n",
       "| seeded change | property | what it does | what it needs to manifest | verdict of the checks |", "|---|---|---|---|---|"]
for r in rows:
    out.append("| " + " | ".join(x.replace('|', '\\|') for x in r) + " |")
(V / 'seeded' / 'README.md').write_text("\n".join(out) + "\n")
print(len(rows), "seeded changes listed")
