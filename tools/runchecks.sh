#!/bin/bash
# usage: tools/runchecks.sh <tier> <id>...   — runs checks sequentially, logs under .scratch/runs/
cd "$(dirname "$(readlink -f "$0")")/.."
tier=$1; shift
mkdir -p .scratch/runs
for id in "$@"; do
  s=$(date +%s)
  ./check $id --tier $tier > .scratch/runs/$id.$tier.log 2>&1
  rc=$?
  echo "$id $tier exit=$rc wall=$(( $(date +%s) - s ))s $(grep -c '^VIOLATION' .scratch/runs/$id.$tier.log) violations $(grep -c '^KNOWN-FINDING' .scratch/runs/$id.$tier.log) known" | tee -a .scratch/runs/summary.txt
done
