#!/bin/bash
# usage: tools/mutant_tests.sh <patch.diff> <pytest args...>  — run selected repo tests on a private mutated copy
patch=$(readlink -f "$1"); shift
copy=/root/w/mut-copy-t$$; rm -rf $copy; cp -r /repo $copy
(cd $copy && git apply "$patch" && timeout 3000 /venv/bin/python -m pytest -q -p no:cacheprovider "$@" 2>&1 | tail -2)
rm -rf $copy
