# /venv/bin/python corpus/C23/repro.py   (run from anywhere; uses /repo)
import sys; sys.path.insert(0, "/repo")
from accelforge.frontend.workload import _parse_einsum_string, Workload
from accelforge.frontend.spec import Spec
names = lambda s: [t["name"] for t in _parse_einsum_string(s)["tensor_accesses"]]
print(names("Z[m,n] = A[m,k] * B[k,n"))          # ['A', 'Z']        B silently dropped
print(names("Z[m,n] = junk A[m,k] * B[k,n]"))    # ['junkA','B','Z'] junk glued to the name
print(names("Z[m] = A[m] B[m] ; C[m] trailing")) # accepted
print(_parse_einsum_string("Z[m] = A[K:x[m]")["tensor_accesses"][0])  # projection {'K': 'x[m'}
w = Workload(einsums=["Z[m] = Z[m] * A[m]"], bits_per_value={"All": 8})
print([(t.name, t.output) for t in w.einsums[0].tensor_accesses])     # [('Z', True), ('A', False)]: the input Z is lost
