# Repro of known finding C13/C14 `dominated-row-returned:float32-row-sum-tie` on the unchanged tree.
# run:  cd /verif && PYTHONPATH=/verif /venv/bin/python -W ignore corpus/C13/repro_float32_row_sum_tie.py
import json, pathlib, numpy as np
from harness import mapperlib as ML, joinlib as JL
ML.init(1)
from accelforge.mapper.FFM._pareto_df.pareto import fast_pareto_mask
X = np.array([[750912, 744, 0.25], [750912, 744, 0.2361111044883728], [945472, 616, 0.2083333432674408]])
print("fast_pareto_mask:", fast_pareto_mask(X, ["min"] * 3), "(row 0 is dominated by row 1); float32 row sums:", X.astype(np.float32).sum(axis=1, dtype=np.float32))
job = json.loads((pathlib.Path(__file__).parent / "float32-row-sum-tie.json").read_text())["replay"]["job"]
T = JL.Tables(JL.make_tables(job["params"], job["table_metrics"]))            # tables for ENERGY|LATENCY
rows = {e: [tuple(r) for r in v] for e, v in job["fixed_rows"].items()}       # 1 row of Matmul0, 3 rows of Matmul1
for r in JL.public_join(T, rows, None, ["ENERGY", "LATENCY", "RESOURCE_USAGE"])["rows"]:   # public join_pmappings
    print(r)   # (E=750912, L=744, GLB=0.25) is returned although (E=750912, L=744, GLB=0.2361) dominates it
