# C22 regression: the named set `Persistent` ignored tensors made persistent by workload.persistent_tensors before fix 629ad68 (now prints W / W: 4)
from accelforge.frontend.spec import Spec
open("c22.yaml", "w").write("""
arch:
  nodes:
  - !Memory
    name: Mem
    size: inf
    leak_power: 0
    area: 0
    tensors: {keep: Persistent}
    bits_per_value: {Persistent: 4, Other: 7}
    actions: [{name: read, energy: 1, latency: 0}, {name: write, energy: 1, latency: 0}]
  - !Compute
    name: MAC
    leak_power: 0
    area: 0
    actions: [{name: compute, energy: 1, latency: 1}]
workload:
  rank_sizes: {M: 4}
  bits_per_value: {All: 8}
  persistent_tensors: W
  einsums:
  - {name: E0, tensor_accesses: [{name: A, projection: [m]}, {name: W, projection: [m]}, {name: B, projection: [m], output: true}]}
""")
ev = Spec.from_yaml("c22.yaml")._spec_eval_expressions(einsum_name="E0")
print("persistent flags:", {t.name: t.persistent for t in ev.workload.einsums["E0"].tensor_accesses})
m = ev.arch.find("Mem")
print("keep: Persistent ->", sorted(m.tensors.keep.instance), " (expected ['W'])")
print("bits_per_value {Persistent: 4, Other: 7} ->", dict(m.bits_per_value), " (expected W: 4)")
