# C29 regression: a rename placed in the top-level `renames` under the Einsum's own name was ignored before fix 9c6cc63 (now prints B / True)
from accelforge.frontend.spec import Spec
open("c29.yaml", "w").write("""
arch:
  nodes:
  - !Memory
    name: Mem
    size: inf
    leak_power: 0
    area: 0
    tensors: {keep: foo}
    actions: [{name: read, energy: 1, latency: 0}, {name: write, energy: 1, latency: 0}]
  - !Compute
    name: MAC
    leak_power: 0
    area: 0
    actions: [{name: compute, energy: 1, latency: 1}]
renames:
  einsums:
  - {name: default, tensor_accesses: {foo: Inputs}}
  - {name: E0, tensor_accesses: {foo: Outputs, only_e0: All}}
workload:
  rank_sizes: {M: 4}
  bits_per_value: {All: 8}
  einsums:
  - {name: E0, tensor_accesses: [{name: A, projection: [m]}, {name: B, projection: [m], output: true}]}
""")
ev = Spec.from_yaml("c29.yaml")._spec_eval_expressions(einsum_name="E0")
print("keep: foo ->", sorted(ev.arch.find("Mem").tensors.keep.instance), " (expected ['B'] = Outputs, the per-Einsum entry)")
print("only_e0 defined:", "only_e0" in [r.name for r in ev.workload.einsums["E0"].renames], " (expected True)")
