# /venv/bin/python corpus/C24/repro.py
import sys; sys.path.insert(0, "/repo")
from accelforge.frontend.workload import Workload
from accelforge.frontend._workload_isl._symbolic import get_stride_and_halo_of_einsum, compute_dense_tile_occupancy, get_projection_expr
w = Workload(einsums=["Z[m,n] = A[P: 2*m+n+1, k] * B[k,n]"], bits_per_value={"All": 8},
             iteration_space_shape={"m": "0 <= m < 4", "n": "0 <= n < 3", "k": "0 <= k < 2"})
print(get_stride_and_halo_of_einsum("Z", w)["A"])   # {('P','m'): (2, 3), ('P','n'): (1, 7), ...}: extra extents are 2 and 6
print(w.get_tensor_size("A"))                        # 18 = 9 x 2 (isl is right: P ranges over 1..9)
print(compute_dense_tile_occupancy(get_projection_expr(w.einsums["Z"], "A"), {"m": 4, "n": 3, "k": 2}))  # 20 = 10 x 2
