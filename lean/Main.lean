import AFV.Driver.All

partial def loop (hin : IO.FS.Stream) (hout : IO.FS.Stream) : IO Unit := do
  let line ← hin.getLine
  if line.isEmpty then return ()
  hout.putStrLn (AFV.Driver.stepLine line)
  hout.flush
  loop hin hout

def main : IO Unit := do
  loop (← IO.getStdin) (← IO.getStdout)
