/-!
# Spec: dominance and Pareto fronts  (library L1/L3, core Lean only — linked into the native driver)

Two layers.

* **Generic layer.** For any type `α` with decidable equality and a Boolean relation `le`
  (intended: a partial order), `sdom le a b` is strict dominance (`le a b` and `a ≠ b`),
  `nondom le rows r` says no row of `rows` strictly dominates `r`, and `frontL le rows` is the list of
  non-dominated rows with duplicates removed.  This layer is what the abstract mapper (`AFV.Search`)
  prunes with (candidates compare only inside one compatibility class).

* **Vector layer.** Objective vectors are `List Int` (the harness scales floats to integers).
  `leqAll` is coordinatewise `≤` on vectors of equal length (vectors of different length are
  incomparable), `dom` is "≤ everywhere and ≠", and `front rows` is the *set* of non-dominated vectors
  in canonical form: sorted lexicographically, no duplicates.  Two inputs have the same Pareto front as
  sets of vectors iff `front A = front B` (see `AFV.Front.front_eq_iff` in `Lemmas/Front.lean`).
  `frontFast` is the executable version used by the driver (sort once, then one sweep against the
  front found so far); `Lemmas/Front.lean` proves `frontFast = front`.
-/
namespace AFV.Front

/-! ## Generic layer -/
section Generic
variable {α : Type} [DecidableEq α]

/-- `a` strictly dominates `b`: `a ≤ b` and `a ≠ b`. -/
def sdom (le : α → α → Bool) (a b : α) : Bool := le a b && decide (a ≠ b)

/-- No row of `rows` strictly dominates `r`. -/
def nondom (le : α → α → Bool) (rows : List α) (r : α) : Bool :=
  !(rows.any (fun s => sdom le s r))

/-- Remove duplicates (keeps the last occurrence of each element). -/
def dedup : List α → List α
  | [] => []
  | a :: l => if a ∈ l then dedup l else a :: dedup l

/-- The Pareto front as a duplicate-free list: the rows that no row strictly dominates. -/
def frontL (le : α → α → Bool) (rows : List α) : List α :=
  dedup (rows.filter (nondom le rows))

end Generic

/-! ## Vector layer -/

/-- Objective vectors: integers (scaled), lower is better in every coordinate. -/
abbrev Vec := List Int

/-- Coordinatewise `≤` on vectors of the same length. -/
def leqAll : Vec → Vec → Bool
  | [], [] => true
  | a :: as, b :: bs => decide (a ≤ b) && leqAll as bs
  | _, _ => false

/-- `a` dominates `b`: `≤` in every coordinate and different. -/
def dom (a b : Vec) : Bool := sdom leqAll a b

/-- Lexicographic total order on vectors (shorter prefix first); only used to make fronts canonical. -/
def lexLe : Vec → Vec → Bool
  | [], _ => true
  | _ :: _, [] => false
  | a :: as, b :: bs => decide (a < b) || (decide (a = b) && lexLe as bs)

/-- Remove adjacent duplicates. On a sorted list this removes all duplicates. -/
def dedupAdj : List Vec → List Vec
  | [] => []
  | [a] => [a]
  | a :: b :: l => if a = b then dedupAdj (b :: l) else a :: dedupAdj (b :: l)

/-- Insert into a lexicographically sorted list. -/
def insertLex (x : Vec) : List Vec → List Vec
  | [] => [x]
  | y :: ys => if lexLe x y then x :: y :: ys else y :: insertLex x ys

/-- Insertion sort (structurally recursive, so that small instances can be checked by `decide`). -/
def isort : List Vec → List Vec
  | [] => []
  | x :: xs => insertLex x (isort xs)

/-- Canonical form of a *set* of vectors: sorted lexicographically, duplicates removed. -/
def canon (l : List Vec) : List Vec := dedupAdj (isort l)

/-- The same canonical form computed with merge sort (`O(n log n)`; proved equal to `canon`). -/
def canonFast (l : List Vec) : List Vec := dedupAdj (l.mergeSort lexLe)

/-- **The Pareto front** of `rows` as a canonical set of vectors: rows not strictly dominated by any row. -/
def front (rows : List Vec) : List Vec := canon (rows.filter (nondom leqAll rows))

/-- One sweep over lexicographically sorted distinct rows. `acc` holds the front of the rows seen so
far (most recent first). A row is kept iff no kept row is `≤` it everywhere: in lexicographic order
a dominating row always comes earlier, and every dominated row is dominated by a front row. -/
def sweep : List Vec → List Vec → List Vec
  | acc, [] => acc.reverse
  | acc, r :: rest => if acc.any (fun a => leqAll a r) then sweep acc rest else sweep (r :: acc) rest

/-- Fast front: `O(n log n + n·|front|)`. Proved equal to `front`. -/
def frontFast (rows : List Vec) : List Vec := sweep [] (canonFast rows)

/-- For each row, the index of some row strictly dominating it (the first one), or `none`. -/
def dominatedBy (rows : List Vec) : List (Option Nat) :=
  rows.map (fun r => rows.findIdx? (fun s => dom s r))

/-- Transform coordinate `i` of a vector by `φ` (other coordinates unchanged; out of range: unchanged). -/
def mapAt (φ : Int → Int) : Nat → Vec → Vec
  | _, [] => []
  | 0, a :: as => φ a :: as
  | i + 1, a :: as => a :: mapAt φ i as

/-- Multiply coordinate `i` by `k`. -/
def scaleAt (k : Int) (i : Nat) (v : Vec) : Vec := mapAt (fun x => k * x) i v

/-- Minimum of `g` over a list (`none` on the empty list). -/
def minOf {α : Type} (g : α → Int) : List α → Option Int
  | [] => none
  | a :: l => match minOf g l with
    | none => some (g a)
    | some m => some (if g a ≤ m then g a else m)

/-- `x ≤ y` on optional minima with `none = +∞` (no candidate at all). -/
def optLe : Option Int → Option Int → Prop
  | _, none => True
  | none, some _ => False
  | some a, some b => a ≤ b

end AFV.Front
