import AFV.Model.Nest
import AFV.Spec.FusedPeak
/-!
# PeakSingle — the statement of C06 for one Einsum: reported usage (the model of run_model's reservation accounting, `analytic`)
equals the execution-time peak of the nest (the reference `FusedPeak.peak` of the one-leaf tree)

Only the *statement* and the conversion of a single-Einsum mapping into the reference's input live here (core Lean).
`peakSingleCheck` is the decidable instance evaluated by the driver on generated nests; the theorem
`AFV.C06.peak_single_timeline` proves the timeline half (peak = sum of the buffer sizes at their allocation points).
-/
namespace AFV.PeakSingle
open AFV.Nest

/-- The nest as a prefix of the reference's tree: node `k` of the mapping gets the id `k`; Compute is the leaf. -/
def toPre : Nat → Mapping Nat → List FusedPeak.PNode
  | _, [] => []
  | k, .storage l ts _ :: r => .storage k l ts false :: toPre (k + 1) r
  | k, .loop rv tile :: r => .loop k rv tile :: toPre (k + 1) r
  | k, _ :: r => toPre (k + 1) r

def enumFrom {β : Type} : Nat → List β → List (Nat × β)
  | _, [] => []
  | k, x :: r => (k, x) :: enumFrom (k + 1) r

/-- bits per value of every (level, tensor): the level's override else the workload's. -/
def toWorkload (arch : Arch Rat) (wq : Workload Rat) (wn : Workload Nat) : FusedPeak.Workload :=
  { bounds := wn.bounds
    einsums := [List.range wn.tensors.length]
    tensorRvs := wn.tensors.map (·.rvs)
    bits := arch.levels.map (fun lv => (enumFrom 0 wq.tensors).map (fun p => bitsPerValue lv p.1 p.2.bpv))
    nInstances := 1 }

def noToll : Mapping Nat → Bool
  | [] => true
  | .toll _ _ _ :: _ => false
  | _ :: r => noToll r

/-- reported bits of every memory = reference peak of that memory -/
def peakSingleCheck (arch : Arch Rat) (wq : Workload Rat) (wn : Workload Nat) (m : Mapping Nat) : Bool :=
  match analytic arch wq (castMapping m) with
  | some r => r.memBits.all (fun x => decide (x.2 = FusedPeak.peak (toWorkload arch wq wn) (.leaf (toPre 1 m) 0) x.1))
  | none => false

end AFV.PeakSingle
