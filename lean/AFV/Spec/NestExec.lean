import AFV.Model.Nest
/-!
# NestExec — the REFERENCE: explicit execution of a single-Einsum loop nest

`exec` really iterates every loop (`List.range n` folds).  For each tensor it walks the nest with

* the absolute position of the current tile (`Env.base`, `Env.shape` per rank variable),
* the chain of TensorHolders of that tensor above the current point (nearest first),
* a **history**: the set of output elements that have been written so far, and the trace of transfer events.

Semantics (statement of property C05):

* every time control reaches a Storage node that has a holder of the tensor above it, the node fetches its tile from
  its parent (the nearest *Memory* in the chain; every Toll on the way is crossed), and — for an output tensor —
  writes the tile back when the body has finished;
* the compute reads one value of every tensor from its parent and writes one output value back;
* an output value that **has never been written** (decided by looking it up in the history, element by element — never
  by a formula) need not be fetched: the requester does not write it when its `skip_initial_output_write` is set;
  a Toll crossed on the way down does not count it when the requester's flag is set; the serving Memory does not read
  it when both its own flag and the requester's flag are set (the three places where the code consults the flag);
* a Toll never stores and never writes: it counts one read per value crossing it in its configured direction(s);
* values are converted to actions with the documented precedence `valuesPerActionSpec`;
* energy = Σ count × per-action energy + leak power × latency; latency = max over components of Σ n_calls / throughput.

Core Lean only.
-/
namespace AFV.NestExec
open AFV.Nest

abbrev Elem := List Nat

/-- Absolute position of the current tile: first index and extent per rank variable. -/
structure Env where
  base : List Nat
  shape : List Nat
  deriving Repr

def Env.enter (e : Env) (rv : RV) (tile j : Nat) : Env :=
  { base := e.base.set rv (e.base.getD rv 0 + j * tile), shape := e.shape.set rv tile }

/-- All elements of the tensor (indexed by `rvs`) inside the current tile. -/
def elems (e : Env) : List RV → List Elem
  | [] => [[]]
  | rv :: r =>
    (List.range (e.shape.getD rv 1)).flatMap (fun i => (elems e r).map (fun x => (e.base.getD rv 0 + i) :: x))

def inRegion (e : Env) : List RV → Elem → Bool
  | [], [] => true
  | rv :: r, x :: xs => decide (e.base.getD rv 0 ≤ x) && decide (x < e.base.getD rv 0 + e.shape.getD rv 1) && inRegion e r xs
  | _, _ => false

/-- A TensorHolder above the current point. -/
structure Hold where
  lvl : Lvl
  isToll : Bool
  skip : Bool
  dir : Dir
  deriving Repr

/-- A transfer event: `n` values read from / written to level `lvl`. -/
structure Ev where
  lvl : Lvl
  isWrite : Bool
  n : Nat
  deriving Repr

structure St where
  written : Elem → Bool
  trace : List Ev

/-- `total` values travel down from the nearest Memory of `chain` to a requester whose skip flag is `cskip`;
`fresh` of them have never been written. -/
def serveDown (cskip : Bool) (total fresh : Nat) : List Hold → List Ev
  | [] => []
  | h :: r =>
    if h.isToll then
      (if h.dir != Dir.up then [{ lvl := h.lvl, isWrite := false, n := total - (if cskip then fresh else 0) }] else [])
        ++ serveDown cskip total fresh r
    else [{ lvl := h.lvl, isWrite := false, n := total - (if cskip && h.skip then fresh else 0) }]

/-- `total` values travel up to the nearest Memory of `chain`. -/
def serveUp (total : Nat) : List Hold → List Ev
  | [] => []
  | h :: r =>
    if h.isToll then
      (if h.dir != Dir.down then [{ lvl := h.lvl, isWrite := false, n := total }] else []) ++ serveUp total r
    else [{ lvl := h.lvl, isWrite := true, n := total }]

/-- Static facts about the tensor being followed. -/
structure TInfo where
  t : TId
  rvs : List RV
  isOut : Bool
  computeSkip : Bool

def holdOf (arch : Arch Rat) (t : TId) (lvl : Lvl) (asToll : Bool) : Hold :=
  let lv := arch.levels.getD lvl Level.dflt
  { lvl := lvl, isToll := asToll, skip := lv.skipInitial, dir := dirOf lv t }

/-- Number of never-written elements of the current tile (history lookup, element by element). -/
def freshCount (ti : TInfo) (e : Env) (st : St) : Nat :=
  if ti.isOut then (elems e ti.rvs).countP (fun x => !st.written x) else 0

/-- Execute the nest for one tensor. -/
def execT (arch : Arch Rat) (ti : TInfo) : Mapping Nat → List Hold → Env → St → St
  | [], _, _, st => st
  | .compute :: _, chain, e, st =>
    let total := (elems e ti.rvs).length
    let fresh := freshCount ti e st
    let down := serveDown ti.computeSkip total fresh chain
    let up := if ti.isOut then serveUp total chain else []
    { written := if ti.isOut then (fun x => st.written x || inRegion e ti.rvs x) else st.written
      trace := st.trace ++ down ++ up }
  | .loop rv tile :: rest, chain, e, st =>
    (List.range (e.shape.getD rv 1 / tile)).foldl (fun st j => execT arch ti rest chain (e.enter rv tile j) st) st
  | .storage lvl ts _ :: rest, chain, e, st =>
    if ts.contains ti.t then
      let h := holdOf arch ti.t lvl false
      let total := (elems e ti.rvs).length
      let fresh := freshCount ti e st
      let hasParent := !chain.isEmpty
      let fetch : List Ev := if hasParent then
          { lvl := lvl, isWrite := true, n := total - (if h.skip then fresh else 0) } :: serveDown h.skip total fresh chain
        else []
      let st1 := execT arch ti rest (h :: chain) e { st with trace := st.trace ++ fetch }
      let wb : List Ev := if hasParent && ti.isOut then
          { lvl := lvl, isWrite := false, n := total } :: serveUp total chain
        else []
      { st1 with trace := st1.trace ++ wb }
    else execT arch ti rest chain e st
  | .toll lvl ts _ :: rest, chain, e, st =>
    if ts.contains ti.t then execT arch ti rest (holdOf arch ti.t lvl true :: chain) e st
    else execT arch ti rest chain e st

/-- Number of compute events: really iterate. -/
def execComputes : Mapping Nat → List Nat → Nat
  | [], _ => 0
  | .compute :: _, _ => 1
  | .loop rv tile :: rest, shape =>
    (List.range (shape.getD rv 1 / tile)).foldl (fun acc _ => acc + execComputes rest (shape.set rv tile)) 0
  | _ :: rest, shape => execComputes rest shape

def countEv (tr : List Ev) (lvl : Lvl) (isWrite : Bool) : Nat :=
  (tr.map (fun ev => if ev.lvl = lvl && ev.isWrite == isWrite then ev.n else 0)).foldr (· + ·) 0

def tinfo (arch : Arch Rat) (w : Workload Nat) (t : TId) : TInfo :=
  let ts := w.tensors.getD t { rvs := [], isOutput := false, bpv := 1 }
  { t := t, rvs := ts.rvs, isOut := ts.isOutput, computeSkip := arch.compute.skipInitial }

def initEnv (w : Workload Nat) : Env := { base := w.bounds.map (fun _ => 0), shape := w.bounds }

def traceOf (arch : Arch Rat) (w : Workload Nat) (m : Mapping Nat) (t : TId) : List Ev :=
  (execT arch (tinfo arch w t) m [] (initEnv w) { written := fun _ => false, trace := [] }).trace

/-- Values read / written at `lvl` for tensor `t` during the execution. -/
def valueCounts (arch : Arch Rat) (w : Workload Nat) (m : Mapping Nat) (t : TId) (lvl : Lvl) : Nat × Nat :=
  let tr := traceOf arch w m t
  (countEv tr lvl false, countEv tr lvl true)

/-! ## From values to actions, energy, latency (the documented rules) -/

/-- Documented precedence: `values_per_action` of the action, else of the component; otherwise
`bits_per_action` (of the action, else of the component, else 1) divided by `bits_per_value`
(of the component for this tensor, else of the workload). -/
def valuesPerActionSpec (lv : Level Rat) (a : Act Rat) (t : TId) (workloadBpv : Rat) : Rat :=
  ((lookup a.vpa t).orElse (fun _ => lookup lv.vpa t)).getD
    (((a.bpa.orElse (fun _ => lv.bpa)).getD 1) / ((lookup lv.bpvOv t).getD workloadBpv))

/-- The levels holding tensor `t`, in mapping order (outermost first). -/
def holdersOf (t : TId) : Mapping Nat → List Lvl
  | [] => []
  | .storage l ts _ :: r => if ts.contains t then l :: holdersOf t r else holdersOf t r
  | .toll l ts _ :: r => if ts.contains t then l :: holdersOf t r else holdersOf t r
  | _ :: r => holdersOf t r

structure ExecResult where
  /-- (level, tensor, read actions, write actions): tensors in order, per tensor its holders outermost first -/
  actions : List (Lvl × TId × Rat × Rat)
  computes : Rat
  latencies : List (Lvl × Rat)
  computeLatency : Rat
  totalLatency : Rat
  dynamicEnergy : Rat
  leakEnergy : Rat
  totalEnergy : Rat
  deriving Repr

def ratMax (a b : Rat) : Rat := if a ≤ b then b else a

/-- The reference result.  `wq` is the workload with rational attributes (bits per value, n_instances). -/
def exec (arch : Arch Rat) (wq : Workload Rat) (w : Workload Nat) (m : Mapping Nat) : ExecResult :=
  let ni := wq.nInstances
  let lvls := List.range arch.levels.length
  let tids := List.range w.tensors.length
  let bpvOf (t : TId) : Rat := (wq.tensors.getD t { rvs := [], isOutput := false, bpv := 1 }).bpv
  let pairs : List (Lvl × TId) := tids.flatMap (fun t => (holdersOf t m).map (fun l => (l, t)))
  -- actions of one Einsum instance
  let acts : List (Lvl × TId × Rat × Rat) := pairs.map (fun (l, t) =>
    let lv := arch.levels.getD l Level.dflt
    let (r, wr) := valueCounts arch w m t l
    let ra : Rat := (r : Rat) / valuesPerActionSpec lv lv.read t (bpvOf t) * lv.actionsScale
    let wa : Rat := if lv.isToll then 0 else (wr : Rat) / valuesPerActionSpec lv lv.write t (bpvOf t) * lv.actionsScale
    (l, t, ra, wa))
  let computes : Rat := (execComputes m w.bounds : Rat) * arch.compute.actionsScale
  let used := lvls.filter (fun l => pairs.any (fun p => p.1 == l))
  let lats : List (Lvl × Rat) := used.map (fun l =>
    let lv := arch.levels.getD l Level.dflt
    let mine := acts.filter (fun a => a.1 == l)
    let reads := (mine.map (fun a => a.2.2.1)).foldr (· + ·) 0
    let writes := (mine.map (fun a => a.2.2.2)).foldr (· + ·) 0
    (l, if lv.isToll then reads / lv.read.throughput else reads / lv.read.throughput + writes / lv.write.throughput))
  let computeLat := computes / arch.compute.throughput
  let overall := (lats.map (·.2)).foldl ratMax computeLat
  let dyn := (acts.map (fun (l, _, r, wr) =>
      let lv := arch.levels.getD l Level.dflt
      r * lv.read.energy + wr * lv.write.energy)).foldr (· + ·) 0 + computes * arch.compute.energy
  let leak := (arch.levels.map (fun lv => lv.leak * overall)).foldr (· + ·) 0 + arch.compute.leak * overall
  { actions := acts.map (fun (l, t, r, wr) => (l, t, r * ni, wr * ni))
    computes := computes * ni
    latencies := lats.map (fun (l, x) => (l, x * ni))
    computeLatency := computeLat * ni
    totalLatency := overall * ni
    dynamicEnergy := dyn * ni
    leakEnergy := leak * ni
    totalEnergy := leak * ni + dyn * ni }

end AFV.NestExec
