import AFV.Model.ArchTree
/-!
Reference semantics for C25 / C26: the architecture as an explicit rooted tree (a forest under a virtual
root), the root-to-node path in it, and the number of instances of a node.

* a non-compute leaf is the parent of everything that follows it in its chain;
* a `Compute` is a leaf of the tree: what follows it are its *siblings*;
* a nested `Hierarchical` is spliced into the chain;
* the contents of a `Fork` hang below the current position, the chain goes on beside them.
-/
namespace AFV.ArchTree

inductive Tree where
  | node (info : LeafInfo) (kids : List Tree)
deriving Repr

/-- `toForest t k`: the forest hanging below the current position when the node list `t` is followed by
whatever produced the forest `k`. -/
def toForest : Nodes → List Tree → List Tree
  | .nil, k => k
  | .leaf l r, k => if l.compute then .node l [] :: toForest r k else [.node l (toForest r k)]
  | .hier i r, k => toForest i (toForest r k)
  | .fork i r, k => toForest i [] ++ toForest r k

mutual
/-- Path (top-down, both ends included) from this node to the first node named `c` below it. -/
def Tree.path (c : String) : Tree → Option (List LeafInfo)
  | .node l kids => if l.name == c then some [l] else (pathForest c kids).map (l :: ·)
def pathForest (c : String) : List Tree → Option (List LeafInfo)
  | [] => none
  | t :: ts => match t.path c with
    | some p => some p
    | none => pathForest c ts
end

/-- The root-to-`c` path of the architecture `t`. -/
def path (t : Nodes) (c : String) : Option (List LeafInfo) := pathForest c (toForest t [])

/-- Product of the fanouts along a list of nodes. -/
def prodFanout : List LeafInfo → Nat
  | [] => 1
  | l :: r => l.fanout * prodFanout r

/-- Number of instances of the node named `x`: the product of the spatial fanouts of the node itself and
of everything above it on its path (0 if there is no such node). -/
def instances (t : Nodes) (x : String) : Nat :=
  match path t x with
  | some p => prodFanout p
  | none => 0

/-- What the property demands of `per_component_total_area / _leak_power`. -/
def specTotals (t : Nodes) : List Total :=
  ((leaves t).filter (·.component)).map fun l =>
    let n := instances t l.name
    ⟨l.name, n, l.area * n, l.leak * n⟩

def specTotalArea (t : Nodes) : Int := sumInt ((specTotals t).map (·.totalArea))
def specTotalLeak (t : Nodes) : Int := sumInt ((specTotals t).map (·.totalLeak))

end AFV.ArchTree
