import AFV.Model.ParetoTable
import AFV.Spec.Pareto
/-!
Specification of pmapping-table pruning (property C12), stated on the columns of the table.

Row `j` dominates row `i` when they have identical fused-loop tile shapes (equal on every `diff` column),
`j` is at least as good on every objective and reservation column, and not conversely.  With zero tolerance a
row is kept iff no row dominates it and no earlier row is equal to it on all of these columns.
-/
namespace AFV.Pareto

/-- identical fused-loop tile shapes. -/
def tSame (cols : List (Goal × List EV)) (j i : Nat) : Bool :=
  cols.all fun gc => gc.1 != .diff || cell gc.2 j == cell gc.2 i

/-- `j` at least as good as `i` on every objective / reservation column. -/
def tLeq (one : Int) (cols : List (Goal × List EV)) (j i : Nat) : Bool :=
  cols.all fun gc => leqGoal one gc.1 (cell gc.2 j) (cell gc.2 i)

def tDominates (one : Int) (cols : List (Goal × List EV)) (j i : Nat) : Bool :=
  tSame cols j i && tLeq one cols j i && !tLeq one cols i j

/-- equal on all classified columns. -/
def tEqual (cols : List (Goal × List EV)) (j i : Nat) : Bool :=
  cols.all fun gc => cell gc.2 j == cell gc.2 i

/-- **zero-tolerance specification** over the classified columns of an `n`-row table. -/
def tableSpec (one : Int) (cols : List (Goal × List EV)) (n : Nat) : List Bool :=
  (List.range n).map fun i =>
    !((List.range n).any fun j => tDominates one cols j i) && !((List.range i).any fun j => tEqual cols j i)

/-- every classified (objective / reservation / fused-loop) column with its goal, after rounding `r`. -/
def specCols (r : Rounding) (cl : List (Kind × List EV)) : List (Goal × List EV) :=
  cl.filterMap fun kc => kc.1.goal.map fun g => (g, kc.1.round r kc.2)

/-- the column is constant over the first `n` rows. -/
def constOn (n : Nat) (col : List EV) : Prop := ∀ i j, i < n → j < n → cell col i = cell col j

end AFV.Pareto

namespace AFV.Pareto

/-- `a ≤ max(b, (num/den)·b) + A` on scaled integers (the slack of the tolerance property). -/
def withinSlack (num den : Nat) (A : Int) : EV → EV → Bool
  | EV.ninf, _ => true
  | _, EV.pinf => true
  | EV.fin a, EV.fin b => decide (a * den ≤ max (b * den) (b * num) + A * den)
  | _, _ => false

/-- one column of a tolerance check: goal, original values, slack `(num, den, A)`. -/
structure TolCol where
  goal : Goal
  vals : List EV
  num : Nat
  den : Nat
  abs : Int

/-- row `j` covers row `i`: identical fused-loop shapes, within the slack on every `min` column. -/
def covers (cols : List TolCol) (j i : Nat) : Bool :=
  cols.all fun c =>
    match c.goal with
    | .diff => cell c.vals j == cell c.vals i
    | _ => withinSlack c.num c.den c.abs (cell c.vals j) (cell c.vals i)

/-- **the tolerance property**, evaluated exactly: every dropped row is covered by a kept row.
Returns the first dropped row that is not (or `none`). -/
def tolViolation (cols : List TolCol) (n : Nat) (mask : List Bool) : Option Nat :=
  (List.range n).find? fun i =>
    !mask.getD i false && !((List.range n).any fun j => mask.getD j false && covers cols j i)

end AFV.Pareto
