import AFV.Model.Breakdown
/-!
Reference semantics for C28: what the result columns *mean* by the positional column grammar

    <einsum><SEP>energy<SEP><component><SEP><tensor><SEP><action>     per-action energy
    <einsum><SEP>energy<SEP><component><SEP>leak                       leak energy (no tensor)
    <einsum><SEP>action<SEP><component><SEP><tensor><SEP><action>     action counts
    <einsum><SEP>latency<SEP><component>                               component latency
    reservation<SEP><memory><SEP><n_loops><SEP>left|right              reservation of a memory
    Total<SEP>energy, Total<SEP>latency                                reported totals

and what the property demands of the four reports: every breakdown is the fibre-wise sum of
the table; total latency is the sum over Einsums of the maximum over components; resource
usage is the maximum reservation per memory.
-/
namespace AFV.Breakdown.Spec
open AFV.Breakdown

def names (es : Einsums) : List String := es.map (·.1)

/-- The intended (einsum, component, tensor, action) ↦ value table of the `kind` columns
(`kind` = "energy" with the 4-part leak columns, or "action" without). -/
def cols4 (kind : String) (withLeak : Bool) (row : Row) (es : List String) : List (Key4 × Int) :=
  row.filterMap fun pv => match pv.1 with
    | [e, k, c, t, a] => if k = kind ∧ e ∈ es then some ((e, c, some t, a), pv.2) else none
    | [e, k, c, a] =>
      if withLeak = true ∧ k = kind ∧ a = "leak" ∧ e ∈ es then some ((e, c, none, a), pv.2) else none
    | _ => none

def energyCols (row : Row) (es : List String) : List (Key4 × Int) := cols4 "energy" true row es

def actionCols (row : Row) (es : List String) : List (Key4 × Int) := cols4 "action" false row es

def latencyCols (row : Row) (es : List String) : List (Key2 × Int) :=
  row.filterMap fun pv => match pv.1 with
    | [e, k, c] => if k = "latency" ∧ e ∈ es then some ((e, c), pv.2) else none
    | _ => none

/-- (memory, value) of every reservation column. -/
def reservationCols (row : Row) : List (String × Int) :=
  row.filterMap fun pv => match pv.1 with
    | [k, r, _, s] => if k = "reservation" ∧ (s = "left" ∨ s = "right") then some (r, pv.2) else none
    | _ => none

/-- The value of the `Total<SEP>what` column, if present. -/
def totalCol (row : Row) (what : String) : Option Int :=
  (row.find? (fun pv => pv.1 = ["Total", what])).map (·.2)

/-- Sum of the values whose key is mapped to `k'` — the fibre of `k'`. -/
def fiberSum {κ κ'} [DecidableEq κ'] (f : κ → κ') (tbl : List (κ × Int)) (k' : κ') : Int :=
  ((tbl.filter (fun kv => f kv.1 = k')).map (·.2)).sum

/-- Distinct keys in order of first appearance. -/
def firstKeys {κ} [DecidableEq κ] : List κ → List κ
  | [] => []
  | k :: ks => k :: (firstKeys ks).filter (· ≠ k)

/-- The breakdown demanded by the property: one entry per projected key, the sum of its fibre. -/
def breakdown {κ κ'} [DecidableEq κ'] (f : κ → κ') (tbl : List (κ × Int)) : List (κ' × Int) :=
  (firstKeys (tbl.map (fun kv => f kv.1))).map (fun k' => (k', fiberSum f tbl k'))

/-- Maximum of a non-empty list given as head and tail. -/
def maxList (v : Int) (vs : List Int) : Int := vs.foldl max v

/-- Maximum of a list, `none` when empty. -/
def maxOpt : List Int → Option Int
  | [] => none
  | v :: vs => some (maxList v vs)

def fiberVals {κ} [DecidableEq κ] (tbl : List (κ × Int)) (k : κ) : List Int :=
  (tbl.filter (fun kv => kv.1 = k)).map (·.2)

/-- Per-Einsum maximum over components. -/
def breakdownMax (tbl : List (Key2 × Int)) : List (String × Int) :=
  (firstKeys (tbl.map (·.1.1))).map
    (fun e => (e, (maxOpt (fiberVals (tbl.map (fun kv => (kv.1.1, kv.2))) e)).getD 0))

/-- Σ over Einsums of the maximum over components; `none` if there is no latency entry at all. -/
def latencyTotal (tbl : List (Key2 × Int)) : Option Int :=
  match breakdownMax tbl with
  | [] => none
  | l => some ((l.map (·.2)).sum)

/-- Maximum reservation per memory (floored at 0: `usage[resource] = 0` is the initial value). -/
def usage (res : List (String × Int)) : List (String × Int) :=
  (firstKeys (res.map (·.1))).map (fun r => (r, maxList 0 (fiberVals res r)))

/-! ## Well-formedness: the column names follow the grammar and no name collides with a keyword
or with a name used at an earlier position.  (Decidable; mirrors what real result sets look like.) -/

/-- `t` is one of `einsum e`'s tensor names, or the literal `"None"` used for compute actions. -/
def okTensor (es : Einsums) (e t : String) : Bool :=
  es.any (fun et => et.1 = e ∧ (t ∈ et.2 ∨ t = "None"))

/-- A per-Einsum energy / action column has the grammar's shape, its tensor is a
tensor of that Einsum, and the tensor is not named like the component. -/
def okCol4 (withLeak : Bool) (es : Einsums) (p : Col) : Bool :=
  match p with
  | [e, _, c, t, _] => c ≠ t ∧ okTensor es e t
  | [_, _, _, a] => withLeak ∧ a = "leak"
  | _ => false

/-- Keyword `kind` occurs in a column name at most once, and then at position `pos`. -/
def keywordAt (kind : String) (pos : Nat) (p : Col) : Bool :=
  kind ∉ p ∨ (p.idxOf kind = pos ∧ p.count kind = 1)

def wf4 (kind : String) (withLeak : Bool) (row : Row) (es : Einsums) : Bool :=
  (row.map (·.1)).Nodup ∧
  row.all (fun pv => keywordAt kind 1 pv.1) ∧
  row.all (fun pv => (kind ∈ pv.1 ∧ pv.1.head? ∈ (names es).map some) → okCol4 withLeak es pv.1)

def wfEnergy (row : Row) (es : Einsums) : Bool := wf4 "energy" true row es
def wfActions (row : Row) (es : Einsums) : Bool := wf4 "action" false row es

def wfLatency (row : Row) (es : List String) : Bool :=
  (row.map (·.1)).Nodup ∧
  row.all (fun pv => keywordAt "latency" 1 pv.1) ∧
  row.all (fun pv => ("latency" ∈ pv.1 ∧ pv.1.head? ∈ es.map some) → pv.1.length = 3)

def wfUsage (row : Row) : Bool :=
  (row.map (·.1)).Nodup ∧
  row.all (fun pv => keywordAt "reservation" 0 pv.1) ∧
  row.all (fun pv => "reservation" ∈ pv.1 →
    (2 ≤ pv.1.length ∧ (pv.1.length = 4 → (pv.1[3]? = some "left" ∨ pv.1[3]? = some "right"))))

end AFV.Breakdown.Spec
