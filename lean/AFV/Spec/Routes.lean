import AFV.Model.LExpr
/-!
# Route enumeration on a line mesh and on an all-to-all switch (reference semantics for C30)

Everything here is explicit enumeration: lists of links traversed by every value.  No closed form
is used.  The closed forms are *theorems* (`AFV/Props/C30.lean`).

Line mesh.  Positions `0, 1, 2, …`; link `j` joins positions `j` and `j+1`.  The (non-distributed)
source is at position 0; the `n` destinations of the spatial loop are at `0, s, 2s, …, (n-1)s`
(`s` = stride = fanout of the loops below).  The shortest route from 0 to position `d` uses links
`0 … d-1`.

* unicast (relevant loop): destination `k` needs its own value of volume `v`; the value travels its
  route, so there is one traversal per (destination, link on its route);
* multicast (irrelevant loop): one shared value; it is forwarded once over every link that lies on
  the route to some destination.

All-to-all switch.  Node `i` has an uplink `up i` to the switch and a downlink `down i` from it.
A delivery from the source (node 0) to node `k ≠ 0` is ONE hop (one switch traversal) that uses
`up 0` and `down k`.  Node 0 holds the data already.  Unicast: every delivery carries its own
value over both links; multicast: the switch replicates, every used link carries the value once.

Quantities: total hops (volume-weighted number of link traversals / switch traversals) and the
maximum traffic over any single link.

Core Lean only (linked into the driver).
-/
namespace AFV.Routes
open AFV.LExpr (rmax)

/-! ## generic: traversal lists, per-link traffic -/

/-- Load of every traversed link: how many values cross it (one entry per traversal). -/
def linkLoads {L : Type} [BEq L] (tr : List L) : List Nat := tr.map (fun l => tr.count l)

/-- Largest traffic among links with the given loads, each crossing value having volume `v`
(0 when nothing moves). -/
def maxTraffic (loads : List Nat) (v : Rat) : Rat :=
  (loads.map (fun (c : Nat) => (c : Rat) * v)).foldr rmax 0

/-- Maximum over all links of the traffic on that link.  Links that are not traversed carry 0, so
it suffices to range over the traversed ones. -/
def maxLinkTraffic {L : Type} [BEq L] (tr : List L) (v : Rat) : Rat := maxTraffic (linkLoads tr) v

/-- Volume-weighted number of traversals. -/
def totalTraffic {L : Type} (tr : List L) (v : Rat) : Rat := (tr.length : Nat) * v

/-- Every link of `allLinks` that lies on some route carries a shared value exactly once. -/
def usedOnce {L : Type} [BEq L] (allLinks tr : List L) : List L :=
  allLinks.filter (fun l => tr.contains l)

/-! ## line mesh -/

/-- Positions of the destinations. -/
def dests (n s : Nat) : List Nat := (List.range n).map (· * s)

/-- Shortest route from the source (position 0) to position `d`: links `0 … d-1`. -/
def route (d : Nat) : List Nat := List.range d

/-- All links of the line spanned by the destinations. -/
def meshLinks (n s : Nat) : List Nat := List.range ((n - 1) * s)

/-- Unicast: one traversal per (destination, link on its route). -/
def meshUnicastTraversals (n s : Nat) : List Nat := (dests n s).flatMap route

/-- Multicast: each link on some destination's route is traversed once. -/
def meshMulticastTraversals (n s : Nat) : List Nat :=
  usedOnce (meshLinks n s) (meshUnicastTraversals n s)

def meshUnicastTotal (n s : Nat) (v : Rat) : Rat := totalTraffic (meshUnicastTraversals n s) v
def meshUnicastMaxLink (n s : Nat) (v : Rat) : Rat := maxLinkTraffic (meshUnicastTraversals n s) v
def meshMulticastTotal (n s : Nat) (v : Rat) : Rat := totalTraffic (meshMulticastTraversals n s) v
def meshMulticastMaxLink (n s : Nat) (v : Rat) : Rat :=
  maxLinkTraffic (meshMulticastTraversals n s) v

/-- Length of the longest route. -/
def meshLongestRoute (n s : Nat) : Nat := ((dests n s).map (fun d => (route d).length)).foldr max 0

/-! ## all-to-all switch -/

inductive SwLink where
  | up (i : Nat)
  | down (i : Nat)
  deriving DecidableEq, Repr

/-- Destinations that need a transfer: every node except the source, node 0. -/
def a2aDeliveries (n : Nat) : List Nat := (List.range n).filter (· ≠ 0)

/-- The hops of the route from node 0 to node `k`: a single switch traversal `(0, k)`. -/
def a2aRoute (k : Nat) : List (Nat × Nat) := [(0, k)]

/-- The links one switch traversal `(i, k)` uses. -/
def hopLinks (h : Nat × Nat) : List SwLink := [.up h.1, .down h.2]

def a2aLinks (n : Nat) : List SwLink := (List.range n).map .up ++ (List.range n).map .down

/-- All hops of all deliveries. -/
def a2aHops (n : Nat) : List (Nat × Nat) := (a2aDeliveries n).flatMap a2aRoute

/-- Unicast: every delivery's value crosses both links of its hop. -/
def a2aUnicastTraversals (n : Nat) : List SwLink := (a2aHops n).flatMap hopLinks

/-- Multicast: the switch replicates; every used link carries the value once. -/
def a2aMulticastTraversals (n : Nat) : List SwLink :=
  usedOnce (a2aLinks n) (a2aUnicastTraversals n)

/-- Total hops: one per switch traversal of each delivery (same for unicast and multicast: every
destination receives its copy through one switch traversal). -/
def a2aTotal (n : Nat) (v : Rat) : Rat := totalTraffic (a2aHops n) v
def a2aUnicastMaxLink (n : Nat) (v : Rat) : Rat := maxLinkTraffic (a2aUnicastTraversals n) v
def a2aMulticastMaxLink (n : Nat) (v : Rat) : Rat := maxLinkTraffic (a2aMulticastTraversals n) v

/-- Length (in hops) of the longest route. -/
def a2aLongestRoute (n : Nat) : Nat :=
  ((a2aDeliveries n).map (fun k => (a2aRoute k).length)).foldr max 0

end AFV.Routes
