import AFV.Model.Topo
/-!
# Reference semantics for C21 (what the property demands), core Lean only

* `Dep`     : "x's definition mentions the other definition y" (both go through the dependency sort)
* `Cyclic`  : some definition reaches itself through `Dep`
* `Sem`     : a table is *the* meaning of a scope: every defined name has the value of its expression, where other
  names are looked up in the table itself (inner definitions shadow outer ones) and the name's own occurrence in its
  own definition denotes the enclosing scope's value; every other name keeps the enclosing value.
-/
namespace AFV.Topo
open Relation

variable {α : Type} [DecidableEq α]

/-- the fields that go through the dependency sort (`to_sort`) -/
def sortedPart (pre : List α) (fields : List (Field α)) : List (Field α) :=
  fields.filter (fun f => decide (f.name ∉ pre) && f.evaluated)

/-- the fields that are placed first without sorting -/
def plainPart (pre : List α) (fields : List (Field α)) : List (Field α) :=
  fields.filter (fun f => decide (f.name ∉ pre) && !f.evaluated)

/-- `Dep pre fields x y`: the sorted field `x` mentions the *other* sorted field `y`. -/
def Dep (pre : List α) (fields : List (Field α)) (x y : α) : Prop :=
  ∃ f ∈ sortedPart pre fields, f.name = x ∧ y ∈ f.rawDeps ∧ y ≠ x ∧ ∃ g ∈ sortedPart pre fields, g.name = y

def Cyclic (pre : List α) (fields : List (Field α)) : Prop :=
  ∃ x, TransGen (Dep pre fields) x x

/-- `y` is one of the integer definitions of the scope -/
def isExprName (fields : List (Field α)) (y : α) : Prop := ∃ f ∈ fields, f.name = y ∧ f.expr?.isSome

/-- The meaning of one scope (see the module doc). -/
def Sem (outer : α → Option Int) (fields : List (Field α)) (t : α → Option Int) : Prop :=
  (∀ f ∈ fields, ∀ e, f.expr? = some e →
      ∃ v, t f.name = some v ∧ e.eval (selfEnv outer t f.name) = some v) ∧
  (∀ y, ¬ isExprName fields y → t y = outer y)

/-- extensional equality of results: same values, or both a cycle error, or both an undefined-name error -/
def ResEquiv : Except (Err α) (Table α) → Except (Err α) (Table α) → Prop
  | .ok t, .ok t' => ∀ y, t.get y = t'.get y
  | .error (.cycle _), .error (.cycle _) => True
  | .error (.undefined _), .error (.undefined _) => True
  | _, _ => False

/-- Executable statement of "`out` is an acceptable evaluation order of the object": the pre-ordered names, then the
non-evaluated fields, then a permutation of the sorted fields in which every field comes after the other sorted fields
its value mentions.  (Used by the driver to judge the order returned by the real `_get_parsable_field_order`.) -/
def validOrder (pre : List α) (fields : List (Field α)) (out : List α) : Bool :=
  let s := sortedPart pre fields
  let l0 := pre ++ (plainPart pre fields).map (·.name)
  let suf := out.drop l0.length
  (out.take l0.length == l0) && suf.isPerm (s.map (·.name)) &&
    s.all (fun f => (depsIn s f).all (fun g => decide (suf.idxOf g < suf.idxOf f.name)))

/-! ## the three-level spec -/

/-- pointwise relation of two lists of the same length -/
inductive All2 {β γ : Type} (R : β → γ → Prop) : List β → List γ → Prop
  | nil : All2 R [] []
  | cons {a b l l'} : R a b → All2 R l l' → All2 R (a :: l) (b :: l')

def defFields (defs : List (Def α)) : List (Field α) := defs.map Def.toField

def ErrEquiv : Err α → Err α → Prop
  | .cycle _, .cycle _ => True
  | .undefined _, .undefined _ => True
  | _, _ => False

def CompOutEquiv (o o' : CompOut α) : Prop :=
  (∀ y, o.attrs.get y = o'.attrs.get y) ∧ (∀ y, o.own.get y = o'.own.get y)

def OutEquiv : Except (Err α) (Out α) → Except (Err α) (Out α) → Prop
  | .ok o, .ok o' =>
    (∀ y, o.spec.get y = o'.spec.get y) ∧ (∀ y, o.arch.get y = o'.arch.get y) ∧
      All2 CompOutEquiv o.comps o'.comps
  | .error e, .error e' => ErrEquiv e e'
  | _, _ => False

/-- the same component written with its keys in another order -/
def CompPerm (c c' : Comp α) : Prop := c.attrs.Perm c'.attrs ∧ c.pre = c'.pre ∧ c.fields.Perm c'.fields

/-- the same spec written with the keys of every dictionary in another order -/
def SpecPerm (s s' : Spec3 α) : Prop :=
  s.specVars.Perm s'.specVars ∧ s.archVars.Perm s'.archVars ∧ All2 CompPerm s.comps s'.comps

def DefsWF (defs : List (Def α)) : Prop := (defs.map (·.name)).Nodup

def CompWF (c : Comp α) : Prop :=
  DefsWF c.attrs ∧ (c.fields.map (·.name)).Nodup ∧ ∀ f ∈ c.fields, f.name ∈ c.pre → f.expr? = none

def SpecWF (s : Spec3 α) : Prop := DefsWF s.specVars ∧ DefsWF s.archVars ∧ ∀ c ∈ s.comps, CompWF c

/-- The meaning of a whole spec: each scope's table is the meaning of its definitions relative to the table of the
enclosing scope (component own fields ⊂ component attributes ⊂ arch variables ⊂ spec variables ⊂ nothing);
siblings never see each other. -/
def SemAll (s : Spec3 α) (o : Out α) : Prop :=
  Sem (fun _ => none) (defFields s.specVars) o.spec.get ∧
  Sem o.spec.get (defFields s.archVars) o.arch.get ∧
  All2 (fun (c : Comp α) (co : CompOut α) =>
      Sem o.arch.get (defFields c.attrs) co.attrs.get ∧ Sem co.attrs.get c.fields co.own.get)
    s.comps o.comps

end AFV.Topo
