import AFV.Spec.Pareto
/-!
The hypotheses of `fastParetoMask_exact`, as decidable predicates on the input (the driver evaluates them on
every correspondence case, so the harness knows which cases lie outside the theorem and why).
-/
namespace AFV.Pareto

/-- every row has one entry per goal. -/
def shapeOK (goals : List Goal) (data : List Row) : Bool :=
  data.all fun r => r.length == goals.length

/-- per-prime-factor columns hold positive integers (what `factorint` is meant for). -/
def ppfOK (one : Int) (goals : List Goal) (data : List Row) : Bool :=
  goals.zipIdx.all fun gc =>
    (gc.1 != .minPPF && gc.1 != .maxPPF) ||
      data.all fun r =>
        match cell r gc.2 with
        | EV.fin k => decide (0 < k) && k % one == 0
        | _ => false

/-- well-formed input. -/
def WF (cfg : Cfg) (goals : List Goal) (data : List Row) : Bool :=
  decide (0 < cfg.one) && shapeOK goals data && ppfOK cfg.one goals data

/-- **H-cast**: on the values of every `min`/`max` column the cast is strictly monotone
(i.e. monotone and injective): no two different values collide in the effective dtype. -/
def Hcast (cfg : Cfg) (goals : List Goal) (data : List Row) : Bool :=
  goals.zipIdx.all fun gc =>
    (gc.1 != .min && gc.1 != .max) ||
      (column data gc.2).all fun a => (column data gc.2).all fun b =>
        !EV.lt a b || EV.lt (cfg.cast a) (cfg.cast b)

/-- **H-sweep**: in every group that takes the 2-D path, the second varying column stays below the
initial value of `best_c1` (vacuous for the repaired sweep `cfg.sweepFirst`). -/
def HsweepG (cfg : Cfg) (d : Nat) (G : List Item) : Bool :=
  match groupPath d G with
  | .sweep vs => cfg.sweepFirst || G.all fun x => EV.lt (cell (pick vs x.2) 1) cfg.sweepInit
  | _ => true

/-- **H-key**: in every group that takes the general path, the float sort key is strictly monotone on
dominating pairs (so sorting by it is a topological order of dominance). -/
def HkeyG (cfg : Cfg) (d : Nat) (G : List Item) : Bool :=
  match groupPath d G with
  | .general vs => G.all fun x => G.all fun y =>
      !domV vs.length (pick vs x.2) (pick vs y.2) || FKey.lt (cfg.key (pick vs x.2)) (cfg.key (pick vs y.2))
  | _ => true

def Hsweep (cfg : Cfg) (goals : List Goal) (data : List Row) : Bool :=
  let cols := effCols cfg goals data
  (groupsOf goals data cols).all (HsweepG cfg cols.length)

def Hkey (cfg : Cfg) (goals : List Goal) (data : List Row) : Bool :=
  let cols := effCols cfg goals data
  (groupsOf goals data cols).all (HkeyG cfg cols.length)

end AFV.Pareto

namespace AFV.Pareto

/-! ## diagnostics for the tie (not used by the theorems)

`_sfs_bnl_core` is compiled with `fastmath=True`: LLVM may re-associate the float64 accumulation of the row
sum (it vectorises the loop for ≥ 4 varying columns).  When every partial sum of every sub-multiset of the
row is exactly representable in float64 the result does not depend on the association, and the model's
sequential key is the code's key.  `keyExact` says that this is the case for every row that reaches the
general path. -/

def tzFuel : Nat → Nat → Nat
  | 0, _ => 0
  | f + 1, n => if n != 0 && n % 2 == 0 then 1 + tzFuel f (n / 2) else 0

/-- number of trailing zero bits (0 for 0). -/
def tz (n : Nat) : Nat := tzFuel (Nat.log2 n + 1) n

def keyExactRow (r : List EV) : Bool :=
  if r.any (fun v => !v.isFin) then true else
  let ks := r.map fun v => match v with | EV.fin k => k.natAbs | _ => 0
  let A := ks.foldl (· + ·) 0
  let g := ks.foldl Nat.gcd 0
  if A == 0 then true else decide (Nat.log2 A + 1 - tz g ≤ 53)

def keyExact (cfg : Cfg) (goals : List Goal) (data : List Row) : Bool :=
  let cols := effCols cfg goals data
  (groupsOf goals data cols).all fun G =>
    match groupPath cols.length G with
    | .general vs => G.all fun x => keyExactRow (pick vs x.2)
    | _ => true

end AFV.Pareto
