import AFV.Model.Pareto
/-!
All-pairs specification of the Pareto filter (property C11).

Row `r` *dominates* row `s` when they agree on every `diff` column, `r` is at least as good as `s` on every
objective column (`≤` for `min`, `≥` for `max`, exponent of every prime `≤` / `≥` for the per-prime-factor
goals) and `s` is not at least as good as `r` on every objective column (i.e. the oriented vectors differ).
A row is kept iff no row dominates it and no earlier row is exactly equal to it.

Values are the exact values of the data as given (no cast).
-/
namespace AFV.Pareto

/-- `a` at least as good as `b` on the per-prime-factor goal: exponent of every prime. -/
def ppfLeq (a b : Nat) : Bool :=
  (List.range (Nat.max a b + 1)).all fun p => !isPrime p || decide (expoOf p a ≤ expoOf p b)

/-- `a` at least as good as `b` under goal `g`. -/
def leqGoal (one : Int) : Goal → EV → EV → Bool
  | .min, a, b => EV.le a b
  | .max, a, b => EV.le b a
  | .diff, _, _ => true
  | .minPPF, a, b => ppfLeq (natOf one a) (natOf one b)
  | .maxPPF, a, b => ppfLeq (natOf one b) (natOf one a)

/-- at least as good on every objective column. -/
def leqOpt (one : Int) (goals : List Goal) (r s : Row) : Bool :=
  goals.zipIdx.all fun gc => leqGoal one gc.1 (cell r gc.2) (cell s gc.2)

/-- equal on every `diff` column. -/
def sameDiff (goals : List Goal) (r s : Row) : Bool :=
  goals.zipIdx.all fun gc => gc.1 != .diff || cell r gc.2 == cell s gc.2

/-- `r` strictly dominates `s`. -/
def dominates (one : Int) (goals : List Goal) (r s : Row) : Bool :=
  sameDiff goals r s && leqOpt one goals r s && !leqOpt one goals s r

/-- mask of the non-dominated rows. -/
def frontMaskSpec (one : Int) (goals : List Goal) (data : List Row) : List Bool :=
  data.map fun s => !data.any fun r => dominates one goals r s

/-- **The specification**: non-dominated, and the first among exactly equal rows. -/
def paretoMaskSpec (one : Int) (goals : List Goal) (data : List Row) : List Bool :=
  (List.range data.length).map fun i =>
    let s := data.getD i []
    !(data.any fun r => dominates one goals r s) && !((data.take i).any (· == s))

end AFV.Pareto
