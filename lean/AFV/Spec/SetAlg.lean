import AFV.Model.Renames
/-!
Reference semantics for C22 / C29 (executable, so the driver can act as the oracle).

* `holds ρ U e x` : set algebra — is `x` in the set denoted by `e`, leaves given by `ρ`,
  complement taken inside the universe `U`.
* `leaf` : what the named sets mean (docs/source/guide/parsing/evaluation.rst):
  All/Tensors = tensors of the Einsum, Inputs / Outputs, Intermediates = produced by one Einsum and
  consumed by another, Shared = used by more than one Einsum, Persistent = tensors that are
  persistent for this Einsum (flagged on the access OR selected by the workload-level
  `persistent_tensors`), Nothing, and a tensor name = that tensor if the Einsum uses it.
* `resolve` : rename precedence — first of (Einsum's own renames, top-level entry named like the
  Einsum, top-level entry named "default").
-/
namespace AFV.SetSpec
open AFV.SetAlg AFV.Renames

def holds (ρ : Name → Name → Bool) (U : Name → Bool) : SExpr → Name → Bool
  | .name n, x => ρ n x
  | .and a b, x => holds ρ U a x && holds ρ U b x
  | .or a b, x => holds ρ U a x || holds ρ U b x
  | .sub a b, x => holds ρ U a x && !holds ρ U b x
  | .xor a b, x => holds ρ U a x != holds ρ U b x
  | .inv a, x => U x && !holds ρ U a x
  | .call a, x => holds ρ U a x

/-! ## meaning of the named sets -/

def isTensorOf (e : Einsum) (t : Name) : Bool := e.accesses.any (fun a => a.name == t)
def isInput (e : Einsum) (t : Name) : Bool := e.accesses.any (fun a => a.name == t && !a.output)
def isOutput (e : Einsum) (t : Name) : Bool := e.accesses.any (fun a => a.name == t && a.output)
def isFlagged (e : Einsum) (t : Name) : Bool := e.accesses.any (fun a => a.name == t && a.persistent)
def isIntermediate (w : Workload) (t : Name) : Bool :=
  w.einsums.any (fun e => isInput e t) && w.einsums.any (fun e => isOutput e t)
def isShared (w : Workload) (t : Name) : Bool :=
  (w.einsums.filter (fun e => isTensorOf e t)).length > 1

def reserved : List Name :=
  ["All", "Tensors", "Nothing", "Inputs", "Outputs", "Intermediates", "Shared", "Persistent"]

/-- `sel t` : `t` is selected by the workload-level `persistent_tensors` for this Einsum. -/
def leaf (w : Workload) (e : Einsum) (sel : Name → Bool) (n : Name) (t : Name) : Bool :=
  isTensorOf e t &&
    (if n == "All" || n == "Tensors" then true
     else if n == "Nothing" then false
     else if n == "Inputs" then isInput e t
     else if n == "Outputs" then isOutput e t
     else if n == "Intermediates" then isIntermediate w t
     else if n == "Shared" then isShared w t
     else if n == "Persistent" then isFlagged e t || sel t
     else n == t)

/-! ## rename precedence -/

def topT (rs : List EinsumRename) (n : Name) : List Rename :=
  (rs.filter (fun er => er.name == n)).flatMap (·.tensorAccesses)
def topR (rs : List EinsumRename) (n : Name) : List Rename :=
  (rs.filter (fun er => er.name == n)).flatMap (·.rankVariables)
/-- every definition the top-level entries named `n` give, entry by entry in list order -/
def topLevelFor (rs : List EinsumRename) (n : Name) : List Rename :=
  (rs.filter (fun er => er.name == n)).flatMap (fun er => er.tensorAccesses ++ er.rankVariables)

/-- all rename definitions that apply to Einsum `e`, most specific first -/
def candidates (rs : List EinsumRename) (e : Einsum) : List Rename :=
  e.renames ++ topLevelFor rs e.name ++ topLevelFor rs "default"

/-- the definition a name resolves to -/
def resolve (rs : List EinsumRename) (e : Einsum) (n : Name) : Option Rename :=
  (candidates rs e).find? (fun r => r.name == n)

/-- first definition of each name, in order of first appearance -/
def dedupRenames : List Rename → List Rename
  | [] => []
  | r :: rs => r :: (dedupRenames rs).filter (fun r' => !(r'.name == r.name))

/-- No name is used both for a tensor rename and for a rank-variable rename in the top-level section.
(The property does not say what a name given in both kinds means; such inputs are outside the
domain of the judge.) -/
def KindsDisjoint (rs : List EinsumRename) : Prop :=
  ∀ er1 ∈ rs, ∀ er2 ∈ rs, ∀ r1 ∈ er1.tensorAccesses, ∀ r2 ∈ er2.rankVariables, r1.name ≠ r2.name

/-- The renames evaluated for Einsum `e`, in evaluation order: the Einsum's own, then the tensor
renames, then the rank-variable renames (per-Einsum entries before "default" ones, each in list
order); the first definition of a name wins.  Under `KindsDisjoint` every name keeps the
definition `resolve` selects (`effectiveSpec_find`). -/
def effectiveSpec (rs : List EinsumRename) (e : Einsum) : List Rename :=
  dedupRenames (e.renames ++ (topT rs e.name ++ topT rs "default") ++ (topR rs e.name ++ topR rs "default"))

/-! ## the pipeline with the specified precedence and the specified `Persistent` -/

/-- `Renames.evaluatedRenames` with the effective rename list as a parameter. -/
def evaluatedRenamesWith (w : Workload) (e : Einsum) (eff : List Rename) :
    Except Err (List (Name × ISet)) := do
  let st := renameSymbolTable w e
  let vs ← evalRenames st eff
  let l1 := appendMissing vs (dictItems (namedEntries w e ++ tensorEntries e ++ rankEntries e))
  let present := l1.map (·.1)
  let l2 := l1 ++ (w.tensorNames.filter (fun t => !present.contains t)).map (fun t => (t, tset e []))
  let l3 := l2 ++ (w.rankVariables.filter (fun r => !present.contains r)).map (fun r => (r, rset e []))
  pure l3

/-- Specified table of Einsum `e`, stage 1: renames resolved with `resolve`'s precedence;
`Persistent` = flagged tensors (what rename sources and `persistent_tensors` itself see). -/
def specTable1 (w : Workload) (rs : List EinsumRename) (e : Einsum) : Except Err Table := do
  let l ← evaluatedRenamesWith w e (effectiveSpec rs e)
  pure (ofDictLiteral l)

/-- tensors of `e` selected by the workload-level `persistent_tensors` -/
def specSelected (w : Workload) (rs : List EinsumRename) (e : Einsum) : Except Err (List Name) :=
  match w.persistentTensors with
  | none => .ok []
  | some pt => do
    let t ← specTable1 w rs e
    let r ← evalSetExpression t pt (some spaceTensor) none
    pure r.inst

/-- persistent tensors of `e` -/
def specPersistent (w : Workload) (rs : List EinsumRename) (e : Einsum) : Except Err (List Name) := do
  let sel ← specSelected w rs e
  pure (e.tensorNames.filter (fun t => isFlagged e t || sel.contains t))

/-- Specified table the architecture sees for Einsum `e`: stage 1 with `Persistent` bound to the
persistent tensors of `e` (unless the user gave a rename called `Persistent`, which shadows it). -/
def specTable (w : Workload) (rs : List EinsumRename) (e : Einsum) : Except Err Table := do
  let t ← specTable1 w rs e
  let p ← specPersistent w rs e
  if hasName (effectiveSpec rs e) "Persistent" then pure t else pure (insert t "Persistent" (tset e p))

def specWorkload (w : Workload) (rs : List EinsumRename) :
    Except Err (List (Name × Table × List Name)) :=
  w.einsums.mapM (fun e => do
    let t ← specTable w rs e
    let p ← specPersistent w rs e
    pure (e.name, t, p))

/-- Set-algebra value of `x` over a table: universe `U`, leaves = the table's bindings. -/
def specValue (t : Table) (U : List Name) (x : SExpr) : Option (List Name) :=
  if x.names.all (fun n => (lookup t n).isSome) then
    let ρ : Name → Name → Bool := fun n y => match lookup t n with
      | some s => s.inst.contains y
      | none => false
    some (U.filter (fun y => holds ρ (fun y => U.contains y) x y))
  else none

/-! ## dictionaries with an `Other` key: the specified assignment -/

/-- `t ↦ value` for every tensor of `U`.  Keys that do not mention `Other` denote their set-algebra
value; `Other` denotes everything in `U` not covered by those; at most one key may mention `Other`;
two keys whose sets share a tensor are rejected; otherwise every tensor gets the value of the one
key whose set contains it.  `none` = rejected. -/
def specDict (t : Table) (U : List Name) (items : List (SExpr × Int)) :
    Option (List (Name × Int)) :=
  let plain := items.filter (fun p => !p.1.mentionsOther)
  let others := items.filter (fun p => p.1.mentionsOther)
  if others.length > 1 then none else
  match plain.mapM (fun p => (specValue t U p.1).map (fun s => (s, p.2))) with
  | none => none
  | some sets =>
    let otherSet := U.filter (fun x => !sets.any (fun s => s.1.contains x))
    let tO := insert t "Other" { inst := otherSet, full := U, space := spaceTensor }
    match others.mapM (fun p => (specValue tO U p.1).map (fun s => (s, p.2))) with
    | none => none
    | some osets =>
      let all := sets ++ osets
      if U.any (fun x => (all.filter (fun s => s.1.contains x)).length > 1) then none else
      some (U.filterMap (fun x => (all.find? (fun s => s.1.contains x)).map (fun s => (x, s.2))))

end AFV.SetSpec
