/-!
# FusedPeak — the REFERENCE for property C06: execution-time peak occupancy of a (fused) mapping tree

A mapping tree is a shared prefix of storage nodes and loops followed either by the Compute of one Einsum (`leaf`) or by a
`Sequential` of sub-trees (`seq`), executed one after the other inside every iteration of the prefix's loops.

The peak is defined by an **explicit timeline**: the tree is really executed (every loop iterated); the instants are the
compute events, in execution order.  A *residency* is one allocation of a tile: a holder node, a tensor, and the iteration
indices of the loops above its allocation point.  Rules (statement of C06):

* **allocation point / size** — the first holder of a tensor on an Einsum's path (its backing store) is allocated where it
  stands; any other holder streams its tile through the loops that follow it as long as they index the tensor, so its
  buffer is allocated below those loops (at the first node that is a holder of this Einsum, a loop that does not index the
  tensor, or the Compute) and has the tile size of that point × bits per value;
* **sharing** — only the backing store of a tensor (the first holder on the path) is shared between the Einsums that access
  the tensor; every other holder is a private buffer of each Einsum (the Einsum's nest fetches it from / writes it back to
  the backing store), even when the node stands in a shared prefix;
* **lifetime** — a residency is live from its first to its last use (a use = a compute event of an Einsum that accesses the
  tensor, under this allocation); if the tile is kept across the iterations of a *shared* loop (a loop of a prefix above a
  `Sequential`) it stays allocated for the whole execution of that loop — all its iterations and all branches — because
  it must survive from one iteration to the next; consequently a tensor held inside a branch is live only during that
  branch, an intermediate produced in one branch and consumed in a later one stays live in between, and tiles are freed
  when the enclosing shared-loop iteration ends;
* **persistent** holders are live throughout and their size is multiplied by `n_instances`.

`peak` = per memory level, the maximum over the instants of the sum of the sizes of the live residencies.
Nothing of the joiner's reservation algebra (`merge_next`, `free_to_loop_index`, `adjust_reservations`) appears here.
Core Lean only.
-/
namespace AFV.FusedPeak

abbrev RV := Nat
abbrev TId := Nat
abbrev Lvl := Nat
abbrev NodeId := Nat

structure TensorInfo where
  rvs : List RV
  bits : Rat            -- bits per value (of the memory that holds it: the harness passes one value per (level, tensor))
  deriving Repr

structure Workload where
  bounds : List Nat
  /-- tensors of each Einsum -/
  einsums : List (List TId)
  /-- rank variables of each tensor -/
  tensorRvs : List (List RV)
  /-- bits per value per level per tensor -/
  bits : List (List Rat)
  nInstances : Rat
  deriving Repr

inductive PNode
  | storage (id : NodeId) (lvl : Lvl) (ts : List TId) (persistent : Bool)
  | loop (id : NodeId) (rv : RV) (tile : Nat)
  deriving Repr, Inhabited

inductive Tree
  | leaf (pre : List PNode) (einsum : Nat)
  | seq (pre : List PNode) (branches : List Tree)
  deriving Repr, Inhabited

abbrev Env := List (NodeId × Nat)     -- iteration index of every enclosing loop
abbrev Event := Nat × Env             -- (Einsum, environment) : one compute step

def envGet (env : Env) (id : NodeId) : Option Nat :=
  match env with
  | [] => none
  | (k, v) :: r => if k = id then some v else envGet r id

/-- Contexts (current shapes, environment) reached below a prefix, in execution order: every loop is iterated. -/
def contexts : List PNode → List Nat → Env → List (List Nat × Env)
  | [], shape, env => [(shape, env)]
  | .storage _ _ _ _ :: r, shape, env => contexts r shape env
  | .loop id rv tile :: r, shape, env =>
    (List.range (shape.getD rv 1 / tile)).flatMap (fun j => contexts r (shape.set rv tile) ((id, j) :: env))

mutual
/-- The compute events of the tree in execution order. -/
def eventsT : Tree → List Nat → Env → List Event
  | .leaf pre e, shape, env => (contexts pre shape env).map (fun c => (e, c.2))
  | .seq pre bs, shape, env => (contexts pre shape env).flatMap (fun c => eventsL bs c.1 c.2)
def eventsL : List Tree → List Nat → Env → List Event
  | [], _, _ => []
  | b :: r, shape, env => eventsT b shape env ++ eventsL r shape env
end

mutual
/-- Per Einsum: the nodes on its path from the root, each loop flagged "shared" when it belongs to a prefix above a Sequential. -/
def pathsT : Tree → List (PNode × Bool) → List (Nat × List (PNode × Bool))
  | .leaf pre e, acc => [(e, acc ++ pre.map (fun n => (n, false)))]
  | .seq pre bs, acc => pathsL bs (acc ++ pre.map (fun n => (n, true)))
def pathsL : List Tree → List (PNode × Bool) → List (Nat × List (PNode × Bool))
  | [], _ => []
  | b :: r, acc => pathsT b acc ++ pathsL r acc
end

/-- Description of the residencies one holder creates for one tensor on one Einsum's path. -/
structure Desc where
  holder : NodeId
  tensor : TId
  lvl : Lvl
  allocLoops : List NodeId        -- loops above the allocation point (outermost first)
  size : Rat
  persistent : Bool
  /-- the first holder of the tensor on the path (its backing store): the only kind of residency Einsums share -/
  first : Bool
  /-- outermost shared loop below the allocation point, with the loops above it -/
  closure : Option (NodeId × List NodeId)
  deriving Repr

def relevantRv (w : Workload) (t : TId) (rv : RV) : Bool := (w.tensorRvs.getD t []).contains rv

def tileElems (w : Workload) (t : TId) (shape : List Nat) : Nat :=
  ((w.tensorRvs.getD t []).map (fun rv => shape.getD rv 1)).foldl (· * ·) 1

/-- Keep only the tensors of the Einsum in the holders of a path (holders of foreign tensors disappear). -/
def ownPath (own : List TId) : List (PNode × Bool) → List (PNode × Bool)
  | [] => []
  | (.storage id l ts p, s) :: r =>
    let ts' := ts.filter own.contains
    if ts'.isEmpty then ownPath own r else (.storage id l ts' p, s) :: ownPath own r
  | n :: r => n :: ownPath own r

/-- Lower through the loops that index the tensor: returns (loops passed, shape at the allocation point). -/
def lower (w : Workload) (t : TId) : List (PNode × Bool) → List Nat → List NodeId × List Nat
  | (.loop id rv tile, _) :: r, shape =>
    if relevantRv w t rv then
      let (ls, sh) := lower w t r (shape.set rv tile)
      (id :: ls, sh)
    else ([], shape)
  | _, shape => ([], shape)

/-- First shared loop of a path suffix together with the loops passed before reaching it. -/
def firstShared : List (PNode × Bool) → List NodeId → Option (NodeId × List NodeId)
  | [], _ => none
  | (.loop id _ _, sh) :: r, above => if sh then some (id, above) else firstShared r (above ++ [id])
  | _ :: r, above => firstShared r above

/-- Skip `k` loops of a path suffix (the loops the allocation was lowered through). -/
def dropLoops : Nat → List (PNode × Bool) → List (PNode × Bool)
  | 0, l => l
  | _, [] => []
  | k + 1, (.loop _ _ _, _) :: r => dropLoops k r
  | k + 1, _ :: r => dropLoops (k + 1) r

/-- `_split_tensor_holders_with_multiple_tensors`: a holder of several tensors is a sequence of single-tensor holders. -/
def splitPath : List (PNode × Bool) → List (PNode × Bool)
  | [] => []
  | (.storage id l ts p, s) :: r => ts.map (fun t => (PNode.storage id l [t] p, s)) ++ splitPath r
  | n :: r => n :: splitPath r

/-- Residency descriptions of one Einsum's (own, split) path. `seen` = tensors already held above, `above` = loops above. -/
def descsAux (w : Workload) : List (PNode × Bool) → List TId → List NodeId → List Nat → List Desc
  | [], _, _, _ => []
  | (.loop id rv tile, _) :: r, seen, above, shape => descsAux w r seen (above ++ [id]) (shape.set rv tile)
  | (.storage id l ts pers, _) :: r, seen, above, shape =>
    let mk (t : TId) : Desc :=
      let first := !seen.contains t
      let (ls, sh) := if first then ([], shape) else lower w t r shape
      let bits := (w.bits.getD l []).getD t 0
      { holder := id, tensor := t, lvl := l, allocLoops := above ++ ls,
        size := (tileElems w t sh : Rat) * bits * (if pers then w.nInstances else 1),
        persistent := pers, first := first,
        closure := firstShared (dropLoops ls.length r) (above ++ ls) }
    ts.map mk ++ descsAux w r (seen ++ ts) above shape

def descsOf (w : Workload) (tree : Tree) (e : Nat) : List Desc :=
  match (pathsT tree []).find? (fun p => p.1 == e) with
  | some p => descsAux w (splitPath (ownPath (w.einsums.getD e []) p.2)) [] [] w.bounds
  | none => []

/-- Does event `ev` (of Einsum `ev.1`) use the residency (`d`, `vals`)? -/
def usesRes (d : Desc) (vals : List (Option Nat)) (ev : Event) : Bool :=
  d.allocLoops.map (envGet ev.2) == vals

/-- Is `ev'` inside the execution of the shared loop `cl` that contains the use `ev`? -/
def inClosure (cl : NodeId × List NodeId) (ev ev' : Event) : Bool :=
  (envGet ev'.2 cl.1).isSome && cl.2.all (fun x => envGet ev'.2 x == envGet ev.2 x)

/-- One residency: description + iteration indices of the loops above the allocation point + Einsum whose path it is on. -/
structure Res where
  e : Nat
  d : Desc
  vals : List (Option Nat)
  deriving Repr

def resKeyEq (a b : Res) : Bool :=
  a.d.holder == b.d.holder && a.d.tensor == b.d.tensor && a.d.allocLoops == b.d.allocLoops && a.vals == b.vals &&
    ((a.d.first && b.d.first) || a.e == b.e)

/-- All residencies that occur during the execution (one per distinct key). -/
def residencies (ds : List (List Desc)) (evs : List Event) : List Res :=
  evs.foldl (fun acc ev =>
    (ds.getD ev.1 []).foldl (fun acc d =>
      let r : Res := { e := ev.1, d := d, vals := d.allocLoops.map (envGet ev.2) }
      if acc.any (resKeyEq r) then acc else acc ++ [r]) acc) []

/-- Indices of the instants that force the residency to be allocated: its uses, and every instant of a shared-loop execution
it is kept across (for each use, the outermost shared loop below the allocation point on the using Einsum's path). -/
def cover (ds : List (List Desc)) (evs : List Event) (r : Res) : List Nat :=
  let idx := List.range evs.length
  let useDesc (ev : Event) : Option Desc :=
    match (ds.getD ev.1 []).find? (fun d => d.holder == r.d.holder && d.tensor == r.d.tensor && d.allocLoops == r.d.allocLoops) with
    | some d => if usesRes d r.vals ev && ((d.first && r.d.first) || ev.1 == r.e) then some d else none
    | none => none
  let uses : List (Event × Desc) := evs.filterMap (fun ev => (useDesc ev).map (fun d => (ev, d)))
  if r.d.persistent then idx else
  ((idx.zip evs).filter (fun p =>
      (useDesc p.2).isSome ||
      uses.any (fun u => match u.2.closure with
        | some cl => inClosure cl u.1 p.2
        | none => false))).map (·.1)

def liveAt (cov : List Nat) (ti : Nat) : Bool := cov.any (· ≤ ti) && cov.any (ti ≤ ·)

def ratMaxL (l : List Rat) : Rat := l.foldl (fun a b => if a ≤ b then b else a) 0

/-- **Peak occupancy (bits) of memory level `lvl`**: maximum over the instants of the live residencies' sizes. -/
def peak (w : Workload) (tree : Tree) (lvl : Lvl) : Rat :=
  let evs := eventsT tree w.bounds []
  let ds := (List.range w.einsums.length).map (descsOf w tree)
  let rs := (residencies ds evs).filter (fun r => r.d.lvl == lvl)
  let covs := rs.map (fun r => (r.d.size, cover ds evs r))
  ratMaxL ((List.range evs.length).map (fun ti =>
    (covs.filter (fun c => liveAt c.2 ti)).foldl (fun a c => a + c.1) 0))

end AFV.FusedPeak
