import AFV.Model.TileShapes
/-!
Reference semantics for property C10 (core Lean only; executable, the driver evaluates them as oracles).

* perfect mode: the candidates are exactly the multiples of `inner` dividing `outer`;
* imperfect mode: for every number of tiles achieved by some multiple `n ≤ outer` of `inner`
  the smallest shape with that number of tiles is a candidate; no candidate exceeds `outer`;
  `outer` is a candidate;
* counter: number of factorisation chains.
-/
namespace AFV.TileShapes

/-- brute force: all `m ≤ outer` that are multiples of `inner` and divide `outer`, increasing -/
def perfectSpec (inner outer : Nat) : List Nat :=
  (List.range (outer + 1)).filter (fun m => m % inner = 0 ∧ outer % m = 0)

/-- `m` is the smallest positive shape whose tile count `ceilDiv outer m` is `t`
(`ceilDiv outer m` is characterised from first principles by `C10.ceilDiv_spec`: it is the least
`t` with `outer ≤ t * m`). -/
def IsLeastShape (outer t m : Nat) : Prop :=
  0 < m ∧ ceilDiv outer m = t ∧ ∀ m', 0 < m' → ceilDiv outer m' = t → m ≤ m'

/-- brute force: the smallest shape in `1..outer` with tile count `t`, if any -/
def leastShapeBrute (outer t : Nat) : Option Nat :=
  (List.range' 1 outer).find? (fun m => ceilDiv outer m = t)

/-- The shapes the property *requires* in imperfect mode: for every multiple `n` of `inner`,
`0 < n ≤ outer`, the least shape with as many tiles as `n`; and `outer`.  Increasing, brute force. -/
def imperfectRequiredBrute (inner outer : Nat) : List Nat :=
  sortDedup (outer ::
    ((List.range' 1 outer).filter (fun n => n % inner = 0)).filterMap
      (fun n => leastShapeBrute outer (ceilDiv outer n)))

/-- Same set in closed form (proved equal in `Props/C10.lean`), cheap enough for large `outer`. -/
def imperfectRequired (inner outer : Nat) : List Nat :=
  sortDedup (outer ::
    (List.range' 1 (outer / inner)).map (fun k => ceilDiv outer (ceilDiv outer (k * inner))))

/-- the choices of one loop of a factorisation chain and the remaining size -/
def chainChoices (imp : Bool) (n : Nat) : List Nat :=
  if imp then List.range' 1 n else (List.range' 1 n).filter (fun d => n % d = 0)

def chainNext (imp : Bool) (n s : Nat) : Nat := if imp then ceilDiv n s else n / s

/-- explicit enumeration of factorisation chains: one choice per loop except the last,
which takes what remains -/
def chains : Nat → List Bool → List (List Nat)
  | _, [] => [[]]
  | _, [_] => [[]]
  | n, imp :: o :: os =>
    (chainChoices imp n).flatMap (fun s => (chains (chainNext imp n s) (o :: os)).map (s :: ·))

/-- declarative validity of a chain (what a brute-force enumerator over all tuples would test) -/
def validChain : Nat → List Bool → List Nat → Bool
  | _, [], c => c.isEmpty
  | _, [_], c => c.isEmpty
  | _, _ :: _ :: _, [] => false
  | n, imp :: o :: os, s :: c =>
    (1 ≤ s && s ≤ n && (imp || n % s = 0)) && validChain (if imp then ceilDiv n s else n / s) (o :: os) c

end AFV.TileShapes
