import AFV.Model.Nest
import AFV.Spec.Front
/-!
# Mapspace — the reference mapspace of a spec, by brute force  (core Lean only, linked into `afv`)

The property statements of C01/C02 quantify over "every valid mapping in the mapspace the spec defines (storage
placements allowed by keep/may_keep and the memory hierarchy, any loop order, any perfectly factorising tile shapes,
any fusion)".  This file writes that space down twice, for single-Einsum specs:

* `inSpace s m : Bool` — the **declarative description**: a conjunction of independent clauses, each a plain
  statement about the node list `m` (what the nodes look like, which (memory, tensor) pairs are held, in which order,
  where loops may stand, which tile shapes they may have).  Nothing in it knows how mappings are generated.
* `all s : List (Mapping Nat)` — the **enumerator**: picks the set of (memory, tensor) pairs to hold, then grows the
  node list top-down, one node at a time, from a state (current tile shape of every rank variable, storage nodes still
  to be placed, …).  `foldAll` is the same enumeration as a fold that never materialises the list (the driver runs it).

`Props/C01.lean` proves `m ∈ all s ↔ inSpace s m = true` (`all_sound`, `all_complete`) and `foldAll = foldl over all`.

## The described space (single Einsum; temporal loops; Memory levels only)

A mapping is a list of nodes ending with the only `compute`.
* Storage nodes hold ONE tensor each (`Storage l [t]`, `_lower` at its default `True`), at most one per (level, tensor).
  The set `H` of held pairs satisfies, for every level `l` with rule `(keep, mayKeep, keepNotIn)`:
  `keep_l ⊆ H_l ⊆ keep_l ∪ mayKeep_l`, where `keep_l` additionally contains every tensor not held at level `l'`
  when `keepNotIn = some l'` (the set expression `~MainMemory`); every tensor is held somewhere.
* Order of storage nodes: per tensor the levels strictly increase down the list (always); over all storage nodes the
  levels weakly increase when `forceOrder` (`force_memory_hierarchy_order`, the default).
* The outermost memory (level 0) holds its tensors above all loops (`_can_lower_outermost_memory = False`); its
  storage nodes stand in ascending tensor order (they denote one multi-tensor node, split by
  `_split_tensor_holders_with_multiple_tensors`; their relative order is immaterial).
* Anywhere between/around the storage nodes stand temporal loops `loop rv tile`: `tile` divides the tile shape that
  `rv` has at that point, is strictly smaller (a loop with one iteration is a no-op; excluding them makes the space
  finite), and at `compute` every rank variable has tile shape 1.  Any order, any number of loops per rank variable.
* **The one validity rule** (`validOk`): above the outermost (backing) holder of a tensor `t` there is no loop over a
  rank variable that does not index `t`.  Reason: `analyze_storage` charges a backing holder nothing for the
  data it holds (`hasParent = false` ⇒ no fills from a parent), so an irrelevant loop above it would re-create the
  tile out of nothing in every iteration (for an output: drop the partial sums) — the model defines no refetch or
  recomputation cost for that, `evaluate_mapping` accepts such a mapping and silently under-counts.  The mapper excludes
  them too ("No recomputation", `make_loops.py`).  For fused mappings this is what makes the loops above the
  intermediate tensor's backing holder the *fused* loops.  When the outermost memory keeps every tensor the rule is vacuous.

## Costs

`cost s m` runs `AFV.Nest.analytic` (the model of `evaluate_mapping`) on exact rationals and reads off total energy,
total latency and, per memory level, the usage fraction (0 for a memory of infinite size).  A mapping *fits* when every
usage is ≤ 1.  `refBest`/`refFront` minimise over the fitting members of `all s`.

## Two Einsums (matmul chain, one intermediate tensor)

`Spec2` holds the two single-Einsum specs (rank variables numbered globally, a rank variable foreign to an Einsum has
bound 1 there) and the intermediate tensor's id in each.  A fused mapping is a pair `(m₀, m₁)`, `mₑ ∈ all sₑ`, that
is *compatible*: the intermediate tensor's backing holder is at the same level in both, and the loops above it (the
shared prefix) are the same list of `(rank variable, tile)` in both — with at most one loop per rank variable
(`max_fused_loops_per_rank_variable = 1`; `max_fused_loops = ∞`).  The LoopTree it denotes is
`prefix ; Sequential [rest₀ ; rest₁]`.  ASSUMED (checked against the real code by C04, not proved here):
energy and latency of the tree are the sums of the per-Einsum `analytic` values on `mₑ`; the peak usage of a memory is
(occupancy of holders standing in the shared prefix, the intermediate tensor's backing holder counted once) +
max over the two branches of the occupancy of their remaining holders.
-/
namespace AFV.Mapspace
open AFV.Nest AFV.Front

/-! ## Spec description -/

/-- What a memory level demands of the tensors (`Memory.tensors`, evaluated for one Einsum). -/
structure LevelRule where
  keep : List TId
  mayKeep : List TId
  /-- `keep: ~<level>`: additionally keep every tensor that is not held at that level -/
  keepNotIn : Option Lvl := none
  deriving Repr

structure SpecDesc where
  arch : Arch Rat
  bounds : List Nat
  tensors : List (TensorSpec Rat)
  nInstances : Rat
  rules : List LevelRule        -- one per level of `arch.levels`
  infSize : List Bool           -- per level: size = inf (usage is 0)
  forceOrder : Bool
  deriving Repr

def SpecDesc.workload (s : SpecDesc) : Workload Rat :=
  { bounds := s.bounds.map (fun (n : Nat) => (n : Rat)), tensors := s.tensors, nInstances := s.nInstances }

def SpecDesc.nLevels (s : SpecDesc) : Nat := s.arch.levels.length
def SpecDesc.nTensors (s : SpecDesc) : Nat := s.tensors.length

def SpecDesc.relevant (s : SpecDesc) (t : TId) (rv : RV) : Bool :=
  match s.tensors[t]? with
  | some ts => ts.rvs.contains rv
  | none => false

abbrev Key := Lvl × TId

/-! ## Declarative description -/

/-- `m` is a list of non-compute nodes followed by exactly one `compute`. -/
def endsWithCompute : Mapping Nat → Bool
  | [] => false
  | [.compute] => true
  | .compute :: _ => false
  | _ :: r => endsWithCompute r

/-- Loops: perfectly factorising tile chains ending at 1, no loop with a single iteration. -/
def loopsOk : List Nat → Mapping Nat → Bool
  | shape, [] => shape.all (· == 1)
  | shape, .loop rv tile :: r =>
    decide (rv < shape.length) && decide (1 ≤ tile) && decide (tile < shape.getD rv 1) &&
      (shape.getD rv 1 % tile == 0) && loopsOk (shape.set rv tile) r
  | shape, _ :: r => loopsOk shape r

/-- Node shapes: a storage node holds one existing tensor at an existing level with `_lower = True`; no Tolls. -/
def nodeOk (s : SpecDesc) : Node Nat → Bool
  | .storage l [t] lo => decide (l < s.nLevels) && decide (t < s.nTensors) && lo
  | .storage _ _ _ => false
  | .toll _ _ _ => false
  | _ => true

def keyMem (k : Key) (ks : List Key) : Bool := ks.contains k

/-- The effective keep test of level `l` for tensor `t`, given the set of held pairs. -/
def mustKeep (r : LevelRule) (held : List Key) (t : TId) : Bool :=
  r.keep.contains t || (match r.keepNotIn with | some l' => !keyMem (l', t) held | none => false)

/-- A held pair is allowed: its tensor exists and is in keep ∪ may_keep of its level. -/
def heldOk (s : SpecDesc) (held : List Key) (k : Key) : Bool :=
  match s.rules[k.1]? with
  | some r => decide (k.2 < s.nTensors) && (mustKeep r held k.2 || r.mayKeep.contains k.2)
  | none => false

/-- Level `l` holds everything it must keep. -/
def levelOk (s : SpecDesc) (held : List Key) (l : Lvl) : Bool :=
  match s.rules[l]? with
  | some r => (List.range s.nTensors).all (fun t => !mustKeep r held t || keyMem (l, t) held)
  | none => false

/-- keep ⊆ chosen ⊆ keep ∪ may_keep at every level, and every tensor is held somewhere. -/
def choiceOk (s : SpecDesc) (held : List Key) : Bool :=
  held.all (heldOk s held) && (List.range s.nLevels).all (levelOk s held) &&
  (List.range s.nTensors).all (fun t => held.any (fun k => k.2 == t))

/-- `a` may stand above `b`: same tensor ⇒ strictly outer level; `forceOrder` ⇒ weakly outer level; the holders of the
outermost memory (all of them backing holders standing above every loop — the exported mappings show them as ONE
node) in ascending tensor order. -/
def above (force : Bool) (a b : Key) : Bool :=
  (!force || decide (a.1 ≤ b.1)) && (!(a.2 == b.2) || decide (a.1 < b.1)) &&
  (!(a.1 == 0 && b.1 == 0) || decide (a.2 < b.2))

/-- Every storage node may stand above every later one. -/
def orderOk (force : Bool) : List Key → Bool
  | [] => true
  | a :: r => r.all (above force a) && orderOk force r

/-- No level-0 storage node below a loop. -/
def topOk : Bool → Mapping Nat → Bool
  | _, [] => true
  | _, .loop _ _ :: r => topOk true r
  | seenLoop, .storage l _ _ :: r => !(seenLoop && l == 0) && topOk seenLoop r
  | seenLoop, _ :: r => topOk seenLoop r

/-- The validity rule: every loop is over a rank variable indexing every tensor not held yet. `heldT` = tensors
with a holder above. -/
def validOk (s : SpecDesc) : List TId → Mapping Nat → Bool
  | _, [] => true
  | heldT, .loop rv _ :: r =>
    (List.range s.nTensors).all (fun t => heldT.contains t || s.relevant t rv) && validOk s heldT r
  | heldT, .storage _ ts _ :: r => validOk s (ts ++ heldT) r
  | heldT, _ :: r => validOk s heldT r

/-- **The mapspace, declaratively.** -/
def inSpace (s : SpecDesc) (m : Mapping Nat) : Bool :=
  endsWithCompute m && m.all (nodeOk s) && loopsOk s.bounds m &&
  nodupB (holderKeys m) && choiceOk s (holderKeys m) && orderOk s.forceOrder (holderKeys m) &&
  topOk false m && validOk s [] m

/-! ## Enumerator -/

/-- All sub-lists (as sets: every subset of a duplicate-free list, in the list's order). -/
def subsets {α : Type} : List α → List (List α)
  | [] => [[]]
  | a :: l => (subsets l).map (a :: ·) ++ subsets l

def allKeys (s : SpecDesc) : List Key :=
  (List.range s.nLevels).flatMap (fun l => (List.range s.nTensors).map (fun t => (l, t)))

/-- The sets of (level, tensor) pairs that may be held. -/
def choices (s : SpecDesc) : List (List Key) := (subsets (allKeys s)).filter (choiceOk s)

/-- Enumeration state. -/
structure St where
  shape : List Nat       -- current tile shape per rank variable
  todo : List Key        -- storage nodes still to be placed
  seenLoop : Bool
  heldT : List TId       -- tensors with a holder above
  deriving Repr

/-- May the storage node `k` be placed now? -/
def placeable (s : SpecDesc) (σ : St) (k : Key) : Bool :=
  (σ.todo.erase k).all (above s.forceOrder k) && !(σ.seenLoop && k.1 == 0)

/-- Proper divisors `1 ≤ tile < cur`, `tile ∣ cur`. -/
def tilesOf (cur : Nat) : List Nat := (List.range cur).filter (fun t => decide (1 ≤ t) && (cur % t == 0))

/-- The loops that may be placed now. -/
def loopOptions (s : SpecDesc) (σ : St) : List (RV × Nat) :=
  ((List.range σ.shape.length).filter (fun rv =>
      (List.range s.nTensors).all (fun t => σ.heldT.contains t || s.relevant t rv))).flatMap
    (fun rv => (tilesOf (σ.shape.getD rv 1)).map (fun tile => (rv, tile)))

def St.afterStorage (σ : St) (k : Key) : St := { σ with todo := σ.todo.erase k, heldT := k.2 :: σ.heldT }
def St.afterLoop (σ : St) (rv : RV) (tile : Nat) : St := { σ with shape := σ.shape.set rv tile, seenLoop := true }
def St.done (σ : St) : Bool := σ.todo.isEmpty && σ.shape.all (· == 1)

/-- Everything that can be grown from state `σ` (each result ends with `compute`). -/
def gen (s : SpecDesc) : Nat → St → List (Mapping Nat)
  | 0, _ => []
  | fuel + 1, σ =>
    (if σ.done then [[Node.compute]] else []) ++
    (σ.todo.filter (placeable s σ)).flatMap (fun k =>
      (gen s fuel (σ.afterStorage k)).map (fun r => Node.storage k.1 [k.2] true :: r)) ++
    (loopOptions s σ).flatMap (fun p =>
      (gen s fuel (σ.afterLoop p.1 p.2)).map (fun r => Node.loop p.1 p.2 :: r))

def St.init (s : SpecDesc) (ch : List Key) : St := { shape := s.bounds, todo := ch, seenLoop := false, heldT := [] }

def sumNat (l : List Nat) : Nat := l.foldr (· + ·) 0

/-- Enough fuel: every step removes a storage node from `todo` or strictly shrinks a tile shape. -/
def St.measure (σ : St) : Nat := σ.todo.length + sumNat σ.shape

/-- **The mapspace, enumerated.** -/
def all (s : SpecDesc) : List (Mapping Nat) :=
  (choices s).flatMap (fun ch => gen s ((St.init s ch).measure + 1) (St.init s ch))

/-- `gen` as a fold: `f` is called on every complete mapping, nothing is materialised. `pre` = nodes above, reversed. -/
def foldGen {β : Type} (s : SpecDesc) (f : β → Mapping Nat → β) : Nat → St → List (Node Nat) → β → β
  | 0, _, _, acc => acc
  | fuel + 1, σ, pre, acc =>
    let acc := if σ.done then f acc (pre.reverse ++ [Node.compute]) else acc
    let acc := (σ.todo.filter (placeable s σ)).foldl (fun a k =>
      foldGen s f fuel (σ.afterStorage k) (Node.storage k.1 [k.2] true :: pre) a) acc
    (loopOptions s σ).foldl (fun a p =>
      foldGen s f fuel (σ.afterLoop p.1 p.2) (Node.loop p.1 p.2 :: pre) a) acc

/-- `(all s).foldl f init` without the list. -/
def foldAll {β : Type} (s : SpecDesc) (f : β → Mapping Nat → β) (init : β) : β :=
  (choices s).foldl (fun a ch => foldGen s f ((St.init s ch).measure + 1) (St.init s ch) [] a) init

/-- Every `k`-th storage choice starting with the `i`-th (to split a scan over several processes). -/
def everyKth {α : Type} (i k : Nat) : List α → List α
  | [] => []
  | a :: l => if i == 0 then a :: everyKth (k - 1) k l else everyKth (i - 1) k l

/-- The part of `all s` grown from the storage choices number `i, i + k, i + 2k, …`. -/
def allPart (s : SpecDesc) (i k : Nat) : List (Mapping Nat) :=
  (everyKth i k (choices s)).flatMap (fun ch => gen s ((St.init s ch).measure + 1) (St.init s ch))

def foldAllPart {β : Type} (s : SpecDesc) (i k : Nat) (f : β → Mapping Nat → β) (init : β) : β :=
  (everyKth i k (choices s)).foldl (fun a ch => foldGen s f ((St.init s ch).measure + 1) (St.init s ch) [] a) init

/-! ## Costs -/

/-- What the properties observe of a mapping. -/
structure Cost where
  energy : Rat
  latency : Rat
  usage : List Rat      -- per level of the architecture; 0 for unused or infinite memories
  deriving Repr, DecidableEq

def usageOf (s : SpecDesc) (r : Result Rat) : List Rat :=
  (List.range s.nLevels).map (fun l =>
    if s.infSize.getD l false then 0 else (lookup r.memUsage l).getD 0)

/-- Model evaluation of one mapping (`none` = the analysis raises). -/
def cost (s : SpecDesc) (m : Mapping Nat) : Option Cost :=
  match analytic s.arch s.workload (castMapping m) with
  | none => none
  | some r => some { energy := r.totalEnergy, latency := r.totalLatency, usage := usageOf s r }

def Cost.fits (c : Cost) : Bool := c.usage.all (fun u => decide (u ≤ 1))

/-- Strictly within capacity: no memory is filled exactly.  (Used to delimit a defect of the real mapper, whose
float32 capacity check `usage <= 1` rejects some mappings that fill a memory exactly: see `Props/C01.lean`.) -/
def Cost.fitsStrict (c : Cost) : Bool := c.usage.all (fun u => decide (u < 1))

inductive Metric | energy | latency | edp
  deriving DecidableEq, Repr

def Metric.eval : Metric → Cost → Rat
  | .energy, c => c.energy
  | .latency, c => c.latency
  | .edp, c => c.energy * c.latency

/-- Costs of the valid (evaluable, within capacity) members of a list of mappings. -/
def validCosts (s : SpecDesc) (ms : List (Mapping Nat)) : List Cost :=
  ms.filterMap (fun m => match cost s m with
    | some c => if c.fits then some c else none
    | none => none)

/-- Costs of the members that leave every memory strictly below its size. -/
def validCostsStrict (s : SpecDesc) (ms : List (Mapping Nat)) : List Cost :=
  (validCosts s ms).filter Cost.fitsStrict

/-- Minimum of a rational-valued function (`none` on the empty list). -/
def minQ {α : Type} (g : α → Rat) : List α → Option Rat
  | [] => none
  | a :: l => match minQ g l with
    | none => some (g a)
    | some m => some (if g a ≤ m then g a else m)

/-- **`refBest`**: the best value of a metric over every valid mapping of the mapspace. -/
def refBest (metric : Metric) (s : SpecDesc) : Option Rat := minQ metric.eval (validCosts s (all s))

/-- The optimum over the mappings that fill no memory exactly. -/
def refBestStrict (metric : Metric) (s : SpecDesc) : Option Rat := minQ metric.eval (validCostsStrict s (all s))

/-- Exact scaling of a rational to an integer: `q · D`, `none` if that is not an integer. -/
def scaleQ (D : Nat) (q : Rat) : Option Int :=
  let x := q * (D : Rat)
  if x.den == 1 then some x.num else none

/-- Which coordinates make up an objective vector. -/
structure Objs where
  energy : Bool
  latency : Bool
  usage : Bool
  deriving Repr

def Cost.vecQ (o : Objs) (c : Cost) : List Rat :=
  (if o.energy then [c.energy] else []) ++ (if o.latency then [c.latency] else []) ++ (if o.usage then c.usage else [])

/-- All values, if none is missing. -/
def optAll {α : Type} : List (Option α) → Option (List α)
  | [] => some []
  | none :: _ => none
  | some a :: r => (optAll r).map (a :: ·)

def scaleVec (D : Nat) (v : List Rat) : Option Vec := optAll (v.map (scaleQ D))

/-- **`refFront`**: Pareto front of the objective vectors (scaled by `D` to integers) of every valid mapping.
`none` if `D` does not clear some denominator (the driver then reports an error; nothing is rounded). -/
def refFront (o : Objs) (D : Nat) (s : SpecDesc) : Option (List Vec) :=
  (optAll ((validCosts s (all s)).map (fun c => scaleVec D (c.vecQ o)))).map front


/-! ## Two Einsums sharing one intermediate tensor -/

structure Spec2 where
  s0 : SpecDesc
  s1 : SpecDesc
  /-- id of the intermediate tensor in Einsum 0 (where it is the output) and in Einsum 1 (an input) -/
  x0 : TId
  x1 : TId
  deriving Repr

/-- Index of the first storage node holding tensor `x` (its backing holder) and that node's level. -/
def backingAt (x : TId) : Nat → Mapping Nat → Option (Nat × Lvl)
  | _, [] => none
  | i, .storage l ts _ :: r => if ts.contains x then some (i, l) else backingAt x (i + 1) r
  | i, _ :: r => backingAt x (i + 1) r

def loopsOf : Mapping Nat → List (RV × Nat)
  | [] => []
  | .loop rv t :: r => (rv, t) :: loopsOf r
  | _ :: r => loopsOf r

/-- What two halves of a fused mapping must agree on: the level of the intermediate tensor's backing holder and
the loops above it (the fused loops). `none`: the tensor is not held, or two fused loops share a rank variable
(`max_fused_loops_per_rank_variable = 1`). -/
def fusedKey (x : TId) (m : Mapping Nat) : Option (Lvl × List (RV × Nat)) :=
  match backingAt x 0 m with
  | none => none
  | some (i, lx) =>
    let loops := loopsOf (m.take i)
    if nodupB (loops.map (·.1)) then some (lx, loops) else none

def compatible (S : Spec2) (m0 m1 : Mapping Nat) : Bool :=
  match fusedKey S.x0 m0, fusedKey S.x1 m1 with
  | some k0, some k1 => decide (k0 = k1)
  | _, _ => false

/-- **The fused mapspace**: compatible pairs of per-Einsum mappings. -/
def all2 (S : Spec2) : List (Mapping Nat × Mapping Nat) :=
  (all S.s0).flatMap (fun m0 => ((all S.s1).filter (compatible S m0)).map (fun m1 => (m0, m1)))

/-- One Einsum's half of a fused mapping as the combination rule sees it. Occupancies in bits per level. -/
structure Half where
  key : Lvl × List (RV × Nat)
  energy : Rat
  latency : Rat
  shared : List Rat      -- holders standing in the shared prefix (without the intermediate's backing holder)
  inter : List Rat       -- the intermediate tensor's backing holder
  loc : List Rat         -- the remaining holders (branch-local)
  deriving Repr, DecidableEq

def sumOcc (occ : List (Lvl × TId × Rat)) (l : Lvl) (p : Key → Bool) : Rat :=
  ((occ.filter (fun x => x.1 == l && p (x.1, x.2.1))).map (fun x => x.2.2)).foldr (· + ·) 0

def half (s : SpecDesc) (x : TId) (m : Mapping Nat) : Option Half :=
  match fusedKey x m, backingAt x 0 m, analytic s.arch s.workload (castMapping m) with
  | some key, some (i, lx), some r =>
    let preK : List Key := holderKeys (m.take i)
    let lv := List.range s.nLevels
    some { key := key, energy := r.totalEnergy, latency := r.totalLatency
           shared := lv.map (fun l => sumOcc r.occupancy l (fun k => preK.contains k))
           inter := lv.map (fun l => sumOcc r.occupancy l (fun k => k == (lx, x)))
           loc := lv.map (fun l => sumOcc r.occupancy l (fun k => !preK.contains k && !(k == (lx, x)))) }
  | _, _, _ => none

def zipWith3 {α β γ δ : Type} (f : α → β → γ → δ) : List α → List β → List γ → List δ
  | a :: as, b :: bs, c :: cs => f a b c :: zipWith3 f as bs cs
  | _, _, _ => []

/-- Peak occupancy (bits per level) of the fused tree: shared holders of both + the intermediate once + the larger branch. -/
def peakBits (a b : Half) : List Rat :=
  zipWith3 (fun sh i lo => sh + i + lo) (List.zipWith (· + ·) a.shared b.shared) a.inter
    (List.zipWith (fun x y => if x ≤ y then y else x) a.loc b.loc)

/-- Cost of a fused pair of halves with equal keys (ASSUMED additivity, see the file header). -/
def combine (s : SpecDesc) (a b : Half) : Option Cost :=
  if a.key = b.key then
    some { energy := a.energy + b.energy, latency := a.latency + b.latency
           usage := (List.zipWith (fun (l : Lvl) (bits : Rat) =>
             if s.infSize.getD l false then 0 else bits / (s.arch.levels.getD l Level.dflt).size)
             (List.range s.nLevels) (peakBits a b)) }
  else none

def cost2 (S : Spec2) (p : Mapping Nat × Mapping Nat) : Option Cost :=
  match half S.s0 S.x0 p.1, half S.s1 S.x1 p.2 with
  | some a, some b => combine S.s0 a b
  | _, _ => none

def validCosts2 (S : Spec2) (ps : List (Mapping Nat × Mapping Nat)) : List Cost :=
  ps.filterMap (fun p => match cost2 S p with
    | some c => if c.fits then some c else none
    | none => none)

def refBest2 (metric : Metric) (S : Spec2) : Option Rat := minQ metric.eval (validCosts2 S (all2 S))

def refFront2 (o : Objs) (D : Nat) (S : Spec2) : Option (List Vec) :=
  (optAll ((validCosts2 S (all2 S)).map (fun c => scaleVec D (c.vecQ o)))).map front

end AFV.Mapspace
