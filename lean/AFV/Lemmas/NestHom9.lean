import AFV.Lemmas.NestHom8
namespace AFV.Nest

variable {α β : Type}
  [Add α] [Mul α] [Div α] [Max α] [Sub α] [OfNat α 0] [OfNat α 1]
  [Add β] [Mul β] [Div β] [Max β] [Sub β] [OfNat β 0] [OfNat β 1]
variable {f : α → β}

def quadMap (f : α → β) (x : Lvl × TId × α × α) : Lvl × TId × β × β := (x.1, x.2.1, f x.2.2.1, f x.2.2.2)

theorem levelIds_map (arch : Arch α) : levelIds (arch.map f) = levelIds arch := by
  simp [levelIds, Arch.map]

theorem actsA_map (hf : IsHom f) (arch : Arch α) (bs : List (Buffet α)) :
    actsA (arch.map f) (bs.map (Buffet.map f)) = (actsA arch bs).map (quadMap f) := by
  simp only [actsA, List.map_map]
  apply List.map_congr_left
  intro b _
  simp only [Function.comp, quadMap, Buffet.map, lvOf_map hf, netRead_map hf, netWrite_map hf, hf.mul]
  rfl

theorem ensA_map (hf : IsHom f) (arch : Arch α) (bs : List (Buffet α)) :
    ensA (arch.map f) (bs.map (Buffet.map f)) = (ensA arch bs).map (quadMap f) := by
  simp only [ensA, actsA_map hf, List.map_map]
  apply List.map_congr_left
  rintro ⟨l, t, r, wr⟩ _
  simp only [Function.comp, quadMap, lvOf_map hf, hf.mul]
  rfl

theorem usedA_map (arch : Arch α) (bs : List (Buffet α)) : usedA (arch.map f) (bs.map (Buffet.map f)) = usedA arch bs := by
  simp only [usedA, levelIds_map, any_lvl_map]

theorem latsA_map (hf : IsHom f) (arch : Arch α) (bs : List (Buffet α)) :
    latsA (arch.map f) (bs.map (Buffet.map f)) = (latsA arch bs).map (fun x => (x.1, f x.2)) := by
  simp only [latsA, usedA_map, List.map_map, latEntry_map hf]
  rfl

theorem ccA_map (hf : IsHom f) (arch : Arch α) (w : Workload α) (m : Mapping α) :
    ccA (arch.map f) (w.map f) (m.map (Node.map f)) = f (ccA arch w m) := by
  have : (w.map f).bounds = w.bounds.map f := rfl
  simp only [ccA, this, computeOps_map hf, hf.mul]; rfl

theorem compLatA_map (hf : IsHom f) (arch : Arch α) (w : Workload α) (m : Mapping α) :
    compLatA (arch.map f) (w.map f) (m.map (Node.map f)) = f (compLatA arch w m) := by
  have : (w.map f).bounds = w.bounds.map f := rfl
  simp only [compLatA, this, computeOps_map hf, hf.mul, hf.div]; rfl

theorem overallA_map (hf : IsHom f) (arch : Arch α) (w : Workload α) (m : Mapping α) (bs : List (Buffet α)) :
    overallA (arch.map f) (w.map f) (m.map (Node.map f)) (bs.map (Buffet.map f)) = f (overallA arch w m bs) := by
  simp only [overallA, compLatA_map hf, latsA_map hf, List.map_map]
  rw [← maxList_map hf, List.map_map]
  rfl

theorem dynA_map (hf : IsHom f) (arch : Arch α) (w : Workload α) (m : Mapping α) (bs : List (Buffet α)) :
    dynA (arch.map f) (w.map f) (m.map (Node.map f)) (bs.map (Buffet.map f)) = f (dynA arch w m bs) := by
  simp only [dynA, ensA_map hf, ccA_map hf, List.map_map, hf.add, hf.mul]
  rw [← sumList_map hf, List.map_map]
  congr 2
  apply List.map_congr_left
  rintro ⟨l, t, r, wr⟩ _
  simp [Function.comp, quadMap, hf.add]

theorem leakA_map (hf : IsHom f) (arch : Arch α) (ov : α) : leakA (arch.map f) (f ov) = f (leakA arch ov) := by
  simp only [leakA, Arch.map, List.map_map, hf.add, hf.mul]
  rw [← sumList_map hf, List.map_map]
  congr 2
  apply List.map_congr_left
  intro lv _
  simp [Function.comp, Level.map, hf.mul]

end AFV.Nest
