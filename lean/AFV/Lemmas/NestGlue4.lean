import AFV.Lemmas.NestGlue3
namespace AFV.Nest
open AFV.NestExec

theorem wfT_of_wf (arch : Arch Rat) (ntens : Nat) (ti : TInfo) (m : Mapping Nat) :
    ∀ (hp : Bool) (shape : List Nat), (∀ x ∈ shape, 1 ≤ x) → wfLoops shape m = true →
      (∀ n ∈ m, wfNode arch ntens n = true) → (hp = true ∨ backedByMemory ti.t m = true) →
      wfT arch ti hp shape m := by
  induction m with
  | nil => intro hp shape _ h; simp [wfLoops] at h
  | cons n r ih =>
    intro hp shape hpos hl hn hb
    have hn' : ∀ n ∈ r, wfNode arch ntens n = true := fun n h => hn n (List.mem_cons_of_mem _ h)
    cases n with
    | compute =>
      cases r with
      | nil =>
        simp only [wfLoops, List.all_eq_true, beq_iff_eq] at hl
        refine ⟨?_, rfl⟩
        intro rv _
        simp only [List.getD]
        cases h : shape[rv]? with
        | none => rfl
        | some v => simpa using hl v (List.mem_of_getElem? h)
      | cons x xs => simp [wfLoops] at hl
    | loop rv tile =>
      simp only [wfLoops, Bool.and_eq_true, decide_eq_true_eq, beq_iff_eq] at hl
      obtain ⟨⟨⟨h1, h2⟩, h3⟩, h4⟩ := hl
      have hposrv : 0 < shape.getD rv 1 := by
        simp only [List.getD, List.getElem?_eq_getElem h1, Option.getD_some]
        exact hpos _ (List.getElem_mem h1)
      refine ⟨h1, h2, hposrv, Nat.dvd_of_mod_eq_zero h3, ?_⟩
      refine ih hp _ ?_ h4 hn' (by simpa [backedByMemory] using hb)
      intro x hx
      rcases List.mem_or_eq_of_mem_set hx with h | h
      · exact hpos x h
      · omega
    | storage l ts lo =>
      obtain ⟨_, hmem, _, _, _⟩ := wfNode_storage arch ntens l ts lo (hn _ (List.mem_cons_self ..))
      have hl' : wfLoops shape r = true := by simpa [wfLoops] using hl
      simp only [wfT]
      split
      · exact ⟨hmem, ih true shape hpos hl' hn' (Or.inl rfl)⟩
      · rename_i hc
        refine ih hp shape hpos hl' hn' ?_
        rcases hb with h | h
        · exact Or.inl h
        · right; rw [backedByMemory, if_neg hc] at h; exact h
    | toll l ts lo =>
      obtain ⟨_, htoll, _, _, _⟩ := wfNode_toll arch ntens l ts lo (hn _ (List.mem_cons_self ..))
      have hl' : wfLoops shape r = true := by simpa [wfLoops] using hl
      simp only [wfT]
      split
      · rename_i hc
        have hhp : hp = true := by
          rcases hb with h | h
          · exact h
          · rw [backedByMemory, if_pos hc] at h; exact absurd h (by simp)
        exact ⟨hhp, htoll, ih true shape hpos hl' hn' (Or.inl rfl)⟩
      · rename_i hc
        refine ih hp shape hpos hl' hn' ?_
        rcases hb with h | h
        · exact Or.inl h
        · right; rw [backedByMemory, if_neg hc] at h; exact h

/-- The hypotheses extracted from the decidable `WF`. -/
structure WFfacts (arch : Arch Rat) (w : Workload Nat) (m : Mapping Nat) : Prop where
  bounds : ∀ x ∈ w.bounds, 1 ≤ x
  tensors : ∀ ts ∈ w.tensors, (∀ rv ∈ ts.rvs, rv < w.bounds.length) ∧ ts.rvs.Nodup
  loops : wfLoops w.bounds m = true
  nodes : ∀ n ∈ m, wfNode arch w.tensors.length n = true
  keys : (holderKeys m).Nodup
  backed : ∀ t, t < w.tensors.length → backedByMemory t m = true

theorem wf_facts (arch : Arch Rat) (w : Workload Nat) (m : Mapping Nat) (h : WF arch w m = true) : WFfacts arch w m := by
  simp only [WF, Bool.and_eq_true, List.all_eq_true, decide_eq_true_eq] at h
  obtain ⟨⟨⟨⟨⟨h1, h2⟩, h3⟩, h4⟩, h5⟩, h6⟩ := h
  refine ⟨h1, ?_, h3, h4, (nodupB_iff _).1 h5, fun t ht => h6 t (List.mem_range.2 ht)⟩
  intro ts hts
  have := h2 ts hts
  simp only [wfTensor, Bool.and_eq_true, List.all_eq_true, decide_eq_true_eq] at this
  exact ⟨this.1, (nodupB_iff _).1 this.2⟩

end AFV.Nest
