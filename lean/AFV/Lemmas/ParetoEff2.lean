import AFV.Lemmas.ParetoEff
/-!
`leqAll` on the effective rows = `leqOpt` of the specification on the original rows (under H-cast).
-/
namespace AFV.Pareto

/-- the effective `min`/`max` column produced by goal `gc` (if any). -/
def genS (cfg : Cfg) (data : List Row) (gc : Goal × Nat) : Option (List EV) :=
  match gc.1 with
  | .min => if isConst (column data gc.2) then none else some ((column data gc.2).map cfg.cast)
  | .max => if isConst (column data gc.2) then none
            else some ((column data gc.2).map fun v => EV.neg (cfg.cast v))
  | _ => none

/-- the effective prime-count columns produced by goal `gc`. -/
def genE (cfg : Cfg) (data : List Row) (gc : Goal × Nat) : List (List EV) :=
  match gc.1 with
  | .minPPF => (ppfCols cfg.one ((column data gc.2).map (natOf cfg.one))).filter (!isConst ·)
  | .maxPPF => ((ppfCols cfg.one ((column data gc.2).map (natOf cfg.one))).filter (!isConst ·)).map
                  (·.map EV.neg)
  | _ => []

theorem simpleCols_eq (cfg : Cfg) (goals : List Goal) (data : List Row) :
    simpleCols cfg goals data = goals.zipIdx.filterMap (genS cfg data) := rfl

theorem extraCols_eq (cfg : Cfg) (goals : List Goal) (data : List Row) :
    extraCols cfg goals data = goals.zipIdx.flatMap (genE cfg data) := rfl

theorem cast_le_iff {cast : EV → EV} {col : List EV}
    (hc : ∀ a ∈ col, ∀ b ∈ col, EV.lt a b = true → EV.lt (cast a) (cast b) = true)
    {a b : EV} (ha : a ∈ col) (hb : b ∈ col) :
    EV.le (cast a) (cast b) = true ↔ EV.le a b = true := by
  constructor
  · intro h
    cases hab : EV.le a b
    · have := hc b hb a ha (by simp [EV.lt, hab])
      simp [EV.lt, h] at this
    · rfl
  · intro h
    rcases EV.lt_or_eq_of_le h with h' | rfl
    · exact EV.lt_imp_le (hc a ha b hb h')
    · exact EV.le_refl _

theorem cell_map_neg (c : List EV) (j : Nat) : cell (c.map EV.neg) j = EV.neg (cell c j) := by
  simp only [cell, List.getD_eq_getElem?_getD, List.getElem?_map]
  cases c[j]? <;> simp [EV.neg]

/-- what goal `gc` contributes to the comparison of the effective rows `j`, `i`. -/
theorem gen_leq (cfg : Cfg) (data : List Row) (h1 : 0 < cfg.one) (gc : Goal × Nat)
    (hc : (gc.1 = .min ∨ gc.1 = .max) → ∀ a ∈ column data gc.2, ∀ b ∈ column data gc.2,
      EV.lt a b = true → EV.lt (cfg.cast a) (cfg.cast b) = true)
    {j i : Nat} (hj : j < data.length) (hi : i < data.length) :
    (∀ col ∈ (genS cfg data gc).toList ++ genE cfg data gc, EV.le (cell col j) (cell col i) = true) ↔
      leqGoal cfg.one gc.1 (cell (data.getD j []) gc.2) (cell (data.getD i []) gc.2) = true := by
  obtain ⟨g, c⟩ := gc
  have hmj : cell (data.getD j []) c ∈ column data c := cell_mem_map_data data (cell · c) hj
  have hmi : cell (data.getD i []) c ∈ column data c := cell_mem_map_data data (cell · c) hi
  cases g with
  | min =>
    simp only [genS, genE, leqGoal, List.append_nil]
    split
    · rename_i hconst
      simp only [Option.toList_none, List.not_mem_nil, false_imp_iff, implies_true, true_iff]
      rw [isConst_spec hconst _ hmj _ hmi]; exact EV.le_refl _
    · simp only [Option.toList_some, List.mem_singleton, forall_eq, column, List.map_map]
      rw [cell_map_data data _ hj, cell_map_data data _ hi]
      exact cast_le_iff (hc (Or.inl rfl)) hmj hmi
  | max =>
    simp only [genS, genE, leqGoal, List.append_nil]
    split
    · rename_i hconst
      simp only [Option.toList_none, List.not_mem_nil, false_imp_iff, implies_true, true_iff]
      rw [isConst_spec hconst _ hmj _ hmi]; exact EV.le_refl _
    · simp only [Option.toList_some, List.mem_singleton, forall_eq, column, List.map_map]
      rw [cell_map_data data _ hj, cell_map_data data _ hi]
      simp only [Function.comp, EV.le_neg_neg]
      exact cast_le_iff (hc (Or.inr rfl)) hmi hmj
  | diff => simp [genS, genE, leqGoal]
  | minPPF =>
    simp only [genS, genE, leqGoal, Option.toList_none, List.nil_append]
    rw [ppfCols_leq h1 _ (by simpa [column] using hj) (by simpa [column] using hi)]
    simp only [column, List.map_map, List.getD_eq_getElem?_getD, List.getElem?_map,
      List.getElem?_eq_getElem hj, List.getElem?_eq_getElem hi, Option.map_some, Option.getD_some,
      Function.comp]
  | maxPPF =>
    simp only [genS, genE, leqGoal, Option.toList_none, List.nil_append, List.mem_map,
      forall_exists_index, and_imp, forall_apply_eq_imp_iff₂, cell_map_neg, EV.le_neg_neg]
    rw [ppfCols_leq h1 _ (by simpa [column] using hi) (by simpa [column] using hj)]
    simp only [column, List.map_map, List.getD_eq_getElem?_getD, List.getElem?_map,
      List.getElem?_eq_getElem hj, List.getElem?_eq_getElem hi, Option.map_some, Option.getD_some,
      Function.comp]

theorem Hcast_spec {cfg : Cfg} {goals : List Goal} {data : List Row} (h : Hcast cfg goals data = true)
    (gc : Goal × Nat) (hgc : gc ∈ goals.zipIdx) (hg : gc.1 = .min ∨ gc.1 = .max) :
    ∀ a ∈ column data gc.2, ∀ b ∈ column data gc.2,
      EV.lt a b = true → EV.lt (cfg.cast a) (cfg.cast b) = true := by
  have := List.all_eq_true.mp h gc hgc
  rcases hg with hg | hg <;>
  · simp only [hg, bne_self_eq_false, Bool.false_and, Bool.and_false, Bool.false_or,
      List.all_eq_true, Bool.or_eq_true, Bool.not_eq_true'] at this
    intro a ha b hb hab
    rcases this a ha b hb with h' | h'
    · rw [hab] at h'; exact Bool.noConfusion h'
    · exact h'

/-- **effective rows compare like the specification's objective columns.** -/
theorem leqAll_eff (cfg : Cfg) (goals : List Goal) (data : List Row) (h1 : 0 < cfg.one)
    (hcast : Hcast cfg goals data = true) {j i : Nat} (hj : j < data.length) (hi : i < data.length) :
    leqAll (effCols cfg goals data).length (effRow (effCols cfg goals data) j)
        (effRow (effCols cfg goals data) i) =
      leqOpt cfg.one goals (data.getD j []) (data.getD i []) := by
  rw [Bool.eq_iff_iff, leqAll_effRow]
  unfold effCols leqOpt
  rw [simpleCols_eq, extraCols_eq, List.all_eq_true]
  constructor
  · intro h gc hgc
    rw [← gen_leq cfg data h1 gc (Hcast_spec hcast gc hgc) hj hi]
    intro col hcol
    apply h
    rcases List.mem_append.mp hcol with hcol | hcol
    · exact List.mem_append_left _ (List.mem_filterMap.mpr ⟨gc, hgc, by
        cases hs : genS cfg data gc <;> simp_all⟩)
    · exact List.mem_append_right _ (List.mem_flatMap.mpr ⟨gc, hgc, hcol⟩)
  · intro h col hcol
    rcases List.mem_append.mp hcol with hcol | hcol
    · obtain ⟨gc, hgc, hs⟩ := List.mem_filterMap.mp hcol
      exact (gen_leq cfg data h1 gc (Hcast_spec hcast gc hgc) hj hi).mpr (h gc hgc) col
        (List.mem_append_left _ (by simp [hs]))
    · obtain ⟨gc, hgc, hs⟩ := List.mem_flatMap.mp hcol
      exact (gen_leq cfg data h1 gc (Hcast_spec hcast gc hgc) hj hi).mpr (h gc hgc) col
        (List.mem_append_right _ hs)

/-- dominance on the effective rows = the strict part of `leqOpt`. -/
theorem domV_eff (cfg : Cfg) (goals : List Goal) (data : List Row) (h1 : 0 < cfg.one)
    (hcast : Hcast cfg goals data = true) {j i : Nat} (hj : j < data.length) (hi : i < data.length) :
    domV (effCols cfg goals data).length (effRow (effCols cfg goals data) j)
        (effRow (effCols cfg goals data) i) =
      (leqOpt cfg.one goals (data.getD j []) (data.getD i []) &&
        !leqOpt cfg.one goals (data.getD i []) (data.getD j [])) := by
  unfold domV
  rw [anyLt_eq_not_leqAll, leqAll_eff cfg goals data h1 hcast hj hi,
    leqAll_eff cfg goals data h1 hcast hi hj]

end AFV.Pareto
