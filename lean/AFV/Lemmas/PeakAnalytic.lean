import AFV.Lemmas.PeakWF
import AFV.Lemmas.NestHom8
import AFV.Lemmas.NestScale2
import AFV.Lemmas.NestFinal4
/-!
# PeakAnalytic — the bits `analytic` reports for a memory are the sizes of its Reservation nodes
-/
namespace AFV.PeakSingle
open AFV.Nest AFV.NestExec AFV.FusedPeak

abbrev cst : Nat → Rat := fun n => (n : Rat)

/-- occupancy of level `l` recorded in a buffet table -/
def occ (l : Nat) : Table Rat → Rat
  | [] => 0
  | (.mem l', s) :: r => (if l' = l then s.maxOccupancy else 0) + occ l r
  | (.comp, _) :: r => occ l r

theorem occ_map (l : Nat) (n : Rat) (rel : Bool) (tb : Table Rat) :
    occ l (tb.map (fun x => (x.1, x.2.repeatTemporal n rel))) = occ l tb := by
  induction tb with
  | nil => rfl
  | cons x r ih =>
    obtain ⟨k, s⟩ := x
    cases k with
    | mem l' => simp only [List.map_cons, occ, ih]; rfl
    | comp => simp only [List.map_cons, occ, ih]

theorem occ_set (l : Nat) (tb : Table Rat) (k : BKey) (s s' : Stats Rat) (hf : Table.find tb k = some s)
    (hm : s'.maxOccupancy = s.maxOccupancy) : occ l (Table.set tb k s') = occ l tb := by
  induction tb with
  | nil => simp [Table.find] at hf
  | cons x r ih =>
    obtain ⟨k', s0⟩ := x
    simp only [Table.find] at hf
    simp only [Table.set]
    by_cases hk : k' = k
    · rw [if_pos hk] at hf ⊢
      simp only [Option.some.injEq] at hf
      subst hf
      cases k' <;> simp [occ, hm]
    · rw [if_neg hk] at hf ⊢
      cases k' <;> simp [occ, ih hf]

theorem getShape_cast (shape : List Nat) (rv : Nat) : getShape (shape.map cst) rv = ((shape.getD rv 1 : Nat) : Rat) := by
  simp only [getShape, List.getD, List.getElem?_map]
  cases shape[rv]? <;> simp [cst]

theorem foldl_mul_cast (shape : List Nat) (rvs : List Nat) : ∀ a : Nat,
    (((rvs.map (fun rv => shape.getD rv 1)).foldl (· * ·) a : Nat) : Rat) = (a : Rat) * tileSize (shape.map cst) rvs := by
  induction rvs with
  | nil => intro a; simp [tileSize]
  | cons rv r ih =>
    intro a
    simp only [List.map_cons, List.foldl_cons, ih, tileSize, getShape_cast, Nat.cast_mul]
    ring

theorem tileSize_cast (W : FusedPeak.Workload) (t : Nat) (shape : List Nat) (rvs : List Nat) (h : rvs = W.tensorRvs.getD t []) :
    tileSize (shape.map cst) rvs = ((tileElems W t shape : Nat) : Rat) := by
  simp only [tileElems, ← h]
  rw [foldl_mul_cast]
  simp

theorem set_cast (shape : List Nat) (rv tile : Nat) : (shape.map cst).set rv (cst tile) = (shape.set rv tile).map cst := by
  simp [List.map_set]

def labelsOK (t : Nat) : List (RNode Nat) → Prop
  | [] => True
  | .reservation t' _ :: r => t' = t ∧ labelsOK t r
  | .node _ :: r => labelsOK t r

def noTollR : List (RNode Nat) → Prop
  | [] => True
  | .node (.toll _ _ _) :: _ => False
  | _ :: r => noTollR r

/-- **The table produced by the per-tensor analysis records, per level, the sizes of the tensor's Reservation nodes.** -/
theorem occ_analyze (c : Ctx Rat) (W : FusedPeak.Workload) (l : Nat) (hrv : c.spec.rvs = W.tensorRvs.getD c.t [])
    (hbits : ∀ l' lv, c.arch.levels[l']? = some lv → bitsPerValue lv c.t c.spec.bpv = (W.bits.getD l' []).getD c.t 0)
    (L : List (RNode Nat)) : ∀ (hp : Bool) (shape : List Nat) (tb : Table Rat) (ops : Rat), labelsOK c.t L → noTollR L →
      analyzeNodes c hp (shape.map cst) (L.map (RNode.map cst)) = some (tb, ops) → occ l tb = resBits (szOf W) l shape L := by
  induction L with
  | nil => intro hp shape tb ops _ _ h; simp [analyzeNodes] at h
  | cons n r ih =>
    intro hp shape tb ops hlab hnt h
    cases n with
    | reservation t' l' =>
      simp only [labelsOK] at hlab
      obtain ⟨rfl, hlab⟩ := hlab
      simp only [List.map_cons, RNode.map, analyzeNodes] at h
      cases hrec : analyzeNodes c hp (shape.map cst) (r.map (RNode.map cst)) with
      | none => simp [hrec] at h
      | some p =>
        obtain ⟨tb', ops'⟩ := p
        cases hlv : c.arch.levels[l']? with
        | none => simp [hrec, hlv] at h
        | some lv =>
          simp only [hrec, hlv] at h
          split at h
          · simp at h
          · simp only [Option.some.injEq, Prod.mk.injEq] at h
            obtain ⟨rfl, _⟩ := h
            have := ih hp shape tb' ops' hlab (by simpa [noTollR] using hnt) hrec
            simp only [occ, resBits, this, szOf, tileSize_cast W c.t shape _ hrv, hbits l' lv hlv]
    | node nd =>
      cases nd with
      | compute =>
        simp only [List.map_cons, RNode.map, Node.map, analyzeNodes, Option.some.injEq, Prod.mk.injEq] at h
        obtain ⟨rfl, _⟩ := h
        simp [occ, resBits]
      | loop rv tile =>
        simp only [labelsOK] at hlab
        simp only [List.map_cons, RNode.map, Node.map, analyzeNodes] at h
        rw [show (shape.map cst).set rv (cst tile) = (shape.set rv tile).map cst from set_cast shape rv tile] at h
        cases hrec : analyzeNodes c hp ((shape.set rv tile).map cst) (r.map (RNode.map cst)) with
        | none => rw [hrec] at h; simp at h
        | some p =>
          obtain ⟨tb', ops'⟩ := p
          rw [hrec] at h
          simp only [Option.some.injEq, Prod.mk.injEq] at h
          obtain ⟨rfl, _⟩ := h
          rw [occ_map]
          simp only [resBits]
          exact ih hp _ tb' ops' hlab (by simpa [noTollR] using hnt) hrec
      | toll l' ts lo => simp [noTollR] at hnt
      | storage l' ts lo =>
        simp only [labelsOK] at hlab
        simp only [List.map_cons, RNode.map, Node.map, analyzeNodes] at h
        cases hrec : analyzeNodes c true (shape.map cst) (r.map (RNode.map cst)) with
        | none => simp [hrec] at h
        | some p =>
          obtain ⟨tb', ops'⟩ := p
          simp only [hrec, analyzeHolder] at h
          cases hlv : c.arch.levels[l']? with
          | none => simp [hlv] at h
          | some lv =>
            cases hfind : Table.find tb' (BKey.mem l') with
            | none => simp [hlv, hfind] at h
            | some st =>
              simp only [hlv, hfind, Option.map_some, Option.some.injEq, Prod.mk.injEq] at h
              obtain ⟨rfl, _⟩ := h
              rw [occ_set l tb' _ st _ hfind (by simp [holderStats])]
              simp only [resBits]
              exact ih true shape tb' ops' hlab (by simpa [noTollR] using hnt) hrec

/-! ### the output of the state machine: its nodes are those of the mapping -/

def nodesOf : List (RNode Nat) → Mapping Nat
  | [] => []
  | .node n :: r => n :: nodesOf r
  | .reservation _ _ :: r => nodesOf r

theorem nodesOf_append (a b : List (RNode Nat)) : nodesOf (a ++ b) = nodesOf a ++ nodesOf b := by
  induction a with
  | nil => rfl
  | cons x xs ih => cases x <;> simp [nodesOf, ih]

theorem nodesOf_resOf (T : List Tracker) : nodesOf (resOf T) = [] := by
  induction T with
  | nil => rfl
  | cons x xs ih => simpa [resOf, nodesOf] using ih

theorem nodesOf_placeAround (n : Node Nat) (b a : List (RNode Nat)) (hb : nodesOf b = []) (ha : nodesOf a = []) :
    nodesOf (placeAround (.node n) b a) = [n] := by
  simp only [placeAround]
  cases hr : b.reverse with
  | nil => simp [nodesOf_append, ha, nodesOf]
  | cons bk rest =>
    have hbe : b = rest.reverse ++ [bk] := by
      have := congrArg List.reverse hr
      simpa using this
    rw [hbe, nodesOf_append] at hb
    have h1 := (List.append_eq_nil_iff.1 hb).1
    have h2 := (List.append_eq_nil_iff.1 hb).2
    simp [nodesOf, nodesOf_append, h1, h2, ha]

theorem nodesOf_insert (w : Nest.Workload Nat) (m : Mapping Nat) : ∀ trs seen, nodesOf (insertReservationsAux w trs seen m) = m := by
  induction m with
  | nil => intro trs seen; rfl
  | cons n r ih =>
    intro trs seen
    cases n <;>
      simp only [insertReservationsAux, popStopped_spec, nodesOf_append, ih] <;>
      rw [nodesOf_placeAround _ _ _ (nodesOf_resOf _) (nodesOf_resOf _)] <;> rfl

theorem noTollR_of_nodes (L : List (RNode Nat)) (h : noToll (nodesOf L) = true) : noTollR L := by
  induction L with
  | nil => trivial
  | cons x xs ih =>
    cases x with
    | reservation t l => simp only [nodesOf] at h; simp only [noTollR]; exact ih h
    | node n =>
      cases n with
      | toll l ts lo => simp [nodesOf, noToll] at h
      | storage l ts lo => simp only [nodesOf, noToll] at h; simp only [noTollR]; exact ih h
      | loop rv tile => simp only [nodesOf, noToll] at h; simp only [noTollR]; exact ih h
      | compute => simp only [nodesOf, noToll] at h; simp only [noTollR]; exact ih h

theorem noTollR_single (t : Nat) (L : List (RNode Nat)) (h : noTollR L) : noTollR (singleTensor t L) := by
  induction L with
  | nil => trivial
  | cons x xs ih =>
    cases x with
    | reservation t' l => simp only [noTollR] at h; simp only [singleTensor]; split <;> [simp only [noTollR]; skip] <;> exact ih h
    | node n =>
      cases n with
      | toll l ts lo => simp [noTollR] at h
      | storage l ts lo => simp only [noTollR] at h; simp only [singleTensor]; split <;> [simp only [noTollR]; skip] <;> exact ih h
      | loop rv tile => simp only [noTollR] at h; simp only [singleTensor, noTollR]; exact ih h
      | compute => simp only [noTollR] at h; simp only [singleTensor, noTollR]; exact ih h

theorem labelsOK_single (t : Nat) (L : List (RNode Nat)) : labelsOK t (singleTensor t L) := by
  induction L with
  | nil => trivial
  | cons x xs ih =>
    cases x with
    | reservation t' l =>
      simp only [singleTensor]
      split
      · rename_i h; simp only [labelsOK]; exact ⟨h, ih⟩
      · exact ih
    | node n =>
      cases n with
      | toll l ts lo => simp only [singleTensor]; split <;> [simp only [labelsOK]; skip] <;> exact ih
      | storage l ts lo => simp only [singleTensor]; split <;> [simp only [labelsOK]; skip] <;> exact ih
      | loop rv tile => simp only [singleTensor, labelsOK]; exact ih
      | compute => simp only [singleTensor, labelsOK]; exact ih

/-! ### exchanging the sums: per tensor ↔ per node -/

section
variable (l : Nat)

def only (t : Nat) (sz : Nat → Nat → List Nat → Rat) : Nat → Nat → List Nat → Rat := fun t' l' sh => if t' = t then sz t' l' sh else 0

def restrict (t0 n : Nat) (sz : Nat → Nat → List Nat → Rat) : Nat → Nat → List Nat → Rat :=
  fun t' l' sh => if t0 ≤ t' ∧ t' < t0 + n then sz t' l' sh else 0

theorem resBits_single (sz : Nat → Nat → List Nat → Rat) (t : Nat) (L : List (RNode Nat)) : ∀ shape,
    resBits sz l shape (singleTensor t L) = resBits (only t sz) l shape L := by
  induction L with
  | nil => intro shape; rfl
  | cons x xs ih =>
    intro shape
    cases x with
    | reservation t' l' =>
      simp only [singleTensor, resBits, only]
      by_cases h : t' = t
      · simp only [h, if_true, resBits, ih]
      · simp only [h, if_false, ih, ite_self, zero_add]
    | node n =>
      cases n with
      | toll l' ts lo => simp only [singleTensor]; split <;> simp only [resBits, ih]
      | storage l' ts lo => simp only [singleTensor]; split <;> simp only [resBits, ih]
      | loop rv tile => simp only [singleTensor, resBits, ih]
      | compute => simp only [singleTensor, resBits]

theorem resBits_add (sz1 sz2 : Nat → Nat → List Nat → Rat) (L : List (RNode Nat)) : ∀ shape,
    resBits (fun t l' sh => sz1 t l' sh + sz2 t l' sh) l shape L = resBits sz1 l shape L + resBits sz2 l shape L := by
  induction L with
  | nil => intro shape; simp [resBits]
  | cons x xs ih =>
    intro shape
    cases x with
    | reservation t' l' =>
      simp only [resBits, ih]
      split <;> ring
    | node n =>
      cases n with
      | toll l' ts lo => simp only [resBits, ih]
      | storage l' ts lo => simp only [resBits, ih]
      | loop rv tile => simp only [resBits, ih]
      | compute => simp [resBits]

theorem resBits_zero (L : List (RNode Nat)) : ∀ shape, resBits (fun _ _ _ => (0 : Rat)) l shape L = 0 := by
  induction L with
  | nil => intro shape; rfl
  | cons x xs ih =>
    intro shape
    cases x with
    | reservation t' l' => simp [resBits, ih]
    | node n => cases n <;> simp [resBits, ih]

def sumFrom : Nat → Nat → (Nat → Rat) → Rat
  | _, 0, _ => 0
  | t, n + 1, F => F t + sumFrom (t + 1) n F

theorem sumFrom_single (sz : Nat → Nat → List Nat → Rat) (L : List (RNode Nat)) (shape : List Nat) : ∀ n t0,
    sumFrom t0 n (fun t => resBits sz l shape (singleTensor t L)) = resBits (restrict t0 n sz) l shape L := by
  intro n
  induction n with
  | zero =>
    intro t0
    have : restrict t0 0 sz = fun _ _ _ => (0 : Rat) := by
      funext t' l' sh; simp [restrict]
    rw [this, resBits_zero]; rfl
  | succ n ih =>
    intro t0
    simp only [sumFrom]
    rw [ih, resBits_single, ← resBits_add]
    congr 1
    refine funext fun (t' : Nat) => funext fun (l' : Nat) => funext fun sh => ?_
    simp only [only, restrict]
    by_cases h1 : t' = t0
    · subst h1
      have : ¬ (t' + 1 ≤ t' ∧ t' < t' + 1 + n) := by omega
      have h2 : t' ≤ t' ∧ t' < t' + (n + 1) := by omega
      simp [this, h2]
    · by_cases h2 : t0 + 1 ≤ t' ∧ t' < t0 + 1 + n
      · have h3 : t0 ≤ t' ∧ t' < t0 + (n + 1) := by omega
        simp [h1, h2, h3]
      · have h3 : ¬ (t0 ≤ t' ∧ t' < t0 + (n + 1)) := by omega
        simp [h1, h2, h3]

end

/-! ### from the buffets of all tensors to the bits of a memory -/

def occB (l : Nat) : List (Buffet Rat) → Rat
  | [] => 0
  | b :: r => (if b.lvl = l then b.s.maxOccupancy else 0) + occB l r

theorem occB_append (l : Nat) (a b : List (Buffet Rat)) : occB l (a ++ b) = occB l a + occB l b := by
  induction a with
  | nil => simp [occB]
  | cons x xs ih => simp only [List.cons_append, occB, ih]; ring

theorem occB_table (l t : Nat) (tb : Table Rat) : occB l (tableBuffets t tb) = occ l tb := by
  induction tb with
  | nil => rfl
  | cons x r ih =>
    obtain ⟨k, s⟩ := x
    cases k <;> simp [tableBuffets, occB, occ, ih]

theorem enumFrom_get {β : Type} (xs : List β) : ∀ (k i : Nat), (enumFrom k xs)[i]? = xs[i]?.map (fun x => (k + i, x)) := by
  induction xs with
  | nil => intro k i; simp [enumFrom]
  | cons x r ih =>
    intro k i
    cases i with
    | zero => simp [enumFrom]
    | succ i => simp only [enumFrom, List.getElem?_cons_succ, ih]; congr 1; funext y; simp; omega

theorem spec_rvs (arch : Arch Rat) (wq : Nest.Workload Rat) (wn : Nest.Workload Nat) (hc : Compat wq wn) (i : Nat) :
    ({ arch := arch, w := wq, t := i } : Ctx Rat).spec.rvs = (toWorkload arch wq wn).tensorRvs.getD i [] := by
  have h := hc.rvs i
  simp only [Ctx.spec]
  rw [h]
  simp only [toWorkload, List.getD, List.getElem?_map]
  cases wn.tensors[i]? <;> rfl

theorem spec_bits (arch : Arch Rat) (wq : Nest.Workload Rat) (wn : Nest.Workload Nat) (i : Nat) (hi : i < wq.tensors.length)
    (l' : Nat) (lv : Level Rat) (hl : arch.levels[l']? = some lv) :
    bitsPerValue lv i ({ arch := arch, w := wq, t := i } : Ctx Rat).spec.bpv = ((toWorkload arch wq wn).bits.getD l' []).getD i 0 := by
  simp only [Ctx.spec, toWorkload, List.getD, List.getElem?_map, hl, Option.map_some, Option.getD_some, enumFrom_get,
    List.getElem?_eq_getElem hi, Nat.zero_add]

/-- **All buffets of level `l` together: the Reservation nodes of level `l` of every tensor.** -/
theorem occB_all (arch : Arch Rat) (wq : Nest.Workload Rat) (wn : Nest.Workload Nat) (hc : Compat wq wn) (l : Nat)
    (rmN : List (RNode Nat)) (hnt : noTollR rmN) : ∀ (fuel t : Nat) (bs : List (Buffet Rat)), t + fuel ≤ wq.tensors.length →
      allBuffets arch wq (rmN.map (RNode.map cst)) t fuel = some bs →
      occB l bs = sumFrom t fuel (fun i => resBits (szOf (toWorkload arch wq wn)) l wn.bounds (singleTensor i rmN)) := by
  intro fuel
  induction fuel with
  | zero => intro t bs _ h; simp only [allBuffets, Option.some.injEq] at h; subst h; rfl
  | succ n ih =>
    intro t bs ht h
    simp only [allBuffets] at h
    have hb : wq.bounds = wn.bounds.map cst := hc.bounds
    rw [singleTensor_map, hb] at h
    cases ha : analyzeNodes { arch := arch, w := wq, t := t } false (wn.bounds.map cst) ((singleTensor t rmN).map (RNode.map cst)) with
    | none => simp [ha] at h
    | some p =>
      obtain ⟨tb, ops⟩ := p
      cases hr : allBuffets arch wq (rmN.map (RNode.map cst)) (t + 1) n with
      | none => simp [ha, hr] at h
      | some rest =>
        simp only [ha, hr, Option.some.injEq] at h
        subst h
        rw [occB_append, occB_table, sumFrom, ih (t + 1) rest (by omega) hr]
        congr 1
        exact occ_analyze { arch := arch, w := wq, t := t } (toWorkload arch wq wn) l (spec_rvs arch wq wn hc t)
          (spec_bits arch wq wn t (by omega)) (singleTensor t rmN) false wn.bounds tb ops (labelsOK_single t rmN)
          (noTollR_single t rmN hnt) ha

theorem sumList_occ (l : Nat) (bs : List (Buffet Rat)) :
    sumList ((bs.filter (fun b => b.lvl == l)).map (fun b => b.s.maxOccupancy)) = occB l bs := by
  induction bs with
  | nil => rfl
  | cons b r ih =>
    simp only [List.filter_cons, occB]
    by_cases h : b.lvl = l
    · simp only [h, beq_self_eq_true, if_true, List.map_cons, sumList, List.foldr_cons] at ih ⊢
      rw [ih]
    · have : (b.lvl == l) = false := by simpa using h
      simp only [this, Bool.false_eq_true, if_false, if_neg h, zero_add, ih]

theorem memBits_entry (arch : Arch Rat) (bs : List (Buffet Rat)) (x : Nat × Rat) (hx : x ∈ memBitsA arch bs) :
    x.2 = occB x.1 bs := by
  simp only [memBitsA, List.mem_map] at hx
  obtain ⟨l, hl, rfl⟩ := hx
  simp only [memsA, List.mem_filter, List.any_eq_true, beq_iff_eq] at hl
  obtain ⟨_, b0, hb0, hbl⟩ := hl
  simp only [memBA, List.mem_filter] at hb0
  have hnt : (!(arch.levels.getD l Level.dflt).isToll) = true := by rw [← hbl]; exact hb0.2
  have : (memBA arch bs).filter (fun b => b.lvl == l) = bs.filter (fun b => b.lvl == l) := by
    simp only [memBA, List.filter_filter]
    apply List.filter_congr
    intro b _
    have hnt' : (arch.levels[l]?.getD Level.dflt).isToll = false := by simpa [List.getD] using hnt
    by_cases h : b.lvl = l
    · simp [h, hnt']
    · have : (b.lvl == l) = false := by simpa using h
      simp [this]
  simp only [this, sumList_occ]

/-! ### the state machine does not look at the tile shapes -/

theorem castNode_eq : castNode = Node.map cst := by
  funext n; cases n <;> rfl

theorem insertAux_rel (w w' : Nest.Workload Rat) (hrel : ∀ t rv, w'.relevant t rv = w.relevant t rv) (m : Mapping Rat) :
    ∀ trs seen, insertReservationsAux w' trs seen m = insertReservationsAux w trs seen m := by
  induction m with
  | nil => intro _ _; rfl
  | cons n r ih => intro trs seen; cases n <;> simp only [insertReservationsAux, hrel, ih]

theorem relevant_getD {α : Type} (w : Nest.Workload α) (d : α) (t rv : Nat) :
    w.relevant t rv = (w.tensors.getD t { rvs := [], isOutput := false, bpv := d }).rvs.contains rv := by
  simp only [Nest.Workload.relevant, List.getD]
  cases w.tensors[t]? <;> simp

theorem insert_cast (wq : Nest.Workload Rat) (wn : Nest.Workload Nat) (hc : Compat wq wn) (m : Mapping Nat) :
    insertReservations wq (splitHolders (castMapping m)) = (insertReservations wn (splitHolders m)).map (RNode.map cst) := by
  have hrel : ∀ t rv, wq.relevant t rv = (wn.map cst).relevant t rv := by
    intro t rv
    rw [relevant_map, relevant_getD wq 1, relevant_getD wn 1, hc.rvs t]
  rw [castMapping, castNode_eq, splitHolders_map, ← insertReservations_map]
  exact insertAux_rel (wn.map cst) wq hrel _ [] []


theorem noToll_split (m : Mapping Nat) (h : noToll m = true) : noToll (splitHolders m) = true := by
  induction m with
  | nil => rfl
  | cons n r ih =>
    cases n with
    | toll l ts lo => simp [noToll] at h
    | compute => simp only [noToll] at h; simp only [splitHolders, noToll]; exact ih h
    | loop rv tile => simp only [noToll] at h; simp only [splitHolders, noToll]; exact ih h
    | storage l ts lo =>
      simp only [noToll] at h
      simp only [splitHolders]
      have key : ∀ (xs : List (Node Nat)), (∀ x ∈ xs, ∃ t, x = Node.storage l [t] lo) → noToll (xs ++ splitHolders r) = true := by
        intro xs
        induction xs with
        | nil => intro _; exact ih h
        | cons y ys ihy =>
          intro hy
          obtain ⟨t, rfl⟩ := hy y List.mem_cons_self
          simp only [List.cons_append, noToll]
          exact ihy (fun x hx => hy x (List.mem_cons_of_mem _ hx))
      split
      · exact key _ (fun x hx => by obtain ⟨t, _, rfl⟩ := List.mem_map.1 hx; exact ⟨t, rfl⟩)
      · simp only [List.cons_append, List.nil_append, noToll]; exact ih h

/-- every holder of the mapping names tensors below `n` -/
def tensorsBelow (n : Nat) : Mapping Nat → Prop
  | [] => True
  | .storage _ ts _ :: r => (∀ t ∈ ts, t < n) ∧ tensorsBelow n r
  | .toll _ ts _ :: r => (∀ t ∈ ts, t < n) ∧ tensorsBelow n r
  | _ :: r => tensorsBelow n r

theorem tensorsBelow_append (n : Nat) (a b : Mapping Nat) (ha : tensorsBelow n a) (hb : tensorsBelow n b) : tensorsBelow n (a ++ b) := by
  induction a with
  | nil => exact hb
  | cons x xs ih =>
    cases x with
    | storage l ts lo => simp only [List.cons_append, tensorsBelow] at ha ⊢; exact ⟨ha.1, ih ha.2⟩
    | toll l ts lo => simp only [List.cons_append, tensorsBelow] at ha ⊢; exact ⟨ha.1, ih ha.2⟩
    | loop rv tile => simp only [List.cons_append, tensorsBelow] at ha ⊢; exact ih ha
    | compute => simp only [List.cons_append, tensorsBelow] at ha ⊢; exact ih ha

theorem tensors_split (n : Nat) (m : Mapping Nat) (h : M2 n m) : tensorsBelow n (splitHolders m) := by
  induction m with
  | nil => trivial
  | cons x r ih =>
    cases x with
    | toll l ts lo => exact absurd h (by simp [M2])
    | compute => simp only [M2] at h; subst h; simp [splitHolders, tensorsBelow]
    | loop rv tile => simp only [M2] at h; simp only [splitHolders, tensorsBelow]; exact ih h
    | storage l ts lo =>
      simp only [M2] at h
      obtain ⟨_, hlt, _, hr⟩ := h
      simp only [splitHolders]
      apply tensorsBelow_append _ _ _ _ (ih hr)
      split
      · have key : ∀ (xs : List Nat), (∀ t ∈ xs, t < n) → tensorsBelow n (xs.map (fun t => Node.storage l [t] lo)) := by
          intro xs
          induction xs with
          | nil => intro _; trivial
          | cons y ys ihy =>
            intro hy
            simp only [List.map_cons, tensorsBelow]
            exact ⟨fun t ht => by simp at ht; subst ht; exact hy _ List.mem_cons_self, ihy (fun t ht => hy t (List.mem_cons_of_mem _ ht))⟩
        exact key ts hlt
      · simp only [tensorsBelow]; exact ⟨hlt, trivial⟩

theorem declBits_congr (w : Nest.Workload Nat) (sz sz' : Nat → Nat → List Nat → Rat) (l n : Nat)
    (h : ∀ t l' sh, t < n → sz t l' sh = sz' t l' sh) (m : Mapping Nat) : tensorsBelow n m →
    ∀ seen shape, declBits w sz l seen shape m = declBits w sz' l seen shape m := by
  induction m with
  | nil => intro _ _ _; rfl
  | cons x r ih =>
    intro hm seen shape
    cases x with
    | loop rv tile => simp only [tensorsBelow] at hm; simp only [declBits]; exact ih hm _ _
    | compute => simp only [tensorsBelow] at hm; simp only [declBits]; exact ih hm _ _
    | storage l' ts lo =>
      simp only [tensorsBelow] at hm
      cases ts with
      | nil => simp only [declBits]; exact ih hm.2 _ _
      | cons t' ts' => simp only [declBits, ih hm.2, h t' _ _ (hm.1 t' List.mem_cons_self)]
    | toll l' ts lo =>
      simp only [tensorsBelow] at hm
      cases ts with
      | nil => simp only [declBits]; exact ih hm.2 _ _
      | cons t' ts' => simp only [declBits, ih hm.2, h t' _ _ (hm.1 t' List.mem_cons_self)]

/-- The bits `analytic` reports for a memory are the sizes of the Reservation nodes of that memory. -/
theorem memBits_eq_reservations (arch : Arch Rat) (wq : Nest.Workload Rat) (wn : Nest.Workload Nat) (m : Mapping Nat)
    (hc : Compat wq wn) (hnt : noToll m = true) (r : Result Rat) (hr : analytic arch wq (castMapping m) = some r) :
    ∀ x ∈ r.memBits,
      x.2 = resBits (restrict 0 wn.tensors.length (szOf (toWorkload arch wq wn))) x.1 wn.bounds
              (insertReservations wn (splitHolders m)) := by
  simp only [analytic] at hr
  cases hb : allBuffets arch wq (insertReservations wq (splitHolders (castMapping m))) 0 wq.tensors.length with
  | none => simp [hb] at hr
  | some bs =>
    simp only [hb, Option.some.injEq] at hr
    subst hr
    intro x hx
    have hx' : x ∈ memBitsA arch bs := hx
    rw [memBits_entry arch bs x hx']
    rw [insert_cast wq wn hc m] at hb
    have hntR : noTollR (insertReservations wn (splitHolders m)) := by
      apply noTollR_of_nodes
      rw [insertReservations, nodesOf_insert]
      exact noToll_split m hnt
    rw [occB_all arch wq wn hc x.1 _ hntR wq.tensors.length 0 bs (by omega) hb, hc.len, sumFrom_single]

/-- **C06 for one Einsum (`peak_single`)**: for every well-formed Toll-free nest (non-negative bit widths) the bits that the
model of run_model's reservation accounting reports for a memory equal the execution-time peak of that memory in the reference
timeline. -/
theorem peak_single (arch : Arch Rat) (wq : Nest.Workload Rat) (wn : Nest.Workload Nat) (m : Mapping Nat)
    (hwf : WF arch wn m = true) (hc : Compat wq wn) (hnt : noToll m = true)
    (hb : ∀ l t, 0 ≤ ((toWorkload arch wq wn).bits.getD l []).getD t 0) :
    ∃ r, analytic arch wq (castMapping m) = some r ∧
      ∀ x ∈ r.memBits, x.2 = peak (toWorkload arch wq wn) (.leaf (toPre 1 m) 0) x.1 := by
  have hf := wf_facts arch wn m hwf
  obtain ⟨bs, h1, _⟩ := allBuffets_spec arch wq wn m hf hc wn.tensors.length 0 (by omega)
  have hr : analytic arch wq (castMapping m) = some (assemble arch wq (splitHolders (castMapping m)) bs) := by
    simp only [analytic, hc.len, h1]
  refine ⟨_, hr, ?_⟩
  intro x hx
  rw [memBits_eq_reservations arch wq wn m hc hnt _ hr x hx]
  have h3 : M3 wn.tensors.length wn.bounds m := m3_of_wf arch _ m _ hf.loops hf.nodes hnt hf.bounds
  have hM := m2_of_m3 _ m _ h3
  rw [← reservations_eq_peak arch wq wn m x.1 hwf hnt hb]
  -- both sides follow the declarative rule, which only asks for the sizes of tensors that exist
  have hA := resBits_insert wn (restrict 0 wn.tensors.length (szOf (toWorkload arch wq wn))) x.1 (splitHolders m) [] []
    wn.bounds (sok_split _ m hM)
  have hB := resBits_insert wn (szOf (toWorkload arch wq wn)) x.1 (splitHolders m) [] [] wn.bounds (sok_split _ m hM)
  simp only [sumT, zero_add] at hA hB
  rw [insertReservations, hA, hB]
  exact declBits_congr wn _ _ x.1 wn.tensors.length (fun t l' sh ht => by simp [restrict, ht]) (splitHolders m)
    (tensors_split _ m hM) [] wn.bounds

end AFV.PeakSingle
