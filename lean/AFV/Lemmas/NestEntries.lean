import AFV.Lemmas.NestRows
/-!
# Facts about the entries of `simpleN`: keys, inputs never skip, Tolls never write
-/
namespace AFV.Nest
open AFV.NestExec

theorem keys_simpleN (arch : Arch Rat) (ti : TInfo) (m : Mapping Nat) :
    ∀ hp hp' shape, wfT arch ti hp' shape m →
      (simpleN arch ti hp shape m).map (·.1) = (holderLevels ti.t m).map BKey.mem ++ [BKey.comp] := by
  induction m with
  | nil => intro hp hp' shape h; exact absurd h (by simp [wfT])
  | cons n r ih =>
    intro hp hp' shape hwf
    cases n with
    | compute => obtain ⟨_, rfl⟩ := hwf; simp [simpleN, holderLevels]
    | loop rv tile =>
      simp only [simpleN, holderLevels, List.map_map]
      rw [← ih hp hp' (shape.set rv tile) hwf.2.2.2.2]
      apply List.map_congr_left; intro a _; rfl
    | storage l ts lo =>
      simp only [simpleN, holderLevels, wfT] at hwf ⊢
      split
      · rename_i hc
        simp only [hc, if_true] at hwf
        simp only [List.map_cons, List.cons_append, ih true true shape hwf.2]
      · rename_i hc
        simp only [hc, Bool.false_eq_true, if_false] at hwf
        exact ih hp hp' shape hwf
    | toll l ts lo =>
      simp only [simpleN, holderLevels, wfT] at hwf ⊢
      split
      · rename_i hc
        simp only [hc, if_true] at hwf
        simp only [List.map_cons, List.cons_append, ih true true shape hwf.2.2]
      · rename_i hc
        simp only [hc, Bool.false_eq_true, if_false] at hwf
        exact ih hp hp' shape hwf

/-- An input tensor never skips anything. -/
theorem simpleN_input_sk (arch : Arch Rat) (ti : TInfo) (hin : ti.isOut = false) (m : Mapping Nat) :
    ∀ hp shape, ∀ e ∈ simpleN arch ti hp shape m, e.2.skReadActions = 0 ∧ e.2.skWriteActions = 0 := by
  induction m with
  | nil => intro hp shape e he; simp [simpleN] at he
  | cons n r ih =>
    intro hp shape e he
    cases n with
    | compute =>
      simp only [simpleN, List.mem_singleton] at he; subst he
      simp [computeCounts, Counts.zero]
    | loop rv tile =>
      simp only [simpleN, List.mem_map] at he
      obtain ⟨e0, he0, rfl⟩ := he
      obtain ⟨h1, h2⟩ := ih hp _ e0 he0
      simp only [Counts.repeatTemporal, h1, h2]
      constructor <;> split <;> simp
    | storage l ts lo =>
      simp only [simpleN] at he
      split at he
      · rcases List.mem_cons.1 he with h | h
        · subst h
          have hk := (simpleN_input arch ti hin r true shape).2
          simp only [holderN, unitHolder, hin, Bool.and_false, Bool.false_and, Bool.false_eq_true, if_false, Nat.zero_mul,
            ite_self]
          refine ⟨?_, trivial⟩
          cases hh : (simpleN arch ti true shape r) with
          | nil => simp
          | cons x xs =>
            rw [hh] at hk
            simp only [bndK] at hk
            simp [hk]
        · exact ih true shape e h
      · exact ih hp shape e he
    | toll l ts lo =>
      simp only [simpleN] at he
      split at he
      · rcases List.mem_cons.1 he with h | h
        · subst h
          have hk := (simpleN_input arch ti hin r true shape).2
          simp only [holderN, unitHolder, hin, Bool.and_false, Bool.false_and, Bool.false_eq_true, if_false, Nat.zero_mul,
            ite_self]
          refine ⟨?_, trivial⟩
          cases hh : (simpleN arch ti true shape r) with
          | nil => simp
          | cons x xs =>
            rw [hh] at hk
            simp only [bndK] at hk
            simp [hk]
        · exact ih true shape e h
      · exact ih hp shape e he

/-- A Toll never writes. -/
theorem simpleN_toll_write (arch : Arch Rat) (ti : TInfo) (m : Mapping Nat) :
    ∀ hp hp' shape, wfT arch ti hp' shape m → ∀ e ∈ simpleN arch ti hp shape m, ∀ l, e.1 = BKey.mem l →
      (arch.levels.getD l Level.dflt).isToll = true → e.2.writeActions = 0 ∧ e.2.skWriteActions = 0 := by
  induction m with
  | nil => intro hp hp' shape h; exact absurd h (by simp [wfT])
  | cons n r ih =>
    intro hp hp' shape hwf e he l hk htoll
    cases n with
    | compute =>
      simp only [simpleN, List.mem_singleton] at he; subst he
      simp at hk
    | loop rv tile =>
      simp only [simpleN, List.mem_map] at he
      obtain ⟨e0, he0, rfl⟩ := he
      obtain ⟨h1, h2⟩ := ih hp hp' _ hwf.2.2.2.2 e0 he0 l hk htoll
      simp only [Counts.repeatTemporal, h1, h2]
      constructor <;> [simp; (split <;> simp)]
    | storage l' ts lo =>
      simp only [simpleN, wfT] at he hwf
      split at he
      · rename_i hc
        simp only [hc, if_true] at hwf
        rcases List.mem_cons.1 he with h | h
        · subst h
          simp only [BKey.mem.injEq] at hk
          subst hk
          rw [hwf.1] at htoll
          exact absurd htoll (by simp)
        · exact ih true true shape hwf.2 e h l hk htoll
      · rename_i hc
        simp only [hc, Bool.false_eq_true, if_false] at hwf
        exact ih hp hp' shape hwf e he l hk htoll
    | toll l' ts lo =>
      simp only [simpleN, wfT] at he hwf
      split at he
      · rename_i hc
        simp only [hc, if_true] at hwf
        rcases List.mem_cons.1 he with h | h
        · subst h
          have hne := simpleN_ne_nil arch ti r true true shape hwf.2.2
          rw [holderN_toll arch ti l' hp shape _ hwf.2.1 hne]
          exact ⟨rfl, rfl⟩
        · exact ih true true shape hwf.2.2 e h l hk htoll
      · rename_i hc
        simp only [hc, Bool.false_eq_true, if_false] at hwf
        exact ih hp hp' shape hwf e he l hk htoll

end AFV.Nest
