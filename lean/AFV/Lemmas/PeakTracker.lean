import AFV.Lemmas.NestTracker3
import Mathlib.Algebra.Order.Field.Rat
import Mathlib.Tactic.Ring
/-!
# PeakTracker — where the tracker state machine of `insert_reservation_nodes` allocates, and how much

`resBits` adds up the sizes of the Reservation nodes of one memory level in the mapping produced by the state machine (size =
`sz tensor level (tile shape at the node)`).  `declBits` is the declarative rule: the first holder of a tensor allocates where it
stands, every other holder below the run of loops that index the tensor which immediately follows it (`lowered`).
`resBits_insert`: the two agree, for every state of the machine.
-/
namespace AFV.Nest

section
variable (w : Workload Nat) (sz : TId → Lvl → List Nat → Rat) (l : Lvl)

/-- total size of the Reservation nodes of level `l` (down to the Compute) -/
def resBits : List Nat → List (RNode Nat) → Rat
  | _, [] => 0
  | shape, .reservation t l' :: r => (if l' = l then sz t l' shape else 0) + resBits shape r
  | shape, .node (.loop rv tile) :: r => resBits (shape.set rv tile) r
  | shape, .node (.storage _ _ _) :: r => resBits shape r
  | shape, .node (.toll _ _ _) :: r => resBits shape r
  | _, .node .compute :: _ => 0

/-- tile shape below the run of loops indexing `t` at the head of the mapping -/
def lowered (t : TId) : List Nat → Mapping Nat → List Nat
  | shape, [] => shape
  | shape, .loop rv tile :: r => if w.relevant t rv then lowered t (shape.set rv tile) r else shape
  | shape, .storage _ _ _ :: _ => shape
  | shape, .toll _ _ _ :: _ => shape
  | shape, .compute :: _ => shape

def seenAdd (seen : List TId) (t : TId) : List TId := if seen.contains t then seen else seen ++ [t]

/-- the declarative rule (single-tensor holders) -/
def declBits : List TId → List Nat → Mapping Nat → Rat
  | _, _, [] => 0
  | seen, shape, .loop rv tile :: r => declBits seen (shape.set rv tile) r
  | seen, shape, .storage l' ts _ :: r =>
    match ts with
    | t' :: _ => (if l' = l then sz t' l' (if seen.contains t' then lowered w t' shape r else shape) else 0)
                  + declBits (seenAdd seen t') shape r
    | [] => declBits seen shape r
  | seen, shape, .toll l' ts _ :: r =>
    match ts with
    | t' :: _ => (if l' = l then sz t' l' (if seen.contains t' then lowered w t' shape r else shape) else 0)
                  + declBits (seenAdd seen t') shape r
    | [] => declBits seen shape r
  | seen, shape, .compute :: r => declBits seen shape r

def sumT (g : Tracker → Rat) : List Tracker → Rat
  | [] => 0
  | tr :: r => g tr + sumT g r

/-- size of a pending tracker's buffer if it is allocated at the current shape -/
def gS (shape : List Nat) (tr : Tracker) : Rat := if tr.lvl = l then sz tr.tensor tr.lvl shape else 0

/-- size of a pending tracker's buffer: lowered through the mapping that follows -/
def trB (shape : List Nat) (m : Mapping Nat) (tr : Tracker) : Rat :=
  if tr.lvl = l then sz tr.tensor tr.lvl (lowered w tr.tensor shape m) else 0

end

theorem sumT_append (g : Tracker → Rat) (a b : List Tracker) : sumT g (a ++ b) = sumT g a + sumT g b := by
  induction a with
  | nil => simp [sumT]
  | cons x xs ih => simp only [List.cons_append, sumT, ih]; ring

theorem sumT_reverse (g : Tracker → Rat) (a : List Tracker) : sumT g a.reverse = sumT g a := by
  induction a with
  | nil => rfl
  | cons x xs ih => simp only [List.reverse_cons, sumT_append, sumT, ih]; ring

theorem sumT_map (g g' : Tracker → Rat) (u : Tracker → Tracker) (h : ∀ tr, g (u tr) = g' tr) (a : List Tracker) :
    sumT g (a.map u) = sumT g' a := by
  induction a with
  | nil => rfl
  | cons x xs ih => simp only [List.map_cons, sumT, ih, h]

theorem sumT_split (p : Tracker → Bool) (g g1 g2 : Tracker → Rat) (h1 : ∀ tr, p tr = true → g tr = g1 tr)
    (h2 : ∀ tr, p tr = false → g tr = g2 tr) (a : List Tracker) :
    sumT g a = sumT g1 (a.filter p) + sumT g2 (a.filter (fun x => !p x)) := by
  induction a with
  | nil => simp [sumT]
  | cons x xs ih =>
    cases hp : p x
    · simp only [List.filter_cons, hp, Bool.false_eq_true, if_false, Bool.not_false, if_true, sumT, ih, h2 x hp]; ring
    · simp only [List.filter_cons, hp, if_true, Bool.not_true, Bool.false_eq_true, if_false, sumT, ih, h1 x hp]; ring

section
variable (w : Workload Nat) (sz : TId → Lvl → List Nat → Rat) (l : Lvl)

theorem resBits_resOf_append (shape : List Nat) (T : List Tracker) (X : List (RNode Nat)) :
    resBits sz l shape (resOf T ++ X) = sumT (gS sz l shape) T + resBits sz l shape X := by
  induction T with
  | nil => simp [resOf, sumT]
  | cons x xs ih =>
    simp only [resOf, List.map_cons, List.cons_append, resBits, sumT, gS] at ih ⊢
    rw [ih]; ring

theorem popStopped_stopAll (trs : List Tracker) :
    popStopped (α := Nat) (trs.map stopAll) = ([], [], resOf (trs.map stopAll).reverse) := by
  rw [popStopped_spec]
  have h1 : (trs.map stopAll).filter (fun tr => !tr.shouldStop) = [] := by
    rw [List.filter_eq_nil_iff]; intro a ha
    simp only [List.mem_map] at ha; obtain ⟨tr, _, rfl⟩ := ha; simp [stopAll]
  have h2 : (trs.map stopAll).reverse.filter (fun tr => tr.shouldStop && tr.insertUnder) = [] := by
    rw [List.filter_eq_nil_iff]; intro a ha
    simp only [List.mem_reverse, List.mem_map] at ha; obtain ⟨tr, _, rfl⟩ := ha; simp [stopAll]
  have h3 : (trs.map stopAll).reverse.filter (fun tr => tr.shouldStop && !tr.insertUnder) = (trs.map stopAll).reverse := by
    rw [List.filter_eq_self]; intro a ha
    simp only [List.mem_reverse, List.mem_map] at ha; obtain ⟨tr, _, rfl⟩ := ha; simp [stopAll]
  rw [h1, h2, h3]; rfl

theorem popStopped_updLoop (rv : RV) (trs : List Tracker) :
    popStopped (α := Nat) (trs.map (updLoop w rv)) =
      ((trs.filter (fun tr => w.relevant tr.tensor rv)).map (updLoop w rv), [],
       resOf ((trs.filter (fun tr => !w.relevant tr.tensor rv)).map (updLoop w rv)).reverse) := by
  rw [popStopped_spec, filter_under_nil trs (updLoop w rv) (updLoop_under w rv)]
  have h1 : (trs.map (updLoop w rv)).filter (fun tr => !tr.shouldStop)
      = (trs.filter (fun tr => w.relevant tr.tensor rv)).map (updLoop w rv) := by
    rw [List.filter_map]
    congr 1
    apply List.filter_congr
    intro x _
    simp [updLoop, Function.comp]
  have h3 : (trs.map (updLoop w rv)).reverse.filter (fun tr => tr.shouldStop && !tr.insertUnder)
      = ((trs.filter (fun tr => !w.relevant tr.tensor rv)).map (updLoop w rv)).reverse := by
    rw [List.filter_reverse, List.filter_map]
    congr 2
    apply List.filter_congr
    intro x _
    simp [updLoop, Function.comp]
  rw [h1, h3]; rfl

/-- shape of the mappings handled: single-tensor holders with `_lower = True`, the Compute is the last node -/
def SOK : Mapping Nat → Prop
  | [] => False
  | .compute :: r => r = []
  | .loop _ _ :: r => SOK r
  | .storage _ ts lo :: r => (∃ t', ts = [t']) ∧ lo = true ∧ SOK r
  | .toll _ ts lo :: r => (∃ t', ts = [t']) ∧ lo = true ∧ SOK r

theorem gS_stopAll (shape : List Nat) (tr : Tracker) : gS sz l shape (stopAll tr) = gS sz l shape tr := rfl

theorem holder_step (isS : Bool) (l' : Lvl) (t' : TId) (r : Mapping Nat) (trs : List Tracker) (seen : List TId) :
    insertReservationsAux w trs seen ((if isS then Node.storage l' [t'] true else Node.toll l' [t'] true) :: r)
      = placeAround (.node (if isS then Node.storage l' [t'] true else Node.toll l' [t'] true))
          (if !seen.contains t' then [RNode.reservation t' l'] else []) (resOf (trs.map stopAll).reverse)
        ++ insertReservationsAux w
            (if !seen.contains t' then [] else [{ tensor := t', lvl := l', shouldStop := !seen.contains t', insertUnder := !seen.contains t' }])
            (if !seen.contains t' then (if seen.contains t' then seen else seen ++ [t']) else seen) r := by
  cases isS <;>
    simp only [insertReservationsAux, newTrackers_single, Bool.false_eq_true, if_false, if_true] <;>
    rw [show (List.map (fun tr => ({ tr with shouldStop := true, insertUnder := false } : Tracker)) trs) = trs.map stopAll from rfl,
      popStopped_holder]

/-- **The state machine allocates exactly as the declarative rule says** (for every state: pending trackers `trs`, tensors
seen so far, current tile shape). -/
theorem resBits_insert (m : Mapping Nat) : ∀ (trs : List Tracker) (seen : List TId) (shape : List Nat), SOK m →
    resBits sz l shape (insertReservationsAux w trs seen m) = sumT (trB w sz l shape m) trs + declBits w sz l seen shape m := by
  induction m with
  | nil => intro trs seen shape h; exact absurd h (by simp [SOK])
  | cons nd r ih =>
    intro trs seen shape hok
    cases nd with
    | compute =>
      simp only [SOK] at hok
      subst hok
      have hstep : insertReservationsAux w trs seen [Node.compute]
          = placeAround (.node .compute) (popStopped (α := Nat) (trs.map stopAll)).2.1 (popStopped (α := Nat) (trs.map stopAll)).2.2
            ++ [] := by
        simp only [insertReservationsAux]; rfl
      rw [hstep, popStopped_stopAll, placeAround_nil, List.append_nil, resBits_resOf_append, sumT_reverse,
        sumT_map _ _ stopAll (gS_stopAll sz l shape)]
      simp only [resBits, declBits, add_zero]
      rfl
    | loop rv tile =>
      simp only [SOK] at hok
      have hstep : insertReservationsAux w trs seen (Node.loop rv tile :: r)
          = placeAround (.node (.loop rv tile)) (popStopped (α := Nat) (trs.map (updLoop w rv))).2.1
              (popStopped (α := Nat) (trs.map (updLoop w rv))).2.2
            ++ insertReservationsAux w (popStopped (α := Nat) (trs.map (updLoop w rv))).1 seen r := by
        simp only [insertReservationsAux]; rfl
      rw [hstep, popStopped_updLoop, placeAround_nil, List.append_assoc, resBits_resOf_append, sumT_reverse]
      simp only [List.singleton_append, resBits]
      rw [ih _ seen (shape.set rv tile) hok]
      rw [sumT_map (gS sz l shape) (gS sz l shape) (updLoop w rv) (fun _ => rfl),
        sumT_map (trB w sz l (shape.set rv tile) r) (trB w sz l (shape.set rv tile) r) (updLoop w rv) (fun _ => rfl)]
      simp only [declBits]
      rw [sumT_split (fun tr => w.relevant tr.tensor rv) (trB w sz l shape (Node.loop rv tile :: r))
        (trB w sz l (shape.set rv tile) r) (gS sz l shape)
        (fun tr h => by simp only [trB, lowered, h, if_true])
        (fun tr h => by simp only [trB, lowered, h, Bool.false_eq_true, if_false, gS])]
      ring
    | storage l' ts lo =>
      simp only [SOK] at hok
      obtain ⟨⟨t', rfl⟩, rfl, hokr⟩ := hok
      have hs := holder_step w true l' t' r trs seen
      simp only [if_true] at hs
      rw [hs]
      have hpend : sumT (trB w sz l shape (Node.storage l' [t'] true :: r)) trs = sumT (gS sz l shape) trs := rfl
      by_cases hc : seen.contains t' = true
      · simp only [hc, Bool.not_true, Bool.false_eq_true, if_false, placeAround_nil, List.append_assoc]
        rw [resBits_resOf_append, sumT_reverse, sumT_map _ _ stopAll (gS_stopAll sz l shape)]
        simp only [List.singleton_append, resBits]
        rw [ih _ seen shape hokr, hpend]
        simp only [declBits, hc, if_true, seenAdd, sumT, trB, add_zero]
      · have hc' : seen.contains t' = false := by simpa using hc
        simp only [hc', Bool.not_false, if_true, placeAround_one, Bool.false_eq_true, if_false, List.cons_append, resBits,
          List.append_assoc]
        rw [resBits_resOf_append, sumT_reverse, sumT_map _ _ stopAll (gS_stopAll sz l shape)]
        simp only [List.nil_append, resBits]
        rw [ih _ _ shape hokr, hpend]
        simp only [declBits, hc', Bool.false_eq_true, if_false, seenAdd, sumT]
        ring
    | toll l' ts lo =>
      simp only [SOK] at hok
      obtain ⟨⟨t', rfl⟩, rfl, hokr⟩ := hok
      have hs := holder_step w false l' t' r trs seen
      simp only [Bool.false_eq_true, if_false] at hs
      rw [hs]
      have hpend : sumT (trB w sz l shape (Node.toll l' [t'] true :: r)) trs = sumT (gS sz l shape) trs := rfl
      by_cases hc : seen.contains t' = true
      · simp only [hc, Bool.not_true, Bool.false_eq_true, if_false, placeAround_nil, List.append_assoc]
        rw [resBits_resOf_append, sumT_reverse, sumT_map _ _ stopAll (gS_stopAll sz l shape)]
        simp only [List.singleton_append, resBits]
        rw [ih _ seen shape hokr, hpend]
        simp only [declBits, hc, if_true, seenAdd, sumT, trB, add_zero]
      · have hc' : seen.contains t' = false := by simpa using hc
        simp only [hc', Bool.not_false, if_true, placeAround_one, Bool.false_eq_true, if_false, List.cons_append, resBits,
          List.append_assoc]
        rw [resBits_resOf_append, sumT_reverse, sumT_map _ _ stopAll (gS_stopAll sz l shape)]
        simp only [List.nil_append, resBits]
        rw [ih _ _ shape hokr, hpend]
        simp only [declBits, hc', Bool.false_eq_true, if_false, seenAdd, sumT]
        ring

end

end AFV.Nest
