import AFV.Lemmas.ParetoSweep
import AFV.Spec.ParetoHyp
/-!
One group of `_sfs_bnl_core`: under H-sweep and H-key the kept rows are exactly the rows of the group that no
row of the group dominates (on the effective columns).
-/
namespace AFV.Pareto

theorem groupPath_spec (d : Nat) (G : List Item) :
    match groupPath d G with
    | .trivial => G.length ≤ 1
    | .one k => (d = 1 ∧ k = 0) ∨ varying d G = [k]
    | .all => varying d G = []
    | .sweep vs => vs = varying d G ∧ vs.length = 2
    | .general vs => vs = varying d G := by
  match G with
  | [] => simp [groupPath]
  | [x] => simp [groupPath]
  | x :: y :: zs =>
    unfold groupPath
    simp only
    by_cases hd : d = 1
    · subst hd; simp
    · have hd' : (d == 1) = false := by simpa using hd
      simp only [hd', Bool.false_eq_true, if_false]
      generalize varying d (x :: y :: zs) = vs
      match vs with
      | [] => simp
      | [k] => simp
      | a :: b :: cs =>
        simp only
        by_cases hl : ((a :: b :: cs).length == 2) = true
        · rw [if_pos hl]; simp at hl; simp [hl]
        · rw [if_neg hl]

theorem domV1 (y x : Row) : domV 1 y x = EV.lt (cell y 0) (cell x 0) := by
  rw [Bool.eq_iff_iff, domV_iff]
  constructor
  · rintro ⟨_, k, hk, h⟩
    have : k = 0 := by omega
    subst this; exact h
  · intro h
    exact ⟨fun k hk => by have : k = 0 := by omega
                          subst this; exact EV.lt_imp_le h, 0, by omega, h⟩

theorem domV0 (y x : Row) : domV 0 y x = false := by simp [domV, anyLt]

theorem local_transfer {d : Nat} {G : List Item} {vs : List Nat} (hvs : vs = varying d G) (i : Nat) :
    (∃ x ∈ localOf vs G, x.1 = i ∧ ((localOf vs G).any fun y => domV vs.length y.2 x.2) = false) ↔
      ∃ x ∈ G, x.1 = i ∧ (G.any fun y => domV d y.2 x.2) = false := by
  unfold localOf
  constructor
  · rintro ⟨x, hx, rfl, h⟩
    obtain ⟨x0, hx0, rfl⟩ := List.mem_map.mp hx
    refine ⟨x0, hx0, rfl, ?_⟩
    rw [List.any_map] at h
    rw [← h]
    exact any_congr_mem fun y hy => (domV_pick hvs hx0 hy).symm
  · rintro ⟨x0, hx0, rfl, h⟩
    refine ⟨_, List.mem_map.mpr ⟨x0, hx0, rfl⟩, rfl, ?_⟩
    rw [List.any_map, ← h]
    exact any_congr_mem fun y hy => domV_pick hvs hx0 hy

/-- **exactness of one group.** -/
theorem mem_groupCore (cfg : Cfg) (d : Nat) (G : List Item)
    (hs : HsweepG cfg d G = true) (hk : HkeyG cfg d G = true) (i : Nat) :
    i ∈ groupCore cfg d G ↔ ∃ x ∈ G, x.1 = i ∧ (G.any fun y => domV d y.2 x.2) = false := by
  have hspec := groupPath_spec d G
  unfold groupCore
  unfold HsweepG at hs
  unfold HkeyG at hk
  cases hp : groupPath d G with
  | trivial =>
    rw [hp] at hspec
    simp only at hspec
    clear hs hk hp
    match G, hspec with
    | [], _ => simp
    | [x], _ => simp [domV_irrefl]; exact eq_comm
    | _ :: _ :: _, h => simp at h
  | one k =>
    rw [hp] at hspec
    simp only at hspec ⊢
    rw [mem_path1]
    rcases hspec with ⟨rfl, rfl⟩ | hv
    · simp only [domV1, List.any_eq_false]
      constructor
      · rintro ⟨x, hx, rfl, h⟩; exact ⟨x, hx, rfl, fun y hy => by simp [h y hy]⟩
      · rintro ⟨x, hx, rfl, h⟩; exact ⟨x, hx, rfl, fun y hy => by simpa using h y hy⟩
    · have key : ∀ x ∈ G, ∀ y ∈ G, domV d y.2 x.2 = EV.lt (cell y.2 k) (cell x.2 k) := by
        intro x hx y hy
        rw [← domV_pick (vs := [k]) hv.symm hx hy]
        simp only [List.length_cons, List.length_nil, Nat.zero_add, domV1]
        rw [cell_pick [k] _ (by simp), cell_pick [k] _ (by simp)]
        simp
      constructor
      · rintro ⟨x, hx, rfl, h⟩
        exact ⟨x, hx, rfl, List.any_eq_false.mpr fun y hy => by simp [key x hx y hy, h y hy]⟩
      · rintro ⟨x, hx, rfl, h⟩
        refine ⟨x, hx, rfl, fun y hy => ?_⟩
        have := List.any_eq_false.mp h y hy
        rw [key x hx y hy] at this
        simpa using this
  | all =>
    rw [hp] at hspec
    simp only at hspec ⊢
    have key : ∀ x ∈ G, ∀ y ∈ G, domV d y.2 x.2 = false := by
      intro x hx y hy
      rw [← domV_pick (vs := []) hspec.symm hx hy]
      exact domV0 _ _
    simp only [List.mem_map]
    constructor
    · rintro ⟨x, hx, rfl⟩
      exact ⟨x, hx, rfl, List.any_eq_false.mpr fun y hy => by simp [key x hx y hy]⟩
    · rintro ⟨x, hx, rfl, _⟩; exact ⟨x, hx, rfl⟩
  | sweep vs =>
    rw [hp] at hspec hs
    simp only at hspec hs ⊢
    obtain ⟨hvs, hlen⟩ := hspec
    cases hf : cfg.sweepFirst
    · rw [hf] at hs
      simp only [Bool.false_or] at hs
      have hB : ∀ x ∈ localOf vs G, EV.lt (cell x.2 1) cfg.sweepInit = true := by
        intro x hx
        obtain ⟨x0, hx0, rfl⟩ := List.mem_map.mp hx
        exact List.all_eq_true.mp hs x0 hx0
      simp only [Bool.false_eq_true, if_false]
      rw [mem_sweep2 _ _ hB, ← local_transfer hvs, hlen]
    · simp only [if_true]
      rw [mem_sweep2F, ← local_transfer hvs, hlen]
  | general vs =>
    rw [hp] at hspec hk
    simp only at hspec hk ⊢
    have hK : ∀ x ∈ localOf vs G, ∀ y ∈ localOf vs G, domV vs.length x.2 y.2 = true →
        FKey.lt (cfg.key x.2) (cfg.key y.2) = true := by
      intro x hx y hy hd
      obtain ⟨x0, hx0, rfl⟩ := List.mem_map.mp hx
      obtain ⟨y0, hy0, rfl⟩ := List.mem_map.mp hy
      have := List.all_eq_true.mp (List.all_eq_true.mp hk x0 hx0) y0 hy0
      simpa [hd] using this
    rw [mem_bnlBlocks cfg _ _ hK, ← local_transfer hspec]

end AFV.Pareto
