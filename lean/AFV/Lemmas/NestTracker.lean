import AFV.Lemmas.NestStrip
/-!
# The tracker state machine of `insert_reservation_nodes` places Reservations as `Placed` requires
-/
namespace AFV.Nest

variable {α : Type}

def resOf (trs : List Tracker) : List (RNode α) := trs.map (fun tr => RNode.reservation tr.tensor tr.lvl)

theorem popStopped_fold (r : List Tracker) (acc : List Tracker × List (RNode α) × List (RNode α)) :
    r.foldl
      (fun (acc : List Tracker × List (RNode α) × List (RNode α)) tr =>
        if tr.shouldStop then
          if tr.insertUnder then (acc.1, acc.2.1 ++ [RNode.reservation tr.tensor tr.lvl], acc.2.2)
          else (acc.1, acc.2.1, acc.2.2 ++ [RNode.reservation tr.tensor tr.lvl])
        else (tr :: acc.1, acc.2.1, acc.2.2)) acc
    = ((r.filter (fun tr => !tr.shouldStop)).reverse ++ acc.1,
       acc.2.1 ++ resOf (r.filter (fun tr => tr.shouldStop && tr.insertUnder)),
       acc.2.2 ++ resOf (r.filter (fun tr => tr.shouldStop && !tr.insertUnder))) := by
  induction r generalizing acc with
  | nil => simp [resOf]
  | cons x xs ih =>
    rw [List.foldl_cons, ih]
    cases hs : x.shouldStop <;> cases hu : x.insertUnder <;> simp [resOf, List.filter_cons, hs, hu]

theorem popStopped_spec (trs : List Tracker) :
    popStopped (α := α) trs =
      (trs.filter (fun tr => !tr.shouldStop),
       resOf (trs.reverse.filter (fun tr => tr.shouldStop && tr.insertUnder)),
       resOf (trs.reverse.filter (fun tr => tr.shouldStop && !tr.insertUnder))) := by
  unfold popStopped
  rw [popStopped_fold]
  simp [List.filter_reverse]

theorem singleTensor_append (t : TId) (a b : List (RNode α)) :
    singleTensor t (a ++ b) = singleTensor t a ++ singleTensor t b := by
  induction a with
  | nil => rfl
  | cons x xs ih =>
    cases x with
    | node n =>
      cases n with
      | storage l ts lo => simp only [List.cons_append, singleTensor, ih]; split <;> simp
      | toll l ts lo => simp only [List.cons_append, singleTensor, ih]; split <;> simp
      | loop rv tile => simp only [List.cons_append, singleTensor, ih]
      | compute => simp only [List.cons_append, singleTensor, ih]
    | reservation t' l => simp only [List.cons_append, singleTensor, ih]; split <;> simp

theorem singleTensor_resOf (t : TId) (trs : List Tracker) :
    singleTensor t (resOf (α := α) trs) = resOf (trs.filter (fun tr => tr.tensor == t)) := by
  induction trs with
  | nil => rfl
  | cons x xs ih =>
    simp only [resOf, List.map_cons, singleTensor, List.filter_cons] at ih ⊢
    by_cases h : x.tensor = t
    · simp [h, ih]
    · simp [h, ih]

end AFV.Nest

namespace AFV.Nest

variable {α : Type}

/-- The trackers of tensor `t`. -/
def tPart (t : TId) (trs : List Tracker) : List Tracker := trs.filter (fun tr => tr.tensor == t)

theorem tPart_map (t : TId) (trs : List Tracker) (upd : Tracker → Tracker) (h : ∀ tr, (upd tr).tensor = tr.tensor) :
    tPart t (trs.map upd) = (tPart t trs).map upd := by
  induction trs with
  | nil => rfl
  | cons x xs ih =>
    simp only [tPart, List.map_cons, List.filter_cons, h x] at ih ⊢
    split <;> simp [ih]

theorem tPart_filter (t : TId) (trs : List Tracker) (q : Tracker → Bool) :
    tPart t (trs.filter q) = (tPart t trs).filter q := by
  simp only [tPart, List.filter_filter]
  congr 1; funext x; exact Bool.and_comm _ _

theorem tPart_reverse (t : TId) (trs : List Tracker) : tPart t trs.reverse = (tPart t trs).reverse := by
  simp [tPart, List.filter_reverse]

theorem tPart_append (t : TId) (a b : List Tracker) : tPart t (a ++ b) = tPart t a ++ tPart t b := by
  simp [tPart]

theorem singleTensor_resOf' (t : TId) (trs : List Tracker) :
    singleTensor t (resOf (α := α) trs) = resOf (tPart t trs) := singleTensor_resOf t trs

/-- What the mapping must satisfy (after `splitHolders`): single-tensor holders with `_lower = True`, the Compute is
the last node, holder levels of `t` exist and are pairwise different. -/
def OKm (t : TId) (nlv : Nat) : Mapping α → Prop
  | [] => False
  | .compute :: r => r = []
  | .loop _ _ :: r => OKm t nlv r
  | .storage l ts lo :: r =>
    (∃ t', ts = [t']) ∧ lo = true ∧ (ts.contains t = true → l < nlv ∧ l ∉ holderLevels t r) ∧ OKm t nlv r
  | .toll l ts lo :: r =>
    (∃ t', ts = [t']) ∧ lo = true ∧ (ts.contains t = true → l < nlv ∧ l ∉ holderLevels t r) ∧ OKm t nlv r

def stopAll (tr : Tracker) : Tracker := { tr with shouldStop := true, insertUnder := false }

theorem placeAround_nil (n : RNode α) (above : List (RNode α)) : placeAround n [] above = above ++ [n] := rfl

theorem placeAround_one (n b : RNode α) (above : List (RNode α)) : placeAround n [b] above = n :: (above ++ [b]) := by
  simp [placeAround]

end AFV.Nest
