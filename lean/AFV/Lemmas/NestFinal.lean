import AFV.Lemmas.NestEntries
/-!
# Per-entry equality: the analysis' net action counts = the execution's event counts, converted to actions
-/
namespace AFV.Nest
open AFV.NestExec

theorem forall₂_mem_left {α β : Type} {R : α → β → Prop} {a : List α} {b : List β} (h : List.Forall₂ R a b)
    {x : α} (hx : x ∈ a) : ∃ y ∈ b, R x y := by
  induction h with
  | nil => simp at hx
  | cons hxy _ ih =>
    rcases List.mem_cons.1 hx with h | h
    · subst h; exact ⟨_, List.mem_cons_self .., hxy⟩
    · obtain ⟨y, hy, hr⟩ := ih h; exact ⟨y, List.mem_cons_of_mem _ hy, hr⟩

theorem forall₂_keys (arch : Arch Rat) (wq : Workload Rat) (t : TId) {a : CTable Rat} {b : CTable Nat}
    (h : List.Forall₂ (RelE arch wq t) a b) : a.map (·.1) = b.map (·.1) := by
  induction h with
  | nil => rfl
  | cons hxy _ ih => simp [hxy.1, ih]

/-- With pairwise different keys, the sum over the entries of level `l` is the entry of level `l`. -/
theorem innerT_unique (tb : CTable Nat) (hnd : (tb.map (·.1)).Nodup) (l : Lvl) (c : Counts Nat) (hmem : (BKey.mem l, c) ∈ tb)
    (rw : Bool) : innerT tb l rw = (if rw then c.writeActions else c.readActions) ∧
      innerK tb l rw = (if rw then c.skWriteActions else c.skReadActions) := by
  induction tb with
  | nil => simp at hmem
  | cons e r ih =>
    simp only [List.map_cons, List.nodup_cons] at hnd
    rw [innerT_cons, innerK_cons]
    rcases List.mem_cons.1 hmem with h | h
    · subst h
      have hz : innerT r l rw = 0 ∧ innerK r l rw = 0 := by
        have : ∀ e ∈ r, e.1 ≠ BKey.mem l := by
          intro e he heq; exact hnd.1 (List.mem_map.2 ⟨e, he, heq⟩)
        clear ih hmem hnd
        induction r with
        | nil => simp [innerT, innerK]
        | cons x xs ihx =>
          rw [innerT_cons, innerK_cons]
          have hx := this x (List.mem_cons_self ..)
          obtain ⟨h1, h2⟩ := ihx (fun e he => this e (List.mem_cons_of_mem _ he))
          rw [h1, h2]
          obtain ⟨k, cx⟩ := x
          cases k with
          | comp => simp [entT, entK]
          | mem l' =>
            have : l' ≠ l := fun h => hx (by simp [h])
            simp [entT, entK, this]
      rw [hz.1, hz.2]
      simp [entT, entK]
    · obtain ⟨h1, h2⟩ := ih hnd.2 h
      rw [h1, h2]
      obtain ⟨k, ce⟩ := e
      have hne : k ≠ BKey.mem l := fun hk => hnd.1 (List.mem_map.2 ⟨(BKey.mem l, c), h, by simp [hk]⟩)
      cases k with
      | comp => simp [entT, entK]
      | mem l' =>
        have : l' ≠ l := fun h => hne (by simp [h])
        simp [entT, entK, this]

end AFV.Nest
