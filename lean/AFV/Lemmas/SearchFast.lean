import AFV.Lemmas.SearchRound
/-!
# The fast executable versions used by the driver are the reference functions

`pruneFast = prune` and `joinExactFast = joinExact` as sets of candidates, unconditionally.
-/
set_option linter.unusedSectionVars false

namespace AFV.Search
open AFV.Front

variable {K : Type} [DecidableEq K]

theorem leqAll_append_iff : ∀ {a c b d : Vec}, a.length = c.length →
    (leqAll (a ++ b) (c ++ d) = true ↔ leqAll a c = true ∧ leqAll b d = true)
  | [], [], _, _, _ => by simp [leqAll]
  | [], _ :: _, _, _, h => by simp at h
  | _ :: _, [], _, _, h => by simp at h
  | x :: xs, y :: ys, b, d, h => by
    have ih := leqAll_append_iff (a := xs) (c := ys) (b := b) (d := d) (by simpa using h)
    simp only [List.cons_append, leqAll, Bool.and_eq_true, decide_eq_true_eq, ih, and_assoc]

theorem leqAll_encC {a b : Cand K} :
    leqAll (encC a) (encC b) = true ↔ leqAll a.obj b.obj = true ∧ leqAll a.res b.res = true := by
  simp only [encC, leqAll, Bool.and_eq_true, decide_eq_true_eq]
  constructor
  · rintro ⟨h1, h2, h3⟩
    have hlen : a.obj.length = b.obj.length := by omega
    exact (leqAll_append_iff hlen).1 h3
  · rintro ⟨ho, hr⟩
    have hlen := leqAll_length ho
    exact ⟨by omega, by omega, (leqAll_append_iff hlen).2 ⟨ho, hr⟩⟩

theorem decC_encC (c : Cand K) : decC c.key (encC c) = c := by
  cases c with
  | mk k o r => simp [decC, encC]

theorem encC_inj {a b : Cand K} (hk : a.key = b.key) (h : encC a = encC b) : a = b := by
  rw [← decC_encC a, ← decC_encC b, hk, h]

/-- Inside one class, dominance of the encodings is candidate dominance. -/
theorem dom_encC {a b : Cand K} (hk : a.key = b.key) : dom (encC a) (encC b) = sdom cle a b := by
  have h1 : leqAll (encC a) (encC b) = cle a b := by
    rw [Bool.eq_iff_iff, leqAll_encC, cle_iff]
    simp [hk]
  have h2 : (encC a ≠ encC b) ↔ (a ≠ b) :=
    ⟨fun h hab => h (by rw [hab]), fun h hab => h (encC_inj hk hab)⟩
  simp only [dom, sdom, h1]
  congr 1
  simp only [decide_eq_decide]
  exact h2

/-- **`pruneFast` is `prune`.** -/
theorem pruneFast_eq (cs : List (Cand K)) : SetEq (pruneFast cs) (prune cs) := by
  intro x
  simp only [pruneFast, List.mem_flatMap, mem_dedup, List.mem_map, frontFast_eq_front, mem_front,
    List.mem_filter, decide_eq_true_eq, prune, mem_frontL]
  constructor
  · rintro ⟨k, _, v, ⟨⟨c, ⟨hc, hck⟩, rfl⟩, hnd⟩, rfl⟩
    rw [← hck, decC_encC]
    refine ⟨hc, fun s hs => ?_⟩
    by_cases hsk : s.key = c.key
    · rw [← dom_encC hsk]
      exact hnd (encC s) ⟨s, ⟨hs, hsk.trans hck⟩, rfl⟩
    · simp [sdom, cle, hsk]
  · rintro ⟨hx, hnd⟩
    refine ⟨x.key, ⟨x, hx, rfl⟩, encC x, ⟨⟨x, ⟨hx, rfl⟩, rfl⟩, ?_⟩, decC_encC x⟩
    rintro v ⟨s, ⟨hs, hsk⟩, rfl⟩
    rw [dom_encC hsk]
    exact hnd s hs

/-- **`joinExactFast` is `joinExact`.** -/
theorem joinExactFast_eq (ops : Ops K) (cap : Int) (tables : List (List (Cand K))) :
    SetEq (joinExactFast ops cap tables) (joinExact ops cap tables) := by
  refine (pruneFast_eq _).trans (frontL_congr ?_)
  intro x
  simp only [validCombos, List.mem_filter, surv_noFilter ops tables x]

end AFV.Search
