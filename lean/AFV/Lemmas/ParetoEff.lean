import AFV.Lemmas.ParetoGroup
/-!
Effective columns: prime-factor expansion, constant-column removal, cast and negation preserve the
"at least as good on every objective column" relation of the specification (under H-cast).
-/
namespace AFV.Pareto

theorem isConst_spec {col : List EV} (h : isConst col = true) : ∀ a ∈ col, ∀ b ∈ col, a = b := by
  cases col with
  | nil => simp
  | cons v vs =>
    simp only [isConst, List.all_eq_true, beq_iff_eq] at h
    have hv : ∀ a ∈ v :: vs, a = v := by
      intro a ha
      rcases List.mem_cons.mp ha with rfl | ha
      · rfl
      · exact h a ha
    intro a ha b hb
    rw [hv a ha, hv b hb]

theorem cell_map_data (data : List Row) (f : Row → EV) {i : Nat} (hi : i < data.length) :
    cell (data.map f) i = f (data.getD i []) := by
  simp [cell, List.getD_eq_getElem?_getD, hi]

theorem cell_mem_map_data (data : List Row) (f : Row → EV) {i : Nat} (hi : i < data.length) :
    f (data.getD i []) ∈ data.map f := by
  refine List.mem_map.mpr ⟨data.getD i [], ?_, rfl⟩
  simp [List.getD_eq_getElem?_getD, hi]

theorem cell_effRow (cols : List (List EV)) (i : Nat) {k : Nat} (hk : k < cols.length) :
    cell (effRow cols i) k = cell cols[k] i := by
  simp [cell, effRow, List.getD_eq_getElem?_getD, hk]

theorem leqAll_effRow (cols : List (List EV)) (j i : Nat) :
    leqAll cols.length (effRow cols j) (effRow cols i) = true ↔
      ∀ col ∈ cols, EV.le (cell col j) (cell col i) = true := by
  rw [leqAll_iff]
  constructor
  · intro h col hc
    obtain ⟨k, hk, rfl⟩ := List.mem_iff_getElem.mp hc
    have := h k hk
    rwa [cell_effRow cols j hk, cell_effRow cols i hk] at this
  · intro h k hk
    rw [cell_effRow cols j hk, cell_effRow cols i hk]
    exact h _ (List.getElem_mem hk)

/-! ### prime-factor columns -/

theorem expoOf_eq_zero {p x : Nat} (h : x = 0 ∨ x % p ≠ 0) : expoOf p x = 0 := by
  unfold expoOf
  cases x with
  | zero => simp [expo]
  | succ n =>
    rcases h with h | h
    · exact absurd h (Nat.succ_ne_zero n)
    · simp [expo, h]

theorem le_foldl_max (col : List Nat) (init : Nat) :
    init ≤ col.foldl Nat.max init ∧ ∀ x ∈ col, x ≤ col.foldl Nat.max init := by
  induction col generalizing init with
  | nil => simp
  | cons y ys ih =>
    simp only [List.foldl_cons]
    have := ih (Nat.max init y)
    refine ⟨Nat.le_trans (Nat.le_max_left _ _) this.1, ?_⟩
    intro x hx
    rcases List.mem_cons.mp hx with rfl | hx
    · exact Nat.le_trans (Nat.le_max_right _ _) this.1
    · exact this.2 x hx

/-- comparing exponent vectors over the primes of the column = comparing over all primes. -/
theorem ppf_primesOf (col : List Nat) {a b : Nat} (ha : a ∈ col) (hb : b ∈ col) :
    (∀ p ∈ primesOf col, expoOf p a ≤ expoOf p b) ↔ ppfLeq a b = true := by
  simp only [ppfLeq, List.all_eq_true, List.mem_range, Bool.or_eq_true, Bool.not_eq_true',
    decide_eq_true_eq]
  constructor
  · intro h p hp
    cases hpr : isPrime p
    · exact Or.inl rfl
    · right
      by_cases hdiv : a % p = 0
      · apply h
        simp only [primesOf, List.mem_filter, List.mem_range, Bool.and_eq_true, List.any_eq_true,
          beq_iff_eq]
        have hM := (le_foldl_max col 0).2
        have : Nat.max a b ≤ col.foldl Nat.max 0 := Nat.max_le.mpr ⟨hM a ha, hM b hb⟩
        exact ⟨Nat.lt_succ_of_le (Nat.le_trans (Nat.le_of_lt_succ hp) this), hpr, a, ha, hdiv⟩
      · rw [expoOf_eq_zero (Or.inr hdiv)]; exact Nat.zero_le _
  · intro h p hp
    simp only [primesOf, List.mem_filter, List.mem_range, Bool.and_eq_true] at hp
    by_cases hle : p < Nat.max a b + 1
    · rcases h p hle with h' | h'
      · rw [hp.2.1] at h'; exact Bool.noConfusion h'
      · exact h'
    · have hap : a < p := Nat.lt_of_le_of_lt (Nat.le_max_left a b) (Nat.lt_of_succ_le (Nat.le_of_not_lt hle))
      rw [expoOf_eq_zero (p := p) (x := a) (by
        by_cases ha0 : a = 0
        · exact Or.inl ha0
        · right; rw [Nat.mod_eq_of_lt hap]; exact ha0)]
      exact Nat.zero_le _

theorem fin_mul_le {one : Int} (h1 : 0 < one) (a b : Nat) :
    EV.le (EV.fin (Int.ofNat a * one)) (EV.fin (Int.ofNat b * one)) = true ↔ a ≤ b := by
  simp only [EV.le, decide_eq_true_eq]
  constructor
  · intro h
    have := Int.le_of_mul_le_mul_right h h1
    exact Int.ofNat_le.mp this
  · intro h
    exact Int.mul_le_mul_of_nonneg_right (Int.ofNat_le.mpr h) (Int.le_of_lt h1)

/-- the (non-constant) prime-count columns compare like the per-prime-factor goal. -/
theorem ppfCols_leq {one : Int} (h1 : 0 < one) (col : List Nat) {j i : Nat}
    (hj : j < col.length) (hi : i < col.length) :
    (∀ c ∈ (ppfCols one col).filter (!isConst ·), EV.le (cell c j) (cell c i) = true) ↔
      ppfLeq (col.getD j 0) (col.getD i 0) = true := by
  have hmj : col.getD j 0 ∈ col := by simp [List.getD_eq_getElem?_getD, hj]
  have hmi : col.getD i 0 ∈ col := by simp [List.getD_eq_getElem?_getD, hi]
  -- constant columns satisfy the comparison anyway
  have hfilter : (∀ c ∈ (ppfCols one col).filter (!isConst ·), EV.le (cell c j) (cell c i) = true) ↔
      (∀ c ∈ ppfCols one col, c.length = col.length → EV.le (cell c j) (cell c i) = true) := by
    constructor
    · intro h c hc hlen
      cases hcc : isConst c
      · exact h c (List.mem_filter.mpr ⟨hc, by simp [hcc]⟩)
      · have hjm : cell c j ∈ c := by
          simp [cell, List.getD_eq_getElem?_getD, hlen ▸ hj]
        have him : cell c i ∈ c := by
          simp [cell, List.getD_eq_getElem?_getD, hlen ▸ hi]
        rw [isConst_spec hcc _ hjm _ him]; exact EV.le_refl _
    · intro h c hc
      have hc' := (List.mem_filter.mp hc).1
      apply h c hc'
      unfold ppfCols at hc'
      split at hc'
      · simp at hc'; subst hc'; simp
      · obtain ⟨p, _, rfl⟩ := List.mem_map.mp hc'; simp
  rw [hfilter, ← ppf_primesOf col hmj hmi]
  unfold ppfCols
  split
  · rename_i hps
    simp [hps, cell, List.getD_eq_getElem?_getD, hj, hi, EV.le]
  · rename_i hps
    constructor
    · intro h p hp
      have := h _ (List.mem_map.mpr ⟨p, hp, rfl⟩) (by simp)
      simp only [cell, List.getD_eq_getElem?_getD, List.getElem?_map] at this
      rw [List.getElem?_eq_getElem hj, List.getElem?_eq_getElem hi] at this
      simp only [Option.map_some, Option.getD_some] at this
      rw [fin_mul_le h1] at this
      simpa [List.getD_eq_getElem?_getD, hj, hi] using this
    · intro h c hc _
      obtain ⟨p, hp, rfl⟩ := List.mem_map.mp hc
      have := h p hp
      simp only [cell, List.getD_eq_getElem?_getD, List.getElem?_map]
      rw [List.getElem?_eq_getElem hj, List.getElem?_eq_getElem hi]
      simp only [Option.map_some, Option.getD_some]
      rw [fin_mul_le h1]
      simpa [List.getD_eq_getElem?_getD, hj, hi] using this

end AFV.Pareto
