import AFV.Lemmas.NestCount
import Mathlib.Tactic.Ring
import Mathlib.Tactic.FieldSimp
import Mathlib.Data.Rat.Defs
import Mathlib.Algebra.Order.Field.Rat
import Mathlib.Data.Nat.Cast.Field
/-!
# The rational analysis with the real scale factors is the value-level analysis, scaled

`simple` over `Rat` with the real architecture (bits per value / action, values per action) produces, entry by
entry, the counts of `simpleN` (an action = a value) multiplied by `1 / values_per_action` of the entry's level.
-/
namespace AFV.NestExec
open AFV.Nest

/-- Entry relation: parent-exchange totals agree, actions are scaled by the level's read / write scale. -/
structure RelC (rs ws : Rat) (cq : Counts Rat) (cn : Counts Nat) : Prop where
  r : cq.readsToParent = cn.readsToParent
  w : cq.writesToParent = cn.writesToParent
  k : cq.skippedFirst = cn.skippedFirst
  ra : cq.readActions = cn.readActions * rs
  wa : cq.writeActions = cn.writeActions * ws
  kra : cq.skReadActions = cn.skReadActions * rs
  kwa : cq.skWriteActions = cn.skWriteActions * ws

def readScale (arch : Arch Rat) (wq : Workload Rat) (t : TId) : BKey → Rat
  | .mem l => 1 / valuesPerAction (lvlOf arch l) (lvlOf arch l).read t
      (wq.tensors.getD t { rvs := [], isOutput := false, bpv := 1 }).bpv
  | .comp => 0

def writeScale (arch : Arch Rat) (wq : Workload Rat) (t : TId) : BKey → Rat
  | .mem l => 1 / valuesPerAction (lvlOf arch l) (lvlOf arch l).write t
      (wq.tensors.getD t { rvs := [], isOutput := false, bpv := 1 }).bpv
  | .comp => 0

def RelE (arch : Arch Rat) (wq : Workload Rat) (t : TId) (eq : BKey × Counts Rat) (en : BKey × Counts Nat) : Prop :=
  eq.1 = en.1 ∧ RelC (readScale arch wq t eq.1) (writeScale arch wq t eq.1) eq.2 en.2

theorem tileSize_cast (shape : List Nat) (rvs : List RV) :
    tileSize (shape.map (fun (n : Nat) => (n : Rat))) rvs = ((tileSize shape rvs : Nat) : Rat) := by
  induction rvs with
  | nil => simp [tileSize]
  | cons r rs ih =>
    simp only [tileSize, getShape, ih, Nat.cast_mul]
    congr 1
    simp [List.getD, List.getElem?_map]
    cases shape[r]? <;> simp

theorem getShape_cast (shape : List Nat) (rv : RV) :
    getShape (shape.map (fun (n : Nat) => (n : Rat))) rv = ((shape.getD rv 1 : Nat) : Rat) := by
  simp [getShape, List.getD, List.getElem?_map]
  cases shape[rv]? <;> simp

theorem repeat_rel (rs ws : Rat) (cq : Counts Rat) (cn : Counts Nat) (n : Nat) (rel : Bool) (h : RelC rs ws cq cn) :
    RelC rs ws (cq.repeatTemporal (n : Rat) rel) (cn.repeatTemporal n rel) := by
  obtain ⟨h1, h2, h3, h4, h5, h6, h7⟩ := h
  constructor <;> cases rel <;> simp [Counts.repeatTemporal, *] <;> ring

end AFV.NestExec

namespace AFV.NestExec
open AFV.Nest

/-- Relation between the children handed to a holder. -/
def RelChild (chq : Option (Counts Rat)) (chn : Option (Counts Nat)) : Prop :=
  match chq, chn with
  | none, none => True
  | some a, some b => a.readsToParent = b.readsToParent ∧ a.writesToParent = b.writesToParent ∧ a.skippedFirst = b.skippedFirst
  | _, _ => False

/-- `holderCounts` over the rationals = `unitHolder` scaled. -/
theorem holder_rel (lv : Level Rat) (t : TId) (spec : TensorSpec Rat) (nodeToll hp : Bool) (shape : List Nat)
    (chq : Option (Counts Rat)) (chn : Option (Counts Nat)) (hch : RelChild chq chn) :
    RelC (1 / valuesPerAction lv lv.read t spec.bpv) (1 / valuesPerAction lv lv.write t spec.bpv)
      (holderCounts lv t spec nodeToll hp (shape.map (fun (n : Nat) => (n : Rat))) Counts.zero chq)
      (unitHolder lv.isToll nodeToll lv.skipInitial (dirOf lv t) hp spec.isOutput (tileSize shape spec.rvs) chn) := by
  have hF := tileSize_cast shape spec.rvs
  match chq, chn, hch with
  | none, none, _ =>
    constructor <;> simp only [holderCounts, unitHolder, Counts.zero, hF] <;>
      cases nodeToll <;> cases hp <;> cases spec.isOutput <;> cases lv.isToll <;> cases lv.skipInitial <;>
      simp
  | some a, some b, ⟨h1, h2, h3⟩ =>
    constructor <;> simp only [holderCounts, unitHolder, Counts.zero, hF, h1, h2, h3] <;>
      cases nodeToll <;> cases hp <;> cases spec.isOutput <;> cases lv.isToll <;> cases lv.skipInitial <;>
      simp <;> (try split_ifs) <;> (try simp) <;> (try ring)

end AFV.NestExec
