import AFV.Lemmas.BreakdownAccess
import AFV.Lemmas.BreakdownDict
/-!
The nested `access` loops of energy()/actions()/latency() on a well-formed row:
which `result[key] = value` writes are performed, in terms of the original column names.
-/
namespace AFV.Breakdown.Lemmas
open AFV.Breakdown AFV.Breakdown.Spec

theorem idxOf_cons_ne {x k : String} {xs : Col} (h : x ≠ k) : (x :: xs).idxOf k = xs.idxOf k + 1 := by
  have hb : (x == k) = false := beq_eq_false_iff_ne.mpr h
  simp [List.idxOf_cons, hb]

theorem idxOf_cons_self {k : String} {xs : Col} : (k :: xs).idxOf k = 0 := by
  simp [List.idxOf_cons]

theorem idxOf_eq_one {p : Col} {k : String} (hk : k ∈ p) (h : p.idxOf k = 1) :
    ∃ x rest, p = x :: k :: rest ∧ x ≠ k := by
  match p, hk, h with
  | [], hk, _ => simp at hk
  | [x], hk, h =>
    simp only [List.mem_singleton] at hk
    subst hk
    rw [idxOf_cons_self] at h
    omega
  | x :: y :: rest, _, h =>
    by_cases hx : x = k
    · subst hx; rw [idxOf_cons_self] at h; omega
    · by_cases hy : y = k
      · subst hy; exact ⟨x, rest, rfl, hx⟩
      · rw [idxOf_cons_ne hx, idxOf_cons_ne hy] at h; omega

theorem idxOf_eq_zero {p : Col} {k : String} (hk : k ∈ p) (h : p.idxOf k = 0) :
    ∃ rest, p = k :: rest := by
  match p, hk, h with
  | [], hk, _ => simp at hk
  | x :: rest, _, h =>
    by_cases hx : x = k
    · subst hx; exact ⟨rest, rfl⟩
    · rw [idxOf_cons_ne hx] at h; omega

theorem value_unique {row : Row} (hn : (row.map (·.1)).Nodup) {p : Col} {v w : Int}
    (h1 : (p, v) ∈ row) (h2 : (p, w) ∈ row) : v = w := by
  induction row with
  | nil => simp at h1
  | cons x xs ih =>
    simp only [List.map_cons, List.nodup_cons, List.mem_map, not_exists, not_and] at hn
    simp only [List.mem_cons] at h1 h2
    rcases h1 with h1 | h1 <;> rcases h2 with h2 | h2
    · exact (Prod.mk.inj (h1.trans h2.symm)).2
    · exact absurd (by rw [← h1]) (hn.1 _ h2)
    · exact absurd (by rw [← h2]) (hn.1 _ h1)
    · exact ih hn.2 h1 h2

/-- The decoded well-formedness facts used below. -/
structure WF (kind : String) (j : Nat) (row : Row) : Prop where
  nodup : (row.map (·.1)).Nodup
  kw : ∀ pv ∈ row, kind ∈ pv.1 → pv.1.idxOf kind = j ∧ pv.1.count kind = 1

/-- `self.access(kind)` on a row where keyword `kind` sits at position 1. -/
theorem access_kind_ok {kind : String} {row : Row} (h : WF kind 1 row) :
    access row kind none = .ok (row.filterMap (selAt kind 1)) := by
  apply access_none_ok row kind 1 h.nodup
  intro pv hpv hk
  obtain ⟨h1, h2⟩ := h.kw pv hpv hk
  refine ⟨h1, by omega, ?_⟩
  have := List.idxOf_lt_length_iff.mpr hk
  omega

/-- Columns of `self.access(kind).access(e, col_idx=0)`: `e<SEP>kind<SEP>q ↦ q`. -/
theorem mem_einsum_accessed {kind : String} {row : Row} (h : WF kind 1 row) (e : String) (q : Col) (v : Int) :
    (q, v) ∈ (row.filterMap (selAt kind 1)).filterMap (selAt e 0) ↔ (e :: kind :: q, v) ∈ row := by
  rw [mem_selAt]
  constructor
  · rintro ⟨q1, hq1, he, hi, rfl⟩
    rw [mem_selAt] at hq1
    obtain ⟨p, hp, hk, hik, rfl⟩ := hq1
    obtain ⟨x, rest, rfl, hx⟩ := idxOf_eq_one hk hik
    simp only [List.eraseIdx_cons_succ, List.eraseIdx_cons_zero] at he hi ⊢
    obtain ⟨rest', hr⟩ := idxOf_eq_zero he hi
    simp only [List.cons.injEq] at hr
    rw [← hr.1]; exact hp
  · intro hp
    have hk : kind ∈ e :: kind :: q := by simp
    have hik := (h.kw _ hp hk).1
    refine ⟨e :: q, ?_, by simp, idxOf_cons_self, by simp⟩
    rw [mem_selAt]
    exact ⟨e :: kind :: q, hp, hk, hik, by simp⟩

/-- Columns of `einsum_accessed.access(t, col_idx=1)`: only names `c<SEP>t<SEP>…` with `c ≠ t`. -/
theorem mem_tensor_accessed (ea : Row) (t : String) (r : Col) (v : Int) :
    (r, v) ∈ ea.filterMap (selAt t 1) ↔ ∃ c rest, c ≠ t ∧ (c :: t :: rest, v) ∈ ea ∧ r = c :: rest := by
  rw [mem_selAt]
  constructor
  · rintro ⟨q, hq, ht, hi, rfl⟩
    obtain ⟨x, rest, rfl, hx⟩ := idxOf_eq_one ht hi
    exact ⟨x, rest, hx, hq, by simp⟩
  · rintro ⟨c, rest, hc, hq, rfl⟩
    refine ⟨c :: t :: rest, hq, by simp, ?_, by simp⟩
    rw [idxOf_cons_ne hc, idxOf_cons_self]

/-! ## the writes of energy() / actions() -/

def mk5 (e t : String) (pv : Col × Int) : Option (Key4 × Int) :=
  match pv.1 with
  | [c, a] => some ((e, c, some t, a), pv.2)
  | _ => none

/-- The `result[key] = value` assignments of energy()/actions() in code order, on a row where
no `access` raises. -/
def writesOf (kind : String) (withLeak : Bool) (row : Row) (es : Einsums) : List (Key4 × Int) :=
  (es.map (fun et =>
    ((et.2 ++ ["None"]).map (fun t =>
        (((row.filterMap (selAt kind 1)).filterMap (selAt et.1 0)).filterMap (selAt t 1)).filterMap
          (mk5 et.1 t))).flatten
      ++ (if withLeak then leakWrites ((row.filterMap (selAt kind 1)).filterMap (selAt et.1 0)) et.1
          else []))).flatten

theorem wf4_decode {kind : String} {withLeak : Bool} {row : Row} {es : Einsums}
    (h : wf4 kind withLeak row es = true) :
    WF kind 1 row ∧ ∀ pv ∈ row, kind ∈ pv.1 → pv.1.head? ∈ (names es).map some →
      okCol4 withLeak es pv.1 = true := by
  simp only [wf4, keywordAt, List.all_eq_true, Bool.and_eq_true, decide_eq_true_eq, Bool.decide_and,
    Bool.decide_or, Bool.or_eq_true] at h
  refine ⟨⟨h.1, ?_⟩, ?_⟩
  · intro pv hpv hk
    rcases h.2.1 pv hpv with h1 | h1
    · exact absurd hk h1
    · exact h1
  · intro pv hpv hk hh
    exact h.2.2 pv hpv ⟨hk, hh⟩

/-- Shape of a per-Einsum `kind` column accepted by `okCol4`. -/
theorem okCol4_shape {withLeak : Bool} {es : Einsums} {e k : String} {rest : List String}
    (h : okCol4 withLeak es (e :: k :: rest) = true) :
    (∃ c t a, rest = [c, t, a] ∧ c ≠ t ∧ okTensor es e t = true) ∨
    (∃ c, rest = [c, "leak"] ∧ withLeak = true) := by
  rcases rest with _ | ⟨a, _ | ⟨b, _ | ⟨c, _ | ⟨d, rest⟩⟩⟩⟩
  · simp [okCol4] at h
  · simp [okCol4] at h
  · simp only [okCol4, Bool.and_eq_true, decide_eq_true_eq] at h
    right; exact ⟨a, by rw [h.2], h.1⟩
  · simp only [okCol4, ne_eq, Bool.decide_and, Bool.and_eq_true, decide_eq_true_eq,
      decide_not, Bool.not_eq_true', decide_eq_false_iff_not] at h
    left; exact ⟨a, b, c, rfl, h.1, h.2⟩
  · simp [okCol4] at h

theorem table4Writes_ok {kind : String} {withLeak : Bool} {row : Row} {es : Einsums}
    (h : wf4 kind withLeak row es = true) :
    table4Writes kind withLeak row es = .ok (writesOf kind withLeak row es) := by
  obtain ⟨hWF, hok⟩ := wf4_decode h
  have hen : ((row.filterMap (selAt kind 1)).map (·.1)).Nodup := nodup_selected kind 1 row hWF.nodup
  unfold table4Writes
  rw [access_kind_ok hWF]
  simp only
  rw [mapE_ok _ (fun et =>
    ((et.2 ++ ["None"]).map (fun t =>
        (((row.filterMap (selAt kind 1)).filterMap (selAt et.1 0)).filterMap (selAt t 1)).filterMap
          (mk5 et.1 t))).flatten
      ++ (if withLeak then leakWrites ((row.filterMap (selAt kind 1)).filterMap (selAt et.1 0)) et.1
          else []))]
  · rfl
  · intro et het
    have hea : (((row.filterMap (selAt kind 1)).filterMap (selAt et.1 0)).map (·.1)).Nodup :=
      nodup_selected et.1 0 _ hen
    unfold einsumWrites
    rw [access_some_ok _ et.1 0 hen]
    · simp only
      rw [mapE_ok _ (fun t =>
        (((row.filterMap (selAt kind 1)).filterMap (selAt et.1 0)).filterMap (selAt t 1)).filterMap
          (mk5 et.1 t))]
      intro t _
      unfold tensorWrites
      rw [access_some_ok _ t 1 hea]
      · rfl
      · intro pv _ hk hi
        have := List.idxOf_lt_length_iff.mpr hk
        omega
    · -- every selected name has at least two parts
      intro pv hpv hk hi
      obtain ⟨q1, v⟩ := pv
      obtain ⟨rest, rfl⟩ := idxOf_eq_zero hk hi
      obtain ⟨p, hp, hkp, hip, hq⟩ := (mem_selAt kind 1 row _ v).mp hpv
      obtain ⟨x, r', rfl, _⟩ := idxOf_eq_one hkp hip
      simp only [List.eraseIdx_cons_succ, List.eraseIdx_cons_zero, List.cons.injEq] at hq
      obtain ⟨rfl, rfl⟩ := hq
      have hhead : (et.1 :: kind :: rest).head? ∈ (names es).map some := by
        simp only [List.head?_cons, List.mem_map, Option.some.injEq, exists_eq_right, names]
        exact ⟨et, het, rfl⟩
      have := okCol4_shape (hok _ hp hkp hhead)
      rcases this with ⟨c, t, a, rfl, _, _⟩ | ⟨c, rfl, _⟩ <;> simp

theorem mem_writesOf {kind : String} {withLeak : Bool} {row : Row} {es : Einsums}
    (hWF : WF kind 1 row) (k : Key4) (v : Int) :
    (k, v) ∈ writesOf kind withLeak row es ↔
      ∃ et ∈ es,
        (∃ t ∈ et.2 ++ ["None"], ∃ c a, c ≠ t ∧ ([et.1, kind, c, t, a], v) ∈ row ∧
            k = (et.1, c, some t, a)) ∨
        (withLeak = true ∧ ∃ c, ([et.1, kind, c, "leak"], v) ∈ row ∧ k = (et.1, c, none, "leak")) := by
  unfold writesOf
  constructor
  · intro h
    obtain ⟨l, hl, hkl⟩ := List.mem_flatten.mp h
    obtain ⟨et, het, rfl⟩ := List.mem_map.mp hl
    refine ⟨et, het, ?_⟩
    rcases List.mem_append.mp hkl with h1 | h2
    · left
      obtain ⟨l2, hl2, hk2⟩ := List.mem_flatten.mp h1
      obtain ⟨t, ht, rfl⟩ := List.mem_map.mp hl2
      obtain ⟨⟨r, w⟩, hr, hmk⟩ := List.mem_filterMap.mp hk2
      obtain ⟨c', rest, hc, hq, hrr⟩ := (mem_tensor_accessed _ t r w).mp hr
      subst hrr
      have hrow := (mem_einsum_accessed hWF et.1 _ w).mp hq
      unfold mk5 at hmk
      match rest, hmk, hrow with
      | [a], hmk, hrow =>
        simp only [Option.some.injEq, Prod.mk.injEq] at hmk
        obtain ⟨rfl, rfl⟩ := hmk
        exact ⟨t, ht, c', a, hc, hrow, rfl⟩
      | [], hmk, _ => simp at hmk
      | _ :: _ :: _, hmk, _ => simp at hmk
    · right
      cases withLeak with
      | false => simp at h2
      | true =>
        simp only [if_true] at h2
        refine ⟨rfl, ?_⟩
        unfold leakWrites at h2
        obtain ⟨⟨q, w⟩, hq, hmk⟩ := List.mem_filterMap.mp h2
        have hrow := (mem_einsum_accessed hWF et.1 q w).mp hq
        match q, hmk, hrow with
        | [c, a], hmk, hrow =>
          simp only at hmk
          split at hmk
          · rename_i ha
            simp only [Option.some.injEq, Prod.mk.injEq] at hmk
            obtain ⟨rfl, rfl⟩ := hmk
            subst ha
            exact ⟨c, hrow, rfl⟩
          · cases hmk
        | [], hmk, _ => simp at hmk
        | [_], hmk, _ => simp at hmk
        | _ :: _ :: _ :: _, hmk, _ => simp at hmk
  · rintro ⟨et, het, h⟩
    apply List.mem_flatten.mpr
    refine ⟨_, List.mem_map.mpr ⟨et, het, rfl⟩, ?_⟩
    apply List.mem_append.mpr
    rcases h with ⟨t, ht, c, a, hc, hrow, rfl⟩ | ⟨hl, c, hrow, rfl⟩
    · left
      apply List.mem_flatten.mpr
      refine ⟨_, List.mem_map.mpr ⟨t, ht, rfl⟩, ?_⟩
      apply List.mem_filterMap.mpr
      refine ⟨([c, a], v), ?_, rfl⟩
      apply (mem_tensor_accessed _ t _ v).mpr
      exact ⟨c, [a], hc, (mem_einsum_accessed hWF et.1 _ v).mpr hrow, rfl⟩
    · right
      subst hl
      simp only [if_true]
      unfold leakWrites
      apply List.mem_filterMap.mpr
      exact ⟨([c, "leak"], v), (mem_einsum_accessed hWF et.1 _ v).mpr hrow, by simp⟩

theorem mem_cols4 (kind : String) (withLeak : Bool) (row : Row) (ns : List String) (k : Key4) (v : Int) :
    (k, v) ∈ cols4 kind withLeak row ns ↔
      (∃ e c t a, ([e, kind, c, t, a], v) ∈ row ∧ e ∈ ns ∧ k = (e, c, some t, a)) ∨
      (withLeak = true ∧ ∃ e c, ([e, kind, c, "leak"], v) ∈ row ∧ e ∈ ns ∧ k = (e, c, none, "leak")) := by
  unfold cols4
  rw [List.mem_filterMap]
  constructor
  · rintro ⟨⟨p, w⟩, hm, hs⟩
    match p, hm, hs with
    | [e, k', c, t, a], hm, hs =>
      simp only at hs
      split at hs
      · rename_i hc
        simp only [Option.some.injEq, Prod.mk.injEq] at hs
        obtain ⟨rfl, rfl⟩ := hs
        obtain ⟨rfl, he⟩ := hc
        exact Or.inl ⟨e, c, t, a, hm, he, rfl⟩
      · cases hs
    | [e, k', c, a], hm, hs =>
      simp only at hs
      split at hs
      · rename_i hc
        simp only [Option.some.injEq, Prod.mk.injEq] at hs
        obtain ⟨rfl, rfl⟩ := hs
        obtain ⟨hl, rfl, rfl, he⟩ := hc
        exact Or.inr ⟨hl, e, c, hm, he, rfl⟩
      · cases hs
    | [], _, hs => simp at hs
    | [_], _, hs => simp at hs
    | [_, _], _, hs => simp at hs
    | [_, _, _], _, hs => simp at hs
    | _ :: _ :: _ :: _ :: _ :: _ :: _, _, hs => simp at hs
  · rintro (⟨e, c, t, a, hm, he, rfl⟩ | ⟨hl, e, c, hm, he, rfl⟩)
    · exact ⟨([e, kind, c, t, a], v), hm, by simp [he]⟩
    · exact ⟨([e, kind, c, "leak"], v), hm, by simp [he, hl]⟩

/-- On a well-formed row the writes are exactly the grammar's entries. -/
theorem writes_iff_spec {kind : String} {withLeak : Bool} {row : Row} {es : Einsums}
    (h : wf4 kind withLeak row es = true) (k : Key4) (v : Int) :
    (k, v) ∈ writesOf kind withLeak row es ↔ (k, v) ∈ cols4 kind withLeak row (names es) := by
  obtain ⟨hWF, hok⟩ := wf4_decode h
  rw [mem_writesOf hWF, mem_cols4]
  constructor
  · rintro ⟨et, het, ⟨t, _, c, a, _, hrow, rfl⟩ | ⟨hl, c, hrow, rfl⟩⟩
    · exact Or.inl ⟨et.1, c, t, a, hrow, List.mem_map.mpr ⟨et, het, rfl⟩, rfl⟩
    · exact Or.inr ⟨hl, et.1, c, hrow, List.mem_map.mpr ⟨et, het, rfl⟩, rfl⟩
  · rintro (⟨e, c, t, a, hrow, he, rfl⟩ | ⟨hl, e, c, hrow, he, rfl⟩)
    · have hhead : ([e, kind, c, t, a] : Col).head? ∈ (names es).map some := by
        simp only [List.head?_cons, List.mem_map, Option.some.injEq, exists_eq_right]; exact he
      have hsh := okCol4_shape (hok _ hrow (by simp) hhead)
      rcases hsh with ⟨c', t', a', heq, hct, hten⟩ | ⟨c', heq, _⟩
      · simp only [List.cons.injEq, and_true] at heq
        obtain ⟨rfl, rfl, rfl⟩ := heq
        simp only [okTensor, List.any_eq_true, Bool.and_eq_true, decide_eq_true_eq, Bool.decide_or,
          Bool.or_eq_true] at hten
        obtain ⟨et, het, rfl, htt⟩ := hten
        refine ⟨et, het, Or.inl ⟨t, ?_, c, a, hct, hrow, rfl⟩⟩
        rcases htt with htt | htt
        · exact List.mem_append_left _ htt
        · subst htt; simp
      · simp at heq
    · obtain ⟨et, het, rfl⟩ := List.mem_map.mp he
      exact ⟨et, het, Or.inr ⟨hl, c, hrow, rfl⟩⟩

end AFV.Breakdown.Lemmas
