import AFV.Lemmas.MapspaceDecl
import AFV.Lemmas.Front
import Mathlib.Algebra.Order.Ring.Rat
import Mathlib.Algebra.Order.Field.Basic
import Mathlib.Data.Rat.Lemmas
/-!
# `refBest` / `refFront` are the minimum / the Pareto front over every valid member of the described space
-/
namespace AFV.Mapspace
open AFV.Nest AFV.Front

/-! ## minima over rationals -/

theorem minQ_eq_none {α : Type} {g : α → Rat} : ∀ {l : List α}, minQ g l = none ↔ l = []
  | [] => by simp [minQ]
  | a :: l => by
    simp only [minQ]
    cases h : minQ g l <;> simp

theorem minQ_eq_some {α : Type} {g : α → Rat} : ∀ {l : List α} {m : Rat}, minQ g l = some m →
    (∃ a ∈ l, g a = m) ∧ ∀ a ∈ l, m ≤ g a
  | [], m, h => by simp [minQ] at h
  | a :: l, m, h => by
    simp only [minQ] at h
    cases h' : minQ g l with
    | none =>
      rw [h'] at h
      have hl : l = [] := minQ_eq_none.1 h'
      subst hl
      simp only [Option.some.injEq] at h
      subst h
      exact ⟨⟨a, by simp, rfl⟩, fun b hb => by simp at hb; subst hb; exact le_refl _⟩
    | some m' =>
      rw [h'] at h
      simp only [Option.some.injEq] at h
      obtain ⟨⟨b, hb, hgb⟩, hlb⟩ := minQ_eq_some h'
      by_cases hc : g a ≤ m'
      · rw [if_pos hc] at h
        subst h
        refine ⟨⟨a, by simp, rfl⟩, fun x hx => ?_⟩
        rcases List.mem_cons.1 hx with rfl | hx
        · exact le_refl _
        · exact le_trans hc (hlb x hx)
      · rw [if_neg hc] at h
        subst h
        refine ⟨⟨b, by simp [hb], hgb⟩, fun x hx => ?_⟩
        rcases List.mem_cons.1 hx with rfl | hx
        · exact le_of_lt (not_le.1 hc)
        · exact hlb x hx

theorem mem_validCosts {s : SpecDesc} {ms : List (Mapping Nat)} {c : Cost} :
    c ∈ validCosts s ms ↔ ∃ m ∈ ms, cost s m = some c ∧ c.fits = true := by
  simp only [validCosts, List.mem_filterMap]
  constructor
  · rintro ⟨m, hm, h⟩
    cases hc : cost s m with
    | none => simp [hc] at h
    | some c' =>
      simp only [hc] at h
      by_cases hf : c'.fits = true
      · simp only [hf, if_true, Option.some.injEq] at h
        subst h
        exact ⟨m, hm, hc, hf⟩
      · simp [hf] at h
  · rintro ⟨m, hm, hc, hf⟩
    exact ⟨m, hm, by simp [hc, hf]⟩

/-! ## exact scaling -/

theorem optAll_eq_some {α : Type} : ∀ {l : List (Option α)} {r : List α}, optAll l = some r → l = r.map some
  | [], r, h => by simp [optAll] at h; subst h; rfl
  | none :: l, r, h => by simp [optAll] at h
  | some a :: l, r, h => by
    simp only [optAll, Option.map_eq_some_iff] at h
    obtain ⟨r', hr', rfl⟩ := h
    simp [optAll_eq_some hr']

theorem scaleQ_spec {D : Nat} {q : Rat} {a : Int} (h : scaleQ D q = some a) : q * (D : Rat) = (a : Rat) := by
  unfold scaleQ at h
  simp only at h
  split at h
  · rename_i hd
    simp only [Option.some.injEq] at h
    subst h
    exact (Rat.coe_int_num_of_den_eq_one (by simpa using hd)).symm
  · cases h

theorem scaleQ_le {D : Nat} (hD : 0 < D) {q r : Rat} {a b : Int} (ha : scaleQ D q = some a) (hb : scaleQ D r = some b) :
    a ≤ b ↔ q ≤ r := by
  have h1 := scaleQ_spec ha
  have h2 := scaleQ_spec hb
  have hD' : (0 : Rat) < (D : Rat) := by exact_mod_cast hD
  rw [← Int.cast_le (R := Rat), ← h1, ← h2]
  exact mul_le_mul_iff_of_pos_right hD'

/-- Coordinatewise `≤` on rational vectors of equal length. -/
def leQ (u v : List Rat) : Prop := List.Forall₂ (· ≤ ·) u v

theorem scaleVec_leqAll {D : Nat} (hD : 0 < D) : ∀ {u v : List Rat} {a b : Vec},
    scaleVec D u = some a → scaleVec D v = some b → (leqAll a b = true ↔ leQ u v) := by
  intro u v a b hu hv
  have hu' := optAll_eq_some hu
  have hv' := optAll_eq_some hv
  clear hu hv
  induction u generalizing v a b with
  | nil =>
    cases a with
    | nil =>
      cases v with
      | nil =>
        cases b with
        | nil => simp [leqAll, leQ]
        | cons _ _ => simp at hv'
      | cons _ _ =>
        cases b with
        | nil => simp at hv'
        | cons _ _ => simp [leqAll, leQ]
    | cons _ _ => simp at hu'
  | cons q u ih =>
    cases a with
    | nil => simp at hu'
    | cons x a =>
      simp only [List.map_cons, List.cons.injEq] at hu'
      cases v with
      | nil =>
        cases b with
        | nil => simp [leqAll, leQ]
        | cons _ _ => simp at hv'
      | cons r v =>
        cases b with
        | nil => simp at hv'
        | cons y b =>
          simp only [List.map_cons, List.cons.injEq] at hv'
          simp only [leqAll, Bool.and_eq_true, decide_eq_true_eq, leQ, List.forall₂_cons]
          rw [scaleQ_le hD hu'.1 hv'.1]
          exact and_congr Iff.rfl (ih hu'.2 hv'.2)


/-! ## Splitting a scan over processes -/

theorem everyKth_subset {α : Type} : ∀ (l : List α) (i k : Nat) {x : α}, x ∈ everyKth i k l → x ∈ l
  | [], _, _, _, h => by simp [everyKth] at h
  | a :: l, i, k, x, h => by
    unfold everyKth at h
    split at h
    · rcases List.mem_cons.1 h with rfl | h
      · simp
      · exact List.mem_cons_of_mem _ (everyKth_subset l _ k h)
    · exact List.mem_cons_of_mem _ (everyKth_subset l _ k h)

theorem mem_everyKth {α : Type} {k : Nat} (hk : 0 < k) : ∀ (l : List α) {x : α}, x ∈ l → ∃ i, i < k ∧ x ∈ everyKth i k l
  | [], _, h => by simp at h
  | a :: l, x, h => by
    rcases List.mem_cons.1 h with rfl | h
    · exact ⟨0, hk, by simp [everyKth]⟩
    · obtain ⟨j, hj, hx⟩ := mem_everyKth hk l h
      by_cases hjk : j = k - 1
      · subst hjk
        exact ⟨0, hk, by simp [everyKth, hx]⟩
      · refine ⟨j + 1, by omega, ?_⟩
        unfold everyKth
        simp [hx]

/-- The parts `allPart s 0 k, …, allPart s (k-1) k` together are `all s`. -/
theorem mem_all_iff_parts (s : SpecDesc) {k : Nat} (hk : 0 < k) (m : Mapping Nat) :
    m ∈ all s ↔ ∃ i, i < k ∧ m ∈ allPart s i k := by
  simp only [all, allPart, List.mem_flatMap]
  constructor
  · rintro ⟨ch, hch, hm⟩
    obtain ⟨i, hi, hx⟩ := mem_everyKth hk _ hch
    exact ⟨i, hi, ch, hx, hm⟩
  · rintro ⟨i, _, ch, hch, hm⟩
    exact ⟨ch, everyKth_subset _ _ _ hch, hm⟩

/-! ## Two Einsums -/

theorem mem_all2_iff (S : Spec2) (m0 m1 : Mapping Nat) :
    (m0, m1) ∈ all2 S ↔ inSpace S.s0 m0 = true ∧ inSpace S.s1 m1 = true ∧ compatible S m0 m1 = true := by
  simp only [all2, List.mem_flatMap, List.mem_map, List.mem_filter, Prod.mk.injEq, mem_all_iff]
  constructor
  · rintro ⟨a, ha, b, ⟨hb, hc⟩, rfl, rfl⟩
    exact ⟨ha, hb, hc⟩
  · rintro ⟨ha, hb, hc⟩
    exact ⟨m0, ha, m1, ⟨hb, hc⟩, rfl, rfl⟩

theorem mem_validCosts2 {S : Spec2} {ps : List (Mapping Nat × Mapping Nat)} {c : Cost} :
    c ∈ validCosts2 S ps ↔ ∃ p ∈ ps, cost2 S p = some c ∧ c.fits = true := by
  simp only [validCosts2, List.mem_filterMap]
  constructor
  · rintro ⟨p, hp, h⟩
    cases hc : cost2 S p with
    | none => simp [hc] at h
    | some c' =>
      simp only [hc] at h
      by_cases hf : c'.fits = true
      · simp only [hf, if_true, Option.some.injEq] at h
        subst h
        exact ⟨p, hp, hc, hf⟩
      · simp [hf] at h
  · rintro ⟨p, hp, hc, hf⟩
    exact ⟨p, hp, by simp [hc, hf]⟩


/-- The distinct things `combine` looks at: the halves of the members of one Einsum's space. -/
def halves (s : SpecDesc) (x : TId) : List Half := (all s).filterMap (half s x)

theorem half_key {s : SpecDesc} {x : TId} {m : Mapping Nat} {h : Half} (hh : half s x m = some h) :
    fusedKey x m = some h.key := by
  unfold half at hh
  cases hk : fusedKey x m with
  | none => simp [hk] at hh
  | some key =>
    cases hb : backingAt x 0 m with
    | none => simp [hk, hb] at hh
    | some p =>
      cases ha : analytic s.arch s.workload (castMapping m) with
      | none => simp [hk, hb, ha] at hh
      | some r =>
        simp only [hk, hb, ha, Option.some.injEq] at hh
        subst hh
        rfl

/-- The valid costs of the fused space are exactly the within-capacity combinations of a half of Einsum 0 with a half
of Einsum 1 (this is what the driver's `scan2` enumerates, after removing duplicate halves). -/
theorem mem_validCosts2_halves (S : Spec2) (c : Cost) :
    c ∈ validCosts2 S (all2 S) ↔
      ∃ a ∈ halves S.s0 S.x0, ∃ b ∈ halves S.s1 S.x1, combine S.s0 a b = some c ∧ c.fits = true := by
  rw [mem_validCosts2]
  simp only [halves, List.mem_filterMap]
  constructor
  · rintro ⟨⟨m0, m1⟩, hp, hc, hf⟩
    obtain ⟨h0, h1, _⟩ := (mem_all2_iff S m0 m1).1 hp
    unfold cost2 at hc
    cases ha : half S.s0 S.x0 m0 with
    | none => simp [ha] at hc
    | some a =>
      cases hb : half S.s1 S.x1 m1 with
      | none => simp [ha, hb] at hc
      | some b =>
        simp only [ha, hb] at hc
        exact ⟨a, ⟨m0, (mem_all_iff _ _).2 h0, ha⟩, b, ⟨m1, (mem_all_iff _ _).2 h1, hb⟩, hc, hf⟩
  · rintro ⟨a, ⟨m0, hm0, ha⟩, b, ⟨m1, hm1, hb⟩, hc, hf⟩
    have hkey : a.key = b.key := by
      unfold combine at hc
      by_cases hk : a.key = b.key
      · exact hk
      · simp [hk] at hc
    have hcomp : compatible S m0 m1 = true := by
      unfold compatible
      rw [half_key ha, half_key hb]
      simp [hkey]
    refine ⟨(m0, m1), (mem_all2_iff S m0 m1).2 ⟨(mem_all_iff _ _).1 hm0, (mem_all_iff _ _).1 hm1, hcomp⟩, ?_, hf⟩
    simp only [cost2, ha, hb]
    exact hc

end AFV.Mapspace
