import AFV.Lemmas.MapspaceDecl
import AFV.Lemmas.Front
import Mathlib.Algebra.Order.Ring.Rat
import Mathlib.Algebra.Order.Field.Basic
import Mathlib.Data.Rat.Lemmas
/-!
# `refBest` / `refFront` are the minimum / the Pareto front over every valid member of the described space
-/
namespace AFV.Mapspace
open AFV.Nest AFV.Front

/-! ## minima over rationals -/

theorem minQ_eq_none {α : Type} {g : α → Rat} : ∀ {l : List α}, minQ g l = none ↔ l = []
  | [] => by simp [minQ]
  | a :: l => by
    simp only [minQ]
    cases h : minQ g l <;> simp

theorem minQ_eq_some {α : Type} {g : α → Rat} : ∀ {l : List α} {m : Rat}, minQ g l = some m →
    (∃ a ∈ l, g a = m) ∧ ∀ a ∈ l, m ≤ g a
  | [], m, h => by simp [minQ] at h
  | a :: l, m, h => by
    simp only [minQ] at h
    cases h' : minQ g l with
    | none =>
      rw [h'] at h
      have hl : l = [] := minQ_eq_none.1 h'
      subst hl
      simp only [Option.some.injEq] at h
      subst h
      exact ⟨⟨a, by simp, rfl⟩, fun b hb => by simp at hb; subst hb; exact le_refl _⟩
    | some m' =>
      rw [h'] at h
      simp only [Option.some.injEq] at h
      obtain ⟨⟨b, hb, hgb⟩, hlb⟩ := minQ_eq_some h'
      by_cases hc : g a ≤ m'
      · rw [if_pos hc] at h
        subst h
        refine ⟨⟨a, by simp, rfl⟩, fun x hx => ?_⟩
        rcases List.mem_cons.1 hx with rfl | hx
        · exact le_refl _
        · exact le_trans hc (hlb x hx)
      · rw [if_neg hc] at h
        subst h
        refine ⟨⟨b, by simp [hb], hgb⟩, fun x hx => ?_⟩
        rcases List.mem_cons.1 hx with rfl | hx
        · exact le_of_lt (not_le.1 hc)
        · exact hlb x hx

theorem mem_validCosts {s : SpecDesc} {ms : List (Mapping Nat)} {c : Cost} :
    c ∈ validCosts s ms ↔ ∃ m ∈ ms, cost s m = some c ∧ c.fits = true := by
  simp only [validCosts, List.mem_filterMap]
  constructor
  · rintro ⟨m, hm, h⟩
    cases hc : cost s m with
    | none => simp [hc] at h
    | some c' =>
      simp only [hc] at h
      by_cases hf : c'.fits = true
      · simp only [hf, if_true, Option.some.injEq] at h
        subst h
        exact ⟨m, hm, hc, hf⟩
      · simp [hf] at h
  · rintro ⟨m, hm, hc, hf⟩
    exact ⟨m, hm, by simp [hc, hf]⟩

/-! ## exact scaling -/

theorem optAll_eq_some {α : Type} : ∀ {l : List (Option α)} {r : List α}, optAll l = some r → l = r.map some
  | [], r, h => by simp [optAll] at h; subst h; rfl
  | none :: l, r, h => by simp [optAll] at h
  | some a :: l, r, h => by
    simp only [optAll, Option.map_eq_some_iff] at h
    obtain ⟨r', hr', rfl⟩ := h
    simp [optAll_eq_some hr']

theorem scaleQ_spec {D : Nat} {q : Rat} {a : Int} (h : scaleQ D q = some a) : q * (D : Rat) = (a : Rat) := by
  unfold scaleQ at h
  simp only at h
  split at h
  · rename_i hd
    simp only [Option.some.injEq] at h
    subst h
    exact (Rat.coe_int_num_of_den_eq_one (by simpa using hd)).symm
  · cases h

theorem scaleQ_le {D : Nat} (hD : 0 < D) {q r : Rat} {a b : Int} (ha : scaleQ D q = some a) (hb : scaleQ D r = some b) :
    a ≤ b ↔ q ≤ r := by
  have h1 := scaleQ_spec ha
  have h2 := scaleQ_spec hb
  have hD' : (0 : Rat) < (D : Rat) := by exact_mod_cast hD
  rw [← Int.cast_le (R := Rat), ← h1, ← h2]
  exact mul_le_mul_iff_of_pos_right hD'

/-- Coordinatewise `≤` on rational vectors of equal length. -/
def leQ (u v : List Rat) : Prop := List.Forall₂ (· ≤ ·) u v

theorem scaleVec_leqAll {D : Nat} (hD : 0 < D) : ∀ {u v : List Rat} {a b : Vec},
    scaleVec D u = some a → scaleVec D v = some b → (leqAll a b = true ↔ leQ u v) := by
  intro u v a b hu hv
  have hu' := optAll_eq_some hu
  have hv' := optAll_eq_some hv
  clear hu hv
  induction u generalizing v a b with
  | nil =>
    cases a with
    | nil =>
      cases v with
      | nil =>
        cases b with
        | nil => simp [leqAll, leQ]
        | cons _ _ => simp at hv'
      | cons _ _ =>
        cases b with
        | nil => simp at hv'
        | cons _ _ => simp [leqAll, leQ]
    | cons _ _ => simp at hu'
  | cons q u ih =>
    cases a with
    | nil => simp at hu'
    | cons x a =>
      simp only [List.map_cons, List.cons.injEq] at hu'
      cases v with
      | nil =>
        cases b with
        | nil => simp [leqAll, leQ]
        | cons _ _ => simp at hv'
      | cons r v =>
        cases b with
        | nil => simp at hv'
        | cons y b =>
          simp only [List.map_cons, List.cons.injEq] at hv'
          simp only [leqAll, Bool.and_eq_true, decide_eq_true_eq, leQ, List.forall₂_cons]
          rw [scaleQ_le hD hu'.1 hv'.1]
          exact and_congr Iff.rfl (ih hu'.2 hv'.2)

end AFV.Mapspace
