import AFV.Model.Breakdown
import AFV.Spec.Breakdown
/-!
Closed forms of `_get_cols` / `access`:

* with `col_idx = i` the selected columns are exactly those whose FIRST occurrence of the key is
  at position `i` (`col.index(key) == i`) — never an error from `_get_cols`;
* with `col_idx = None` and the key occurring at most once per name and always at position `j`,
  the selected columns are all those containing the key.

In both cases, if the names were distinct and each selected name has at least two parts, the
renamed table is `filterMap (selAt key i)` and its names are distinct again.
-/
namespace AFV.Breakdown.Lemmas
open AFV.Breakdown AFV.Breakdown.Spec

/-- Selection + renaming of one column by `access(key, col_idx=i)`. -/
def selAt (key : String) (i : Nat) (pv : Col × Int) : Option (Col × Int) :=
  if key ∈ pv.1 ∧ pv.1.idxOf key = i then some (pv.1.eraseIdx i, pv.2) else none

theorem mapE_ok {α β ε} (f : α → Except ε β) (g : α → β) (l : List α)
    (h : ∀ a ∈ l, f a = .ok (g a)) : mapE f l = .ok (l.map g) := by
  induction l with
  | nil => rfl
  | cons a as ih =>
    have ha := h a (by simp)
    have ih' := ih (fun x hx => h x (by simp [hx]))
    simp [mapE, ha, ih']

theorem getColsGo_some (key : String) (i : Nat) (row : Row) :
    getColsGo key (some i) row (some i) =
      .ok (row.filter (fun pv => key ∈ pv.1 ∧ pv.1.idxOf key = i), some i) := by
  induction row with
  | nil => rfl
  | cons pv rest ih =>
    obtain ⟨p, v⟩ := pv
    by_cases hk : key ∈ p
    · by_cases hi : p.idxOf key = i
      · simp [getColsGo, hk, hi, ih]
      · simp [getColsGo, hk, hi, ih]
    · simp [getColsGo, hk, ih]

theorem getColsGo_none (key : String) (j : Nat) (row : Row) (fi : Option Nat)
    (hfi : fi = none ∨ fi = some j)
    (h : ∀ pv ∈ row, key ∈ pv.1 → pv.1.idxOf key = j ∧ pv.1.count key ≤ 1) :
    ∃ fi', getColsGo key none row fi = .ok (row.filter (fun pv => key ∈ pv.1), fi') ∧
      (fi' = none ∨ fi' = some j) ∧ (row.filter (fun pv => key ∈ pv.1) ≠ [] → fi' = some j) := by
  induction row generalizing fi with
  | nil => exact ⟨fi, rfl, hfi, by simp⟩
  | cons pv rest ih =>
    obtain ⟨p, v⟩ := pv
    have hrest : ∀ pv ∈ rest, key ∈ pv.1 → pv.1.idxOf key = j ∧ pv.1.count key ≤ 1 :=
      fun x hx => h x (by simp [hx])
    by_cases hk : key ∈ p
    · obtain ⟨hj, hc⟩ := h (p, v) (by simp) hk
      obtain ⟨fi', h1, h2, h3⟩ := ih (some j) (Or.inr rfl) hrest
      refine ⟨fi', ?_, h2, ?_⟩
      · have hc2 : List.count key p ≤ 1 := hc
        have hc' : ¬ 1 < List.count key p := by omega
        have hv : ¬ (fi.isSome = true ∧ ¬ fi = some j) := by
          rcases hfi with rfl | rfl <;> simp
        simp only [getColsGo, hk, not_true_eq_false, if_false, Option.isSome_none, Bool.false_eq_true,
          false_and, Option.isNone_none, true_and, hc', hj, ne_eq, hv, h1, List.filter_cons,
          decide_true, if_true]
      · intro _
        -- fi' is `some j`: it was `some j` when entering the tail and `getColsGo` never resets it
        rcases h2 with h2 | h2
        · -- impossible: tail started from `some j`
          exfalso
          have : ∀ (r : Row) (f : Option Nat) (sel : Row) (f' : Option Nat),
              getColsGo key none r f = .ok (sel, f') → f.isSome → f'.isSome := by
            intro r
            induction r with
            | nil => intro f sel f' hh hf; simp [getColsGo] at hh; rw [← hh.2]; exact hf
            | cons q qs ihq =>
              intro f sel f' hh hf
              obtain ⟨qp, qv⟩ := q
              simp only [getColsGo] at hh
              split at hh
              · exact ihq _ _ _ hh hf
              · split at hh
                · exact ihq _ _ _ hh hf
                · split at hh
                  · cases hh
                  · split at hh
                    · cases hh
                    · split at hh
                      · cases hh
                      · rename_i found fi2 heq
                        simp only [Except.ok.injEq, Prod.mk.injEq] at hh
                        rw [← hh.2]
                        exact ihq _ _ _ heq rfl
          have := this rest (some j) _ fi' h1 rfl
          simp [h2] at this
        · exact h2
    · obtain ⟨fi', h1, h2, h3⟩ := ih fi hfi hrest
      refine ⟨fi', ?_, h2, ?_⟩
      · simp [getColsGo, hk, h1]
      · simpa [List.filter_cons, hk] using h3

theorem renameGo_ok (idx : Option Nat) (sel : Row) (seen : List Col)
    (hn : (sel.map (fun pv => eraseKey idx pv.1)).Nodup)
    (hd : ∀ pv ∈ sel, eraseKey idx pv.1 ∉ seen) :
    renameGo idx sel seen = .ok (sel.map (fun pv => (eraseKey idx pv.1, pv.2))) := by
  induction sel generalizing seen with
  | nil => rfl
  | cons pv rest ih =>
    obtain ⟨p, v⟩ := pv
    have h0 : eraseKey idx p ∉ seen := hd (p, v) (by simp)
    simp only [List.map_cons, List.nodup_cons] at hn
    have ih' := ih (eraseKey idx p :: seen) hn.2 (by
      intro x hx
      simp only [List.mem_cons, not_or]
      refine ⟨?_, hd x (by simp [hx])⟩
      intro he
      exact hn.1 (by simp only [List.mem_map]; exact ⟨x, hx, he⟩))
    simp [renameGo, h0, ih']

theorem eraseIdx_inj {α} (p q : List α) (i : Nat) (a : α)
    (hp : p[i]? = some a) (hq : q[i]? = some a) (h : p.eraseIdx i = q.eraseIdx i) : p = q := by
  induction p generalizing q i with
  | nil => simp at hp
  | cons x xs ih =>
    cases q with
    | nil => simp at hq
    | cons y ys =>
      cases i with
      | zero =>
        simp only [List.getElem?_cons_zero, Option.some.injEq] at hp hq
        simp only [List.eraseIdx_cons_zero] at h
        rw [hp, hq, h]
      | succ i =>
        simp only [List.getElem?_cons_succ] at hp hq
        simp only [List.eraseIdx_cons_succ, List.cons.injEq] at h
        rw [h.1, ih ys i hp hq h.2]

theorem nodup_map_of_inj_on {α β} (f : α → β) (l : List α) (hn : l.Nodup)
    (hinj : ∀ a ∈ l, ∀ b ∈ l, f a = f b → a = b) : (l.map f).Nodup := by
  induction l with
  | nil => simp
  | cons x xs ih =>
    simp only [List.map_cons, List.nodup_cons, List.mem_map, not_exists, not_and]
    refine ⟨?_, ih (List.nodup_cons.mp hn).2 (fun a ha b hb => hinj a (by simp [ha]) b (by simp [hb]))⟩
    intro y hy he
    have := hinj y (by simp [hy]) x (by simp) he
    subst this
    exact (List.nodup_cons.mp hn).1 hy

theorem getElem?_idxOf {p : Col} {key : String} (h : key ∈ p) : p[p.idxOf key]? = some key := by
  have hlt : p.idxOf key < p.length := List.idxOf_lt_length_iff.mpr h
  rw [List.getElem?_eq_getElem hlt, List.getElem_idxOf hlt]

theorem eraseKey_some_of_len {p : Col} {i : Nat} (h : 2 ≤ p.length) :
    eraseKey (some i) p = p.eraseIdx i := by
  unfold eraseKey
  have : p.eraseIdx i ≠ [] := by
    intro he
    have := congrArg List.length he
    rw [List.length_eraseIdx] at this
    simp only [List.length_nil] at this
    split at this <;> omega
  simp [this]

theorem map_fst_filterMap_selAt (key : String) (i : Nat) (row : Row) :
    (row.filterMap (selAt key i)).map (·.1) =
      ((row.filter (fun pv => key ∈ pv.1 ∧ pv.1.idxOf key = i)).map (·.1)).map (fun p => p.eraseIdx i) := by
  induction row with
  | nil => rfl
  | cons pv rest ih =>
    by_cases h : key ∈ pv.1 ∧ pv.1.idxOf key = i
    · simp only [List.filterMap_cons, selAt, h, and_self, if_true, List.map_cons, List.filter_cons,
        decide_true, List.cons.injEq, true_and]
      exact ih
    · simp only [List.filterMap_cons, selAt, h, if_false, List.filter_cons, decide_false]
      exact ih

theorem filter_map_selAt (key : String) (i : Nat) (row : Row)
    (hlen : ∀ pv ∈ row, key ∈ pv.1 → pv.1.idxOf key = i → 2 ≤ pv.1.length) :
    (row.filter (fun pv => key ∈ pv.1 ∧ pv.1.idxOf key = i)).map
        (fun pv => (eraseKey (some i) pv.1, pv.2)) = row.filterMap (selAt key i) := by
  induction row with
  | nil => rfl
  | cons pv rest ih =>
    have ih' := ih (fun x hx => hlen x (by simp [hx]))
    by_cases h : key ∈ pv.1 ∧ pv.1.idxOf key = i
    · have hl := hlen pv (by simp) h.1 h.2
      simp only [List.filter_cons, h, and_self, decide_true, if_true, List.map_cons,
        List.filterMap_cons, selAt, eraseKey_some_of_len hl, ih']
    · simp only [List.filter_cons, h, decide_false, List.filterMap_cons, selAt, if_false]
      exact ih'

/-- Names stay distinct after removing the key at position `i` from names that all carry it there. -/
theorem nodup_selected (key : String) (i : Nat) (row : Row) (hn : (row.map (·.1)).Nodup) :
    ((row.filterMap (selAt key i)).map (·.1)).Nodup := by
  rw [map_fst_filterMap_selAt]
  apply nodup_map_of_inj_on
  · exact (hn.sublist (List.Sublist.map _ List.filter_sublist))
  · intro a ha b hb he
    simp only [List.mem_map, List.mem_filter, decide_eq_true_eq] at ha hb
    obtain ⟨pa, ⟨_, hka, hia⟩, rfl⟩ := ha
    obtain ⟨pb, ⟨_, hkb, hib⟩, rfl⟩ := hb
    have h1 := getElem?_idxOf hka
    have h2 := getElem?_idxOf hkb
    rw [hia] at h1
    rw [hib] at h2
    exact eraseIdx_inj _ _ i key h1 h2 he

/-- **`access(key, col_idx=i)`** on distinct names, each selected name having ≥ 2 parts. -/
theorem access_some_ok (row : Row) (key : String) (i : Nat) (hn : (row.map (·.1)).Nodup)
    (hlen : ∀ pv ∈ row, key ∈ pv.1 → pv.1.idxOf key = i → 2 ≤ pv.1.length) :
    access row key (some i) = .ok (row.filterMap (selAt key i)) := by
  have hnod := nodup_selected key i row hn
  have hsel := filter_map_selAt key i row hlen
  unfold access
  simp only [hn, not_true_eq_false, if_false, getColsGo_some]
  rw [renameGo_ok, hsel]
  · have : List.map (fun pv => eraseKey (some i) pv.1)
        (row.filter (fun pv => key ∈ pv.1 ∧ pv.1.idxOf key = i)) =
        (row.filterMap (selAt key i)).map (·.1) := by
      rw [← hsel]; simp [Function.comp_def]
    rw [this]; exact hnod
  · simp

/-- **`access(key)`** (no `col_idx`) when the key occurs at most once per name, always at `j`. -/
theorem access_none_ok (row : Row) (key : String) (j : Nat) (hn : (row.map (·.1)).Nodup)
    (h : ∀ pv ∈ row, key ∈ pv.1 → pv.1.idxOf key = j ∧ pv.1.count key ≤ 1 ∧ 2 ≤ pv.1.length) :
    access row key none = .ok (row.filterMap (selAt key j)) := by
  have hnod := nodup_selected key j row hn
  have hfil : row.filter (fun pv => key ∈ pv.1) = row.filter (fun pv => key ∈ pv.1 ∧ pv.1.idxOf key = j) := by
    apply List.filter_congr
    intro x hx
    by_cases hk : key ∈ x.1
    · simp [hk, (h x hx hk).1]
    · simp [hk]
  have hsel := filter_map_selAt key j row (fun pv hpv hk _ => (h pv hpv hk).2.2)
  obtain ⟨fi', h1, h2, h3⟩ := getColsGo_none key j row none (Or.inl rfl)
    (fun pv hpv hk => ⟨(h pv hpv hk).1, (h pv hpv hk).2.1⟩)
  unfold access
  simp only [hn, not_true_eq_false, if_false, h1]
  by_cases hne : row.filter (fun pv => key ∈ pv.1) = []
  · rw [hne]
    have : row.filterMap (selAt key j) = [] := by
      rw [← hsel, ← hfil, hne]; rfl
    rw [this]; rfl
  · rw [h3 hne, hfil, renameGo_ok, hsel]
    · have : List.map (fun pv => eraseKey (some j) pv.1)
          (row.filter (fun pv => key ∈ pv.1 ∧ pv.1.idxOf key = j)) =
          (row.filterMap (selAt key j)).map (·.1) := by
        rw [← hsel]; simp [Function.comp_def]
      rw [this]; exact hnod
    · simp

theorem mem_selAt (key : String) (i : Nat) (row : Row) (q : Col) (v : Int) :
    (q, v) ∈ row.filterMap (selAt key i) ↔
      ∃ p, (p, v) ∈ row ∧ key ∈ p ∧ p.idxOf key = i ∧ q = p.eraseIdx i := by
  simp only [List.mem_filterMap, selAt]
  constructor
  · rintro ⟨⟨p, w⟩, hm, hs⟩
    split at hs
    · rename_i hc
      simp only [Option.some.injEq, Prod.mk.injEq] at hs
      exact ⟨p, hs.2 ▸ hm, hc.1, hc.2, hs.1.symm⟩
    · cases hs
  · rintro ⟨p, hm, hk, hi, rfl⟩
    exact ⟨(p, v), hm, by simp [hk, hi]⟩

end AFV.Breakdown.Lemmas
