import AFV.Model.Compress
/-!
Helper lemmas for C15: labelled frames, the dict built by `_compress_pmapping_list` is a tiling of
the global row numbering, and the reverse walk of `decompress_pmappings` finds every row.
-/
namespace AFV.Compress

variable {α : Type}

/-! ### labelling rows with consecutive indices -/

/-- `zip (range' s n) rows`, by recursion. -/
def label {β} (s : Nat) : List β → List (Nat × β)
  | [] => []
  | r :: rs => (s, r) :: label (s + 1) rs

theorem zip_range_eq_label {β} (t : List β) (s : Nat) :
    ((List.range t.length).map (· + s)).zip t = label s t := by
  induction t generalizing s with
  | nil => simp [label]
  | cons r rs ih =>
    have := ih (s + 1)
    simp only [List.length_cons, List.range_succ_eq_map, List.map_cons, List.map_map,
      List.zip_cons_cons, label, Nat.zero_add]
    congr 1
    rw [← this]
    congr 2
    funext x
    simp only [Function.comp]
    omega

theorem label_map {β γ} (f : β → γ) (s : Nat) (l : List β) :
    (label s l).map (fun p => (p.1, f p.2)) = label s (l.map f) := by
  induction l generalizing s with
  | nil => rfl
  | cons r rs ih => simp [label, ih]

theorem label_length {β} (s : Nat) (l : List β) : (label s l).length = l.length := by
  induction l generalizing s with
  | nil => rfl
  | cons r rs ih => simp [label, ih]

theorem label_fst {β} (s : Nat) (l : List β) : (label s l).map (·.1) = List.range' s l.length := by
  induction l generalizing s with
  | nil => rfl
  | cons r rs ih => simp [label, ih, List.range'_succ]

theorem label_snd {β} (s : Nat) (l : List β) : (label s l).map (·.2) = l := by
  induction l generalizing s with
  | nil => rfl
  | cons r rs ih => simp [label, ih]

theorem label_append {β} (s : Nat) (l₁ l₂ : List β) :
    label s (l₁ ++ l₂) = label s l₁ ++ label (s + l₁.length) l₂ := by
  induction l₁ generalizing s with
  | nil => simp [label]
  | cons r rs ih =>
    simp only [List.cons_append, label, ih, List.length_cons, List.cons.injEq, true_and]
    congr 2
    omega

/-- Selecting by index label in a labelled frame. -/
theorem label_filter {β} (s i : Nat) (l : List β) :
    (label s l).filter (fun p => p.1 == i) =
      if s ≤ i then (match l[i - s]? with | some r => [(i, r)] | none => []) else [] := by
  induction l generalizing s with
  | nil => simp [label]
  | cons r rs ih =>
    simp only [label, List.filter_cons, ih]
    by_cases h : s = i
    · subst h
      simp
      intro h
      omega
    · have hb : ((s, r).1 == i) = false := by simpa using h
      simp only [hb]
      by_cases h2 : s + 1 ≤ i
      · have h3 : s ≤ i := by omega
        have h4 : i - s = (i - (s + 1)) + 1 := by omega
        simp [h2, h3, h4]
      · have h3 : ¬ s ≤ i := by omega
        simp [h2, h3]

theorem compress1_fst (j : String → Bool) (t : Table α) (s : Nat) :
    (compress1 j t s).1 = (label s t).map (fun p => { keep := keepCells j p.2, idx := p.1 }) := by
  simp [compress1, zip_range_eq_label]

theorem compress1_snd (j : String → Bool) (t : Table α) (s : Nat) :
    (compress1 j t s).2 = label s (t.map (asideCells j)) := by
  simp only [compress1, zip_range_eq_label]
  exact label_map (asideCells j) s t

/-! ### Python dict assignment -/

theorem dictSet_append_of_not_mem {β} (d : List (Nat × β)) (k : Nat) (v : β)
    (h : ∀ p ∈ d, p.1 ≠ k) : dictSet d k v = d ++ [(k, v)] := by
  induction d with
  | nil => rfl
  | cons x d ih =>
    have hx : x.1 ≠ k := h x (by simp)
    have : dictSet (x :: d) k v = x :: dictSet d k v := by
      cases x with | mk a b => simp only [dictSet]; rw [if_neg hx]
    rw [this, ih (fun p hp => h p (by simp [hp]))]
    rfl

theorem dictSet_replace_last {β} (d : List (Nat × β)) (k : Nat) (v0 v : β)
    (h : ∀ p ∈ d, p.1 ≠ k) : dictSet (d ++ [(k, v0)]) k v = d ++ [(k, v)] := by
  induction d with
  | nil => simp [dictSet]
  | cons x d ih =>
    have hx : x.1 ≠ k := h x (by simp)
    have : dictSet (x :: (d ++ [(k, v0)])) k v = x :: dictSet (d ++ [(k, v0)]) k v := by
      cases x with | mk a b => simp only [dictSet]; rw [if_neg hx]
    rw [List.cons_append, this, ih (fun p hp => h p (by simp [hp]))]
    rfl

/-! ### the dict is a reverse tiling of the global numbering -/

/-- `RT G dr s`: read from its last entry backwards, the dict `dr` tiles `[0, s)`; entry
`(s', f)` holds rows `s' … s_next-1` of the global kept-aside rows `G`, labelled with their global
numbers; keys are strictly increasing. -/
def RT (G : List (Row α)) : List (Nat × Frame α) → Nat → Prop
  | [], s => s = 0
  | (s', f) :: rest, s =>
    s' ≤ s ∧ s ≤ G.length ∧ f = label s' ((G.drop s').take (s - s')) ∧
      (∀ p ∈ rest, p.1 < s') ∧ RT G rest s'

theorem RT_keys_le (G : List (Row α)) (dr : List (Nat × Frame α)) (s : Nat) (h : RT G dr s) :
    ∀ p ∈ dr, p.1 ≤ s := by
  cases dr with
  | nil => simp
  | cons x rest =>
    obtain ⟨s', f⟩ := x
    obtain ⟨h1, _, _, h4, _⟩ := h
    intro p hp
    rcases List.mem_cons.mp hp with rfl | hp
    · exact h1
    · exact Nat.le_trans (Nat.le_of_lt (h4 p hp)) h1

/-- One `decompress_data[start_index] = decompress` step keeps the tiling. -/
theorem RT_step (G : List (Row α)) (d : List (Nat × Frame α)) (s n : Nat)
    (h : RT G d.reverse s) (hn : s + n ≤ G.length) :
    RT G (dictSet d s (label s ((G.drop s).take n))).reverse (s + n) := by
  rcases List.eq_nil_or_concat d with rfl | ⟨d', x, rfl⟩
  · simp only [List.reverse_nil, RT] at h
    subst h
    simp only [dictSet, List.reverse_cons, List.reverse_nil, List.nil_append, RT]
    refine ⟨by omega, hn, by simp, by simp, trivial⟩
  · obtain ⟨s', f⟩ := x
    simp only [List.concat_eq_append, List.reverse_append, List.reverse_cons, List.reverse_nil,
      List.nil_append, List.cons_append, RT] at h
    obtain ⟨h1, h2, h3, h4, h5⟩ := h
    have hd' : ∀ p ∈ d', p.1 < s' := fun p hp => h4 p (by simpa using hp)
    by_cases hs : s' = s
    · subst hs
      rw [List.concat_eq_append, dictSet_replace_last d' s' f _ (fun p hp => Nat.ne_of_lt (hd' p hp))]
      simp only [List.reverse_append, List.reverse_cons, List.reverse_nil, List.nil_append,
        List.cons_append, RT]
      refine ⟨by omega, hn, by simp, h4, h5⟩
    · have hlt : s' < s := by omega
      rw [List.concat_eq_append, dictSet_append_of_not_mem]
      · simp only [List.reverse_append, List.reverse_cons, List.reverse_nil, List.nil_append,
          List.cons_append, RT]
        refine ⟨by omega, hn, by simp, ?_, h1, h2, h3, h4, h5⟩
        intro p hp
        rcases List.mem_cons.mp hp with rfl | hp
        · exact hlt
        · exact Nat.lt_trans (h4 p hp) hlt
      · intro p hp
        rcases List.mem_append.mp hp with hp | hp
        · exact Nat.ne_of_lt (Nat.lt_trans (hd' p hp) hlt)
        · simp only [List.mem_singleton] at hp
          subst hp
          exact Nat.ne_of_lt hlt

/-- The dict-building loop of `_compress_pmapping_list`, started in the middle. -/
theorem RT_fold (j : String → Bool) (G : List (Row α)) (suf : List (Table α)) (d : Dict α) (s : Nat)
    (h : RT G d.reverse s) (hG : G.drop s = suf.flatten.map (asideCells j))
    (hs : s + suf.flatten.length = G.length) :
    RT G (((suf.zip (starts suf s)).map (fun p => (compress1 j p.1 p.2, p.2))).foldl
      (fun d r => dictSet d r.2 r.1.2) d).reverse G.length := by
  induction suf generalizing d s with
  | nil =>
    simp only [List.flatten_nil, List.length_nil, Nat.add_zero] at hs
    subst hs
    simpa [starts] using h
  | cons t suf ih =>
    simp only [starts, List.zip_cons_cons, List.map_cons, List.foldl_cons, compress1_snd]
    simp only [List.flatten_cons, List.length_append] at hs
    have htake : t.map (asideCells j) = (G.drop s).take t.length := by
      rw [hG]; simp
    rw [htake]
    apply ih
    · exact RT_step G d s t.length h (by omega)
    · rw [← List.drop_drop, hG]; simp
    · omega

theorem RT_compressList (j : String → Bool) (ts : List (Table α)) :
    RT (ts.flatten.map (asideCells j)) (compressList j ts).2.reverse ts.flatten.length := by
  have := RT_fold j (ts.flatten.map (asideCells j)) ts [] 0 (by simp [RT]) (List.drop_zero ..)
    (by rw [List.length_map, Nat.zero_add])
  rw [List.length_map] at this
  exact this

/-! ### the reverse walk -/

/-- `advance` on the stack view: the current `(start, chosen)` on top of what the iterator still holds. -/
def adv (i : Nat) : List (Nat × Frame α) → Option (List (Nat × Frame α))
  | [] => none
  | c :: it => if i < c.1 then adv i it else some (c :: it)

theorem advance_some (i : Nat) (c : Nat × Frame α) (it : List (Nat × Frame α)) :
    advance i (some c) it = (adv i (c :: it)).bind (fun st =>
      match st with | [] => none | c' :: it' => some (c', it')) := by
  induction it generalizing c with
  | nil => by_cases h : i < c.1 <;> simp [advance, adv, h]
  | cons x it ih =>
    by_cases h : i < c.1
    · simp only [advance, h, if_true, adv]
      rw [ih x]
      simp [adv]
    · simp [advance, adv, h]

theorem advance_none (i : Nat) (it : List (Nat × Frame α)) :
    advance i none it = (adv i it).bind (fun st =>
      match st with | [] => none | c' :: it' => some (c', it')) := by
  cases it with
  | nil => simp [advance, adv]
  | cons x it => simp only [advance]; exact advance_some i x it

/-- On a tiling covering `i`, the skipping loop stops at the entry containing `i`. -/
theorem adv_RT (G : List (Row α)) (i : Nat) (st : List (Nat × Frame α)) (m : Nat)
    (h : RT G st m) (hi : i < m) :
    ∃ c it m', adv i st = some (c :: it) ∧ RT G (c :: it) m' ∧ c.1 ≤ i ∧ i < m' := by
  induction st generalizing m with
  | nil => simp only [RT] at h; omega
  | cons x rest ih =>
    obtain ⟨s', f⟩ := x
    by_cases hlt : i < s'
    · obtain ⟨_, _, _, _, h5⟩ := h
      obtain ⟨c, it, m', e, r, a, b⟩ := ih s' h5 hlt
      exact ⟨c, it, m', by simp [adv, hlt, e], r, a, b⟩
    · exact ⟨(s', f), rest, m, by simp [adv, hlt], h, by simpa using hlt, hi⟩

/-- What the walk collects: every index with its global kept-aside row. -/
def picked (G : List (Row α)) (is : List Nat) : Frame α := is.map (fun i => (i, G[i]?.getD []))

theorem RT_filter (G : List (Row α)) (c : Nat × Frame α) (it : List (Nat × Frame α)) (m i : Nat)
    (h : RT G (c :: it) m) (h1 : c.1 ≤ i) (h2 : i < m) :
    c.2.filter (fun p => p.1 == i) = [(i, G[i]?.getD [])] := by
  obtain ⟨s', f⟩ := c
  obtain ⟨_, hm, hf, _, _⟩ := h
  simp only at h1 ⊢
  rw [hf, label_filter]
  have h3 : i - s' < m - s' := by omega
  have h4 : s' + (i - s') = i := by omega
  have h5 : i < G.length := by omega
  simp [h1, h3, h4, h5]

theorem walk_cur_RT (G : List (Row α)) (is : List Nat) (c : Nat × Frame α)
    (it : List (Nat × Frame α)) (m : Nat)
    (h : RT G (c :: it) m) (hd : is.Pairwise (· > ·)) (hlt : ∀ i ∈ is, i < m) :
    walk is (some c) it = .ok (picked G is) := by
  induction is generalizing c it m with
  | nil => simp [walk, picked]
  | cons i is ih =>
    obtain ⟨c', it', m', e, r, a, b⟩ := adv_RT G i (c :: it) m h (hlt i (by simp))
    have hadv : advance i (some c) it = some (c', it') := by rw [advance_some, e]; rfl
    have hrest := ih c' it' m' r (List.Pairwise.of_cons hd)
      (fun k hk => Nat.lt_trans (List.rel_of_pairwise_cons hd hk) b)
    simp only [walk, hadv, RT_filter G c' it' m' i r a b, hrest, picked, List.map_cons]

theorem walk_RT (G : List (Row α)) (is : List Nat) (st : List (Nat × Frame α)) (m : Nat)
    (h : RT G st m) (hd : is.Pairwise (· > ·)) (hlt : ∀ i ∈ is, i < m) :
    walk is none st = .ok (picked G is) := by
  cases is with
  | nil => simp [walk, picked]
  | cons i is =>
    obtain ⟨c', it', m', e, r, a, b⟩ := adv_RT G i st m h (hlt i (by simp))
    have hadv : advance i none st = some (c', it') := by rw [advance_none, e]; rfl
    have hrest := walk_cur_RT G is c' it' m' r (List.Pairwise.of_cons hd)
      (fun k hk => Nat.lt_trans (List.rel_of_pairwise_cons hd hk) b)
    simp only [walk, hadv, RT_filter G c' it' m' i r a b, hrest, picked, List.map_cons]

/-! ### `reversed(sorted(oset(col)))` -/

theorem mem_insDesc (x y : Nat) (l : List Nat) : y ∈ insDesc x l ↔ y = x ∨ y ∈ l := by
  induction l with
  | nil => simp [insDesc]
  | cons z zs ih =>
    simp only [insDesc]
    split
    · simp
    · split
      · rename_i h; subst h; simp
      · simp only [List.mem_cons, ih]
        constructor
        · rintro (h | h | h) <;> simp [h]
        · rintro (h | h | h) <;> simp [h]

theorem pairwise_insDesc (x : Nat) (l : List Nat) (h : l.Pairwise (· > ·)) :
    (insDesc x l).Pairwise (· > ·) := by
  induction l with
  | nil => simp [insDesc]
  | cons z zs ih =>
    simp only [insDesc]
    have hz : ∀ {a'}, a' ∈ zs → z > a' := fun h' => List.rel_of_pairwise_cons h h'
    have hzs := List.Pairwise.of_cons h
    split
    · rename_i hlt
      refine List.Pairwise.cons ?_ h
      intro a ha
      rcases List.mem_cons.mp ha with rfl | ha
      · exact hlt
      · exact Nat.lt_trans (hz ha) hlt
    · split
      · exact h
      · rename_i h1 h2
        refine List.Pairwise.cons ?_ (ih hzs)
        intro a ha
        rcases (mem_insDesc x a zs).mp ha with rfl | ha
        · show z > a
          omega
        · exact hz ha

theorem mem_descSet (y : Nat) (col : List Nat) : y ∈ descSet col ↔ y ∈ col := by
  induction col with
  | nil => simp [descSet]
  | cons x xs ih =>
    have : descSet (x :: xs) = insDesc x (descSet xs) := rfl
    rw [this, mem_insDesc, ih]; simp

theorem pairwise_descSet (col : List Nat) : (descSet col).Pairwise (· > ·) := by
  induction col with
  | nil => simp [descSet]
  | cons x xs ih => exact pairwise_insDesc x _ ih

/-! ### the left merge on a frame with distinct index labels -/

theorem picked_filter (G : List (Row α)) (is : List Nat) (hd : is.Pairwise (· > ·)) (k : Nat)
    (hk : k ∈ is) : (picked G is).filter (fun p => p.1 == k) = [(k, G[k]?.getD [])] := by
  induction is with
  | nil => simp at hk
  | cons i is ih =>
    have hi : ∀ {a'}, a' ∈ is → i > a' := fun h' => List.rel_of_pairwise_cons hd h'
    simp only [picked, List.map_cons, List.filter_cons]
    by_cases h : i = k
    · subst h
      have : (is.map (fun i => (i, G[i]?.getD []))).filter (fun p => p.1 == i) = [] := by
        rw [List.filter_eq_nil_iff]
        intro p hp
        obtain ⟨a, ha, rfl⟩ := List.mem_map.mp hp
        have := hi ha
        simp; omega
      simp [this]
    · have hb : (i == k) = false := by simpa using h
      have hk' : k ∈ is := by
        rcases List.mem_cons.mp hk with rfl | hk'
        · exact absurd rfl h
        · exact hk'
      simp only [hb]
      exact ih (List.Pairwise.of_cons hd) hk'

theorem flatMap_eq_map {β γ} (l : List β) (f : β → List γ) (g : β → γ)
    (h : ∀ x ∈ l, f x = [g x]) : l.flatMap f = l.map g := by
  induction l with
  | nil => rfl
  | cons x xs ih =>
    simp [List.flatMap_cons, h x (by simp), ih (fun y hy => h y (by simp [hy]))]

theorem flatMap_congr_mem {β γ} (l : List β) (f g : β → List γ)
    (h : ∀ x ∈ l, f x = g x) : l.flatMap f = l.flatMap g := by
  induction l with
  | nil => rfl
  | cons x xs ih =>
    simp [List.flatMap_cons, h x (by simp), ih (fun y hy => h y (by simp [hy]))]

theorem mapM_lookup {β γ} (l : List β) (f : β → Option γ) (g : β → γ)
    (h : ∀ r ∈ l, f r = some (g r)) : l.mapM f = some (l.map g) := by
  induction l with
  | nil => rfl
  | cons r rs ih =>
    simp [List.mapM_cons, h r (by simp), ih (fun x hx => h x (by simp [hx]))]

/-! ### pieces of the main theorems -/

theorem compressList_fst (j : String → Bool) (ts : List (Table α)) (s : Nat) :
    ((ts.zip (starts ts s)).map (fun p => (compress1 j p.1 p.2, p.2))).map (fun r => r.1.1) =
      (ts.zip (starts ts s)).map (fun p => (label p.2 p.1).map
        (fun q => ({ keep := keepCells j q.2, idx := q.1 } : CRow α))) := by
  simp [List.map_map, Function.comp_def, compress1_fst]

theorem getD_map_aside (j : String → Bool) (l : List (Row α)) (k : Nat) :
    (l.map (asideCells j))[k]?.getD [] = asideCells j (l[k]?.getD []) := by
  rw [List.getElem?_map]
  cases l[k]? <;> simp [asideCells]

theorem fillRow_congr_mem (conv : α → α) (A B : List (Row α)) (r : Row α)
    (h : ∀ x, x ∈ A ↔ x ∈ B) : fillRow conv A r = fillRow conv B r := by
  unfold fillRow
  apply List.map_congr_left
  intro c _
  have : ∀ f : Row α → Bool, A.all f = B.all f := by
    intro f
    rw [Bool.eq_iff_iff, List.all_eq_true, List.all_eq_true]
    exact ⟨fun hA x hx => hA x ((h x).mpr hx), fun hB x hx => hB x ((h x).mp hx)⟩
  rw [this]

theorem fillRow_id (conv : α → α) (others : List (Row α)) (r : Row α)
    (h : ∀ c ∈ r, conv c.2 = c.2) : fillRow conv others r = r := by
  unfold fillRow
  conv => rhs; rw [← List.map_id r]
  apply List.map_congr_left
  intro c hc
  by_cases hall : others.all (fun r' => r'.any (fun c' => c'.1 == c.1)) = true
  · simp [hall]
  · simp [hall, h c hc]

theorem concatFrames_filter (conv : α → α) (subs : Frame α) (k : Nat) :
    (concatFrames conv subs).filter (fun p => p.1 == k) =
      (subs.filter (fun p => p.1 == k)).map (fun p => (p.1, fillRow conv (subs.map (·.2)) p.2)) := by
  unfold concatFrames
  rw [List.filter_map]
  rfl

/-- `r` with further cells appended (what the left merge does to a matched row). -/
def addCells (r : JRow α) (extra : Row α) : JRow α := { r with cells := r.cells ++ extra }

theorem srcOf_addCells (j : String → Bool) (e : String) (ts : List (Table α)) (r : JRow α)
    (x : Row α) : srcOf j e ts (addCells r x) = srcOf j e ts r := rfl

theorem addCells_addCells (r : JRow α) (x y : Row α) :
    addCells (addCells r x) y = addCells r (x ++ y) := by
  simp [addCells, List.append_assoc]

theorem addCells_nil (r : JRow α) : addCells r [] = r := by
  simp [addCells]

/-- `conv` changes no cell value of the tables (pandas: every integer cell of a column that is
missing from another table is exactly representable in float64, i.e. |n| ≤ 2^53). -/
def NoLoss (conv : α → α) (e2p : List (String × List (Table α))) : Prop :=
  ∀ p ∈ e2p, ∀ t ∈ p.2, ∀ r ∈ t, ∀ c ∈ r, conv c.2 = c.2

theorem srcOf_noLoss (conv : α → α) (j : String → Bool) (e2p : List (String × List (Table α)))
    (h : NoLoss conv e2p) (p : String × List (Table α)) (hp : p ∈ e2p) (r : JRow α) :
    ∀ c ∈ srcOf j p.1 p.2 r, conv c.2 = c.2 := by
  intro c hc
  unfold srcOf at hc
  split at hc
  · rename_i k _
    unfold srcAside asideCells at hc
    have hc' := (List.mem_filter.mp hc).1
    cases hget : p.2.flatten[k]? with
    | none => simp [hget] at hc'
    | some row =>
      simp only [hget, Option.getD_some] at hc'
      have hrow : row ∈ p.2.flatten := List.mem_of_getElem? hget
      obtain ⟨t, ht, hrt⟩ := List.mem_flatten.mp hrow
      exact h p hp t ht row hrt c hc'
  · simp at hc


end AFV.Compress
