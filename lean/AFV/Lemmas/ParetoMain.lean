import AFV.Lemmas.ParetoEff2
/-!
Assembly: groups, the core mask, deduplication — `fastParetoMask = paretoMaskSpec` under the hypotheses.
-/
namespace AFV.Pareto

theorem mem_nub {α} [BEq α] [LawfulBEq α] (y : α) (l : List α) : y ∈ nub l ↔ y ∈ l := by
  induction l with
  | nil => simp [nub]
  | cons x xs ih =>
    simp only [nub, List.mem_cons, List.mem_filter, ih, bne_iff_ne, ne_eq]
    by_cases h : y = x <;> simp [h]

theorem gkey_eq_iff (goals : List Goal) (r s : Row) :
    gkey goals r = gkey goals s ↔ sameDiff goals r s = true := by
  unfold gkey sameDiff diffIdx
  rw [List.map_inj_left, List.all_eq_true]
  constructor
  · intro h gc hgc
    by_cases hg : gc.1 = Goal.diff
    · have := h gc.2 (List.mem_filterMap.mpr ⟨gc, hgc, by simp [hg]⟩)
      simp [this]
    · simp [hg]
  · intro h c hc
    obtain ⟨gc, hgc, hs⟩ := List.mem_filterMap.mp hc
    by_cases hg : gc.1 = Goal.diff
    · simp only [hg, if_true, Option.some.injEq] at hs
      subst hs
      have := h gc hgc
      simpa [hg] using this
    · simp [hg] at hs

theorem getD_mem {data : List Row} {i : Nat} (hi : i < data.length) : data.getD i [] ∈ data := by
  simp [List.getD_eq_getElem?_getD, hi]

theorem exists_getD_of_mem {data : List Row} {r : Row} (h : r ∈ data) :
    ∃ j, j < data.length ∧ data.getD j [] = r := by
  obtain ⟨j, hj, rfl⟩ := List.mem_iff_getElem.mp h
  exact ⟨j, hj, by simp [List.getD_eq_getElem?_getD, hj]⟩

/-- rows kept by the core: the rows of `data` that no row of the same `diff` group dominates on the
effective columns. -/
theorem mem_kept (cfg : Cfg) (goals : List Goal) (data : List Row)
    (hs : Hsweep cfg goals data = true) (hk : Hkey cfg goals data = true) (i : Nat) :
    i ∈ (groupsOf goals data (effCols cfg goals data)).flatMap
          (groupCore cfg (effCols cfg goals data).length) ↔
      i < data.length ∧ ∀ j, j < data.length →
        gkey goals (data.getD j []) = gkey goals (data.getD i []) →
        domV (effCols cfg goals data).length (effRow (effCols cfg goals data) j)
          (effRow (effCols cfg goals data) i) = false := by
  generalize hcols : effCols cfg goals data = cols
  unfold Hsweep at hs
  unfold Hkey at hk
  simp only [hcols] at hs hk
  rw [List.mem_flatMap]
  have hmemG : ∀ (k : List EV) (x : Item),
      x ∈ ((List.range data.length).map fun i => ((i, effRow cols i) : Item)).filter
          (fun it => gkey goals (data.getD it.1 []) == k) ↔
        ∃ i', i' < data.length ∧ x = (i', effRow cols i') ∧ gkey goals (data.getD i' []) = k := by
    intro k x
    simp only [List.mem_filter, List.mem_map, List.mem_range, beq_iff_eq]
    constructor
    · rintro ⟨⟨i', hi', rfl⟩, hk⟩; exact ⟨i', hi', rfl, hk⟩
    · rintro ⟨i', hi', rfl, hk⟩; exact ⟨⟨i', hi', rfl⟩, hk⟩
  constructor
  · rintro ⟨G, hG, hi⟩
    simp only [groupsOf, List.mem_map] at hG
    obtain ⟨k, _, rfl⟩ := hG
    have hsG := List.all_eq_true.mp hs _ (by
      simp only [groupsOf, List.mem_map]; exact ⟨k, ‹_›, rfl⟩)
    have hkG := List.all_eq_true.mp hk _ (by
      simp only [groupsOf, List.mem_map]; exact ⟨k, ‹_›, rfl⟩)
    rw [mem_groupCore cfg _ _ hsG hkG] at hi
    obtain ⟨x, hx, rfl, hnd⟩ := hi
    obtain ⟨i', hi', rfl, hki⟩ := (hmemG k x).mp hx
    refine ⟨hi', ?_⟩
    intro j hj hjk
    have := List.any_eq_false.mp hnd (j, effRow cols j)
      ((hmemG k _).mpr ⟨j, hj, rfl, by rw [hjk]; exact hki⟩)
    simpa using this
  · rintro ⟨hi, hnd⟩
    have hkmem : gkey goals (data.getD i []) ∈ nub (data.map (gkey goals)) :=
      (mem_nub _ _).mpr (List.mem_map.mpr ⟨_, getD_mem hi, rfl⟩)
    refine ⟨_, by simp only [groupsOf, List.mem_map]; exact ⟨_, hkmem, rfl⟩, ?_⟩
    have hsG := List.all_eq_true.mp hs _ (by
      simp only [groupsOf, List.mem_map]; exact ⟨_, hkmem, rfl⟩)
    have hkG := List.all_eq_true.mp hk _ (by
      simp only [groupsOf, List.mem_map]; exact ⟨_, hkmem, rfl⟩)
    rw [mem_groupCore cfg _ _ hsG hkG]
    refine ⟨(i, effRow cols i), (hmemG _ _).mpr ⟨i, hi, rfl, rfl⟩, rfl, ?_⟩
    apply List.any_eq_false.mpr
    intro y hy
    obtain ⟨j, hj, rfl, hjk⟩ := (hmemG _ y).mp hy
    simp [hnd j hj hjk]

/-- "row `i` is not dominated" in the specification. -/
def nd (one : Int) (goals : List Goal) (data : List Row) (i : Nat) : Bool :=
  !(data.any fun r => dominates one goals r (data.getD i []))

theorem nd_congr {one : Int} {goals : List Goal} {data : List Row} {i j : Nat}
    (h : data.getD j [] = data.getD i []) : nd one goals data j = nd one goals data i := by
  unfold nd; rw [h]

theorem coreMask_eq (cfg : Cfg) (goals : List Goal) (data : List Row) (h1 : 0 < cfg.one)
    (hcast : Hcast cfg goals data = true) (hs : Hsweep cfg goals data = true)
    (hk : Hkey cfg goals data = true) :
    coreMask cfg goals data = (List.range data.length).map (nd cfg.one goals data) := by
  unfold coreMask
  apply List.map_congr_left
  intro i hi
  have hi : i < data.length := List.mem_range.mp hi
  rw [Bool.eq_iff_iff, List.contains_iff_mem, mem_kept cfg goals data hs hk i]
  simp only [nd, Bool.not_eq_true', List.any_eq_false, hi, true_and]
  constructor
  · intro h r hr
    obtain ⟨j, hj, rfl⟩ := exists_getD_of_mem hr
    unfold dominates
    cases hsd : sameDiff goals (data.getD j []) (data.getD i [])
    · simp
    · have := h j hj ((gkey_eq_iff _ _ _).mpr hsd)
      rw [domV_eff cfg goals data h1 hcast hj hi] at this
      simpa [Bool.and_assoc] using this
  · intro h j hj hjk
    have := h _ (getD_mem hj)
    unfold dominates at this
    rw [(gkey_eq_iff _ _ _).mp hjk] at this
    rw [domV_eff cfg goals data h1 hcast hj hi]
    simpa [Bool.and_assoc] using this

theorem any_take_range {α} (l : List α) (dflt : α) (p : α → Bool) (i : Nat) (hi : i ≤ l.length) :
    (l.take i).any p = (List.range i).any fun j => p (l.getD j dflt) := by
  induction i with
  | zero => simp
  | succ i ih =>
    have hi' : i < l.length := hi
    rw [List.take_add_one, List.range_succ, List.any_append, List.any_append, ih (Nat.le_of_lt hi')]
    simp [List.getD_eq_getElem?_getD, List.getElem?_eq_getElem hi']

theorem getD_map_range {β} (f : Nat → β) (n : Nat) (dflt : β) {i : Nat} (hi : i < n) :
    ((List.range n).map f).getD i dflt = f i := by
  simp [List.getD_eq_getElem?_getD, hi]

theorem dominates_self (one : Int) (goals : List Goal) (r : Row) : dominates one goals r r = false := by
  unfold dominates
  cases leqOpt one goals r r <;> simp

end AFV.Pareto
