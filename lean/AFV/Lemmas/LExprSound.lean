import AFV.Model.LExpr
import Mathlib.Tactic.Ring
import Mathlib.Tactic.FieldSimp
import Mathlib.Algebra.Order.Field.Rat
import Mathlib.Order.MinMax
/-!
# Soundness of the `LExpr` normaliser

`normalize_sound : (∀ i, ρ i ≠ 0) → Poly.eval ρ (normalize e) = eval ρ e`
`equiv_sound     : equiv a b = true → (∀ i, ρ i ≠ 0) → eval ρ a = eval ρ b`

Nothing about the order used for sorting is needed: every insertion/merge step preserves the
value, whatever position it chooses.  The only fact needed about the structural test `beq` is
`beq a b = true → a = b`.
-/
namespace AFV.LExpr

/-! ## `zpow` is Mathlib's integer power -/

theorem zpow_eq (q : Rat) (e : Int) : LExpr.zpow q e = q ^ e := by
  cases e with
  | ofNat n => simp [LExpr.zpow]
  | negSucc n => simp [LExpr.zpow, zpow_negSucc]

/-! ## `evalList` is `map eval` -/

theorem evalList_eq_map (ρ : Nat → Rat) (xs : List LExpr) : evalList ρ xs = xs.map (eval ρ) := by
  induction xs with
  | nil => simp [evalList]
  | cons x xs ih => simp [evalList, ih]

theorem sumQ_cons (a : Rat) (l : List Rat) : sumQ (a :: l) = a + sumQ l := rfl
theorem prodQ_cons (a : Rat) (l : List Rat) : prodQ (a :: l) = a * prodQ l := rfl
theorem sumQ_nil : sumQ [] = 0 := rfl
theorem prodQ_nil : prodQ [] = 1 := rfl

theorem prodQ_append (l₁ l₂ : List Rat) : prodQ (l₁ ++ l₂) = prodQ l₁ * prodQ l₂ := by
  induction l₁ with
  | nil => simp [prodQ]
  | cons a l ih => simp only [List.cons_append, prodQ_cons, ih]; ring

/-! ## Structural equality test is sound -/

mutual
theorem beq_sound : ∀ (a b : LExpr), beq a b = true → a = b
  | .num p, b, h => by
    cases b <;> simp [beq] at h
    simp [h]
  | .sym i, b, h => by
    cases b <;> simp [beq] at h
    simp [h]
  | .add xs, b, h => by
    cases b <;> simp [beq] at h
    rw [beqList_sound _ _ h]
  | .mul xs, b, h => by
    cases b <;> simp [beq] at h
    rw [beqList_sound _ _ h]
  | .pow a e, b, h => by
    cases b <;> simp [beq] at h
    rw [beq_sound _ _ h.1, h.2]
  | .max xs, b, h => by
    cases b <;> simp [beq] at h
    rw [beqList_sound _ _ h]
  | .min xs, b, h => by
    cases b <;> simp [beq] at h
    rw [beqList_sound _ _ h]
  | .ceil a, b, h => by
    cases b <;> simp [beq] at h
    rw [beq_sound _ _ h]
theorem beqList_sound : ∀ (xs ys : List LExpr), beqList xs ys = true → xs = ys
  | [], ys, h => by
    cases ys <;> simp [beqList] at h
    rfl
  | x :: xs, ys, h => by
    cases ys with
    | nil => simp [beqList] at h
    | cons y ys =>
      simp [beqList] at h
      rw [beq_sound _ _ h.1, beqList_sound _ _ h.2]
end

/-! ## `max`/`min` do not depend on the order or multiplicity of their arguments -/

theorem rmax_eq_max' (a b : Rat) : rmax a b = Max.max a b := by unfold rmax; rw [max_def]
theorem rmin_eq_min' (a b : Rat) : rmin a b = Min.min a b := by
  unfold rmin; rw [min_def]

theorem maxQ_cons_cons (a b : Rat) (l : List Rat) : maxQ (a :: b :: l) = Max.max a (maxQ (b :: l)) := by
  simp [maxQ, rmax_eq_max']
theorem minQ_cons_cons (a b : Rat) (l : List Rat) : minQ (a :: b :: l) = Min.min a (minQ (b :: l)) := by
  simp [minQ, rmin_eq_min']

theorem maxQ_insertArg (ρ : Nat → Rat) (a : LExpr) (l : List LExpr) (hl : l ≠ []) :
    maxQ ((insertArg a l).map (eval ρ)) = Max.max (eval ρ a) (maxQ (l.map (eval ρ))) := by
  induction l with
  | nil => exact absurd rfl hl
  | cons x rest ih =>
    unfold insertArg
    by_cases hb : beq a x = true
    · have := beq_sound _ _ hb; subst this
      simp only [hb, if_true]
      cases rest with
      | nil => simp [maxQ]
      | cons y r => simp only [List.map_cons, maxQ_cons_cons]; rw [← max_assoc, max_self]
    · simp only [hb, Bool.false_eq_true, if_false]
      by_cases hlt : ltCode a.code x.code = true
      · simp only [hlt, if_true, List.map_cons, maxQ_cons_cons]
      · simp only [hlt, Bool.false_eq_true, if_false]
        cases rest with
        | nil => simp [insertArg, maxQ, rmax_eq_max', max_comm]
        | cons y r =>
          have ih' := ih (by simp)
          have hne : insertArg a (y :: r) ≠ [] := by
            unfold insertArg; split <;> [skip; split] <;> simp
          obtain ⟨z, zs, hz⟩ := List.exists_cons_of_ne_nil hne
          rw [hz] at ih' ⊢
          simp only [List.map_cons, maxQ_cons_cons] at ih' ⊢
          rw [ih', max_left_comm]

theorem minQ_insertArg (ρ : Nat → Rat) (a : LExpr) (l : List LExpr) (hl : l ≠ []) :
    minQ ((insertArg a l).map (eval ρ)) = Min.min (eval ρ a) (minQ (l.map (eval ρ))) := by
  induction l with
  | nil => exact absurd rfl hl
  | cons x rest ih =>
    unfold insertArg
    by_cases hb : beq a x = true
    · have := beq_sound _ _ hb; subst this
      simp only [hb, if_true]
      cases rest with
      | nil => simp [minQ]
      | cons y r => simp only [List.map_cons, minQ_cons_cons]; rw [← min_assoc, min_self]
    · simp only [hb, Bool.false_eq_true, if_false]
      by_cases hlt : ltCode a.code x.code = true
      · simp only [hlt, if_true, List.map_cons, minQ_cons_cons]
      · simp only [hlt, Bool.false_eq_true, if_false]
        cases rest with
        | nil => simp [insertArg, minQ, rmin_eq_min', min_comm]
        | cons y r =>
          have ih' := ih (by simp)
          have hne : insertArg a (y :: r) ≠ [] := by
            unfold insertArg; split <;> [skip; split] <;> simp
          obtain ⟨z, zs, hz⟩ := List.exists_cons_of_ne_nil hne
          rw [hz] at ih' ⊢
          simp only [List.map_cons, minQ_cons_cons] at ih' ⊢
          rw [ih', min_left_comm]

theorem sortArgs_ne_nil (l : List LExpr) (h : l ≠ []) : sortArgs l ≠ [] := by
  cases l with
  | nil => exact absurd rfl h
  | cons a r =>
    unfold sortArgs; simp only [List.foldr_cons]
    generalize List.foldr insertArg [] r = t
    cases t with
    | nil => simp [insertArg]
    | cons x t => unfold insertArg; split <;> [skip; split] <;> simp

theorem maxQ_sortArgs (ρ : Nat → Rat) (l : List LExpr) :
    maxQ ((sortArgs l).map (eval ρ)) = maxQ (l.map (eval ρ)) := by
  induction l with
  | nil => rfl
  | cons a r ih =>
    cases r with
    | nil => simp [sortArgs, insertArg]
    | cons b r' =>
      have hne := sortArgs_ne_nil (b :: r') (by simp)
      show maxQ ((insertArg a (sortArgs (b :: r'))).map (eval ρ)) = _
      rw [maxQ_insertArg ρ a _ hne, ih]
      simp only [List.map_cons, maxQ_cons_cons]

theorem minQ_sortArgs (ρ : Nat → Rat) (l : List LExpr) :
    minQ ((sortArgs l).map (eval ρ)) = minQ (l.map (eval ρ)) := by
  induction l with
  | nil => rfl
  | cons a r ih =>
    cases r with
    | nil => simp [sortArgs, insertArg]
    | cons b r' =>
      have hne := sortArgs_ne_nil (b :: r') (by simp)
      show minQ ((insertArg a (sortArgs (b :: r'))).map (eval ρ)) = _
      rw [minQ_insertArg ρ a _ hne, ih]
      simp only [List.map_cons, minQ_cons_cons]

/-! ## Generic value-preservation of merging insertion -/

section KV
variable {K V : Type} (eq lt : K → K → Bool) (addV : V → V → V) (isZero : V → Bool)
variable (op : Rat → Rat → Rat) (e : Rat) (F : K → V → Rat)

/-- Value of an association list: `op`-fold of the entries' values. -/
def foldVal (l : List (K × V)) : Rat := l.foldr (fun kv acc => op (F kv.1 kv.2) acc) e

structure KVLaws : Prop where
  assoc : ∀ a b c, op (op a b) c = op a (op b c)
  comm : ∀ a b, op a b = op b a
  id_left : ∀ a, op e a = a
  eq_sound : ∀ k k', eq k k' = true → k = k'
  add_val : ∀ k v w, F k (addV v w) = op (F k v) (F k w)
  zero_val : ∀ k v, isZero v = true → F k v = e

variable {eq lt addV isZero op e F}

theorem foldVal_insertKV (L : KVLaws eq addV isZero op e F) (k : K) (v : V) (l : List (K × V)) :
    foldVal op e F (insertKV eq lt addV isZero k v l) = op (F k v) (foldVal op e F l) := by
  induction l with
  | nil => simp [insertKV, foldVal]
  | cons kv rest ih =>
    obtain ⟨k', v'⟩ := kv
    simp only [insertKV]
    by_cases hk : eq k k' = true
    · have hkk := L.eq_sound _ _ hk
      subst hkk
      simp only [hk, if_true]
      by_cases hz : isZero (addV v v') = true
      · simp only [hz, if_true]
        have := L.zero_val k _ hz
        rw [L.add_val] at this
        simp only [foldVal, List.foldr_cons]
        rw [← L.assoc, this, L.id_left]
      · simp only [hz]
        simp only [foldVal, List.foldr_cons, Bool.false_eq_true, if_false]
        rw [L.add_val, L.assoc]
    · simp only [hk, Bool.false_eq_true, if_false]
      by_cases hl : lt k k' = true
      · simp [hl, foldVal]
      · simp only [hl, Bool.false_eq_true, if_false]
        simp only [foldVal, List.foldr_cons] at ih ⊢
        rw [ih, ← L.assoc, L.comm (F k' v'), L.assoc]

theorem foldVal_insertNZ (L : KVLaws eq addV isZero op e F) (k : K) (v : V) (l : List (K × V)) :
    foldVal op e F (insertNZ eq lt addV isZero k v l) = op (F k v) (foldVal op e F l) := by
  unfold insertNZ
  by_cases hz : isZero v = true
  · simp only [hz, if_true]; rw [L.zero_val k v hz, L.id_left]
  · simp only [hz, Bool.false_eq_true, if_false]; exact foldVal_insertKV (lt := lt) L k v l

theorem foldVal_mergeKV (L : KVLaws eq addV isZero op e F) (l₁ l₂ : List (K × V)) :
    foldVal op e F (mergeKV eq lt addV isZero l₁ l₂)
      = op (foldVal op e F l₂) (foldVal op e F l₁) := by
  induction l₂ with
  | nil => simp [mergeKV, foldVal, L.id_left]
  | cons kv rest ih =>
    unfold mergeKV at ih ⊢
    simp only [List.foldr_cons]
    rw [foldVal_insertNZ (lt := lt) L, ih]
    simp only [foldVal, List.foldr_cons]
    rw [L.assoc]

end KV

/-! ## Monomials -/

namespace Mono

theorem beqOps_sound : ∀ (a b : List (LExpr × Nat)), beqOps a b = true → a = b
  | [], b, h => by cases b <;> simp [beqOps] at h; rfl
  | (x, j) :: as, b, h => by
    cases b with
    | nil => simp [beqOps] at h
    | cons y bs =>
      obtain ⟨y, k⟩ := y
      simp [beqOps] at h
      rw [LExpr.beq_sound _ _ h.1.1, h.1.2, beqOps_sound _ _ h.2]

theorem beq_sound (a b : Mono) (h : beq a b = true) : a = b := by
  cases a; cases b
  simp [beq] at h
  simp [h.1, beqOps_sound _ _ h.2]

theorem symsLaws (ρ : Nat → Rat) (hρ : ∀ i, ρ i ≠ 0) :
    KVLaws (fun i j : Nat => i == j) (· + ·) (fun e : Int => e == 0) (· * ·) 1
      (fun i e => zpow (ρ i) e) where
  assoc := fun a b c => by ring
  comm := fun a b => by ring
  id_left := fun a => by ring
  eq_sound := fun k k' h => by simpa using h
  add_val := fun k v w => by simp only [zpow_eq]; exact zpow_add₀ (hρ k) v w
  zero_val := fun k v h => by
    have : v = 0 := by simpa using h
    simp [this, zpow_eq]

theorem opsLaws (ρ : Nat → Rat) :
    KVLaws LExpr.beq (· + ·) (fun e : Nat => e == 0) (· * ·) 1
      (fun a k => (LExpr.eval ρ a) ^ k) where
  assoc := fun a b c => by ring
  comm := fun a b => by ring
  id_left := fun a => by ring
  eq_sound := LExpr.beq_sound
  add_val := fun k v w => pow_add _ v w
  zero_val := fun k v h => by
    have : v = 0 := by simpa using h
    simp [this]

theorem eval_mul (ρ : Nat → Rat) (hρ : ∀ i, ρ i ≠ 0) (a b : Mono) :
    eval ρ (mul a b) = eval ρ a * eval ρ b := by
  have h1 : evalSyms ρ (mulSyms a.syms b.syms) = evalSyms ρ b.syms * evalSyms ρ a.syms :=
    foldVal_mergeKV (symsLaws ρ hρ) a.syms b.syms
  have h2 : evalOps ρ (mulOps a.ops b.ops) = evalOps ρ b.ops * evalOps ρ a.ops :=
    foldVal_mergeKV (opsLaws ρ) a.ops b.ops
  simp only [eval, mul, h1, h2]
  ring

theorem eval_one (ρ : Nat → Rat) : eval ρ one = 1 := by
  simp [eval, one, evalSyms, evalOps]

theorem evalSyms_inv (ρ : Nat → Rat) (l : List (Nat × Int)) :
    evalSyms ρ (invSyms l) = (evalSyms ρ l)⁻¹ := by
  induction l with
  | nil => simp [evalSyms, invSyms]
  | cons p l ih =>
    simp only [evalSyms, invSyms, List.map_cons, List.foldr_cons] at ih ⊢
    rw [ih, zpow_eq, zpow_eq, zpow_neg, mul_inv]

end Mono

/-! ## Polynomials -/

namespace Poly

theorem polyLaws (ρ : Nat → Rat) :
    KVLaws Mono.beq (· + ·) (fun c : Rat => c == 0) (· + ·) 0
      (fun m c => c * Mono.eval ρ m) where
  assoc := fun a b c => by ring
  comm := fun a b => by ring
  id_left := fun a => by ring
  eq_sound := Mono.beq_sound
  add_val := fun k v w => by ring
  zero_val := fun k v h => by
    have : v = 0 := by simpa using h
    simp [this]

theorem eval_eq_foldVal (ρ : Nat → Rat) (p : Poly) :
    eval ρ p = foldVal (· + ·) 0 (fun m c => c * Mono.eval ρ m) p := rfl

theorem eval_nil (ρ : Nat → Rat) : eval ρ [] = 0 := rfl
theorem eval_cons (ρ : Nat → Rat) (mc : Mono × Rat) (p : Poly) :
    eval ρ (mc :: p) = mc.2 * Mono.eval ρ mc.1 + eval ρ p := rfl

theorem eval_add (ρ : Nat → Rat) (p q : Poly) : eval ρ (add p q) = eval ρ p + eval ρ q := by
  have := foldVal_mergeKV (lt := Mono.lt) (polyLaws ρ) p q
  simp only [eval_eq_foldVal, add, this]
  ring

theorem eval_insertNZ (ρ : Nat → Rat) (m : Mono) (c : Rat) (p : Poly) :
    eval ρ (insertNZ Mono.beq Mono.lt (· + ·) (fun c => c == 0) m c p)
      = c * Mono.eval ρ m + eval ρ p :=
  foldVal_insertNZ (lt := Mono.lt) (polyLaws ρ) m c p

theorem eval_mulMonoInto (ρ : Nat → Rat) (hρ : ∀ i, ρ i ≠ 0) (acc : Poly) (m : Mono) (c : Rat)
    (p : Poly) :
    eval ρ (mulMonoInto acc m c p) = eval ρ acc + eval ρ p * (c * Mono.eval ρ m) := by
  induction p with
  | nil => simp [mulMonoInto, eval_nil]
  | cons mc p ih =>
    unfold mulMonoInto at ih ⊢
    simp only [List.foldr_cons]
    rw [eval_insertNZ, ih, Mono.eval_mul ρ hρ, eval_cons]
    ring

theorem eval_mul (ρ : Nat → Rat) (hρ : ∀ i, ρ i ≠ 0) (p q : Poly) :
    eval ρ (mul p q) = eval ρ p * eval ρ q := by
  induction q with
  | nil => simp [mul, eval_nil]
  | cons mc q ih =>
    unfold mul at ih ⊢
    simp only [List.foldr_cons]
    rw [eval_mulMonoInto ρ hρ, ih, eval_cons]
    ring

theorem eval_one (ρ : Nat → Rat) : eval ρ one = 1 := by
  simp [one, eval_cons, eval_nil, Mono.eval_one]

theorem eval_const (ρ : Nat → Rat) (q : Rat) : eval ρ (const q) = q := by
  unfold const
  by_cases h : q = 0
  · simp [h, eval_nil]
  · simp [h, eval_cons, eval_nil, Mono.eval_one]

theorem eval_ofSym (ρ : Nat → Rat) (i : Nat) : eval ρ (ofSym i) = ρ i := by
  simp [ofSym, eval_cons, eval_nil, Mono.eval, Mono.evalSyms, Mono.evalOps, zpow_eq]

theorem eval_ofAtom (ρ : Nat → Rat) (a : LExpr) : eval ρ (ofAtom a) = LExpr.eval ρ a := by
  simp [ofAtom, eval_cons, eval_nil, Mono.eval, Mono.evalSyms, Mono.evalOps]

theorem eval_sum (ρ : Nat → Rat) (ps : List Poly) :
    eval ρ (sum ps) = sumQ (ps.map (eval ρ)) := by
  induction ps with
  | nil => simp [sum, zero, eval_nil, sumQ]
  | cons p ps ih =>
    unfold sum at ih ⊢
    simp only [List.foldr_cons, List.map_cons, sumQ_cons, eval_add, ih]

theorem eval_prod (ρ : Nat → Rat) (hρ : ∀ i, ρ i ≠ 0) (ps : List Poly) :
    eval ρ (prod ps) = prodQ (ps.map (eval ρ)) := by
  induction ps with
  | nil => simp [prod, eval_one, prodQ]
  | cons p ps ih =>
    unfold prod at ih ⊢
    simp only [List.foldr_cons, List.map_cons, prodQ_cons, eval_mul ρ hρ, ih]

theorem eval_powNat (ρ : Nat → Rat) (hρ : ∀ i, ρ i ≠ 0) (p : Poly) (k : Nat) :
    eval ρ (powNat p k) = (eval ρ p) ^ k := by
  induction k with
  | zero => simp [powNat, eval_one]
  | succ k ih => simp only [powNat, eval_mul ρ hρ, ih]; ring

theorem evalSyms_eq_prodQ (ρ : Nat → Rat) (l : List (Nat × Int)) :
    Mono.evalSyms ρ l
      = prodQ (l.map (fun ie => LExpr.eval ρ (LExpr.pow (.sym ie.1) ie.2))) := by
  induction l with
  | nil => simp [Mono.evalSyms, prodQ]
  | cons p l ih =>
    simp only [Mono.evalSyms, List.foldr_cons, List.map_cons, prodQ_cons] at ih ⊢
    rw [ih]; simp [LExpr.eval]

theorem evalOps_eq_prodQ (ρ : Nat → Rat) (l : List (LExpr × Nat)) :
    Mono.evalOps ρ l
      = prodQ (l.map (fun ak => LExpr.eval ρ (LExpr.pow ak.1 (ak.2 : Int)))) := by
  induction l with
  | nil => simp [Mono.evalOps, prodQ]
  | cons p l ih =>
    simp only [Mono.evalOps, List.foldr_cons, List.map_cons, prodQ_cons] at ih ⊢
    rw [ih]; simp [LExpr.eval, zpow_eq]

theorem eval_reify (ρ : Nat → Rat) (p : Poly) : LExpr.eval ρ (reify p) = eval ρ p := by
  unfold reify
  simp only [LExpr.eval, evalList_eq_map, List.map_map]
  induction p with
  | nil => simp [sumQ, eval_nil]
  | cons mc p ih =>
    simp only [List.map_cons, sumQ_cons, eval_cons, ih]
    congr 1
    simp only [Function.comp, LExpr.eval, evalList_eq_map, List.map_cons, prodQ_cons,
      List.map_append, prodQ_append, List.map_map, Mono.eval, evalSyms_eq_prodQ, evalOps_eq_prodQ]
    rfl

theorem eval_inv (ρ : Nat → Rat) (p : Poly) : eval ρ (inv p) = (eval ρ p)⁻¹ := by
  unfold inv
  split
  · rename_i syms c
    simp only [eval_cons, eval_nil, Mono.eval, Mono.evalSyms_inv, Mono.evalOps, List.foldr_nil]
    rw [add_zero, add_zero, mul_one, mul_one, mul_inv]
  · rw [eval_ofAtom]
    simp only [LExpr.eval, eval_reify, zpow_eq]
    simp

theorem eval_ceil (ρ : Nat → Rat) (p : Poly) :
    eval ρ (ceil p) = (((eval ρ p).ceil : Int) : Rat) := by
  unfold ceil
  split
  · have h0 : Rat.ceil 0 = 0 := by decide
    simp [eval_nil, h0]
  · simp [eval_const, eval_cons, eval_nil, Mono.eval, Mono.evalSyms, Mono.evalOps]
  · rw [eval_ofAtom]; simp only [LExpr.eval, eval_reify]

theorem eval_powInt (ρ : Nat → Rat) (hρ : ∀ i, ρ i ≠ 0) (p : Poly) (e : Int) :
    eval ρ (powInt p e) = zpow (eval ρ p) e := by
  cases e with
  | ofNat k => simp [powInt, LExpr.zpow, eval_powNat ρ hρ]
  | negSucc k => simp [powInt, LExpr.zpow, eval_powNat ρ hρ, eval_inv]

end Poly

/-! ## The normaliser is sound -/

mutual
theorem normalize_sound (ρ : Nat → Rat) (hρ : ∀ i, ρ i ≠ 0) :
    ∀ e : LExpr, Poly.eval ρ (normalize e) = eval ρ e
  | .num q => by simp [normalize, eval, Poly.eval_const]
  | .sym i => by simp [normalize, eval, Poly.eval_ofSym]
  | .add xs => by
    simp only [normalize, eval, Poly.eval_sum, normList_sound ρ hρ xs]
  | .mul xs => by
    simp only [normalize, eval, Poly.eval_prod ρ hρ, normList_sound ρ hρ xs]
  | .pow b e => by
    simp only [normalize, eval, Poly.eval_powInt ρ hρ, normalize_sound ρ hρ b]
  | .max xs => by
    simp only [normalize, eval, Poly.eval_ofAtom, evalList_eq_map, maxQ_sortArgs, List.map_map]
    rw [← evalList_eq_map, ← normList_sound ρ hρ xs]
    congr 1
    apply List.map_congr_left
    intro p _; exact Poly.eval_reify ρ p
  | .min xs => by
    simp only [normalize, eval, Poly.eval_ofAtom, evalList_eq_map, minQ_sortArgs, List.map_map]
    rw [← evalList_eq_map, ← normList_sound ρ hρ xs]
    congr 1
    apply List.map_congr_left
    intro p _; exact Poly.eval_reify ρ p
  | .ceil x => by
    simp only [normalize, eval, Poly.eval_ceil, normalize_sound ρ hρ x]
theorem normList_sound (ρ : Nat → Rat) (hρ : ∀ i, ρ i ≠ 0) :
    ∀ xs : List LExpr, (normList xs).map (Poly.eval ρ) = evalList ρ xs
  | [] => by simp [normList, evalList]
  | x :: xs => by
    simp only [normList, evalList, List.map_cons, normalize_sound ρ hρ x, normList_sound ρ hρ xs]
end

theorem Poly.beq_sound : ∀ (p q : Poly), Poly.beq p q = true → p = q
  | [], q, h => by cases q <;> simp [Poly.beq] at h; rfl
  | (m, c) :: p, q, h => by
    cases q with
    | nil => simp [Poly.beq] at h
    | cons nd q =>
      obtain ⟨n, d⟩ := nd
      simp [Poly.beq] at h
      rw [Mono.beq_sound _ _ h.1.1, h.1.2, Poly.beq_sound _ _ h.2]

/-- Equal normal forms ⇒ equal values at every assignment with nonzero symbol values. -/
theorem normalize_eq_sound {a b : LExpr} (h : normalize a = normalize b)
    (ρ : Nat → Rat) (hρ : ∀ i, ρ i ≠ 0) : eval ρ a = eval ρ b := by
  rw [← normalize_sound ρ hρ a, ← normalize_sound ρ hρ b, h]

/-- The kernel-checked test `equiv a b = true` implies equality of the two formulas as functions
of all (nonzero) symbol values. -/
theorem equiv_sound {a b : LExpr} (h : equiv a b = true)
    (ρ : Nat → Rat) (hρ : ∀ i, ρ i ≠ 0) : eval ρ a = eval ρ b :=
  normalize_eq_sound (Poly.beq_sound _ _ h) ρ hρ

/-- Only the symbols an expression mentions matter, so it is enough that a list of values for
the template's symbols is nonzero. -/
theorem assign_ne_zero (l : List Rat) (h : ∀ x ∈ l, x ≠ 0) : ∀ i, assign l i ≠ 0 := by
  intro i
  unfold assign
  by_cases hi : i < l.length
  · simp only [List.getD_eq_getElem?_getD, List.getElem?_eq_getElem hi, Option.getD_some]
    exact h _ (List.getElem_mem hi)
  · simp [List.getD_eq_getElem?_getD, List.getElem?_eq_none (Nat.le_of_not_lt hi)]

/-! ## Evaluation of the arithmetic notation on `LExpr` (for models written with `+ - * /`) -/

@[simp] theorem eval_num (ρ : Nat → Rat) (q : Rat) : eval ρ (.num q) = q := by simp [eval]
@[simp] theorem eval_sym (ρ : Nat → Rat) (i : Nat) : eval ρ (.sym i) = ρ i := by simp [eval]
@[simp] theorem eval_ofNat (ρ : Nat → Rat) (n : Nat) :
    eval ρ (no_index (OfNat.ofNat n : LExpr)) = (n : Rat) := by
  show eval ρ (.num (n : Nat)) = _
  simp [eval]
@[simp] theorem eval_one (ρ : Nat → Rat) : eval ρ (1 : LExpr) = 1 := by
  show eval ρ (.num ((1 : Nat) : Rat)) = _
  simp [eval]
@[simp] theorem eval_zero (ρ : Nat → Rat) : eval ρ (0 : LExpr) = 0 := by
  show eval ρ (.num ((0 : Nat) : Rat)) = _
  simp [eval]
@[simp] theorem eval_hadd (ρ : Nat → Rat) (a b : LExpr) : eval ρ (a + b) = eval ρ a + eval ρ b := by
  show eval ρ (.add [a, b]) = _
  simp [eval, evalList, sumQ]
@[simp] theorem eval_hmul (ρ : Nat → Rat) (a b : LExpr) : eval ρ (a * b) = eval ρ a * eval ρ b := by
  show eval ρ (.mul [a, b]) = _
  simp [eval, evalList, prodQ]
@[simp] theorem eval_hsub (ρ : Nat → Rat) (a b : LExpr) : eval ρ (a - b) = eval ρ a - eval ρ b := by
  show eval ρ (.add [a, .mul [.num (-1), b]]) = _
  simp [eval, evalList, sumQ, prodQ]
  ring
@[simp] theorem eval_neg (ρ : Nat → Rat) (a : LExpr) : eval ρ (-a) = -eval ρ a := by
  show eval ρ (.mul [.num (-1), a]) = _
  simp [eval, evalList, prodQ]
@[simp] theorem eval_hdiv (ρ : Nat → Rat) (a b : LExpr) : eval ρ (a / b) = eval ρ a / eval ρ b := by
  show eval ρ (.mul [a, .pow b (-1)]) = _
  simp [eval, evalList, prodQ, zpow_eq, div_eq_mul_inv]
@[simp] theorem eval_hpow (ρ : Nat → Rat) (a : LExpr) (k : Nat) : eval ρ (a ^ k) = eval ρ a ^ k := by
  show eval ρ (.pow a (k : Int)) = _
  simp [eval, zpow_eq]

theorem assign_zero (a : Rat) (l : List Rat) : assign (a :: l) 0 = a := rfl
theorem assign_succ (a : Rat) (l : List Rat) (i : Nat) : assign (a :: l) (i + 1) = assign l i := rfl

/-! ## The normaliser on examples (kernel-evaluated, the way generated obligations are) -/

section examples
private def n : LExpr := .sym 0
private def s : LExpr := .sym 1
example : equiv (.add [.mul [.num (1/2), .pow n 2, s], .mul [.num (-1/2), n, s]])
                (LExpr.num (1/2) * ((n - 1) + 1) * (n - 1) * s) = true := by decide +kernel
/-- order, repetition and spelling of the arguments of `max` do not matter -/
example : equiv (.max [n, .add [s, n], n]) (.max [.add [n, s], n]) = true := by decide +kernel
example : equiv (.max [n, s]) (.min [n, s]) = false := by decide +kernel
example : equiv (.mul [.max [n, s], .max [s, n]]) (.pow (.max [s, n]) 2) = true := by decide +kernel
example : equiv (.ceil (.num (7/3))) (.num 3) = true := by decide +kernel
example : equiv (.ceil (.mul [n, .pow s (-1)])) (.ceil (.mul [.pow s (-1), n])) = true := by
  decide +kernel
/-- a Laurent polynomial as `run_model` returns them -/
example : equiv (.add [.num 96, .mul [.num 1152, .pow s (-1)],
                       .mul [.num 36, .add [.mul [.num 32, n, s], .mul [.num 32, s]], .pow (.mul [n, s]) (-1)]])
                (.add [.num 1248, .mul [.num 1152, .pow s (-1)], .mul [.num 1152, .pow n (-1)]]) = true := by
  decide +kernel
/-- reciprocal of a sum: kept as an opaque atom, no cancellation claimed -/
example : equiv (.mul [.add [n, s], .pow (.add [n, s]) (-1)]) (.num 1) = false := by decide +kernel
end examples

end AFV.LExpr
