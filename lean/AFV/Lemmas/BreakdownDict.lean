import AFV.Model.Breakdown
import AFV.Spec.Breakdown
/-!
Insertion-ordered dictionaries: a fold of `dictUpd` equals the "first keys, folded fibres" table.
-/
namespace AFV.Breakdown.Lemmas
open AFV.Breakdown AFV.Breakdown.Spec

variable {κ : Type} [DecidableEq κ]

def keys (d : List (κ × Int)) : List κ := d.map (·.1)

def look (k : κ) (d : List (κ × Int)) : Option Int := (d.find? (fun kv => kv.1 = k)).map (·.2)

/-- Value of a fibre folded the way `dictUpd` folds it. -/
def foldVals (ini : Int → Int) (op : Int → Int → Int) : List Int → Option Int
  | [] => none
  | v :: vs => some (vs.foldl op (ini v))

/-- The table a `dictUpd` fold must produce: keys in order of first appearance, folded fibres. -/
def specFold (ini : Int → Int) (op : Int → Int → Int) (kvs : List (κ × Int)) : List (κ × Int) :=
  (firstKeys (keys kvs)).map (fun k => (k, (foldVals ini op (fiberVals kvs k)).getD 0))

def addKey (acc : List κ) (k : κ) : List κ := if k ∈ acc then acc else acc ++ [k]

/-! ### keys -/

theorem keys_dictUpd (ini op) (d : List (κ × Int)) (k : κ) (v : Int) :
    keys (dictUpd ini op d k v) = addKey (keys d) k := by
  induction d with
  | nil => simp [dictUpd, keys, addKey]
  | cons kv rest ih =>
    obtain ⟨k', v'⟩ := kv
    by_cases h : k' = k
    · subst h; simp [dictUpd, keys, addKey]
    · have ih' : List.map (fun x => x.1) (dictUpd ini op rest k v) = addKey (List.map (fun x => x.1) rest) k := ih
      have hk : ¬ k = k' := fun e => h e.symm
      simp only [dictUpd, keys, h, if_false, List.map_cons, addKey, List.mem_cons, hk, false_or]
      rw [ih']
      unfold addKey
      split <;> simp

theorem mem_firstKeys (l : List κ) (k : κ) : k ∈ firstKeys l ↔ k ∈ l := by
  induction l with
  | nil => simp [firstKeys]
  | cons a as ih =>
    simp only [firstKeys, List.mem_cons, List.mem_filter, ih]
    by_cases h : k = a <;> simp [h]

theorem firstKeys_nodup (l : List κ) : (firstKeys l).Nodup := by
  induction l with
  | nil => simp [firstKeys]
  | cons a as ih =>
    simp only [firstKeys, List.nodup_cons, List.mem_filter]
    exact ⟨by simp, ih.filter _⟩

theorem foldl_addKey (l acc : List κ) :
    l.foldl addKey acc = acc ++ (firstKeys l).filter (fun k => k ∉ acc) := by
  induction l generalizing acc with
  | nil => simp [firstKeys]
  | cons a as ih =>
    rw [List.foldl_cons, ih]
    by_cases h : a ∈ acc
    · simp only [addKey, h, if_true, firstKeys, List.filter_cons, decide_not, decide_true,
        Bool.not_true, Bool.false_eq_true, if_false, List.filter_filter]
      congr 1
      apply List.filter_congr
      intro x _
      by_cases hx : x = a
      · subst hx; simp [h]
      · simp [hx]
    · simp only [addKey, h, if_false, firstKeys, List.filter_cons, decide_not, decide_false,
        Bool.not_false, if_true, List.filter_filter, List.append_assoc, List.singleton_append]
      congr 2
      apply List.filter_congr
      intro x _
      by_cases hx : x = a
      · subst hx; simp
      · simp [hx]

theorem keys_foldl_dictUpd (ini op) (kvs acc : List (κ × Int)) :
    keys (kvs.foldl (fun d kv => dictUpd ini op d kv.1 kv.2) acc) = (keys kvs).foldl addKey (keys acc) := by
  induction kvs generalizing acc with
  | nil => rfl
  | cons kv rest ih =>
    rw [List.foldl_cons, ih, keys_dictUpd]
    rfl

theorem keys_fold_eq (ini op) (kvs : List (κ × Int)) :
    keys (kvs.foldl (fun d kv => dictUpd ini op d kv.1 kv.2) []) = firstKeys (keys kvs) := by
  rw [keys_foldl_dictUpd, foldl_addKey]
  simp [keys]

/-! ### lookups -/

theorem look_dictUpd (ini op) (d : List (κ × Int)) (k k0 : κ) (v : Int) :
    look k0 (dictUpd ini op d k v) =
      if k = k0 then (match look k0 d with | some a => some (op a v) | none => some (ini v))
      else look k0 d := by
  induction d with
  | nil =>
    by_cases h : k = k0 <;> simp [dictUpd, look, h]
  | cons kv rest ih =>
    obtain ⟨k', v'⟩ := kv
    by_cases h : k' = k
    · subst h
      by_cases h0 : k' = k0
      · subst h0; simp [dictUpd, look]
      · simp [dictUpd, look, h0]
    · by_cases h0 : k' = k0
      · subst h0
        have : ¬ k = k' := fun e => h e.symm
        simp [dictUpd, look, h, this]
      · have ih' := ih
        simp only [look] at ih' ⊢
        simp only [dictUpd, h, if_false, List.find?_cons, h0, decide_false]
        exact ih'

theorem look_foldl_dictUpd (ini op) (kvs acc : List (κ × Int)) (k0 : κ) :
    look k0 (kvs.foldl (fun d kv => dictUpd ini op d kv.1 kv.2) acc) =
      match look k0 acc with
      | some a => some ((fiberVals kvs k0).foldl op a)
      | none => foldVals ini op (fiberVals kvs k0) := by
  induction kvs generalizing acc with
  | nil => cases h : look k0 acc <;> simp_all [fiberVals, foldVals]
  | cons kv rest ih =>
    obtain ⟨k, v⟩ := kv
    rw [List.foldl_cons, ih, look_dictUpd]
    by_cases h : k = k0
    · subst h
      cases hl : look k acc <;> simp [fiberVals, foldVals]
    · cases hl : look k0 acc <;> simp [fiberVals, h]

theorem look_map_of_mem (g : κ → Int) (l : List κ) (k : κ) :
    look k (l.map (fun x => (x, g x))) = if k ∈ l then some (g k) else none := by
  induction l with
  | nil => simp [look]
  | cons a as ih =>
    unfold look at ih ⊢
    rw [List.map_cons, List.find?_cons]
    by_cases h : a = k
    · subst h; simp
    · have hk : ¬ k = a := fun e => h e.symm
      simp only [h, decide_false, List.mem_cons, hk, false_or]
      exact ih

theorem fiberVals_eq_nil_iff (kvs : List (κ × Int)) (k : κ) : fiberVals kvs k = [] ↔ k ∉ keys kvs := by
  simp only [fiberVals, keys, List.map_eq_nil_iff, List.filter_eq_nil_iff, decide_eq_true_eq, List.mem_map, not_exists, not_and]

/-! ### extensionality of association lists with duplicate-free keys -/

theorem assoc_ext (d1 d2 : List (κ × Int)) (hk : keys d1 = keys d2) (hn : (keys d1).Nodup)
    (hl : ∀ k, look k d1 = look k d2) : d1 = d2 := by
  induction d1 generalizing d2 with
  | nil => cases d2 with
    | nil => rfl
    | cons _ _ => simp [keys] at hk
  | cons kv rest ih =>
    cases d2 with
    | nil => simp [keys] at hk
    | cons kv2 rest2 =>
      obtain ⟨k, v⟩ := kv
      obtain ⟨k2, v2⟩ := kv2
      simp only [keys, List.map_cons, List.cons.injEq] at hk
      obtain ⟨hkk, hrest⟩ := hk
      subst hkk
      have hv : v = v2 := by
        have := hl k
        simpa [look] using this
      subst hv
      have hnot : k ∉ keys rest := (List.nodup_cons.mp hn).1
      congr 1
      apply ih rest2 hrest (List.nodup_cons.mp hn).2
      intro k0
      have := hl k0
      by_cases h0 : k = k0
      · subst h0
        have h1 : look k rest = none := by
          simp only [look, Option.map_eq_none_iff, List.find?_eq_none]
          intro x hx hxe
          exact hnot (by simp only [keys, List.mem_map]; exact ⟨x, hx, by simpa using hxe⟩)
        have h2 : look k rest2 = none := by
          simp only [look, Option.map_eq_none_iff, List.find?_eq_none]
          intro x hx hxe
          apply hnot
          rw [show keys rest = keys rest2 from hrest]
          simp only [keys, List.mem_map]; exact ⟨x, hx, by simpa using hxe⟩
        rw [h1, h2]
      · simpa [look, List.find?_cons, h0] using this

/-- **A fold of dictionary updates is the table of folded fibres, keys in first-appearance order.** -/
theorem foldl_dictUpd_eq_specFold (ini op) (kvs : List (κ × Int)) :
    kvs.foldl (fun d kv => dictUpd ini op d kv.1 kv.2) [] = specFold ini op kvs := by
  apply assoc_ext
  · rw [keys_fold_eq]; simp [specFold, keys, Function.comp_def]
  · rw [keys_fold_eq]; exact firstKeys_nodup _
  · intro k
    rw [look_foldl_dictUpd]
    simp only [look, List.find?_nil, Option.map_none]
    have := look_map_of_mem (fun k => (foldVals ini op (fiberVals kvs k)).getD 0) (firstKeys (keys kvs)) k
    simp only [look, mem_firstKeys] at this
    rw [specFold, this]
    by_cases hk : k ∈ keys kvs
    · simp only [hk, if_true]
      cases hf : fiberVals kvs k with
      | nil => exact absurd ((fiberVals_eq_nil_iff kvs k).mp hf) (by simpa using hk)
      | cons v vs => simp [foldVals]
    · simp only [hk, if_false]
      rw [(fiberVals_eq_nil_iff kvs k).mpr hk]; rfl

end AFV.Breakdown.Lemmas
