import AFV.Lemmas.TileShapes
/-!
Invariants of `_try_admit`, of the imperfect-mode loop and of the perfect-mode coarseness filter
(helper lemmas for C10).
-/
namespace AFV.TileShapes

/-! ### `_try_admit` -/

/-- The two outcomes of `_try_admit`: nothing changes, or a new tile count and its smallest shape
are recorded. -/
theorem tryAdmit_cases (outer : Nat) (st : St) (n : Nat) :
    tryAdmit outer st n = st ∨
      (n ≤ outer ∧ n ∉ st.factors ∧ ceilDiv outer n ∉ st.nTiles ∧
        tryAdmit outer st n =
          { factors := ceilDiv outer (ceilDiv outer n) :: st.factors,
            nTiles := ceilDiv outer n :: st.nTiles }) := by
  unfold tryAdmit
  by_cases h1 : (n > outer || st.factors.contains n) = true
  · left; rw [if_pos h1]
  · rw [if_neg h1]
    by_cases h2 : st.nTiles.contains (ceilDiv outer n) = true
    · left; simp only [h2, if_true]
    · right
      simp only [h2]
      simp only [Bool.or_eq_true, decide_eq_true_eq, List.contains_iff_mem, not_or] at h1 h2
      exact ⟨by omega, h1.2, h2, by simp⟩

/-- weak invariant (any inputs): every recorded tile count has its smallest shape among the factors -/
def InvA (outer : Nat) (st : St) : Prop := ∀ t ∈ st.nTiles, ceilDiv outer t ∈ st.factors

theorem tryAdmit_invA {outer : Nat} {st : St} (n : Nat) (h : InvA outer st) :
    InvA outer (tryAdmit outer st n) := by
  rcases tryAdmit_cases outer st n with e | ⟨_, _, _, e⟩
  · rw [e]; exact h
  · rw [e]
    intro t ht
    rcases List.mem_cons.1 ht with rfl | ht
    · exact List.mem_cons_self
    · exact List.mem_cons_of_mem _ (h t ht)

theorem tryAdmit_factors_mono {outer : Nat} {st : St} (n m : Nat) (h : m ∈ st.factors) :
    m ∈ (tryAdmit outer st n).factors := by
  rcases tryAdmit_cases outer st n with e | ⟨_, _, _, e⟩
  · rw [e]; exact h
  · rw [e]; exact List.mem_cons_of_mem _ h

/-- after `_try_admit(outer_size)` the outer size is among the factors (`outer ≥ 1`) -/
theorem outer_mem_tryAdmit {outer : Nat} {st : St} (ho : 0 < outer) (h : InvA outer st) :
    outer ∈ (tryAdmit outer st outer).factors := by
  have h11 : ceilDiv outer outer = 1 := ceilDiv_self ho
  have h1 : ceilDiv outer 1 = outer := ceilDiv_one outer
  unfold tryAdmit
  by_cases c1 : (outer > outer || st.factors.contains outer) = true
  · rw [if_pos c1]
    simp only [Bool.or_eq_true, decide_eq_true_eq, List.contains_iff_mem] at c1
    rcases c1 with c | c
    · omega
    · exact c
  · rw [if_neg c1]
    simp only [h11, h1]
    by_cases c2 : st.nTiles.contains 1 = true
    · rw [if_pos c2]
      have := h 1 (by simpa using c2)
      rwa [h1] at this
    · rw [if_neg c2]; exact List.mem_cons_self

theorem tryAdmit_le_outer {outer : Nat} {st : St} (n : Nat) (h : ∀ m ∈ st.factors, m ≤ outer) :
    ∀ m ∈ (tryAdmit outer st n).factors, m ≤ outer := by
  rcases tryAdmit_cases outer st n with e | ⟨_, _, _, e⟩
  · rw [e]; exact h
  · rw [e]
    intro m hm
    rcases List.mem_cons.1 hm with rfl | hm
    · exact ceilDiv_le_self _ _
    · exact h m hm

theorem tryAdmit_pos {outer : Nat} {st : St} (ho : 0 < outer) (n : Nat)
    (h : ∀ m ∈ st.factors, 0 < m) (hn : 0 < n) :
    ∀ m ∈ (tryAdmit outer st n).factors, 0 < m := by
  rcases tryAdmit_cases outer st n with e | ⟨_, _, _, e⟩
  · rw [e]; exact h
  · rw [e]
    intro m hm
    rcases List.mem_cons.1 hm with rfl | hm
    · exact ceilDiv_pos ho (ceilDiv_pos ho hn)
    · exact h m hm

/-- strong invariant (all admitted `n` in `1..outer`): the recorded tile counts are tile counts of
real shapes, and the factors are exactly their smallest shapes -/
structure InvC (outer : Nat) (st : St) : Prop where
  tiles : ∀ t ∈ st.nTiles, ∃ n, 0 < n ∧ n ≤ outer ∧ t = ceilDiv outer n
  factors : ∀ m, m ∈ st.factors ↔ ∃ t ∈ st.nTiles, m = ceilDiv outer t

theorem invC_empty (outer : Nat) : InvC outer { factors := [], nTiles := [] } :=
  ⟨by simp, by simp⟩

theorem tryAdmit_invC {outer : Nat} {st : St} {n : Nat} (ho : 0 < outer) (h : InvC outer st)
    (hn : 0 < n) (hno : n ≤ outer) :
    InvC outer (tryAdmit outer st n) ∧
      ∀ t, t ∈ (tryAdmit outer st n).nTiles ↔ t ∈ st.nTiles ∨ t = ceilDiv outer n := by
  unfold tryAdmit
  by_cases c1 : (n > outer || st.factors.contains n) = true
  · rw [if_pos c1]
    refine ⟨h, fun t => ⟨Or.inl, ?_⟩⟩
    rintro (ht | rfl)
    · exact ht
    · -- the early return: `n` is already a factor, so its tile count is already recorded
      simp only [Bool.or_eq_true, decide_eq_true_eq, List.contains_iff_mem] at c1
      rcases c1 with c | c
      · omega
      · obtain ⟨t', ht', rfl⟩ := (h.factors n).1 c
        obtain ⟨n0, hn0, _, rfl⟩ := h.tiles t' ht'
        rw [ceilDiv_triple ho hn0]; exact ht'
  · rw [if_neg c1]
    by_cases c2 : st.nTiles.contains (ceilDiv outer n) = true
    · rw [if_pos c2]
      refine ⟨h, fun t => ⟨Or.inl, ?_⟩⟩
      rintro (ht | rfl)
      · exact ht
      · simpa using c2
    · rw [if_neg c2]
      refine ⟨⟨?_, ?_⟩, ?_⟩
      · intro t ht
        rcases List.mem_cons.1 ht with rfl | ht
        · exact ⟨n, hn, hno, rfl⟩
        · exact h.tiles t ht
      · intro m
        simp only [List.mem_cons, h.factors m, exists_eq_or_imp]
      · intro t
        simp only [List.mem_cons]
        exact or_comm

theorem foldl_tryAdmit_invC {outer : Nat} (ho : 0 < outer) : ∀ (L : List Nat) (st : St),
    InvC outer st → (∀ n ∈ L, 0 < n ∧ n ≤ outer) →
    InvC outer (L.foldl (tryAdmit outer) st) ∧
      ∀ t, t ∈ (L.foldl (tryAdmit outer) st).nTiles ↔
        t ∈ st.nTiles ∨ ∃ n ∈ L, t = ceilDiv outer n := by
  intro L
  induction L with
  | nil => intro st h _; exact ⟨h, by simp⟩
  | cons a L ih =>
    intro st h hL
    have ha := hL a (by simp)
    obtain ⟨h1, h2⟩ := tryAdmit_invC ho h ha.1 ha.2
    obtain ⟨h3, h4⟩ := ih (tryAdmit outer st a) h1 (fun n hn => hL n (List.mem_cons_of_mem _ hn))
    refine ⟨h3, fun t => ?_⟩
    rw [List.foldl_cons, h4, h2]
    simp only [List.mem_cons, exists_eq_or_imp, or_assoc]

/-! ### the imperfect-mode loop -/

theorem roundHalfEven_mul_self {j q : Nat} (hq : 0 < q) : roundHalfEven (j * q) q = j := by
  unfold roundHalfEven
  simp [Nat.mul_div_cancel _ hq, hq]

/-- With coarseness ≤ 1 the loop admits `j*inner, (j+1)*inner, …` up to `outer`, in this order. -/
theorem impLoop_additive {outer inner cn cd : Nat} (hi : 0 < inner) (hc : cn ≤ cd) :
    ∀ (fuel j : Nat) (st : St), outer < fuel + j * inner →
      impLoop outer inner cn cd fuel (j * inner) 1 st =
        ((List.range' j (outer / inner + 1 - j)).map (· * inner)).foldl (tryAdmit outer) st := by
  intro fuel
  induction fuel with
  | zero =>
    intro j st h
    have : outer / inner < j := (Nat.div_lt_iff_lt_mul hi).2 (by omega)
    have e : outer / inner + 1 - j = 0 := by omega
    simp [impLoop, e]
  | succ fuel ih =>
    intro j st h
    simp only [impLoop, Nat.mul_one, Nat.one_mul, Nat.not_lt.2 hc, if_false]
    by_cases c : j * inner ≤ outer
    · rw [if_pos c]
      have hj : j ≤ outer / inner := (Nat.le_div_iff_mul_le hi).2 c
      have e : outer / inner + 1 - j = (outer / inner + 1 - (j + 1)) + 1 := by omega
      rw [e, List.range'_succ, List.map_cons, List.foldl_cons, roundHalfEven_mul_self hi]
      have := ih (j + 1) (tryAdmit outer st (j * inner)) (by rw [Nat.add_mul]; omega)
      rw [Nat.add_mul, Nat.one_mul] at this
      exact this
    · rw [if_neg c]
      have : outer / inner < j := (Nat.div_lt_iff_lt_mul hi).2 (by omega)
      have e : outer / inner + 1 - j = 0 := by omega
      simp [e]

/-- weak invariants hold along the loop for every coarseness and every fuel -/
theorem impLoop_inv {outer inner cn cd : Nat} (P : St → Prop)
    (hP : ∀ st n, P st → P (tryAdmit outer st n)) :
    ∀ (fuel a b : Nat) (st : St), P st → P (impLoop outer inner cn cd fuel a b st) := by
  intro fuel
  induction fuel with
  | zero => intro a b st h; exact h
  | succ fuel ih =>
    intro a b st h
    simp only [impLoop]
    split
    · split
      · exact ih _ _ _ (hP _ _ h)
      · exact ih _ _ _ (hP _ _ h)
    · exact h

/-! ### the perfect-mode coarseness filter -/

/-- With coarseness ≤ 1 the filter keeps every element of an increasing list. -/
theorem foldl_coarseStep_all {cn cd : Nat} (hc : cn ≤ cd) : ∀ (l : List Nat) (prev : Nat)
    (acc : List Nat), l.Pairwise (· < ·) → (∀ x ∈ l, prev ≤ x) →
    (l.foldl (coarseStep cn cd) (prev, acc)).2 = l.reverse ++ acc := by
  intro l
  induction l with
  | nil => intro prev acc _ _; rfl
  | cons x l ih =>
    intro prev acc hs hp
    rw [List.pairwise_cons] at hs
    have h1 : prev * cn ≤ x * cd := Nat.mul_le_mul (hp x (by simp)) hc
    rw [List.foldl_cons]
    have : coarseStep cn cd (prev, acc) x = (x, x :: acc) := by simp [coarseStep, h1]
    rw [this, ih x (x :: acc) hs.2 (fun y hy => Nat.le_of_lt (hs.1 y hy))]
    simp

/-- The invariant `b * (cd + j) ≤ a * cd` (`n = a / b` has grown by at least `j / cd`) shows the
`while n <= outer_size` loop stops within `outer * cd` iterations: more fuel changes nothing. -/
theorem impLoop_fuel_irrelevant {outer inner cn cd : Nat} (hi : 0 < inner) (hcd : 0 < cd) :
    ∀ (fuel extra a b j : Nat) (st : St), 0 < b → b * (cd + j) ≤ a * cd →
      outer * cd < fuel + cd + j →
      impLoop outer inner cn cd (fuel + extra) a b st = impLoop outer inner cn cd fuel a b st := by
  intro fuel
  induction fuel with
  | zero =>
    intro extra a b j st hb hinv hf
    cases extra with
    | zero => rfl
    | succ e =>
      have hno : ¬ a ≤ outer * b := by
        intro hle
        have h1 : a * cd ≤ outer * b * cd := Nat.mul_le_mul_right cd hle
        have h2 : b * (cd + j) ≤ b * (outer * cd) := by
          calc b * (cd + j) ≤ a * cd := hinv
            _ ≤ outer * b * cd := h1
            _ = b * (outer * cd) := by rw [Nat.mul_comm outer b, Nat.mul_assoc]
        have := Nat.le_of_mul_le_mul_left h2 hb
        omega
      simp only [impLoop, if_neg hno]
  | succ fuel ih =>
    intro extra a b j st hb hinv hf
    have e : fuel + 1 + extra = (fuel + extra) + 1 := by omega
    rw [e]
    simp only [impLoop]
    by_cases hle : a ≤ outer * b
    · simp only [if_pos hle]
      by_cases hc : cd < cn
      · simp only [if_pos hc]
        apply ih extra (a * cn) (b * cd) (j + 1) _ (Nat.mul_pos hb hcd) _ (by omega)
        have h1 : a * cd * (cd + 1) ≤ a * cd * cn := Nat.mul_le_mul_left _ hc
        have h2 : b * (cd + j) * (cd + 1) ≤ a * cd * (cd + 1) := Nat.mul_le_mul_right _ hinv
        grind
      · simp only [if_neg hc]
        apply ih extra (a + inner * b) b (j + 1) _ hb _ (by omega)
        have h1 : b ≤ inner * b * cd := by
          calc b = 1 * b * 1 := by simp
            _ ≤ inner * b * cd := Nat.mul_le_mul (Nat.mul_le_mul_right _ hi) hcd
        grind
    · simp only [if_neg hle]

/-! ### spec-side helpers -/

theorem perfectSpec_sorted (inner outer : Nat) : (perfectSpec inner outer).Pairwise (· < ·) :=
  List.Pairwise.filter _ List.pairwise_lt_range

theorem mem_perfectSpec (inner outer m : Nat) (ho : 0 < outer) :
    m ∈ perfectSpec inner outer ↔ inner ∣ m ∧ m ∣ outer := by
  unfold perfectSpec
  simp only [List.mem_filter, List.mem_range, decide_eq_true_eq]
  constructor
  · rintro ⟨_, h1, h2⟩
    exact ⟨Nat.dvd_of_mod_eq_zero h1, Nat.dvd_of_mod_eq_zero h2⟩
  · rintro ⟨h1, h2⟩
    exact ⟨Nat.lt_succ_of_le (Nat.le_of_dvd ho h2), Nat.mod_eq_zero_of_dvd h1,
      Nat.mod_eq_zero_of_dvd h2⟩

theorem mem_imperfectRequired (inner outer m : Nat) (hi : 0 < inner) :
    m ∈ imperfectRequired inner outer ↔
      m = outer ∨ ∃ k, 0 < k ∧ k * inner ≤ outer ∧ m = ceilDiv outer (ceilDiv outer (k * inner)) := by
  unfold imperfectRequired
  simp only [mem_sortDedup, List.mem_cons, List.mem_map, List.mem_range'_1]
  constructor
  · rintro (h | ⟨k, hk, rfl⟩)
    · exact Or.inl h
    · exact Or.inr ⟨k, by omega, (Nat.le_div_iff_mul_le hi).1 (by omega), rfl⟩
  · rintro (h | ⟨k, hk, hle, rfl⟩)
    · exact Or.inl h
    · have := (Nat.le_div_iff_mul_le hi).2 hle
      exact Or.inr ⟨k, by omega, rfl⟩

theorem chainChoices_true (n : Nat) : chainChoices true n = List.range' 1 n := rfl
theorem chainChoices_false (n : Nat) : chainChoices false n = divisors n := rfl

theorem mem_chainChoices (imp : Bool) (n s : Nat) :
    s ∈ chainChoices imp n ↔ (1 ≤ s ∧ s ≤ n ∧ (imp = true ∨ n % s = 0)) := by
  cases imp with
  | true => simp [chainChoices]; omega
  | false => simp [chainChoices]; omega

theorem chainChoices_nodup (imp : Bool) (n : Nat) : (chainChoices imp n).Nodup := by
  cases imp with
  | true => exact List.nodup_range'
  | false => exact List.Pairwise.filter _ List.nodup_range'

end AFV.TileShapes
