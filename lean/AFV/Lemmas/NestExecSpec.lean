import AFV.Lemmas.NestExecLoop
import AFV.Lemmas.NestExecToll
/-!
# `execT_spec`: the reference execution of one tensor has the counts predicted by `simpleN`
-/
namespace AFV.NestExec
open AFV.Nest

theorem exec_loop (arch : Arch Rat) (ti : TInfo) (hnd : ti.rvs.Nodup) (rv : RV) (tile : Nat) (rest : Mapping Nat)
    (chain : List Hold) (e : Env) (st : St) (f : Bool)
    (hb : rv < e.base.length) (hs : rv < e.shape.length) (htile : 0 < tile) (hpos : 0 < e.shape.getD rv 1)
    (hdvd : tile ∣ e.shape.getD rv 1)
    (hpre : Pre ti e st.written f)
    (ih : ∀ (j : Nat) (st0 : St) (f0 : Bool), Pre ti (e.enter rv tile j) st0.written f0 →
      Post arch ti rest chain (e.enter rv tile j) st0 (execT arch ti rest chain (e.enter rv tile j) st0) f0) :
    Post arch ti (.loop rv tile :: rest) chain e st (execT arch ti (.loop rv tile :: rest) chain e st) f := by
  obtain ⟨n, hn⟩ := hdvd
  have hnpos : 0 < n := by
    rcases Nat.eq_zero_or_pos n with h | h
    · subst h; rw [Nat.mul_zero] at hn; omega
    · exact h
  have hquot : e.shape.getD rv 1 / tile = n := by rw [hn]; exact Nat.mul_div_cancel_left n htile
  obtain ⟨hw, Δ, htr, hcnt⟩ := exec_loop_iter arch ti hnd rv tile n rest chain e st f hb hs hn hpre ih n (Nat.le_refl n)
  have hexec : execT arch ti (.loop rv tile :: rest) chain e st = iter arch ti rest chain e rv tile st n := by
    simp only [execT, iter, hquot]
  rw [hexec]
  refine ⟨?_, Δ, htr, ?_⟩
  · intro x
    rw [Bool.eq_iff_iff, hw x]
    simp only [Bool.or_eq_true, Bool.and_eq_true]
    constructor
    · rintro (h | ⟨ho, j, hj, hx⟩)
      · exact Or.inl h
      · exact Or.inr ⟨ho, inRegion_enter_sub e rv tile n j ti.rvs hnd hb hs hn hj x hx⟩
    · rintro (h | ⟨ho, hx⟩)
      · exact Or.inl h
      · obtain ⟨j, hj, hxj⟩ := inRegion_enter_cover e rv tile n ti.rvs hnd hb hs hn htile hnpos x hx
        exact Or.inr ⟨ho, j, hj, hxj⟩
  · intro l rw
    have h := hcnt l rw
    rw [TT_loop, KK_loop, hquot]
    have hc : cnt (ti.rvs.contains rv) n = if ti.rvs.contains rv = true then n else 1 := by
      unfold cnt; cases ti.rvs.contains rv <;> simp; omega
    rw [hc] at h
    rw [Nat.mul_comm (KK _ _ _ _ _ _ _ _) _, Nat.mul_comm (TT _ _ _ _ _ _ _ _) _]
    exact h

/-- **The reference execution of one tensor has the counts predicted by `simpleN`**, whatever holders are above
(`chain`), wherever the tile is (`e`), whatever happened before (`st`), provided the current tile is entirely
never-written (`f = true`) or entirely written (`f = false`); afterwards exactly the tile has been added to the
written set. -/
theorem execT_spec (arch : Arch Rat) (ti : TInfo) (hnd : ti.rvs.Nodup) (m : Mapping Nat) :
    ∀ (chain : List Hold) (e : Env) (st : St) (f : Bool),
      wfT arch ti (!chain.isEmpty) e.shape m → e.base.length = e.shape.length → Pre ti e st.written f →
      Post arch ti m chain e st (execT arch ti m chain e st) f := by
  induction m with
  | nil => intro chain e st f h; exact absurd h (by simp [wfT])
  | cons nd rest ih =>
    intro chain e st f hwf hlen hpre
    cases nd with
    | compute => exact exec_compute arch ti rest chain e st f hwf hpre
    | loop rv tile =>
      obtain ⟨hrv, htile, hpos, hdvd, hwr⟩ := hwf
      refine exec_loop arch ti hnd rv tile rest chain e st f (by rw [hlen]; exact hrv) hrv htile hpos hdvd hpre ?_
      intro j st0 f0 hpre0
      exact ih chain (e.enter rv tile j) st0 f0 hwr (by simp [Env.enter, hlen]) hpre0
    | storage l ts lo =>
      by_cases hts : ts.contains ti.t = true
      · simp only [wfT, hts, if_true] at hwf
        refine exec_storage arch ti l ts lo rest chain e st f hts hwf.1 hpre ?_
        intro st0 hw0
        exact ih (holdOf arch ti.t l false :: chain) e st0 f (by simpa using hwf.2) hlen (by rw [hw0]; exact hpre)
      · have hts' : ts.contains ti.t = false := by simpa using hts
        simp only [wfT, hts', Bool.false_eq_true, if_false] at hwf
        have := ih chain e st f hwf hlen hpre
        simpa only [Post, TT, KK, execT, simpleN, hts', Bool.false_eq_true, if_false] using this
    | toll l ts lo =>
      by_cases hts : ts.contains ti.t = true
      · simp only [wfT, hts, if_true] at hwf
        refine exec_toll arch ti l ts lo rest chain e st f hts hwf.2.1 hwf.1 hwf.2.2 ?_
        exact ih (holdOf arch ti.t l true :: chain) e st f (by simpa using hwf.2.2) hlen hpre
      · have hts' : ts.contains ti.t = false := by simpa using hts
        simp only [wfT, hts', Bool.false_eq_true, if_false] at hwf
        have := ih chain e st f hwf hlen hpre
        simpa only [Post, TT, KK, execT, simpleN, hts', Bool.false_eq_true, if_false] using this

end AFV.NestExec
