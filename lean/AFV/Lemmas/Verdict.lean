import AFV.Model.Verdict
import AFV.Lemmas.HeavParts
import Mathlib.Algebra.Order.Field.Rat
import Mathlib.Tactic.Linarith
/-!
Helper lemmas for C09: order facts about the model's `rmax`/`rmin`/`Max`/`Min` evaluation,
the `any`/`all` combinators, and the soundness of one activation of `_compare_to_zero`.
-/
namespace AFV.Verdict
open AFV.Expr9

/-! ### rmax / rmin -/

theorem le_rmax_left (a b : Rat) : a ≤ rmax a b := by
  unfold rmax; split <;> linarith
theorem le_rmax_right (a b : Rat) : b ≤ rmax a b := by
  unfold rmax; split
  · exact le_refl _
  · rename_i h; exact le_of_lt (not_le.mp h)
theorem rmax_cases (a b : Rat) : rmax a b = a ∨ rmax a b = b := by
  unfold rmax; split
  · exact Or.inr rfl
  · exact Or.inl rfl
theorem rmin_le_left (a b : Rat) : rmin a b ≤ a := by
  unfold rmin; split
  · exact le_refl _
  · rename_i h; exact le_of_lt (not_le.mp h)
theorem rmin_le_right (a b : Rat) : rmin a b ≤ b := by
  unfold rmin; split <;> linarith
theorem rmin_cases (a b : Rat) : rmin a b = a ∨ rmin a b = b := by
  unfold rmin; split
  · exact Or.inl rfl
  · exact Or.inr rfl

/-! ### Max / Min over argument lists -/

theorem maxL_spec (ρ : Nat → Rat) : ∀ (xs : List E) (m : Rat), maxL ρ xs = some m →
    (∀ x ∈ xs, eval ρ x ≤ m) ∧ (∃ x ∈ xs, eval ρ x = m)
  | [], m, h => by simp [maxL] at h
  | y :: ys, m, h => by
    rw [maxL] at h
    cases hm : maxL ρ ys with
    | none =>
      rw [hm] at h
      have hys : ys = [] := by
        cases ys with
        | nil => rfl
        | cons z zs =>
          rw [maxL] at hm
          cases hz : maxL ρ zs <;> rw [hz] at hm <;> simp at hm
      subst hys
      simp only [Option.some.injEq] at h
      subst h
      exact ⟨fun x hx => by simp at hx; subst hx; exact le_refl _, y, by simp, rfl⟩
    | some m' =>
      rw [hm] at h
      simp only [Option.some.injEq] at h
      subst h
      obtain ⟨hle, z, hz, hzm⟩ := maxL_spec ρ ys m' hm
      refine ⟨fun x hx => ?_, ?_⟩
      · rcases List.mem_cons.mp hx with rfl | hx
        · exact le_rmax_left _ _
        · exact le_trans (hle x hx) (le_rmax_right _ _)
      · rcases rmax_cases (eval ρ y) m' with h | h
        · exact ⟨y, by simp, h.symm⟩
        · exact ⟨z, List.mem_cons_of_mem _ hz, by rw [h]; exact hzm⟩

theorem minL_spec (ρ : Nat → Rat) : ∀ (xs : List E) (m : Rat), minL ρ xs = some m →
    (∀ x ∈ xs, m ≤ eval ρ x) ∧ (∃ x ∈ xs, eval ρ x = m)
  | [], m, h => by simp [minL] at h
  | y :: ys, m, h => by
    rw [minL] at h
    cases hm : minL ρ ys with
    | none =>
      rw [hm] at h
      have hys : ys = [] := by
        cases ys with
        | nil => rfl
        | cons z zs =>
          rw [minL] at hm
          cases hz : minL ρ zs <;> rw [hz] at hm <;> simp at hm
      subst hys
      simp only [Option.some.injEq] at h
      subst h
      exact ⟨fun x hx => by simp at hx; subst hx; exact le_refl _, y, by simp, rfl⟩
    | some m' =>
      rw [hm] at h
      simp only [Option.some.injEq] at h
      subst h
      obtain ⟨hle, z, hz, hzm⟩ := minL_spec ρ ys m' hm
      refine ⟨fun x hx => ?_, ?_⟩
      · rcases List.mem_cons.mp hx with rfl | hx
        · exact rmin_le_left _ _
        · exact le_trans (rmin_le_right _ _) (hle x hx)
      · rcases rmin_cases (eval ρ y) m' with h | h
        · exact ⟨y, by simp, h.symm⟩
        · exact ⟨z, List.mem_cons_of_mem _ hz, by rw [h]; exact hzm⟩

theorem maxL_none (ρ : Nat → Rat) : ∀ xs, maxL ρ xs = none → xs = []
  | [], _ => rfl
  | y :: ys, h => by
    rw [maxL] at h
    cases hz : maxL ρ ys <;> rw [hz] at h <;> simp at h

theorem minL_none (ρ : Nat → Rat) : ∀ xs, minL ρ xs = none → xs = []
  | [], _ => rfl
  | y :: ys, h => by
    rw [minL] at h
    cases hz : minL ρ ys <;> rw [hz] at h <;> simp at h

/-- value of a `Max`: 0 for the empty one, otherwise attained by an argument and ≥ every argument -/
theorem eval_max (ρ : Nat → Rat) (xs : List E) :
    (xs = [] ∧ eval ρ (.max xs) = 0) ∨
    ((∀ x ∈ xs, eval ρ x ≤ eval ρ (.max xs)) ∧ ∃ x ∈ xs, eval ρ x = eval ρ (.max xs)) := by
  rw [eval]
  cases h : maxL ρ xs with
  | none => exact Or.inl ⟨maxL_none ρ xs h, rfl⟩
  | some m => exact Or.inr (maxL_spec ρ xs m h)

theorem eval_min (ρ : Nat → Rat) (xs : List E) :
    (xs = [] ∧ eval ρ (.min xs) = 0) ∨
    ((∀ x ∈ xs, eval ρ (.min xs) ≤ eval ρ x) ∧ ∃ x ∈ xs, eval ρ x = eval ρ (.min xs)) := by
  rw [eval]
  cases h : minL ρ xs with
  | none => exact Or.inl ⟨minL_none ρ xs h, rfl⟩
  | some m => exact Or.inr (minL_spec ρ xs m h)

/-! ### any / all -/

theorem anyE_false {g : E → M Bool} : ∀ {xs : List E}, anyE g xs = .ok false → ∀ x ∈ xs, g x = .ok false
  | [], _, x, hx => by cases hx
  | y :: ys, h, x, hx => by
    rw [anyE] at h
    split at h
    · cases h
    · cases h
    · rename_i hy
      rcases List.mem_cons.mp hx with rfl | hx'
      · exact hy
      · exact anyE_false h x hx'

theorem allE_false {g : E → M Bool} : ∀ {xs : List E}, allE g xs = .ok false → ∃ x ∈ xs, g x = .ok false
  | [], h => by simp [allE] at h
  | y :: ys, h => by
    rw [allE] at h
    split at h
    · cases h
    · obtain ⟨x, hx, hg⟩ := allE_false h
      exact ⟨x, List.mem_cons_of_mem _ hx, hg⟩
    · rename_i hy
      exact ⟨y, by simp, hy⟩

/-! ### asking the oracle -/

theorem askNorm_ok {o : Oracle} {f g : E} (h : askNorm o f = .ok g) : o.norm f = some g := by
  unfold askNorm at h; split at h
  · rename_i a ha; cases h; exact ha
  · cases h
theorem askDoit_ok {o : Oracle} {f g : E} (h : askDoit o f = .ok g) : o.doit f = some g := by
  unfold askDoit at h; split at h
  · rename_i a ha; cases h; exact ha
  · cases h
theorem askRel_ok {o : Oracle} {f : E} {ge : Bool} {a : Option Bool} (h : askRel o f ge = .ok a) :
    o.rel f ge = some a := by
  unfold askRel at h; split at h
  · rename_i a ha; cases h; exact ha
  · cases h
theorem askRange_ok {o : Oracle} {f : E} {s : Nat} {a : RangeAns} (h : askRange o f s = .ok a) :
    o.range f s = some a := by
  unfold askRange at h; split at h
  · rename_i a ha; cases h; exact ha
  · cases h
theorem askExpand_ok {o : Oracle} {f g : E} (h : askExpand o f = .ok g) : o.expand f = some g := by
  unfold askExpand at h; split at h
  · rename_i a ha; cases h; exact ha
  · cases h
theorem askDiff_ok {o : Oracle} {f g : E} {s : Nat} (h : askDiff o f s = .ok g) : o.diff f s = some g := by
  unfold askDiff at h; split at h
  · rename_i a ha; cases h; exact ha
  · cases h

/-! ### what a `False` answer of `_compare_to_zero` claims -/

/-- `Sgn true v`: `v` is not negative; `Sgn false v`: `v` is not positive. -/
def Sgn : Bool → Rat → Prop
  | true, v => 0 ≤ v
  | false, v => v ≤ 0

/-- `Below lt x y`: `x` is on the safe side of `y` for direction `lt`
(`x ≤ y` when a lower bound is wanted, `y ≤ x` when an upper bound is wanted). -/
def Below : Bool → Rat → Rat → Prop
  | true, x, y => x ≤ y
  | false, x, y => y ≤ x

theorem sgn_of_below {lt : Bool} {x y : Rat} (hb : Below lt x y) (hs : Sgn lt x) : Sgn lt y := by
  cases lt
  · exact le_trans hb hs
  · exact le_trans hs hb

theorem below_refl (lt : Bool) (x : Rat) : Below lt x x := by cases lt <;> exact le_refl _

/-- `_compare_to_zero(f, …, lt)` returning `False` claims this. -/
def Claim (box : Box) (lt : Bool) (f : E) : Prop := ∀ ρ, InBox box ρ → Sgn lt (eval ρ f)

/-- sympy's answers are truthful on the integer points of the box. -/
structure OracleSound (o : Oracle) (box : Box) : Prop where
  /-- a relational that evaluates to `True` is true (`f >= 0` for `ge`, `f <= 0` otherwise) -/
  rel_sound : ∀ f ge, o.rel f ge = some (some true) → Claim box ge f
  /-- `function_range` over-approximates -/
  range_interval : ∀ f s lo hi, o.range f s = some (.interval lo hi) →
    ∀ ρ, InBox box ρ → eval ρ lo ≤ eval ρ f ∧ eval ρ f ≤ eval ρ hi
  range_finite : ∀ f s l, o.range f s = some (.finite l) →
    ∀ ρ, InBox box ρ → ∃ g ∈ l, eval ρ g = eval ρ f
  /-- rebuilding a tree (automatic evaluation, `doit`) does not change its value -/
  norm_eq : ∀ f g, o.norm f = some g → ∀ ρ, InBox box ρ → eval ρ g = eval ρ f
  /-- `doit()` does not change the value -/
  doit_eq : ∀ f g, o.doit f = some g → ∀ ρ, InBox box ρ → eval ρ g = eval ρ f

/-- where the Heaviside partition still needs a side condition: always for the old joint partition; for the
repaired per-atom partition only at points where some Heaviside argument is exactly 0 (`H(0) = 1/2`) -/
def NeedsBracket (cfg : Cfg) (ρ : Nat → Rat) (f1 : E) : Prop :=
  cfg.heavPerAtom = false ∨ ∃ x ∈ heavArgs [] f1, eval ρ x = 0

/-- The class `C lt` of formulas on which the repo's own two rewrites are harmless for direction
`lt`, closed under the sub-problems the recursion visits. -/
structure Admissible (cfg : Cfg) (o : Oracle) (box : Box) (C : Bool → E → Prop) : Prop where
  /-- `doit()` stays in the class -/
  doit_ok : ∀ lt f g, C lt f → o.doit f = some g → C lt g
  /-- stripping `ceiling` moves the value to the safe side -/
  strip_ok : ∀ lt f, C lt f → ∀ ρ, InBox box ρ → Below lt (eval ρ (strip f)) (eval ρ f)
  /-- the parts of the Heaviside partition stay in the class … -/
  heav_closed : ∀ lt f f1, C lt f → o.norm (strip f) = some f1 → hasHeav f1 = true →
    ∀ p ∈ partsOf cfg f1, ∀ a, o.norm p = some a → C lt a
  /-- … and bracket the value wherever that is not automatic (`NeedsBracket`) -/
  heav_ok : ∀ lt f f1, C lt f → o.norm (strip f) = some f1 → hasHeav f1 = true →
    ∀ ρ, InBox box ρ → NeedsBracket cfg ρ f1 →
      ∃ p ∈ partsOf cfg f1, ∀ a, o.norm p = some a → Below lt (eval ρ a) (eval ρ f1)
  min_ok : ∀ lt f xs, C lt f → o.norm (strip f) = some (.min xs) → ∀ x ∈ xs, C lt x
  max_ok : ∀ lt f xs, C lt f → o.norm (strip f) = some (.max xs) → ∀ x ∈ xs, C lt x
  range_i_ok : ∀ lt f f1 s lo hi, C lt f → o.norm (strip f) = some f1 →
    o.range f1 s = some (.interval lo hi) → C lt (if lt then lo else hi)
  range_f_ok : ∀ lt f f1 s l, C lt f → o.norm (strip f) = some f1 →
    o.range f1 s = some (.finite l) → ∀ g ∈ l, C lt g

theorem sgn_min_of_all {ρ : Nat → Rat} {xs : List E} (h : ∀ x ∈ xs, Sgn true (eval ρ x)) :
    Sgn true (eval ρ (.min xs)) := by
  rcases eval_min ρ xs with ⟨_, h0⟩ | ⟨_, x, hx, hxe⟩
  · show (0 : Rat) ≤ _; rw [h0]
  · have := h x hx; rw [hxe] at this; exact this

theorem sgn_min_of_ex {ρ : Nat → Rat} {xs : List E} (h : ∃ x ∈ xs, Sgn false (eval ρ x)) :
    Sgn false (eval ρ (.min xs)) := by
  obtain ⟨x, hx, hs⟩ := h
  rcases eval_min ρ xs with ⟨he, _⟩ | ⟨hle, _⟩
  · subst he; cases hx
  · exact le_trans (hle x hx) hs

theorem sgn_max_of_ex {ρ : Nat → Rat} {xs : List E} (h : ∃ x ∈ xs, Sgn true (eval ρ x)) :
    Sgn true (eval ρ (.max xs)) := by
  obtain ⟨x, hx, hs⟩ := h
  rcases eval_max ρ xs with ⟨he, _⟩ | ⟨hle, _⟩
  · subst he; cases hx
  · exact le_trans hs (hle x hx)

theorem sgn_max_of_all {ρ : Nat → Rat} {xs : List E} (h : ∀ x ∈ xs, Sgn false (eval ρ x)) :
    Sgn false (eval ρ (.max xs)) := by
  rcases eval_max ρ xs with ⟨_, h0⟩ | ⟨_, x, hx, hxe⟩
  · show _ ≤ (0 : Rat); rw [h0]
  · have := h x hx; rw [hxe] at this; exact this

theorem normAll_spec {o : Oracle} : ∀ {ps as : List E}, normAll o ps = .ok as →
    ∀ p ∈ ps, ∃ a ∈ as, o.norm p = some a
  | [], _, _, p, hp => by cases hp
  | q :: qs, as, h, p, hp => by
    rw [normAll] at h
    split at h
    · cases h
    · rename_i a ha
      split at h
      · cases h
      · rename_i as' has
        cases h
        rcases List.mem_cons.mp hp with rfl | hp'
        · exact ⟨a, by simp, askNorm_ok ha⟩
        · obtain ⟨b, hb, hn⟩ := normAll_spec has p hp'
          exact ⟨b, List.mem_cons_of_mem _ hb, hn⟩

theorem normAll_spec' {o : Oracle} : ∀ {ps as : List E}, normAll o ps = .ok as →
    ∀ a ∈ as, ∃ p ∈ ps, o.norm p = some a
  | [], as, h, a, ha => by rw [normAll] at h; cases h; cases ha
  | q :: qs, as, h, a, ha => by
    rw [normAll] at h
    split at h
    · cases h
    · rename_i a' ha'
      split at h
      · cases h
      · rename_i as' has
        cases h
        rcases List.mem_cons.mp ha with rfl | ha2
        · exact ⟨q, by simp, askNorm_ok ha'⟩
        · obtain ⟨p, hp, hn⟩ := normAll_spec' has a ha2
          exact ⟨p, List.mem_cons_of_mem _ hp, hn⟩

/-- the Min/Max rules and the range recursion -/
theorem rest_sound {cfg : Cfg} {o : Oracle} {box : Box} {C : Bool → E → Prop}
    (hO : OracleSound o box) (hA : Admissible cfg o box C)
    {rec : E → M Bool} {lt : Bool}
    (hrec : ∀ g, C lt g → rec g = .ok false → Claim box lt g)
    {f f1 : E} (hf : C lt f) (hn : o.norm (strip f) = some f1)
    (h : rest o box rec f1 lt = .ok false) : Claim box lt f1 := by
  intro ρ hρ
  unfold rest at h
  split at h
  · -- Min
    have hC := hA.min_ok lt f _ hf hn
    cases lt
    · simp only [Bool.false_eq_true, if_false] at h
      obtain ⟨x, hx, hg⟩ := allE_false h
      exact sgn_min_of_ex ⟨x, hx, hrec x (hC x hx) hg ρ hρ⟩
    · simp only [if_true] at h
      have hall := anyE_false h
      exact sgn_min_of_all fun x hx => hrec x (hC x hx) (hall x hx) ρ hρ
  · -- Max
    have hC := hA.max_ok lt f _ hf hn
    cases lt
    · simp only [Bool.false_eq_true, if_false] at h
      have hall := anyE_false h
      exact sgn_max_of_all fun x hx => hrec x (hC x hx) (hall x hx) ρ hρ
    · simp only [if_true] at h
      obtain ⟨x, hx, hg⟩ := allE_false h
      exact sgn_max_of_ex ⟨x, hx, hrec x (hC x hx) hg ρ hρ⟩
  · split at h
    · cases h
    · rename_i s _
      split at h
      · cases h
      · split at h
        · cases h
        · cases h
        · rename_i l hra
          have hra := askRange_ok hra
          have hC := hA.range_f_ok lt f f1 s l hf hn hra
          have hall := anyE_false h
          obtain ⟨g, hg, hge⟩ := hO.range_finite f1 s l hra ρ hρ
          have := hrec g (hC g hg) (hall g hg) ρ hρ
          rw [hge] at this
          exact this
        · rename_i lo hi hra
          have hra := askRange_ok hra
          have hC := hA.range_i_ok lt f f1 s lo hi hf hn hra
          have hb := hO.range_interval f1 s lo hi hra ρ hρ
          have := hrec _ hC h ρ hρ
          cases lt
          · simp only [Bool.false_eq_true, if_false] at this
            exact le_trans hb.2 this
          · simp only [if_true] at this
            exact le_trans this hb.1

/-- One activation of `_compare_to_zero` is sound if its recursive calls are. -/
theorem step_sound {cfg : Cfg} {o : Oracle} {box : Box} {C : Bool → E → Prop}
    (hO : OracleSound o box) (hA : Admissible cfg o box C)
    {rec : E → M Bool} {lt : Bool}
    (hrec : ∀ g, C lt g → rec g = .ok false → Claim box lt g)
    {f : E} (hf : C lt f) (h : step cfg o box rec f lt = .ok false) : Claim box lt f := by
  intro ρ hρ
  unfold step at h
  split at h
  · cases h
  rename_i f0 hd
  have hd := askDoit_ok hd
  have e0 : eval ρ f0 = eval ρ f := hO.doit_eq _ _ hd ρ hρ
  rw [← e0]
  have hf0 := hA.doit_ok lt f f0 hf hd
  clear hd e0 hf
  rename' f => fOrig, f0 => f, hf0 => hf
  split at h
  · cases h
  · rename_i f1 hn
    have hn := askNorm_ok hn
    have e1 : eval ρ f1 = eval ρ (strip f) := hO.norm_eq _ _ hn ρ hρ
    have b1 := hA.strip_ok lt f hf ρ hρ
    rw [← e1] at b1
    refine sgn_of_below b1 ?_
    split at h
    · rename_i hh
      split at h
      · cases h
      · split at h
        · cases h
        · rename_i parts hparts
          have hall := anyE_false h
          have hclosed := hA.heav_closed lt f f1 hf hn hh
          -- a part on the safe side of f1 whose normal form was examined
          have key : ∃ p ∈ partsOf cfg f1, ∀ a, o.norm p = some a → Below lt (eval ρ a) (eval ρ f1) := by
            by_cases hnb : NeedsBracket cfg ρ f1
            · exact hA.heav_ok lt f f1 hf hn hh ρ hρ hnb
            · have hper : cfg.heavPerAtom = true := by
                cases hc : cfg.heavPerAtom
                · exact absurd (Or.inl hc) hnb
                · rfl
              have hno : ∀ x ∈ heavArgs [] f1, eval ρ x ≠ 0 := fun x hx h0 => hnb (Or.inr ⟨x, hx, h0⟩)
              obtain ⟨p, hp, hpe⟩ := heavParts_exact ρ f1 hno
              refine ⟨p, by simp [partsOf, hper, hp], fun a ha => ?_⟩
              have := hO.norm_eq p a ha ρ hρ
              rw [this, hpe]
              exact below_refl _ _
          obtain ⟨p, hp, hbel⟩ := key
          obtain ⟨a, ha, hna⟩ := normAll_spec hparts p hp
          have hca := hrec a (hclosed p hp a hna) (hall a ha) ρ hρ
          exact sgn_of_below (hbel a hna) hca
    · split at h
      · cases h
      · rename_i ans hr
        have hr := askRel_ok hr
        split at h
        · cases h
        · rename_i hans
          have hat : ans = true := by cases ans <;> simp_all
          subst hat
          split at h
          · exact hO.rel_sound f1 lt hr ρ hρ
          · split at h
            · cases h
            · exact hO.rel_sound f1 lt hr ρ hρ
            · exact rest_sound hO hA hrec hf hn h ρ hρ
      · exact rest_sound hO hA hrec hf hn h ρ hρ

/-- `_compare_to_zero` returning `False` is a proof: by induction on the recursion depth. -/
theorem compare_sound {cfg : Cfg} {o : Oracle} {box : Box} {C : Bool → E → Prop}
    (hO : OracleSound o box) (hA : Admissible cfg o box C) :
    ∀ (fuel : Nat) (f : E) (lt : Bool), C lt f → compare cfg o box fuel f lt = .ok false → Claim box lt f
  | 0, _, _, _, h => by simp [compare] at h
  | fuel + 1, f, lt, hf, h => by
    rw [compare] at h
    exact step_sound hO hA (fun g hg hr => compare_sound hO hA fuel g lt hg hr) hf h

end AFV.Verdict
