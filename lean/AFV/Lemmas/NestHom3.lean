import AFV.Lemmas.NestHom2
namespace AFV.Nest

variable {α β : Type}
  [Add α] [Mul α] [Div α] [Max α] [Sub α] [OfNat α 0] [OfNat α 1]
  [Add β] [Mul β] [Div β] [Max β] [Sub β] [OfNat β 0] [OfNat β 1]
variable {f : α → β}

def Table.mapT (f : α → β) (tb : Table α) : Table β := tb.map (fun e => (e.1, e.2.map f))

theorem find_map (tb : Table α) (k : BKey) : Table.find (Table.mapT f tb) k = (Table.find tb k).map (Stats.map f) := by
  induction tb with
  | nil => rfl
  | cons e r ih =>
    obtain ⟨k', s⟩ := e
    simp only [Table.mapT, List.map_cons, Table.find] at ih ⊢
    split <;> simp [ih]

theorem child_map (tb : Table α) (k : BKey) : Table.child (Table.mapT f tb) k = (Table.child tb k).map (Stats.map f) := by
  induction tb with
  | nil => rfl
  | cons e r ih =>
    obtain ⟨k', s⟩ := e
    simp only [Table.mapT, List.map_cons, Table.child] at ih ⊢
    split
    · cases r <;> simp
    · exact ih

theorem set_map (tb : Table α) (k : BKey) (s : Stats α) :
    Table.set (Table.mapT f tb) k (s.map f) = Table.mapT f (Table.set tb k s) := by
  induction tb with
  | nil => rfl
  | cons e r ih =>
    obtain ⟨k', s'⟩ := e
    simp only [Table.mapT, List.map_cons, Table.set] at ih ⊢
    split <;> simp [ih]

def Ctx.map (f : α → β) (c : Ctx α) : Ctx β := { arch := c.arch.map f, w := c.w.map f, t := c.t }

theorem spec_map (hf : IsHom f) (c : Ctx α) : (c.map f).spec = c.spec.map f := by
  simp only [Ctx.spec, Ctx.map, Workload.map, List.getD, List.getElem?_map]
  cases c.w.tensors[c.t]? <;> simp [TensorSpec.map, hf.one]

theorem relevant_map (w : Workload α) (t : TId) (rv : RV) : (w.map f).relevant t rv = w.relevant t rv := by
  simp only [Workload.relevant, Workload.map, List.getElem?_map]
  cases w.tensors[t]? <;> simp [TensorSpec.map]

theorem holderStats_map (hf : IsHom f) (lv : Level α) (t : TId) (ts : TensorSpec α) (nt hp : Bool) (shape : List α)
    (s : Stats α) (ch : Option (Stats α)) :
    holderStats (lv.map f) t (ts.map f) nt hp (shape.map f) (s.map f) (ch.map (Stats.map f))
      = (holderStats lv t ts nt hp shape s ch).map f := by
  have := holderCounts_map hf lv t ts nt hp shape s.c (ch.map (·.c))
  simp only [holderStats, Stats.map, Option.map_map] at this ⊢
  have h2 : (Option.map ((fun x => x.c) ∘ Stats.map f) ch) = Option.map (Counts.map f ∘ fun x => x.c) ch := by
    cases ch <;> rfl
  rw [h2, this]
  cases nt <;> simp [hf.zero]

theorem analyzeHolder_map (hf : IsHom f) (c : Ctx α) (lvl : Lvl) (nt hp : Bool) (shape : List α) (tb : Table α) :
    analyzeHolder (c.map f) lvl nt hp (shape.map f) (Table.mapT f tb)
      = (analyzeHolder c lvl nt hp shape tb).map (Table.mapT f) := by
  simp only [analyzeHolder, find_map, child_map]
  have hl : (c.map f).arch.levels[lvl]? = (c.arch.levels[lvl]?).map (Level.map f) := by
    simp [Ctx.map, Arch.map, List.getElem?_map]
  rw [hl]
  cases c.arch.levels[lvl]? with
  | none => rfl
  | some lv =>
    cases Table.find tb (BKey.mem lvl) with
    | none => rfl
    | some s =>
      simp only [Option.map_some, spec_map hf]
      have ht : (c.map f).t = c.t := rfl
      rw [ht, holderStats_map hf, set_map]

end AFV.Nest
