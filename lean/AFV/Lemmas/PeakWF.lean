import AFV.Lemmas.PeakDecl
import AFV.Lemmas.PeakLeaf3
import AFV.Lemmas.NestGlue4
/-!
# PeakWF — a well-formed Toll-free nest satisfies the side conditions of `peak_leaf`; the Reservations add up to the peak
-/
namespace AFV.PeakSingle
open AFV.Nest AFV.FusedPeak

/-- everything the proof needs from `WF` and `noToll`, as one recursive predicate -/
def M3 (ntens : Nat) : List Nat → Mapping Nat → Prop
  | _, [] => False
  | _, .compute :: r => r = []
  | shape, .loop rv tile :: r => 1 ≤ tile ∧ tile ≤ shape.getD rv 1 ∧ M3 ntens (shape.set rv tile) r
  | shape, .storage _ ts lo :: r => ts ≠ [] ∧ (∀ t ∈ ts, t < ntens) ∧ ts.Nodup ∧ lo = true ∧ M3 ntens shape r
  | _, .toll _ _ _ :: _ => False

theorem m2_of_m3 (ntens : Nat) (m : Mapping Nat) : ∀ shape, M3 ntens shape m → M2 ntens m := by
  induction m with
  | nil => intro shape h; exact h
  | cons n r ih =>
    intro shape h
    cases n with
    | compute => exact h
    | loop rv tile => simp only [M3] at h; simp only [M2]; exact ih _ h.2.2
    | toll l ts lo => exact h
    | storage l ts lo => simp only [M3] at h; simp only [M2]; exact ⟨h.1, h.2.1, h.2.2.2.1, ih _ h.2.2.2.2⟩

theorem set_ge_one (shape : List Nat) (rv tile : Nat) (h : ∀ x ∈ shape, 1 ≤ x) (ht : 1 ≤ tile) : ∀ x ∈ shape.set rv tile, 1 ≤ x := by
  intro x hx
  rcases List.mem_or_eq_of_mem_set hx with h' | h'
  · exact h x h'
  · rw [h']; exact ht

theorem getD_ge_one (shape : List Nat) (rv : Nat) (h : ∀ x ∈ shape, 1 ≤ x) : 1 ≤ shape.getD rv 1 := by
  simp only [List.getD]
  cases hg : shape[rv]? with
  | none => simp
  | some v => simp only [Option.getD_some]; exact h v (List.mem_of_getElem? hg)

theorem m3_of_wf (arch : Arch Rat) (ntens : Nat) (m : Mapping Nat) : ∀ shape : List Nat,
    wfLoops shape m = true → (∀ n ∈ m, wfNode arch ntens n = true) → noToll m = true → (∀ x ∈ shape, 1 ≤ x) → M3 ntens shape m := by
  induction m with
  | nil => intro shape h; simp [wfLoops] at h
  | cons n r ih =>
    intro shape hl hn ht hs
    have hnr : ∀ n ∈ r, wfNode arch ntens n = true := fun x hx => hn x (List.mem_cons_of_mem _ hx)
    cases n with
    | compute =>
      cases r with
      | nil => simp [M3]
      | cons a b => simp [wfLoops] at hl
    | loop rv tile =>
      simp only [wfLoops, Bool.and_eq_true, decide_eq_true_eq, beq_iff_eq] at hl
      obtain ⟨⟨⟨_, h1⟩, hmod⟩, hrest⟩ := hl
      have hx := getD_ge_one shape rv hs
      refine ⟨h1, Nat.le_of_dvd (by omega) (Nat.dvd_of_mod_eq_zero hmod), ?_⟩
      exact ih _ hrest hnr (by simpa [noToll] using ht) (set_ge_one shape rv tile hs h1)
    | toll l ts lo => simp [noToll] at ht
    | storage l ts lo =>
      have hw := hn _ List.mem_cons_self
      simp only [wfNode, Bool.and_eq_true, Bool.not_eq_true', List.all_eq_true, decide_eq_true_eq, nodupB_iff] at hw
      obtain ⟨⟨⟨⟨_, hne⟩, hlt⟩, hnd⟩, hlo⟩ := hw
      refine ⟨?_, hlt, hnd, hlo, ?_⟩
      · intro h; subst h; simp at hne
      · have : wfLoops shape r = true := by
          cases r with
          | nil => simp [wfLoops] at hl
          | cons a b => simpa [wfLoops] using hl
        exact ih _ this hnr (by simpa [noToll] using ht) hs

/-! ### side conditions of `peak_leaf` -/

theorem loopIds_toPre_ge (m : Mapping Nat) : ∀ k x, x ∈ loopIds (toPre k m) → k ≤ x := by
  induction m with
  | nil => intro k x hx; simp [toPre, loopIds] at hx
  | cons n r ih =>
    intro k x hx
    cases n with
    | compute => exact Nat.le_of_succ_le (ih (k + 1) x hx)
    | toll l ts lo => exact Nat.le_of_succ_le (ih (k + 1) x hx)
    | storage l ts lo => simp only [toPre, loopIds] at hx; exact Nat.le_of_succ_le (ih (k + 1) x hx)
    | loop rv tile =>
      simp only [toPre, loopIds, List.mem_cons] at hx
      rcases hx with rfl | hx
      · exact Nat.le_refl _
      · exact Nat.le_of_succ_le (ih (k + 1) x hx)

theorem loopIds_toPre_nodup (m : Mapping Nat) : ∀ k, (loopIds (toPre k m)).Nodup := by
  induction m with
  | nil => intro k; simp [toPre, loopIds]
  | cons n r ih =>
    intro k
    cases n with
    | compute => exact ih (k + 1)
    | toll l ts lo => exact ih (k + 1)
    | storage l ts lo => simp only [toPre, loopIds]; exact ih (k + 1)
    | loop rv tile =>
      simp only [toPre, loopIds, List.nodup_cons]
      refine ⟨fun h => ?_, ih (k + 1)⟩
      have := loopIds_toPre_ge r (k + 1) k h
      omega

theorem count_pos (ntens : Nat) (m : Mapping Nat) : ∀ k shape, M3 ntens shape m → 0 < count (toPre k m) shape := by
  induction m with
  | nil => intro k shape h; exact absurd h (by simp [M3])
  | cons n r ih =>
    intro k shape h
    cases n with
    | compute => simp only [M3] at h; subst h; simp [toPre, count]
    | toll l ts lo => exact absurd h (by simp [M3])
    | storage l ts lo => simp only [M3] at h; simp only [toPre, count]; exact ih _ _ h.2.2.2.2
    | loop rv tile =>
      simp only [M3] at h
      simp only [toPre, count]
      exact Nat.mul_pos (Nat.div_pos h.2.1 h.1) (ih _ _ h.2.2)

/-- (holder id, tensor) of the buffers of a path -/
def pathKeys : List (PNode × Bool) → List (Nat × Nat)
  | [] => []
  | (.storage id _ ts _, _) :: r => ts.map (fun t => (id, t)) ++ pathKeys r
  | (.loop _ _ _, _) :: r => pathKeys r

theorem descs_keys (W : FusedPeak.Workload) (p : List (PNode × Bool)) : ∀ (seen : List Nat) (above : List Nat) (shape : List Nat),
    (descsAux W p seen above shape).map (fun d => (d.holder, d.tensor)) = pathKeys p := by
  induction p with
  | nil => intro _ _ _; rfl
  | cons n r ih =>
    intro seen above shape
    obtain ⟨n, s⟩ := n
    cases n with
    | loop id rv tile => simp only [descsAux, pathKeys]; exact ih _ _ _
    | storage id l ts pp =>
      rw [descsAux_storage]
      simp only [List.map_append, List.map_map, pathKeys, ih]
      congr 1

theorem pathKeys_append (a b : List (PNode × Bool)) : pathKeys (a ++ b) = pathKeys a ++ pathKeys b := by
  induction a with
  | nil => rfl
  | cons n r ih =>
    obtain ⟨n, s⟩ := n
    cases n <;> simp [pathKeys, ih]

theorem pathKeys_storages (k l : Nat) (ts : List Nat) :
    pathKeys (ts.map (fun t => (PNode.storage k l [t] false, false))) = ts.map (fun t => (k, t)) := by
  induction ts with
  | nil => rfl
  | cons t r ih => simp [pathKeys, ih]

theorem keys_leafPath (ntens : Nat) (m : Mapping Nat) : ∀ k shape, M3 ntens shape m →
    (pathKeys (splitPath (ownPath (List.range ntens) ((toPre k m).map (fun n => (n, false)))))).Nodup ∧
    ∀ x ∈ pathKeys (splitPath (ownPath (List.range ntens) ((toPre k m).map (fun n => (n, false))))), k ≤ x.1 := by
  induction m with
  | nil => intro k shape h; exact absurd h (by simp [M3])
  | cons n r ih =>
    intro k shape h
    cases n with
    | compute => simp only [M3] at h; subst h; simp [toPre, ownPath, splitPath, pathKeys]
    | toll l ts lo => exact absurd h (by simp [M3])
    | loop rv tile =>
      simp only [M3] at h
      obtain ⟨h1, h2⟩ := ih (k + 1) _ h.2.2
      simp only [toPre, List.map_cons, ownPath, splitPath, pathKeys]
      exact ⟨h1, fun x hx => Nat.le_of_succ_le (h2 x hx)⟩
    | storage l ts lo =>
      simp only [M3] at h
      obtain ⟨hne, hlt, hnd, _, hr⟩ := h
      obtain ⟨h1, h2⟩ := ih (k + 1) _ hr
      have hemp : ts.isEmpty = false := by cases ts <;> simp at hne ⊢
      simp only [toPre, List.map_cons, ownPath, filter_own ntens ts hlt, hemp, Bool.false_eq_true, if_false, splitPath,
        pathKeys_append, pathKeys_storages]
      refine ⟨?_, ?_⟩
      · rw [List.nodup_append]
        refine ⟨hnd.map (fun a b hab => by simpa using hab), h1, ?_⟩
        intro a ha b hb hab
        obtain ⟨t, _, rfl⟩ := List.mem_map.1 ha
        have := h2 b hb
        rw [← hab] at this
        simp at this
      · intro x hx
        rcases List.mem_append.1 hx with hx | hx
        · obtain ⟨t, _, rfl⟩ := List.mem_map.1 hx; exact Nat.le_refl _
        · exact Nat.le_of_succ_le (h2 x hx)

theorem descs_nonpersistent (W : FusedPeak.Workload) (p : List (PNode × Bool)) : ∀ (seen above shape : List Nat), PathOK p →
    ∀ d ∈ descsAux W p seen above shape, d.persistent = false ∧ ∃ t sh, d.size = szOf W t d.lvl sh := by
  induction p with
  | nil => intro _ _ _ _ d hd; simp [descsAux] at hd
  | cons n r ih =>
    intro seen above shape hp d hd
    obtain ⟨n, s⟩ := n
    cases n with
    | loop id rv tile => simp only [PathOK] at hp; simp only [descsAux] at hd; exact ih _ _ _ hp d hd
    | storage id l ts pp =>
      simp only [PathOK] at hp
      obtain ⟨⟨t', rfl⟩, rfl, hpr⟩ := hp
      rw [descsAux_storage] at hd
      rcases List.mem_append.1 hd with hd | hd
      · simp only [List.map_cons, List.map_nil, List.mem_singleton] at hd
        subst hd
        refine ⟨rfl, t', (if (!seen.contains t') = true then (([] : List Nat), shape) else lower W t' r shape).2, ?_⟩
        simp only [mkDesc, szOf, Bool.false_eq_true, if_false, mul_one]
      · exact ih _ _ _ hpr d hd

theorem szOf_nonneg (W : FusedPeak.Workload) (hb : ∀ l t, 0 ≤ (W.bits.getD l []).getD t 0) (t l : Nat) (sh : List Nat) :
    0 ≤ szOf W t l sh := mul_nonneg (Nat.cast_nonneg _) (hb l t)

/-- **The side conditions of `peak_leaf` hold for every well-formed Toll-free nest.** -/
theorem leafOK_of_m3 (arch : Arch Rat) (wq : Nest.Workload Rat) (wn : Nest.Workload Nat) (m : Mapping Nat)
    (h : M3 wn.tensors.length wn.bounds m)
    (hb : ∀ l t, 0 ≤ ((toWorkload arch wq wn).bits.getD l []).getD t 0) :
    leafOK (toWorkload arch wq wn) (toPre 1 m) 0 = true := by
  have hlp : leafPath (toWorkload arch wq wn) (toPre 1 m) 0
      = splitPath (ownPath (List.range wn.tensors.length) ((toPre 1 m).map (fun n => (n, false)))) := by
    simp [leafPath, toWorkload]
  obtain ⟨_, hpok⟩ := erase_leafPath wn.tensors.length m 1 (m2_of_m3 _ m _ h)
  have hD : descsOf (toWorkload arch wq wn) (.leaf (toPre 1 m) 0) 0
      = descsAux (toWorkload arch wq wn) (splitPath (ownPath (List.range wn.tensors.length) ((toPre 1 m).map (fun n => (n, false)))))
          [] [] wn.bounds := by
    rw [descsOf_leaf, hlp]; rfl
  simp only [leafOK, Bool.and_eq_true, decide_eq_true_eq, List.all_eq_true, Bool.or_eq_true, Bool.not_eq_true']
  refine ⟨⟨⟨⟨⟨?_, loopIds_toPre_nodup m 1⟩, ?_⟩, ?_⟩, ?_⟩, ?_⟩
  · simp [toWorkload]
  · exact count_pos _ m 1 _ h
  · rw [hD, descs_keys]
    exact (keys_leafPath _ m 1 _ h).1
  · intro d hd
    rw [hD] at hd
    exact Or.inl (descs_nonpersistent _ _ _ _ _ hpok d hd).1
  · intro d hd
    rw [hD] at hd
    obtain ⟨_, t, sh, hs⟩ := descs_nonpersistent _ _ _ _ _ hpok d hd
    rw [hs]
    exact szOf_nonneg _ hb _ _ _

/-- **Single Einsum: the Reservation nodes created by `insert_reservation_nodes` add up, per memory, to the execution-time
peak of the reference.** -/
theorem reservations_eq_peak (arch : Arch Rat) (wq : Nest.Workload Rat) (wn : Nest.Workload Nat) (m : Mapping Nat) (l : Nat)
    (hwf : WF arch wn m = true) (hnt : noToll m = true)
    (hb : ∀ l t, 0 ≤ ((toWorkload arch wq wn).bits.getD l []).getD t 0) :
    resBits (szOf (toWorkload arch wq wn)) l wn.bounds (insertReservations wn (splitHolders m))
      = peak (toWorkload arch wq wn) (.leaf (toPre 1 m) 0) l := by
  have hf := wf_facts arch wn m hwf
  have h3 : M3 wn.tensors.length wn.bounds m := m3_of_wf arch _ m _ hf.loops hf.nodes hnt hf.bounds
  rw [tracker_alloc arch wq wn m l (m2_of_m3 _ m _ h3), peak_leaf _ _ _ _ (leafOK_of_m3 arch wq wn m h3 hb)]

end AFV.PeakSingle
