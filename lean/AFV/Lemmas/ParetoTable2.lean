import AFV.Lemmas.ParetoTable
/-!
Every row of a table has a *kept* row of the same fused-loop shapes that is at least as good on every
objective / reservation column (goals `min` / `diff`).  Basis of the tolerance bound.
-/
namespace AFV.Pareto

theorem all_congr_mem {α} {l : List α} {p q : α → Bool} (h : ∀ x ∈ l, p x = q x) : l.all p = l.all q := by
  induction l with
  | nil => rfl
  | cons x xs ih =>
    simp only [List.all_cons, h x List.mem_cons_self, ih fun y hy => h y (List.mem_cons_of_mem _ hy)]

/-- finite strict partial order: below every element there is a maximal one. -/
theorem exists_maximal {α} (X : List α) (D : α → α → Bool)
    (irrefl : ∀ a, D a a = false) (trans : ∀ a b c, D a b = true → D b c = true → D a c = true) :
    ∀ (m : Nat) (s : α), s ∈ X → (X.filter fun t => D t s).length ≤ m →
      ∃ t ∈ X, (∀ u ∈ X, D u t = false) ∧ (t = s ∨ D t s = true) := by
  intro m
  induction m with
  | zero =>
    intro s hs hlen
    refine ⟨s, hs, ?_, Or.inl rfl⟩
    intro u hu
    cases hd : D u s
    · rfl
    · have : u ∈ X.filter fun t => D t s := List.mem_filter.mpr ⟨hu, hd⟩
      rw [List.eq_nil_of_length_eq_zero (Nat.le_zero.mp hlen)] at this
      simp at this
  | succ m ih =>
    intro s hs hlen
    by_cases hex : ∃ t ∈ X, D t s = true
    · obtain ⟨s', hs', hd⟩ := hex
      have hlt : (X.filter fun t => D t s').length < (X.filter fun t => D t s).length := by
        have hsl : (X.filter fun t => D t s').Sublist (X.filter fun t => D t s) := by
          have : (X.filter fun t => D t s') = (X.filter fun t => D t s).filter fun t => D t s' := by
            rw [List.filter_filter]
            apply List.filter_congr
            intro t _
            cases h1 : D t s' <;> simp
            exact trans _ _ _ h1 hd
          rw [this]; exact List.filter_sublist
        rcases Nat.lt_or_ge (X.filter fun t => D t s').length (X.filter fun t => D t s).length with h | h
        · exact h
        · exfalso
          have heq := hsl.eq_of_length_le h
          have : s' ∈ X.filter fun t => D t s := List.mem_filter.mpr ⟨hs', hd⟩
          rw [← heq] at this
          have := (List.mem_filter.mp this).2
          rw [irrefl] at this
          exact Bool.noConfusion this
      obtain ⟨t, ht, hmax, h⟩ := ih s' hs' (by omega)
      refine ⟨t, ht, hmax, Or.inr ?_⟩
      rcases h with rfl | h
      · exact hd
      · exact trans _ _ _ h hd
    · refine ⟨s, hs, ?_, Or.inl rfl⟩
      intro u hu
      cases hd : D u s
      · rfl
      · exact absurd ⟨u, hu, hd⟩ hex

section
variable (one : Int) (cols : List (Goal × List EV))

theorem tEqual_iff {j i : Nat} : tEqual cols j i = true ↔ ∀ gc ∈ cols, cell gc.2 j = cell gc.2 i := by
  simp [tEqual]

theorem tEqual_refl (i : Nat) : tEqual cols i i = true := by simp [tEqual]

theorem tSame_refl (i : Nat) : tSame cols i i = true := by simp [tSame]

theorem tLeq_refl (i : Nat) : tLeq one cols i i = true := by
  simp [tLeq, leqGoal_refl]

theorem tSame_trans {a b c : Nat} (h1 : tSame cols a b = true) (h2 : tSame cols b c = true) :
    tSame cols a c = true := by
  simp only [tSame, List.all_eq_true, Bool.or_eq_true, bne_iff_ne, ne_eq, beq_iff_eq] at *
  intro gc hgc
  rcases h1 gc hgc with h | h
  · exact Or.inl h
  · rcases h2 gc hgc with h' | h'
    · exact Or.inl h'
    · exact Or.inr (h.trans h')

variable (hg : ∀ gc ∈ cols, gc.1 = Goal.min ∨ gc.1 = Goal.diff)
include hg

theorem tLeq_trans {a b c : Nat} (h1 : tLeq one cols a b = true) (h2 : tLeq one cols b c = true) :
    tLeq one cols a c = true := by
  simp only [tLeq, List.all_eq_true] at *
  intro gc hgc
  have e1 := h1 gc hgc
  have e2 := h2 gc hgc
  rcases hg gc hgc with h | h
  · rw [h] at e1 e2 ⊢; exact EV.le_trans e1 e2
  · rw [h]; rfl

omit hg in
theorem tDominates_irrefl (a : Nat) : tDominates one cols a a = false := by
  unfold tDominates; cases tLeq one cols a a <;> simp

theorem tDominates_trans {a b c : Nat} (h1 : tDominates one cols a b = true)
    (h2 : tDominates one cols b c = true) : tDominates one cols a c = true := by
  simp only [tDominates, Bool.and_eq_true, Bool.not_eq_true'] at *
  obtain ⟨⟨s1, l1⟩, n1⟩ := h1
  obtain ⟨⟨s2, l2⟩, n2⟩ := h2
  refine ⟨⟨tSame_trans cols s1 s2, tLeq_trans one cols hg l1 l2⟩, ?_⟩
  cases hca : tLeq one cols c a
  · rfl
  · have := tLeq_trans one cols hg hca l1
    rw [n2] at this; exact Bool.noConfusion this

omit hg in
/-- rows equal on all columns are interchangeable. -/
theorem tEqual_subst {a b : Nat} (h : tEqual cols a b = true) (c : Nat) :
    tSame cols a c = tSame cols b c ∧ tLeq one cols a c = tLeq one cols b c ∧
    tLeq one cols c a = tLeq one cols c b ∧ tSame cols c a = tSame cols c b ∧
    tEqual cols c a = tEqual cols c b := by
  have h' := (tEqual_iff cols).mp h
  refine ⟨?_, ?_, ?_, ?_, ?_⟩ <;>
  · first | unfold tSame | unfold tLeq | unfold tEqual
    apply all_congr_mem
    intro gc hgc
    rw [h' gc hgc]

omit hg in
theorem exists_first_equal (j0 : Nat) :
    ∃ j, j ≤ j0 ∧ tEqual cols j j0 = true ∧ ∀ k, k < j → tEqual cols k j = false := by
  induction j0 using Nat.strongRecOn with
  | _ j0 ih =>
    by_cases hex : ∃ k, k < j0 ∧ tEqual cols k j0 = true
    · obtain ⟨k, hk, hkeq⟩ := hex
      obtain ⟨j, hj, hjeq, hfirst⟩ := ih k hk
      refine ⟨j, by omega, ?_, hfirst⟩
      rw [← (tEqual_subst 0 cols hkeq j).2.2.2.2]; exact hjeq
    · refine ⟨j0, Nat.le_refl _, tEqual_refl cols j0, ?_⟩
      intro k hk
      cases h : tEqual cols k j0
      · rfl
      · exact absurd ⟨k, hk, h⟩ hex

omit hg in
theorem tableSpec_getD (n : Nat) {i : Nat} (hi : i < n) :
    (tableSpec one cols n).getD i false =
      (!((List.range n).any fun j => tDominates one cols j i) && !((List.range i).any fun j => tEqual cols j i)) := by
  unfold tableSpec
  rw [getD_map_range _ _ _ hi]

/-- below (or at) every row there is a kept row with the same fused-loop shapes. -/
theorem exists_kept_leq (n : Nat) (i : Nat) (hi : i < n) :
    ∃ j, j < n ∧ (tableSpec one cols n).getD j false = true ∧ tSame cols j i = true ∧
      tLeq one cols j i = true := by
  obtain ⟨t, ht, hmax, hti⟩ := exists_maximal (List.range n) (fun a b => tDominates one cols a b)
    (tDominates_irrefl one cols) (fun a b c => tDominates_trans one cols hg) _ i
    (List.mem_range.mpr hi) (Nat.le_refl _)
  have ht : t < n := List.mem_range.mp ht
  have hst : tSame cols t i = true ∧ tLeq one cols t i = true := by
    rcases hti with rfl | h
    · exact ⟨tSame_refl cols _, tLeq_refl one cols _⟩
    · simp only [tDominates, Bool.and_eq_true] at h; exact ⟨h.1.1, h.1.2⟩
  obtain ⟨j, hjt, hjeq, hfirst⟩ := exists_first_equal cols t
  have hsub := tEqual_subst one cols hjeq
  refine ⟨j, by omega, ?_, ?_, ?_⟩
  · rw [tableSpec_getD one cols n (by omega : j < n)]
    simp only [Bool.and_eq_true, Bool.not_eq_true', List.any_eq_false, List.mem_range]
    refine ⟨?_, fun k hk => by simp [hfirst k hk]⟩
    intro u hu
    have := hmax u (List.mem_range.mpr hu)
    simp only [tDominates] at this ⊢
    rw [(hsub u).2.2.2.1, (hsub u).2.2.1, (hsub u).2.1]
    simpa using this
  · rw [(hsub i).1]; exact hst.1
  · rw [(hsub i).2.1]; exact hst.2

end

/-- **tolerance bound** (abstract slack): prune the table on rounded columns `rc`; if the rounding of every
`min` column satisfies the contract `ρ a ≤ ρ b → within a b`, every row — in particular every dropped row —
has a kept row with identical fused-loop shapes that is within the slack on every objective / reservation
column.  `tri` lists (goal, original column, rounded column). -/
theorem tol_bound_cols (one : Int) (tri : List (Goal × List EV × List EV)) (n : Nat)
    (within : Goal × List EV × List EV → Nat → Nat → Prop)
    (hg : ∀ t ∈ tri, t.1 = Goal.min ∨ t.1 = Goal.diff)
    (hdiff : ∀ t ∈ tri, t.1 = Goal.diff → t.2.2 = t.2.1)
    (hcontract : ∀ t ∈ tri, t.1 = Goal.min → ∀ j i, j < n → i < n →
      EV.le (cell t.2.2 j) (cell t.2.2 i) = true → within t j i)
    (i : Nat) (hi : i < n) :
    ∃ j, j < n ∧ (tableSpec one (tri.map fun t => (t.1, t.2.2)) n).getD j false = true ∧
      (∀ t ∈ tri, t.1 = Goal.diff → cell t.2.1 j = cell t.2.1 i) ∧
      (∀ t ∈ tri, t.1 = Goal.min → within t j i) := by
  have hg' : ∀ gc ∈ tri.map (fun t => (t.1, t.2.2)), gc.1 = Goal.min ∨ gc.1 = Goal.diff := by
    intro gc hgc
    obtain ⟨t, ht, rfl⟩ := List.mem_map.mp hgc
    exact hg t ht
  obtain ⟨j, hj, hkept, hsame, hleq⟩ := exists_kept_leq one _ hg' n i hi
  refine ⟨j, hj, hkept, ?_, ?_⟩
  · intro t ht htd
    simp only [tSame, List.all_eq_true] at hsame
    have := hsame (t.1, t.2.2) (List.mem_map.mpr ⟨t, ht, rfl⟩)
    rw [hdiff t ht htd] at this
    simpa [htd] using this
  · intro t ht htm
    simp only [tLeq, List.all_eq_true] at hleq
    have := hleq (t.1, t.2.2) (List.mem_map.mpr ⟨t, ht, rfl⟩)
    simp only [htm, leqGoal] at this
    exact hcontract t ht htm j i hj hi this

end AFV.Pareto
