import AFV.Lemmas.NestComputes
/-!
# Energy and latency: the model's assembly = the documented rules applied to the rows
-/
namespace AFV.Nest
open AFV.NestExec

/-- Latency of one component: Σ n_calls / throughput over its actions (read; and write unless it is a Toll). -/
def latOf (arch : Arch Rat) (acts : List (Lvl × TId × Rat × Rat)) (l : Lvl) : Rat :=
  let lv := arch.levels.getD l Level.dflt
  let mine := acts.filter (fun a => a.1 == l)
  let reads := (mine.map (fun a => a.2.2.1)).foldr (· + ·) 0
  let writes := (mine.map (fun a => a.2.2.2)).foldr (· + ·) 0
  if lv.isToll then reads / lv.read.throughput else reads / lv.read.throughput + writes / lv.write.throughput

def usedOf (arch : Arch Rat) (acts : List (Lvl × TId × Rat × Rat)) : List Lvl :=
  (List.range arch.levels.length).filter (fun l => acts.any (fun a => a.1 == l))

def latsOf (arch : Arch Rat) (acts : List (Lvl × TId × Rat × Rat)) : List (Lvl × Rat) :=
  (usedOf arch acts).map (fun l => (l, latOf arch acts l))

/-- Overall latency: the maximum over the components (and the compute). -/
def overallOf (arch : Arch Rat) (acts : List (Lvl × TId × Rat × Rat)) (computes : Rat) : Rat :=
  ((latsOf arch acts).map (·.2)).foldl ratMax (computes / arch.compute.throughput)

/-- Dynamic energy: Σ count × per-action energy. -/
def dynOf (arch : Arch Rat) (acts : List (Lvl × TId × Rat × Rat)) (computes : Rat) : Rat :=
  (acts.map (fun (l, _, r, wr) =>
      let lv := arch.levels.getD l Level.dflt
      r * lv.read.energy + wr * lv.write.energy)).foldr (· + ·) 0 + computes * arch.compute.energy

/-- Leak energy: leak power × latency, over all components. -/
def leakOf (arch : Arch Rat) (overall : Rat) : Rat :=
  (arch.levels.map (fun lv => lv.leak * overall)).foldr (· + ·) 0 + arch.compute.leak * overall

/-- The documented rules (as written in `exec`) applied to a list of rows and a compute count. -/
def costsE (arch : Arch Rat) (ni : Rat) (acts : List (Lvl × TId × Rat × Rat)) (computes : Rat) : ExecResult :=
  { actions := acts.map (fun (l, t, r, wr) => (l, t, r * ni, wr * ni))
    computes := computes * ni
    latencies := (latsOf arch acts).map (fun (l, x) => (l, x * ni))
    computeLatency := computes / arch.compute.throughput * ni
    totalLatency := overallOf arch acts computes * ni
    dynamicEnergy := dynOf arch acts computes * ni
    leakEnergy := leakOf arch (overallOf arch acts computes) * ni
    totalEnergy := leakOf arch (overallOf arch acts computes) * ni + dynOf arch acts computes * ni }

theorem exec_eq_costs (arch : Arch Rat) (wq : Workload Rat) (wn : Workload Nat) (m : Mapping Nat) :
    exec arch wq wn m = costsE arch wq.nInstances (rowsE arch wq wn m 0 wn.tensors.length)
      ((execComputes m wn.bounds : Rat) * arch.compute.actionsScale) := by
  have hacts : rowsE arch wq wn m 0 wn.tensors.length
      = ((List.range wn.tensors.length).flatMap (fun t => (holdersOf t m).map (fun l => (l, t)))).map
          (fun (p : Lvl × TId) => rowE arch wq wn m p.2 p.1) := by
    simp only [rowsE, List.map_flatMap, List.map_map, List.range_eq_range', holdersOf_eq]
    rfl
  have hany : ∀ l, ((List.range wn.tensors.length).flatMap (fun t => (holdersOf t m).map (fun l => (l, t)))).any
        (fun p => p.1 == l)
      = (rowsE arch wq wn m 0 wn.tensors.length).any (fun a => a.1 == l) := by
    intro l
    rw [hacts, List.any_map]
    rfl
  unfold exec costsE overallOf latsOf usedOf latOf dynOf leakOf
  simp only [hany]
  rw [hacts]
  rfl

end AFV.Nest
