import AFV.Lemmas.GeomBasic
/-! Extents and bounding box of a box; sets that are their own bounding box. -/
namespace AFV.Geometry

theorem allPos_tail {e : Int × Nat} {b : Box} (h : AllPos (e :: b)) : AllPos b :=
  fun x hx => h x (by simp [hx])

theorem extents_points (b : Box) (h : AllPos b) : extents b.length (points b) = b.map (fun e => e.2) := by
  induction b with
  | nil => rfl
  | cons e b ih =>
    obtain ⟨lo, n⟩ := e
    have hn : 1 ≤ n := h (lo, n) (by simp)
    have hb := points_ne_nil (allPos_tail h)
    simp only [List.length_cons, extents, List.map_cons]
    rw [(extentOf_range _ lo n hn (heads_points lo n b hb)).2]
    rw [extents_congr b.length (tails_points lo n b hn), ih (allPos_tail h)]

theorem bbox_points (b : Box) (h : AllPos b) : bbox b.length (points b) = b := by
  induction b with
  | nil => rfl
  | cons e b ih =>
    obtain ⟨lo, n⟩ := e
    have hn : 1 ≤ n := h (lo, n) (by simp)
    have hb := points_ne_nil (allPos_tail h)
    have hr := extentOf_range _ lo n hn (heads_points lo n b hb)
    simp only [List.length_cons, bbox]
    rw [hr.1, hr.2, bbox_congr b.length (tails_points lo n b hn), ih (allPos_tail h)]

theorem isBox_points (b : Box) (h : AllPos b) : isBox b.length (points b) = true := by
  simp only [isBox, bbox_points b h, List.all_eq_true, decide_eq_true_eq]
  exact fun p hp => hp

/-! ### a set inside its bounding box -/

theorem mem_bbox (d : Nat) (s : List (List Int)) (hlen : ∀ p ∈ s, p.length = d) :
    ∀ p ∈ s, InBox p (bbox d s) := by
  induction d generalizing s with
  | zero =>
    intro p hp
    have := hlen p hp
    cases p with
    | nil => simp [bbox, InBox]
    | cons _ _ => simp at this
  | succ d ih =>
    intro p hp
    have hl := hlen p hp
    cases p with
    | nil => simp at hl
    | cons x q =>
      have hx : x ∈ heads s := mem_heads.mpr ⟨x :: q, hp, rfl⟩
      have hq : q ∈ tails s := mem_tails.mpr ⟨x :: q, hp, rfl⟩
      have htl : ∀ r ∈ tails s, r.length = d := by
        intro r hr
        obtain ⟨p', hp', rfl⟩ := mem_tails.mp hr
        have := hlen p' hp'
        simp [this]
      have h1 := lmin_le hx
      have h2 := le_lmax hx
      refine ⟨h1, ?_, ih (tails s) htl q hq⟩
      simp only [extentOf]
      omega

/-- **A set that is its own bounding box has `∏ (maxᵢ − minᵢ + 1)` points.** -/
theorem card_of_isBox (d : Nat) (s : List (List Int)) (hnd : s.Nodup) (hlen : ∀ p ∈ s, p.length = d)
    (hbox : isBox d s = true) : cardBox d s = s.length := by
  have hsub : ∀ p, p ∈ points (bbox d s) ↔ p ∈ s := by
    intro p
    constructor
    · intro hp
      simp only [isBox, List.all_eq_true, decide_eq_true_eq] at hbox
      exact hbox p hp
    · intro hp; exact mem_points.mpr (mem_bbox d s hlen p hp)
  have hperm : (points (bbox d s)).Perm s :=
    (List.perm_ext_iff_of_nodup (points_nodup _) hnd).mpr hsub
  rw [← hperm.length_eq, points_length, bbox_sizes]
  rfl

theorem isBox_nil (d : Nat) : isBox d [] = false := by
  cases h : isBox d [] with
  | false => rfl
  | true =>
    simp only [isBox, List.all_eq_true, decide_eq_true_eq] at h
    have hpos : AllPos (bbox d []) := by
      intro e he
      have : e.2 ∈ (bbox d []).map (fun e => e.2) := List.mem_map.mpr ⟨e, he, rfl⟩
      rw [bbox_sizes] at this
      clear he h
      generalize ([] : List (List Int)) = s at this
      induction d generalizing s with
      | zero => simp [extents] at this
      | succ d ih =>
        simp only [extents, List.mem_cons] at this
        rcases this with h | h
        · rw [h]; simp [extentOf]
        · exact ih _ h
    obtain ⟨q, hq⟩ := List.exists_mem_of_ne_nil _ (points_ne_nil hpos)
    exact absurd (h q hq) (by simp)

/-! ### dedup, inter -/

theorem mem_dedup {α} [DecidableEq α] {l : List α} {x : α} : x ∈ dedup l ↔ x ∈ l := by
  induction l with
  | nil => simp [dedup]
  | cons y ys ih =>
    simp only [dedup]
    split
    · rename_i hy
      simp only [List.mem_cons, ih]
      constructor
      · exact Or.inr
      · rintro (rfl | h)
        · exact ih.mp hy
        · exact h
    · simp [ih]

theorem dedup_nodup {α} [DecidableEq α] (l : List α) : (dedup l).Nodup := by
  induction l with
  | nil => simp [dedup]
  | cons y ys ih =>
    simp only [dedup]
    split
    · exact ih
    · rename_i hy
      exact List.nodup_cons.mpr ⟨hy, ih⟩

theorem inter_nodup {α} [DecidableEq α] {s : List α} (t : List α) (h : s.Nodup) : (inter s t).Nodup :=
  List.Pairwise.filter _ h

theorem mem_inter {α} [DecidableEq α] {s t : List α} {x : α} : x ∈ inter s t ↔ x ∈ s ∧ x ∈ t := by
  simp [inter]

theorem foldl_inter_nodup {α} [DecidableEq α] (rest : List (List α)) (s : List α) (h : s.Nodup) :
    (rest.foldl inter s).Nodup := by
  induction rest generalizing s with
  | nil => exact h
  | cons t ts ih => exact ih _ (inter_nodup t h)

theorem foldl_inter_subset {α} [DecidableEq α] (rest : List (List α)) (s : List α) :
    ∀ x ∈ rest.foldl inter s, x ∈ s := by
  induction rest generalizing s with
  | nil => exact fun x hx => hx
  | cons t ts ih => exact fun x hx => (mem_inter.mp (ih _ x hx)).1

theorem mem_foldl_inter {α} [DecidableEq α] (rest : List (List α)) (s : List α) (x : α) :
    x ∈ rest.foldl inter s ↔ x ∈ s ∧ ∀ t ∈ rest, x ∈ t := by
  induction rest generalizing s with
  | nil => simp
  | cons t ts ih =>
    simp only [List.foldl_cons, ih, mem_inter, List.mem_cons, forall_eq_or_imp]
    constructor
    · rintro ⟨⟨a, b⟩, c⟩; exact ⟨a, b, c⟩
    · rintro ⟨a, b, c⟩; exact ⟨⟨a, b⟩, c⟩

theorem image_length (ps : List Aff) (b : Box) : ∀ q ∈ image ps b, q.length = ps.length := by
  intro q hq
  simp only [image, mem_dedup, List.mem_map] at hq
  obtain ⟨x, _, rfl⟩ := hq
  simp

theorem mem_image {ps : List Aff} {b : Box} {q : List Int} :
    q ∈ image ps b ↔ ∃ x, InBox x b ∧ q = ps.map (fun p => p.eval x) := by
  simp only [image, mem_dedup, List.mem_map, mem_points]
  constructor
  · rintro ⟨x, hx, rfl⟩; exact ⟨x, hx, rfl⟩
  · rintro ⟨x, hx, rfl⟩; exact ⟨x, hx, rfl⟩

end AFV.Geometry
