import AFV.Lemmas.SearchStaged
/-!
# `multi_strategy_join`: rounds, the `finished` capacity rule, retries

`StagedHyp` collects every hypothesis used (nothing else is assumed):

* `rmono`, `capClosed`      — reservation algebra monotone; joined profile within a capacity ⇒ left part was;
* `maySound`                — the lookahead test is a necessary condition for joinability;
* `good`                    — every input row has `n` objective columns, all **non-negative**;
* `metricLen`, `mpos`, `metricMono` — the metric map (`_apply_edp_columns`) yields `m > 0` columns and is
                              monotone on non-negative vectors (true for the identity and for `E·L`);
* `resFinMono`, `resFinFits`— the final reservation-column merge is monotone and does not change the
                              "within capacity" verdict (true for column-wise `max`);
* `resLB`                   — only when `RESOURCE_USAGE` is requested: kept reservation columns of a part
                              are a lower bound of those of a combination;
* `dirtySub`, `pickSub`     — dirty pruning returns rows of its input; thresholds are rows of the dirty result.
-/
set_option linter.unusedSectionVars false

namespace AFV.Search
open AFV.Front

variable {K : Type} [DecidableEq K]

/-! ## Vector helpers -/

theorem leqAll_append : ∀ {a c b d : Vec}, leqAll a c = true → leqAll b d = true →
    leqAll (a ++ b) (c ++ d) = true
  | [], [], _, _, _, h => by simpa using h
  | [], _ :: _, _, _, h, _ => by simp [leqAll] at h
  | _ :: _, [], _, _, h, _ => by simp [leqAll] at h
  | x :: xs, y :: ys, b, d, h₁, h₂ => by
    simp only [leqAll, Bool.and_eq_true, decide_eq_true_eq] at h₁
    simp only [List.cons_append, leqAll, Bool.and_eq_true, decide_eq_true_eq]
    exact ⟨h₁.1, leqAll_append h₁.2 h₂⟩

theorem leqAll_take : ∀ (m : Nat) {a b : Vec}, leqAll a b = true →
    leqAll (a.take m) (b.take m) = true
  | 0, _, _, _ => by simp [leqAll]
  | _ + 1, [], [], _ => by simp [leqAll]
  | _ + 1, [], _ :: _, h => by simp [leqAll] at h
  | _ + 1, _ :: _, [], h => by simp [leqAll] at h
  | m + 1, x :: xs, y :: ys, h => by
    simp only [leqAll, Bool.and_eq_true, decide_eq_true_eq] at h
    simp only [List.take_succ_cons, leqAll, Bool.and_eq_true, decide_eq_true_eq]
    exact ⟨h.1, leqAll_take m h.2⟩

/-- Objectives have `n` columns and are non-negative. -/
def GoodObj (n : Nat) (c : Cand K) : Prop := c.obj.length = n ∧ ∀ x ∈ c.obj, 0 ≤ x

instance (n : Nat) (c : Cand K) : Decidable (GoodObj n c) := by
  unfold GoodObj; exact inferInstance

theorem addv_nonneg : ∀ {a b : Vec}, (∀ x ∈ a, 0 ≤ x) → (∀ x ∈ b, 0 ≤ x) → ∀ z ∈ addv a b, 0 ≤ z
  | [], _, _, _ => by simp [addv]
  | _ :: _, [], _, _ => by simp [addv]
  | x :: xs, y :: ys, ha, hb => by
    intro z hz
    simp only [addv, List.zipWith_cons_cons, List.mem_cons] at hz
    rcases hz with rfl | hz
    · have := ha x (by simp); have := hb y (by simp); omega
    · exact addv_nonneg (fun u hu => ha u (List.mem_cons_of_mem _ hu))
        (fun u hu => hb u (List.mem_cons_of_mem _ hu)) z hz

theorem addv_length {a b : Vec} (h : a.length = b.length) : (addv a b).length = a.length := by
  simp [addv, h]

theorem leqAll_addv_left : ∀ {a b : Vec}, a.length = b.length → (∀ x ∈ b, 0 ≤ x) →
    leqAll a (addv a b) = true
  | [], [], _, _ => by simp [addv, leqAll]
  | [], _ :: _, h, _ => by simp at h
  | _ :: _, [], h, _ => by simp at h
  | x :: xs, y :: ys, h, hb => by
    simp only [addv, List.zipWith_cons_cons, leqAll, Bool.and_eq_true, decide_eq_true_eq]
    refine ⟨by have := hb y (by simp); omega, ?_⟩
    exact leqAll_addv_left (by simpa using h) (fun u hu => hb u (List.mem_cons_of_mem _ hu))

theorem leqAll_addv_right : ∀ {a b : Vec}, a.length = b.length → (∀ x ∈ a, 0 ≤ x) →
    leqAll b (addv a b) = true
  | [], [], _, _ => by simp [addv, leqAll]
  | [], _ :: _, h, _ => by simp at h
  | _ :: _, [], h, _ => by simp at h
  | x :: xs, y :: ys, h, ha => by
    simp only [addv, List.zipWith_cons_cons, leqAll, Bool.and_eq_true, decide_eq_true_eq]
    refine ⟨by have := ha x (by simp); omega, ?_⟩
    exact leqAll_addv_right (by simpa using h) (fun u hu => ha u (List.mem_cons_of_mem _ hu))

theorem closed_goodObj (ops : Ops K) (n : Nat) : Closed ops (GoodObj n) := by
  intro a b c ha hb hc
  obtain ⟨k, _, rfl⟩ := combine_eq_some.1 hc
  exact ⟨by rw [addv_length (ha.1.trans hb.1.symm)]; exact ha.1, addv_nonneg ha.2 hb.2⟩

/-! ## Hypotheses of the staged join -/

structure StagedHyp (cfg : Cfg K) (n : Nat) (tables : List (List (Cand K))) : Prop where
  rmono : RMono cfg.ops
  capClosed : CapClosed cfg.ops
  maySound : MaySound cfg.ops cfg.may
  good : ∀ T ∈ tables, ∀ c ∈ T, GoodObj n c
  metricLen : ∀ v, (cfg.metric v).length = cfg.m
  mpos : 0 < cfg.m
  metricMono : ∀ a b, (∀ x ∈ a, 0 ≤ x) → leqAll a b = true →
    leqAll (cfg.metric a) (cfg.metric b) = true
  resFinMono : ∀ r s, leqAll r s = true → leqAll (cfg.resFin r) (cfg.resFin s) = true
  resFinFits : ∀ r, fits cfg.cap (cfg.resFin r) = fits cfg.cap r
  resLB : cfg.dropRes = false → ∀ k l r s,
    leqAll (cfg.resFin r) (cfg.resFin (cfg.ops.rjoin k l r s)) = true ∧
    leqAll (cfg.resFin s) (cfg.resFin (cfg.ops.rjoin k l r s)) = true
  dirtySub : ∀ T, ∀ c ∈ cfg.dirty T, c ∈ T
  pickSub : ∀ l, ∀ v ∈ cfg.pick l, v ∈ l

section
variable {cfg : Cfg K} {n : Nat} {tables : List (List (Cand K))}

theorem finV_mono (h : StagedHyp cfg n tables) (b : Bool) {y y' : Row}
    (hy : ∀ x ∈ y.obj, 0 ≤ x) (hle : rle y y' = true) :
    leqAll (finV cfg b y) (finV cfg b y') = true := by
  obtain ⟨ho, hr⟩ := rle_iff.1 hle
  unfold finV
  apply leqAll_append (h.metricMono _ _ hy ho)
  cases b
  · simp [leqAll]
  · simpa using h.resFinMono _ _ hr

theorem cvOf_monoOn (h : StagedHyp cfg n tables) : CvMonoOn (GoodObj n) (cvOf cfg) := by
  intro a b ha _ hle
  obtain ⟨_, ho, hr⟩ := cle_iff.1 hle
  exact finV_mono h _ ha.2 (rle_iff.2 ⟨ho, hr⟩)

theorem cvOf_ne_nil (h : StagedHyp cfg n tables) (c : Cand K) : cvOf cfg c ≠ [] := by
  intro hnil
  have : (cvOf cfg c).length = 0 := by rw [hnil]; rfl
  simp only [cvOf, finV, List.length_append, h.metricLen] at this
  have := h.mpos
  omega

theorem cvOf_lowerBound (h : StagedHyp cfg n tables) :
    LowerBound cfg.ops (GoodObj n) (cvOf cfg) := by
  intro a b c ha hb hc
  obtain ⟨k, _, rfl⟩ := combine_eq_some.1 hc
  have hlen : a.obj.length = b.obj.length := ha.1.trans hb.1.symm
  simp only [cvOf, finV, Cand.row]
  constructor
  · apply leqAll_append (h.metricMono _ _ ha.2 (leqAll_addv_left hlen hb.2))
    cases hd : cfg.dropRes
    · simpa using (h.resLB hd _ _ _ _).1
    · simp [leqAll]
  · apply leqAll_append (h.metricMono _ _ hb.2 (leqAll_addv_right hlen ha.2))
    cases hd : cfg.dropRes
    · simpa using (h.resLB hd _ _ _ _).2
    · simp [leqAll]

theorem stageFilters_downClosedOn (h : StagedHyp cfg n tables) (capi : Int) (T : List Vec) :
    (stageFilters capi (cvOf cfg) T cfg.may).DownClosedOn (GoodObj n) := by
  rw [stageFilters_eq]
  exact withLook_downClosedOn
    (withThr_downClosedOn (capFilter_downClosedOn _ capi) (cvOf_monoOn h) T) _

theorem stageFilters_le_cap (capi : Int) (cv : Cand K → Vec) (T : List Vec) (may : K → K → Bool) :
    (stageFilters capi cv T may).le (capFilter capi) := by
  rw [stageFilters_eq]
  have h₁ := withLook_le ((capFilter capi).withThr cv T) may
  have h₂ := withThr_le (capFilter capi : Filters K) cv T
  exact ⟨fun c hc => h₂.1 c (h₁.1 c hc), fun r c hc => h₂.2 r c (h₁.2 r c hc)⟩

theorem validCombos_mono_cap (ops : Ops K) {c c' : Int} (hcc : c ≤ c')
    (tables : List (List (Cand K))) {s : Cand K} (hs : s ∈ validCombos ops c tables) :
    s ∈ validCombos ops c' tables := by
  simp only [validCombos, List.mem_filter] at hs ⊢
  exact ⟨hs.1, fits_mono_cap hcc hs.2⟩

theorem mem_validCombos_of_fits (ops : Ops K) {c c' : Int} (tables : List (List (Cand K)))
    {s : Cand K} (hs : s ∈ validCombos ops c' tables) (hf : fits c s.res = true) :
    s ∈ validCombos ops c tables := by
  simp only [validCombos, List.mem_filter] at hs ⊢
  exact ⟨hs.1, hf⟩

theorem good_validCombos (h : StagedHyp cfg n tables) {c : Int} {s : Cand K}
    (hs : s ∈ validCombos cfg.ops c tables) : GoodObj n s := by
  have h1 : s ∈ allCombos cfg.ops tables := (List.mem_filter.1 hs).1
  exact good_surv (closed_goodObj cfg.ops n) h.good ((surv_noFilter cfg.ops tables s).2 h1)

/-- What the accelerated join of one round holds before `finish`: its within-capacity rows are valid
combinations for the round's capacity, and they cover all of those on the compared columns. -/
theorem round_core (h : StagedHyp cfg n tables) (capi : Int) (T : List Vec)
    (hT : ∀ t ∈ T, ∃ s ∈ surv cfg.ops (capFilter capi) tables,
      fitsC capi s = true ∧ leqAll (cvOf cfg s) t = true) :
    (∀ x ∈ (pipe cfg.ops (stageFilters capi (cvOf cfg) T cfg.may) tables).filter (fitsC capi),
        x ∈ validCombos cfg.ops capi tables) ∧
    (∀ r ∈ validCombos cfg.ops capi tables,
        ∃ x ∈ (pipe cfg.ops (stageFilters capi (cvOf cfg) T cfg.may) tables).filter (fitsC capi),
          leqAll (cvOf cfg x) (cvOf cfg r) = true) := by
  have hG := closed_goodObj cfg.ops n
  have hcov := cov_pipe_on h.rmono hG (stageFilters_downClosedOn h capi T) tables h.good
  constructor
  · intro x hx
    rw [List.mem_filter] at hx
    have h1 := surv_mono (stageFilters_le_cap capi (cvOf cfg) T cfg.may) (hcov.sub x hx.1)
    exact (surv_capFilter cfg.ops h.capClosed capi tables x).1 (List.mem_filter.2 ⟨h1, hx.2⟩)
  · intro r hr
    have hr' := (surv_capFilter cfg.ops h.capClosed capi tables r).2 hr
    rw [List.mem_filter] at hr'
    obtain ⟨s', hs', hPs', hle⟩ :=
      (thresholder_sound hG (cvOf_lowerBound h) (cvOf_ne_nil h) (capFilter capi) T
        (fun s => fitsC capi s = true) tables h.good hT).2 r hr'.1 hr'.2
    have hs'' : s' ∈ surv cfg.ops (stageFilters capi (cvOf cfg) T cfg.may) tables := by
      rw [stageFilters_eq]
      exact (lookahead_sound h.maySound _ tables s').2 hs'
    obtain ⟨x, hx, hxs⟩ := hcov.cov s' hs''
    have hGx : GoodObj n x := good_surv hG h.good (hcov.sub x hx)
    have hGs : GoodObj n s' := good_surv hG h.good hs''
    exact ⟨x, List.mem_filter.2 ⟨hx, fitsC_down capi x s' hxs hPs'⟩,
      leqAll_trans _ _ _ (cvOf_monoOn h x s' hGx hGs hxs) hle⟩

/-- The thresholds produced by the dirty join of a round are achievable in the round's own search. -/
theorem dirty_thresholds_ok (h : StagedHyp cfg n tables) (capi : Int) :
    ∀ t ∈ cfg.pick (((pipe cfg.ops (stageFilters capi (cvOf cfg) [] cfg.may)
        (tables.map cfg.dirty)).filter (fitsC capi)).map (cvOf cfg)),
      ∃ s ∈ surv cfg.ops (capFilter capi) tables,
        fitsC capi s = true ∧ leqAll (cvOf cfg s) t = true := by
  intro t ht
  have ht' := h.pickSub _ t ht
  obtain ⟨x, hx, rfl⟩ := List.mem_map.1 ht'
  rw [List.mem_filter] at hx
  have hgood' : ∀ T ∈ tables.map cfg.dirty, ∀ c ∈ T, GoodObj n c := by
    intro T hT c hc
    obtain ⟨T₀, hT₀, rfl⟩ := List.mem_map.1 hT
    exact h.good T₀ hT₀ c (h.dirtySub T₀ c hc)
  have hG := closed_goodObj cfg.ops n
  have h' : StagedHyp cfg n (tables.map cfg.dirty) := { h with good := hgood' }
  have hcov := cov_pipe_on h.rmono hG (stageFilters_downClosedOn h' capi [])
    (tables.map cfg.dirty) hgood'
  have h1 := surv_mono (stageFilters_le_cap capi (cvOf cfg) [] cfg.may) (hcov.sub x hx.1)
  have h2 := surv_subtables (F := capFilter capi) (fun _ _ _ hk => hk)
    (subTables_map h.dirtySub tables) h1
  exact ⟨x, h2, hx.2, leqAll_refl _⟩

/-! ## `finish` -/

theorem finV_false_eq (cfg : Cfg K) (y : Row) : finV cfg false y = cfg.metric y.obj := by
  simp [finV]

theorem take_finV_true (h : StagedHyp cfg n tables) (y : Row) :
    (finV cfg true y).take cfg.m = finV cfg false y := by
  rw [finV_false_eq]
  simp only [finV, if_true]
  exact List.take_left' (h.metricLen _)

theorem drop_finV_true (h : StagedHyp cfg n tables) (y : Row) :
    (finV cfg true y).drop cfg.m = cfg.resFin y.res := by
  simp only [finV, if_true]
  exact List.drop_left' (h.metricLen _)

/-- Correctness statement for an accepted round. -/
def RoundOK (cfg : Cfg K) (tables : List (List (Cand K))) (out : RoundOut) : Prop :=
  (out.retained = false → out.rows = joinExactV cfg tables ∧
    ∀ v ∈ out.rows, ∃ s ∈ validCombos cfg.ops cfg.cap tables, v = cvOf cfg s) ∧
  (out.retained = true → cfg.dropRes = true ∧
    front (out.rows.map (List.take cfg.m)) = joinExactV cfg tables ∧
    ∀ v ∈ out.rows, ∃ s ∈ validCombos cfg.ops cfg.cap tables, v = finV cfg true s.row)

theorem finish_spec (h : StagedHyp cfg n tables) (capi : Int) (hcap : cfg.cap ≤ capi)
    (hdr : cfg.dropRes = false → capi = cfg.cap) (rows : List (Cand K))
    (hA : ∀ x ∈ rows.filter (fitsC capi), x ∈ validCombos cfg.ops capi tables)
    (hB : ∀ r ∈ validCombos cfg.ops capi tables, ∃ x ∈ rows.filter (fitsC capi),
      leqAll (cvOf cfg x) (cvOf cfg r) = true) :
    ((finish cfg capi rows).accepted = true → RoundOK cfg tables (finish cfg capi rows)) ∧
    (capi = cfg.cap → (finish cfg capi rows).accepted = true ∧
      (finish cfg capi rows).retained = false) ∧
    ((∀ r ∈ validCombos cfg.ops capi tables, fits cfg.cap r.res = true) →
      (finish cfg capi rows).accepted = true ∧ (finish cfg capi rows).retained = false) := by
  -- the rows after concatenation, pruning and the `finished` capacity filter
  let r2 := (pruneRows (rows.map Cand.row)).filter (fun r => fits capi r.res)
  have hr2 : ∀ y ∈ r2, ∃ r ∈ validCombos cfg.ops capi tables, r.row = y := by
    intro y hy
    have hy' := List.mem_filter.1 hy
    obtain ⟨x, hx, hxy⟩ := List.mem_map.1 (frontL_subset hy'.1)
    refine ⟨x, hA x (List.mem_filter.2 ⟨hx, ?_⟩), hxy⟩
    show fits capi x.res = true
    have : x.res = y.res := by rw [← hxy]; rfl
    rw [this]; exact hy'.2
  have hr2cov : ∀ r ∈ validCombos cfg.ops capi tables, ∃ y ∈ r2,
      leqAll (finV cfg (!cfg.dropRes) y) (cvOf cfg r) = true := by
    intro r hr
    obtain ⟨x, hx, hxr⟩ := hB r hr
    have hx' := List.mem_filter.1 hx
    obtain ⟨y, hy, hyx⟩ := frontL_complete rle_po (List.mem_map.2 ⟨x, hx'.1, rfl⟩)
    have hyfit : fits capi y.res = true := fits_of_leqAll (rle_iff.1 hyx).2 (show fits capi (Cand.row x).res = true from hx'.2)
    have hy2 : y ∈ r2 := List.mem_filter.2 ⟨hy, hyfit⟩
    obtain ⟨ry, hry, hryy⟩ := hr2 y hy2
    have hgood : ∀ u ∈ y.obj, 0 ≤ u := by
      rw [← hryy]; exact (good_validCombos h hry).2
    exact ⟨y, hy2, leqAll_trans _ _ _ (finV_mono h _ hgood hyx) hxr⟩
  have hVsub : ∀ s ∈ validCombos cfg.ops cfg.cap tables, s ∈ validCombos cfg.ops capi tables :=
    fun s hs => validCombos_mono_cap cfg.ops hcap tables hs
  -- the generic covering argument, for rows all of which are within `cap`
  have hcover : (∀ y ∈ r2, fits cfg.cap y.res = true) →
      front (r2.map (finV cfg (!cfg.dropRes))) = joinExactV cfg tables ∧
      ∀ v ∈ front (r2.map (finV cfg (!cfg.dropRes))),
        ∃ s ∈ validCombos cfg.ops cfg.cap tables, v = cvOf cfg s := by
    intro hall
    have hsub : ∀ v ∈ r2.map (finV cfg (!cfg.dropRes)),
        ∃ s ∈ validCombos cfg.ops cfg.cap tables, v = cvOf cfg s := by
      intro v hv
      obtain ⟨y, hy, rfl⟩ := List.mem_map.1 hv
      obtain ⟨r, hr, hry⟩ := hr2 y hy
      refine ⟨r, mem_validCombos_of_fits cfg.ops tables hr ?_, by rw [cvOf, hry]⟩
      have : r.res = y.res := by rw [← hry]; rfl
      rw [this]; exact hall y hy
    refine ⟨?_, fun v hv => hsub v (front_subset hv)⟩
    apply front_eq_of_cover
    refine ⟨fun v hv => ?_, fun v hv => ?_⟩
    · obtain ⟨s, hs, rfl⟩ := hsub v hv
      exact List.mem_map.2 ⟨s, hs, rfl⟩
    · obtain ⟨s, hs, rfl⟩ := List.mem_map.1 hv
      obtain ⟨y, hy, hle⟩ := hr2cov s (hVsub s hs)
      exact ⟨_, List.mem_map.2 ⟨y, hy, rfl⟩, hle⟩
  have hall_of_eq : capi = cfg.cap → ∀ y ∈ r2, fits cfg.cap y.res = true := by
    intro he y hy
    rw [← he]; exact (List.mem_filter.1 hy).2
  have hall_of_nogap : (∀ r ∈ validCombos cfg.ops capi tables, fits cfg.cap r.res = true) →
      ∀ y ∈ r2, fits cfg.cap y.res = true := by
    intro hng y hy
    obtain ⟨r, hr, hry⟩ := hr2 y hy
    have : r.res = y.res := by rw [← hry]; rfl
    rw [← this]; exact hng r hr
  -- now split as `finish` does
  have hfin : finish cfg capi rows =
      if (cfg.dropRes && (decide (capi = cfg.cap) || r2.all (fun r => fits cfg.cap r.res))) = true
      then ⟨front (r2.map (finV cfg false)), true, false⟩
      else ⟨front (r2.map (finV cfg true)),
        !cfg.dropRes || (front (r2.map (finV cfg true))).all (fun v => fits cfg.cap (v.drop cfg.m)),
        cfg.dropRes⟩ := rfl
  rw [hfin]
  by_cases hcond : (cfg.dropRes && (decide (capi = cfg.cap) ||
      r2.all (fun r => fits cfg.cap r.res))) = true
  · -- reservation columns dropped
    rw [if_pos hcond]
    simp only [Bool.and_eq_true, Bool.or_eq_true, decide_eq_true_eq, List.all_eq_true] at hcond
    obtain ⟨hd, hcond⟩ := hcond
    have hall : ∀ y ∈ r2, fits cfg.cap y.res = true := by
      rcases hcond with he | hall
      · exact hall_of_eq he
      · exact hall
    have hc := hcover hall
    rw [hd] at hc
    exact ⟨fun _ => ⟨fun _ => hc, fun hcontra => by simp at hcontra⟩, fun _ => ⟨rfl, rfl⟩,
      fun _ => ⟨rfl, rfl⟩⟩
  · rw [if_neg hcond]
    cases hd : cfg.dropRes with
    | false =>
      -- `RESOURCE_USAGE` requested: one exact round, columns kept, always accepted
      have hce := hdr hd
      have hc := hcover (hall_of_eq hce)
      rw [hd] at hc
      exact ⟨fun _ => ⟨fun _ => hc, fun hcontra => by simp at hcontra⟩, fun _ => ⟨rfl, rfl⟩,
        fun _ => ⟨rfl, rfl⟩⟩
    | true =>
      -- reservation columns retained although `RESOURCE_USAGE` was not requested
      rw [hd] at hcond
      simp only [Bool.true_and, Bool.or_eq_true, decide_eq_true_eq, List.all_eq_true, not_or]
        at hcond
      refine ⟨fun hacc => ⟨fun hcontra => by simp at hcontra, fun _ => ⟨hd, ?_, ?_⟩⟩,
        fun he => absurd he hcond.1, fun hng => absurd (hall_of_nogap hng) hcond.2⟩
      · -- objective part of the returned front = exact objective front
        simp only [Bool.not_true, Bool.false_or, List.all_eq_true] at hacc
        apply front_eq_of_cover
        refine ⟨fun w hw => ?_, fun w hw => ?_⟩
        · obtain ⟨v, hv, rfl⟩ := List.mem_map.1 hw
          obtain ⟨y, hy, rfl⟩ := List.mem_map.1 (front_subset hv)
          obtain ⟨r, hr, hry⟩ := hr2 y hy
          have hfit : fits cfg.cap r.res = true := by
            have := hacc _ hv
            rw [drop_finV_true h, h.resFinFits] at this
            have hres : r.res = y.res := by rw [← hry]; rfl
            rw [hres]; exact this
          refine List.mem_map.2 ⟨r, mem_validCombos_of_fits cfg.ops tables hr hfit, ?_⟩
          rw [take_finV_true h, cvOf, hd, hry]; rfl
        · obtain ⟨s, hs, rfl⟩ := List.mem_map.1 hw
          obtain ⟨y, hy, hle⟩ := hr2cov s (hVsub s hs)
          rw [hd] at hle
          obtain ⟨v, hv, hvy⟩ := front_complete (List.mem_map.2 ⟨y, hy, rfl⟩ :
            finV cfg true y ∈ r2.map (finV cfg true))
          refine ⟨v.take cfg.m, List.mem_map.2 ⟨v, hv, rfl⟩, ?_⟩
          have := leqAll_take cfg.m hvy
          rw [take_finV_true h] at this
          exact leqAll_trans _ _ _ this hle
      · intro v hv
        simp only [Bool.not_true, Bool.false_or, List.all_eq_true] at hacc
        obtain ⟨y, hy, rfl⟩ := List.mem_map.1 (front_subset hv)
        obtain ⟨r, hr, hry⟩ := hr2 y hy
        have hfit : fits cfg.cap r.res = true := by
          have := hacc _ hv
          rw [drop_finV_true h, h.resFinFits] at this
          have hres : r.res = y.res := by rw [← hry]; rfl
          rw [hres]; exact this
        exact ⟨r, mem_validCombos_of_fits cfg.ops tables hr hfit, by rw [hry]⟩

/-! ## Rounds and the retry loop -/

theorem round_spec (h : StagedHyp cfg n tables) (capi : Int) (hcap : cfg.cap ≤ capi)
    (hdr : cfg.dropRes = false → capi = cfg.cap) :
    ((round cfg capi tables).accepted = true → RoundOK cfg tables (round cfg capi tables)) ∧
    (capi = cfg.cap → (round cfg capi tables).accepted = true ∧
      (round cfg capi tables).retained = false) ∧
    ((∀ r ∈ validCombos cfg.ops capi tables, fits cfg.cap r.res = true) →
      (round cfg capi tables).accepted = true ∧ (round cfg capi tables).retained = false) := by
  unfold round
  have hcore := round_core h capi _ (dirty_thresholds_ok h capi)
  exact finish_spec h capi hcap hdr _ hcore.1 hcore.2

/-- **`excess_retry_sound`.** Whatever relaxed capacities are tried first (each at least the true
capacity), the retry loop ends with an accepted round that is correct in the sense of `RoundOK`. -/
theorem stagedLoop_spec (h : StagedHyp cfg n tables) (hd : cfg.dropRes = true) :
    ∀ caps : List Int, (∀ c ∈ caps, cfg.cap ≤ c) → RoundOK cfg tables (stagedLoop cfg tables caps)
  | [], _ => by
    have := round_spec h cfg.cap (Int.le_refl _) (fun _ => rfl)
    exact this.1 (this.2.1 rfl).1
  | c :: cs, hc => by
    unfold stagedLoop
    have hcc := hc c (List.mem_cons_self)
    by_cases hacc : (round cfg c tables).accepted = true
    · simp only [hacc, if_true]
      exact (round_spec h c hcc (fun hf => by rw [hd] at hf; cases hf)).1 hacc
    · simp only [hacc]
      exact stagedLoop_spec h hd cs (fun c' hc' => hc c' (List.mem_cons_of_mem _ hc'))

theorem staged_spec (h : StagedHyp cfg n tables) (caps : List Int)
    (hcaps : ∀ c ∈ caps, cfg.cap ≤ c) : RoundOK cfg tables (staged cfg caps tables) := by
  unfold staged
  cases hd : cfg.dropRes with
  | true => simpa using stagedLoop_spec h hd caps hcaps
  | false =>
    have := round_spec h cfg.cap (Int.le_refl _) (fun _ => rfl)
    simpa [stagedLoop] using this.1 (this.2.1 rfl).1

/-- The objective columns of the returned rows. -/
def objPart (cfg : Cfg K) (out : RoundOut) : List Vec :=
  if out.retained then out.rows.map (List.take cfg.m) else out.rows

/-- The objective part of what the staged join returns always has the exact front. -/
theorem staged_objPart_front (h : StagedHyp cfg n tables) (caps : List Int)
    (hcaps : ∀ c ∈ caps, cfg.cap ≤ c) :
    front (objPart cfg (staged cfg caps tables)) = joinExactV cfg tables := by
  have hs := staged_spec h caps hcaps
  unfold objPart
  cases hret : (staged cfg caps tables).retained with
  | false =>
    simp only [Bool.false_eq_true, if_false]
    rw [(hs.1 hret).1]
    exact front_idem _
  | true =>
    simp only [if_true]
    exact (hs.2 hret).2.1

/-- If no combination lies in a gap `(cap, capᵢ]`, the reservation columns are never retained. -/
theorem stagedLoop_noGap (h : StagedHyp cfg n tables) (hd : cfg.dropRes = true) :
    ∀ caps : List Int, (∀ c ∈ caps, cfg.cap ≤ c) →
      (∀ c ∈ caps, ∀ r ∈ validCombos cfg.ops c tables, fits cfg.cap r.res = true) →
      (stagedLoop cfg tables caps).retained = false
  | [], _, _ => ((round_spec h cfg.cap (Int.le_refl _) (fun _ => rfl)).2.1 rfl).2
  | c :: cs, hc, hng => by
    unfold stagedLoop
    have hr := (round_spec h c (hc c (List.mem_cons_self))
      (fun hf => by rw [hd] at hf; cases hf)).2.2 (hng c (List.mem_cons_self))
    simp only [hr.1, if_true]
    exact hr.2

end
end AFV.Search
