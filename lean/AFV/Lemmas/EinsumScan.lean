import AFV.Lemmas.EinsumChar
/-! Scanner / split / join lemmas for the C23 proofs. -/
namespace AFV.EinsumStr

/-! ### takeWhile / dropWhile -/

theorem dropWhile_all_append {p : Char → Bool} (l : Str) (a : Char) (r : Str)
    (hl : ∀ x ∈ l, p x = true) (ha : p a = false) : (l ++ a :: r).dropWhile p = a :: r := by
  induction l with
  | nil => simp [ha]
  | cons x xs ih =>
    have hx : p x = true := hl x (by simp)
    simp only [List.cons_append, List.dropWhile_cons, hx, if_true]
    exact ih (fun y hy => hl y (by simp [hy]))

theorem takeWhile_all_append {p : Char → Bool} (l : Str) (a : Char) (r : Str)
    (hl : ∀ x ∈ l, p x = true) (ha : p a = false) : (l ++ a :: r).takeWhile p = l := by
  induction l with
  | nil => simp [ha]
  | cons x xs ih =>
    have hx : p x = true := hl x (by simp)
    simp only [List.cons_append, List.takeWhile_cons, hx, if_true]
    rw [ih (fun y hy => hl y (by simp [hy]))]

theorem dropWhile_head_false {p : Char → Bool} (l : Str) (a : Char) (r : Str)
    (h : l.dropWhile p = a :: r) : p a = false := by
  induction l with
  | nil => simp at h
  | cons x xs ih =>
    simp only [List.dropWhile_cons] at h
    split at h
    · exact ih h
    · rename_i hx
      simp only [List.cons.injEq] at h
      rw [← h.1]; simpa using hx

theorem takeWhile_all {p : Char → Bool} (l : Str) : ∀ x ∈ l.takeWhile p, p x = true := by
  induction l with
  | nil => simp
  | cons y ys ih =>
    intro x hx
    simp only [List.takeWhile_cons] at hx
    split at hx
    · rename_i hy
      simp only [List.mem_cons] at hx
      rcases hx with rfl | hx
      · exact hy
      · exact ih x hx
    · simp at hx

/-! ### names -/

/-- `[A-Za-z_]\w*` -/
def validName : Str → Bool
  | [] => false
  | c :: cs => isNameStart c && cs.all isWord

theorem validName_all_word {n : Str} (h : validName n = true) : ∀ x ∈ n, isWord x = true := by
  cases n with
  | nil => simp [validName] at h
  | cons c cs =>
    simp only [validName, Bool.and_eq_true, List.all_eq_true] at h
    intro x hx
    simp only [List.mem_cons] at hx
    rcases hx with rfl | hx
    · exact nameStart_isWord _ h.1
    · exact h.2 x hx

/-! ### matchRef -/

theorem matchRef_print (n p rest : Str) (hn : validName n = true) (hp : ∀ x ∈ p, x ≠ ']') :
    matchRef (printRef (n, p) ++ rest) = some (n, p, rest) := by
  cases n with
  | nil => simp [validName] at hn
  | cons c cs =>
    simp only [validName, Bool.and_eq_true, List.all_eq_true] at hn
    obtain ⟨hc, hcs⟩ := hn
    have hb : isWord '[' = false := by decide
    have e1 : (cs ++ '[' :: (p ++ ']' :: rest)).dropWhile isWord = '[' :: (p ++ ']' :: rest) :=
      dropWhile_all_append cs '[' _ hcs hb
    have e2 : (cs ++ '[' :: (p ++ ']' :: rest)).takeWhile isWord = cs :=
      takeWhile_all_append cs '[' _ hcs hb
    have hp' : ∀ x ∈ p, (fun x => x != ']') x = true := by
      intro x hx; simpa using hp x hx
    have e3 : (p ++ ']' :: rest).dropWhile (fun x => x != ']') = ']' :: rest :=
      dropWhile_all_append p ']' rest hp' (by decide)
    have e4 : (p ++ ']' :: rest).takeWhile (fun x => x != ']') = p :=
      takeWhile_all_append p ']' rest hp' (by decide)
    have : printRef (c :: cs, p) ++ rest = c :: (cs ++ '[' :: (p ++ ']' :: rest)) := by
      simp [printRef]
    rw [this]
    simp only [matchRef, hc, if_true, e1, e2, e3, e4]

theorem matchRef_sound {s n p rest : Str} (h : matchRef s = some (n, p, rest)) :
    s = printRef (n, p) ++ rest ∧ validName n = true ∧ (∀ x ∈ p, x ≠ ']') := by
  cases s with
  | nil => simp [matchRef] at h
  | cons c cs =>
    simp only [matchRef] at h
    split at h
    · rename_i hc
      split at h
      · rename_i r hr
        split at h
        · rename_i rest' hr'
          simp only [Option.some.injEq, Prod.mk.injEq] at h
          obtain ⟨rfl, rfl, rfl⟩ := h
          have d1 := List.takeWhile_append_dropWhile (p := isWord) (l := cs)
          have d2 := List.takeWhile_append_dropWhile (p := fun x => x != ']') (l := r)
          refine ⟨?_, ?_, ?_⟩
          · have e1 : cs = List.takeWhile isWord cs ++ '[' :: r := by rw [← hr]; exact d1.symm
            have e2 : r = List.takeWhile (fun x => x != ']') r ++ ']' :: rest' := by rw [← hr']; exact d2.symm
            simp only [printRef, List.cons_append, List.append_assoc, List.cons.injEq, true_and]
            conv_lhs => rw [e1]
            conv_lhs => rw [e2]
            simp
          · simp only [validName, hc, Bool.true_and, List.all_eq_true]
            exact takeWhile_all cs
          · intro x hx
            have := takeWhile_all (p := fun x => x != ']') r x hx
            simpa using this
        · simp at h
      · simp at h
    · simp at h

theorem matchRef_none_of_not_start (c : Char) (cs : Str) (h : isNameStart c = false) :
    matchRef (c :: cs) = none := by
  simp [matchRef, h]

/-! ### joinWith / splitOn -/

theorem mem_joinWith {sep c : Char} {parts : List Str} (h : c ∈ joinWith sep parts) :
    c = sep ∨ ∃ p ∈ parts, c ∈ p := by
  induction parts with
  | nil => simp [joinWith] at h
  | cons p ps ih =>
    cases ps with
    | nil => exact Or.inr ⟨p, by simp, by simpa [joinWith] using h⟩
    | cons q qs =>
      simp only [joinWith, List.mem_append, List.mem_cons] at h
      rcases h with h | h | h
      · exact Or.inr ⟨p, by simp, h⟩
      · exact Or.inl h
      · rcases ih h with h | ⟨r, hr, hc⟩
        · exact Or.inl h
        · exact Or.inr ⟨r, by simp only [List.mem_cons] at hr ⊢; exact Or.inr hr, hc⟩

theorem splitOn_no_sep (sep : Char) (p : Str) (h : ∀ x ∈ p, x ≠ sep) : splitOn sep p = [p] := by
  induction p with
  | nil => rfl
  | cons c cs ih =>
    have hc : (c == sep) = false := by simpa using h c (by simp)
    simp only [splitOn, hc, Bool.false_eq_true, if_false]
    rw [ih (fun x hx => h x (by simp [hx]))]

theorem splitOn_append_sep (sep : Char) (p rest : Str) (h : ∀ x ∈ p, x ≠ sep) :
    splitOn sep (p ++ sep :: rest) = p :: splitOn sep rest := by
  induction p with
  | nil => simp [splitOn]
  | cons c cs ih =>
    have hc : (c == sep) = false := by simpa using h c (by simp)
    simp only [List.cons_append, splitOn, hc, Bool.false_eq_true, if_false]
    rw [ih (fun x hx => h x (by simp [hx]))]

theorem splitOn_joinWith (sep : Char) (parts : List Str) (hne : parts ≠ [])
    (h : ∀ p ∈ parts, ∀ x ∈ p, x ≠ sep) : splitOn sep (joinWith sep parts) = parts := by
  induction parts with
  | nil => exact absurd rfl hne
  | cons p ps ih =>
    cases ps with
    | nil => simpa [joinWith] using splitOn_no_sep sep p (h p (by simp))
    | cons q qs =>
      simp only [joinWith]
      rw [splitOn_append_sep sep p _ (h p (by simp))]
      rw [ih (by simp) (fun r hr => h r (by simp only [List.mem_cons] at hr ⊢; exact Or.inr hr))]

theorem joinWith_ne_nil (sep : Char) (p : Str) (ps : List Str) (hp : p ≠ []) : joinWith sep (p :: ps) ≠ [] := by
  cases ps with
  | nil => simpa [joinWith] using hp
  | cons q qs => simp [joinWith, hp]

end AFV.EinsumStr
