import AFV.Model.EinsumStr
import Mathlib.Tactic.IntervalCases
/-! Character facts used by the C23 proofs (ASCII classes of core `Char`). -/
namespace AFV.EinsumStr

theorem lower_cases (c : Char) (h : c.isLower = true) :
    c ∈ ['a','b','c','d','e','f','g','h','i','j','k','l','m','n','o','p','q','r','s','t','u','v','w','x','y','z'] := by
  have h1 : 97 ≤ c.toNat ∧ c.toNat ≤ 122 := by
    simp only [Char.isLower, Bool.and_eq_true, decide_eq_true_eq, ge_iff_le, UInt32.le_iff_toNat_le] at h
    exact h
  have h2 : c = Char.ofNat c.toNat := (Char.ofNat_toNat c).symm
  rw [h2]
  generalize c.toNat = n at *
  obtain ⟨h3, h4⟩ := h1
  interval_cases n <;> decide

theorem toUpper_not_lower (c : Char) : c.toUpper.isLower = false := by
  by_cases h : c.isLower = true
  · have := lower_cases c h
    simp only [List.mem_cons, List.not_mem_nil, or_false] at this
    rcases this with h|h|h|h|h|h|h|h|h|h|h|h|h|h|h|h|h|h|h|h|h|h|h|h|h|h <;> subst h <;> decide
  · have h' : ¬('a'.val ≤ c.val ∧ c.val ≤ 'z'.val) := by
      simpa [Char.isLower] using h
    simp only [Char.toUpper, dif_neg h']
    simpa using h

theorem toUpper_isWord (c : Char) : isWord c.toUpper = isWord c := by
  by_cases h : c.isLower = true
  · have := lower_cases c h
    simp only [List.mem_cons, List.not_mem_nil, or_false] at this
    rcases this with h|h|h|h|h|h|h|h|h|h|h|h|h|h|h|h|h|h|h|h|h|h|h|h|h|h <;> subst h <;> decide
  · have h' : ¬('a'.val ≤ c.val ∧ c.val ≤ 'z'.val) := by
      simpa [Char.isLower] using h
    simp only [Char.toUpper, dif_neg h']

theorem toUpper_isAlpha (c : Char) : c.toUpper.isAlpha = c.isAlpha := by
  by_cases h : c.isLower = true
  · have := lower_cases c h
    simp only [List.mem_cons, List.not_mem_nil, or_false] at this
    rcases this with h|h|h|h|h|h|h|h|h|h|h|h|h|h|h|h|h|h|h|h|h|h|h|h|h|h <;> subst h <;> decide
  · have h' : ¬('a'.val ≤ c.val ∧ c.val ≤ 'z'.val) := by
      simpa [Char.isLower] using h
    simp only [Char.toUpper, dif_neg h']

theorem lower_not_upper (c : Char) (h : c.isLower = true) : c.isUpper = false := by
  have := lower_cases c h
  simp only [List.mem_cons, List.not_mem_nil, or_false] at this
  rcases this with h|h|h|h|h|h|h|h|h|h|h|h|h|h|h|h|h|h|h|h|h|h|h|h|h|h <;> subst h <;> decide

theorem lower_isAlpha (c : Char) (h : c.isLower = true) : c.isAlpha = true := by
  simp [Char.isAlpha, h]

theorem alpha_isWord (c : Char) (h : c.isAlpha = true) : isWord c = true := by
  simp [isWord, Char.isAlphanum, h]

theorem nameStart_isWord (c : Char) (h : isNameStart c = true) : isWord c = true := by
  simp only [isNameStart, Bool.or_eq_true] at h
  rcases h with h | h
  · exact alpha_isWord c h
  · simp [isWord, h]

theorem space_cases (c : Char) (h : isSpace c = true) :
    c = ' ' ∨ c = '\t' ∨ c = '\n' ∨ c = '\r' ∨ c = '\x0b' ∨ c = '\x0c' ∨ c = '\x1c' ∨ c = '\x1d' ∨ c = '\x1e' ∨ c = '\x1f' := by
  simpa [isSpace, or_assoc] using h

theorem space_not_word (c : Char) (h : isSpace c = true) : isWord c = false := by
  rcases space_cases c h with h|h|h|h|h|h|h|h|h|h <;> subst h <;> decide

theorem word_not_space (c : Char) (h : isWord c = true) : isSpace c = false := by
  cases hs : isSpace c with
  | false => rfl
  | true => rw [space_not_word c hs] at h; exact absurd h (by decide)

end AFV.EinsumStr
