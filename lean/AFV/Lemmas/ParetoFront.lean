import AFV.Lemmas.ParetoMain
/-!
Fronts as lists of rows: permutation invariance and the merge law
`front (A ++ B) = front (front A ++ front B)`.
-/
namespace AFV.Pareto

/-- the non-dominated rows of `rows`, in their original order. -/
def front (d : Nat) (rows : List Row) : List Row :=
  rows.filter fun r => !rows.any fun s => domV d s r

theorem front_def (d : Nat) (rows : List Row) :
    front d rows = rows.filter fun r => !rows.any fun s => domV d s r := rfl

theorem mem_front {d : Nat} {rows : List Row} {r : Row} :
    r ∈ front d rows ↔ r ∈ rows ∧ ∀ s ∈ rows, domV d s r = false := by
  simp [front, List.mem_filter, List.any_eq_false]

theorem front_sub {d : Nat} {rows : List Row} {r : Row} (h : r ∈ front d rows) : r ∈ rows :=
  (mem_front.mp h).1

theorem any_perm {α} {A B : List α} (h : A.Perm B) (p : α → Bool) : A.any p = B.any p := by
  rw [Bool.eq_iff_iff]; simp only [List.any_eq_true, h.mem_iff]

/-- **permutation invariance of the front.** -/
theorem front_perm' (d : Nat) {A B : List Row} (h : A.Perm B) : (front d A).Perm (front d B) := by
  unfold front
  have : (fun r => !A.any fun s => domV d s r) = fun r => !B.any fun s => domV d s r := by
    funext r; rw [any_perm h]
  rw [this]
  exact h.filter _

/-- every row is a front row or dominated by a front row (finite strict partial order). -/
theorem exists_front_above (d : Nat) (X : List Row) :
    ∀ (n : Nat) (s : Row), s ∈ X → (X.filter fun t => domV d t s).length ≤ n →
      ∃ t ∈ front d X, t = s ∨ domV d t s = true := by
  intro n
  induction n with
  | zero =>
    intro s hs hlen
    refine ⟨s, mem_front.mpr ⟨hs, ?_⟩, Or.inl rfl⟩
    intro t ht
    cases hd : domV d t s
    · rfl
    · have : t ∈ X.filter fun t => domV d t s := List.mem_filter.mpr ⟨ht, hd⟩
      have h0 : (X.filter fun t => domV d t s) = [] := List.eq_nil_of_length_eq_zero (Nat.le_zero.mp hlen)
      rw [h0] at this; simp at this
  | succ n ih =>
    intro s hs hlen
    by_cases hex : ∃ t ∈ X, domV d t s = true
    · obtain ⟨s', hs', hd⟩ := hex
      -- the dominators of s' are dominators of s, and s' is a dominator of s but not of itself
      have hsub : ∀ t, t ∈ X.filter (fun t => domV d t s') → t ∈ X.filter (fun t => domV d t s) := by
        intro t ht
        have := List.mem_filter.mp ht
        exact List.mem_filter.mpr ⟨this.1, domV_trans this.2 hd⟩
      have hlt : (X.filter fun t => domV d t s').length < (X.filter fun t => domV d t s).length := by
        have hsl : (X.filter fun t => domV d t s').Sublist (X.filter fun t => domV d t s) := by
          have : (X.filter fun t => domV d t s') = (X.filter fun t => domV d t s).filter fun t => domV d t s' := by
            rw [List.filter_filter]
            apply List.filter_congr
            intro t _
            cases h1 : domV d t s' <;> simp
            exact domV_trans h1 hd
          rw [this]; exact List.filter_sublist
        rcases Nat.lt_or_ge (X.filter fun t => domV d t s').length (X.filter fun t => domV d t s).length with h | h
        · exact h
        · exfalso
          have heq := hsl.eq_of_length_le h
          have : s' ∈ X.filter fun t => domV d t s := List.mem_filter.mpr ⟨hs', hd⟩
          rw [← heq] at this
          have := (List.mem_filter.mp this).2
          rw [domV_irrefl] at this
          exact Bool.noConfusion this
      obtain ⟨t, ht, h⟩ := ih s' hs' (by omega)
      refine ⟨t, ht, Or.inr ?_⟩
      rcases h with rfl | h
      · exact hd
      · exact domV_trans h hd
    · refine ⟨s, mem_front.mpr ⟨hs, ?_⟩, Or.inl rfl⟩
      intro t ht
      cases hd : domV d t s
      · rfl
      · exact absurd ⟨t, ht, hd⟩ hex

/-- **merge law**: the front of a union is the front of the union of the fronts (as lists, in order). -/
theorem front_append (d : Nat) (A B : List Row) :
    front d (A ++ B) = front d (front d A ++ front d B) := by
  have key : ∀ r, r ∈ A ++ B →
      (!(A ++ B).any fun s => domV d s r) =
        ((!(front d A ++ front d B).any fun s => domV d s r)) := by
    intro r _
    rw [Bool.eq_iff_iff]
    simp only [Bool.not_eq_true', List.any_eq_false]
    constructor
    · intro h s hs
      apply h
      rcases List.mem_append.mp hs with hs | hs
      · exact List.mem_append_left _ (front_sub hs)
      · exact List.mem_append_right _ (front_sub hs)
    · intro h s hs
      intro hd
      rcases List.mem_append.mp hs with hs | hs
      · obtain ⟨t, ht, htt⟩ := exists_front_above d A _ s hs (Nat.le_refl _)
        have : domV d t r = true := by
          rcases htt with rfl | htt
          · exact hd
          · exact domV_trans htt hd
        exact h t (List.mem_append_left _ ht) this
      · obtain ⟨t, ht, htt⟩ := exists_front_above d B _ s hs (Nat.le_refl _)
        have : domV d t r = true := by
          rcases htt with rfl | htt
          · exact hd
          · exact domV_trans htt hd
        exact h t (List.mem_append_right _ ht) this
  have hA : ∀ r ∈ A, (!(A ++ B).any fun s => domV d s r) = true → (!A.any fun s => domV d s r) = true := by
    intro r _ h
    simp only [Bool.not_eq_true', List.any_eq_false] at h ⊢
    exact fun s hs => h s (List.mem_append_left _ hs)
  have hB : ∀ r ∈ B, (!(A ++ B).any fun s => domV d s r) = true → (!B.any fun s => domV d s r) = true := by
    intro r _ h
    simp only [Bool.not_eq_true', List.any_eq_false] at h ⊢
    exact fun s hs => h s (List.mem_append_right _ hs)
  rw [front_def d (A ++ B), front_def d (front d A ++ front d B), List.filter_append, List.filter_append]
  congr 1
  · have hq : ∀ q : Row → Bool,
        (front d A).filter q = A.filter fun r => q r && !A.any fun s => domV d s r := by
      intro q; rw [front_def d A, List.filter_filter]
    rw [hq]
    apply List.filter_congr
    intro r hr
    rw [← key r (List.mem_append_left _ hr)]
    cases h : (!(A ++ B).any fun s => domV d s r)
    · simp
    · simp [hA r hr h]
  · have hq : ∀ q : Row → Bool,
        (front d B).filter q = B.filter fun r => q r && !B.any fun s => domV d s r := by
      intro q; rw [front_def d B, List.filter_filter]
    rw [hq]
    apply List.filter_congr
    intro r hr
    rw [← key r (List.mem_append_right _ hr)]
    cases h : (!(A ++ B).any fun s => domV d s r)
    · simp
    · simp [hB r hr h]

end AFV.Pareto
