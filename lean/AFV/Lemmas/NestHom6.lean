import AFV.Lemmas.NestHom5
namespace AFV.Nest

variable {α β : Type}
  [Add α] [Mul α] [Div α] [Max α] [Sub α] [OfNat α 0] [OfNat α 1]
  [Add β] [Mul β] [Div β] [Max β] [Sub β] [OfNat β 0] [OfNat β 1]
variable {f : α → β}

theorem sumList_map (hf : IsHom f) (l : List α) : sumList (l.map f) = f (sumList l) := by
  induction l with
  | nil => simp [sumList, hf.zero]
  | cons x xs ih => simp only [sumList, List.map_cons, List.foldr_cons] at ih ⊢; rw [ih, hf.add]

theorem maxList_map (hf : IsHom f) (l : List α) (x : α) : maxList (f x) (l.map f) = f (maxList x l) := by
  induction l generalizing x with
  | nil => rfl
  | cons y ys ih => simp only [maxList, List.map_cons, List.foldl_cons] at ih ⊢; rw [← hf.max, ih]

theorem netRead_map (hf : IsHom f) (s : Stats α) : netRead (s.map f) = f (netRead s) := by
  simp [netRead, Stats.map, Counts.map, hf.sub]

theorem netWrite_map (hf : IsHom f) (s : Stats α) : netWrite (s.map f) = f (netWrite s) := by
  simp [netWrite, Stats.map, Counts.map, hf.sub]

theorem dflt_map (hf : IsHom f) : (Level.dflt : Level α).map f = Level.dflt := by
  simp [Level.dflt, Level.map, Act.dflt, Act.map, mapPairs, hf.zero, hf.one]

theorem lvOf_map (hf : IsHom f) (arch : Arch α) (l : Lvl) :
    (arch.map f).levels.getD l Level.dflt = (arch.levels.getD l Level.dflt).map f := by
  simp only [Arch.map, List.getD, List.getElem?_map]
  cases arch.levels[l]? <;> simp [dflt_map hf]

end AFV.Nest
