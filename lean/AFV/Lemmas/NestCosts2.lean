import AFV.Lemmas.NestCosts
namespace AFV.Nest
open AFV.NestExec

theorem sum_scaled (arch : Arch Rat) (l : Lvl) (g : Buffet Rat → Rat) (mine : List (Buffet Rat)) (h : ∀ b ∈ mine, b.lvl = l) :
    (mine.map (fun b => g b * (arch.levels.getD b.lvl Level.dflt).actionsScale)).foldr (· + ·) 0
      = sumList (mine.map g) * (arch.levels.getD l Level.dflt).actionsScale := by
  induction mine with
  | nil => simp [sumList]
  | cons b r ih =>
    have hb := h b (List.mem_cons_self ..)
    simp only [List.map_cons, List.foldr_cons, sumList] at ih ⊢
    rw [ih (fun b hb => h b (List.mem_cons_of_mem _ hb)), hb]
    ring

theorem filter_rows (arch : Arch Rat) (bs : List (Buffet Rat)) (l : Lvl) :
    (bs.map (rowA arch)).filter (fun a => a.1 == l) = (bs.filter (fun b => b.lvl == l)).map (rowA arch) := by
  rw [List.filter_map]; rfl

theorem maxList_eq (x : Rat) (l : List Rat) : maxList x l = l.foldl ratMax x := rfl

/-- The model's assembly of latency and energy follows the documented rules. -/
theorem assemble_costs (arch : Arch Rat) (w : Workload Rat) (m : Mapping Rat) (bs : List (Buffet Rat)) :
    let r := assemble arch w m bs
    let e := costsE arch w.nInstances (bs.map (rowA arch)) (computeOps w.bounds m * arch.compute.actionsScale)
    r.actions = e.actions ∧ r.computes = e.computes ∧ r.latencies = e.latencies ∧ r.computeLatency = e.computeLatency ∧
    r.totalLatency = e.totalLatency ∧ r.dynamicEnergy = e.dynamicEnergy ∧ r.leakEnergy = e.leakEnergy ∧
    r.totalEnergy = e.totalEnergy := by
  intro r e
  have hany : ∀ l, bs.any (fun b => b.lvl == l) = (bs.map (rowA arch)).any (fun a => a.1 == l) := by
    intro l; rw [List.any_map]; rfl
  have hreads : ∀ l, (((bs.map (rowA arch)).filter (fun a => a.1 == l)).map (fun a => a.2.2.1)).foldr (· + ·) 0
      = sumList ((bs.filter (fun b => b.lvl == l)).map (fun b => netRead b.s)) * (arch.levels.getD l Level.dflt).actionsScale := by
    intro l
    rw [filter_rows, List.map_map]
    exact sum_scaled arch l (fun b => netRead b.s) _ (fun b hb => by simpa using (List.mem_filter.1 hb).2)
  have hwrites : ∀ l, (((bs.map (rowA arch)).filter (fun a => a.1 == l)).map (fun a => a.2.2.2)).foldr (· + ·) 0
      = sumList ((bs.filter (fun b => b.lvl == l)).map (fun b => netWrite b.s)) * (arch.levels.getD l Level.dflt).actionsScale := by
    intro l
    rw [filter_rows, List.map_map]
    exact sum_scaled arch l (fun b => netWrite b.s) _ (fun b hb => by simpa using (List.mem_filter.1 hb).2)
  have hlats : (assemble arch w m bs).latencies = e.latencies := by
    simp only [assemble, costsE, overallOf, latsOf, usedOf, latOf, dynOf, leakOf, e, levelIds, hany, hreads, hwrites, List.map_map]
    first | done | (apply List.map_congr_left; intro l _; rfl)
  have hact : (assemble arch w m bs).actions = e.actions := by
    simp only [assemble, costsE, overallOf, latsOf, usedOf, latOf, dynOf, leakOf, e, List.map_map]
    first | done | (apply List.map_congr_left; intro b _; rfl)
  have htot : (assemble arch w m bs).totalLatency = e.totalLatency := by
    simp only [assemble, costsE, overallOf, latsOf, usedOf, latOf, dynOf, leakOf, e, levelIds, hany, hreads, hwrites, List.map_map, maxList_eq]
    first | done | rfl
  have hdyn : (assemble arch w m bs).dynamicEnergy = e.dynamicEnergy := by
    simp only [assemble, costsE, overallOf, latsOf, usedOf, latOf, dynOf, leakOf, e, List.map_map, sumList]
    first | done | rfl
  have hleak : (assemble arch w m bs).leakEnergy = e.leakEnergy := by
    simp only [assemble, costsE, overallOf, latsOf, usedOf, latOf, dynOf, leakOf, e, levelIds, hany, hreads, hwrites, List.map_map, maxList_eq, sumList]
    first | done | rfl
  have hte : (assemble arch w m bs).totalEnergy = e.totalEnergy := by
    simp only [assemble, costsE, overallOf, latsOf, usedOf, latOf, dynOf, leakOf, e, levelIds, hany, hreads, hwrites, List.map_map, maxList_eq, sumList]
    first | done | rfl
  exact ⟨hact, rfl, hlats, rfl, htot, hdyn, hleak, hte⟩

end AFV.Nest
