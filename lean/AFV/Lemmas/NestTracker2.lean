import AFV.Lemmas.NestTracker
namespace AFV.Nest

variable {α : Type}

/-- The live trackers of tensor `t` are described by `pend`. -/
def PendRel (t : TId) (trs : List Tracker) : Option Lvl → Prop
  | none => tPart t trs = []
  | some l => ∃ tr0, tPart t trs = [tr0] ∧ tr0.tensor = t ∧ tr0.lvl = l

def updLoop (w : Workload α) (rv : RV) (tr : Tracker) : Tracker :=
  { tr with insertUnder := false, shouldStop := !(w.relevant tr.tensor rv) }

theorem filter_under_nil (trs : List Tracker) (upd : Tracker → Tracker) (h : ∀ tr, (upd tr).insertUnder = false) :
    (trs.map upd).reverse.filter (fun tr => tr.shouldStop && tr.insertUnder) = [] := by
  rw [List.filter_eq_nil_iff]
  intro a ha
  simp only [List.mem_reverse, List.mem_map] at ha
  obtain ⟨tr, _, rfl⟩ := ha
  simp [h tr]

/-- Result of one step of the state machine on a node that creates no tracker, seen from tensor `t`. -/
theorem step_view (t : TId) (trs : List Tracker) (upd : Tracker → Tracker)
    (hten : ∀ tr, (upd tr).tensor = tr.tensor) (hund : ∀ tr, (upd tr).insertUnder = false)
    (n : RNode α) (X : List (RNode α)) :
    singleTensor t (placeAround n (popStopped (α := α) (trs.map upd)).2.1 (popStopped (α := α) (trs.map upd)).2.2 ++ X)
      = resOf (((tPart t trs).map upd).reverse.filter (fun tr => tr.shouldStop)) ++ singleTensor t [n] ++ singleTensor t X
    ∧ tPart t (popStopped (α := α) (trs.map upd)).1 = ((tPart t trs).map upd).filter (fun tr => !tr.shouldStop) := by
  rw [popStopped_spec]
  simp only [filter_under_nil trs upd hund]
  have hres : (resOf [] : List (RNode α)) = [] := rfl
  rw [hres, placeAround_nil]
  constructor
  · rw [singleTensor_append, singleTensor_append, singleTensor_resOf', tPart_filter, tPart_reverse, tPart_map t trs upd hten]
    congr 2
    congr 1
    apply List.filter_congr
    intro x hx
    simp only [List.mem_reverse, List.mem_map] at hx
    obtain ⟨tr, _, rfl⟩ := hx
    simp [hund tr]
  · rw [tPart_filter, tPart_map t trs upd hten]

end AFV.Nest

namespace AFV.Nest

variable {α : Type}

theorem popStopped_holder (trs : List Tracker) (t' : TId) (l' : Lvl) (top : Bool) :
    popStopped (α := α) (trs.map stopAll ++ [{ tensor := t', lvl := l', shouldStop := top, insertUnder := top }]) =
      ((if top then [] else [{ tensor := t', lvl := l', shouldStop := top, insertUnder := top }]),
       (if top then [RNode.reservation t' l'] else []),
       resOf (trs.map stopAll).reverse) := by
  rw [popStopped_spec]
  have h1 : (trs.map stopAll).filter (fun tr => !tr.shouldStop) = [] := by
    rw [List.filter_eq_nil_iff]; intro a ha
    simp only [List.mem_map] at ha; obtain ⟨tr, _, rfl⟩ := ha; simp [stopAll]
  have h2 : (trs.map stopAll).reverse.filter (fun tr => tr.shouldStop && tr.insertUnder) = [] := by
    rw [List.filter_eq_nil_iff]; intro a ha
    simp only [List.mem_reverse, List.mem_map] at ha; obtain ⟨tr, _, rfl⟩ := ha; simp [stopAll]
  have h3 : (trs.map stopAll).reverse.filter (fun tr => tr.shouldStop && !tr.insertUnder) = (trs.map stopAll).reverse := by
    rw [List.filter_eq_self]; intro a ha
    simp only [List.mem_reverse, List.mem_map] at ha; obtain ⟨tr, _, rfl⟩ := ha; simp [stopAll]
  simp only [List.filter_append, List.reverse_append, List.reverse_cons, List.reverse_nil, List.nil_append,
    List.singleton_append, List.filter_cons, List.filter_nil, h1, h2, h3]
  cases top <;> simp [resOf]

theorem stopAll_tensor (tr : Tracker) : (stopAll tr).tensor = tr.tensor := rfl

theorem resOf_reverse_tPart_none (t : TId) (trs : List Tracker) (upd : Tracker → Tracker) (h : tPart t trs = []) :
    (resOf ((tPart t trs).map upd).reverse : List (RNode α)) = [] := by simp [h, resOf]

end AFV.Nest
