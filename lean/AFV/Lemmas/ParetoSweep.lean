import AFV.Lemmas.ParetoCols
/-!
The 2-D path: stable sort on column 0, sweep over runs of equal column 0 with running best of column 1.
Exact for the rows whose column-1 value is below the initial `best`.
-/
namespace AFV.Pareto

theorem domV2_iff (y x : Row) :
    domV 2 y x = true ↔ EV.le (cell y 0) (cell x 0) = true ∧ EV.le (cell y 1) (cell x 1) = true ∧
      (EV.lt (cell y 0) (cell x 0) = true ∨ EV.lt (cell y 1) (cell x 1) = true) := by
  rw [domV_iff]
  constructor
  · rintro ⟨hl, k, hk, hlt⟩
    refine ⟨hl 0 (by omega), hl 1 (by omega), ?_⟩
    have : k = 0 ∨ k = 1 := by omega
    rcases this with rfl | rfl
    · exact Or.inl hlt
    · exact Or.inr hlt
  · rintro ⟨h0, h1, h⟩
    refine ⟨?_, ?_⟩
    · intro k hk
      have : k = 0 ∨ k = 1 := by omega
      rcases this with rfl | rfl <;> assumption
    · rcases h with h | h
      · exact ⟨0, by omega, h⟩
      · exact ⟨1, by omega, h⟩

theorem runs_ne_nil (L : List Item) : ∀ R ∈ runs L, R ≠ [] := by
  induction L with
  | nil => simp [runs]
  | cons x xs ih =>
    unfold runs
    split
    · simp
    · rename_i rest h; rw [h] at ih; exact absurd rfl (ih [] List.mem_cons_self)
    · rename_i y ys rest h
      rw [h] at ih
      split
      · intro R hR
        rcases List.mem_cons.mp hR with rfl | hR
        · simp
        · exact ih R (List.mem_cons_of_mem _ hR)
      · intro R hR
        rcases List.mem_cons.mp hR with rfl | hR
        · simp
        · exact ih R hR

theorem runs_flat (L : List Item) : (runs L).flatten = L := by
  induction L with
  | nil => simp [runs]
  | cons x xs ih =>
    unfold runs
    split
    · rename_i h; rw [h] at ih; simp at ih; simp [← ih]
    · rename_i rest h; rw [h] at ih; simp at ih; simp [← ih]
    · rename_i y ys rest h
      rw [h] at ih
      split <;> simp [← ih]

/-- runs are constant in column 0 and strictly increasing from run to run. -/
structure RunsOK (Rs : List (List Item)) : Prop where
  incr : Rs.Pairwise fun R R' => ∀ x ∈ R, ∀ y ∈ R', EV.lt (cell x.2 0) (cell y.2 0) = true
  const : ∀ R ∈ Rs, ∀ x ∈ R, ∀ y ∈ R, cell x.2 0 = cell y.2 0

theorem RunsOK.tail {R : List Item} {Rs : List (List Item)} (h : RunsOK (R :: Rs)) : RunsOK Rs :=
  ⟨(List.pairwise_cons.mp h.incr).2, fun R' hR' => h.const R' (List.mem_cons_of_mem _ hR')⟩

theorem RunsOK.head_lt {R : List Item} {Rs : List (List Item)} (h : RunsOK (R :: Rs)) :
    ∀ x ∈ R, ∀ y ∈ Rs.flatten, EV.lt (cell x.2 0) (cell y.2 0) = true := by
  intro x hx y hy
  obtain ⟨R', hR', hy'⟩ := List.mem_flatten.mp hy
  exact (List.pairwise_cons.mp h.incr).1 R' hR' x hx y hy'

theorem runsOK_runs (L : List Item)
    (hs : L.Pairwise fun x y => EV.le (cell x.2 0) (cell y.2 0) = true) : RunsOK (runs L) := by
  induction L with
  | nil => exact ⟨by simp [runs], by simp [runs]⟩
  | cons x xs ih =>
    have hx : ∀ z ∈ xs, EV.le (cell x.2 0) (cell z.2 0) = true := (List.pairwise_cons.mp hs).1
    have ih := ih (List.pairwise_cons.mp hs).2
    have hflat := runs_flat xs
    have hne := runs_ne_nil xs
    unfold runs
    split
    · refine ⟨by simp, ?_⟩
      intro R hR a ha b hb
      simp only [List.mem_singleton] at hR; subst hR
      simp only [List.mem_singleton] at ha hb; subst ha; subst hb; rfl
    · rename_i rest h; rw [h] at hne; exact absurd rfl (hne [] List.mem_cons_self)
    · rename_i y ys rest h
      rw [h] at ih hflat
      have hyx : ∀ z ∈ y :: ys, cell z.2 0 = cell y.2 0 := fun z hz =>
        ih.const _ List.mem_cons_self z hz y List.mem_cons_self
      have hrest : ∀ z ∈ rest.flatten, EV.lt (cell y.2 0) (cell z.2 0) = true := fun z hz =>
        ih.head_lt y List.mem_cons_self z hz
      have hmem : ∀ z, z ∈ y :: ys → z ∈ xs := by
        intro z hz; rw [← hflat]; simp only [List.flatten_cons, List.mem_append]; exact Or.inl hz
      split
      · rename_i hxy
        have hxy : cell x.2 0 = cell y.2 0 := by simpa using hxy
        refine ⟨List.pairwise_cons.mpr ⟨?_, (List.pairwise_cons.mp ih.incr).2⟩, ?_⟩
        · intro R' hR' a ha b hb
          have : cell a.2 0 = cell y.2 0 := by
            rcases List.mem_cons.mp ha with rfl | ha
            · exact hxy
            · exact hyx a ha
          rw [this]; exact hrest b (List.mem_flatten.mpr ⟨R', hR', hb⟩)
        · intro R hR a ha b hb
          rcases List.mem_cons.mp hR with rfl | hR
          · have e : ∀ c ∈ x :: y :: ys, cell c.2 0 = cell y.2 0 := by
              intro c hc
              rcases List.mem_cons.mp hc with rfl | hc
              · exact hxy
              · exact hyx c hc
            rw [e a ha, e b hb]
          · exact ih.const R (List.mem_cons_of_mem _ hR) a ha b hb
      · rename_i hxy
        have hxy : cell x.2 0 ≠ cell y.2 0 := by simpa using hxy
        have hlt : EV.lt (cell x.2 0) (cell y.2 0) = true := by
          rcases EV.lt_or_eq_of_le (hx y (hmem y List.mem_cons_self)) with h | h
          · exact h
          · exact absurd h hxy
        refine ⟨List.pairwise_cons.mpr ⟨?_, ih.incr⟩, ?_⟩
        · intro R' hR' a ha b hb
          simp only [List.mem_singleton] at ha; subst ha
          rcases List.mem_cons.mp hR' with rfl | hR'
          · rw [hyx b hb]; exact hlt
          · exact EV.lt_of_lt_of_le hlt (EV.lt_imp_le (hrest b (List.mem_flatten.mpr ⟨R', hR', hb⟩)))
        · intro R hR a ha b hb
          rcases List.mem_cons.mp hR with rfl | hR
          · simp only [List.mem_singleton] at ha hb; subst ha; subst hb; rfl
          · exact ih.const R hR a ha b hb

/-- what the sweep keeps, for an arbitrary current `best`. -/
theorem mem_sweepGo (best : EV) (Rs : List (List Item)) (hok : RunsOK Rs) (i : Nat) :
    i ∈ sweepGo best Rs ↔
      ∃ x ∈ Rs.flatten, x.1 = i ∧ EV.lt (cell x.2 1) best = true ∧
        ∀ y ∈ Rs.flatten, domV 2 y.2 x.2 = false := by
  induction Rs generalizing best with
  | nil => simp [sweepGo]
  | cons R Rs ih =>
    have ih := fun b => ih b hok.tail
    cases R with
    | nil => simp only [sweepGo, List.flatten_cons, List.nil_append]; exact ih best
    | cons x0 xs =>
      have hR : ∀ x ∈ x0 :: xs, ∀ y ∈ x0 :: xs, cell x.2 0 = cell y.2 0 :=
        hok.const _ List.mem_cons_self
      have hlt := hok.head_lt
      have hle := colMin_le 1 (cell x0.2 1) xs
      have hlb : ∀ y ∈ x0 :: xs, EV.le (colMin 1 (cell x0.2 1) xs) (cell y.2 1) = true := by
        intro y hy
        rcases List.mem_cons.mp hy with rfl | hy
        · exact hle.1
        · exact hle.2 y hy
      have hat : ∃ y ∈ x0 :: xs, colMin 1 (cell x0.2 1) xs = cell y.2 1 := by
        rcases colMin_attained 1 (cell x0.2 1) xs with h | ⟨y, hy, h⟩
        · exact ⟨x0, List.mem_cons_self, h⟩
        · exact ⟨y, List.mem_cons_of_mem _ hy, h⟩
      generalize hg : colMin 1 (cell x0.2 1) xs = g at hlb hat
      obtain ⟨y0, hy0, hy0g⟩ := hat
      -- rows of later runs never dominate rows of this run
      have hlater : ∀ x ∈ x0 :: xs, ∀ y ∈ Rs.flatten, domV 2 y.2 x.2 = false := by
        intro x hx y hy
        cases hd : domV 2 y.2 x.2
        · rfl
        · have h1 := ((domV2_iff _ _).mp hd).1
          have := EV.lt_of_lt_of_le (hlt x hx y hy) h1
          simp [EV.lt_irrefl] at this
      simp only [sweepGo, hg, List.flatten_cons]
      by_cases hgb : EV.lt g best = true
      · rw [if_pos hgb, List.mem_append, ih g]
        constructor
        · rintro (h | ⟨x, hx, rfl, hxg, hnd⟩)
          · simp only [List.mem_map, List.mem_filter] at h
            obtain ⟨x, ⟨hx, hxg⟩, rfl⟩ := h
            have hxg : cell x.2 1 = g := by simpa using hxg
            refine ⟨x, List.mem_append_left _ hx, rfl, hxg ▸ hgb, ?_⟩
            intro y hy
            rcases List.mem_append.mp hy with hy | hy
            · cases hd : domV 2 y.2 x.2
              · rfl
              · obtain ⟨_, _, h | h⟩ := (domV2_iff _ _).mp hd
                · rw [hR y hy x hx, EV.lt_irrefl] at h; exact Bool.noConfusion h
                · rw [hxg] at h
                  have := EV.lt_of_le_of_lt (hlb y hy) h
                  simp [EV.lt_irrefl] at this
            · exact hlater x hx y hy
          · refine ⟨x, List.mem_append_right _ hx, rfl,
              EV.lt_of_lt_of_le hxg (EV.lt_imp_le hgb), ?_⟩
            intro y hy
            rcases List.mem_append.mp hy with hy | hy
            · cases hd : domV 2 y.2 x.2
              · rfl
              · have h1 := ((domV2_iff _ _).mp hd).2.1
                have := EV.lt_of_lt_of_le (EV.lt_of_lt_of_le hxg (hlb y hy)) h1
                simp [EV.lt_irrefl] at this
            · exact hnd y hy
        · rintro ⟨x, hx, rfl, hxb, hnd⟩
          rcases List.mem_append.mp hx with hx | hx
          · left
            simp only [List.mem_map, List.mem_filter]
            refine ⟨x, ⟨hx, ?_⟩, rfl⟩
            rcases EV.lt_or_eq_of_le (hlb x hx) with h | h
            · exfalso
              have hd : domV 2 y0.2 x.2 = true :=
                (domV2_iff _ _).mpr ⟨by rw [hR y0 hy0 x hx]; exact EV.le_refl _,
                  by rw [← hy0g]; exact hlb x hx, Or.inr (by rw [← hy0g]; exact h)⟩
              rw [hnd y0 (List.mem_append_left _ hy0)] at hd
              exact Bool.noConfusion hd
            · simp [h]
          · right
            refine ⟨x, hx, rfl, ?_, fun y hy => hnd y (List.mem_append_right _ hy)⟩
            have h0 := hnd y0 (List.mem_append_left _ hy0)
            cases hc : EV.lt (cell x.2 1) g
            · exfalso
              have hd : domV 2 y0.2 x.2 = true :=
                (domV2_iff _ _).mpr ⟨EV.lt_imp_le (hlt y0 hy0 x hx),
                  by rw [← hy0g]; exact EV.le_of_not_lt hc, Or.inl (hlt y0 hy0 x hx)⟩
              rw [h0] at hd; exact Bool.noConfusion hd
            · rfl
      · have hgb' : EV.le best g = true := EV.le_of_not_lt (by simpa using hgb)
        rw [if_neg hgb, ih best]
        constructor
        · rintro ⟨x, hx, rfl, hxb, hnd⟩
          refine ⟨x, List.mem_append_right _ hx, rfl, hxb, ?_⟩
          intro y hy
          rcases List.mem_append.mp hy with hy | hy
          · cases hd : domV 2 y.2 x.2
            · rfl
            · have h1 := ((domV2_iff _ _).mp hd).2.1
              have := EV.lt_of_lt_of_le (EV.lt_of_lt_of_le hxb (EV.le_trans hgb' (hlb y hy))) h1
              simp [EV.lt_irrefl] at this
          · exact hnd y hy
        · rintro ⟨x, hx, rfl, hxb, hnd⟩
          rcases List.mem_append.mp hx with hx | hx
          · exfalso
            have := EV.lt_of_lt_of_le hxb (EV.le_trans hgb' (hlb x hx))
            simp [EV.lt_irrefl] at this
          · exact ⟨x, hx, rfl, hxb, fun y hy => hnd y (List.mem_append_right _ hy)⟩

/-- the repaired sweep (first run accepted unconditionally) is exact with no side condition. -/
theorem mem_sweepGoFirst (Rs : List (List Item)) (hok : RunsOK Rs) (i : Nat) :
    i ∈ sweepGoFirst Rs ↔
      ∃ x ∈ Rs.flatten, x.1 = i ∧ ∀ y ∈ Rs.flatten, domV 2 y.2 x.2 = false := by
  induction Rs with
  | nil => simp [sweepGoFirst]
  | cons R Rs ih =>
    cases R with
    | nil => simp only [sweepGoFirst, List.flatten_cons, List.nil_append]; exact ih hok.tail
    | cons x0 xs =>
      have hR : ∀ x ∈ x0 :: xs, ∀ y ∈ x0 :: xs, cell x.2 0 = cell y.2 0 :=
        hok.const _ List.mem_cons_self
      have hlt := hok.head_lt
      have hle := colMin_le 1 (cell x0.2 1) xs
      have hlb : ∀ y ∈ x0 :: xs, EV.le (colMin 1 (cell x0.2 1) xs) (cell y.2 1) = true := by
        intro y hy
        rcases List.mem_cons.mp hy with rfl | hy
        · exact hle.1
        · exact hle.2 y hy
      have hat : ∃ y ∈ x0 :: xs, colMin 1 (cell x0.2 1) xs = cell y.2 1 := by
        rcases colMin_attained 1 (cell x0.2 1) xs with h | ⟨y, hy, h⟩
        · exact ⟨x0, List.mem_cons_self, h⟩
        · exact ⟨y, List.mem_cons_of_mem _ hy, h⟩
      generalize hg : colMin 1 (cell x0.2 1) xs = g at hlb hat
      obtain ⟨y0, hy0, hy0g⟩ := hat
      have hlater : ∀ x ∈ x0 :: xs, ∀ y ∈ Rs.flatten, domV 2 y.2 x.2 = false := by
        intro x hx y hy
        cases hd : domV 2 y.2 x.2
        · rfl
        · have h1 := ((domV2_iff _ _).mp hd).1
          have := EV.lt_of_lt_of_le (hlt x hx y hy) h1
          simp [EV.lt_irrefl] at this
      simp only [sweepGoFirst, hg, List.flatten_cons]
      rw [List.mem_append, mem_sweepGo g Rs hok.tail]
      constructor
      · rintro (h | ⟨x, hx, rfl, hxg, hnd⟩)
        · simp only [List.mem_map, List.mem_filter] at h
          obtain ⟨x, ⟨hx, hxg⟩, rfl⟩ := h
          have hxg : cell x.2 1 = g := by simpa using hxg
          refine ⟨x, List.mem_append_left _ hx, rfl, ?_⟩
          intro y hy
          rcases List.mem_append.mp hy with hy | hy
          · cases hd : domV 2 y.2 x.2
            · rfl
            · obtain ⟨_, _, h | h⟩ := (domV2_iff _ _).mp hd
              · rw [hR y hy x hx, EV.lt_irrefl] at h; exact Bool.noConfusion h
              · rw [hxg] at h
                have := EV.lt_of_le_of_lt (hlb y hy) h
                simp [EV.lt_irrefl] at this
          · exact hlater x hx y hy
        · refine ⟨x, List.mem_append_right _ hx, rfl, ?_⟩
          intro y hy
          rcases List.mem_append.mp hy with hy | hy
          · cases hd : domV 2 y.2 x.2
            · rfl
            · have h1 := ((domV2_iff _ _).mp hd).2.1
              have := EV.lt_of_lt_of_le (EV.lt_of_lt_of_le hxg (hlb y hy)) h1
              simp [EV.lt_irrefl] at this
          · exact hnd y hy
      · rintro ⟨x, hx, rfl, hnd⟩
        rcases List.mem_append.mp hx with hx | hx
        · left
          simp only [List.mem_map, List.mem_filter]
          refine ⟨x, ⟨hx, ?_⟩, rfl⟩
          rcases EV.lt_or_eq_of_le (hlb x hx) with h | h
          · exfalso
            have hd : domV 2 y0.2 x.2 = true :=
              (domV2_iff _ _).mpr ⟨by rw [hR y0 hy0 x hx]; exact EV.le_refl _,
                by rw [← hy0g]; exact hlb x hx, Or.inr (by rw [← hy0g]; exact h)⟩
            rw [hnd y0 (List.mem_append_left _ hy0)] at hd
            exact Bool.noConfusion hd
          · simp [h]
        · right
          refine ⟨x, hx, rfl, ?_, fun y hy => hnd y (List.mem_append_right _ hy)⟩
          have h0 := hnd y0 (List.mem_append_left _ hy0)
          cases hc : EV.lt (cell x.2 1) g
          · exfalso
            have hd : domV 2 y0.2 x.2 = true :=
              (domV2_iff _ _).mpr ⟨EV.lt_imp_le (hlt y0 hy0 x hx),
                by rw [← hy0g]; exact EV.le_of_not_lt hc, Or.inl (hlt y0 hy0 x hx)⟩
            rw [h0] at hd; exact Bool.noConfusion hd
          · rfl

/-- **the repaired 2-D sweep is exact** (no sentinel hypothesis). -/
theorem mem_sweep2F (L : List Item) (i : Nat) :
    i ∈ sweep2F L ↔ ∃ x ∈ L, x.1 = i ∧ (L.any fun y => domV 2 y.2 x.2) = false := by
  unfold sweep2F
  have hs := sorted_isort (fun x y : Item => EV.le (cell x.2 0) (cell y.2 0))
    (fun a b => EV.le_total _ _) (fun a b c => EV.le_trans) L
  rw [mem_sweepGoFirst _ (runsOK_runs _ hs), runs_flat]
  simp only [mem_isort, List.any_eq_false]
  constructor
  · rintro ⟨x, hx, rfl, hnd⟩
    exact ⟨x, hx, rfl, fun y hy => by simp [hnd y hy]⟩
  · rintro ⟨x, hx, rfl, hnd⟩
    exact ⟨x, hx, rfl, fun y hy => by simpa using hnd y hy⟩

/-- **the 2-D sweep is exact below its sentinel.** -/
theorem mem_sweep2 (B : EV) (L : List Item) (hB : ∀ x ∈ L, EV.lt (cell x.2 1) B = true) (i : Nat) :
    i ∈ sweep2 B L ↔ ∃ x ∈ L, x.1 = i ∧ (L.any fun y => domV 2 y.2 x.2) = false := by
  unfold sweep2
  have hs := sorted_isort (fun x y : Item => EV.le (cell x.2 0) (cell y.2 0))
    (fun a b => EV.le_total _ _) (fun a b c => EV.le_trans) L
  rw [mem_sweepGo B _ (runsOK_runs _ hs), runs_flat]
  simp only [mem_isort, List.any_eq_false]
  constructor
  · rintro ⟨x, hx, rfl, _, hnd⟩
    exact ⟨x, hx, rfl, fun y hy => by simp [hnd y hy]⟩
  · rintro ⟨x, hx, rfl, hnd⟩
    exact ⟨x, hx, rfl, hB x hx, fun y hy => by simpa using hnd y hy⟩

end AFV.Pareto
