import AFV.Lemmas.NestTracker2
namespace AFV.Nest

variable {α : Type}

theorem newTrackers_single (seen : List TId) (l' : Lvl) (t' : TId) :
    newTrackers seen l' true [t'] =
      ((if !seen.contains t' then (if seen.contains t' then seen else seen ++ [t']) else seen),
       [{ tensor := t', lvl := l', shouldStop := !seen.contains t', insertUnder := !seen.contains t' }]) := by
  simp [newTrackers]

theorem contains_single (t t' : TId) : ([t'] : List TId).contains t = decide (t = t') := by
  simp [List.contains_cons, eq_comm]

theorem singleTensor_cons (t : TId) (x : RNode α) (X : List (RNode α)) :
    singleTensor t (x :: X) = singleTensor t [x] ++ singleTensor t X := singleTensor_append t [x] X

/-- The holder case of the state machine, seen from tensor `t`. -/
theorem holder_placed (w : Workload α) (t : TId) (nlv : Nat) (isS : Bool) (l' : Lvl) (t' : TId) (r : Mapping α)
    (trs : List Tracker) (seen : List TId) (pend : Option Lvl)
    (hT : PendRel t trs pend) (hseen : pend.isSome = true → seen.contains t = true)
    (hpend : ∀ l, pend = some l → l < nlv ∧ l ∉ holderLevels t ((if isS then Node.storage l' [t'] true else Node.toll l' [t'] true) :: r))
    (hok : [t'].contains t = true → l' < nlv ∧ l' ∉ holderLevels t r)
    (ih : ∀ (trs : List Tracker) (seen : List TId) (pend : Option Lvl), PendRel t trs pend →
      (pend.isSome = true → seen.contains t = true) → (∀ l, pend = some l → l < nlv ∧ l ∉ holderLevels t r) →
      Placed t nlv pend r (singleTensor t (insertReservationsAux w trs seen r))) :
    Placed t nlv pend ((if isS then Node.storage l' [t'] true else Node.toll l' [t'] true) :: r)
      (singleTensor t (insertReservationsAux w trs seen
        ((if isS then Node.storage l' [t'] true else Node.toll l' [t'] true) :: r))) := by
  have hstep : insertReservationsAux w trs seen ((if isS then Node.storage l' [t'] true else Node.toll l' [t'] true) :: r)
      = placeAround (.node (if isS then Node.storage l' [t'] true else Node.toll l' [t'] true))
          (if !seen.contains t' then [RNode.reservation t' l'] else []) (resOf (trs.map stopAll).reverse)
        ++ insertReservationsAux w
            (if !seen.contains t' then [] else [{ tensor := t', lvl := l', shouldStop := !seen.contains t', insertUnder := !seen.contains t' }])
            (if !seen.contains t' then (if seen.contains t' then seen else seen ++ [t']) else seen) r := by
    cases isS <;>
      simp only [insertReservationsAux, newTrackers_single, Bool.false_eq_true, if_false, if_true] <;>
      rw [show (List.map (fun tr => ({ tr with shouldStop := true, insertUnder := false } : Tracker)) trs) = trs.map stopAll from rfl,
        popStopped_holder]
  rw [hstep, singleTensor_append]
  have habove : singleTensor t (resOf (α := α) (trs.map stopAll).reverse) = resOf ((tPart t trs).map stopAll).reverse := by
    rw [singleTensor_resOf', tPart_reverse, tPart_map t trs stopAll stopAll_tensor]
  by_cases htt : t = t'
  · -- a holder of the tensor itself
    subst htt
    have hc : ([t] : List TId).contains t = true := by simp
    obtain ⟨hl', hnot'⟩ := hok hc
    have hnode : singleTensor t [RNode.node (if isS then Node.storage l' [t] true else Node.toll l' [t] true)]
        = ([RNode.node (if isS then Node.storage l' [t] true else Node.toll l' [t] true)] : List (RNode α)) := by
      cases isS <;> simp [singleTensor]
    by_cases htop : seen.contains t = true
    · -- not the first holder: the tracker stays alive
      simp only [htop, Bool.not_true, Bool.false_eq_true, if_false, placeAround_nil]
      have hrec : Placed t nlv (some l') r (singleTensor t (insertReservationsAux w
          [{ tensor := t, lvl := l', shouldStop := false, insertUnder := false }] seen r)) :=
        ih _ seen (some l') ⟨{ tensor := t, lvl := l', shouldStop := false, insertUnder := false }, by simp [tPart], rfl, rfl⟩ (fun _ => htop) (fun l hl => by cases hl; exact ⟨hl', hnot'⟩)
      rw [singleTensor_append, habove, hnode]
      cases pend with
      | none =>
        simp only [PendRel] at hT
        rw [hT]
        simp only [List.map_nil, List.reverse_nil, resOf, List.nil_append, List.singleton_append]
        cases isS
        · exact Placed.holdT l' [t] [t] true true hc hl' hrec
        · exact Placed.holdS l' [t] [t] true true hc hl' hrec
      | some l =>
        obtain ⟨tr0, hT0, hten, hlvl⟩ := hT
        obtain ⟨hl, hnot⟩ := hpend l rfl
        rw [hT0]
        simp only [List.map_cons, List.map_nil, List.reverse_cons, List.reverse_nil, List.nil_append, resOf, stopAll,
          hten, hlvl, List.singleton_append, List.cons_append]
        refine Placed.res l hl hnot ?_
        cases isS
        · exact Placed.holdT l' [t] [t] true true hc hl' hrec
        · exact Placed.holdS l' [t] [t] true true hc hl' hrec
    · -- the first holder of the tensor: its Reservation goes right below it
      have htop' : seen.contains t = false := by simpa using htop
      have hpn : pend = none := by
        cases pend with
        | none => rfl
        | some l => have := hseen rfl; rw [htop'] at this; exact absurd this (by simp)
      subst hpn
      simp only [PendRel] at hT
      simp only [htop', Bool.not_false, if_true, Bool.false_eq_true, if_false, placeAround_one]
      have hrec := ih [] (seen ++ [t]) none (by simp [PendRel, tPart]) (by simp) (by simp)
      rw [singleTensor_cons, hnode, singleTensor_append, habove, hT]
      simp only [List.map_nil, List.reverse_nil, resOf, List.nil_append, singleTensor, if_true, List.singleton_append,
        List.cons_append]
      cases isS
      · exact Placed.holdT l' [t] [t] true true hc hl' (Placed.res l' hl' hnot' hrec)
      · exact Placed.holdS l' [t] [t] true true hc hl' (Placed.res l' hl' hnot' hrec)
  · -- a holder of another tensor: every live tracker stops, the node itself disappears from the view
    have hc : ([t'] : List TId).contains t = false := by rw [contains_single]; exact decide_eq_false htt
    have hnode : singleTensor t [RNode.node (if isS then Node.storage l' [t'] true else Node.toll l' [t'] true)]
        = ([] : List (RNode α)) := by
      cases isS <;> simp only [Bool.false_eq_true, if_false, if_true, singleTensor, hc]
    have htt' : ¬ t' = t := fun h => htt h.symm
    have hresb : singleTensor t [RNode.reservation (α := α) t' l'] = [] := by
      simp only [singleTensor, if_neg htt']
    have hrem : PendRel t (if !seen.contains t' then [] else
        [({ tensor := t', lvl := l', shouldStop := !seen.contains t', insertUnder := !seen.contains t' } : Tracker)]) none := by
      simp only [PendRel, tPart]
      split
      · rfl
      · simp only [List.filter_cons, List.filter_nil]
        rw [if_neg (by simpa using htt')]
    have hrec := ih _ (if !seen.contains t' then (if seen.contains t' then seen else seen ++ [t']) else seen) none hrem
      (by simp) (by simp)
    have hview : singleTensor t
        (placeAround (RNode.node (if isS then Node.storage l' [t'] true else Node.toll l' [t'] true))
          (if (!seen.contains t') = true then [RNode.reservation t' l'] else []) (resOf (trs.map stopAll).reverse))
        = (resOf ((tPart t trs).map stopAll).reverse : List (RNode α)) := by
      by_cases htop : seen.contains t' = true
      · simp only [htop, Bool.not_true, Bool.false_eq_true, if_false, placeAround_nil, singleTensor_append, habove, hnode,
          List.append_nil]
      · have htop' : seen.contains t' = false := by simpa using htop
        simp only [htop', Bool.not_false, if_true, placeAround_one]
        rw [singleTensor_cons, hnode, singleTensor_append, habove, hresb]
        simp
    rw [hview]
    cases pend with
    | none =>
      simp only [PendRel] at hT
      rw [hT]
      simp only [List.map_nil, List.reverse_nil, resOf, List.nil_append]
      cases isS
      · exact Placed.skipT l' [t'] true hc hrec
      · exact Placed.skipS l' [t'] true hc hrec
    | some l =>
      obtain ⟨tr0, hT0, hten, hlvl⟩ := hT
      obtain ⟨hl, hnot⟩ := hpend l rfl
      rw [hT0]
      simp only [List.map_cons, List.map_nil, List.reverse_cons, List.reverse_nil, List.nil_append, resOf, stopAll,
        hten, hlvl, List.singleton_append]
      refine Placed.res l hl hnot ?_
      cases isS
      · exact Placed.skipT l' [t'] true hc hrec
      · exact Placed.skipS l' [t'] true hc hrec

end AFV.Nest

namespace AFV.Nest

variable {α : Type}

theorem updLoop_tensor (w : Workload α) (rv : RV) (tr : Tracker) : (updLoop w rv tr).tensor = tr.tensor := rfl
theorem updLoop_under (w : Workload α) (rv : RV) (tr : Tracker) : (updLoop w rv tr).insertUnder = false := rfl
theorem stopAll_under (tr : Tracker) : (stopAll tr).insertUnder = false := rfl

/-- **The tracker state machine places the Reservations of every tensor as `Placed` requires.** -/
theorem tracker_placed (w : Workload α) (t : TId) (nlv : Nat) (m : Mapping α) :
    ∀ (trs : List Tracker) (seen : List TId) (pend : Option Lvl),
      OKm t nlv m → PendRel t trs pend → (pend.isSome = true → seen.contains t = true) →
      (∀ l, pend = some l → l < nlv ∧ l ∉ holderLevels t m) →
      Placed t nlv pend m (singleTensor t (insertReservationsAux w trs seen m)) := by
  induction m with
  | nil => intro trs seen pend h; exact absurd h (by simp [OKm])
  | cons nd r ih =>
    intro trs seen pend hok hT hseen hpend
    cases nd with
    | compute =>
      simp only [OKm] at hok
      subst hok
      have hstep : insertReservationsAux w trs seen [Node.compute]
          = placeAround (.node .compute) (popStopped (α := α) (trs.map stopAll)).2.1 (popStopped (α := α) (trs.map stopAll)).2.2
            ++ [] := by
        simp only [insertReservationsAux]; rfl
      rw [hstep]
      obtain ⟨hview, _⟩ := step_view (α := α) t trs stopAll stopAll_tensor stopAll_under (.node .compute) []
      rw [hview]
      have hall : ∀ (T : List Tracker), (T.map stopAll).reverse.filter (fun tr => tr.shouldStop) = (T.map stopAll).reverse := by
        intro T; rw [List.filter_eq_self]; intro a ha
        simp only [List.mem_reverse, List.mem_map] at ha; obtain ⟨tr, _, rfl⟩ := ha; rfl
      rw [hall]
      cases pend with
      | none =>
        simp only [PendRel] at hT
        rw [hT]
        exact Placed.compute [] _
      | some l =>
        obtain ⟨tr0, hT0, hten, hlvl⟩ := hT
        obtain ⟨hl, hnot⟩ := hpend l rfl
        rw [hT0]
        simp only [List.map_cons, List.map_nil, List.reverse_cons, List.reverse_nil, List.nil_append, resOf, stopAll,
          hten, hlvl, singleTensor, List.singleton_append, List.append_nil]
        exact Placed.res l hl hnot (Placed.compute [] _)
    | loop rv tile =>
      simp only [OKm] at hok
      have hstep : insertReservationsAux w trs seen (Node.loop rv tile :: r)
          = placeAround (.node (.loop rv tile)) (popStopped (α := α) (trs.map (updLoop w rv))).2.1
              (popStopped (α := α) (trs.map (updLoop w rv))).2.2
            ++ insertReservationsAux w (popStopped (α := α) (trs.map (updLoop w rv))).1 seen r := by
        simp only [insertReservationsAux]; rfl
      rw [hstep]
      obtain ⟨hview, hrem⟩ := step_view (α := α) t trs (updLoop w rv) (updLoop_tensor w rv) (updLoop_under w rv)
        (.node (.loop rv tile)) (insertReservationsAux w (popStopped (α := α) (trs.map (updLoop w rv))).1 seen r)
      rw [hview]
      have hnode : singleTensor t [RNode.node (Node.loop rv tile)] = ([RNode.node (Node.loop rv tile)] : List (RNode α)) := rfl
      rw [hnode]
      cases pend with
      | none =>
        simp only [PendRel] at hT
        rw [hT] at hrem ⊢
        simp only [List.map_nil, List.reverse_nil, List.filter_nil, resOf, List.nil_append, List.singleton_append]
        exact Placed.loopNone rv tile (ih _ seen none hok (by simpa [PendRel] using hrem) (by simp) (by simp))
      | some l =>
        obtain ⟨tr0, hT0, hten, hlvl⟩ := hT
        obtain ⟨hl, hnot⟩ := hpend l rfl
        have hnot' : l ∉ holderLevels t r := hnot
        rw [hT0] at hrem ⊢
        by_cases hrel : w.relevant t rv = true
        · -- the loop indexes the tensor: the Reservation is lowered through it
          have hs : (updLoop w rv tr0).shouldStop = false := by simp [updLoop, hten, hrel]
          simp only [List.map_cons, List.map_nil, List.reverse_cons, List.reverse_nil, List.nil_append, List.filter_cons,
            hs, Bool.false_eq_true, if_false, List.filter_nil, resOf, List.singleton_append, Bool.not_false, if_true] at hrem ⊢
          refine Placed.loopSome l rv tile (ih _ seen (some l) hok ⟨updLoop w rv tr0, hrem, hten, hlvl⟩ hseen ?_)
          intro l2 h2; cases h2; exact ⟨hl, hnot'⟩
        · have hrel' : w.relevant t rv = false := by simpa using hrel
          have hs : (updLoop w rv tr0).shouldStop = true := by simp [updLoop, hten, hrel']
          simp only [List.map_cons, List.map_nil, List.reverse_cons, List.reverse_nil, List.nil_append, List.filter_cons,
            hs, if_true, List.filter_nil, resOf, List.singleton_append, Bool.not_true, Bool.false_eq_true, if_false,
            List.cons_append, List.nil_append] at hrem ⊢
          have : (updLoop w rv tr0).tensor = t := hten
          have h2 : (updLoop w rv tr0).lvl = l := hlvl
          rw [this, h2]
          exact Placed.res l hl hnot (Placed.loopNone rv tile (ih _ seen none hok (by simpa [PendRel] using hrem) (by simp) (by simp)))
    | storage l' ts lo =>
      simp only [OKm] at hok
      obtain ⟨⟨t', rfl⟩, rfl, hk, hokr⟩ := hok
      exact holder_placed w t nlv true l' t' r trs seen pend hT hseen hpend hk
        (fun trs seen pend h1 h2 h3 => ih trs seen pend hokr h1 h2 h3)
    | toll l' ts lo =>
      simp only [OKm] at hok
      obtain ⟨⟨t', rfl⟩, rfl, hk, hokr⟩ := hok
      exact holder_placed w t nlv false l' t' r trs seen pend hT hseen hpend hk
        (fun trs seen pend h1 h2 h3 => ih trs seen pend hokr h1 h2 h3)

end AFV.Nest
