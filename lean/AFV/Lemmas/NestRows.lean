import AFV.Lemmas.NestGlue4
/-!
# Per-tensor result: the real analysis of tensor `t` yields a table related to `simpleN`; facts about `simpleN` entries
-/
namespace AFV.Nest
open AFV.NestExec

theorem tinfo_rvs_nodup (arch : Arch Rat) (w : Workload Nat) (m : Mapping Nat) (hf : WFfacts arch w m) (t : TId) :
    (tinfo arch w t).rvs.Nodup := by
  simp only [tinfo]
  by_cases ht : t < w.tensors.length
  · have : w.tensors.getD t { rvs := [], isOutput := false, bpv := 1 } = w.tensors[t] := by
      simp [List.getD, List.getElem?_eq_getElem ht]
    rw [this]
    exact (hf.tensors _ (List.getElem_mem ht)).2
  · have : w.tensors.getD t { rvs := [], isOutput := false, bpv := 1 } = { rvs := [], isOutput := false, bpv := 1 } := by
      simp [List.getD, List.getElem?_eq_none (Nat.le_of_not_lt ht)]
    rw [this]; exact List.nodup_nil

/-- The real per-tensor analysis succeeds and its counts are those of `simpleN`, scaled. -/
theorem tensor_table (arch : Arch Rat) (wq : Workload Rat) (wn : Workload Nat) (m : Mapping Nat)
    (hf : WFfacts arch wn m) (hc : Compat wq wn) (t : TId) (ht : t < wn.tensors.length) :
    ∃ tb ops, analyzeNodes { arch := arch, w := wq, t := t } false wq.bounds
        (singleTensor t (insertReservations wq (splitHolders (castMapping m)))) = some (tb, ops) ∧
      List.Forall₂ (RelE arch wq t) (proj tb) (simpleN arch (tinfo arch wn t) false wn.bounds m) := by
  have hok := OKm_of_wf arch wn.tensors.length t m wn.bounds hf.loops hf.nodes hf.keys
  have hpl := tracker_placed (α := Rat) wq t arch.levels.length (splitHolders (castMapping m)) [] [] none hok
    (by simp [PendRel, tPart]) (by simp) (by simp)
  obtain ⟨tb, ops, h1, h2⟩ := analyze_placed { arch := arch, w := wq, t := t } none _ _ hpl false wq.bounds
  refine ⟨tb, ops, h1, ?_⟩
  rw [h2, simple_split]
  · rw [hc.bounds]
    refine simple_rel arch wq wn hc t m false false wn.bounds ?_
    exact wfT_of_wf arch wn.tensors.length (tinfo arch wn t) m false wn.bounds hf.bounds hf.loops hf.nodes
      (Or.inr (hf.backed t ht))
  · intro n hn
    simp only [castMapping, List.mem_map] at hn
    obtain ⟨n0, hn0, rfl⟩ := hn
    cases n0 with
    | storage l ts lo => exact (wfNode_storage arch _ l ts lo (hf.nodes _ hn0)).2.2.2.1
    | toll l ts lo => exact (wfNode_toll arch _ l ts lo (hf.nodes _ hn0)).2.2.2.1
    | loop rv tile => trivial
    | compute => trivial

end AFV.Nest
