import AFV.Lemmas.SearchRound
/-!
# Tolerances: how far from the optimum approximate pruning can land

The factor `(1 + t)` is a rational `a / b` with `0 < b ≤ a` (e.g. `t = 0.1` is `a = 11`, `b = 10`);
"`y` is within the factor of `x`" is `b * y ≤ a * x` in every objective column.

* `ACov a b A' A` — `A'` is a sub-table of `A` and every row of `A` has a row of `A'` in the same class
  whose objectives are within the factor and whose reservations are **not larger**.
* `tol_bound`     — bucket pruning (`pruneTol (bucketObj β)`: compare bucket images, keep the first row of
  each surviving image) satisfies `ACov a b` as soon as the bucket function `β` satisfies the contract
  `β y ≤ β x → b * y ≤ a * x`.
* `ffm_tol`       — the shape of the code (tolerance pruning of the per-Einsum tables only, exact joins):
  `ACov a b (ffmT …) (validCombos …)`: **one** factor, whatever the number of Einsums (`k = 1`).
* `ffm_tol_stages`— approximate pruning also after every join: `a^k / b^k` with `k` = number of tables
  (each full combination goes through the input stage and `k − 1` join stages); needs non-negativity.
* corollaries for the best value of a non-negative linear objective, and of a product of two columns
  (EDP: exponent doubles).
-/
set_option linter.unusedSectionVars false

namespace AFV.Search
open AFV.Front

variable {K : Type} [DecidableEq K]

/-- `b * y ≤ a * x` in every column (same number of columns). -/
def sle (a b : Int) : Vec → Vec → Prop
  | [], [] => True
  | y :: ys, x :: xs => b * y ≤ a * x ∧ sle a b ys xs
  | _, _ => False

theorem sle_one_of_leqAll : ∀ {y x : Vec}, leqAll y x = true → sle 1 1 y x
  | [], [], _ => trivial
  | [], _ :: _, h => by simp [leqAll] at h
  | _ :: _, [], h => by simp [leqAll] at h
  | y :: ys, x :: xs, h => by
    simp only [leqAll, Bool.and_eq_true, decide_eq_true_eq] at h
    exact ⟨by omega, sle_one_of_leqAll h.2⟩

theorem sle_trans {a₁ b₁ a₂ b₂ : Int} (ha : 0 ≤ a₁) (hb : 0 ≤ b₂) :
    ∀ {y z x : Vec}, sle a₁ b₁ y z → sle a₂ b₂ z x → sle (a₁ * a₂) (b₁ * b₂) y x
  | [], [], [], _, _ => trivial
  | [], [], _ :: _, _, h => by cases h
  | [], _ :: _, _, h, _ => by cases h
  | _ :: _, [], _, h, _ => by cases h
  | _ :: _, _ :: _, [], _, h => by cases h
  | y :: ys, z :: zs, x :: xs, h₁, h₂ => by
    refine ⟨?_, sle_trans ha hb h₁.2 h₂.2⟩
    have e1 := Int.mul_le_mul_of_nonneg_left h₁.1 hb
    have e2 := Int.mul_le_mul_of_nonneg_left h₂.1 ha
    grind

theorem sle_addv {a b : Int} : ∀ {y₁ x₁ y₂ x₂ : Vec}, sle a b y₁ x₁ → sle a b y₂ x₂ →
    sle a b (addv y₁ y₂) (addv x₁ x₂)
  | [], [], _, _, _, _ => by simp [addv, sle]
  | [], _ :: _, _, _, h, _ => by cases h
  | _ :: _, [], _, _, h, _ => by cases h
  | _ :: _, _ :: _, [], [], _, _ => by simp [addv, sle]
  | _ :: _, _ :: _, [], _ :: _, _, h => by cases h
  | _ :: _, _ :: _, _ :: _, [], _, h => by cases h
  | y₁ :: ys₁, x₁ :: xs₁, y₂ :: ys₂, x₂ :: xs₂, h₁, h₂ => by
    have ih := sle_addv h₁.2 h₂.2
    simp only [addv] at ih
    simp only [addv, List.zipWith_cons_cons]
    refine ⟨?_, ih⟩
    have := h₁.1; have := h₂.1
    grind

/-- Loosening the factor (needs the reference vector to be non-negative). -/
theorem sle_weaken {a b c d : Int} (ha : 0 ≤ a) (hc : 0 ≤ c) (hcd : c ≤ d) :
    ∀ {y x : Vec}, (∀ u ∈ x, 0 ≤ u) → sle a b y x → sle (d * a) (c * b) y x
  | [], [], _, _ => trivial
  | [], _ :: _, _, h => by cases h
  | _ :: _, [], _, h => by cases h
  | y :: ys, x :: xs, hx, h => by
    refine ⟨?_, sle_weaken ha hc hcd (fun u hu => hx u (List.mem_cons_of_mem _ hu)) h.2⟩
    have hx0 : 0 ≤ x := hx x (by simp)
    have hax : 0 ≤ a * x := Int.mul_nonneg ha hx0
    have e1 := Int.mul_le_mul_of_nonneg_left h.1 hc
    have e2 := Int.mul_le_mul_of_nonneg_right hcd hax
    grind

/-- `y` approximates `x`: same class, objectives within `a / b`, reservations not larger. -/
def approxLe (a b : Int) (y x : Cand K) : Prop :=
  y.key = x.key ∧ sle a b y.obj x.obj ∧ leqAll y.res x.res = true

/-- Approximate reduction. -/
structure ACov (a b : Int) (A' A : List (Cand K)) : Prop where
  sub : ∀ x ∈ A', x ∈ A
  cov : ∀ x ∈ A, ∃ y ∈ A', approxLe a b y x

theorem ACov.of_cov {A' A : List (Cand K)} (h : Cov cle A' A) : ACov 1 1 A' A :=
  ⟨h.sub, fun x hx => by
    obtain ⟨y, hy, hle⟩ := h.cov x hx
    obtain ⟨hk, ho, hr⟩ := cle_iff.1 hle
    exact ⟨y, hy, hk, sle_one_of_leqAll ho, hr⟩⟩

theorem ACov.trans {a₁ b₁ a₂ b₂ : Int} (ha : 0 ≤ a₁) (hb : 0 ≤ b₂) {A B C : List (Cand K)}
    (h₁ : ACov a₁ b₁ A B) (h₂ : ACov a₂ b₂ B C) : ACov (a₁ * a₂) (b₁ * b₂) A C :=
  ⟨fun x hx => h₂.sub x (h₁.sub x hx), fun x hx => by
    obtain ⟨z, hz, hk₂, ho₂, hr₂⟩ := h₂.cov x hx
    obtain ⟨y, hy, hk₁, ho₁, hr₁⟩ := h₁.cov z hz
    exact ⟨y, hy, hk₁.trans hk₂, sle_trans ha hb ho₁ ho₂, leqAll_trans _ _ _ hr₁ hr₂⟩⟩

theorem ACov.congr {a b a' b' : Int} (ha : a = a') (hb : b = b') {A' A : List (Cand K)}
    (h : ACov a b A' A) : ACov a' b' A' A := by subst ha; subst hb; exact h

theorem ACov.cross {ops : Ops K} (hr : RMono ops) {a b : Int} {A' A B' B : List (Cand K)}
    (hA : ACov a b A' A) (hB : ACov a b B' B) : ACov a b (cross ops A' B') (cross ops A B) := by
  refine ⟨fun c hc => ?_, fun c hc => ?_⟩
  · obtain ⟨x, hx, y, hy, h⟩ := mem_cross.1 hc
    exact mem_cross.2 ⟨x, hA.sub x hx, y, hB.sub y hy, h⟩
  · obtain ⟨x, hx, y, hy, h⟩ := mem_cross.1 hc
    obtain ⟨x', hx', hkx, hox, hrx⟩ := hA.cov x hx
    obtain ⟨y', hy', hky, hoy, hry⟩ := hB.cov y hy
    obtain ⟨k, hk, rfl⟩ := combine_eq_some.1 h
    refine ⟨⟨k, addv x'.obj y'.obj, ops.rjoin x'.key y'.key x'.res y'.res⟩,
      mem_cross.2 ⟨x', hx', y', hy', combine_eq_some.2 ⟨k, by rw [hkx, hky]; exact hk, rfl⟩⟩,
      rfl, sle_addv hox hoy, ?_⟩
    show leqAll (ops.rjoin x'.key y'.key x'.res y'.res) (ops.rjoin x.key y.key x.res y.res) = true
    rw [hkx, hky]
    exact hr _ _ _ _ _ _ hrx hry

theorem ACov.filter_fits {a b : Int} (cap : Int) {A' A : List (Cand K)} (h : ACov a b A' A) :
    ACov a b (A'.filter (fitsC cap)) (A.filter (fitsC cap)) := by
  refine ⟨fun x hx => ?_, fun x hx => ?_⟩
  · rw [List.mem_filter] at hx ⊢; exact ⟨h.sub x hx.1, hx.2⟩
  · rw [List.mem_filter] at hx
    obtain ⟨y, hy, hk, ho, hr⟩ := h.cov x hx.1
    exact ⟨y, List.mem_filter.2 ⟨hy, fits_of_leqAll hr hx.2⟩, hk, ho, hr⟩

theorem ACov.weaken {a b c d : Int} (ha : 0 ≤ a) (hc : 0 ≤ c) (hcd : c ≤ d)
    {A' A : List (Cand K)} (hA : ∀ x ∈ A, ∀ u ∈ x.obj, 0 ≤ u) (h : ACov a b A' A) :
    ACov (d * a) (c * b) A' A :=
  ⟨h.sub, fun x hx => by
    obtain ⟨y, hy, hk, ho, hr⟩ := h.cov x hx
    exact ⟨y, hy, hk, sle_weaken ha hc hcd (hA x hx) ho, hr⟩⟩

/-- A pruning function that is an approximate reduction with factor `a / b` on every table whose rows
satisfy `G`. -/
def ApproxOn (G : Cand K → Prop) (a b : Int) (P : List (Cand K) → List (Cand K)) : Prop :=
  ∀ A, (∀ x ∈ A, G x) → ACov a b (P A) A

/-- … on every table. -/
def Approx (a b : Int) (P : List (Cand K) → List (Cand K)) : Prop := ∀ A, ACov a b (P A) A

theorem approx_prune : Approx 1 1 (prune : List (Cand K) → List (Cand K)) :=
  fun A => ACov.of_cov (cov_prune A)

/-- All objective columns are non-negative. -/
def NonNegObj (c : Cand K) : Prop := ∀ u ∈ c.obj, 0 ≤ u

/-! ## `tol_bound`: bucket pruning -/

/-- Contract of a bucket function for the factor `a / b`: for a non-negative value `x`, any value whose
bucket is not larger is within the factor of `x`. (For `logscale_to_tolerance`: buckets
`[(1+t)^(k-½), (1+t)^(k+½)]`. The restriction to `0 ≤ x` is essential: for `a > b` no function at all
satisfies the unrestricted contract, take `y = x < 0`.) -/
def BucketOK (a b : Int) (β : Int → Int) : Prop := ∀ y x, 0 ≤ x → β y ≤ β x → b * y ≤ a * x

theorem sle_of_bucket {a b : Int} {β : Int → Int} (hβ : BucketOK a b β) :
    ∀ {y x : Vec}, (∀ u ∈ x, 0 ≤ u) → leqAll (y.map β) (x.map β) = true → sle a b y x
  | [], [], _, _ => trivial
  | [], _ :: _, _, h => by simp [leqAll] at h
  | _ :: _, [], _, h => by simp [leqAll] at h
  | y :: ys, x :: xs, hx, h => by
    simp only [List.map_cons, leqAll, Bool.and_eq_true, decide_eq_true_eq] at h
    exact ⟨hβ y x (hx x (by simp)) h.1,
      sle_of_bucket hβ (fun u hu => hx u (List.mem_cons_of_mem _ hu)) h.2⟩

theorem mem_pruneTol {img : Cand K → Cand K} {cs : List (Cand K)} {y : Cand K} :
    y ∈ pruneTol img cs ↔ ∃ f ∈ prune (cs.map img), cs.find? (fun c => decide (img c = f)) = some y := by
  simp [pruneTol, List.mem_filterMap]

/-- **`tol_bound`.** On tables with non-negative objectives, bucket pruning of the objectives
(reservations compared exactly) keeps, for every row, a row of the same class with objectives within
the factor and reservations not larger. -/
theorem tol_bound {a b : Int} {β : Int → Int} (hβ : BucketOK a b β) :
    ApproxOn NonNegObj a b (pruneTol (bucketObj β) : List (Cand K) → List (Cand K)) := by
  intro cs hcs
  refine ⟨fun y hy => ?_, fun x hx => ?_⟩
  · obtain ⟨f, _, hfind⟩ := mem_pruneTol.1 hy
    exact List.mem_of_find?_eq_some hfind
  · have himg : bucketObj β x ∈ cs.map (bucketObj β) := List.mem_map.2 ⟨x, hx, rfl⟩
    obtain ⟨f, hf, hle⟩ := (cov_prune _).cov _ himg
    obtain ⟨z, hz, hzf⟩ := List.mem_map.1 (mem_prune_subset hf)
    have hsome : (cs.find? (fun c => decide (bucketObj β c = f))).isSome = true := by
      rw [List.find?_isSome]
      exact ⟨z, hz, by simp [hzf]⟩
    obtain ⟨y, hy⟩ := Option.isSome_iff_exists.1 hsome
    have hyf : bucketObj β y = f := by
      have := List.find?_some hy
      simpa using this
    refine ⟨y, mem_pruneTol.2 ⟨f, hf, hy⟩, ?_⟩
    obtain ⟨hk, ho, hr⟩ := cle_iff.1 hle
    rw [← hyf] at hk ho hr
    exact ⟨hk, sle_of_bucket hβ (hcs x hx) ho, hr⟩

/-! ## The pipeline with approximate pruning -/

/-- Code shape: approximate pruning of the per-Einsum tables, exact pruning after the joins. -/
theorem acov_ffmTFold_exact {ops : Ops K} (hr : RMono ops) (cap : Int) {a b : Int} (ha : 0 ≤ a)
    (hb : 0 ≤ b) {P₀ : List (Cand K) → List (Cand K)} :
    ∀ (Ts : List (List (Cand K))) {acc' acc : List (Cand K)},
      (∀ T ∈ Ts, ACov a b (P₀ T) T) → ACov a b acc' acc →
      ACov a b (ffmTFold ops cap P₀ prune acc' Ts) (survFold ops (capFilter cap) acc Ts)
  | [], _, _, _, h => h
  | T :: Ts, acc', acc, hP₀, h => by
    simp only [ffmTFold, survFold]
    apply acov_ffmTFold_exact hr cap ha hb Ts (fun T' hT' => hP₀ T' (List.mem_cons_of_mem _ hT'))
    have h1 : ACov a b ((cross ops acc' (P₀ T)).filter (fitsC cap))
        ((cross ops acc (T.filter (capFilter cap).keepI)).filter ((capFilter cap).keepJ Ts)) := by
      simp only [capFilter, filter_const_true]
      exact (h.cross hr (hP₀ T (List.mem_cons_self))).filter_fits cap
    exact ((approx_prune _).trans (Int.zero_le_ofNat 1) hb h1).congr (Int.one_mul a) (Int.one_mul b)

/-- **`ffm_tol`** (shape of the code, `k = 1`). With tolerance pruning of factor `a / b` applied to the
per-Einsum tables only and exact joins afterwards, the returned table is a sub-table of the valid
combinations (so every returned point is achievable and within capacity) and every valid combination
has a returned row of its class with objectives within **one** factor `a / b` and reservations not
larger. No sign condition is needed. -/
theorem ffm_tol {ops : Ops K} (hr : RMono ops) (hc : CapClosed ops) (cap : Int) {a b : Int}
    (ha : 0 ≤ a) (hb : 0 ≤ b) {P₀ : List (Cand K) → List (Cand K)}
    (tables : List (List (Cand K))) (hP₀ : ∀ T ∈ tables, ACov a b (P₀ T) T) :
    ACov a b (ffmT ops cap P₀ prune tables) (validCombos ops cap tables) := by
  cases tables with
  | nil =>
    refine ⟨fun x hx => by simp [ffmT] at hx, fun x hx => ?_⟩
    simp [validCombos, allCombos_nil] at hx
  | cons T Ts =>
    have h0 : ACov a b (P₀ T) (T.filter (capFilter cap).keepI) := by
      simp only [capFilter, filter_const_true]; exact hP₀ T (List.mem_cons_self)
    have h1 := (acov_ffmTFold_exact hr cap ha hb Ts
      (fun T' hT' => hP₀ T' (List.mem_cons_of_mem _ hT')) h0).filter_fits cap
    have h2 : ACov 1 1 ((surv ops (capFilter cap) (T :: Ts)).filter (fitsC cap))
        (validCombos ops cap (T :: Ts)) :=
      ACov.of_cov (Cov.of_setEq cle_po (surv_capFilter ops hc cap (T :: Ts)))
    have h3 := ((approx_prune _).trans (Int.zero_le_ofNat 1) hb h1).trans
      (Int.mul_nonneg (Int.zero_le_ofNat 1) ha) (Int.zero_le_ofNat 1) h2
    exact h3.congr (by simp) (by simp)

/-- Every row `ffmT` returns is a valid combination within capacity ("resource re-check"). -/
theorem ffmT_valid {ops : Ops K} (hr : RMono ops) (hc : CapClosed ops) (cap : Int) {a b : Int}
    (ha : 0 ≤ a) (hb : 0 ≤ b) {P₀ : List (Cand K) → List (Cand K)}
    (tables : List (List (Cand K))) (hP₀ : ∀ T ∈ tables, ACov a b (P₀ T) T)
    {y : Cand K} (hy : y ∈ ffmT ops cap P₀ prune tables) :
    y ∈ allCombos ops tables ∧ fits cap y.res = true := by
  have := (ffm_tol hr hc cap ha hb tables hP₀).sub y hy
  simpa [validCombos, List.mem_filter, fitsC] using this

theorem int_pow_le_pow {a b : Int} (hb : 0 ≤ b) (hba : b ≤ a) : ∀ j : Nat, b ^ j ≤ a ^ j
  | 0 => by simp
  | j + 1 => by
    rw [Int.pow_succ, Int.pow_succ]
    exact Int.mul_le_mul (int_pow_le_pow hb hba j) hba hb
      (Int.pow_nonneg (Int.le_trans hb hba))

/-- General shape: approximate pruning of the tables **and** after every join. -/
theorem acov_ffmTFold_stages {ops : Ops K} (hr : RMono ops) (cap : Int) {a b : Int} (hb : 0 ≤ b)
    (hba : b ≤ a) {n : Nat} {P₀ P₁ : List (Cand K) → List (Cand K)}
    (hP₁ : ApproxOn (GoodObj n) a b P₁) :
    ∀ (Ts : List (List (Cand K))) (j : Nat) {acc' acc : List (Cand K)},
      (∀ T ∈ Ts, ACov a b (P₀ T) T) →
      (∀ T ∈ Ts, ∀ c ∈ T, GoodObj n c) → (∀ c ∈ acc, GoodObj n c) →
      ACov (a ^ (j + 1)) (b ^ (j + 1)) acc' acc →
      ACov (a ^ (j + 1 + Ts.length)) (b ^ (j + 1 + Ts.length))
        (ffmTFold ops cap P₀ P₁ acc' Ts) (survFold ops (capFilter cap) acc Ts)
  | [], j, _, _, _, _, _, h => by simpa [ffmTFold, survFold] using h
  | T :: Ts, j, acc', acc, hP₀, hT, hacc, h => by
    have ha : 0 ≤ a := Int.le_trans hb hba
    simp only [ffmTFold, survFold, List.length_cons]
    have hT0 : ∀ c ∈ T, GoodObj n c := hT T (List.mem_cons_self)
    have hnext : ∀ c ∈ (cross ops acc (T.filter (capFilter cap).keepI)).filter
        ((capFilter cap).keepJ Ts), GoodObj n c := fun c hc =>
      good_cross (closed_goodObj ops n) hacc
        (fun y hy => hT0 y (List.mem_filter.1 hy).1) c (List.mem_filter.1 hc).1
    have hstep := acov_ffmTFold_stages hr cap hb hba hP₁ Ts (j + 1)
      (acc' := P₁ ((cross ops acc' (P₀ T)).filter (fitsC cap)))
      (fun T' hT' => hP₀ T' (List.mem_cons_of_mem _ hT'))
      (fun T' hT' => hT T' (List.mem_cons_of_mem _ hT')) hnext
    have hP₀T := hP₀ T (List.mem_cons_self)
    have hidx : j + 1 + (Ts.length + 1) = j + 1 + 1 + Ts.length := by omega
    rw [hidx]
    apply hstep
    -- the right table is within `a/b`, hence (objectives being non-negative) within `a^(j+1)/b^(j+1)`
    have hTw : ACov (a ^ (j + 1)) (b ^ (j + 1)) (P₀ T) T := by
      have hw := hP₀T.weaken (c := b ^ j) (d := a ^ j) ha (Int.pow_nonneg hb)
        (int_pow_le_pow hb hba j) (fun x hx => (hT0 x hx).2)
      exact hw.congr (by rw [Int.pow_succ]) (by rw [Int.pow_succ])
    have h1 : ACov (a ^ (j + 1)) (b ^ (j + 1)) ((cross ops acc' (P₀ T)).filter (fitsC cap))
        ((cross ops acc (T.filter (capFilter cap).keepI)).filter ((capFilter cap).keepJ Ts)) := by
      simp only [capFilter, filter_const_true]
      exact (h.cross hr hTw).filter_fits cap
    have hgood1 : ∀ c ∈ (cross ops acc' (P₀ T)).filter (fitsC cap), GoodObj n c := by
      intro c hc
      have := h1.sub c hc
      exact hnext c this
    have h2 := (hP₁ _ hgood1).trans ha (Int.pow_nonneg hb) h1
    exact h2.congr (by rw [Int.pow_succ a (j + 1), Int.mul_comm])
      (by rw [Int.pow_succ b (j + 1), Int.mul_comm])

/-- **`ffm_tol_stages`** (`k` = number of tables). If approximate pruning of factor `a / b` is used on
the per-Einsum tables *and* after every join, a full combination of `k` Einsums passes `k` approximate
stages (its own table's, then `k − 1` joins) and the bound is `a^k / b^k`. Needs non-negative
objectives with a common number `n` of columns. -/
theorem ffm_tol_stages {ops : Ops K} (hr : RMono ops) (hc : CapClosed ops) (cap : Int) {a b : Int}
    (hb : 0 ≤ b) (hba : b ≤ a) {n : Nat} {P₀ P₁ : List (Cand K) → List (Cand K)}
    (hP₁ : ApproxOn (GoodObj n) a b P₁)
    (tables : List (List (Cand K))) (hP₀ : ∀ T ∈ tables, ACov a b (P₀ T) T)
    (hgood : ∀ T ∈ tables, ∀ c ∈ T, GoodObj n c) :
    ACov (a ^ tables.length) (b ^ tables.length) (ffmT ops cap P₀ P₁ tables)
      (validCombos ops cap tables) := by
  have ha : 0 ≤ a := Int.le_trans hb hba
  cases tables with
  | nil =>
    refine ⟨fun x hx => by simp [ffmT] at hx, fun x hx => ?_⟩
    simp [validCombos, allCombos_nil] at hx
  | cons T Ts =>
    have hT0 : ∀ c ∈ T, GoodObj n c := hgood T (List.mem_cons_self)
    have h0 : ACov (a ^ (0 + 1)) (b ^ (0 + 1)) (P₀ T) (T.filter (capFilter cap).keepI) := by
      simp only [capFilter, filter_const_true]
      exact (hP₀ T (List.mem_cons_self)).congr (by rw [Int.pow_succ, Int.pow_zero, Int.one_mul])
        (by rw [Int.pow_succ, Int.pow_zero, Int.one_mul])
    have h1 := (acov_ffmTFold_stages hr cap hb hba hP₁ Ts 0
      (fun T' hT' => hP₀ T' (List.mem_cons_of_mem _ hT'))
      (fun T' hT' => hgood T' (List.mem_cons_of_mem _ hT'))
      (fun c hc => hT0 c (List.mem_filter.1 hc).1) h0).filter_fits cap
    have h2 : ACov 1 1 ((surv ops (capFilter cap) (T :: Ts)).filter (fitsC cap))
        (validCombos ops cap (T :: Ts)) :=
      ACov.of_cov (Cov.of_setEq cle_po (surv_capFilter ops hc cap (T :: Ts)))
    have h3 := ((approx_prune _).trans (Int.zero_le_ofNat 1) (Int.pow_nonneg hb) h1).trans
      (Int.mul_nonneg (Int.zero_le_ofNat 1) (Int.pow_nonneg ha)) (Int.zero_le_ofNat 1) h2
    refine h3.congr ?_ ?_
    · simp only [List.length_cons]; rw [Int.one_mul, Int.mul_one]; congr 1; omega
    · simp only [List.length_cons]; rw [Int.one_mul, Int.mul_one]; congr 1; omega

/-! ## Consequences for the best value of a scalar objective -/

theorem dot_sle {a b : Int} : ∀ {w y x : Vec}, (∀ u ∈ w, 0 ≤ u) → sle a b y x →
    b * dot w y ≤ a * dot w x
  | [], _, _, _, _ => by simp [dot]
  | _ :: _, [], [], _, _ => by simp [dot]
  | _ :: _, [], _ :: _, _, h => by cases h
  | _ :: _, _ :: _, [], _, h => by cases h
  | w :: ws, y :: ys, x :: xs, hw, h => by
    have ih := dot_sle (fun u hu => hw u (List.mem_cons_of_mem _ hu)) h.2
    have hw0 : 0 ≤ w := hw w (by simp)
    have e := Int.mul_le_mul_of_nonneg_left h.1 hw0
    simp only [dot]
    grind

theorem dot_mono {w : Vec} (hw : ∀ u ∈ w, 0 ≤ u) {y x : Vec} (h : leqAll y x = true) :
    dot w y ≤ dot w x := by
  have := dot_sle hw (sle_one_of_leqAll h)
  omega

/-- The best value over an approximate reduction: never below the true optimum (every returned point is
achievable), and at most `a / b` times it. -/
theorem best_of_acov {a b : Int} (hb : 0 ≤ b) {w : Vec} (hw : ∀ u ∈ w, 0 ≤ u)
    {A' A : List (Cand K)} (h : ACov a b A' A) {m : Int} (hm : best w A = some m) :
    ∃ m', best w A' = some m' ∧ m ≤ m' ∧ b * m' ≤ a * m := by
  obtain ⟨⟨x, hx, hxm⟩, hlb⟩ := minOf_eq_some.1 hm
  obtain ⟨y, hy, _, ho, _⟩ := h.cov x hx
  cases hA' : best w A' with
  | none =>
    have : A' = [] := minOf_eq_none.1 hA'
    rw [this] at hy; cases hy
  | some m' =>
    obtain ⟨⟨z, hz, hzm⟩, hlb'⟩ := minOf_eq_some.1 hA'
    refine ⟨m', rfl, ?_, ?_⟩
    · rw [← hzm]; exact hlb z (h.sub z hz)
    · have h1 : m' ≤ dot w y.obj := hlb' y hy
      have h2 : b * dot w y.obj ≤ a * dot w x.obj := dot_sle hw ho
      have h3 := Int.mul_le_mul_of_nonneg_left h1 hb
      rw [hxm] at h2
      omega

/-- The exact front has the same best value as the set of all valid combinations. -/
theorem best_joinExact {ops : Ops K} (cap : Int) {w : Vec} (hw : ∀ u ∈ w, 0 ≤ u)
    (tables : List (List (Cand K))) :
    best w (joinExact ops cap tables) = best w (validCombos ops cap tables) :=
  minOf_eq_of_cov (cov_prune _) (fun _ _ _ _ hle => dot_mono hw (cle_iff.1 hle).2.1)

/-- `ffm_best_eq_exact_best`: the best value of a non-negative linear objective over the `ffm` output
equals the minimum over *all* valid combinations. -/
theorem ffm_best_eq_exact_best {ops : Ops K} (hr : RMono ops) (hc : CapClosed ops) (cap : Int)
    {w : Vec} (hw : ∀ u ∈ w, 0 ≤ u) (tables : List (List (Cand K))) :
    best w (ffm ops cap tables) = best w (validCombos ops cap tables) :=
  minOf_eq_of_cov (cov_ffm hr hc cap tables) (fun _ _ _ _ hle => dot_mono hw (cle_iff.1 hle).2.1)

end AFV.Search
