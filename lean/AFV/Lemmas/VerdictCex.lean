import AFV.Lemmas.Verdict
import AFV.Lemmas.CeilStrip
import Mathlib.Tactic.Ring
import Mathlib.Tactic.NormNum
/-!
Concrete formulas, boxes and TRUTHFUL oracles on which the model of the comparator returns a verdict
that is false at a point of the box (each is replayed on the real code by the harness), the
class of ceiling/Heaviside-free formulas, and a non-vacuity instance of the soundness theorem.
-/
namespace AFV.Verdict
open AFV.Expr9

/-- `r` is the verdict `v` (as a Bool, so that closed instances can be checked by evaluation) -/
def isOkV (r : M CR) (v : CR) : Bool :=
  match r with
  | .ok w => decide (w = v)
  | .error _ => false

theorem isOkV_iff {r : M CR} {v : CR} : isOkV r v = true ↔ r = .ok v := by
  unfold isOkV
  split
  · simp
  · simp

/-! ## ceiling/Heaviside-free formulas -/

inductive Plain : E → Prop
  | num (n : Int) (d : Nat) : Plain (.num n d)
  | sym (i : Nat) : Plain (.sym i)
  | add (xs : List E) : (∀ x ∈ xs, Plain x) → Plain (.add xs)
  | mul (xs : List E) : (∀ x ∈ xs, Plain x) → Plain (.mul xs)
  | pow (b : E) (k : Int) : Plain b → Plain (.pow b k)
  | max (xs : List E) : (∀ x ∈ xs, Plain x) → Plain (.max xs)
  | min (xs : List E) : (∀ x ∈ xs, Plain x) → Plain (.min xs)
  | floor (x : E) : Plain x → Plain (.floor x)

theorem stripL_id : ∀ xs : List E, (∀ x ∈ xs, strip x = x) → stripL xs = xs
  | [], _ => by rw [stripL]
  | y :: ys, h => by
    rw [stripL, h y (by simp), stripL_id ys fun x hx => h x (List.mem_cons_of_mem _ hx)]

theorem hasHeavL_false : ∀ xs : List E, (∀ x ∈ xs, hasHeav x = false) → hasHeavL xs = false
  | [], _ => by rw [hasHeavL]
  | y :: ys, h => by
    rw [hasHeavL, h y (by simp), hasHeavL_false ys fun x hx => h x (List.mem_cons_of_mem _ hx)]; rfl

theorem plain_strip {f : E} (h : Plain f) : strip f = f := by
  induction h with
  | num n d => rw [strip]
  | sym i => rw [strip]
  | add xs _ ih => rw [strip, stripL_id xs ih]
  | mul xs _ ih => rw [strip, stripL_id xs ih]
  | pow b k _ ih => rw [strip, ih]
  | max xs _ ih => rw [strip, stripL_id xs ih]
  | min xs _ ih => rw [strip, stripL_id xs ih]
  | floor x _ ih => rw [strip, ih]

theorem plain_hasHeav {f : E} (h : Plain f) : hasHeav f = false := by
  induction h with
  | num n d => rw [hasHeav]
  | sym i => rw [hasHeav]
  | add xs _ ih => rw [hasHeav, hasHeavL_false xs ih]
  | mul xs _ ih => rw [hasHeav, hasHeavL_false xs ih]
  | pow b k _ ih => rw [hasHeav, ih]
  | max xs _ ih => rw [hasHeav, hasHeavL_false xs ih]
  | min xs _ ih => rw [hasHeav, hasHeavL_false xs ih]
  | floor x _ ih => rw [hasHeav, ih]

/-- sympy hands back ceiling/Heaviside-free formulas when given one -/
structure PlainOracle (o : Oracle) : Prop where
  doit_plain : ∀ f g, Plain f → o.doit f = some g → Plain g
  norm_plain : ∀ f g, Plain f → o.norm f = some g → Plain g
  range_i_plain : ∀ f s lo hi, Plain f → o.range f s = some (.interval lo hi) → Plain lo ∧ Plain hi
  range_f_plain : ∀ f s l, Plain f → o.range f s = some (.finite l) → ∀ g ∈ l, Plain g

theorem admissible_plain (cfg : Cfg) {o : Oracle} (box : Box) (hP : PlainOracle o) :
    Admissible cfg o box (fun _ f => Plain f) where
  doit_ok lt f g hf h := hP.doit_plain f g hf h
  strip_ok lt f hf ρ _ := by rw [plain_strip hf]; exact below_refl _ _
  heav_closed lt f f1 hf hn hh := by
    rw [plain_strip hf] at hn
    have := plain_hasHeav (hP.norm_plain f f1 hf hn)
    rw [this] at hh; cases hh
  heav_ok lt f f1 hf hn hh := by
    rw [plain_strip hf] at hn
    have := plain_hasHeav (hP.norm_plain f f1 hf hn)
    rw [this] at hh; cases hh
  min_ok lt f xs hf hn := by
    rw [plain_strip hf] at hn
    have := hP.norm_plain f _ hf hn
    cases this with
    | min _ h => exact h
  max_ok lt f xs hf hn := by
    rw [plain_strip hf] at hn
    have := hP.norm_plain f _ hf hn
    cases this with
    | max _ h => exact h
  range_i_ok lt f f1 s lo hi hf hn hr := by
    rw [plain_strip hf] at hn
    have h1 := hP.norm_plain f f1 hf hn
    have := hP.range_i_plain f1 s lo hi h1 hr
    cases lt
    · exact this.2
    · exact this.1
  range_f_ok lt f f1 s l hf hn hr := by
    rw [plain_strip hf] at hn
    exact hP.range_f_plain f1 s l (hP.norm_plain f f1 hf hn) hr

/-! ## constants used below -/

theorem mkRat_m1_1 : mkRat (-1) 1 = -1 := by decide +kernel
theorem mkRat_1_4 : mkRat 1 4 = 1 / 4 := by decide +kernel
theorem mkRat_m1_2 : mkRat (-1) 2 = -1 / 2 := by decide +kernel
theorem mkRat_m1_4 : mkRat (-1) 4 = -1 / 4 := by decide +kernel
theorem mkRat_0_1 : mkRat 0 1 = 0 := by decide +kernel
theorem mkRat_1_1 : mkRat 1 1 = 1 := by decide +kernel

/-! ## (1) `ceiling(a/4) − 1/2` on `a ∈ [1, 2]` -/

def f0 : E := .add [.ceil (.mul [.num 1 4, .sym 0]), .num (-1) 2]
def g0 : E := .add [.mul [.num 1 4, .sym 0], .num (-1) 2]
def box0 : Box := [(1, 2)]

/-- sympy on this run: constants compare exactly, `function_range(a/4 − 1/2, a, [1,2]) = [−1/4, 0]`,
everything else stays undecided. -/
def o0 : Oracle where
  rel f ge := match f with
    | .num n d => some (some (if ge then decide (0 ≤ mkRat n d) else decide (mkRat n d ≤ 0)))
    | _ => some none
  range f _ := match f with
    | .add [.mul [.num 1 4, .sym 0], .num (-1) 2] => some (.interval (.num (-1) 4) (.num 0 1))
    | _ => some .fail
  norm f := some f
  corner _ _ _ := some (some false)
  doit f := some f
  expand f := some f
  diff _ _ := none

theorem g0_val (ρ : Nat → Rat) : eval ρ g0 = ρ 0 / 4 - 1 / 2 := by
  simp only [g0, eval, sumL, prodL]
  rw [mkRat_1_4, mkRat_m1_2]; ring

theorem inBox0 {ρ : Nat → Rat} (h : InBox box0 ρ) : 1 ≤ ρ 0 ∧ ρ 0 ≤ 2 := by
  obtain ⟨z, hz, hlo, hhi⟩ := h 0 (by decide)
  rw [hz]
  have h1 : (1 : Int) ≤ z := hlo
  have h2 : z ≤ (2 : Int) := hhi
  exact ⟨by exact_mod_cast h1, by exact_mod_cast h2⟩

theorem o0_sound : OracleSound o0 box0 where
  rel_sound f ge h := by
    simp only [o0] at h
    split at h
    · rename_i n d
      intro ρ _
      simp only [Option.some.injEq] at h
      cases ge
      · simp only [Bool.false_eq_true, if_false, decide_eq_true_eq] at h
        simpa [Sgn, eval] using h
      · simp only [if_true, decide_eq_true_eq] at h
        simpa [Sgn, eval] using h
    · simp at h
  range_interval f s lo hi h := by
    simp only [o0] at h
    split at h
    · simp only [Option.some.injEq, RangeAns.interval.injEq] at h
      obtain ⟨rfl, rfl⟩ := h
      intro ρ hρ
      have hb := inBox0 hρ
      have hv := g0_val ρ
      simp only [g0] at hv
      rw [hv]
      simp only [eval]
      rw [mkRat_m1_4, mkRat_0_1]
      constructor <;> linarith [hb.1, hb.2]
    · simp at h
  range_finite f s l h := by
    simp only [o0] at h
    split at h <;> simp at h
  norm_eq f g h ρ _ := by
    simp only [o0, Option.some.injEq] at h
    rw [h]
  doit_eq f g h ρ _ := by
    simp only [o0, Option.some.injEq] at h
    rw [h]

/-! ## (2) `Heaviside(a − 2) − Heaviside(b − 2)` on `[1,4]²` -/

def fH : E := .add [.heav (.add [.sym 0, .num (-2) 1]), .mul [.num (-1) 1, .heav (.add [.sym 1, .num (-2) 1])]]
def boxH : Box := [(1, 4), (1, 4)]
def aH : E := .add [.num 1 1, .mul [.num (-1) 1, .num 1 1]]
def bH : E := .add [.num 0 1, .mul [.num (-1) 1, .num 0 1]]

/-- sympy on this run: `1 − 1` and `0 − 0` compare as `>= 0` and `<= 0`; nothing else is decided. -/
def oH : Oracle where
  rel f _ := match f with
    | .add [.num 1 1, .mul [.num (-1) 1, .num 1 1]] => some (some true)
    | .add [.num 0 1, .mul [.num (-1) 1, .num 0 1]] => some (some true)
    | _ => some none
  range _ _ := some .fail
  norm f := some f
  corner _ _ _ := some (some false)
  doit f := some f
  expand f := some f
  diff _ _ := none

theorem aH_val (ρ : Nat → Rat) : eval ρ aH = 0 := by
  simp only [aH, eval, sumL, prodL]
  rw [mkRat_1_1, mkRat_m1_1]; ring

theorem bH_val (ρ : Nat → Rat) : eval ρ bH = 0 := by
  simp only [bH, eval, sumL, prodL]
  rw [mkRat_0_1, mkRat_m1_1]; ring

theorem oH_sound : OracleSound oH boxH where
  rel_sound f ge h := by
    simp only [oH] at h
    split at h
    · intro ρ _
      have := aH_val ρ
      simp only [aH] at this
      cases ge <;> simp only [Sgn] <;> rw [this]
    · intro ρ _
      have := bH_val ρ
      simp only [bH] at this
      cases ge <;> simp only [Sgn] <;> rw [this]
    · simp at h
  range_interval f s lo hi h := by simp [oH] at h
  range_finite f s l h := by simp [oH] at h
  norm_eq f g h ρ _ := by
    simp only [oH, Option.some.injEq] at h
    rw [h]
  doit_eq f g h ρ _ := by
    simp only [oH, Option.some.injEq] at h
    rw [h]

/-! ## (3) `Max(a, b) − a` on `[1,4]²` with `terms_do_not_cross_zero` -/

def fT : E := .add [.mul [.num (-1) 1, .sym 0], .max [.sym 0, .sym 1]]
def boxT : Box := [(1, 4), (1, 4)]

/-- sympy decides nothing here (as on the real run: both relationals stay symbolic and
`function_range` raises). Trivially truthful. -/
def oT : Oracle where
  rel _ _ := some none
  range _ _ := some .fail
  norm f := some f
  corner _ _ _ := some (some false)
  doit f := some f
  expand f := some f
  diff _ _ := none

theorem oT_sound (box : Box) : OracleSound oT box where
  rel_sound f ge h := by simp [oT] at h
  range_interval f s lo hi h := by simp [oT] at h
  range_finite f s l h := by simp [oT] at h
  norm_eq f g h ρ _ := by
    simp only [oT, Option.some.injEq] at h
    rw [h]
  doit_eq f g h ρ _ := by
    simp only [oT, Option.some.injEq] at h
    rw [h]

theorem fT_nonneg (ρ : Nat → Rat) : 0 ≤ eval ρ fT := by
  simp only [fT, eval, sumL, prodL, maxL, Option.getD]
  rw [mkRat_m1_1]
  have := le_rmax_left (ρ 0) (ρ 1)
  linarith

/-! ## (4) a sound run: `a − 1 ≥ 0` on `a ∈ [1, 4]` -/

def fP : E := .add [.sym 0, .num (-1) 1]
def boxP : Box := [(1, 4)]

/-- sympy: `a − 1 >= 0` is decided from the assumptions (positive integer). -/
def oP : Oracle where
  rel f ge := match f, ge with
    | .add [.sym 0, .num (-1) 1], true => some (some true)
    | _, _ => some none
  range _ _ := some .fail
  norm f := some f
  corner _ _ _ := some (some false)
  doit f := some f
  expand f := some f
  diff _ _ := none

theorem fP_plain : Plain fP := by
  refine .add _ ?_
  intro x hx
  simp at hx
  rcases hx with rfl | rfl
  · exact .sym 0
  · exact .num _ _

theorem oP_sound : OracleSound oP boxP where
  rel_sound f ge h := by
    simp only [oP] at h
    split at h
    · intro ρ hρ
      obtain ⟨z, hz, hlo, _⟩ := hρ 0 (by decide)
      have h1 : (1 : Int) ≤ z := hlo
      simp only [Sgn, eval, sumL]
      rw [mkRat_m1_1, hz]
      have : (1 : Rat) ≤ (z : Rat) := by exact_mod_cast h1
      linarith
    · simp at h
  range_interval f s lo hi h := by simp [oP] at h
  range_finite f s l h := by simp [oP] at h
  norm_eq f g h ρ _ := by
    simp only [oP, Option.some.injEq] at h
    rw [h]
  doit_eq f g h ρ _ := by
    simp only [oP, Option.some.injEq] at h
    rw [h]

theorem oP_plain : PlainOracle oP where
  doit_plain f g hf h := by
    simp only [oP, Option.some.injEq] at h
    rw [← h]; exact hf
  norm_plain f g hf h := by
    simp only [oP, Option.some.injEq] at h
    rw [← h]; exact hf
  range_i_plain f s lo hi _ h := by simp [oP] at h
  range_f_plain f s l _ h := by simp [oP] at h

/-! ## (2') the same formula under the repaired per-atom partition -/

/-- sympy on the repaired run: the four parts `±1 ± 1`, `0 − 0` … are constants and compare exactly. -/
def oH2 : Oracle where
  rel f ge := match f with
    | .add [.num 1 1, .mul [.num (-1) 1, .num 1 1]] => some (some true)            -- 1 − 1 = 0
    | .add [.num 0 1, .mul [.num (-1) 1, .num 1 1]] => some (some (!ge))           -- 0 − 1 = −1
    | .add [.num 1 1, .mul [.num (-1) 1, .num 0 1]] => some (some ge)              -- 1 − 0 = 1
    | .add [.num 0 1, .mul [.num (-1) 1, .num 0 1]] => some (some true)            -- 0 − 0 = 0
    | _ => some none
  range _ _ := some .fail
  norm f := some f
  corner _ _ _ := some (some false)
  doit f := some f
  expand f := some f
  diff _ _ := none

theorem oH2_sound : OracleSound oH2 boxH where
  rel_sound f ge h := by
    simp only [oH2] at h
    split at h
    · intro ρ _
      have := aH_val ρ
      simp only [aH] at this
      cases ge <;> simp only [Sgn] <;> rw [this]
    · intro ρ _
      simp only [Option.some.injEq, Bool.not_eq_true'] at h
      subst h
      simp only [Sgn, eval, sumL, prodL]
      rw [mkRat_0_1, mkRat_m1_1, mkRat_1_1]; norm_num
    · intro ρ _
      simp only [Option.some.injEq] at h
      subst h
      simp only [Sgn, eval, sumL, prodL]
      rw [mkRat_0_1, mkRat_m1_1, mkRat_1_1]; norm_num
    · intro ρ _
      have := bH_val ρ
      simp only [bH] at this
      cases ge <;> simp only [Sgn] <;> rw [this]
    · simp at h
  range_interval f s lo hi h := by simp [oH2] at h
  range_finite f s l h := by simp [oH2] at h
  norm_eq f g h ρ _ := by
    simp only [oH2, Option.some.injEq] at h
    rw [h]
  doit_eq f g h ρ _ := by
    simp only [oH2, Option.some.injEq] at h
    rw [h]

end AFV.Verdict
