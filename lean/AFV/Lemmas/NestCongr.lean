import AFV.Lemmas.NestSimple
import Mathlib.Tactic.Ring
import Mathlib.Data.Rat.Defs
import Mathlib.Algebra.Order.Field.Rat
/-!
# The reuse analysis does not look at cost parameters

Per-action energies, throughputs, leak power, sizes, `actions_scale` and `n_instances` are used only by the final
assembly (`assemble`); the buffet statistics are the same for two architectures / workloads that differ only there.
-/
namespace AFV.Nest

/-- Two levels agree on everything the reuse analysis reads. -/
structure SameAn (a b : Level Rat) : Prop where
  isToll : b.isToll = a.isToll
  skip : b.skipInitial = a.skipInitial
  bpvOv : b.bpvOv = a.bpvOv
  bpa : b.bpa = a.bpa
  vpa : b.vpa = a.vpa
  dir : b.dir = a.dir
  rbpa : b.read.bpa = a.read.bpa
  rvpa : b.read.vpa = a.read.vpa
  wbpa : b.write.bpa = a.write.bpa
  wvpa : b.write.vpa = a.write.vpa

theorem holderStats_congr (a b : Level Rat) (h : SameAn a b) (t : TId) (ts : TensorSpec Rat) (nt hp : Bool) (shape : List Rat)
    (st : Stats Rat) (ch : Option (Stats Rat)) :
    holderStats b t ts nt hp shape st ch = holderStats a t ts nt hp shape st ch := by
  have hvr : ∀ x, valuesPerAction b b.read t x = valuesPerAction a a.read t x := by
    intro x; simp only [valuesPerAction, h.bpvOv, h.bpa, h.vpa, h.rbpa, h.rvpa]
  have hvw : ∀ x, valuesPerAction b b.write t x = valuesPerAction a a.write t x := by
    intro x; simp only [valuesPerAction, h.bpvOv, h.bpa, h.vpa, h.wbpa, h.wvpa]
  have hd : dirOf b t = dirOf a t := by simp only [dirOf, h.dir]
  simp only [holderStats, holderCounts, hvr, hvw, hd, h.isToll, h.skip]

theorem analyze_congr (c c' : Ctx Rat) (f : Level Rat → Level Rat) (hf : ∀ lv, SameAn lv (f lv))
    (hlv : c'.arch.levels = c.arch.levels.map f) (hcs : c'.arch.compute.skipInitial = c.arch.compute.skipInitial)
    (ht : c'.t = c.t) (hw : c'.w.tensors = c.w.tensors) :
    ∀ (L : List (RNode Rat)) hp shape, analyzeNodes c' hp shape L = analyzeNodes c hp shape L := by
  have hspec : c'.spec = c.spec := by simp only [Ctx.spec, ht, hw]
  have hrel : ∀ rv, c'.w.relevant c'.t rv = c.w.relevant c.t rv := by
    intro rv; simp only [Workload.relevant, ht, hw]
  have hget : ∀ l : Nat, c'.arch.levels[l]? = (c.arch.levels[l]?).map f := by
    intro l; rw [hlv, List.getElem?_map]
  intro L
  induction L with
  | nil => intro hp shape; rfl
  | cons n r ih =>
    intro hp shape
    cases n with
    | reservation t l =>
      simp only [analyzeNodes, ih, hget, hspec, ht]
      cases analyzeNodes c hp shape r with
      | none => rfl
      | some p =>
        cases hl : c.arch.levels[l]? with
        | none => simp
        | some lv => simp [bitsPerValue, (hf lv).bpvOv]
    | node nd =>
      cases nd with
      | compute => simp only [analyzeNodes, hspec, hcs]
      | loop rv tile => simp only [analyzeNodes, ih, hrel]
      | storage l ts lo =>
        simp only [analyzeNodes, ih, analyzeHolder, hget, hspec, ht]
        cases analyzeNodes c true shape r with
        | none => rfl
        | some p =>
          cases hl : c.arch.levels[l]? with
          | none => simp
          | some lv =>
            cases hfind : Table.find p.1 (BKey.mem l) with
            | none => simp [hfind]
            | some s => simp [hfind, holderStats_congr lv (f lv) (hf lv)]
      | toll l ts lo =>
        simp only [analyzeNodes, ih, analyzeHolder, hget, hspec, ht]
        cases analyzeNodes c true shape r with
        | none => rfl
        | some p =>
          cases hl : c.arch.levels[l]? with
          | none => simp
          | some lv =>
            cases hfind : Table.find p.1 (BKey.mem l) with
            | none => simp [hfind]
            | some s => simp [hfind, holderStats_congr lv (f lv) (hf lv)]

theorem allBuffets_congr (arch arch' : Arch Rat) (w w' : Workload Rat) (f : Level Rat → Level Rat) (hf : ∀ lv, SameAn lv (f lv))
    (hlv : arch'.levels = arch.levels.map f) (hcs : arch'.compute.skipInitial = arch.compute.skipInitial)
    (hw : w'.tensors = w.tensors) (hb : w'.bounds = w.bounds) (rm : List (RNode Rat)) :
    ∀ fuel t, allBuffets arch' w' rm t fuel = allBuffets arch w rm t fuel := by
  intro fuel
  induction fuel with
  | zero => intro t; rfl
  | succ n ih =>
    intro t
    simp only [allBuffets, ih, hb]
    rw [analyze_congr { arch := arch, w := w, t := t } { arch := arch', w := w', t := t } f hf hlv hcs rfl hw]

theorem insertReservations_congr (w w' : Workload Rat) (hw : w'.tensors = w.tensors) (m : Mapping Rat) :
    insertReservations w' m = insertReservations w m := by
  have hrel : ∀ t rv, w'.relevant t rv = w.relevant t rv := by intro t rv; simp only [Workload.relevant, hw]
  unfold insertReservations
  generalize ([] : List Tracker) = trs
  generalize ([] : List TId) = seen
  induction m generalizing trs seen with
  | nil => rfl
  | cons n r ih => cases n <;> simp only [insertReservationsAux, hrel, ih]

end AFV.Nest
