import AFV.Lemmas.EinsumScan
/-! `findAll` on a well-formed right-hand side; `_parse_projection` on printed projections. -/
namespace AFV.EinsumStr

theorem findAll_step_match (fuel : Nat) {s n p rest : Str} (h : matchRef s = some (n, p, rest)) :
    findAll (fuel + 1) s = (n, p) :: findAll fuel rest := by
  cases s with
  | nil => simp [matchRef] at h
  | cons c cs => simp [findAll, h]

theorem findAll_step_skip (fuel : Nat) (c : Char) (cs : Str) (h : matchRef (c :: cs) = none) :
    findAll (fuel + 1) (c :: cs) = findAll fuel cs := by
  simp [findAll, h]

theorem findAll_nil (fuel : Nat) : findAll fuel [] = [] := by
  cases fuel <;> rfl

theorem printRef_length (r : Str × Str) : (printRef r).length = r.1.length + r.2.length + 2 := by
  simp [printRef]; omega

/-- A reference as the scanner sees it: a valid name and a projection text without `]`. -/
def RefOK (r : Str × Str) : Prop := validName r.1 = true ∧ ∀ x ∈ r.2, x ≠ ']'

theorem findAll_join (refs : List (Str × Str)) (hv : ∀ r ∈ refs, RefOK r) :
    ∀ fuel, (joinWith '*' (refs.map printRef)).length ≤ fuel →
      findAll fuel (joinWith '*' (refs.map printRef)) = refs := by
  induction refs with
  | nil => intro fuel _; simp [joinWith, findAll_nil]
  | cons r rs ih =>
    intro fuel hf
    have hr := hv r (by simp)
    cases rs with
    | nil =>
      simp only [List.map_cons, List.map_nil, joinWith] at hf ⊢
      have hlen := printRef_length r
      cases fuel with
      | zero => omega
      | succ f =>
        have hm := matchRef_print r.1 r.2 [] hr.1 hr.2
        simp only [List.append_nil] at hm
        rw [findAll_step_match f hm, findAll_nil]
    | cons q qs =>
      simp only [List.map_cons, joinWith] at hf ⊢
      have hlen := printRef_length r
      simp only [List.length_append, List.length_cons] at hf
      cases fuel with
      | zero => omega
      | succ f =>
        have hm := matchRef_print r.1 r.2 ('*' :: joinWith '*' (printRef q :: qs.map printRef)) hr.1 hr.2
        rw [findAll_step_match f hm]
        cases f with
        | zero => omega
        | succ f' =>
          rw [findAll_step_skip f' '*' _ (matchRef_none_of_not_start '*' _ (by decide))]
          have := ih (fun x hx => hv x (by simp only [List.mem_cons] at hx ⊢; exact Or.inr hx)) f'
            (by simp only [List.map_cons]; omega)
          simp only [List.map_cons] at this
          rw [this]

/-- Every match returned by `findAll` is a reference in the scanner's sense. -/
theorem findAll_refOK : ∀ (fuel : Nat) (s : Str), ∀ r ∈ findAll fuel s, RefOK r := by
  intro fuel
  induction fuel with
  | zero => intro s r hr; simp [findAll] at hr
  | succ f ih =>
    intro s r hr
    cases s with
    | nil => simp [findAll] at hr
    | cons c cs =>
      simp only [findAll] at hr
      split at hr
      · rename_i n p rest hm
        simp only [List.mem_cons] at hr
        rcases hr with rfl | hr
        · have := matchRef_sound hm
          exact ⟨this.2.1, this.2.2⟩
        · exact ih rest r hr
      · exact ih cs r hr

/-! ### items -/

theorem dictSet_not_hasKey (acc : Proj) (k v : Str) (h : hasKey acc k = false) :
    dictSet acc k v = acc ++ [(k, v)] := by
  induction acc with
  | nil => rfl
  | cons e es ih =>
    obtain ⟨k', v'⟩ := e
    simp only [hasKey, List.any_cons, Bool.or_eq_false_iff, beq_eq_false_iff_ne, ne_eq] at h
    simp only [dictSet, h.1, if_false, List.cons_append, List.cons.injEq, true_and]
    exact ih (by simpa [hasKey] using h.2)

theorem hasKey_append (acc : Proj) (k v k2 : Str) :
    hasKey (acc ++ [(k, v)]) k2 = (hasKey acc k2 || k == k2) := by
  simp [hasKey]

theorem contains_false_of_all_word (x : Str) (c : Char) (hc : isWord c = false)
    (h : ∀ y ∈ x, isWord y = true) : x.contains c = false := by
  cases hx : x.contains c with
  | false => rfl
  | true =>
    have : c ∈ x := by simpa using hx
    rw [h c this] at hc; exact absurd hc (by decide)

/-- A rank variable as both forms accept it: lower-case letter, word characters, and its upper-case
form is not reserved by `_ISL_REGEX`. -/
def okVar : Str → Bool
  | [] => false
  | c :: cs => c.isLower && cs.all isWord && !clist.contains (upper (c :: cs))

theorem okVar_all_word {x : Str} (h : okVar x = true) : ∀ y ∈ x, isWord y = true := by
  cases x with
  | nil => simp [okVar] at h
  | cons c cs =>
    simp only [okVar, Bool.and_eq_true, List.all_eq_true] at h
    intro y hy
    simp only [List.mem_cons] at hy
    rcases hy with rfl | hy
    · exact alpha_isWord _ (lower_isAlpha _ h.1.1)
    · exact h.1.2 y hy

theorem okVar_islIdent_upper {x : Str} (h : okVar x = true) : islIdent (upper x) = true := by
  cases x with
  | nil => simp [okVar] at h
  | cons c cs =>
    simp only [okVar, Bool.and_eq_true, List.all_eq_true, Bool.not_eq_true'] at h
    obtain ⟨⟨h1, h2⟩, h3⟩ := h
    simp only [upper, List.map_cons] at h3 ⊢
    simp only [islIdent, Bool.and_eq_true, List.all_eq_true, Bool.not_eq_true', h3, and_true]
    refine ⟨?_, ?_⟩
    · rw [toUpper_isAlpha]; exact lower_isAlpha _ h1
    · intro y hy
      simp only [List.mem_map] at hy
      obtain ⟨z, hz, rfl⟩ := hy
      rw [toUpper_isWord]; exact h2 z hz

theorem parseItem_var (acc : Proj) (x : Str) (h : okVar x = true) :
    parseItem acc x = some (dictSet acc (upper x) x) := by
  have hw := okVar_all_word h
  have hcolon : x.contains ':' = false := contains_false_of_all_word x ':' (by decide) hw
  have hid := okVar_islIdent_upper h
  cases x with
  | nil => simp [okVar] at h
  | cons c cs =>
    simp only [okVar, Bool.and_eq_true] at h
    have hu : c.isUpper = false := lower_not_upper c h.1.1
    simp only [parseItem, hcolon, Bool.false_eq_true, if_false, hu, hid, Bool.not_true]

theorem foldItems_vars (xs : List Str) (h : ∀ x ∈ xs, okVar x = true) (acc : Proj) :
    foldItems acc xs = some (xs.foldl (fun d x => dictSet d (upper x) x) acc) := by
  induction xs generalizing acc with
  | nil => rfl
  | cons x xs ih =>
    simp only [foldItems, parseItem_var acc x (h x (by simp)), List.foldl_cons]
    exact ih (fun y hy => h y (by simp [hy])) _

/-- An explicit entry `K: expr` as the concise form can carry it. -/
def okEntry (kv : Str × Str) : Bool :=
  islIdent kv.1 && (match kv.1 with | [] => false | c :: _ => !c.isLower) &&
  kv.2.all (fun c => c != ',' && c != ':' && c != '[' && c != ']' && c != '=' && !isSpace c)

theorem islIdent_all_word {k : Str} (h : islIdent k = true) : ∀ y ∈ k, isWord y = true := by
  cases k with
  | nil => simp [islIdent] at h
  | cons c cs =>
    simp only [islIdent, Bool.and_eq_true, List.all_eq_true] at h
    intro y hy
    simp only [List.mem_cons] at hy
    rcases hy with rfl | hy
    · exact alpha_isWord _ h.1.1
    · exact h.1.2 y hy

theorem okEntry_val {kv : Str × Str} (h : okEntry kv = true) :
    ∀ c ∈ kv.2, c ≠ ',' ∧ c ≠ ':' ∧ c ≠ '[' ∧ c ≠ ']' ∧ c ≠ '=' ∧ isSpace c = false := by
  simp only [okEntry, Bool.and_eq_true, List.all_eq_true] at h
  intro c hc
  have := h.2 c hc
  simpa [and_assoc] using this

theorem parseItem_explicit (acc : Proj) (kv : Str × Str) (h : okEntry kv = true)
    (hk : hasKey acc kv.1 = false) :
    parseItem acc (kv.1 ++ ':' :: kv.2) = some (acc ++ [kv]) := by
  obtain ⟨k, v⟩ := kv
  have hv := okEntry_val h
  simp only [okEntry, Bool.and_eq_true] at h
  obtain ⟨⟨hid, hlow⟩, _⟩ := h
  have hkw := islIdent_all_word hid
  have hc : (k ++ ':' :: v).contains ':' = true := by simp
  have hk1 : ∀ x ∈ k, x ≠ ':' := by
    intro x hx he; subst he; exact absurd (hkw _ hx) (by decide)
  have hv1 : ∀ x ∈ v, x ≠ ':' := fun x hx => (hv x hx).2.1
  have hs : splitOn ':' (k ++ ':' :: v) = [k, v] := by
    rw [splitOn_append_sep ':' k v hk1, splitOn_no_sep ':' v hv1]
  simp only at hid hlow hk
  cases k with
  | nil => simp [islIdent] at hid
  | cons k0 ks =>
    simp only [Bool.not_eq_true'] at hlow
    simp only [parseItem, hc, if_true, hs, hid, Bool.not_true, Bool.false_eq_true, if_false, hlow, hk]

theorem parseItem_shorthand (acc : Proj) (kv : Str × Str) (h : okEntry kv = true)
    (hs : shorthandOK kv.1 kv.2 = true) (hk : hasKey acc kv.1 = false) :
    parseItem acc kv.2 = some (acc ++ [kv]) := by
  obtain ⟨k, v⟩ := kv
  have hv := okEntry_val h
  simp only at hs hk hv
  cases v with
  | nil => simp [shorthandOK] at hs
  | cons c cs =>
    simp only [shorthandOK, Bool.and_eq_true, Bool.not_eq_true', beq_iff_eq] at hs
    obtain ⟨⟨hu, hid⟩, hke⟩ := hs
    have hcolon : (c :: cs).contains ':' = false := by
      cases hx : (c :: cs).contains ':' with
      | false => rfl
      | true =>
        have : ':' ∈ c :: cs := by simpa using hx
        exact absurd rfl (hv _ this).2.1
    simp only [parseItem, hcolon, Bool.false_eq_true, if_false, hu, hid, Bool.not_true]
    rw [← hke, dictSet_not_hasKey acc k (c :: cs) hk]

theorem parseItem_printItem (acc : Proj) (b : Bool) (kv : Str × Str) (h : okEntry kv = true)
    (hk : hasKey acc kv.1 = false) :
    parseItem acc (printItem b kv) = some (acc ++ [kv]) := by
  unfold printItem
  split
  · rename_i hb
    simp only [Bool.and_eq_true] at hb
    exact parseItem_shorthand acc kv h hb.2 hk
  · exact parseItem_explicit acc kv h hk

/-- Keys pairwise different (a Python dict). -/
def keysNodup : Proj → Bool
  | [] => true
  | kv :: r => !hasKey r kv.1 && keysNodup r

theorem hasKey_false_of_forall {acc : Proj} {k : Str} (h : ∀ e ∈ acc, e.1 ≠ k) : hasKey acc k = false := by
  simp only [hasKey, List.any_eq_false, beq_iff_eq]
  exact fun e he => h e he

theorem foldItems_printItems (items : Proj) (sty : List Bool) (acc : Proj)
    (hok : ∀ kv ∈ items, okEntry kv = true) (hnd : keysNodup items = true)
    (hdis : ∀ kv ∈ items, hasKey acc kv.1 = false) :
    foldItems acc (printItems sty items) = some (acc ++ items) := by
  induction items generalizing acc sty with
  | nil => cases sty <;> simp [printItems, foldItems]
  | cons kv r ih =>
    simp only [keysNodup, Bool.and_eq_true, Bool.not_eq_true'] at hnd
    have step : ∀ b sty', foldItems acc (printItem b kv :: printItems sty' r) = some (acc ++ kv :: r) := by
      intro b sty'
      simp only [foldItems, parseItem_printItem acc b kv (hok kv (by simp)) (hdis kv (by simp))]
      rw [ih sty' (acc ++ [kv]) (fun e he => hok e (by simp [he])) hnd.2]
      · simp
      · intro e he
        rw [hasKey_append, hdis e (by simp [he])]
        simp only [Bool.false_or, beq_eq_false_iff_ne, ne_eq]
        intro hke
        have : hasKey r kv.1 = true := by
          simp only [hasKey, List.any_eq_true, beq_iff_eq]
          exact ⟨e, he, hke.symm⟩
        rw [hnd.1] at this; exact absurd this (by decide)
    cases sty with
    | nil => exact step false []
    | cons b bs => exact step b bs

end AFV.EinsumStr
