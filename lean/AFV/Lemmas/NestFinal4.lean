import AFV.Lemmas.NestFinal3
namespace AFV.Nest
open AFV.NestExec

def scaleNi (ni : Rat) (x : Lvl × TId × Rat × Rat) : Lvl × TId × Rat × Rat := (x.1, x.2.1, x.2.2.1 * ni, x.2.2.2 * ni)

/-- All rows of the reference execution, before `n_instances`. -/
def rowsE (arch : Arch Rat) (wq : Workload Rat) (wn : Workload Nat) (m : Mapping Nat) (t fuel : Nat) :
    List (Lvl × TId × Rat × Rat) :=
  (List.range' t fuel).flatMap (fun t => (holderLevels t m).map (rowE arch wq wn m t))

theorem exec_actions (arch : Arch Rat) (wq : Workload Rat) (wn : Workload Nat) (m : Mapping Nat) :
    (exec arch wq wn m).actions = (rowsE arch wq wn m 0 wn.tensors.length).map (scaleNi wq.nInstances) := by
  unfold exec rowsE
  simp only [List.map_flatMap, List.map_map, List.flatMap_map, List.range_eq_range', holdersOf_eq]
  rfl

theorem allBuffets_spec (arch : Arch Rat) (wq : Workload Rat) (wn : Workload Nat) (m : Mapping Nat)
    (hf : WFfacts arch wn m) (hc : Compat wq wn) :
    ∀ fuel t, t + fuel ≤ wn.tensors.length →
      ∃ bs, allBuffets arch wq (insertReservations wq (splitHolders (castMapping m))) t fuel = some bs ∧
        bs.map (rowA arch) = rowsE arch wq wn m t fuel := by
  intro fuel
  induction fuel with
  | zero => intro t _; exact ⟨[], rfl, by simp [rowsE]⟩
  | succ fuel ih =>
    intro t ht
    have htt : t < wn.tensors.length := by omega
    obtain ⟨tb, ops, h1, h2⟩ := tensor_table arch wq wn m hf hc t htt
    obtain ⟨bs, h3, h4⟩ := ih (t + 1) (by omega)
    refine ⟨tableBuffets t tb ++ bs, by simp only [allBuffets, h1, h3], ?_⟩
    have hwfT := wfT_of_wf arch wn.tensors.length (tinfo arch wn t) m false wn.bounds hf.bounds hf.loops hf.nodes
      (Or.inr (hf.backed t htt))
    have hkeys : tb.map (·.1) = (holderLevels t m).map BKey.mem ++ [BKey.comp] := by
      have h5 := forall₂_keys arch wq t h2
      have h6 : (simpleN arch (tinfo arch wn t) false wn.bounds m).map (·.1)
          = (holderLevels t m).map BKey.mem ++ [BKey.comp] :=
        keys_simpleN arch (tinfo arch wn t) m false false wn.bounds hwfT
      have h7 : (proj tb).map (·.1) = tb.map (·.1) := by simp [proj, List.map_map]
      rw [← h7, h5, h6]
    have hrows := rows_tensor arch t (rowE arch wq wn m t) (holderLevels t m) tb hkeys
      (fun l s hm => entry_actions arch wq wn m hf t htt tb h2 l s hm)
    rw [List.map_append, hrows, h4]
    simp [rowsE, List.range'_succ]

end AFV.Nest
