import AFV.Lemmas.Verdict
import Mathlib.Tactic.Positivity
/-!
When is `f.replace(ceiling(x) ↦ x)` harmless?  `Mono ρ up f` is a syntactic-with-side-conditions
certificate that, at the point `ρ`, `f` is monotone in every stripped term in direction `up`:
`up = true` gives `eval (strip f) ≤ eval f` (what the "may be negative?" check needs),
`up = false` gives `eval f ≤ eval (strip f)` (what the "may be positive?" check needs).
-/
namespace AFV.Verdict
open AFV.Expr9

/-- the smaller of the two values compared in direction `up` -/
def lowerV (ρ : Nat → Rat) (up : Bool) (x : E) : Rat := if up then eval ρ (strip x) else eval ρ x

inductive Mono (ρ : Nat → Rat) : Bool → E → Prop
  | num (up : Bool) (n : Int) (d : Nat) : Mono ρ up (.num n d)
  | sym (up : Bool) (i : Nat) : Mono ρ up (.sym i)
  | add (up : Bool) (xs : List E) : (∀ x ∈ xs, Mono ρ up x) → Mono ρ up (.add xs)
  | max (up : Bool) (xs : List E) : (∀ x ∈ xs, Mono ρ up x) → Mono ρ up (.max xs)
  | min (up : Bool) (xs : List E) : (∀ x ∈ xs, Mono ρ up x) → Mono ρ up (.min xs)
  /-- `x ≤ ceiling(x)`: only the upward direction -/
  | ceil (x : E) : Mono ρ true x → Mono ρ true (.ceil x)
  | floor (up : Bool) (x : E) : Mono ρ up x → Mono ρ up (.floor x)
  | heav (up : Bool) (x : E) : Mono ρ up x → Mono ρ up (.heav x)
  /-- a product of factors that are all non-negative (at their smaller value) -/
  | mulPos (up : Bool) (xs : List E) : (∀ x ∈ xs, Mono ρ up x) → (∀ x ∈ xs, 0 ≤ lowerV ρ up x) →
      Mono ρ up (.mul xs)
  /-- a non-positive constant factor flips the direction -/
  | mulNeg (up : Bool) (n : Int) (d : Nat) (xs : List E) : n ≤ 0 → Mono ρ (!up) (.mul xs) →
      Mono ρ up (.mul (.num n d :: xs))
  | powNonneg (up : Bool) (b : E) (k : Int) : 0 ≤ k → Mono ρ up b → 0 ≤ lowerV ρ up b → Mono ρ up (.pow b k)
  /-- a reciprocal power of a positive base flips the direction -/
  | powNeg (up : Bool) (b : E) (k : Int) : k < 0 → Mono ρ (!up) b → 0 < lowerV ρ (!up) b → Mono ρ up (.pow b k)

/-! ### list lemmas -/

theorem below_trans_add {up : Bool} {a b c d : Rat} (h1 : Below up a b) (h2 : Below up c d) :
    Below up (a + c) (b + d) := by
  cases up <;> simp only [Below] at * <;> linarith

theorem sumL_below (ρ : Nat → Rat) (up : Bool) : ∀ xs : List E,
    (∀ x ∈ xs, Below up (eval ρ (strip x)) (eval ρ x)) → Below up (sumL ρ (stripL xs)) (sumL ρ xs)
  | [], _ => by rw [stripL, sumL]; exact below_refl _ _
  | y :: ys, h => by
    rw [stripL, sumL, sumL]
    exact below_trans_add (h y (by simp)) (sumL_below ρ up ys fun x hx => h x (List.mem_cons_of_mem _ hx))

theorem rmax_mono {a b a' b' : Rat} (ha : a ≤ a') (hb : b ≤ b') : rmax a b ≤ rmax a' b' := by
  rcases rmax_cases a b with h | h <;> rw [h]
  · exact le_trans ha (le_rmax_left _ _)
  · exact le_trans hb (le_rmax_right _ _)

theorem rmin_mono {a b a' b' : Rat} (ha : a ≤ a') (hb : b ≤ b') : rmin a b ≤ rmin a' b' := by
  rcases rmin_cases a' b' with h | h <;> rw [h]
  · exact le_trans (rmin_le_left _ _) ha
  · exact le_trans (rmin_le_right _ _) hb

/-- pointwise order on optional values (both `none` or both `some`) -/
def OptBelow (up : Bool) : Option Rat → Option Rat → Prop
  | none, none => True
  | some a, some b => Below up a b
  | _, _ => False

theorem maxL_below (ρ : Nat → Rat) (up : Bool) : ∀ xs : List E,
    (∀ x ∈ xs, Below up (eval ρ (strip x)) (eval ρ x)) → OptBelow up (maxL ρ (stripL xs)) (maxL ρ xs)
  | [], _ => by rw [stripL, maxL]; trivial
  | y :: ys, h => by
    have ih := maxL_below ρ up ys fun x hx => h x (List.mem_cons_of_mem _ hx)
    have hy := h y (by simp)
    rw [stripL, maxL, maxL]
    cases h1 : maxL ρ (stripL ys) <;> cases h2 : maxL ρ ys <;> rw [h1, h2] at ih <;>
      simp only [OptBelow] at ih ⊢
    · exact hy
    · cases up <;> simp only [Below] at * <;> exact rmax_mono hy ih

theorem minL_below (ρ : Nat → Rat) (up : Bool) : ∀ xs : List E,
    (∀ x ∈ xs, Below up (eval ρ (strip x)) (eval ρ x)) → OptBelow up (minL ρ (stripL xs)) (minL ρ xs)
  | [], _ => by rw [stripL, minL]; trivial
  | y :: ys, h => by
    have ih := minL_below ρ up ys fun x hx => h x (List.mem_cons_of_mem _ hx)
    have hy := h y (by simp)
    rw [stripL, minL, minL]
    cases h1 : minL ρ (stripL ys) <;> cases h2 : minL ρ ys <;> rw [h1, h2] at ih <;>
      simp only [OptBelow] at ih ⊢
    · exact hy
    · cases up <;> simp only [Below] at * <;> exact rmin_mono hy ih

theorem optBelow_getD {up : Bool} {a b : Option Rat} (h : OptBelow up a b) : Below up (a.getD 0) (b.getD 0) := by
  cases a <;> cases b <;> simp only [OptBelow] at h
  · exact below_refl _ _
  · exact h

/-- products of factors that are non-negative at their smaller value -/
theorem prodL_below (ρ : Nat → Rat) (up : Bool) : ∀ xs : List E,
    (∀ x ∈ xs, Below up (eval ρ (strip x)) (eval ρ x)) → (∀ x ∈ xs, 0 ≤ lowerV ρ up x) →
    Below up (prodL ρ (stripL xs)) (prodL ρ xs) ∧ 0 ≤ (if up then prodL ρ (stripL xs) else prodL ρ xs)
  | [], _, _ => by
    rw [stripL, prodL]
    exact ⟨below_refl _ _, by split <;> norm_num⟩
  | y :: ys, h, hp => by
    obtain ⟨ih, ihp⟩ := prodL_below ρ up ys (fun x hx => h x (List.mem_cons_of_mem _ hx))
      (fun x hx => hp x (List.mem_cons_of_mem _ hx))
    have hy := h y (by simp)
    have hyp := hp y (by simp)
    rw [stripL, prodL, prodL]
    cases up
    · simp only [Below, lowerV, Bool.false_eq_true, if_false] at *
      -- eval y ≤ eval (strip y), prodL ys ≤ prodL (stripL ys), 0 ≤ eval y, 0 ≤ prodL ys
      exact ⟨mul_le_mul hy ih ihp (le_trans hyp hy), mul_nonneg hyp ihp⟩
    · simp only [Below, lowerV, if_true] at *
      exact ⟨mul_le_mul hy ih ihp (le_trans hyp hy), mul_nonneg hyp ihp⟩

theorem mkRat_nonpos {n : Int} (d : Nat) (h : n ≤ 0) : mkRat n d ≤ 0 := by
  rcases Nat.eq_zero_or_pos d with hd | hd
  · subst hd; simp
  · rw [Rat.mkRat_eq_div]
    apply div_nonpos_of_nonpos_of_nonneg
    · exact_mod_cast h
    · positivity

theorem heavQ_mono {a b : Rat} (h : a ≤ b) : heavQ a ≤ heavQ b := by
  unfold heavQ
  have half : (0 : Rat) ≤ mkRat 1 2 ∧ mkRat 1 2 ≤ 1 := by
    constructor <;> rw [Rat.mkRat_eq_div] <;> norm_num
  split <;> split <;> try split <;> try split
  all_goals linarith [half.1, half.2]

theorem ceil_mono {a b : Rat} (h : a ≤ b) : ((a.ceil : Int) : Rat) ≤ ((b.ceil : Int) : Rat) := by
  have : a.ceil ≤ b.ceil := Rat.ceil_le_iff.mpr (le_trans h Rat.le_ceil)
  exact_mod_cast this

theorem floor_mono {a b : Rat} (h : a ≤ b) : ((a.floor : Int) : Rat) ≤ ((b.floor : Int) : Rat) := by
  have : a.floor ≤ b.floor := Rat.le_floor_iff.mpr (le_trans (Rat.floor_le a) h)
  exact_mod_cast this

theorem ratPow_nonneg_mono {a b : Rat} {k : Int} (hk : 0 ≤ k) (h0 : 0 ≤ a) (h : a ≤ b) :
    ratPow a k ≤ ratPow b k := by
  unfold ratPow
  simp only [hk, if_true]
  exact pow_le_pow_left₀ h0 h _

theorem ratPow_neg_anti {a b : Rat} {k : Int} (hk : k < 0) (h0 : 0 < a) (h : a ≤ b) :
    ratPow b k ≤ ratPow a k := by
  unfold ratPow
  simp only [not_le.mpr hk, if_false]
  have ha : 0 < a ^ (-k).toNat := pow_pos h0 _
  exact inv_anti₀ ha (pow_le_pow_left₀ (le_of_lt h0) h _)

/-! ### the theorem -/

/-- If `f` carries a `Mono` certificate at `ρ`, stripping every `ceiling` moves the value of `f`
to the safe side for that direction. -/
theorem mono_strip {ρ : Nat → Rat} {up : Bool} {f : E} (h : Mono ρ up f) :
    Below up (eval ρ (strip f)) (eval ρ f) := by
  induction h with
  | num up n d => rw [strip]; exact below_refl _ _
  | sym up i => rw [strip]; exact below_refl _ _
  | add up xs _ ih => rw [strip, eval, eval]; exact sumL_below ρ up xs ih
  | max up xs _ ih => rw [strip, eval, eval]; exact optBelow_getD (maxL_below ρ up xs ih)
  | min up xs _ ih => rw [strip, eval, eval]; exact optBelow_getD (minL_below ρ up xs ih)
  | ceil x _ ih =>
    rw [strip, eval]
    simp only [Below] at *
    exact le_trans ih Rat.le_ceil
  | floor up x _ ih =>
    rw [strip, eval, eval]
    cases up <;> simp only [Below] at * <;> exact floor_mono ih
  | heav up x _ ih =>
    rw [strip, eval, eval]
    cases up <;> simp only [Below] at * <;> exact heavQ_mono ih
  | mulPos up xs _ hp ih => rw [strip, eval, eval]; exact (prodL_below ρ up xs ih hp).1
  | mulNeg up n d xs hn _ ih =>
    rw [strip, eval] at ih
    rw [strip, stripL, strip, eval, eval, prodL, prodL, eval]
    rw [eval] at ih
    have hc := mkRat_nonpos d hn
    cases up <;> simp only [Below, Bool.not_false, Bool.not_true] at *
    · exact mul_le_mul_of_nonpos_left ih hc
    · exact mul_le_mul_of_nonpos_left ih hc
  | powNonneg up b k hk _ hp ih =>
    rw [strip, eval, eval]
    cases up <;> simp only [Below, lowerV, Bool.false_eq_true, if_false, if_true] at *
    · exact ratPow_nonneg_mono hk hp ih
    · exact ratPow_nonneg_mono hk hp ih
  | powNeg up b k hk _ hp ih =>
    rw [strip, eval, eval]
    cases up <;> simp only [Below, lowerV, Bool.not_false, Bool.not_true, Bool.false_eq_true,
      if_false, if_true] at *
    · exact ratPow_neg_anti hk hp ih
    · exact ratPow_neg_anti hk hp ih

end AFV.Verdict
