import AFV.Spec.SetAlg
import Mathlib.Data.List.Nodup
/-!
Helper lemmas for C22 / C29: membership and `Nodup` for the list-encoded frozenset operations,
table lookup through concatenations, the "append if absent" merge.
-/
namespace AFV.SetAlg

@[simp] theorem mem_inter {a b : List Name} {x : Name} : x ∈ inter a b ↔ x ∈ a ∧ x ∈ b := by
  simp [inter, List.mem_filter]

@[simp] theorem mem_union {a b : List Name} {x : Name} : x ∈ union a b ↔ x ∈ a ∨ x ∈ b := by
  simp only [union, List.mem_append, List.mem_filter, Bool.not_eq_true']
  by_cases h : x ∈ a <;> simp [h]

@[simp] theorem mem_diff {a b : List Name} {x : Name} : x ∈ diff a b ↔ x ∈ a ∧ x ∉ b := by
  simp [diff, List.mem_filter]

@[simp] theorem mem_symm {a b : List Name} {x : Name} :
    x ∈ symm a b ↔ (x ∈ a ∧ x ∉ b) ∨ (x ∈ b ∧ x ∉ a) := by
  simp [symm]

theorem mem_dedup {l : List Name} {x : Name} : x ∈ dedup l ↔ x ∈ l := by
  induction l with
  | nil => simp [dedup]
  | cons y ys ih =>
    simp only [dedup, List.mem_cons, List.mem_filter, ih]
    by_cases h : x = y <;> simp [h]

theorem nodup_dedup (l : List Name) : (dedup l).Nodup := by
  induction l with
  | nil => simp [dedup]
  | cons y ys ih =>
    simp only [dedup, List.nodup_cons, List.mem_filter]
    exact ⟨by simp, ih.filter _⟩

theorem nodup_inter {a b : List Name} (ha : a.Nodup) : (inter a b).Nodup := ha.filter _
theorem nodup_diff {a b : List Name} (ha : a.Nodup) : (diff a b).Nodup := ha.filter _
theorem nodup_union {a b : List Name} (ha : a.Nodup) (hb : b.Nodup) : (union a b).Nodup := by
  unfold union
  rw [List.nodup_append]
  refine ⟨ha, hb.filter _, ?_⟩
  intro x hx y hy hxy
  subst hxy
  simp [List.mem_filter] at hy
  exact hy.2 hx
theorem nodup_symm {a b : List Name} (ha : a.Nodup) (hb : b.Nodup) : (symm a b).Nodup := by
  unfold symm
  rw [List.nodup_append]
  refine ⟨nodup_diff ha, nodup_diff hb, ?_⟩
  intro x hx y hy hxy
  subst hxy
  simp at hx hy
  exact hx.2 hy.1

/-! ## lookup -/

theorem lookup_append (a b : Table) (n : Name) :
    lookup (a ++ b) n = (lookup a n).or (lookup b n) := by
  induction a with
  | nil => simp [lookup]
  | cons p ps ih =>
    obtain ⟨k, v⟩ := p
    simp only [List.cons_append, lookup]
    by_cases h : (k == n) = true <;> simp [h, ih]

theorem lookup_eq_none_iff (a : Table) (n : Name) : lookup a n = none ↔ ∀ p ∈ a, p.1 ≠ n := by
  induction a with
  | nil => simp [lookup]
  | cons p ps ih =>
    obtain ⟨k, v⟩ := p
    simp only [lookup, List.mem_cons, forall_eq_or_imp]
    by_cases h : k = n
    · simp [h]
    · have : (k == n) = false := by simpa using h
      simp [this, ih, h]

theorem lookup_mem {a : Table} {n : Name} {v : ISet} (h : lookup a n = some v) : (n, v) ∈ a := by
  induction a with
  | nil => simp [lookup] at h
  | cons p ps ih =>
    obtain ⟨k, w⟩ := p
    simp only [lookup] at h
    by_cases hk : k = n
    · subst hk; simp at h; subst h; simp
    · have : (k == n) = false := by simpa using hk
      simp [this] at h
      exact List.mem_cons_of_mem _ (ih h)

/-- In a reversed list the LAST binding of a key wins; if all bindings of `n` agree, that is it. -/
theorem lookup_reverse_of_all_eq {l : List (Name × ISet)} {n : Name} {v : ISet}
    (hex : ∃ p ∈ l, p.1 = n) (hall : ∀ p ∈ l, p.1 = n → p.2 = v) :
    lookup l.reverse n = some v := by
  cases h : lookup l.reverse n with
  | none =>
    rw [lookup_eq_none_iff] at h
    obtain ⟨p, hp, hpn⟩ := hex
    exact absurd hpn (h p (by simpa using hp))
  | some w =>
    have := lookup_mem h
    have hm : (n, w) ∈ l := by simpa using this
    have := hall _ hm rfl
    simp at this
    rw [this]

end AFV.SetAlg
