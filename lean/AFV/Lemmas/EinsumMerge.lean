import AFV.Model.EinsumStr
/-! `_parse_einsum_entry`: the merge of extra tensor-access attributes. -/
namespace AFV.EinsumStr

/-- What the property observes of a tensor access: name, projection, output flag. -/
def core {V} (a : MAccess V) : Str × Proj × Bool := (a.name, a.proj, a.output)

theorem setAttrs_core {V} (a a' : MAccess V) (kvs : List (String × V)) (h : setAttrs a kvs = some a') :
    core a' = core a := by
  induction kvs generalizing a with
  | nil => simp only [setAttrs, Option.some.injEq] at h; subst h; rfl
  | cons kv r ih =>
    obtain ⟨k, v⟩ := kv
    simp only [setAttrs] at h
    split at h
    · simp at h
    · have := ih _ h
      simpa [core] using this

theorem setAttrs_conflict {V} (kvs : List (String × V))
    (h : ∃ kv ∈ kvs, kv.1 = "projection" ∨ kv.1 = "output") : ∀ a : MAccess V, setAttrs a kvs = none := by
  induction kvs with
  | nil => simp at h
  | cons kv r ih =>
    obtain ⟨k, v⟩ := kv
    intro a
    simp only [setAttrs]
    split
    · rfl
    · rename_i hk
      simp only [Bool.or_eq_true, beq_iff_eq, not_or] at hk
      obtain ⟨x, hx, hc⟩ := h
      simp only [List.mem_cons] at hx
      rcases hx with rfl | hx
      · simp only at hc; rcases hc with hc | hc
        · exact absurd hc hk.1.1
        · exact absurd hc hk.1.2
      · exact ih ⟨x, hx, hc⟩ _

theorem setAttrs_duplicate {V} (a : MAccess V) (k : String) (v : V) (kvs : List (String × V))
    (h : a.extra.any (fun e => e.1 == k) = true) (hk : (k, v) ∈ kvs) : setAttrs a kvs = none := by
  induction kvs generalizing a with
  | nil => simp at hk
  | cons kv r ih =>
    obtain ⟨k', v'⟩ := kv
    simp only [setAttrs]
    split
    · rfl
    · rename_i hc
      simp only [List.mem_cons, Prod.mk.injEq] at hk
      rcases hk with ⟨rfl, rfl⟩ | hk
      · simp only [Bool.or_eq_true, not_or] at hc
        exact absurd h hc.2
      · apply ih _ _ hk
        simp only [List.any_append, Bool.or_eq_true]
        exact Or.inl h

theorem applyTo_core {V} (n : Str) (attrs : List (String × V)) (accs res : List (MAccess V))
    (h : applyTo n attrs accs = some res) : res.map core = accs.map core := by
  induction accs generalizing res with
  | nil => simp only [applyTo, Option.some.injEq] at h; subst h; rfl
  | cons b bs ih =>
    simp only [applyTo] at h
    split at h
    · simp at h
    · rename_i b' hb
      split at h
      · simp at h
      · rename_i bs' hbs
        simp only [Option.some.injEq] at h
        subst h
        simp only [List.map_cons, ih bs' hbs, List.cons.injEq, and_true]
        split at hb
        · exact setAttrs_core b b' attrs hb
        · simp only [Option.some.injEq] at hb; subst hb; rfl

theorem applyTo_none {V} (n : Str) (attrs : List (String × V)) (accs : List (MAccess V))
    (hn : ∀ a : MAccess V, setAttrs a attrs = none) (hany : accs.any (fun b => b.name == n) = true) :
    applyTo n attrs accs = none := by
  induction accs with
  | nil => simp at hany
  | cons b bs ih =>
    simp only [applyTo]
    by_cases hb : (b.name == n) = true
    · simp [hb, hn]
    · simp only [hb, if_false]
      simp only [List.any_cons, hb, Bool.false_or] at hany
      simp [ih hany]

theorem mergeOne_core {V} (accs res : List (MAccess V)) (x : Extra V) (h : mergeOne accs x = some res) :
    res.map core = accs.map core := by
  simp only [mergeOne] at h
  split at h
  · simp at h
  · split at h
    · simp at h
    · exact applyTo_core _ _ _ _ h

theorem mergeAll_core {V} (accs res : List (MAccess V)) (xs : List (Extra V)) (h : mergeAll accs xs = some res) :
    res.map core = accs.map core := by
  induction xs generalizing accs with
  | nil => simp only [mergeAll, Option.some.injEq] at h; subst h; rfl
  | cons x r ih =>
    simp only [mergeAll] at h
    split at h
    · simp at h
    · rename_i accs' h1
      rw [ih accs' h, mergeOne_core accs accs' x h1]

theorem mergeAll_none_of_mergeOne_none {V} (accs : List (MAccess V)) (pre : List (Extra V)) (x : Extra V)
    (post : List (Extra V))
    (h : ∀ accs' : List (MAccess V), accs'.map core = accs.map core → mergeOne accs' x = none) :
    mergeAll accs (pre ++ x :: post) = none := by
  induction pre generalizing accs with
  | nil => simp [mergeAll, h accs rfl]
  | cons y r ih =>
    simp only [List.cons_append, mergeAll]
    split
    · rfl
    · rename_i accs' h1
      apply ih
      intro a2 ha2
      apply h
      rw [ha2, mergeOne_core accs accs' y h1]

/-- `collapse` leaves a list with pairwise different names unchanged. -/
theorem collapse_nodup {V} (acc l : List (MAccess V))
    (h : ((acc ++ l).map (fun a => a.name)).Nodup) : collapse acc l = acc ++ l := by
  induction l generalizing acc with
  | nil => simp [collapse]
  | cons a r ih =>
    have hnot : acc.any (fun b => b.name == a.name) = false := by
      simp only [List.any_eq_false, beq_iff_eq]
      intro b hb he
      simp only [List.map_append, List.map_cons] at h
      have := (List.nodup_append.mp h).2.2 b.name (List.mem_map.mpr ⟨b, hb, rfl⟩) a.name (by simp)
      exact this he
    simp only [collapse, hnot, Bool.false_eq_true, if_false]
    rw [ih (acc ++ [a]) (by simpa using h)]
    simp

end AFV.EinsumStr
