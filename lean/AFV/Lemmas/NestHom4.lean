import AFV.Lemmas.NestHom3
namespace AFV.Nest

variable {α β : Type}
  [Add α] [Mul α] [Div α] [Max α] [Sub α] [OfNat α 0] [OfNat α 1]
  [Add β] [Mul β] [Div β] [Max β] [Sub β] [OfNat β 0] [OfNat β 1]
variable {f : α → β}

theorem set_shape_map (shape : List α) (rv : RV) (tile : α) : (shape.map f).set rv (f tile) = (shape.set rv tile).map f := by
  rw [List.map_set]

theorem analyzeNodes_map (hf : IsHom f) (c : Ctx α) (L : List (RNode α)) :
    ∀ hp shape, analyzeNodes (c.map f) hp (shape.map f) (L.map (RNode.map f))
      = (analyzeNodes c hp shape L).map (fun p => (Table.mapT f p.1, f p.2)) := by
  induction L with
  | nil => intro hp shape; rfl
  | cons n r ih =>
    intro hp shape
    cases n with
    | reservation t l =>
      simp only [List.map_cons, RNode.map, analyzeNodes, ih]
      have hl : (c.map f).arch.levels[l]? = (c.arch.levels[l]?).map (Level.map f) := by
        simp [Ctx.map, Arch.map, List.getElem?_map]
      rw [hl]
      cases analyzeNodes c hp shape r with
      | none => rfl
      | some p =>
        cases c.arch.levels[l]? with
        | none => rfl
        | some lv =>
          simp only [Option.map_some, find_map]
          cases Table.find p.1 (BKey.mem l) with
          | some s => rfl
          | none =>
            have ht : (c.map f).t = c.t := rfl
            simp only [Option.map_none, Option.isSome_none, Bool.false_eq_true, if_false, Option.map_some, spec_map hf, ht,
              Table.mapT, List.map_cons, Stats.map, zero_map hf]
            have h1 : (c.spec.map f).rvs = c.spec.rvs := rfl
            have h2 : (c.spec.map f).bpv = f c.spec.bpv := rfl
            rw [h1, h2, tileSize_map hf, bpv_map, hf.mul]
    | node nd =>
      cases nd with
      | compute =>
        simp only [List.map_cons, RNode.map, Node.map, analyzeNodes, Option.map_some, Table.mapT, List.map_cons, List.map_nil,
          spec_map hf, hf.one]
        have h1 : (c.spec.map f).isOutput = c.spec.isOutput := rfl
        have h2 : (c.map f).arch.compute.skipInitial = c.arch.compute.skipInitial := rfl
        rw [h1, h2]
        congr 3
        cases c.spec.isOutput <;> cases c.arch.compute.skipInitial <;>
          simp [Stats.map, Counts.map, computeCounts, Counts.zero, hf.one, hf.zero]
      | loop rv tile =>
        simp only [List.map_cons, RNode.map, Node.map, analyzeNodes, set_shape_map, ih]
        cases analyzeNodes c hp (shape.set rv tile) r with
        | none => rfl
        | some p =>
          have ht : (c.map f).t = c.t := rfl
          have hw : (c.map f).w = c.w.map f := rfl
          simp only [Option.map_some, getShape_map hf, ← hf.div, ← hf.mul, ht, hw, relevant_map, Table.mapT, List.map_map]
          congr 2
          apply List.map_congr_left
          intro e _
          simp only [Function.comp, statsRepeat_map hf]
      | storage l ts lo =>
        simp only [List.map_cons, RNode.map, Node.map, analyzeNodes, ih]
        cases analyzeNodes c true shape r with
        | none => rfl
        | some p =>
          simp only [Option.map_some, analyzeHolder_map hf]
          cases analyzeHolder c l false hp shape p.1 <;> rfl
      | toll l ts lo =>
        simp only [List.map_cons, RNode.map, Node.map, analyzeNodes, ih]
        cases analyzeNodes c true shape r with
        | none => rfl
        | some p =>
          simp only [Option.map_some, analyzeHolder_map hf]
          cases analyzeHolder c l true hp shape p.1 <;> rfl

end AFV.Nest
