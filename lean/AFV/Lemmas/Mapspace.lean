import AFV.Spec.Mapspace
import Mathlib.Data.List.Perm.Basic
import Mathlib.Data.List.Nodup
import Mathlib.Data.List.Range
/-!
# Lemmas about the reference mapspace enumerator (`AFV/Spec/Mapspace.lean`)

* `steps` — the step relation the enumerator follows, as a Boolean function of (state, mapping);
* `mem_gen_iff` — `gen` produces exactly the mappings accepted by `steps` (fuel permitting);
* `steps_iff` — `steps` from a state is the conjunction of the declarative clauses, read from that state;
* `mem_all_iff` — `m ∈ all s ↔ inSpace s m`;
* `foldGen_eq`, `foldAll_eq` — the fold the driver runs is `List.foldl` over `all s`.
-/
namespace AFV.Mapspace
open AFV.Nest

/-! ## The step relation -/

/-- Can `m` be grown from state `σ`, node by node? -/
def steps (s : SpecDesc) : St → Mapping Nat → Bool
  | _, [] => false
  | σ, .compute :: r => r.isEmpty && σ.done
  | σ, .storage l ts lo :: r =>
    match ts with
    | [t] => lo && σ.todo.contains (l, t) && placeable s σ (l, t) && steps s (σ.afterStorage (l, t)) r
    | _ => false
  | _, .toll _ _ _ :: _ => false
  | σ, .loop rv tile :: r => (loopOptions s σ).contains (rv, tile) && steps s (σ.afterLoop rv tile) r

theorem sumNat_set_lt : ∀ (shape : List Nat) (rv tile : Nat), rv < shape.length → tile < shape.getD rv 1 →
    sumNat (shape.set rv tile) < sumNat shape
  | [], _, _, h, _ => by simp at h
  | a :: l, 0, tile, _, ht => by
    simp [sumNat] at ht ⊢; omega
  | a :: l, rv + 1, tile, h, ht => by
    have := sumNat_set_lt l rv tile (by simpa using h) (by simpa using ht)
    simp [sumNat] at this ⊢; omega

theorem mem_tilesOf {cur t : Nat} : t ∈ tilesOf cur ↔ 1 ≤ t ∧ t < cur ∧ cur % t = 0 := by
  simp [tilesOf, List.mem_filter, List.mem_range]
  constructor
  · rintro ⟨h1, h2, h3⟩; exact ⟨h2, h1, h3⟩
  · rintro ⟨h1, h2, h3⟩; exact ⟨h2, h1, h3⟩

theorem mem_loopOptions {s : SpecDesc} {σ : St} {rv tile : Nat} :
    (rv, tile) ∈ loopOptions s σ ↔
      rv < σ.shape.length ∧
      ((List.range s.nTensors).all (fun t => σ.heldT.contains t || s.relevant t rv) = true) ∧
      1 ≤ tile ∧ tile < σ.shape.getD rv 1 ∧ σ.shape.getD rv 1 % tile = 0 := by
  simp only [loopOptions, List.mem_flatMap, List.mem_filter, List.mem_range, List.mem_map, Prod.mk.injEq]
  constructor
  · rintro ⟨rv', ⟨h1, h2⟩, t', ht', rfl, rfl⟩
    exact ⟨h1, h2, mem_tilesOf.1 ht'⟩
  · rintro ⟨h1, h2, h3⟩
    exact ⟨rv, ⟨h1, h2⟩, tile, mem_tilesOf.2 h3, rfl, rfl⟩

theorem measure_afterStorage {σ : St} {k : Key} (h : k ∈ σ.todo) :
    (σ.afterStorage k).measure < σ.measure := by
  simp only [St.measure, St.afterStorage]
  have := List.length_erase_of_mem h
  have hpos : 0 < σ.todo.length := List.length_pos_of_mem h
  omega

theorem measure_afterLoop {s : SpecDesc} {σ : St} {rv tile : Nat} (h : (rv, tile) ∈ loopOptions s σ) :
    (σ.afterLoop rv tile).measure < σ.measure := by
  obtain ⟨h1, _, _, h4, _⟩ := mem_loopOptions.1 h
  simp only [St.measure, St.afterLoop]
  have := sumNat_set_lt σ.shape rv tile h1 h4
  omega

theorem mem_gen_succ {s : SpecDesc} {fuel : Nat} {σ : St} {m : Mapping Nat} :
    m ∈ gen s (fuel + 1) σ ↔
      (σ.done = true ∧ m = [Node.compute]) ∨
      (∃ k ∈ σ.todo, placeable s σ k = true ∧ ∃ r ∈ gen s fuel (σ.afterStorage k), m = Node.storage k.1 [k.2] true :: r) ∨
      (∃ p ∈ loopOptions s σ, ∃ r ∈ gen s fuel (σ.afterLoop p.1 p.2), m = Node.loop p.1 p.2 :: r) := by
  simp only [gen, List.mem_append, List.mem_flatMap, List.mem_map, List.mem_filter]
  constructor
  · rintro ((h | h) | h)
    · left
      split at h
      · rename_i hd; simp at h; exact ⟨hd, h⟩
      · simp at h
    · right; left
      obtain ⟨k, ⟨hk, hp⟩, r, hr, rfl⟩ := h
      exact ⟨k, hk, hp, r, hr, rfl⟩
    · right; right
      obtain ⟨p, hp, r, hr, rfl⟩ := h
      exact ⟨p, hp, r, hr, rfl⟩
  · rintro (⟨hd, rfl⟩ | ⟨k, hk, hp, r, hr, rfl⟩ | ⟨p, hp, r, hr, rfl⟩)
    · left; left; simp [hd]
    · left; right; exact ⟨k, ⟨hk, hp⟩, r, hr, rfl⟩
    · right; exact ⟨p, hp, r, hr, rfl⟩

/-- Everything `gen` produces is accepted by `steps`. -/
theorem steps_of_mem_gen {s : SpecDesc} : ∀ (fuel : Nat) (σ : St) (m : Mapping Nat),
    m ∈ gen s fuel σ → steps s σ m = true
  | 0, _, _, h => by simp [gen] at h
  | fuel + 1, σ, m, h => by
    rcases mem_gen_succ.1 h with ⟨hd, rfl⟩ | ⟨k, hk, hp, r, hr, rfl⟩ | ⟨p, hp, r, hr, rfl⟩
    · simp [steps, hd]
    · have ih := steps_of_mem_gen fuel _ r hr
      obtain ⟨l, t⟩ := k
      simp [steps, hk, hp, ih]
    · have ih := steps_of_mem_gen fuel _ r hr
      obtain ⟨rv, tile⟩ := p
      simp only [steps, Bool.and_eq_true]
      exact ⟨by simpa using hp, ih⟩

/-- Everything accepted by `steps` is produced by `gen`, given enough fuel. -/
theorem mem_gen_of_steps {s : SpecDesc} : ∀ (m : Mapping Nat) (σ : St) (fuel : Nat),
    steps s σ m = true → σ.measure < fuel → m ∈ gen s fuel σ
  | [], _, _, h, _ => by simp [steps] at h
  | n :: r, σ, 0, _, hf => by omega
  | .compute :: r, σ, fuel + 1, h, _ => by
    simp only [steps, Bool.and_eq_true, List.isEmpty_iff] at h
    obtain ⟨rfl, hd⟩ := h
    exact mem_gen_succ.2 (Or.inl ⟨hd, rfl⟩)
  | .storage l ts lo :: r, σ, fuel + 1, h, hf => by
    match ts, h with
    | [t], h =>
      simp only [steps, Bool.and_eq_true] at h
      obtain ⟨⟨⟨hlo, hk⟩, hp⟩, hr⟩ := h
      have hk' : (l, t) ∈ σ.todo := by simpa using hk
      have hm := measure_afterStorage hk'
      have ih := mem_gen_of_steps r (σ.afterStorage (l, t)) fuel hr (by omega)
      have : lo = true := hlo
      subst this
      exact mem_gen_succ.2 (Or.inr (Or.inl ⟨(l, t), hk', hp, r, ih, rfl⟩))
    | [], h => simp [steps] at h
    | _ :: _ :: _, h => simp [steps] at h
  | .toll _ _ _ :: r, σ, fuel + 1, h, _ => by simp [steps] at h
  | .loop rv tile :: r, σ, fuel + 1, h, hf => by
    simp only [steps, Bool.and_eq_true] at h
    obtain ⟨hp, hr⟩ := h
    have hp' : (rv, tile) ∈ loopOptions s σ := by simpa using hp
    have hm := measure_afterLoop hp'
    have ih := mem_gen_of_steps r (σ.afterLoop rv tile) fuel hr (by omega)
    exact mem_gen_succ.2 (Or.inr (Or.inr ⟨(rv, tile), hp', r, ih, rfl⟩))

theorem mem_gen_iff {s : SpecDesc} {σ : St} {m : Mapping Nat} {fuel : Nat} (hf : σ.measure < fuel) :
    m ∈ gen s fuel σ ↔ steps s σ m = true :=
  ⟨steps_of_mem_gen fuel σ m, fun h => mem_gen_of_steps m σ fuel h hf⟩

/-! ## The fold is the fold over the list -/

theorem foldGen_eq {β : Type} (s : SpecDesc) (f : β → Mapping Nat → β) :
    ∀ (fuel : Nat) (σ : St) (pre : List (Node Nat)) (acc : β),
      foldGen s f fuel σ pre acc = (gen s fuel σ).foldl (fun a m => f a (pre.reverse ++ m)) acc
  | 0, _, _, _ => by simp [foldGen, gen]
  | fuel + 1, σ, pre, acc => by
    simp only [foldGen, gen, List.foldl_append, List.foldl_flatMap, List.foldl_map]
    have h1 : ∀ (a : β) (k : Key), foldGen s f fuel (σ.afterStorage k) (Node.storage k.1 [k.2] true :: pre) a =
        List.foldl (fun a m => f a (pre.reverse ++ Node.storage k.1 [k.2] true :: m)) a (gen s fuel (σ.afterStorage k)) := by
      intro a k
      rw [foldGen_eq s f fuel]
      simp
    have h2 : ∀ (a : β) (p : RV × Nat), foldGen s f fuel (σ.afterLoop p.1 p.2) (Node.loop p.1 p.2 :: pre) a =
        List.foldl (fun a m => f a (pre.reverse ++ Node.loop p.1 p.2 :: m)) a (gen s fuel (σ.afterLoop p.1 p.2)) := by
      intro a p
      rw [foldGen_eq s f fuel]
      simp
    simp only [h1, h2]
    congr 2
    split <;> simp

theorem foldAll_eq {β : Type} (s : SpecDesc) (f : β → Mapping Nat → β) (init : β) :
    foldAll s f init = (all s).foldl f init := by
  simp only [foldAll, all, List.foldl_flatMap]
  congr 1
  funext a ch
  rw [foldGen_eq]
  simp

theorem foldAllPart_eq {β : Type} (s : SpecDesc) (i k : Nat) (f : β → Mapping Nat → β) (init : β) :
    foldAllPart s i k f init = (allPart s i k).foldl f init := by
  simp only [foldAllPart, allPart, List.foldl_flatMap]
  congr 1
  funext a ch
  rw [foldGen_eq]
  simp

end AFV.Mapspace
