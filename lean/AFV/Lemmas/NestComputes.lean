import AFV.Lemmas.NestFinal4
namespace AFV.Nest
open AFV.NestExec

theorem foldl_add_const (n c : Nat) : (List.range n).foldl (fun acc _ => acc + c) 0 = n * c := by
  induction n with
  | zero => simp
  | succ n ih => rw [List.range_succ, List.foldl_append, ih]; simp [Nat.succ_mul]

theorem computeOps_split (shape : List Rat) (m : Mapping Rat) : computeOps shape (splitHolders m) = computeOps shape m := by
  induction m generalizing shape with
  | nil => rfl
  | cons n r ih =>
    cases n with
    | storage l ts lo =>
      simp only [splitHolders, computeOps]
      split
      · have : ∀ (xs : List TId) (R : Mapping Rat),
            computeOps shape (xs.map (fun t => Node.storage l [t] lo) ++ R) = computeOps shape R := by
          intro xs R; induction xs with
          | nil => rfl
          | cons x xs ihx => simpa [computeOps] using ihx
        rw [this, ih]
      · simp [computeOps, ih]
    | toll l ts lo =>
      simp only [splitHolders, computeOps]
      split
      · have : ∀ (xs : List TId) (R : Mapping Rat),
            computeOps shape (xs.map (fun t => Node.toll l [t] lo) ++ R) = computeOps shape R := by
          intro xs R; induction xs with
          | nil => rfl
          | cons x xs ihx => simpa [computeOps] using ihx
        rw [this, ih]
      · simp [computeOps, ih]
    | loop rv tile => simp only [splitHolders, computeOps, ih]
    | compute => simp only [splitHolders, computeOps]; exact ih shape

/-- The compute count of the model = the number of compute events of the execution. -/
theorem computeOps_eq (m : Mapping Nat) :
    ∀ shape : List Nat, wfLoops shape m = true →
      computeOps (shape.map (fun (n : Nat) => (n : Rat))) (castMapping m) = ((execComputes m shape : Nat) : Rat) := by
  induction m with
  | nil => intro shape h; simp [wfLoops] at h
  | cons n r ih =>
    intro shape h
    cases n with
    | compute =>
      cases r with
      | nil => simp [castMapping, castNode, computeOps, execComputes]
      | cons x xs => simp [wfLoops] at h
    | loop rv tile =>
      simp only [wfLoops, Bool.and_eq_true, decide_eq_true_eq, beq_iff_eq] at h
      obtain ⟨⟨⟨h1, h2⟩, h3⟩, h4⟩ := h
      simp only [castMapping, List.map_cons, castNode, computeOps, execComputes, foldl_add_const]
      have := ih (shape.set rv tile) h4
      simp only [castMapping] at this
      rw [set_cast, this, getShape_cast, Nat.cast_mul,
        Nat.cast_div (Nat.dvd_of_mod_eq_zero h3) (by exact_mod_cast (Nat.pos_iff_ne_zero.1 h2))]
      ring
    | storage l ts lo =>
      have h' : wfLoops shape r = true := by simpa [wfLoops] using h
      simpa [castMapping, castNode, computeOps, execComputes] using ih shape h'
    | toll l ts lo =>
      have h' : wfLoops shape r = true := by simpa [wfLoops] using h
      simpa [castMapping, castNode, computeOps, execComputes] using ih shape h'

end AFV.Nest
