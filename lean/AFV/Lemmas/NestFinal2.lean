import AFV.Lemmas.NestFinal
import Mathlib.Data.List.Nodup
namespace AFV.Nest
open AFV.NestExec

theorem vpa_precedence (lv : Level Rat) (a : Act Rat) (t : TId) (bpv : Rat) :
    valuesPerAction lv a t bpv = valuesPerActionSpec lv a t bpv := by
  unfold valuesPerAction valuesPerActionSpec
  cases h1 : lookup a.vpa t <;> cases h2 : lookup lv.vpa t <;> cases h3 : a.bpa <;> cases h4 : lv.bpa <;> simp

theorem holderLevels_nodup (t : TId) (m : Mapping Nat) (h : (holderKeys m).Nodup) : (holderLevels t m).Nodup := by
  induction m with
  | nil => simp [holderLevels]
  | cons n r ih =>
    cases n with
    | storage l ts lo =>
      simp only [holderKeys] at h
      have hr := ih (List.nodup_append.1 h).2.1
      simp only [holderLevels]
      split
      · rename_i hc
        refine List.nodup_cons.2 ⟨fun hl => ?_, hr⟩
        have := (mem_holderLevels t l r).1 hl
        exact (List.nodup_append.1 h).2.2 (l, t) (by simpa using hc) (l, t) this rfl
      · exact hr
    | toll l ts lo =>
      simp only [holderKeys] at h
      have hr := ih (List.nodup_append.1 h).2.1
      simp only [holderLevels]
      split
      · rename_i hc
        refine List.nodup_cons.2 ⟨fun hl => ?_, hr⟩
        have := (mem_holderLevels t l r).1 hl
        exact (List.nodup_append.1 h).2.2 (l, t) (by simpa using hc) (l, t) this rfl
      · exact hr
    | loop rv tile => exact ih (by simpa [holderKeys] using h)
    | compute => exact ih (by simpa [holderKeys] using h)

/-- The event counts of the execution of tensor `t` against the entries of `simpleN`. -/
theorem trace_counts (arch : Arch Rat) (wn : Workload Nat) (m : Mapping Nat) (hf : WFfacts arch wn m) (t : TId)
    (ht : t < wn.tensors.length) (l : Lvl) (cn : Counts Nat)
    (hmem : (BKey.mem l, cn) ∈ simpleN arch (tinfo arch wn t) false wn.bounds m) :
    countEv (traceOf arch wn m t) l false + cn.skReadActions = cn.readActions ∧
    countEv (traceOf arch wn m t) l true + cn.skWriteActions = cn.writeActions := by
  have hwfT := wfT_of_wf arch wn.tensors.length (tinfo arch wn t) m false wn.bounds hf.bounds hf.loops hf.nodes
    (Or.inr (hf.backed t ht))
  have hnd := tinfo_rvs_nodup arch wn m hf t
  have hpre : Pre (tinfo arch wn t) (initEnv wn) (fun _ => false) (tinfo arch wn t).isOut := by
    unfold Pre; cases (tinfo arch wn t).isOut <;> simp
  obtain ⟨_, Δ, htr, hcnt⟩ := execT_spec arch (tinfo arch wn t) hnd m [] (initEnv wn)
    { written := fun _ => false, trace := [] } (tinfo arch wn t).isOut (by simpa [initEnv] using hwfT)
    (by simp [initEnv]) hpre
  have htrace : traceOf arch wn m t = Δ := by simpa [traceOf] using htr
  have hkeys := keys_simpleN arch (tinfo arch wn t) m false false wn.bounds hwfT
  have hkn : ((simpleN arch (tinfo arch wn t) false wn.bounds m).map (·.1)).Nodup := by
    rw [hkeys]
    refine List.nodup_append.2 ⟨?_, by simp, ?_⟩
    · exact List.Nodup.map (fun a b h => by cases h; rfl) (holderLevels_nodup _ m hf.keys)
    · intro a ha b hb hab
      simp only [List.mem_map] at ha; obtain ⟨x, _, rfl⟩ := ha
      simp only [List.mem_singleton] at hb; subst hb
      cases hab
  rw [htrace]
  have hin : (tinfo arch wn t).isOut = false → cn.skReadActions = 0 ∧ cn.skWriteActions = 0 :=
    fun h => simpleN_input_sk arch _ h m false wn.bounds _ hmem
  constructor
  · have h := hcnt l false
    obtain ⟨h1, h2⟩ := innerT_unique _ hkn l cn hmem false
    simp only [TT, KK, List.isEmpty_nil, Bool.not_true, initEnv, attrT, attrK, Nat.add_zero, h1, h2, Bool.false_eq_true,
      if_false] at h
    cases ho : (tinfo arch wn t).isOut
    · rw [ho] at h; simp only [Bool.false_eq_true, if_false, Nat.add_zero] at h; rw [(hin ho).1]; omega
    · rw [ho] at h; simpa using h
  · have h := hcnt l true
    obtain ⟨h1, h2⟩ := innerT_unique _ hkn l cn hmem true
    simp only [TT, KK, List.isEmpty_nil, Bool.not_true, initEnv, attrT, attrK, Nat.add_zero, h1, h2, if_true] at h
    cases ho : (tinfo arch wn t).isOut
    · rw [ho] at h; simp only [Bool.false_eq_true, if_false, Nat.add_zero] at h; rw [(hin ho).2]; omega
    · rw [ho] at h; simpa using h

end AFV.Nest
