import AFV.Model.ArchTree
import AFV.Spec.ArchTree
/-!
Lemmas about the architecture tree shared by C25 and C26: the main chain of a node list, `find`, and how the
search for a name that is *not* in a node list passes through it.
-/
namespace AFV.ArchTree

/-- Non-compute leaves of the main chain of a node list (forks are side branches). -/
def chain : Nodes → List LeafInfo
  | .nil => []
  | .leaf l r => if l.compute then chain r else l :: chain r
  | .hier i r => chain i ++ chain r
  | .fork _ r => chain r

theorem find_iff (c : String) (t : Nodes) : find c t = true ↔ c ∈ names t := by
  induction t with
  | nil => simp [find, names, leaves]
  | leaf l r ih => simp [find, names, leaves] at *; rw [ih]; constructor <;> (rintro (h | h) <;> simp [h])
  | hier i r ihi ihr => simp [find, names, leaves] at *; rw [ihi, ihr]
  | fork i r ihi ihr => simp [find, names, leaves] at *; rw [ihi, ihr]

theorem names_leaf (l : LeafInfo) (r : Nodes) : names (.leaf l r) = l.name :: names r := by simp [names, leaves]
theorem names_hier (i r : Nodes) : names (.hier i r) = names i ++ names r := by simp [names, leaves]
theorem names_fork (i r : Nodes) : names (.fork i r) = names i ++ names r := by simp [names, leaves]

theorem computeNames_sub (t : Nodes) : ∀ c ∈ computeNames t, c ∈ names t := by
  intro c h
  simp only [computeNames, names, List.mem_map, List.mem_filter] at *
  obtain ⟨l, ⟨h1, _⟩, h2⟩ := h
  exact ⟨l, h1, h2⟩

theorem chain_noncompute (t : Nodes) : ∀ x ∈ chain t, x.compute = false := by
  induction t with
  | nil => simp [chain]
  | leaf l r ih =>
    intro x hx
    by_cases hl : l.compute
    · simp [chain, hl] at hx; exact ih x hx
    · simp [chain, hl] at hx; rcases hx with rfl | hx
      · simpa using hl
      · exact ih x hx
  | hier i r ihi ihr => intro x hx; simp [chain] at hx; rcases hx with hx | hx; exact ihi x hx; exact ihr x hx
  | fork i r _ ihr => intro x hx; simp [chain] at hx; exact ihr x hx

theorem hasCompute_chain (c : String) (t : Nodes) : hasCompute c (chain t) = false := by
  simp only [hasCompute, List.any_eq_false]
  intro x hx
  simp [chain_noncompute t x hx]

theorem pathForest_append (c : String) (a b : List Tree) :
    pathForest c (a ++ b) = match pathForest c a with | some p => some p | none => pathForest c b := by
  induction a with
  | nil => simp [pathForest]
  | cons t ts ih =>
    simp only [List.cons_append, pathForest]
    cases t.path c with
    | some p => rfl
    | none => simpa using ih

/-- A node list that does not contain `c`: `_flatten` returns its main chain and goes on; in the tree the
search for `c` passes through that chain into whatever follows. -/
theorem absent (c : String) (t : Nodes) (h : c ∉ names t) :
    flatten c t = some (chain t) ∧
    ∀ k, pathForest c (toForest t k) = (pathForest c k).map (chain t ++ ·) := by
  induction t with
  | nil => simp [flatten, chain, toForest]
  | leaf l r ih =>
    rw [names_leaf] at h
    simp only [List.mem_cons, not_or] at h
    have hne : (l.name == c) = false := by simpa using fun e => h.1 e.symm
    obtain ⟨ih1, ih2⟩ := ih h.2
    by_cases hl : l.compute
    · refine ⟨by simp [flatten, chain, hl, hne, ih1], fun k => ?_⟩
      simp [toForest, hl, pathForest, Tree.path, hne, ih2, chain]
    · refine ⟨by simp [flatten, chain, hl, ih1], fun k => ?_⟩
      simp [toForest, hl, pathForest, Tree.path, hne, ih2, chain]
      cases pathForest c k <;> simp
  | hier i r ihi ihr =>
    rw [names_hier] at h
    simp only [List.mem_append, not_or] at h
    obtain ⟨i1, i2⟩ := ihi h.1
    obtain ⟨r1, r2⟩ := ihr h.2
    refine ⟨by simp [flatten, i1, hasCompute_chain, r1, chain], fun k => ?_⟩
    simp [toForest, i2, r2, chain]
    cases pathForest c k <;> simp
  | fork i r ihi ihr =>
    rw [names_fork] at h
    simp only [List.mem_append, not_or] at h
    obtain ⟨_, i2⟩ := ihi h.1
    obtain ⟨r1, r2⟩ := ihr h.2
    have hf : find c i = false := by
      cases hfi : find c i with
      | false => rfl
      | true => exact absurd ((find_iff c i).mp hfi) h.1
    refine ⟨by simp [flatten, hf, r1, chain], fun k => ?_⟩
    simp [toForest, pathForest_append, i2, pathForest, r2, chain]

end AFV.ArchTree
