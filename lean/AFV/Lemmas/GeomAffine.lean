import AFV.Lemmas.GeomBox
import Mathlib.Tactic.Ring
import Mathlib.Tactic.Linarith
/-! Extent of the image of a box under one affine form. -/
namespace AFV.Geometry

def maxDot : List Int → Box → Int
  | a :: as, (lo, n) :: b => (if 0 ≤ a then a * (lo + n - 1) else a * lo) + maxDot as b
  | _, _ => 0

def minDot : List Int → Box → Int
  | a :: as, (lo, n) :: b => (if 0 ≤ a then a * lo else a * (lo + n - 1)) + minDot as b
  | _, _ => 0

@[simp] theorem dot_nil_left (x : List Int) : dot [] x = 0 := by cases x <;> rfl
@[simp] theorem dot_nil_right (as : List Int) : dot as [] = 0 := by cases as <;> rfl
@[simp] theorem maxDot_nil_left (b : Box) : maxDot [] b = 0 := by cases b <;> rfl
@[simp] theorem maxDot_nil_right (as : List Int) : maxDot as [] = 0 := by cases as <;> rfl
@[simp] theorem minDot_nil_left (b : Box) : minDot [] b = 0 := by cases b <;> rfl
@[simp] theorem minDot_nil_right (as : List Int) : minDot as [] = 0 := by cases as <;> rfl
@[simp] theorem absSum_nil_left (b : Box) : absSum [] b = 0 := by cases b <;> rfl
@[simp] theorem absSum_nil_right (as : List Int) : absSum as [] = 0 := by cases as <;> rfl

theorem dot_le_maxDot (as : List Int) (b : Box) (x : List Int) (h : InBox x b) : dot as x ≤ maxDot as b := by
  induction as generalizing b x with
  | nil => simp
  | cons a as ih =>
    cases b with
    | nil => cases x <;> simp_all [InBox]
    | cons e b =>
      obtain ⟨lo, n⟩ := e
      cases x with
      | nil => simp [InBox] at h
      | cons y x' =>
        obtain ⟨h1, h2, h3⟩ := h
        have := ih b x' h3
        simp only [dot, maxDot]
        split
        · rename_i ha
          have : a * y ≤ a * (lo + n - 1) := by nlinarith
          linarith
        · rename_i ha
          have : a * y ≤ a * lo := by nlinarith
          linarith

theorem minDot_le_dot (as : List Int) (b : Box) (x : List Int) (h : InBox x b) : minDot as b ≤ dot as x := by
  induction as generalizing b x with
  | nil => simp
  | cons a as ih =>
    cases b with
    | nil => cases x <;> simp_all [InBox]
    | cons e b =>
      obtain ⟨lo, n⟩ := e
      cases x with
      | nil => simp [InBox] at h
      | cons y x' =>
        obtain ⟨h1, h2, h3⟩ := h
        have := ih b x' h3
        simp only [dot, minDot]
        split
        · rename_i ha
          have : a * lo ≤ a * y := by nlinarith
          linarith
        · rename_i ha
          have : a * (lo + n - 1) ≤ a * y := by nlinarith
          linarith

theorem exists_maxDot (as : List Int) (b : Box) (h : AllPos b) : ∃ x, InBox x b ∧ dot as x = maxDot as b := by
  induction b generalizing as with
  | nil => exact ⟨[], trivial, by simp⟩
  | cons e b ih =>
    obtain ⟨lo, n⟩ := e
    have hn : 1 ≤ n := h (lo, n) (by simp)
    cases as with
    | nil =>
      obtain ⟨x, hx, _⟩ := ih [] (allPos_tail h)
      exact ⟨lo :: x, ⟨Int.le_refl _, by omega, hx⟩, by simp⟩
    | cons a as =>
      obtain ⟨x, hx, he⟩ := ih as (allPos_tail h)
      by_cases ha : 0 ≤ a
      · exact ⟨(lo + n - 1) :: x, ⟨by omega, by omega, hx⟩, by simp [dot, maxDot, ha, he]⟩
      · exact ⟨lo :: x, ⟨Int.le_refl _, by omega, hx⟩, by simp [dot, maxDot, ha, he]⟩

theorem exists_minDot (as : List Int) (b : Box) (h : AllPos b) : ∃ x, InBox x b ∧ dot as x = minDot as b := by
  induction b generalizing as with
  | nil => exact ⟨[], trivial, by simp⟩
  | cons e b ih =>
    obtain ⟨lo, n⟩ := e
    have hn : 1 ≤ n := h (lo, n) (by simp)
    cases as with
    | nil =>
      obtain ⟨x, hx, _⟩ := ih [] (allPos_tail h)
      exact ⟨lo :: x, ⟨Int.le_refl _, by omega, hx⟩, by simp⟩
    | cons a as =>
      obtain ⟨x, hx, he⟩ := ih as (allPos_tail h)
      by_cases ha : 0 ≤ a
      · exact ⟨lo :: x, ⟨Int.le_refl _, by omega, hx⟩, by simp [dot, minDot, ha, he]⟩
      · exact ⟨(lo + n - 1) :: x, ⟨by omega, by omega, hx⟩, by simp [dot, minDot, ha, he]⟩

theorem mem_imageVals {p : Aff} {b : Box} {v : Int} : v ∈ imageVals p b ↔ ∃ x, InBox x b ∧ p.eval x = v := by
  simp only [imageVals, List.mem_map, mem_points]

theorem lmax_imageVals (p : Aff) (b : Box) (h : AllPos b) : lmax (imageVals p b) = p.const + maxDot p.coeffs b := by
  apply lmax_eq_of
  · obtain ⟨x, hx, he⟩ := exists_maxDot p.coeffs b h
    exact mem_imageVals.mpr ⟨x, hx, by simp [Aff.eval, he]⟩
  · intro v hv
    obtain ⟨x, hx, rfl⟩ := mem_imageVals.mp hv
    have := dot_le_maxDot p.coeffs b x hx
    simp only [Aff.eval]; omega

theorem lmin_imageVals (p : Aff) (b : Box) (h : AllPos b) : lmin (imageVals p b) = p.const + minDot p.coeffs b := by
  apply lmin_eq_of
  · obtain ⟨x, hx, he⟩ := exists_minDot p.coeffs b h
    exact mem_imageVals.mpr ⟨x, hx, by simp [Aff.eval, he]⟩
  · intro v hv
    obtain ⟨x, hx, rfl⟩ := mem_imageVals.mp hv
    have := minDot_le_dot p.coeffs b x hx
    simp only [Aff.eval]; omega

theorem maxDot_sub_minDot (as : List Int) (b : Box) (h : AllPos b) :
    maxDot as b - minDot as b = (absSum as b : Int) := by
  induction as generalizing b with
  | nil => simp
  | cons a as ih =>
    cases b with
    | nil => simp
    | cons e b =>
      obtain ⟨lo, n⟩ := e
      have hn : 1 ≤ n := h (lo, n) (by simp)
      have hc : ((n - 1 : Nat) : Int) = (n : Int) - 1 := by omega
      have := ih b (allPos_tail h)
      simp only [maxDot, minDot, absSum, Nat.cast_add, Nat.cast_mul, hc]
      by_cases ha : 0 ≤ a
      · simp only [ha, if_true, Int.natAbs_of_nonneg ha]
        linarith [this, (by ring : a * (lo + n - 1) - a * lo = a * ((n : Int) - 1))]
      · have ha' : a ≤ 0 := by omega
        simp only [ha, if_false, Int.ofNat_natAbs_of_nonpos ha']
        linarith [this, (by ring : a * lo - a * (lo + n - 1) = -a * ((n : Int) - 1))]

/-- **Extent of an affine image of a box: `1 + Σ |aᵢ| (nᵢ − 1)` — no constant term, no lower bounds.** -/
theorem extentOf_imageVals (p : Aff) (b : Box) (h : AllPos b) :
    extentOf (imageVals p b) = absSum p.coeffs b + 1 := by
  simp only [extentOf, lmax_imageVals p b h, lmin_imageVals p b h]
  have := maxDot_sub_minDot p.coeffs b h
  have e : p.const + maxDot p.coeffs b - (p.const + minDot p.coeffs b) = (absSum p.coeffs b : Int) := by omega
  rw [e, Int.toNat_natCast]

/-! ### tiles -/

theorem allPos_setN {b : Box} (h : AllPos b) (k t : Nat) (ht : 1 ≤ t) : AllPos (setN b k t) := by
  induction b generalizing k with
  | nil => cases k <;> simpa [setN] using h
  | cons e b ih =>
    obtain ⟨lo, n⟩ := e
    cases k with
    | zero =>
      intro x hx
      simp only [setN, List.mem_cons] at hx
      rcases hx with rfl | hx
      · exact ht
      · exact h x (by simp [hx])
    | succ k =>
      intro x hx
      simp only [setN, List.mem_cons] at hx
      rcases hx with rfl | hx
      · exact h _ (by simp)
      · exact ih (allPos_tail h) k x hx

theorem absSum_setN (as : List Int) (b : Box) (k t : Nat) (hk : k < b.length) :
    absSum as (setN b k t) = absSum as (setN b k 1) + (as.getD k 0).natAbs * (t - 1) := by
  induction b generalizing as k with
  | nil => simp at hk
  | cons e b ih =>
    obtain ⟨lo, n⟩ := e
    cases k with
    | zero =>
      cases as with
      | nil => simp [setN]
      | cons a as => simp [setN, absSum]; omega
    | succ k =>
      cases as with
      | nil => simp [setN]
      | cons a as =>
        have := ih as k (by simpa using hk)
        simp only [setN, absSum, List.getD_cons_succ, this]
        omega

theorem dot_haloPoint (as : List Int) (b : Box) (k : Nat) (h : AllPos b) (hpos : ∀ a ∈ as, 0 ≤ a) :
    dot as (haloPoint (b.map (fun e => e.2)) k) = (absSum as (setN b k 1) : Int) := by
  induction b generalizing as k with
  | nil => cases k <;> simp [haloPoint, setN]
  | cons e b ih =>
    obtain ⟨lo, n⟩ := e
    have hn : 1 ≤ n := h (lo, n) (by simp)
    have hc : ((n - 1 : Nat) : Int) = (n : Int) - 1 := by omega
    cases as with
    | nil => simp
    | cons a as =>
      have ha : 0 ≤ a := hpos a (by simp)
      have hrest : ∀ x ∈ as, 0 ≤ x := fun x hx => hpos x (by simp [hx])
      cases k with
      | zero =>
        -- own variable at 0; the others at n-1, which is the case `k` beyond the end of the tail
        have key : ∀ (as : List Int) (b : Box), AllPos b → (∀ x ∈ as, 0 ≤ x) →
            dot as ((b.map (fun e => e.2)).map (fun (n : Nat) => (n : Int) - 1)) = (absSum as b : Int) := by
          intro as b
          induction b generalizing as with
          | nil => intro _ _; simp
          | cons e b ihb =>
            obtain ⟨lo', n'⟩ := e
            intro hb hp
            have hn' : 1 ≤ n' := hb (lo', n') (by simp)
            have hc' : ((n' - 1 : Nat) : Int) = (n' : Int) - 1 := by omega
            cases as with
            | nil => simp
            | cons a' as' =>
              have := ihb as' (allPos_tail hb) (fun x hx => hp x (by simp [hx]))
              simp only [List.map_cons, dot, absSum, Nat.cast_add, Nat.cast_mul, hc',
                Int.natAbs_of_nonneg (hp a' (by simp)), this]
        have := key as b (allPos_tail h) hrest
        simp only [List.map_cons, haloPoint, dot, setN, absSum, this]
        simp
      | succ k =>
        have := ih as k (allPos_tail h) hrest
        simp only [List.map_cons, haloPoint, dot, setN, absSum, Nat.cast_add, Nat.cast_mul, hc,
          Int.natAbs_of_nonneg ha, this]

theorem dot_shape (as : List Int) (b : Box) (h : AllPos b) (hpos : ∀ a ∈ as, 0 ≤ a) :
    dot as ((b.map (fun e => e.2)).map (fun (n : Nat) => (n : Int) - 1)) = (absSum as b : Int) := by
  induction b generalizing as with
  | nil => simp
  | cons e b ihb =>
    obtain ⟨lo', n'⟩ := e
    have hn' : 1 ≤ n' := h (lo', n') (by simp)
    have hc' : ((n' - 1 : Nat) : Int) = (n' : Int) - 1 := by omega
    cases as with
    | nil => simp
    | cons a' as' =>
      have := ihb as' (allPos_tail h) (fun x hx => hpos x (by simp [hx]))
      simp only [List.map_cons, dot, absSum, Nat.cast_add, Nat.cast_mul, hc',
        Int.natAbs_of_nonneg (hpos a' (by simp)), this]

theorem stepSpec_eq (as : List Int) (c : Int) (x : List Int) (k : Nat) (hk : k < x.length) :
    stepSpec ⟨as, c⟩ x k = as.getD k 0 := by
  simp only [stepSpec, Aff.eval]
  have : dot as (bump x k) - dot as x = as.getD k 0 := by
    induction x generalizing as k with
    | nil => simp at hk
    | cons y ys ih =>
      cases as with
      | nil => simp
      | cons a as =>
        cases k with
        | zero => simp only [bump, dot, List.getD_cons_zero]; ring
        | succ k =>
          have := ih as k (by simpa using hk)
          simp only [bump, dot, List.getD_cons_succ]
          linarith
  omega

end AFV.Geometry
