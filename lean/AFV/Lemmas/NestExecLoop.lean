import AFV.Lemmas.NestExecMain
/-!
# The loop case: iteration `j` finds its sub-tile never written iff the tile was never written and
# (the loop's rank variable indexes the tensor, or `j = 0`)
-/
namespace AFV.NestExec
open AFV.Nest

/-- How many of the first `k` iterations start on a never-written sub-tile (when the whole tile was never written). -/
def cnt (rel : Bool) (k : Nat) : Nat := if rel then k else (if k = 0 then 0 else 1)

theorem TT_loop (arch : Arch Rat) (ti : TInfo) (hp : Bool) (shape : List Nat) (rv : RV) (tile : Nat) (rest : Mapping Nat)
    (chain : List Hold) (l : Lvl) (rw : Bool) :
    TT arch ti hp shape (.loop rv tile :: rest) chain l rw
      = TT arch ti hp (shape.set rv tile) rest chain l rw * (shape.getD rv 1 / tile) := by
  simp only [TT, simpleN, innerT_repeat, bndR_repeat, bndW_repeat, attrT_mul, Nat.add_mul]

theorem KK_loop (arch : Arch Rat) (ti : TInfo) (hp : Bool) (shape : List Nat) (rv : RV) (tile : Nat) (rest : Mapping Nat)
    (chain : List Hold) (l : Lvl) (rw : Bool) :
    KK arch ti hp shape (.loop rv tile :: rest) chain l rw
      = KK arch ti hp (shape.set rv tile) rest chain l rw
          * (if ti.rvs.contains rv then shape.getD rv 1 / tile else 1) := by
  simp only [KK, simpleN, innerK_repeat, bndK_repeat, attrK_mul, Nat.add_mul]

/-- **Key lemma.** The freshness of the sub-tile of iteration `k`, given the written set after `k` iterations. -/
theorem fresh_iff_irrelevant_zero (ti : TInfo) (hnd : ti.rvs.Nodup) (e : Env) (rv : RV) (tile n k : Nat)
    (hb : rv < e.base.length) (hs : rv < e.shape.length) (hdiv : e.shape.getD rv 1 = tile * n) (hk : k < n)
    (w wk : Elem → Bool) (f : Bool) (hpre : Pre ti e w f)
    (hwk : ∀ x, wk x = true ↔ (w x = true ∨ (ti.isOut = true ∧ ∃ j, j < k ∧ inRegion (e.enter rv tile j) ti.rvs x = true))) :
    Pre ti (e.enter rv tile k) wk (f && (ti.rvs.contains rv || k == 0)) := by
  unfold Pre at hpre ⊢
  by_cases ho : ti.isOut = true
  · simp only [ho, if_true] at hpre ⊢
    by_cases hfk : (f && (ti.rvs.contains rv || k == 0)) = true
    · simp only [hfk, if_true]
      simp only [Bool.and_eq_true, Bool.or_eq_true, beq_iff_eq] at hfk
      obtain ⟨hf, hrel⟩ := hfk
      simp only [hf, if_true] at hpre
      intro x hx
      have hxe := inRegion_enter_sub e rv tile n k ti.rvs hnd hb hs hdiv hk x hx
      cases hwx : wk x
      · rfl
      · exfalso
        rcases (hwk x).1 hwx with h | ⟨_, j, hj, hxj⟩
        · rw [hpre x hxe] at h; exact Bool.false_ne_true h
        · rcases hrel with hrel | hk0
          · have hmem : rv ∈ ti.rvs := by simpa using hrel
            have := inRegion_enter_disj e rv tile j k ti.rvs hmem hb hs x hxj hx
            omega
          · omega
    · have hfk' : (f && (ti.rvs.contains rv || k == 0)) = false := by simpa using hfk
      simp only [hfk', Bool.false_eq_true, if_false]
      intro x hx
      have hxe := inRegion_enter_sub e rv tile n k ti.rvs hnd hb hs hdiv hk x hx
      rw [hwk x]
      cases hf : f
      · simp only [hf, Bool.false_eq_true, if_false] at hpre
        exact Or.inl (hpre x hxe)
      · simp only [hf, Bool.true_and, Bool.or_eq_false_iff, beq_eq_false_iff_ne, ne_eq] at hfk'
        obtain ⟨hrel, hk0⟩ := hfk'
        have hnm : rv ∉ ti.rvs := by simpa using hrel
        refine Or.inr ⟨ho, 0, by omega, ?_⟩
        rw [inRegion_enter_irrel e rv tile 0 ti.rvs hnm x, ← inRegion_enter_irrel e rv tile k ti.rvs hnm x]
        exact hx
  · have ho' : ti.isOut = false := by simpa using ho
    simp only [ho', Bool.false_eq_true, if_false] at hpre ⊢
    simp [hpre]

end AFV.NestExec

namespace AFV.NestExec
open AFV.Nest

/-- State after the first `k` iterations of a loop. -/
def iter (arch : Arch Rat) (ti : TInfo) (rest : Mapping Nat) (chain : List Hold) (e : Env) (rv : RV) (tile : Nat)
    (st : St) (k : Nat) : St :=
  (List.range k).foldl (fun st j => execT arch ti rest chain (e.enter rv tile j) st) st

theorem iter_succ (arch : Arch Rat) (ti : TInfo) (rest : Mapping Nat) (chain : List Hold) (e : Env) (rv : RV) (tile : Nat)
    (st : St) (k : Nat) :
    iter arch ti rest chain e rv tile st (k + 1)
      = execT arch ti rest chain (e.enter rv tile k) (iter arch ti rest chain e rv tile st k) := by
  simp [iter, List.range_succ, List.foldl_append]

theorem cnt_succ (rel : Bool) (k : Nat) : cnt rel (k + 1) = cnt rel k + (if rel || k == 0 then 1 else 0) := by
  cases rel <;> cases k <;> simp [cnt]

theorem exec_loop_iter (arch : Arch Rat) (ti : TInfo) (hnd : ti.rvs.Nodup) (rv : RV) (tile n : Nat) (rest : Mapping Nat)
    (chain : List Hold) (e : Env) (st : St) (f : Bool)
    (hb : rv < e.base.length) (hs : rv < e.shape.length) (hdiv : e.shape.getD rv 1 = tile * n)
    (hpre : Pre ti e st.written f)
    (ih : ∀ (j : Nat) (st0 : St) (f0 : Bool), Pre ti (e.enter rv tile j) st0.written f0 →
      Post arch ti rest chain (e.enter rv tile j) st0 (execT arch ti rest chain (e.enter rv tile j) st0) f0) :
    ∀ k, k ≤ n →
      (∀ x, (iter arch ti rest chain e rv tile st k).written x = true ↔
        (st.written x = true ∨ (ti.isOut = true ∧ ∃ j, j < k ∧ inRegion (e.enter rv tile j) ti.rvs x = true))) ∧
      ∃ Δ, (iter arch ti rest chain e rv tile st k).trace = st.trace ++ Δ ∧
        ∀ l rw, countEv Δ l rw
            + (if f then cnt (ti.rvs.contains rv) k * KK arch ti (!chain.isEmpty) (e.shape.set rv tile) rest chain l rw else 0)
          = k * TT arch ti (!chain.isEmpty) (e.shape.set rv tile) rest chain l rw := by
  intro k
  induction k with
  | zero =>
    intro _
    refine ⟨fun x => by simp [iter], [], by simp [iter], ?_⟩
    intro l rw
    simp [countEv_nil, cnt]
  | succ k ihk =>
    intro hk
    obtain ⟨hwk, Δk, htrk, hcntk⟩ := ihk (by omega)
    have hprek := fresh_iff_irrelevant_zero ti hnd e rv tile n k hb hs hdiv (by omega) st.written _ f hpre hwk
    obtain ⟨hw', δ, htr', hcnt'⟩ := ih k _ _ hprek
    rw [iter_succ]
    refine ⟨?_, Δk ++ δ, by rw [htr', htrk, List.append_assoc], ?_⟩
    · intro x
      rw [hw' x]
      simp only [Bool.or_eq_true, Bool.and_eq_true, hwk x]
      constructor
      · rintro (h | ⟨ho, hx⟩)
        · rcases h with h | ⟨ho, j, hj, hx⟩
          · exact Or.inl h
          · exact Or.inr ⟨ho, j, by omega, hx⟩
        · exact Or.inr ⟨ho, k, by omega, hx⟩
      · rintro (h | ⟨ho, j, hj, hx⟩)
        · exact Or.inl (Or.inl h)
        · by_cases hjk : j = k
          · subst hjk; exact Or.inr ⟨ho, hx⟩
          · exact Or.inl (Or.inr ⟨ho, j, by omega, hx⟩)
    · intro l rw
      have h1 := hcntk l rw
      have h2 := hcnt' l rw
      simp only [Env.enter] at h2
      rw [countEv_append, cnt_succ, Nat.succ_mul]
      generalize KK arch ti (!chain.isEmpty) (e.shape.set rv tile) rest chain l rw = K at *
      generalize TT arch ti (!chain.isEmpty) (e.shape.set rv tile) rest chain l rw = T at *
      generalize countEv Δk l rw = a at *
      generalize countEv δ l rw = b at *
      cases f
      · simp only [Bool.false_and, Bool.false_eq_true, if_false] at h1 h2 ⊢; omega
      · simp only [Bool.true_and, if_true] at h1 h2 ⊢
        by_cases hr : (ti.rvs.contains rv || k == 0) = true
        · simp only [hr, if_true] at h2 ⊢
          rw [Nat.add_mul, Nat.one_mul]; omega
        · have hr' : (ti.rvs.contains rv || k == 0) = false := by simpa using hr
          simp only [hr', Bool.false_eq_true, if_false] at h2 ⊢
          rw [Nat.add_zero]; omega

end AFV.NestExec
