import AFV.Model.Nest
/-!
# The analysis of one tensor without Reservation nodes (proof device)

`simple` is `analyzeNodes` restricted to the access statistics (`Counts`), run directly on the mapping (holders of other
tensors are skipped, every holder creates its own entry).  `AFV/Lemmas/NestStrip.lean` shows that the real analysis
(on the mapping with Reservation nodes inserted by the tracker state machine) produces exactly these counts;
`AFV/Lemmas/NestExecLemmas.lean` relates them to the reference execution.
-/
namespace AFV.Nest

abbrev CTable (α : Type) := List (BKey × Counts α)

section
variable {α : Type} [Add α] [Mul α] [Div α] [Max α] [OfNat α 0] [OfNat α 1]

def lvlOf (arch : Arch α) (l : Lvl) : Level α := arch.levels.getD l Level.dflt

def simple (c : Ctx α) : Bool → List α → Mapping α → CTable α
  | _, _, [] => []
  | _, _, .compute :: _ => [(.comp, computeCounts c.spec.isOutput c.arch.compute.skipInitial)]
  | hp, shape, .loop rv tile :: r =>
    (simple c hp (shape.set rv tile) r).map
      (fun (k, s) => (k, s.repeatTemporal (getShape shape rv / tile) (c.w.relevant c.t rv)))
  | hp, shape, .storage l ts _ :: r =>
    if ts.contains c.t then
      let tb := simple c true shape r
      (.mem l, holderCounts (lvlOf c.arch l) c.t c.spec false hp shape Counts.zero (tb.head?.map (·.2))) :: tb
    else simple c hp shape r
  | hp, shape, .toll l ts _ :: r =>
    if ts.contains c.t then
      let tb := simple c true shape r
      (.mem l, holderCounts (lvlOf c.arch l) c.t c.spec true hp shape Counts.zero (tb.head?.map (·.2))) :: tb
    else simple c hp shape r

end
end AFV.Nest
