import AFV.Model.Topo
/-!
Helper lemmas for C21: the ordering loop (`kahn`), the first loop (`split`), cycles in finite relations.
-/
namespace AFV.Topo
open Relation

set_option linter.unusedSectionVars false
variable {α : Type} [DecidableEq α]

/-! ## expressions only look at their identifiers -/

theorem Expr.eval_congr (e : Expr α) (ρ σ : α → Option Int) (h : ∀ x ∈ e.vars, ρ x = σ x) :
    e.eval ρ = e.eval σ := by
  induction e with
  | num n => rfl
  | var x => exact h x (by simp [Expr.vars])
  | neg a ih => simp only [Expr.eval]; rw [ih (fun x hx => h x (by simpa [Expr.vars] using hx))]
  | add a b iha ihb =>
    simp only [Expr.eval]
    rw [iha (fun x hx => h x (by simp [Expr.vars, hx])), ihb (fun x hx => h x (by simp [Expr.vars, hx]))]
  | sub a b iha ihb =>
    simp only [Expr.eval]
    rw [iha (fun x hx => h x (by simp [Expr.vars, hx])), ihb (fun x hx => h x (by simp [Expr.vars, hx]))]
  | mul a b iha ihb =>
    simp only [Expr.eval]
    rw [iha (fun x hx => h x (by simp [Expr.vars, hx])), ihb (fun x hx => h x (by simp [Expr.vars, hx]))]

/-! ## names -/

abbrev names (l : List (Field α)) : List α := l.map (·.name)

theorem eq_of_name_eq {l : List (Field α)} (hn : (names l).Nodup) {f g : Field α}
    (hf : f ∈ l) (hg : g ∈ l) (h : f.name = g.name) : f = g := by
  induction l with
  | nil => cases hf
  | cons a l ih =>
    simp only [names, List.map_cons, List.nodup_cons, List.mem_map, not_exists, not_and] at hn
    rcases List.mem_cons.mp hf with rfl | hf' <;> rcases List.mem_cons.mp hg with rfl | hg'
    · rfl
    · exact absurd h.symm (hn.1 g hg')
    · exact absurd h (hn.1 f hf')
    · exact ih hn.2 hf' hg'

theorem names_filter_nodup {l : List (Field α)} (hn : (names l).Nodup) (p : Field α → Bool) :
    (names (l.filter p)).Nodup :=
  List.Nodup.sublist (List.Sublist.map _ List.filter_sublist) hn

/-- removing the field called `p.name` from a list with distinct names -/
theorem names_remove_perm {l : List (Field α)} (hn : (names l).Nodup) {p : Field α} (hp : p ∈ l) :
    (p.name :: names (l.filter (fun f => f.name ≠ p.name))).Perm (names l) := by
  have h1 : names (l.filter (fun f => f.name ≠ p.name)) = (names l).erase p.name := by
    rw [List.Nodup.erase_eq_filter hn]
    simp only [names, List.filter_map]
    congr 1
    apply List.filter_congr
    intro x _
    by_cases h : x.name = p.name <;> simp [h]
  rw [h1]
  exact (List.perm_cons_erase (List.mem_map.mpr ⟨p, hp, rfl⟩)).symm

/-! ## the `while to_sort` loop -/

/-- the picked field is ready and is in `to_sort` -/
theorem pick_mem {toSort : List (Field α)} {q : Field α → Bool} {c : Field α} {rest : List (Field α)}
    (h : toSort.filter q = c :: rest) :
    let pick := ((c :: rest).find? (fun f => !f.parsable)).getD c
    pick ∈ toSort ∧ q pick = true := by
  intro pick
  have hc : pick ∈ c :: rest := by
    show ((c :: rest).find? (fun f => !f.parsable)).getD c ∈ c :: rest
    cases hf : (c :: rest).find? (fun f => !f.parsable) with
    | none => simp
    | some p => simpa using List.mem_of_find?_eq_some hf
  rw [← h] at hc
  exact ⟨(List.mem_filter.mp hc).1, (List.mem_filter.mp hc).2⟩

/-- Successful run: the result is `order` followed by a permutation of `to_sort`, in which every field comes after
all of its dependencies. -/
theorem kahn_ok (dep : Field α → List α) :
    ∀ (fuel : Nat) (order : List α) (ts : List (Field α)) (out : List α),
      ts.length ≤ fuel → (names ts).Nodup → kahn dep fuel order ts = .ok out →
      ∃ suf, out = order ++ suf ∧ suf.Perm (names ts) ∧
        ∀ f ∈ ts, ∀ l1 l2, suf = l1 ++ f.name :: l2 → ∀ g ∈ dep f, g ∈ order ++ l1 := by
  intro fuel
  induction fuel with
  | zero =>
    intro order ts out hlen _ h
    have : ts = [] := List.eq_nil_of_length_eq_zero (Nat.le_zero.mp hlen)
    subst this
    simp only [kahn, Except.ok.injEq] at h
    exact ⟨[], by simp [h], by simp, by intro f hf; cases hf⟩
  | succ fuel ih =>
    intro order ts out hlen hn h
    cases ts with
    | nil =>
      simp only [kahn, Except.ok.injEq] at h
      exact ⟨[], by simp [h], by simp, by intro f hf; cases hf⟩
    | cons t ts' =>
      simp only [kahn] at h
      generalize hca : (t :: ts').filter (fun f => (dep f).all (fun d => decide (d ∈ order))) = canAdd at h
      cases canAdd with
      | nil => cases h
      | cons c rest =>
        simp only at h
        have hp := pick_mem hca
        simp only at hp
        generalize hpk : ((c :: rest).find? (fun f => !f.parsable)).getD c = pick at h hp
        obtain ⟨hpm, hpr⟩ := hp
        have hlt : ((t :: ts').filter (fun f => f.name ≠ pick.name)).length ≤ fuel := by
          have : ((t :: ts').filter (fun f => f.name ≠ pick.name)).length < (t :: ts').length :=
            List.length_filter_lt_length_iff_exists.mpr ⟨pick, hpm, by simp⟩
          omega
        obtain ⟨suf', hout, hperm, hdep⟩ := ih _ _ _ hlt (names_filter_nodup hn _) h
        refine ⟨pick.name :: suf', by simp [hout], ?_, ?_⟩
        · exact (List.Perm.cons _ hperm).trans (names_remove_perm hn hpm)
        · intro f hf l1 l2 hsplit g hg
          have hsn : (pick.name :: suf').Nodup :=
            ((List.Perm.cons _ hperm).trans (names_remove_perm hn hpm)).nodup_iff.mpr hn
          cases l1 with
          | nil =>
            simp only [List.nil_append, List.cons.injEq] at hsplit
            have : f = pick := eq_of_name_eq hn hf hpm hsplit.1.symm
            subst this
            have := List.all_eq_true.mp hpr g hg
            simpa using this
          | cons x l1' =>
            simp only [List.cons_append, List.cons.injEq] at hsplit
            obtain ⟨hx, hs'⟩ := hsplit
            have hne : f.name ≠ pick.name := by
              intro he
              have : pick.name ∈ suf' := by rw [hs', ← he]; simp
              exact (List.nodup_cons.mp hsn).1 this
            have hf' : f ∈ (t :: ts').filter (fun f => f.name ≠ pick.name) :=
              List.mem_filter.mpr ⟨hf, by simpa using hne⟩
            have := hdep f hf' l1' l2 hs' g hg
            simp only [List.append_assoc, List.mem_append, List.mem_cons, List.mem_nil_iff, or_false] at this ⊢
            rcases this with h1 | h1 | h1
            · exact Or.inl h1
            · exact Or.inr (Or.inl (by rw [h1, hx]))
            · exact Or.inr (Or.inr h1)

/-- Failing run: the reported fields are a non-empty part of `to_sort` in which every field depends on a reported
field. -/
theorem kahn_err (dep : Field α → List α) :
    ∀ (fuel : Nat) (order : List α) (ts : List (Field α)) (stuck : List α),
      kahn dep fuel order ts = .error stuck →
      (∀ f ∈ ts, ∀ g ∈ dep f, g ∈ order ∨ g ∈ names ts) →
      ∃ S : List (Field α), S ≠ [] ∧ stuck = names S ∧ (∀ f ∈ S, f ∈ ts) ∧
        ∀ f ∈ S, ∃ g ∈ dep f, g ∈ names S := by
  intro fuel
  induction fuel with
  | zero => intro order ts stuck h; simp [kahn] at h
  | succ fuel ih =>
    intro order ts stuck h hcl
    cases ts with
    | nil => simp [kahn] at h
    | cons t ts' =>
      simp only [kahn] at h
      generalize hca : (t :: ts').filter (fun f => (dep f).all (fun d => decide (d ∈ order))) = canAdd at h
      cases canAdd with
      | nil =>
        simp only [Except.error.injEq] at h
        refine ⟨t :: ts', by simp, h.symm, fun f hf => hf, ?_⟩
        intro f hf
        have hnot : ¬ ((dep f).all (fun d => decide (d ∈ order)) = true) := by
          intro hall
          have : f ∈ (t :: ts').filter (fun f => (dep f).all (fun d => decide (d ∈ order))) :=
            List.mem_filter.mpr ⟨hf, hall⟩
          rw [hca] at this
          cases this
        simp only [List.all_eq_true, decide_eq_true_eq] at hnot
        have hex : ∃ g, g ∈ dep f ∧ g ∉ order := by
          apply Classical.byContradiction
          intro hcon
          apply hnot
          intro g hg
          apply Classical.byContradiction
          intro hgo
          exact hcon ⟨g, hg, hgo⟩
        obtain ⟨g, hg, hgo⟩ := hex
        rcases hcl f hf g hg with h1 | h1
        · exact absurd h1 hgo
        · exact ⟨g, hg, h1⟩
      | cons c rest =>
        simp only at h
        have hp := pick_mem hca
        simp only at hp
        generalize hpk : ((c :: rest).find? (fun f => !f.parsable)).getD c = pick at h hp
        obtain ⟨hpm, _⟩ := hp
        have hcl' : ∀ f ∈ (t :: ts').filter (fun f => f.name ≠ pick.name), ∀ g ∈ dep f,
            g ∈ order ++ [pick.name] ∨ g ∈ names ((t :: ts').filter (fun f => f.name ≠ pick.name)) := by
          intro f hf g hg
          have hf0 := (List.mem_filter.mp hf).1
          rcases hcl f hf0 g hg with h1 | h1
          · exact Or.inl (by simp [h1])
          · by_cases hgp : g = pick.name
            · exact Or.inl (by simp [hgp])
            · right
              obtain ⟨f', hf', rfl⟩ := List.mem_map.mp h1
              exact List.mem_map.mpr ⟨f', List.mem_filter.mpr ⟨hf', by simpa using hgp⟩, rfl⟩
        obtain ⟨S, hne, hst, hsub, hS⟩ := ih _ _ _ h hcl'
        exact ⟨S, hne, hst, fun f hf => (List.mem_filter.mp (hsub f hf)).1, hS⟩

/-! ## a finite set in which every element has a successor contains a cycle -/

theorem transGen_mono {R R' : α → α → Prop} (h : ∀ a b, R a b → TransGen R' a b) {a b : α}
    (hab : TransGen R a b) : TransGen R' a b := by
  induction hab with
  | single h1 => exact h _ _ h1
  | tail _ h2 ih => exact ih.trans (h _ _ h2)

theorem exists_cycle_aux : ∀ (n : Nat) (R : α → α → Prop) (S : List α), S.length ≤ n → S ≠ [] →
    (∀ x ∈ S, ∃ y ∈ S, R x y) → ∃ x ∈ S, TransGen R x x := by
  intro n
  induction n with
  | zero =>
    intro R S hl hne
    exact absurd (List.eq_nil_of_length_eq_zero (Nat.le_zero.mp hl)) hne
  | succ n ih =>
    intro R S hl hne hsucc
    cases S with
    | nil => exact absurd rfl hne
    | cons x S0 =>
      by_cases hxx : R x x
      · exact ⟨x, by simp, .single hxx⟩
      · let S' := S0.filter (fun y => y ≠ x)
        have hS'mem : ∀ y, y ∈ S' ↔ y ∈ S0 ∧ y ≠ x := by intro y; simp [S']
        have hmemS : ∀ y, y ∈ x :: S0 → y ≠ x → y ∈ S' := by
          intro y hy hne'
          rcases List.mem_cons.mp hy with h | h
          · exact absurd h hne'
          · exact (hS'mem y).mpr ⟨h, hne'⟩
        obtain ⟨w, hwS, hxw⟩ := hsucc x (by simp)
        have hwx : w ≠ x := by intro h; exact hxx (h ▸ hxw)
        have hw' : w ∈ S' := hmemS w hwS hwx
        let R' : α → α → Prop := fun a b => R a b ∨ (R a x ∧ R x b)
        have hsucc' : ∀ y ∈ S', ∃ z ∈ S', R' y z := by
          intro y hy
          obtain ⟨z, hzS, hyz⟩ := hsucc y (List.mem_cons_of_mem _ ((hS'mem y).mp hy).1)
          by_cases hzx : z = x
          · exact ⟨w, hw', Or.inr ⟨hzx ▸ hyz, hxw⟩⟩
          · exact ⟨z, hmemS z hzS hzx, Or.inl hyz⟩
        have hl' : S'.length ≤ n := by
          have : S'.length ≤ S0.length := List.length_filter_le _ _
          simp only [List.length_cons] at hl
          omega
        have hne' : S' ≠ [] := by intro h; rw [h] at hw'; cases hw'
        obtain ⟨y, hy, hcyc⟩ := ih R' S' hl' hne' hsucc'
        refine ⟨y, List.mem_cons_of_mem _ ((hS'mem y).mp hy).1, ?_⟩
        apply transGen_mono _ hcyc
        intro a b hab
        rcases hab with h | ⟨h1, h2⟩
        · exact .single h
        · exact (TransGen.single h1).tail h2

theorem exists_cycle (R : α → α → Prop) (S : List α) (hne : S ≠ [])
    (h : ∀ x ∈ S, ∃ y ∈ S, R x y) : ∃ x ∈ S, TransGen R x x :=
  exists_cycle_aux S.length R S (Nat.le_refl _) hne h

end AFV.Topo
