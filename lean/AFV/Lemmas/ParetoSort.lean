import AFV.Lemmas.ParetoBlocks
/-!
Stable insertion sort: permutation + sortedness; sorting by a key that is strictly monotone on dominating
pairs yields a topological order; hence the general path is exact.
-/
namespace AFV.Pareto

section sort
variable {α : Type} (le : α → α → Bool)

theorem mem_insertBy (x y : α) (l : List α) : y ∈ insertBy le x l ↔ y = x ∨ y ∈ l := by
  induction l with
  | nil => simp [insertBy]
  | cons z zs ih =>
    unfold insertBy; split
    · simp
    · simp only [List.mem_cons, ih]
      constructor
      · rintro (h | h | h) <;> simp [h]
      · rintro (h | h | h) <;> simp [h]

theorem mem_isort (y : α) (l : List α) : y ∈ isort le l ↔ y ∈ l := by
  induction l with
  | nil => simp [isort]
  | cons x xs ih => simp [isort, mem_insertBy, ih]

theorem perm_insertBy (x : α) (l : List α) : (insertBy le x l).Perm (x :: l) := by
  induction l with
  | nil => simp [insertBy]
  | cons z zs ih =>
    unfold insertBy; split
    · exact List.Perm.refl _
    · exact ((List.Perm.cons z ih).trans (List.Perm.swap x z zs))

theorem perm_isort (l : List α) : (isort le l).Perm l := by
  induction l with
  | nil => simp [isort]
  | cons x xs ih => exact (perm_insertBy le x _).trans (List.Perm.cons x ih)

theorem any_isort (p : α → Bool) (l : List α) : (isort le l).any p = l.any p := by
  rw [Bool.eq_iff_iff]
  simp only [List.any_eq_true, mem_isort]

variable (htot : ∀ a b, le a b = true ∨ le b a = true)
variable (htrans : ∀ a b c, le a b = true → le b c = true → le a c = true)

include htot htrans in
theorem sorted_insertBy (x : α) (l : List α) (h : l.Pairwise fun a b => le a b = true) :
    (insertBy le x l).Pairwise fun a b => le a b = true := by
  induction l with
  | nil => simp [insertBy]
  | cons z zs ih =>
    have hz := (List.pairwise_cons.mp h).1
    have hzs := (List.pairwise_cons.mp h).2
    unfold insertBy; split
    · rename_i hxz
      refine List.pairwise_cons.mpr ⟨?_, h⟩
      intro b hb
      rcases List.mem_cons.mp hb with rfl | hb
      · exact hxz
      · exact htrans _ _ _ hxz (hz b hb)
    · rename_i hxz
      have hzx : le z x = true := by
        rcases htot x z with h' | h'
        · exact absurd h' hxz
        · exact h'
      refine List.pairwise_cons.mpr ⟨?_, ih hzs⟩
      intro b hb
      rcases (mem_insertBy le x b zs).mp hb with rfl | hb
      · exact hzx
      · exact hz b hb

include htot htrans in
theorem sorted_isort (l : List α) : (isort le l).Pairwise fun a b => le a b = true := by
  induction l with
  | nil => simp [isort]
  | cons x xs ih => exact sorted_insertBy le htot htrans x _ ih

end sort

/-- **sorted-by-key gives a topological order** when the key is strictly monotone on dominating pairs. -/
theorem topo_sortByKey (key : List EV → FKey) (d : Nat) (L : List Item)
    (hk : ∀ x ∈ L, ∀ y ∈ L, domV d x.2 y.2 = true → FKey.lt (key x.2) (key y.2) = true) :
    Topo d (sortByKey key L) := by
  have hs := sorted_isort (fun x y : Item => FKey.le (key x.2) (key y.2))
    (fun a b => FKey.le_total _ _) (fun a b c => FKey.le_trans) L
  refine List.Pairwise.imp_of_mem ?_ hs
  intro a b ha hb hab
  have ha' : a ∈ L := (mem_isort _ a L).mp ha
  have hb' : b ∈ L := (mem_isort _ b L).mp hb
  cases hd : domV d b.2 a.2
  · rfl
  · have := hk b hb' a ha' hd
    simp [FKey.lt, hab] at this

/-- **the general path is exact** under H-key. -/
theorem mem_bnlBlocks (cfg : Cfg) (d : Nat) (L : List Item)
    (hk : ∀ x ∈ L, ∀ y ∈ L, domV d x.2 y.2 = true → FKey.lt (cfg.key x.2) (cfg.key y.2) = true)
    (i : Nat) :
    i ∈ bnlBlocks cfg d L ↔ ∃ x ∈ L, x.1 = i ∧ (L.any fun y => domV d y.2 x.2) = false := by
  rw [bnlBlocks_eq_bnlGo, mem_bnlGo d [] _ (topo_sortByKey cfg.key d L hk)]
  unfold sortByKey
  simp only [mem_isort, any_isort, List.any_nil, true_and]

end AFV.Pareto
