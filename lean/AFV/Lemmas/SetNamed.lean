import AFV.Lemmas.SetAlg
import Mathlib.Data.List.Perm.Basic
import Mathlib.Data.List.Nodup
/-!
Membership characterisations of the named sets `Einsum._eval_expressions` builds.
-/
namespace AFV.Renames
open AFV.SetAlg AFV.SetSpec

theorem mem_inputNames {e : Einsum} {t : Name} : t ∈ e.inputNames ↔ isInput e t = true := by
  simp only [Einsum.inputNames, mem_dedup, List.mem_map, List.mem_filter, isInput, List.any_eq_true,
    Bool.and_eq_true, beq_iff_eq]
  constructor
  · rintro ⟨a, ⟨ha, ho⟩, rfl⟩; exact ⟨a, ha, rfl, ho⟩
  · rintro ⟨a, ha, rfl, ho⟩; exact ⟨a, ⟨ha, ho⟩, rfl⟩

theorem mem_outputNames {e : Einsum} {t : Name} : t ∈ e.outputNames ↔ isOutput e t = true := by
  simp only [Einsum.outputNames, mem_dedup, List.mem_map, List.mem_filter, isOutput, List.any_eq_true,
    Bool.and_eq_true, beq_iff_eq]
  constructor
  · rintro ⟨a, ⟨ha, ho⟩, rfl⟩; exact ⟨a, ha, rfl, ho⟩
  · rintro ⟨a, ha, rfl, ho⟩; exact ⟨a, ⟨ha, ho⟩, rfl⟩

theorem mem_flagged {e : Einsum} {t : Name} : t ∈ e.flaggedPersistent ↔ isFlagged e t = true := by
  simp only [Einsum.flaggedPersistent, mem_dedup, List.mem_map, List.mem_filter, isFlagged,
    List.any_eq_true, Bool.and_eq_true, beq_iff_eq]
  constructor
  · rintro ⟨a, ⟨ha, ho⟩, rfl⟩; exact ⟨a, ha, rfl, ho⟩
  · rintro ⟨a, ha, rfl, ho⟩; exact ⟨a, ⟨ha, ho⟩, rfl⟩

theorem isTensorOf_iff {e : Einsum} {t : Name} :
    isTensorOf e t = true ↔ isInput e t = true ∨ isOutput e t = true := by
  simp only [isTensorOf, isInput, isOutput, List.any_eq_true, Bool.and_eq_true, beq_iff_eq,
    Bool.not_eq_true']
  constructor
  · rintro ⟨a, ha, rfl⟩
    cases ho : a.output
    · exact Or.inl ⟨a, ha, rfl, ho⟩
    · exact Or.inr ⟨a, ha, rfl, ho⟩
  · rintro (⟨a, ha, h, _⟩ | ⟨a, ha, h, _⟩) <;> exact ⟨a, ha, h⟩

theorem mem_all {e : Einsum} {t : Name} : t ∈ e.all ↔ isTensorOf e t = true := by
  rw [Einsum.all, mem_union, mem_inputNames, mem_outputNames, isTensorOf_iff]

theorem mem_tensorNames {e : Einsum} {t : Name} : t ∈ e.tensorNames ↔ isTensorOf e t = true := by
  simp [Einsum.tensorNames, mem_dedup, isTensorOf]

theorem nodup_all (e : Einsum) : e.all.Nodup :=
  nodup_union (nodup_dedup _) (nodup_dedup _)

theorem mem_intermediates {w : Workload} {e : Einsum} {t : Name} :
    t ∈ intermediates w e ↔ isTensorOf e t = true ∧ isIntermediate w t = true := by
  simp only [intermediates, List.mem_filter, mem_all, Bool.and_eq_true, Bool.not_eq_true',
    List.isEmpty_eq_false_iff, isIntermediate, List.any_eq_true]
  have h1 : w.einsumsWithInput t ≠ [] ↔ ∃ x ∈ w.einsums, isInput x t = true := by
    simp only [Workload.einsumsWithInput, ne_eq, List.filter_eq_nil_iff, not_forall]
    constructor
    · rintro ⟨x, hx, h⟩; exact ⟨x, hx, mem_inputNames.mp (by simpa using h)⟩
    · rintro ⟨x, hx, h⟩; exact ⟨x, hx, by simpa using mem_inputNames.mpr h⟩
  have h2 : w.einsumsWithOutput t ≠ [] ↔ ∃ x ∈ w.einsums, isOutput x t = true := by
    simp only [Workload.einsumsWithOutput, ne_eq, List.filter_eq_nil_iff, not_forall]
    constructor
    · rintro ⟨x, hx, h⟩; exact ⟨x, hx, mem_outputNames.mp (by simpa using h)⟩
    · rintro ⟨x, hx, h⟩; exact ⟨x, hx, by simpa using mem_outputNames.mpr h⟩
  rw [h1, h2]

/-- With distinct Einsum names, the number of distinct names of Einsums that read or write `t` is the
number of Einsums that use `t`. -/
theorem shared_count {w : Workload} (hn : (w.einsums.map (·.name)).Nodup) (t : Name) :
    (union (dedup ((w.einsumsWithInput t).map (·.name)))
           (dedup ((w.einsumsWithOutput t).map (·.name)))).length =
      (w.einsums.filter (fun e => isTensorOf e t)).length := by
  have hnd1 : (union (dedup ((w.einsumsWithInput t).map (·.name)))
      (dedup ((w.einsumsWithOutput t).map (·.name)))).Nodup :=
    nodup_union (nodup_dedup _) (nodup_dedup _)
  have hnd2 : ((w.einsums.filter (fun e => isTensorOf e t)).map (·.name)).Nodup :=
    (List.filter_sublist.map _).nodup hn
  have hperm := (List.perm_ext_iff_of_nodup hnd1 hnd2).mpr (by
    intro x
    simp only [mem_union, mem_dedup, List.mem_map, Workload.einsumsWithInput,
      Workload.einsumsWithOutput, List.mem_filter, List.contains_iff_mem, mem_inputNames,
      mem_outputNames]
    constructor
    · rintro (⟨e, ⟨he, h⟩, rfl⟩ | ⟨e, ⟨he, h⟩, rfl⟩)
      · exact ⟨e, ⟨he, isTensorOf_iff.mpr (Or.inl h)⟩, rfl⟩
      · exact ⟨e, ⟨he, isTensorOf_iff.mpr (Or.inr h)⟩, rfl⟩
    · rintro ⟨e, ⟨he, h⟩, rfl⟩
      rcases isTensorOf_iff.mp h with h | h
      · exact Or.inl ⟨e, ⟨he, h⟩, rfl⟩
      · exact Or.inr ⟨e, ⟨he, h⟩, rfl⟩)
  rw [hperm.length_eq, List.length_map]

theorem mem_shared {w : Workload} {e : Einsum} {t : Name}
    (hn : (w.einsums.map (·.name)).Nodup) :
    t ∈ shared w e ↔ isTensorOf e t = true ∧ isShared w t = true := by
  simp only [shared, List.mem_filter, mem_all, isShared, decide_eq_true_eq, shared_count hn]

section leaf
variable (w : Workload) (e : Einsum) (sel : Name → Bool) (t : Name)
theorem leaf_All : leaf w e sel "All" t = isTensorOf e t := by simp [leaf]
theorem leaf_Tensors : leaf w e sel "Tensors" t = isTensorOf e t := by simp [leaf]
theorem leaf_Nothing : leaf w e sel "Nothing" t = false := by simp [leaf]
theorem leaf_Inputs : leaf w e sel "Inputs" t = (isTensorOf e t && isInput e t) := by simp [leaf]
theorem leaf_Outputs : leaf w e sel "Outputs" t = (isTensorOf e t && isOutput e t) := by simp [leaf]
theorem leaf_Intermediates : leaf w e sel "Intermediates" t = (isTensorOf e t && isIntermediate w t) := by simp [leaf]
theorem leaf_Shared : leaf w e sel "Shared" t = (isTensorOf e t && isShared w t) := by simp [leaf]
theorem leaf_Persistent : leaf w e sel "Persistent" t = (isTensorOf e t && (isFlagged e t || sel t)) := by simp [leaf]
theorem leaf_other {n : Name} (h : n ∉ reserved) : leaf w e sel n t = (isTensorOf e t && (n == t)) := by
  simp only [reserved, List.mem_cons, List.not_mem_nil, or_false, not_or] at h
  obtain ⟨h1, h2, h3, h4, h5, h6, h7, h8⟩ := h
  have e1 : (n == "All") = false := by simpa using h1
  have e2 : (n == "Tensors") = false := by simpa using h2
  have e3 : (n == "Nothing") = false := by simpa using h3
  have e4 : (n == "Inputs") = false := by simpa using h4
  have e5 : (n == "Outputs") = false := by simpa using h5
  have e6 : (n == "Intermediates") = false := by simpa using h6
  have e7 : (n == "Shared") = false := by simpa using h7
  have e8 : (n == "Persistent") = false := by simpa using h8
  simp [leaf, e1, e2, e3, e4, e5, e6, e7, e8]
end leaf

end AFV.Renames
