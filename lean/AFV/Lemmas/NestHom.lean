import AFV.Model.NestMap
/-!
# `analytic` commutes with every homomorphism of its number type (the "free theorem" behind C07)
-/
namespace AFV.Nest

variable {α β : Type}
  [Add α] [Mul α] [Div α] [Max α] [Sub α] [OfNat α 0] [OfNat α 1]
  [Add β] [Mul β] [Div β] [Max β] [Sub β] [OfNat β 0] [OfNat β 1]

/-- `f` preserves the operations `analytic` uses. -/
structure IsHom (f : α → β) : Prop where
  add : ∀ a b, f (a + b) = f a + f b
  mul : ∀ a b, f (a * b) = f a * f b
  div : ∀ a b, f (a / b) = f a / f b
  max : ∀ a b, f (Max.max a b) = Max.max (f a) (f b)
  sub : ∀ a b, f (a - b) = f a - f b
  zero : f 0 = 0
  one : f 1 = 1

variable {f : α → β}

theorem lookup_map (l : List (Nat × α)) (k : Nat) : lookup (mapPairs f l) k = (lookup l k).map f := by
  induction l with
  | nil => rfl
  | cons p r ih =>
    obtain ⟨k', v⟩ := p
    simp only [mapPairs, List.map_cons, lookup] at ih ⊢
    split <;> simp [ih]

theorem vpa_map (hf : IsHom f) (lv : Level α) (a : Act α) (t : TId) (b : α) :
    valuesPerAction (lv.map f) (a.map f) t (f b) = f (valuesPerAction lv a t b) := by
  simp only [valuesPerAction, Level.map, Act.map, lookup_map]
  cases lookup a.vpa t <;> cases lookup lv.vpa t <;> cases lookup lv.bpvOv t <;> cases a.bpa <;> cases lv.bpa <;>
    simp [hf.div, hf.one]

theorem bpv_map (lv : Level α) (t : TId) (b : α) :
    bitsPerValue (lv.map f) t (f b) = f (bitsPerValue lv t b) := by
  simp only [bitsPerValue, Level.map, lookup_map]
  cases lookup lv.bpvOv t <;> simp

theorem getShape_map (hf : IsHom f) (shape : List α) (rv : RV) : getShape (shape.map f) rv = f (getShape shape rv) := by
  simp only [getShape, List.getD, List.getElem?_map]
  cases shape[rv]? <;> simp [hf.one]

theorem tileSize_map (hf : IsHom f) (shape : List α) (rvs : List RV) :
    tileSize (shape.map f) rvs = f (tileSize shape rvs) := by
  induction rvs with
  | nil => simp [tileSize, hf.one]
  | cons r rs ih => simp only [tileSize, ih, getShape_map hf, hf.mul]

theorem repeat_map (hf : IsHom f) (c : Counts α) (n : α) (rel : Bool) :
    (c.map f).repeatTemporal (f n) rel = (c.repeatTemporal n rel).map f := by
  cases rel <;> simp [Counts.repeatTemporal, Counts.map, hf.mul]

theorem statsRepeat_map (hf : IsHom f) (s : Stats α) (n : α) (rel : Bool) :
    (s.map f).repeatTemporal (f n) rel = (s.repeatTemporal n rel).map f := by
  simp only [Stats.repeatTemporal, Stats.map, repeat_map hf]

theorem dirOf_map (lv : Level α) (t : TId) : dirOf (lv.map f) t = dirOf lv t := rfl

theorem zero_map (hf : IsHom f) : (Counts.zero : Counts α).map f = Counts.zero := by
  simp [Counts.zero, Counts.map, hf.zero]

end AFV.Nest
