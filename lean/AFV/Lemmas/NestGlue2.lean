import AFV.Lemmas.NestGlue
namespace AFV.Nest
open AFV.NestExec

/-- `simple` does not see `_split_tensor_holders_with_multiple_tensors`. -/
theorem simple_singles (c : Ctx Rat) (l : Lvl) (ts : List TId) (lo : Bool) (isS : Bool) (R : Mapping Rat) (hnd : ts.Nodup) :
    ∀ hp shape,
      simple c hp shape (ts.map (fun t => if isS then Node.storage l [t] lo else Node.toll l [t] lo) ++ R)
        = if ts.contains c.t then
            (.mem l, holderCounts (lvlOf c.arch l) c.t c.spec (!isS) hp shape Counts.zero
              ((simple c true shape R).head?.map (·.2))) :: simple c true shape R
          else simple c hp shape R := by
  induction ts with
  | nil => intro hp shape; simp
  | cons x xs ih =>
    intro hp shape
    have hnd' := (List.nodup_cons.1 hnd).2
    have hx := (List.nodup_cons.1 hnd).1
    by_cases hxt : x = c.t
    · subst hxt
      have hnot : xs.contains c.t = false := by simpa using hx
      have hrest := ih hnd' true shape
      rw [hnot] at hrest
      simp only [Bool.false_eq_true, if_false] at hrest
      cases isS
      · simp only [List.map_cons, List.cons_append, Bool.false_eq_true, if_false, simple, List.contains_cons, beq_self_eq_true,
          Bool.true_or, if_true, Bool.not_false] at hrest ⊢
        rw [hrest]
      · simp only [List.map_cons, List.cons_append, if_true, simple, List.contains_cons, beq_self_eq_true,
          Bool.true_or, Bool.not_true] at hrest ⊢
        rw [hrest]
    · have h1 : ([x] : List TId).contains c.t = false := by simp [List.contains_cons, Ne.symm hxt]
      have h2 : (x :: xs).contains c.t = xs.contains c.t := by simp [List.contains_cons, Ne.symm hxt]
      rw [h2, ← ih hnd' hp shape]
      cases isS <;> simp only [List.map_cons, List.cons_append, Bool.false_eq_true, if_false, if_true, simple, h1]

theorem simple_split (c : Ctx Rat) (m : Mapping Rat)
    (hnd : ∀ n ∈ m, match n with | .storage _ ts _ => ts.Nodup | .toll _ ts _ => ts.Nodup | _ => True) :
    ∀ hp shape, simple c hp shape (splitHolders m) = simple c hp shape m := by
  induction m with
  | nil => intro hp shape; rfl
  | cons n r ih =>
    have ih' := ih (fun n hn => hnd n (List.mem_cons_of_mem _ hn))
    have hn := hnd n (List.mem_cons_self ..)
    intro hp shape
    cases n with
    | storage l ts lo =>
      simp only [splitHolders]
      split
      · have := simple_singles c l ts lo true (splitHolders r) hn hp shape
        simp only [if_true, Bool.not_true] at this
        rw [this]
        simp only [simple, ih']
      · simp only [List.singleton_append, simple, ih']
    | toll l ts lo =>
      simp only [splitHolders]
      split
      · have := simple_singles c l ts lo false (splitHolders r) hn hp shape
        simp only [Bool.false_eq_true, if_false, Bool.not_false] at this
        rw [this]
        simp only [simple, ih']
      · simp only [List.singleton_append, simple, ih']
    | loop rv tile => simp only [splitHolders, simple, ih']
    | compute => simp only [splitHolders, simple]

end AFV.Nest
