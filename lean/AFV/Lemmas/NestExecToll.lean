import AFV.Lemmas.NestExecMain
namespace AFV.NestExec
open AFV.Nest

/-- Toll node holding the tensor (a holder of the tensor is above it). -/
theorem exec_toll (arch : Arch Rat) (ti : TInfo) (lvl : Lvl) (ts : List TId) (lo : Bool) (rest : Mapping Nat)
    (chain : List Hold) (e : Env) (st : St) (f : Bool)
    (hts : ts.contains ti.t = true)
    (htoll : (arch.levels.getD lvl Level.dflt).isToll = true)
    (hhp : (!chain.isEmpty) = true)
    (hwfr : wfT arch ti true e.shape rest)
    (ih : Post arch ti rest (holdOf arch ti.t lvl true :: chain) e st
        (execT arch ti rest (holdOf arch ti.t lvl true :: chain) e st) f) :
    Post arch ti (.toll lvl ts lo :: rest) chain e st (execT arch ti (.toll lvl ts lo :: rest) chain e st) f := by
  simp only [execT, hts, if_true]
  obtain ⟨hw, Δr, htr, hcnt⟩ := ih
  refine ⟨hw, Δr, htr, ?_⟩
  intro l rw
  have hc := hcnt l rw
  have hne := simpleN_ne_nil arch ti rest true true e.shape hwfr
  have hhl : (holdOf arch ti.t lvl true).lvl = lvl := rfl
  have hhT : (holdOf arch ti.t lvl true).isToll = true := rfl
  have hhd : (holdOf arch ti.t lvl true).dir = dirOf (arch.levels.getD lvl Level.dflt) ti.t := rfl
  generalize holdOf arch ti.t lvl true = h at *
  simp only [TT, KK, simpleN, hts, if_true, hhp, List.isEmpty_cons, Bool.not_false, innerT_cons, innerK_cons,
    holderN_toll arch ti lvl _ e.shape _ htoll hne, attrT, attrK, hhT, hhl, hhd, entT, entK,
    bndR_cons, bndW_cons, bndK_cons, Bool.true_and] at hc ⊢
  have hin := simpleN_input arch ti
  generalize dirOf (arch.levels.getD lvl Level.dflt) ti.t = dir at *
  generalize innerT (simpleN arch ti true e.shape rest) l rw = iT at *
  generalize innerK (simpleN arch ti true e.shape rest) l rw = iK at *
  generalize hcR : bndR (simpleN arch ti true e.shape rest) = cR at *
  generalize hcW : bndW (simpleN arch ti true e.shape rest) = cW at *
  generalize hcK : bndK (simpleN arch ti true e.shape rest) = cK at *
  generalize countEv Δr l rw = dR at *
  cases ho : ti.isOut
  · have h0 := hin ho rest true e.shape
    rw [hcW, hcK] at h0
    obtain ⟨hW0, hK0⟩ := h0
    subst hW0 hK0
    have hKZ := attrK_zero chain l rw
    simp only [Bool.false_eq_true, if_false, ite_self, Nat.zero_add, Nat.add_zero, hKZ] at hc ⊢
    cases f <;> cases rw <;> by_cases hl : lvl = l <;> cases dir <;> simp [hl] at hc ⊢ <;> omega
  · simp only [if_true] at hc ⊢
    cases f <;> cases rw <;> by_cases hl : lvl = l <;> cases dir <;> simp [hl] at hc ⊢ <;> omega

end AFV.NestExec
