import AFV.Model.Verdict
import Mathlib.Algebra.Order.Field.Rat
import Mathlib.Tactic.Linarith
/-!
The repaired `partition_heaviside` (one part per assignment of 0/1 to every distinct Heaviside term):
at a point where no Heaviside argument vanishes, one of the parts has exactly the value of the formula.
-/
namespace AFV.Verdict
open AFV.Expr9

mutual
theorem beq_eq : ∀ (a b : E), beq a b = true → a = b
  | .num n d, .num n' d', h => by simp [beq] at h; rw [h.1, h.2]
  | .sym i, .sym j, h => by simp [beq] at h; rw [h]
  | .add xs, .add ys, h => by rw [beq] at h; rw [beqL_eq xs ys h]
  | .mul xs, .mul ys, h => by rw [beq] at h; rw [beqL_eq xs ys h]
  | .pow b k, .pow b' k', h => by simp [beq] at h; rw [beq_eq b b' h.1, h.2]
  | .max xs, .max ys, h => by rw [beq] at h; rw [beqL_eq xs ys h]
  | .min xs, .min ys, h => by rw [beq] at h; rw [beqL_eq xs ys h]
  | .ceil x, .ceil y, h => by rw [beq] at h; rw [beq_eq x y h]
  | .floor x, .floor y, h => by rw [beq] at h; rw [beq_eq x y h]
  | .heav x, .heav y, h => by rw [beq] at h; rw [beq_eq x y h]
  | .dceil x, .dceil y, h => by rw [beq] at h; rw [beq_eq x y h]
  | .did x, .did y, h => by rw [beq] at h; rw [beq_eq x y h]
  | .opq t xs, .opq t' ys, h => by simp [beq] at h; rw [h.1, beqL_eq xs ys h.2]
  | .num _ _, .sym _, h => by simp [beq] at h
  | .num _ _, .add _, h => by simp [beq] at h
  | .num _ _, .mul _, h => by simp [beq] at h
  | .num _ _, .pow _ _, h => by simp [beq] at h
  | .num _ _, .max _, h => by simp [beq] at h
  | .num _ _, .min _, h => by simp [beq] at h
  | .num _ _, .ceil _, h => by simp [beq] at h
  | .num _ _, .floor _, h => by simp [beq] at h
  | .num _ _, .heav _, h => by simp [beq] at h
  | .num _ _, .dceil _, h => by simp [beq] at h
  | .num _ _, .did _, h => by simp [beq] at h
  | .num _ _, .opq _ _, h => by simp [beq] at h
  | .sym _, .num _ _, h => by simp [beq] at h
  | .sym _, .add _, h => by simp [beq] at h
  | .sym _, .mul _, h => by simp [beq] at h
  | .sym _, .pow _ _, h => by simp [beq] at h
  | .sym _, .max _, h => by simp [beq] at h
  | .sym _, .min _, h => by simp [beq] at h
  | .sym _, .ceil _, h => by simp [beq] at h
  | .sym _, .floor _, h => by simp [beq] at h
  | .sym _, .heav _, h => by simp [beq] at h
  | .sym _, .dceil _, h => by simp [beq] at h
  | .sym _, .did _, h => by simp [beq] at h
  | .sym _, .opq _ _, h => by simp [beq] at h
  | .add _, .num _ _, h => by simp [beq] at h
  | .add _, .sym _, h => by simp [beq] at h
  | .add _, .mul _, h => by simp [beq] at h
  | .add _, .pow _ _, h => by simp [beq] at h
  | .add _, .max _, h => by simp [beq] at h
  | .add _, .min _, h => by simp [beq] at h
  | .add _, .ceil _, h => by simp [beq] at h
  | .add _, .floor _, h => by simp [beq] at h
  | .add _, .heav _, h => by simp [beq] at h
  | .add _, .dceil _, h => by simp [beq] at h
  | .add _, .did _, h => by simp [beq] at h
  | .add _, .opq _ _, h => by simp [beq] at h
  | .mul _, .num _ _, h => by simp [beq] at h
  | .mul _, .sym _, h => by simp [beq] at h
  | .mul _, .add _, h => by simp [beq] at h
  | .mul _, .pow _ _, h => by simp [beq] at h
  | .mul _, .max _, h => by simp [beq] at h
  | .mul _, .min _, h => by simp [beq] at h
  | .mul _, .ceil _, h => by simp [beq] at h
  | .mul _, .floor _, h => by simp [beq] at h
  | .mul _, .heav _, h => by simp [beq] at h
  | .mul _, .dceil _, h => by simp [beq] at h
  | .mul _, .did _, h => by simp [beq] at h
  | .mul _, .opq _ _, h => by simp [beq] at h
  | .pow _ _, .num _ _, h => by simp [beq] at h
  | .pow _ _, .sym _, h => by simp [beq] at h
  | .pow _ _, .add _, h => by simp [beq] at h
  | .pow _ _, .mul _, h => by simp [beq] at h
  | .pow _ _, .max _, h => by simp [beq] at h
  | .pow _ _, .min _, h => by simp [beq] at h
  | .pow _ _, .ceil _, h => by simp [beq] at h
  | .pow _ _, .floor _, h => by simp [beq] at h
  | .pow _ _, .heav _, h => by simp [beq] at h
  | .pow _ _, .dceil _, h => by simp [beq] at h
  | .pow _ _, .did _, h => by simp [beq] at h
  | .pow _ _, .opq _ _, h => by simp [beq] at h
  | .max _, .num _ _, h => by simp [beq] at h
  | .max _, .sym _, h => by simp [beq] at h
  | .max _, .add _, h => by simp [beq] at h
  | .max _, .mul _, h => by simp [beq] at h
  | .max _, .pow _ _, h => by simp [beq] at h
  | .max _, .min _, h => by simp [beq] at h
  | .max _, .ceil _, h => by simp [beq] at h
  | .max _, .floor _, h => by simp [beq] at h
  | .max _, .heav _, h => by simp [beq] at h
  | .max _, .dceil _, h => by simp [beq] at h
  | .max _, .did _, h => by simp [beq] at h
  | .max _, .opq _ _, h => by simp [beq] at h
  | .min _, .num _ _, h => by simp [beq] at h
  | .min _, .sym _, h => by simp [beq] at h
  | .min _, .add _, h => by simp [beq] at h
  | .min _, .mul _, h => by simp [beq] at h
  | .min _, .pow _ _, h => by simp [beq] at h
  | .min _, .max _, h => by simp [beq] at h
  | .min _, .ceil _, h => by simp [beq] at h
  | .min _, .floor _, h => by simp [beq] at h
  | .min _, .heav _, h => by simp [beq] at h
  | .min _, .dceil _, h => by simp [beq] at h
  | .min _, .did _, h => by simp [beq] at h
  | .min _, .opq _ _, h => by simp [beq] at h
  | .ceil _, .num _ _, h => by simp [beq] at h
  | .ceil _, .sym _, h => by simp [beq] at h
  | .ceil _, .add _, h => by simp [beq] at h
  | .ceil _, .mul _, h => by simp [beq] at h
  | .ceil _, .pow _ _, h => by simp [beq] at h
  | .ceil _, .max _, h => by simp [beq] at h
  | .ceil _, .min _, h => by simp [beq] at h
  | .ceil _, .floor _, h => by simp [beq] at h
  | .ceil _, .heav _, h => by simp [beq] at h
  | .ceil _, .dceil _, h => by simp [beq] at h
  | .ceil _, .did _, h => by simp [beq] at h
  | .ceil _, .opq _ _, h => by simp [beq] at h
  | .floor _, .num _ _, h => by simp [beq] at h
  | .floor _, .sym _, h => by simp [beq] at h
  | .floor _, .add _, h => by simp [beq] at h
  | .floor _, .mul _, h => by simp [beq] at h
  | .floor _, .pow _ _, h => by simp [beq] at h
  | .floor _, .max _, h => by simp [beq] at h
  | .floor _, .min _, h => by simp [beq] at h
  | .floor _, .ceil _, h => by simp [beq] at h
  | .floor _, .heav _, h => by simp [beq] at h
  | .floor _, .dceil _, h => by simp [beq] at h
  | .floor _, .did _, h => by simp [beq] at h
  | .floor _, .opq _ _, h => by simp [beq] at h
  | .heav _, .num _ _, h => by simp [beq] at h
  | .heav _, .sym _, h => by simp [beq] at h
  | .heav _, .add _, h => by simp [beq] at h
  | .heav _, .mul _, h => by simp [beq] at h
  | .heav _, .pow _ _, h => by simp [beq] at h
  | .heav _, .max _, h => by simp [beq] at h
  | .heav _, .min _, h => by simp [beq] at h
  | .heav _, .ceil _, h => by simp [beq] at h
  | .heav _, .floor _, h => by simp [beq] at h
  | .heav _, .dceil _, h => by simp [beq] at h
  | .heav _, .did _, h => by simp [beq] at h
  | .heav _, .opq _ _, h => by simp [beq] at h
  | .dceil _, .num _ _, h => by simp [beq] at h
  | .dceil _, .sym _, h => by simp [beq] at h
  | .dceil _, .add _, h => by simp [beq] at h
  | .dceil _, .mul _, h => by simp [beq] at h
  | .dceil _, .pow _ _, h => by simp [beq] at h
  | .dceil _, .max _, h => by simp [beq] at h
  | .dceil _, .min _, h => by simp [beq] at h
  | .dceil _, .ceil _, h => by simp [beq] at h
  | .dceil _, .floor _, h => by simp [beq] at h
  | .dceil _, .heav _, h => by simp [beq] at h
  | .dceil _, .did _, h => by simp [beq] at h
  | .dceil _, .opq _ _, h => by simp [beq] at h
  | .did _, .num _ _, h => by simp [beq] at h
  | .did _, .sym _, h => by simp [beq] at h
  | .did _, .add _, h => by simp [beq] at h
  | .did _, .mul _, h => by simp [beq] at h
  | .did _, .pow _ _, h => by simp [beq] at h
  | .did _, .max _, h => by simp [beq] at h
  | .did _, .min _, h => by simp [beq] at h
  | .did _, .ceil _, h => by simp [beq] at h
  | .did _, .floor _, h => by simp [beq] at h
  | .did _, .heav _, h => by simp [beq] at h
  | .did _, .dceil _, h => by simp [beq] at h
  | .did _, .opq _ _, h => by simp [beq] at h
  | .opq _ _, .num _ _, h => by simp [beq] at h
  | .opq _ _, .sym _, h => by simp [beq] at h
  | .opq _ _, .add _, h => by simp [beq] at h
  | .opq _ _, .mul _, h => by simp [beq] at h
  | .opq _ _, .pow _ _, h => by simp [beq] at h
  | .opq _ _, .max _, h => by simp [beq] at h
  | .opq _ _, .min _, h => by simp [beq] at h
  | .opq _ _, .ceil _, h => by simp [beq] at h
  | .opq _ _, .floor _, h => by simp [beq] at h
  | .opq _ _, .heav _, h => by simp [beq] at h
  | .opq _ _, .dceil _, h => by simp [beq] at h
  | .opq _ _, .did _, h => by simp [beq] at h
theorem beqL_eq : ∀ (xs ys : List E), beqL xs ys = true → xs = ys
  | [], [], _ => rfl
  | x :: xs, y :: ys, h => by simp [beqL] at h; rw [beq_eq x y h.1, beqL_eq xs ys h.2]
  | [], _ :: _, h => by simp [beqL] at h
  | _ :: _, [], h => by simp [beqL] at h
end

theorem mkRat_int_one (v : Int) : mkRat v 1 = (v : Rat) := by
  rw [Rat.mkRat_eq_div]; simp

mutual
/-- replacing Heaviside terms by their actual value (an assignment `σ` that is right at `ρ`) does not change the value -/
theorem replaceH_eval (ρ : Nat → Rat) (σ : List (E × Int))
    (hσ : ∀ p ∈ σ, ((p.2 : Int) : Rat) = heavQ (eval ρ p.1)) : ∀ f : E, eval ρ (replaceH σ f) = eval ρ f
  | .num n d => by rw [replaceH]
  | .sym i => by rw [replaceH]
  | .add xs => by rw [replaceH, eval, eval, replaceH_sum ρ σ hσ xs]
  | .mul xs => by rw [replaceH, eval, eval, replaceH_prod ρ σ hσ xs]
  | .pow b k => by rw [replaceH, eval, eval, replaceH_eval ρ σ hσ b]
  | .max xs => by rw [replaceH, eval, eval, replaceH_max ρ σ hσ xs]
  | .min xs => by rw [replaceH, eval, eval, replaceH_min ρ σ hσ xs]
  | .ceil x => by rw [replaceH, eval, eval, replaceH_eval ρ σ hσ x]
  | .floor x => by rw [replaceH, eval, eval, replaceH_eval ρ σ hσ x]
  | .heav x => by
    rw [replaceH]
    split
    · rename_i p hp
      have hmem := List.mem_of_find?_eq_some hp
      have hb : beq p.1 x = true := by simpa using List.find?_some hp
      have hx := beq_eq _ _ hb
      rw [eval, eval, mkRat_int_one, hσ p hmem, hx]
    · rfl
  | .dceil x => by rw [replaceH, eval, eval]
  | .did x => by rw [replaceH, eval, eval]
  | .opq t xs => by rw [replaceH, eval, eval]
theorem replaceH_sum (ρ : Nat → Rat) (σ : List (E × Int))
    (hσ : ∀ p ∈ σ, ((p.2 : Int) : Rat) = heavQ (eval ρ p.1)) : ∀ xs : List E, sumL ρ (replaceHL σ xs) = sumL ρ xs
  | [] => by rw [replaceHL]
  | x :: xs => by rw [replaceHL, sumL, sumL, replaceH_eval ρ σ hσ x, replaceH_sum ρ σ hσ xs]
theorem replaceH_prod (ρ : Nat → Rat) (σ : List (E × Int))
    (hσ : ∀ p ∈ σ, ((p.2 : Int) : Rat) = heavQ (eval ρ p.1)) : ∀ xs : List E, prodL ρ (replaceHL σ xs) = prodL ρ xs
  | [] => by rw [replaceHL]
  | x :: xs => by rw [replaceHL, prodL, prodL, replaceH_eval ρ σ hσ x, replaceH_prod ρ σ hσ xs]
theorem replaceH_max (ρ : Nat → Rat) (σ : List (E × Int))
    (hσ : ∀ p ∈ σ, ((p.2 : Int) : Rat) = heavQ (eval ρ p.1)) : ∀ xs : List E, maxL ρ (replaceHL σ xs) = maxL ρ xs
  | [] => by rw [replaceHL]
  | x :: xs => by rw [replaceHL, maxL, maxL, replaceH_eval ρ σ hσ x, replaceH_max ρ σ hσ xs]
theorem replaceH_min (ρ : Nat → Rat) (σ : List (E × Int))
    (hσ : ∀ p ∈ σ, ((p.2 : Int) : Rat) = heavQ (eval ρ p.1)) : ∀ xs : List E, minL ρ (replaceHL σ xs) = minL ρ xs
  | [] => by rw [replaceHL]
  | x :: xs => by rw [replaceHL, minL, minL, replaceH_eval ρ σ hσ x, replaceH_min ρ σ hσ xs]
end

theorem mem_assignments : ∀ vs : List Int, (∀ v ∈ vs, v = 1 ∨ v = 0) → vs ∈ assignments vs.length
  | [], _ => by simp [assignments]
  | v :: t, h => by
    have ht := mem_assignments t fun w hw => h w (List.mem_cons_of_mem _ hw)
    simp only [List.length_cons, assignments, List.mem_flatMap]
    refine ⟨t, ht, ?_⟩
    rcases h v (by simp) with rfl | rfl <;> simp

theorem zip_map_self {α β : Type} (g : α → β) : ∀ l : List α, l.zip (l.map g) = l.map fun x => (x, g x)
  | [] => rfl
  | x :: xs => by simp [zip_map_self g xs]

/-- **The per-atom partition is exact away from the jump**: at a point where no Heaviside argument is 0,
one of the parts of the repaired `partition_heaviside` has exactly the value of the formula. -/
theorem heavParts_exact (ρ : Nat → Rat) (f : E) (hno : ∀ x ∈ heavArgs [] f, eval ρ x ≠ 0) :
    ∃ p ∈ heavParts f, eval ρ p = eval ρ f := by
  let g : E → Int := fun x => if 0 < eval ρ x then 1 else 0
  let atoms := heavArgs [] f
  have hσ : ∀ p ∈ atoms.zip (atoms.map g), ((p.2 : Int) : Rat) = heavQ (eval ρ p.1) := by
    intro p hp
    rw [zip_map_self] at hp
    obtain ⟨x, hx, rfl⟩ := List.mem_map.mp hp
    have h0 := hno x hx
    simp only [g, heavQ]
    by_cases hpos : 0 < eval ρ x
    · simp [hpos]
    · have hneg : eval ρ x < 0 := lt_of_le_of_ne (not_lt.mp hpos) h0
      simp [hpos, hneg]
  refine ⟨replaceH (atoms.zip (atoms.map g)) f, ?_, replaceH_eval ρ _ hσ f⟩
  unfold heavParts
  refine List.mem_map.mpr ⟨atoms.map g, ?_, rfl⟩
  have := mem_assignments (atoms.map g) (by
    intro v hv
    obtain ⟨x, _, rfl⟩ := List.mem_map.mp hv
    simp only [g]; split <;> simp)
  simpa using this

end AFV.Verdict
