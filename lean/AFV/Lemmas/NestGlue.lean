import AFV.Lemmas.NestTracker3
import AFV.Lemmas.NestScale2
import AFV.Lemmas.NestExecSpec
/-!
# Glue: from the decidable `WF` to the hypotheses of the lemmas, `splitHolders` invariance
-/
namespace AFV.Nest
open AFV.NestExec

theorem nodupB_iff {β : Type} [DecidableEq β] (l : List β) : nodupB l = true ↔ l.Nodup := by
  induction l with
  | nil => simp [nodupB]
  | cons x r ih => simp [nodupB, ih, List.nodup_cons]

theorem holdersOf_eq (t : TId) (m : Mapping Nat) : holdersOf t m = holderLevels t m := by
  induction m with
  | nil => rfl
  | cons n r ih => cases n <;> simp [holdersOf, holderLevels, ih]

theorem holderLevels_cast (t : TId) (m : Mapping Nat) : holderLevels t (castMapping m) = holderLevels t m := by
  induction m with
  | nil => rfl
  | cons n r ih =>
    cases n <;> simp only [castMapping, List.map_cons, castNode, holderLevels] at ih ⊢ <;> simp [ih]

theorem mem_holderLevels {α : Type} (t : TId) (l : Lvl) (m : Mapping α) :
    l ∈ holderLevels t m ↔ (l, t) ∈ holderKeys m := by
  induction m with
  | nil => simp [holderLevels, holderKeys]
  | cons n r ih =>
    cases n with
    | storage l' ts lo =>
      simp only [holderLevels, holderKeys, List.mem_append, List.mem_map, Prod.mk.injEq]
      split
      · rename_i hc
        have : t ∈ ts := by simpa using hc
        simp only [List.mem_cons, ih]
        constructor
        · rintro (h | h)
          · exact Or.inl ⟨t, this, h.symm, rfl⟩
          · exact Or.inr h
        · rintro (⟨t', _, h1, _⟩ | h)
          · exact Or.inl h1.symm
          · exact Or.inr h
      · rename_i hc
        have : t ∉ ts := by simpa using hc
        rw [ih]
        constructor
        · exact Or.inr
        · rintro (⟨t', ht', _, h2⟩ | h)
          · subst h2; exact absurd ht' this
          · exact h
    | toll l' ts lo =>
      simp only [holderLevels, holderKeys, List.mem_append, List.mem_map, Prod.mk.injEq]
      split
      · rename_i hc
        have : t ∈ ts := by simpa using hc
        simp only [List.mem_cons, ih]
        constructor
        · rintro (h | h)
          · exact Or.inl ⟨t, this, h.symm, rfl⟩
          · exact Or.inr h
        · rintro (⟨t', _, h1, _⟩ | h)
          · exact Or.inl h1.symm
          · exact Or.inr h
      · rename_i hc
        have : t ∉ ts := by simpa using hc
        rw [ih]
        constructor
        · exact Or.inr
        · rintro (⟨t', ht', _, h2⟩ | h)
          · subst h2; exact absurd ht' this
          · exact h
    | loop rv tile => simp [holderLevels, holderKeys, ih]
    | compute => simp [holderLevels, holderKeys, ih]

theorem holderKeys_cast (m : Mapping Nat) : holderKeys (castMapping m) = holderKeys m := by
  induction m with
  | nil => rfl
  | cons n r ih =>
    cases n <;> simp only [castMapping, List.map_cons, castNode, holderKeys] at ih ⊢ <;> simp [ih]

theorem holderKeys_singles {α : Type} (l : Lvl) (ts : List TId) (lo : Bool) (isS : Bool) (R : Mapping α) :
    holderKeys (ts.map (fun t => if isS then Node.storage l [t] lo else Node.toll l [t] lo) ++ R)
      = ts.map (fun t => (l, t)) ++ holderKeys R := by
  induction ts with
  | nil => rfl
  | cons x xs ih => cases isS <;> simp_all [holderKeys]

theorem holderKeys_split {α : Type} (m : Mapping α) : holderKeys (splitHolders m) = holderKeys m := by
  induction m with
  | nil => rfl
  | cons n r ih =>
    cases n with
    | storage l ts lo =>
      simp only [splitHolders, holderKeys]
      split
      · have := holderKeys_singles l ts lo true (splitHolders r)
        simp only [if_true] at this
        rw [this, ih]
      · simp [holderKeys, ih]
    | toll l ts lo =>
      simp only [splitHolders, holderKeys]
      split
      · have := holderKeys_singles l ts lo false (splitHolders r)
        simp only [Bool.false_eq_true, if_false] at this
        rw [this, ih]
      · simp [holderKeys, ih]
    | loop rv tile => simp [splitHolders, holderKeys, ih]
    | compute => simp [splitHolders, holderKeys, ih]

end AFV.Nest
