import AFV.Spec.Front
/-!
# Lemmas about dominance and Pareto fronts (library L1 "front facts")

Everything the mapper does to a table of candidates — Pareto pruning, capacity filtering, dropping
rows that cannot be completed, dropping rows worse than a known solution — is a *reduction* in the
sense of `Cov`: the reduced list is a sub-list-as-a-set of the original, and every original row is
weakly dominated by a row that was kept.  The one lemma everything else follows from is
`Cov.frontL_eq` / `front_eq_of_cover`: a reduction has the same Pareto front.
-/
set_option linter.unusedSectionVars false

namespace AFV.Front

/-- `le` is a (Boolean-valued) partial order. -/
structure IsPO {α : Type} (le : α → α → Bool) : Prop where
  refl : ∀ a, le a a = true
  trans : ∀ a b c, le a b = true → le b c = true → le a c = true
  antisymm : ∀ a b, le a b = true → le b a = true → a = b

/-- Same elements (lists as sets). -/
def SetEq {α : Type} (A B : List α) : Prop := ∀ x, x ∈ A ↔ x ∈ B

theorem SetEq.refl {α : Type} (A : List α) : SetEq A A := fun _ => Iff.rfl
theorem SetEq.symm {α : Type} {A B : List α} (h : SetEq A B) : SetEq B A := fun x => (h x).symm
theorem SetEq.trans {α : Type} {A B C : List α} (h : SetEq A B) (h' : SetEq B C) : SetEq A C :=
  fun x => (h x).trans (h' x)
theorem SetEq.of_perm {α : Type} {A B : List α} (h : A.Perm B) : SetEq A B := fun _ => h.mem_iff

section Generic
variable {α : Type} [DecidableEq α] {le : α → α → Bool}

theorem sdom_iff {a b : α} : sdom le a b = true ↔ le a b = true ∧ a ≠ b := by
  simp [sdom]

theorem sdom_irrefl (a : α) : sdom le a a = false := by simp [sdom]

theorem mem_dedup {a : α} {l : List α} : a ∈ dedup l ↔ a ∈ l := by
  induction l with
  | nil => simp [dedup]
  | cons x xs ih =>
    unfold dedup
    by_cases hx : x ∈ xs
    · simp only [hx, if_true, ih, List.mem_cons]
      constructor
      · intro h; exact Or.inr h
      · rintro (rfl | h)
        · exact hx
        · exact h
    · simp [hx, ih]

theorem nodup_dedup (l : List α) : (dedup l).Nodup := by
  induction l with
  | nil => simp [dedup]
  | cons x xs ih =>
    unfold dedup
    by_cases hx : x ∈ xs
    · simpa [hx] using ih
    · simp only [hx, if_false, List.nodup_cons]
      exact ⟨by simpa [mem_dedup] using hx, ih⟩

theorem dedup_of_nodup {l : List α} (h : l.Nodup) : dedup l = l := by
  induction l with
  | nil => rfl
  | cons x xs ih =>
    rw [List.nodup_cons] at h
    unfold dedup
    simp [h.1, ih h.2]

theorem nondom_iff {rows : List α} {r : α} :
    nondom le rows r = true ↔ ∀ s ∈ rows, sdom le s r = false := by
  simp [nondom]

/-- Membership in the front: a row of the table that no row of the table strictly dominates. -/
theorem mem_frontL {rows : List α} {x : α} :
    x ∈ frontL le rows ↔ x ∈ rows ∧ ∀ s ∈ rows, sdom le s x = false := by
  simp [frontL, mem_dedup, List.mem_filter, nondom_iff]

theorem frontL_nodup (rows : List α) : (frontL le rows).Nodup := nodup_dedup _

theorem frontL_subset {rows : List α} {x : α} (h : x ∈ frontL le rows) : x ∈ rows :=
  (mem_frontL.1 h).1

/-- **Minimality**: no front row is strictly dominated by any row of the table. -/
theorem frontL_minimal {rows : List α} {f s : α} (hf : f ∈ frontL le rows) (hs : s ∈ rows) :
    sdom le s f = false := (mem_frontL.1 hf).2 s hs

theorem countP_lt_countP {p q : α → Bool} {l : List α} (hpq : ∀ x ∈ l, p x = true → q x = true)
    (w : α) (hw : w ∈ l) (hqw : q w = true) (hpw : p w = false) : l.countP p < l.countP q := by
  induction l with
  | nil => cases hw
  | cons x xs ih =>
    have hmono : xs.countP p ≤ xs.countP q :=
      List.countP_mono_left (fun y hy => hpq y (List.mem_cons_of_mem _ hy))
    rcases List.mem_cons.1 hw with rfl | hw'
    · simp only [List.countP_cons, hqw, hpw]
      simp
      omega
    · have ih' := ih (fun y hy => hpq y (List.mem_cons_of_mem _ hy)) hw'
      simp only [List.countP_cons]
      have := hpq x (List.mem_cons_self)
      by_cases hp : p x = true
      · simp [hp, this hp]; omega
      · by_cases hq : q x = true
        · simp [hp, hq]; omega
        · simp [hp, hq]; omega

private theorem exists_front_le_aux (hpo : IsPO le) (rows : List α) :
    ∀ n, ∀ r ∈ rows, rows.countP (fun s => sdom le s r) = n →
      ∃ f ∈ frontL le rows, le f r = true := by
  intro n
  induction n using Nat.strongRecOn with
  | _ n ih =>
    intro r hr hn
    by_cases hnd : ∀ s ∈ rows, sdom le s r = false
    · exact ⟨r, mem_frontL.2 ⟨hr, hnd⟩, hpo.refl r⟩
    · have : ∃ s ∈ rows, sdom le s r = true := by
        apply Classical.byContradiction
        intro hcon
        apply hnd
        intro s hs
        cases h : sdom le s r with
        | false => rfl
        | true => exact absurd ⟨s, hs, h⟩ hcon
      obtain ⟨s, hs, hsr⟩ := this
      have hsr' := sdom_iff.1 hsr
      have hlt : rows.countP (fun x => sdom le x s) < rows.countP (fun x => sdom le x r) := by
        refine countP_lt_countP (p := fun x => sdom le x s) (q := fun x => sdom le x r)
          ?_ s hs hsr (sdom_irrefl s)
        intro x _ hxs
        have hxs' := sdom_iff.1 hxs
        refine sdom_iff.2 ⟨hpo.trans _ _ _ hxs'.1 hsr'.1, ?_⟩
        rintro rfl
        exact hsr'.2 (hpo.antisymm _ _ hsr'.1 hxs'.1)
      obtain ⟨f, hf, hfs⟩ := ih _ (hn ▸ hlt) s hs rfl
      exact ⟨f, hf, hpo.trans _ _ _ hfs hsr'.1⟩

/-- **Completeness**: every row of the table is weakly dominated by a front row.
(Strict dominance is well founded on a finite table: the number of strict dominators decreases.) -/
theorem frontL_complete (hpo : IsPO le) {rows : List α} {r : α} (hr : r ∈ rows) :
    ∃ f ∈ frontL le rows, le f r = true :=
  exists_front_le_aux hpo rows _ r hr rfl

/-! ### Reductions -/

/-- `A'` is a sound and complete reduction of `A` for the order `le`: it only contains rows of `A`
and every row of `A` is weakly dominated by a row of `A'`. -/
structure Cov (le : α → α → Bool) (A' A : List α) : Prop where
  sub : ∀ x ∈ A', x ∈ A
  cov : ∀ a ∈ A, ∃ a' ∈ A', le a' a = true

theorem Cov.refl (hpo : IsPO le) (A : List α) : Cov le A A :=
  ⟨fun _ h => h, fun a h => ⟨a, h, hpo.refl a⟩⟩

theorem Cov.trans (hpo : IsPO le) {A B C : List α} (h₁ : Cov le A B) (h₂ : Cov le B C) :
    Cov le A C :=
  ⟨fun x h => h₂.sub x (h₁.sub x h), fun c hc => by
    obtain ⟨b, hb, hbc⟩ := h₂.cov c hc
    obtain ⟨a, ha, hab⟩ := h₁.cov b hb
    exact ⟨a, ha, hpo.trans _ _ _ hab hbc⟩⟩

theorem Cov.of_setEq (hpo : IsPO le) {A B : List α} (h : SetEq A B) : Cov le A B :=
  ⟨fun x hx => (h x).1 hx, fun b hb => ⟨b, (h b).2 hb, hpo.refl b⟩⟩

/-- Pruning is a reduction. -/
theorem cov_frontL (hpo : IsPO le) (A : List α) : Cov le (frontL le A) A :=
  ⟨fun _ h => frontL_subset h, fun _ ha => frontL_complete hpo ha⟩

/-- **The cover lemma.** A reduction has the same Pareto front (as a set). -/
theorem Cov.frontL_eq (hpo : IsPO le) {A' A : List α} (h : Cov le A' A) :
    SetEq (frontL le A') (frontL le A) := by
  intro x
  simp only [mem_frontL]
  constructor
  · rintro ⟨hx, hnd⟩
    refine ⟨h.sub x hx, fun s hs => ?_⟩
    cases hsx : sdom le s x with
    | false => rfl
    | true =>
      exfalso
      obtain ⟨s', hs', hle⟩ := h.cov s hs
      have hsx' := sdom_iff.1 hsx
      have : sdom le s' x = true := by
        refine sdom_iff.2 ⟨hpo.trans _ _ _ hle hsx'.1, ?_⟩
        rintro rfl
        exact hsx'.2 (hpo.antisymm _ _ hsx'.1 hle)
      rw [hnd s' hs'] at this
      cases this
  · rintro ⟨hx, hnd⟩
    obtain ⟨a', ha', hle⟩ := h.cov x hx
    have : a' = x := by
      apply Classical.byContradiction
      intro hne
      have : sdom le a' x = true := sdom_iff.2 ⟨hle, hne⟩
      rw [hnd a' (h.sub a' ha')] at this
      cases this
    subst this
    exact ⟨ha', fun s hs => hnd s (h.sub s hs)⟩

theorem Cov.append {A' A B' B : List α} (h₁ : Cov le A' A) (h₂ : Cov le B' B) :
    Cov le (A' ++ B') (A ++ B) := by
  refine ⟨fun x hx => ?_, fun x hx => ?_⟩
  · rcases List.mem_append.1 hx with h | h
    · exact List.mem_append.2 (Or.inl (h₁.sub x h))
    · exact List.mem_append.2 (Or.inr (h₂.sub x h))
  · rcases List.mem_append.1 hx with h | h
    · obtain ⟨a, ha, hle⟩ := h₁.cov x h
      exact ⟨a, List.mem_append.2 (Or.inl ha), hle⟩
    · obtain ⟨a, ha, hle⟩ := h₂.cov x h
      exact ⟨a, List.mem_append.2 (Or.inr ha), hle⟩

/-- Filtering by a predicate that is closed under "becoming better" (on the rows concerned) commutes
with reductions. -/
theorem Cov.filter_on {A' A : List α} (p : α → Bool)
    (hp : ∀ a ∈ A', ∀ b ∈ A, le a b = true → p b = true → p a = true) (h : Cov le A' A) :
    Cov le (A'.filter p) (A.filter p) := by
  refine ⟨fun x hx => ?_, fun x hx => ?_⟩
  · rw [List.mem_filter] at hx ⊢
    exact ⟨h.sub x hx.1, hx.2⟩
  · rw [List.mem_filter] at hx
    obtain ⟨a, ha, hle⟩ := h.cov x hx.1
    exact ⟨a, List.mem_filter.2 ⟨ha, hp _ ha _ hx.1 hle hx.2⟩, hle⟩

theorem Cov.filter {A' A : List α} (p : α → Bool)
    (hp : ∀ a b, le a b = true → p b = true → p a = true) (h : Cov le A' A) :
    Cov le (A'.filter p) (A.filter p) :=
  h.filter_on p (fun a _ b _ => hp a b)

/-- Monotone maps send reductions to reductions (possibly for a different, coarser order). -/
theorem Cov.map {β : Type} {le' : β → β → Bool} {A' A : List α} (g : α → β)
    (hg : ∀ a b, le a b = true → le' (g a) (g b) = true) (h : Cov le A' A) :
    Cov le' (A'.map g) (A.map g) := by
  refine ⟨fun x hx => ?_, fun x hx => ?_⟩
  · obtain ⟨a, ha, rfl⟩ := List.mem_map.1 hx
    exact List.mem_map.2 ⟨a, h.sub a ha, rfl⟩
  · obtain ⟨a, ha, rfl⟩ := List.mem_map.1 hx
    obtain ⟨a', ha', hle⟩ := h.cov a ha
    exact ⟨g a', List.mem_map.2 ⟨a', ha', rfl⟩, hg _ _ hle⟩

/-! ### Consequences for `frontL` -/

/-- Permutation invariance (set level). -/
theorem frontL_perm {A B : List α} (h : A.Perm B) : SetEq (frontL le A) (frontL le B) := by
  intro x
  simp only [mem_frontL, h.mem_iff]

theorem frontL_congr {A B : List α} (h : SetEq A B) : SetEq (frontL le A) (frontL le B) := by
  intro x
  simp only [mem_frontL, h x]
  constructor
  · rintro ⟨hx, hnd⟩; exact ⟨hx, fun s hs => hnd s ((h s).2 hs)⟩
  · rintro ⟨hx, hnd⟩; exact ⟨hx, fun s hs => hnd s ((h s).1 hs)⟩

/-- Front of a union = front of the union of the fronts. -/
theorem frontL_union (hpo : IsPO le) (A B : List α) :
    SetEq (frontL le (A ++ B)) (frontL le (frontL le A ++ frontL le B)) :=
  ((cov_frontL hpo A).append (cov_frontL hpo B)).frontL_eq hpo |>.symm

/-- Pruning twice is pruning once (as lists). -/
theorem frontL_idem (A : List α) : frontL le (frontL le A) = frontL le A := by
  have hall : ∀ x ∈ frontL le A, nondom le (frontL le A) x = true := by
    intro x hx
    rw [nondom_iff]
    intro s hs
    exact frontL_minimal hx (frontL_subset hs)
  have : (frontL le A).filter (nondom le (frontL le A)) = frontL le A :=
    List.filter_eq_self.2 hall
  show dedup ((frontL le A).filter (nondom le (frontL le A))) = frontL le A
  rw [this]
  exact dedup_of_nodup (frontL_nodup A)

/-- `front_map_mono`, generic form: for a monotone `g` into an order `le'`, pruning before mapping
does not change the `le'`-front of the images. -/
theorem frontL_map_mono {β : Type} [DecidableEq β] {le' : β → β → Bool} (hpo : IsPO le)
    (hpo' : IsPO le') (g : α → β) (hg : ∀ a b, le a b = true → le' (g a) (g b) = true)
    (A : List α) :
    SetEq (frontL le' ((frontL le A).map g)) (frontL le' (A.map g)) :=
  ((cov_frontL hpo A).map g hg).frontL_eq hpo'

end Generic

/-! ## Vectors -/

theorem leqAll_refl (a : Vec) : leqAll a a = true := by
  induction a with
  | nil => rfl
  | cons x xs ih => simp [leqAll, ih]

theorem leqAll_trans : ∀ (a b c : Vec), leqAll a b = true → leqAll b c = true → leqAll a c = true
  | [], [], [], _, _ => rfl
  | [], [], _ :: _, _, h => by simp [leqAll] at h
  | [], _ :: _, _, h, _ => by simp [leqAll] at h
  | _ :: _, [], _, h, _ => by simp [leqAll] at h
  | _ :: _, _ :: _, [], _, h => by simp [leqAll] at h
  | x :: xs, y :: ys, z :: zs, h₁, h₂ => by
    simp only [leqAll, Bool.and_eq_true, decide_eq_true_eq] at h₁ h₂ ⊢
    exact ⟨by omega, leqAll_trans xs ys zs h₁.2 h₂.2⟩

theorem leqAll_antisymm : ∀ (a b : Vec), leqAll a b = true → leqAll b a = true → a = b
  | [], [], _, _ => rfl
  | [], _ :: _, h, _ => by simp [leqAll] at h
  | _ :: _, [], h, _ => by simp [leqAll] at h
  | x :: xs, y :: ys, h₁, h₂ => by
    simp only [leqAll, Bool.and_eq_true, decide_eq_true_eq] at h₁ h₂
    have := leqAll_antisymm xs ys h₁.2 h₂.2
    have : x = y := by omega
    subst this; subst ‹xs = ys›; rfl

/-- `leqAll` is a partial order on vectors. -/
theorem leqAll_po : IsPO leqAll := ⟨leqAll_refl, leqAll_trans, leqAll_antisymm⟩

theorem leqAll_length : ∀ {a b : Vec}, leqAll a b = true → a.length = b.length
  | [], [], _ => rfl
  | [], _ :: _, h => by simp [leqAll] at h
  | _ :: _, [], h => by simp [leqAll] at h
  | _ :: xs, _ :: ys, h => by
    simp only [leqAll, Bool.and_eq_true] at h
    simp [leqAll_length h.2]

/-- `leqAll` is what it says: same length and `≤` in every coordinate. -/
theorem leqAll_iff : ∀ {a b : Vec}, leqAll a b = true ↔
    a.length = b.length ∧ ∀ i (h₁ : i < a.length) (h₂ : i < b.length), a[i] ≤ b[i]
  | [], [] => by simp [leqAll]
  | [], _ :: _ => by simp [leqAll]
  | _ :: _, [] => by simp [leqAll]
  | x :: xs, y :: ys => by
    simp only [leqAll, Bool.and_eq_true, decide_eq_true_eq, List.length_cons, leqAll_iff (a := xs)]
    constructor
    · rintro ⟨hxy, hlen, h⟩
      refine ⟨by omega, fun i h₁ h₂ => ?_⟩
      cases i with
      | zero => exact hxy
      | succ i => exact h i (by simpa using h₁) (by simpa using h₂)
    · rintro ⟨hlen, h⟩
      refine ⟨h 0 (by simp) (by simp), by omega, fun i h₁ h₂ => ?_⟩
      exact h (i + 1) (by simpa using h₁) (by simpa using h₂)

theorem dom_iff {a b : Vec} : dom a b = true ↔ leqAll a b = true ∧ a ≠ b := sdom_iff

/-! ### The lexicographic order used for canonical forms -/

theorem lexLe_refl : ∀ a : Vec, lexLe a a = true
  | [] => rfl
  | x :: xs => by simp [lexLe, lexLe_refl xs]

theorem lexLe_total : ∀ a b : Vec, (lexLe a b || lexLe b a) = true
  | [], _ => by simp [lexLe]
  | _ :: _, [] => by simp [lexLe]
  | x :: xs, y :: ys => by
    have ih := lexLe_total xs ys
    simp only [lexLe, Bool.or_eq_true, Bool.and_eq_true, decide_eq_true_eq] at ih ⊢
    rcases Int.lt_trichotomy x y with h | h | h
    · exact Or.inl (Or.inl h)
    · subst h
      rcases ih with ih | ih
      · exact Or.inl (Or.inr ⟨rfl, ih⟩)
      · exact Or.inr (Or.inr ⟨rfl, ih⟩)
    · exact Or.inr (Or.inl h)

theorem lexLe_trans : ∀ a b c : Vec, lexLe a b = true → lexLe b c = true → lexLe a c = true
  | [], _, _, _, _ => by simp [lexLe]
  | _ :: _, [], _, h, _ => by simp [lexLe] at h
  | _ :: _, _ :: _, [], _, h => by simp [lexLe] at h
  | x :: xs, y :: ys, z :: zs, h₁, h₂ => by
    simp only [lexLe, Bool.or_eq_true, Bool.and_eq_true, decide_eq_true_eq] at h₁ h₂ ⊢
    rcases h₁ with h₁ | ⟨rfl, h₁⟩
    · rcases h₂ with h₂ | ⟨rfl, _⟩
      · exact Or.inl (by omega)
      · exact Or.inl h₁
    · rcases h₂ with h₂ | ⟨rfl, h₂⟩
      · exact Or.inl h₂
      · exact Or.inr ⟨rfl, lexLe_trans xs ys zs h₁ h₂⟩

theorem lexLe_antisymm : ∀ a b : Vec, lexLe a b = true → lexLe b a = true → a = b
  | [], [], _, _ => rfl
  | [], _ :: _, _, h => by simp [lexLe] at h
  | _ :: _, [], h, _ => by simp [lexLe] at h
  | x :: xs, y :: ys, h₁, h₂ => by
    simp only [lexLe, Bool.or_eq_true, Bool.and_eq_true, decide_eq_true_eq] at h₁ h₂
    rcases h₁ with h₁ | ⟨rfl, h₁⟩
    · rcases h₂ with h₂ | ⟨rfl, _⟩ <;> omega
    · rcases h₂ with h₂ | ⟨_, h₂⟩
      · omega
      · rw [lexLe_antisymm xs ys h₁ h₂]

/-- The lexicographic order extends dominance: a row `≤` everywhere comes first. -/
theorem lexLe_of_leqAll : ∀ {a b : Vec}, leqAll a b = true → lexLe a b = true
  | [], [], _ => rfl
  | [], _ :: _, h => by simp [leqAll] at h
  | _ :: _, [], h => by simp [leqAll] at h
  | x :: xs, y :: ys, h => by
    simp only [leqAll, Bool.and_eq_true, decide_eq_true_eq] at h
    simp only [lexLe, Bool.or_eq_true, Bool.and_eq_true, decide_eq_true_eq]
    by_cases hlt : x < y
    · exact Or.inl hlt
    · exact Or.inr ⟨by omega, lexLe_of_leqAll h.2⟩

/-- Strictly increasing in the lexicographic order. -/
def StrictSorted (l : List Vec) : Prop := l.Pairwise (fun a b => lexLe a b = true ∧ a ≠ b)

theorem StrictSorted.nodup {l : List Vec} (h : StrictSorted l) : l.Nodup :=
  List.Pairwise.imp (fun h => h.2) h

theorem StrictSorted.sublist {l l' : List Vec} (h : StrictSorted l) (hs : l'.Sublist l) :
    StrictSorted l' := List.Pairwise.sublist hs h

/-- A strictly sorted list is determined by its set of elements. -/
theorem StrictSorted.eq_of_setEq {l₁ l₂ : List Vec} (h₁ : StrictSorted l₁) (h₂ : StrictSorted l₂)
    (h : SetEq l₁ l₂) : l₁ = l₂ := by
  have hp : l₁.Perm l₂ := (List.perm_ext_iff_of_nodup h₁.nodup h₂.nodup).2 h
  exact hp.eq_of_pairwise (le := fun a b => lexLe a b = true)
    (fun a b _ _ hab hba => lexLe_antisymm a b hab hba)
    (List.Pairwise.imp (fun h => h.1) h₁) (List.Pairwise.imp (fun h => h.1) h₂)

theorem mem_dedupAdj : ∀ {l : List Vec} {x : Vec}, x ∈ dedupAdj l ↔ x ∈ l
  | [], _ => by simp [dedupAdj]
  | [a], _ => by simp [dedupAdj]
  | a :: b :: l, x => by
    unfold dedupAdj
    by_cases hab : a = b
    · subst hab
      simp only [if_true, mem_dedupAdj (l := a :: l), List.mem_cons]
      constructor
      · rintro (h | h)
        · exact Or.inl h
        · exact Or.inr (Or.inr h)
      · rintro (h | h | h)
        · exact Or.inl h
        · exact Or.inl h
        · exact Or.inr h
    · simp only [hab, if_false, List.mem_cons, mem_dedupAdj (l := b :: l)]

theorem dedupAdj_sublist : ∀ (l : List Vec), (dedupAdj l).Sublist l
  | [] => by simp [dedupAdj]
  | [a] => by simp [dedupAdj]
  | a :: b :: l => by
    unfold dedupAdj
    by_cases hab : a = b
    · simp only [hab, if_true]
      exact (dedupAdj_sublist (b :: l)).trans (List.sublist_cons_self _ _)
    · simp only [hab, if_false]
      exact (dedupAdj_sublist (b :: l)).cons_cons a

theorem strictSorted_dedupAdj : ∀ {l : List Vec}, l.Pairwise (fun a b => lexLe a b = true) →
    StrictSorted (dedupAdj l)
  | [], _ => by simp [dedupAdj, StrictSorted]
  | [a], _ => by simp [dedupAdj, StrictSorted]
  | a :: b :: l, h => by
    unfold dedupAdj
    have htail : (b :: l).Pairwise (fun a b => lexLe a b = true) := (List.pairwise_cons.1 h).2
    have ih := strictSorted_dedupAdj htail
    by_cases hab : a = b
    · simpa [hab] using ih
    · simp only [hab, if_false]
      refine List.pairwise_cons.2 ⟨fun x hx => ?_, ih⟩
      have hx' : x ∈ b :: l := mem_dedupAdj.1 hx
      have hax : lexLe a x = true := (List.pairwise_cons.1 h).1 x hx'
      refine ⟨hax, ?_⟩
      rintro rfl
      -- a ∈ b :: l and a ≠ b, so a ∈ l and lexLe b a; with lexLe a b antisymmetry gives a = b
      have hab' : lexLe a b = true := (List.pairwise_cons.1 h).1 b (List.mem_cons_self)
      rcases List.mem_cons.1 hx' with rfl | hal
      · exact hab rfl
      · have hba : lexLe b a = true := (List.pairwise_cons.1 htail).1 a hal
        exact hab (lexLe_antisymm a b hab' hba)

theorem mem_insertLex {x z : Vec} : ∀ {l : List Vec}, z ∈ insertLex x l ↔ z = x ∨ z ∈ l
  | [] => by simp [insertLex]
  | y :: ys => by
    unfold insertLex
    by_cases h : lexLe x y = true
    · simp [h]
    · simp only [h, Bool.false_eq_true, if_false, List.mem_cons, mem_insertLex (l := ys)]
      constructor
      · rintro (h | h | h)
        · exact Or.inr (Or.inl h)
        · exact Or.inl h
        · exact Or.inr (Or.inr h)
      · rintro (h | h | h)
        · exact Or.inr (Or.inl h)
        · exact Or.inl h
        · exact Or.inr (Or.inr h)

theorem pairwise_insertLex (x : Vec) : ∀ {l : List Vec}, l.Pairwise (fun a b => lexLe a b = true) →
    (insertLex x l).Pairwise (fun a b => lexLe a b = true)
  | [], _ => by simp [insertLex]
  | y :: ys, h => by
    unfold insertLex
    have hy := List.pairwise_cons.1 h
    by_cases hxy : lexLe x y = true
    · simp only [hxy, if_true]
      refine List.pairwise_cons.2 ⟨fun z hz => ?_, h⟩
      rcases List.mem_cons.1 hz with rfl | hz
      · exact hxy
      · exact lexLe_trans _ _ _ hxy (hy.1 z hz)
    · simp only [hxy, Bool.false_eq_true, if_false]
      have hyx : lexLe y x = true := by
        have := lexLe_total x y
        simp only [Bool.or_eq_true] at this
        rcases this with h | h
        · exact absurd h hxy
        · exact h
      refine List.pairwise_cons.2 ⟨fun z hz => ?_, pairwise_insertLex x hy.2⟩
      rcases mem_insertLex.1 hz with rfl | hz
      · exact hyx
      · exact hy.1 z hz

theorem mem_isort {z : Vec} : ∀ {l : List Vec}, z ∈ isort l ↔ z ∈ l
  | [] => by simp [isort]
  | x :: xs => by simp [isort, mem_insertLex, mem_isort (l := xs)]

theorem pairwise_isort : ∀ l : List Vec, (isort l).Pairwise (fun a b => lexLe a b = true)
  | [] => by simp [isort]
  | x :: xs => pairwise_insertLex x (pairwise_isort xs)

theorem mem_canon {l : List Vec} {x : Vec} : x ∈ canon l ↔ x ∈ l := by
  unfold canon
  rw [mem_dedupAdj, mem_isort]

theorem strictSorted_canon (l : List Vec) : StrictSorted (canon l) :=
  strictSorted_dedupAdj (pairwise_isort l)

theorem mem_canonFast {l : List Vec} {x : Vec} : x ∈ canonFast l ↔ x ∈ l := by
  unfold canonFast
  rw [mem_dedupAdj]
  exact (List.mergeSort_perm l lexLe).mem_iff

theorem strictSorted_canonFast (l : List Vec) : StrictSorted (canonFast l) := by
  unfold canonFast
  apply strictSorted_dedupAdj
  exact List.pairwise_mergeSort (le := lexLe) (fun a b c => lexLe_trans a b c)
    (fun a b => lexLe_total a b) l

/-- The merge-sort canonical form is the canonical form. -/
theorem canonFast_eq_canon (l : List Vec) : canonFast l = canon l :=
  (strictSorted_canonFast l).eq_of_setEq (strictSorted_canon l)
    (fun _ => mem_canonFast.trans mem_canon.symm)

/-- Canonical forms are equal exactly when the sets are. -/
theorem canon_eq_iff {A B : List Vec} : canon A = canon B ↔ SetEq A B := by
  constructor
  · intro h x
    rw [← mem_canon (l := A), ← mem_canon (l := B), h]
  · intro h
    apply (strictSorted_canon A).eq_of_setEq (strictSorted_canon B)
    intro x
    rw [mem_canon, mem_canon]
    exact h x

theorem canon_of_strictSorted {l : List Vec} (h : StrictSorted l) : canon l = l :=
  (strictSorted_canon l).eq_of_setEq h (fun _ => mem_canon)

theorem canon_idem (l : List Vec) : canon (canon l) = canon l :=
  canon_of_strictSorted (strictSorted_canon l)

/-! ### `front` -/

/-- Membership in the front: a row of the table not dominated by any row of the table. -/
theorem mem_front {rows : List Vec} {v : Vec} :
    v ∈ front rows ↔ v ∈ rows ∧ ∀ s ∈ rows, dom s v = false := by
  simp [front, mem_canon, List.mem_filter, nondom_iff, dom]

theorem mem_front_iff_frontL {rows : List Vec} {v : Vec} :
    v ∈ front rows ↔ v ∈ frontL leqAll rows := by
  rw [mem_front, mem_frontL]; rfl

theorem front_eq_canon_frontL (rows : List Vec) : front rows = canon (frontL leqAll rows) := by
  rw [← canon_idem, front, canon_idem]
  apply canon_eq_iff.2
  intro x
  simp [frontL, mem_dedup]

theorem strictSorted_front (rows : List Vec) : StrictSorted (front rows) := strictSorted_canon _

/-- `front A = front B` iff `A` and `B` have the same set of non-dominated vectors. -/
theorem front_eq_iff {A B : List Vec} :
    front A = front B ↔ SetEq (frontL leqAll A) (frontL leqAll B) := by
  rw [front_eq_canon_frontL, front_eq_canon_frontL, canon_eq_iff]

/-- `front_complete`: every row is weakly dominated by a front row. -/
theorem front_complete {rows : List Vec} {r : Vec} (hr : r ∈ rows) :
    ∃ f ∈ front rows, leqAll f r = true := by
  obtain ⟨f, hf, hle⟩ := frontL_complete leqAll_po hr
  exact ⟨f, mem_front_iff_frontL.2 hf, hle⟩

/-- `front_minimal`: no front row is dominated by any row of the table (in particular by no front row). -/
theorem front_minimal {rows : List Vec} {f s : Vec} (hf : f ∈ front rows) (hs : s ∈ rows) :
    dom s f = false := (mem_front.1 hf).2 s hs

theorem front_subset {rows : List Vec} {f : Vec} (hf : f ∈ front rows) : f ∈ rows :=
  (mem_front.1 hf).1

/-- `front_distinct`: no two front rows have identical vectors. -/
theorem front_distinct (rows : List Vec) : (front rows).Nodup := (strictSorted_front rows).nodup

/-- **Cover lemma for vectors**: a reduction has the same front, with `=`. -/
theorem front_eq_of_cover {A' A : List Vec} (h : Cov leqAll A' A) : front A' = front A :=
  front_eq_iff.2 (h.frontL_eq leqAll_po)

theorem cov_front (A : List Vec) : Cov leqAll (front A) A :=
  ⟨fun _ h => front_subset h, fun _ h => front_complete h⟩

theorem front_congr {A B : List Vec} (h : SetEq A B) : front A = front B :=
  front_eq_iff.2 (frontL_congr h)

/-- `front_perm`: the front does not depend on the order of the rows. -/
theorem front_perm {A B : List Vec} (h : A.Perm B) : front A = front B :=
  front_congr (SetEq.of_perm h)

/-- `front_of_union_fronts`: pruning the parts first does not change the front of a union. -/
theorem front_of_union_fronts (A B : List Vec) : front (A ++ B) = front (front A ++ front B) :=
  (front_eq_of_cover ((cov_front A).append (cov_front B))).symm

/-- `front_idem`. -/
theorem front_idem (A : List Vec) : front (front A) = front A :=
  front_eq_of_cover (cov_front A)

/-- n-ary version: front of a concatenation = front of the concatenation of the fronts. -/
theorem front_flatten_fronts (L : List (List Vec)) :
    front L.flatten = front (L.map front).flatten := by
  symm
  apply front_eq_of_cover
  refine ⟨fun x hx => ?_, fun x hx => ?_⟩
  · obtain ⟨l, hl, hxl⟩ := List.mem_flatten.1 hx
    obtain ⟨A, hA, rfl⟩ := List.mem_map.1 hl
    exact List.mem_flatten.2 ⟨A, hA, front_subset hxl⟩
  · obtain ⟨A, hA, hxA⟩ := List.mem_flatten.1 hx
    obtain ⟨f, hf, hle⟩ := front_complete hxA
    exact ⟨f, List.mem_flatten.2 ⟨front A, List.mem_map.2 ⟨A, hA, rfl⟩, hf⟩, hle⟩

/-- `front_map_mono`: for a monotone map `g` between vector spaces, pruning before mapping does not
change the front of the images (e.g. `(E, L) ↦ (E·L)` on non-negative rows, or dropping columns). -/
theorem front_map_mono (g : Vec → Vec) {A : List Vec}
    (hg : ∀ a ∈ A, ∀ b ∈ A, leqAll a b = true → leqAll (g a) (g b) = true) :
    front ((front A).map g) = front (A.map g) := by
  apply front_eq_of_cover
  refine ⟨fun x hx => ?_, fun x hx => ?_⟩
  · obtain ⟨a, ha, rfl⟩ := List.mem_map.1 hx
    exact List.mem_map.2 ⟨a, front_subset ha, rfl⟩
  · obtain ⟨a, ha, rfl⟩ := List.mem_map.1 hx
    obtain ⟨f, hf, hle⟩ := front_complete ha
    exact ⟨g f, List.mem_map.2 ⟨f, hf, rfl⟩, hg f (front_subset hf) a ha hle⟩

/-- Order embeddings commute with `front` (up to re-sorting). -/
theorem front_map_embed (g : Vec → Vec) {A : List Vec}
    (hg : ∀ a ∈ A, ∀ b ∈ A, leqAll (g a) (g b) = leqAll a b) :
    front (A.map g) = canon ((front A).map g) := by
  have hinj : ∀ a ∈ A, ∀ b ∈ A, g a = g b → a = b := by
    intro a ha b hb hab
    apply leqAll_antisymm
    · rw [← hg a ha b hb, hab]; exact leqAll_refl _
    · rw [← hg b hb a ha, hab]; exact leqAll_refl _
  apply (strictSorted_front _).eq_of_setEq (strictSorted_canon _)
  intro x
  rw [mem_canon, mem_front]
  constructor
  · rintro ⟨hx, hnd⟩
    obtain ⟨a, ha, rfl⟩ := List.mem_map.1 hx
    apply List.mem_map.2
    refine ⟨a, mem_front.2 ⟨ha, fun s hs => ?_⟩, rfl⟩
    have := hnd (g s) (List.mem_map.2 ⟨s, hs, rfl⟩)
    cases hsa : dom s a with
    | false => rfl
    | true =>
      exfalso
      have hsa' := dom_iff.1 hsa
      have : dom (g s) (g a) = true := dom_iff.2
        ⟨by rw [hg s hs a ha]; exact hsa'.1, fun h => hsa'.2 (hinj s hs a ha h)⟩
      simp_all
  · intro hx
    obtain ⟨a, ha, rfl⟩ := List.mem_map.1 hx
    have ha' := mem_front.1 ha
    refine ⟨List.mem_map.2 ⟨a, ha'.1, rfl⟩, fun s hs => ?_⟩
    obtain ⟨b, hb, rfl⟩ := List.mem_map.1 hs
    cases hsa : dom (g b) (g a) with
    | false => rfl
    | true =>
      exfalso
      have hsa' := dom_iff.1 hsa
      have : dom b a = true := dom_iff.2
        ⟨by rw [← hg b hb a ha'.1]; exact hsa'.1, fun h => hsa'.2 (by rw [h])⟩
      rw [ha'.2 b hb] at this
      cases this

/-! ### Scaling one coordinate -/

theorem leqAll_mapAt {φ : Int → Int} (hφ : ∀ x y, φ x ≤ φ y ↔ x ≤ y) :
    ∀ (i : Nat) (a b : Vec), leqAll (mapAt φ i a) (mapAt φ i b) = leqAll a b
  | _, [], [] => by simp [mapAt]
  | _, [], _ :: _ => by cases ‹Nat› <;> simp [mapAt, leqAll]
  | _, _ :: _, [] => by cases ‹Nat› <;> simp [mapAt, leqAll]
  | 0, x :: xs, y :: ys => by simp [mapAt, leqAll, hφ]
  | i + 1, x :: xs, y :: ys => by simp [mapAt, leqAll, leqAll_mapAt hφ i xs ys]

theorem lexLe_mapAt {φ : Int → Int} (hφ : ∀ x y, φ x ≤ φ y ↔ x ≤ y) :
    ∀ (i : Nat) (a b : Vec), lexLe (mapAt φ i a) (mapAt φ i b) = lexLe a b
  | _, [], [] => by simp [mapAt]
  | _, [], _ :: _ => by cases ‹Nat› <;> simp [mapAt, lexLe]
  | _, _ :: _, [] => by cases ‹Nat› <;> simp [mapAt, lexLe]
  | 0, x :: xs, y :: ys => by
    have h1 : (φ x < φ y) ↔ x < y := by
      have := hφ y x; constructor <;> intro h <;> omega
    have h2 : (φ x = φ y) ↔ x = y := by
      have := hφ y x; have := hφ x y; constructor <;> intro h <;> omega
    simp [mapAt, lexLe, h1, h2]
  | i + 1, x :: xs, y :: ys => by simp [mapAt, lexLe, lexLe_mapAt hφ i xs ys]

theorem mapAt_injective {φ : Int → Int} (hφ : ∀ x y, φ x ≤ φ y ↔ x ≤ y) (i : Nat) (a b : Vec)
    (h : mapAt φ i a = mapAt φ i b) : a = b := by
  apply leqAll_antisymm
  · rw [← leqAll_mapAt hφ i, h]; exact leqAll_refl _
  · rw [← leqAll_mapAt hφ i, h]; exact leqAll_refl _

/-- Transforming one coordinate of every row by a strictly increasing function maps the front to the
front (canonical forms included: the lexicographic order is preserved too). -/
theorem front_mapAt {φ : Int → Int} (hφ : ∀ x y, φ x ≤ φ y ↔ x ≤ y) (i : Nat) (A : List Vec) :
    front (A.map (mapAt φ i)) = (front A).map (mapAt φ i) := by
  rw [front_map_embed (mapAt φ i) (fun a _ b _ => leqAll_mapAt hφ i a b)]
  apply canon_of_strictSorted
  have := strictSorted_front A
  unfold StrictSorted at this ⊢
  rw [List.pairwise_map]
  refine List.Pairwise.imp ?_ this
  rintro a b ⟨hle, hne⟩
  exact ⟨by rw [lexLe_mapAt hφ]; exact hle, fun h => hne (mapAt_injective hφ i a b h)⟩

/-- `front_scale`: multiplying one coordinate of every row by `k > 0` maps fronts to fronts. -/
theorem front_scale {k : Int} (hk : 0 < k) (i : Nat) (A : List Vec) :
    front (A.map (scaleAt k i)) = (front A).map (scaleAt k i) := by
  apply front_mapAt
  intro x y
  constructor
  · intro h; exact Int.le_of_mul_le_mul_left h hk
  · intro h; exact Int.mul_le_mul_of_nonneg_left h (Int.le_of_lt hk)

/-! ### The sweep algorithm -/

private theorem sweep_spec : ∀ (R P acc : List Vec),
    StrictSorted (P ++ R) →
    (∀ x, x ∈ acc ↔ x ∈ P ∧ ∀ s ∈ P, dom s x = false) →
    acc.reverse.Sublist P →
    (sweep acc R).Sublist (P ++ R) ∧
      ∀ x, x ∈ sweep acc R ↔ x ∈ P ++ R ∧ ∀ s ∈ P ++ R, dom s x = false
  | [], P, acc, _, hacc, hsub => by
    simp only [sweep, List.append_nil]
    exact ⟨hsub, fun x => by rw [List.mem_reverse]; exact hacc x⟩
  | r :: R, P, acc, hsorted, hacc, hsub => by
    have hsorted' : StrictSorted ((P ++ [r]) ++ R) := by simpa using hsorted
    have hPr : StrictSorted (P ++ [r]) :=
      hsorted'.sublist (List.sublist_append_left _ _)
    have hlt : ∀ p ∈ P, lexLe p r = true ∧ p ≠ r := by
      intro p hp
      exact (List.pairwise_append.1 hPr).2.2 p hp r (by simp)
    -- r cannot dominate an earlier row
    have hr_not_dom : ∀ p ∈ P, dom r p = false := by
      intro p hp
      cases h : dom r p with
      | false => rfl
      | true =>
        exfalso
        have h' := dom_iff.1 h
        have := lexLe_of_leqAll h'.1
        exact (hlt p hp).2 (lexLe_antisymm _ _ (hlt p hp).1 this)
    -- the test performed by the sweep
    have htest : (acc.any (fun a => leqAll a r) = true) ↔ ∃ p ∈ P, dom p r = true := by
      rw [List.any_eq_true]
      constructor
      · rintro ⟨a, ha, hle⟩
        have haP := ((hacc a).1 ha).1
        exact ⟨a, haP, dom_iff.2 ⟨hle, (hlt a haP).2⟩⟩
      · rintro ⟨p, hp, hpr⟩
        obtain ⟨f, hf, hfp⟩ := front_complete hp
        have hf' := mem_front.1 hf
        exact ⟨f, (hacc f).2 hf', leqAll_trans _ _ _ hfp (dom_iff.1 hpr).1⟩
    have hmemP' : ∀ x, x ∈ P ++ [r] ↔ x ∈ P ∨ x = r := by simp
    unfold sweep
    by_cases ht : acc.any (fun a => leqAll a r) = true
    · rw [if_pos ht]
      have := sweep_spec R (P ++ [r]) acc hsorted'
        (by
          intro x
          rw [hacc x]
          constructor
          · rintro ⟨hx, hnd⟩
            refine ⟨List.mem_append.2 (Or.inl hx), fun s hs => ?_⟩
            rcases (hmemP' s).1 hs with hs | rfl
            · exact hnd s hs
            · exact hr_not_dom x hx
          · rintro ⟨hx, hnd⟩
            rcases (hmemP' x).1 hx with hx | rfl
            · exact ⟨hx, fun s hs => hnd s (List.mem_append.2 (Or.inl hs))⟩
            · exfalso
              obtain ⟨p, hp, hpr⟩ := htest.1 ht
              rw [hnd p (List.mem_append.2 (Or.inl hp))] at hpr
              cases hpr)
        (hsub.trans (List.sublist_append_left _ _))
      simpa using this
    · rw [if_neg ht]
      have hnone : ∀ p ∈ P, dom p r = false := by
        intro p hp
        cases h : dom p r with
        | false => rfl
        | true => exact absurd (htest.2 ⟨p, hp, h⟩) ht
      have := sweep_spec R (P ++ [r]) (r :: acc) hsorted'
        (by
          intro x
          rw [List.mem_cons, hacc x]
          constructor
          · rintro (rfl | ⟨hx, hnd⟩)
            · refine ⟨by simp, fun s hs => ?_⟩
              rcases (hmemP' s).1 hs with hs | rfl
              · exact hnone s hs
              · exact sdom_irrefl _
            · refine ⟨List.mem_append.2 (Or.inl hx), fun s hs => ?_⟩
              rcases (hmemP' s).1 hs with hs | rfl
              · exact hnd s hs
              · exact hr_not_dom x hx
          · rintro ⟨hx, hnd⟩
            rcases (hmemP' x).1 hx with hx | rfl
            · exact Or.inr ⟨hx, fun s hs => hnd s (List.mem_append.2 (Or.inl hs))⟩
            · exact Or.inl rfl)
        (by
          rw [List.reverse_cons]
          exact List.Sublist.append hsub (List.Sublist.refl _))
      simpa using this

/-- **The fast front is the front.** -/
theorem frontFast_eq_front (rows : List Vec) : frontFast rows = front rows := by
  unfold frontFast
  rw [canonFast_eq_canon]
  have hs := strictSorted_canon rows
  obtain ⟨hsub, hmem⟩ := sweep_spec (canon rows) [] [] (by simpa using hs) (by simp) (by simp)
  simp only [List.nil_append] at hsub hmem
  apply (hs.sublist hsub).eq_of_setEq (strictSorted_front rows)
  intro x
  show x ∈ sweep [] (canon rows) ↔ _
  rw [hmem, mem_front, mem_canon]
  constructor
  · rintro ⟨hx, hnd⟩; exact ⟨hx, fun s hs => hnd s (mem_canon.2 hs)⟩
  · rintro ⟨hx, hnd⟩; exact ⟨hx, fun s hs => hnd s (mem_canon.1 hs)⟩

/-! ### `dominatedBy` -/

theorem dominatedBy_length (rows : List Vec) : (dominatedBy rows).length = rows.length := by
  simp [dominatedBy]

/-- `dominatedBy` answers `none` exactly for the non-dominated rows, and a returned index points to a
dominating row. -/
theorem dominatedBy_spec (rows : List Vec) (i : Nat) (hi : i < rows.length) :
    (((dominatedBy rows)[i]'(by simpa [dominatedBy] using hi)) = none ↔ rows[i] ∈ front rows) ∧
    ∀ j, (dominatedBy rows)[i]'(by simpa [dominatedBy] using hi) = some j →
      ∃ hj : j < rows.length, dom rows[j] rows[i] = true := by
  simp only [dominatedBy, List.getElem_map]
  constructor
  · rw [List.findIdx?_eq_none_iff, mem_front]
    constructor
    · intro h
      exact ⟨List.getElem_mem _, fun s hs => by simpa using h s hs⟩
    · rintro ⟨_, h⟩ s hs
      simpa using h s hs
  · intro j hj
    have := List.findIdx?_eq_some_iff_getElem.1 hj
    obtain ⟨hjlt, hdom, _⟩ := this
    exact ⟨hjlt, hdom⟩

/-! ### Minima -/

theorem minOf_eq_none {α : Type} {g : α → Int} : ∀ {l : List α}, minOf g l = none ↔ l = []
  | [] => by simp [minOf]
  | a :: l => by
    simp only [minOf]
    cases minOf g l <;> simp

/-- `minOf g l = some m` iff `m` is attained and is a lower bound. -/
theorem minOf_eq_some {α : Type} {g : α → Int} : ∀ {l : List α} {m : Int},
    minOf g l = some m ↔ (∃ a ∈ l, g a = m) ∧ ∀ a ∈ l, m ≤ g a
  | [], m => by simp [minOf]
  | a :: l, m => by
    simp only [minOf]
    cases h : minOf g l with
    | none =>
      have : l = [] := minOf_eq_none.1 h
      subst this
      simp only [Option.some.injEq, List.mem_singleton, exists_eq_left, forall_eq]
      constructor
      · rintro rfl; exact ⟨rfl, Int.le_refl _⟩
      · rintro ⟨h, _⟩; exact h
    | some m' =>
      have ih := (minOf_eq_some (g := g) (l := l) (m := m')).1 h
      obtain ⟨⟨b, hb, hgb⟩, hlb⟩ := ih
      simp only [Option.some.injEq, List.mem_cons, exists_eq_or_imp, forall_eq_or_imp]
      constructor
      · intro hm
        by_cases hle : g a ≤ m'
        · rw [if_pos hle] at hm; subst hm
          exact ⟨Or.inl rfl, Int.le_refl _, fun x hx => Int.le_trans hle (hlb x hx)⟩
        · rw [if_neg hle] at hm; subst hm
          exact ⟨Or.inr ⟨b, hb, hgb⟩, by omega, hlb⟩
      · rintro ⟨hex, hma, hml⟩
        by_cases hle : g a ≤ m'
        · rw [if_pos hle]
          rcases hex with h | ⟨c, hc, hgc⟩
          · exact h
          · have := hlb c hc; omega
        · rw [if_neg hle]
          rcases hex with h | ⟨c, hc, hgc⟩
          · have := hml b hb; omega
          · have := hlb c hc; have := hml b hb; omega

theorem optLe_refl (x : Option Int) : optLe x x := by
  cases x <;> simp [optLe]

theorem optLe_antisymm {x y : Option Int} (h₁ : optLe x y) (h₂ : optLe y x) : x = y := by
  cases x <;> cases y <;> simp_all [optLe]
  omega

theorem optLe_trans {x y z : Option Int} (h₁ : optLe x y) (h₂ : optLe y z) : optLe x z := by
  cases x <;> cases y <;> cases z <;> simp_all [optLe]
  omega

/-- If every element of `B` is matched by an element of `A` that is at least as good, the minimum over
`A` is at most the minimum over `B`. -/
theorem minOf_le_of_cover {α β : Type} {g : α → Int} {g' : β → Int} {A : List α} {B : List β}
    (h : ∀ b ∈ B, ∃ a ∈ A, g a ≤ g' b) : optLe (minOf g A) (minOf g' B) := by
  cases hB : minOf g' B with
  | none => cases minOf g A <;> simp [optLe]
  | some mb =>
    obtain ⟨⟨b, hb, hgb⟩, _⟩ := minOf_eq_some.1 hB
    obtain ⟨a, ha, hab⟩ := h b hb
    cases hA : minOf g A with
    | none => rw [minOf_eq_none.1 hA] at ha; cases ha
    | some ma =>
      have := (minOf_eq_some.1 hA).2 a ha
      simp only [optLe]; omega

/-- `relax_mono` (list form): the minimum over a superset is at most the minimum over the subset. -/
theorem minOf_mono_subset {α : Type} {g : α → Int} {M M' : List α} (h : ∀ x ∈ M, x ∈ M') :
    optLe (minOf g M') (minOf g M) :=
  minOf_le_of_cover (fun b hb => ⟨b, h b hb, Int.le_refl _⟩)

/-- A reduction has the same minimum of every monotone scalarisation. -/
theorem minOf_eq_of_cov {α : Type} [DecidableEq α] {le : α → α → Bool} {g : α → Int}
    {A' A : List α} (h : Cov le A' A) (hg : ∀ a ∈ A', ∀ b ∈ A, le a b = true → g a ≤ g b) :
    minOf g A' = minOf g A := by
  apply optLe_antisymm
  · exact minOf_le_of_cover (fun b hb => by
      obtain ⟨a, ha, hle⟩ := h.cov b hb
      exact ⟨a, ha, hg a ha b hb hle⟩)
  · exact minOf_mono_subset h.sub

/-- The minimum of a monotone scalarisation over the front equals the minimum over the table. -/
theorem minOf_front {g : Vec → Int} {A : List Vec}
    (hg : ∀ a ∈ A, ∀ b ∈ A, leqAll a b = true → g a ≤ g b) :
    minOf g (front A) = minOf g A :=
  minOf_eq_of_cov (cov_front A) (fun a ha b hb => hg a (front_subset ha) b hb)

end AFV.Front
