import AFV.Model.Geometry
/-! Points of a box, per-coordinate minima/maxima, extents. -/
namespace AFV.Geometry

/-! ### range, consAll, points -/

theorem mem_range {lo : Int} {n : Nat} {x : Int} : x ∈ range lo n ↔ lo ≤ x ∧ x < lo + n := by
  induction n generalizing lo with
  | zero => simp [range]
  | succ n ih =>
    simp only [range, List.mem_cons, ih]
    omega

theorem range_length (lo : Int) (n : Nat) : (range lo n).length = n := by
  induction n generalizing lo with
  | zero => rfl
  | succ n ih => simp [range, ih]

theorem range_nodup (lo : Int) (n : Nat) : (range lo n).Nodup := by
  induction n generalizing lo with
  | zero => simp [range]
  | succ n ih =>
    simp only [range, List.nodup_cons]
    refine ⟨?_, ih _⟩
    intro h
    have := (mem_range.mp h).1
    omega

theorem mem_consAll {xs : List Int} {ps : List (List Int)} {q : List Int} :
    q ∈ consAll xs ps ↔ ∃ x ∈ xs, ∃ p ∈ ps, q = x :: p := by
  induction xs with
  | nil => simp [consAll]
  | cons y ys ih =>
    simp only [consAll, List.mem_append, List.mem_map, ih, List.mem_cons]
    constructor
    · rintro (⟨p, hp, rfl⟩ | ⟨x, hx, p, hp, rfl⟩)
      · exact ⟨y, Or.inl rfl, p, hp, rfl⟩
      · exact ⟨x, Or.inr hx, p, hp, rfl⟩
    · rintro ⟨x, (rfl | hx), p, hp, rfl⟩
      · exact Or.inl ⟨p, hp, rfl⟩
      · exact Or.inr ⟨x, hx, p, hp, rfl⟩

theorem consAll_length (xs : List Int) (ps : List (List Int)) :
    (consAll xs ps).length = xs.length * ps.length := by
  induction xs with
  | nil => simp [consAll]
  | cons y ys ih => simp [consAll, ih, Nat.succ_mul, Nat.add_comm]

theorem consAll_nodup (xs : List Int) (ps : List (List Int)) (hx : xs.Nodup) (hp : ps.Nodup) :
    (consAll xs ps).Nodup := by
  induction xs with
  | nil => simp [consAll]
  | cons y ys ih =>
    have hy := List.nodup_cons.mp hx
    simp only [consAll]
    refine List.nodup_append.mpr ⟨?_, ih hy.2, ?_⟩
    · rw [List.Nodup, List.pairwise_map]
      exact List.Pairwise.imp (fun h e => h (by simpa using e)) hp
    · intro a ha b hb hab
      subst hab
      obtain ⟨p, _, rfl⟩ := List.mem_map.mp ha
      obtain ⟨x, hx', p', _, he⟩ := mem_consAll.mp hb
      simp only [List.cons.injEq] at he
      exact hy.1 (he.1 ▸ hx')

/-- Membership in a box, coordinate by coordinate. -/
def InBox : List Int → Box → Prop
  | [], [] => True
  | x :: p, (lo, n) :: b => lo ≤ x ∧ x < lo + n ∧ InBox p b
  | _, _ => False

theorem mem_points {b : Box} {p : List Int} : p ∈ points b ↔ InBox p b := by
  induction b generalizing p with
  | nil => cases p <;> simp [points, InBox]
  | cons e b ih =>
    obtain ⟨lo, n⟩ := e
    simp only [points, mem_consAll, mem_range]
    constructor
    · rintro ⟨x, hx, q, hq, rfl⟩
      exact ⟨hx.1, hx.2, ih.mp hq⟩
    · intro h
      cases p with
      | nil => simp [InBox] at h
      | cons x q => exact ⟨x, ⟨h.1, h.2.1⟩, q, ih.mpr h.2.2, rfl⟩

theorem InBox_length {b : Box} {p : List Int} (h : InBox p b) : p.length = b.length := by
  induction b generalizing p with
  | nil => cases p <;> simp_all [InBox]
  | cons e b ih =>
    obtain ⟨lo, n⟩ := e
    cases p with
    | nil => simp [InBox] at h
    | cons x q => simp [ih h.2.2]

/-- **`box_card`**: a box has `∏ nᵢ` points. -/
theorem points_length (b : Box) : (points b).length = prod (b.map (fun e => e.2)) := by
  induction b with
  | nil => rfl
  | cons e b ih =>
    obtain ⟨lo, n⟩ := e
    simp [points, consAll_length, range_length, ih, prod]

theorem points_nodup (b : Box) : (points b).Nodup := by
  induction b with
  | nil => simp [points]
  | cons e b ih =>
    obtain ⟨lo, n⟩ := e
    exact consAll_nodup _ _ (range_nodup lo n) ih

/-- Every variable has at least one value. -/
def AllPos (b : Box) : Prop := ∀ e ∈ b, 1 ≤ e.2

theorem points_ne_nil {b : Box} (h : AllPos b) : points b ≠ [] := by
  induction b with
  | nil => simp [points]
  | cons e b ih =>
    obtain ⟨lo, n⟩ := e
    have hn : 1 ≤ n := h (lo, n) (by simp)
    have hb := ih (fun x hx => h x (by simp [hx]))
    obtain ⟨q, hq⟩ := List.exists_mem_of_ne_nil _ hb
    intro hnil
    have : (lo :: q) ∈ points ((lo, n) :: b) := by
      rw [mem_points]
      exact ⟨Int.le_refl _, by omega, mem_points.mp hq⟩
    rw [hnil] at this
    simp at this

/-! ### lmin / lmax -/

theorem foldl_min_le_init (xs : List Int) (a : Int) : xs.foldl min a ≤ a := by
  induction xs generalizing a with
  | nil => exact Int.le_refl _
  | cons x xs ih => exact Int.le_trans (ih _) (Int.min_le_left _ _)

theorem foldl_min_le_mem (xs : List Int) (a : Int) : ∀ x ∈ xs, xs.foldl min a ≤ x := by
  induction xs generalizing a with
  | nil => simp
  | cons y ys ih =>
    intro x hx
    simp only [List.mem_cons] at hx
    simp only [List.foldl_cons]
    rcases hx with rfl | hx
    · exact Int.le_trans (foldl_min_le_init ys _) (Int.min_le_right _ _)
    · exact ih _ x hx

theorem foldl_min_mem (xs : List Int) (a : Int) : xs.foldl min a = a ∨ xs.foldl min a ∈ xs := by
  induction xs generalizing a with
  | nil => simp
  | cons y ys ih =>
    simp only [List.foldl_cons, List.mem_cons]
    rcases ih (min a y) with h | h
    · rw [h]
      rcases Int.min_def a y ▸ (by by_cases hh : a ≤ y <;> simp [hh] : (if a ≤ y then a else y) = a ∨ (if a ≤ y then a else y) = y) with h2 | h2
      · exact Or.inl h2
      · exact Or.inr (Or.inl h2)
    · exact Or.inr (Or.inr h)

theorem foldl_max_ge_init (xs : List Int) (a : Int) : a ≤ xs.foldl max a := by
  induction xs generalizing a with
  | nil => exact Int.le_refl _
  | cons x xs ih => exact Int.le_trans (Int.le_max_left _ _) (ih _)

theorem foldl_max_ge_mem (xs : List Int) (a : Int) : ∀ x ∈ xs, x ≤ xs.foldl max a := by
  induction xs generalizing a with
  | nil => simp
  | cons y ys ih =>
    intro x hx
    simp only [List.mem_cons] at hx
    simp only [List.foldl_cons]
    rcases hx with rfl | hx
    · exact Int.le_trans (Int.le_max_right _ _) (foldl_max_ge_init ys _)
    · exact ih _ x hx

theorem foldl_max_mem (xs : List Int) (a : Int) : xs.foldl max a = a ∨ xs.foldl max a ∈ xs := by
  induction xs generalizing a with
  | nil => simp
  | cons y ys ih =>
    simp only [List.foldl_cons, List.mem_cons]
    rcases ih (max a y) with h | h
    · rw [h]
      rcases Int.max_def a y ▸ (by by_cases hh : a ≤ y <;> simp [hh] : (if a ≤ y then y else a) = a ∨ (if a ≤ y then y else a) = y) with h2 | h2
      · exact Or.inl h2
      · exact Or.inr (Or.inl h2)
    · exact Or.inr (Or.inr h)

theorem lmin_le {l : List Int} {x : Int} (h : x ∈ l) : lmin l ≤ x := by
  cases l with
  | nil => simp at h
  | cons y ys =>
    simp only [List.mem_cons] at h
    rcases h with rfl | h
    · exact foldl_min_le_init ys _
    · exact foldl_min_le_mem ys y x h

theorem lmin_mem {l : List Int} (h : l ≠ []) : lmin l ∈ l := by
  cases l with
  | nil => exact absurd rfl h
  | cons y ys =>
    simp only [lmin, List.mem_cons]
    exact foldl_min_mem ys y

theorem le_lmax {l : List Int} {x : Int} (h : x ∈ l) : x ≤ lmax l := by
  cases l with
  | nil => simp at h
  | cons y ys =>
    simp only [List.mem_cons] at h
    rcases h with rfl | h
    · exact foldl_max_ge_init ys _
    · exact foldl_max_ge_mem ys y x h

theorem lmax_mem {l : List Int} (h : l ≠ []) : lmax l ∈ l := by
  cases l with
  | nil => exact absurd rfl h
  | cons y ys =>
    simp only [lmax, List.mem_cons]
    exact foldl_max_mem ys y

theorem lmin_eq_of {l : List Int} {m : Int} (hm : m ∈ l) (hle : ∀ x ∈ l, m ≤ x) : lmin l = m := by
  have h1 := lmin_le hm
  have h2 := hle _ (lmin_mem (List.ne_nil_of_mem hm))
  omega

theorem lmax_eq_of {l : List Int} {m : Int} (hm : m ∈ l) (hle : ∀ x ∈ l, x ≤ m) : lmax l = m := by
  have h1 := le_lmax hm
  have h2 := hle _ (lmax_mem (List.ne_nil_of_mem hm))
  omega

theorem lmin_congr {l1 l2 : List Int} (h : ∀ x, x ∈ l1 ↔ x ∈ l2) : lmin l1 = lmin l2 := by
  cases l1 with
  | nil =>
    cases l2 with
    | nil => rfl
    | cons y ys => exact absurd ((h y).mpr (by simp)) (by simp)
  | cons y ys =>
    have hne : l2 ≠ [] := List.ne_nil_of_mem ((h y).mp (by simp))
    apply lmin_eq_of
    · exact (h _).mpr (lmin_mem hne)
    · intro x hx; exact lmin_le ((h x).mp hx)

theorem lmax_congr {l1 l2 : List Int} (h : ∀ x, x ∈ l1 ↔ x ∈ l2) : lmax l1 = lmax l2 := by
  cases l1 with
  | nil =>
    cases l2 with
    | nil => rfl
    | cons y ys => exact absurd ((h y).mpr (by simp)) (by simp)
  | cons y ys =>
    have hne : l2 ≠ [] := List.ne_nil_of_mem ((h y).mp (by simp))
    apply lmax_eq_of
    · exact (h _).mpr (lmax_mem hne)
    · intro x hx; exact le_lmax ((h x).mp hx)

theorem extentOf_congr {l1 l2 : List Int} (h : ∀ x, x ∈ l1 ↔ x ∈ l2) : extentOf l1 = extentOf l2 := by
  simp only [extentOf, lmin_congr h, lmax_congr h]

/-! ### heads / tails, extents, bbox depend on the set of points only -/

theorem mem_heads {s : List (List Int)} {x : Int} : x ∈ heads s ↔ ∃ p ∈ s, p.headD 0 = x := by
  simp [heads]

theorem mem_tails {s : List (List Int)} {q : List Int} : q ∈ tails s ↔ ∃ p ∈ s, p.tail = q := by
  simp [tails]

theorem heads_congr {s t : List (List Int)} (h : ∀ p, p ∈ s ↔ p ∈ t) : ∀ x, x ∈ heads s ↔ x ∈ heads t := by
  intro x; simp only [mem_heads]; constructor <;> rintro ⟨p, hp, rfl⟩
  · exact ⟨p, (h p).mp hp, rfl⟩
  · exact ⟨p, (h p).mpr hp, rfl⟩

theorem tails_congr {s t : List (List Int)} (h : ∀ p, p ∈ s ↔ p ∈ t) : ∀ q, q ∈ tails s ↔ q ∈ tails t := by
  intro q; simp only [mem_tails]; constructor <;> rintro ⟨p, hp, rfl⟩
  · exact ⟨p, (h p).mp hp, rfl⟩
  · exact ⟨p, (h p).mpr hp, rfl⟩

theorem extents_congr (d : Nat) {s t : List (List Int)} (h : ∀ p, p ∈ s ↔ p ∈ t) : extents d s = extents d t := by
  induction d generalizing s t with
  | zero => rfl
  | succ d ih => simp only [extents, extentOf_congr (heads_congr h), ih (tails_congr h)]

theorem bbox_congr (d : Nat) {s t : List (List Int)} (h : ∀ p, p ∈ s ↔ p ∈ t) : bbox d s = bbox d t := by
  induction d generalizing s t with
  | zero => rfl
  | succ d ih =>
    simp only [bbox, extentOf_congr (heads_congr h), lmin_congr (heads_congr h), ih (tails_congr h)]

theorem bbox_sizes (d : Nat) (s : List (List Int)) : (bbox d s).map (fun e => e.2) = extents d s := by
  induction d generalizing s with
  | zero => rfl
  | succ d ih => simp [bbox, extents, ih]

theorem bbox_length (d : Nat) (s : List (List Int)) : (bbox d s).length = d := by
  induction d generalizing s with
  | zero => rfl
  | succ d ih => simp [bbox, ih]

/-! ### the points of a box: heads, tails -/

theorem heads_points (lo : Int) (n : Nat) (b : Box) (hb : points b ≠ []) :
    ∀ x, x ∈ heads (points ((lo, n) :: b)) ↔ x ∈ range lo n := by
  intro x
  simp only [mem_heads, points, mem_consAll]
  constructor
  · rintro ⟨p, ⟨y, hy, q, _, rfl⟩, rfl⟩; exact hy
  · intro hx
    obtain ⟨q, hq⟩ := List.exists_mem_of_ne_nil _ hb
    exact ⟨x :: q, ⟨x, hx, q, hq, rfl⟩, rfl⟩

theorem tails_points (lo : Int) (n : Nat) (b : Box) (hn : 1 ≤ n) :
    ∀ q, q ∈ tails (points ((lo, n) :: b)) ↔ q ∈ points b := by
  intro q
  simp only [mem_tails, points, mem_consAll]
  constructor
  · rintro ⟨p, ⟨y, _, q', hq', rfl⟩, rfl⟩; exact hq'
  · intro hq
    exact ⟨lo :: q, ⟨lo, mem_range.mpr ⟨Int.le_refl _, by omega⟩, q, hq, rfl⟩, rfl⟩

theorem extentOf_range (l : List Int) (lo : Int) (n : Nat) (hn : 1 ≤ n) (h : ∀ x, x ∈ l ↔ x ∈ range lo n) :
    lmin l = lo ∧ extentOf l = n := by
  have hlo : lo ∈ l := (h lo).mpr (mem_range.mpr ⟨Int.le_refl _, by omega⟩)
  have hhi : lo + n - 1 ∈ l := (h _).mpr (mem_range.mpr ⟨by omega, by omega⟩)
  have h1 : lmin l = lo := lmin_eq_of hlo (fun x hx => (mem_range.mp ((h x).mp hx)).1)
  have h2 : lmax l = lo + n - 1 := lmax_eq_of hhi (fun x hx => by have := (mem_range.mp ((h x).mp hx)).2; omega)
  refine ⟨h1, ?_⟩
  simp only [extentOf, h1, h2]
  omega

end AFV.Geometry
