import AFV.Lemmas.Topo
import AFV.Spec.Topo
/-!
Lemmas about `split` and `order` (`_get_parsable_field_order`) in terms of the reference notions `Dep`/`Cyclic`.
-/
namespace AFV.Topo
open Relation

set_option linter.unusedSectionVars false
variable {α : Type} [DecidableEq α]

/-! ## the first loop -/

theorem split_fold (pre : List α) :
    ∀ (fields : List (Field α)) (acc : List α × List (Field α)), (names fields).Nodup →
      (∀ f ∈ fields, f.name ∈ acc.1 ↔ f.name ∈ pre) →
      fields.foldl
        (fun (acc : List α × List (Field α)) f =>
          if f.name ∈ acc.1 then acc
          else if !f.evaluated then (acc.1 ++ [f.name], acc.2)
          else (acc.1, acc.2 ++ [f])) acc
        = (acc.1 ++ names (plainPart pre fields), acc.2 ++ sortedPart pre fields) := by
  intro fields
  induction fields with
  | nil => intro acc _ _; simp [plainPart, sortedPart]
  | cons f fs ih =>
    intro acc hn hacc
    have hn' : (names fs).Nodup := (List.nodup_cons.mp hn).2
    have hfn : ∀ g ∈ fs, g.name ≠ f.name := by
      intro g hg he
      exact (List.nodup_cons.mp hn).1 (List.mem_map.mpr ⟨g, hg, he⟩)
    have hf := hacc f (by simp)
    simp only [List.foldl_cons]
    by_cases h1 : f.name ∈ acc.1
    · have h1' : f.name ∈ pre := hf.mp h1
      rw [if_pos h1, ih acc hn' (fun g hg => hacc g (List.mem_cons_of_mem _ hg))]
      simp [plainPart, sortedPart, h1']
    · have h1' : f.name ∉ pre := fun h => h1 (hf.mpr h)
      rw [if_neg h1]
      by_cases h2 : f.evaluated = true
      · simp only [h2, Bool.not_true, Bool.false_eq_true, if_false]
        rw [ih (acc.1, acc.2 ++ [f]) hn' (fun g hg => hacc g (List.mem_cons_of_mem _ hg))]
        simp [plainPart, sortedPart, h1', h2]
      · have h2' : f.evaluated = false := by simpa using h2
        simp only [h2', Bool.not_false, if_true]
        rw [ih (acc.1 ++ [f.name], acc.2) hn' (by
          intro g hg
          simp only [List.mem_append, List.mem_cons, List.mem_nil_iff, or_false]
          have := hacc g (List.mem_cons_of_mem _ hg)
          constructor
          · rintro (h | h)
            · exact this.mp h
            · exact absurd h (hfn g hg)
          · intro h; exact Or.inl (this.mpr h))]
        simp [plainPart, sortedPart, h1', h2']

theorem split_eq (pre : List α) (fields : List (Field α)) (hn : (names fields).Nodup) :
    split pre fields = (pre ++ names (plainPart pre fields), sortedPart pre fields) := by
  unfold split
  rw [split_fold pre fields (pre, []) hn (fun _ _ => Iff.rfl)]
  simp

theorem mem_sortedPart {pre : List α} {fields : List (Field α)} {f : Field α} :
    f ∈ sortedPart pre fields ↔ f ∈ fields ∧ f.name ∉ pre ∧ f.evaluated = true := by
  simp [sortedPart]

theorem mem_plainPart {pre : List α} {fields : List (Field α)} {f : Field α} :
    f ∈ plainPart pre fields ↔ f ∈ fields ∧ f.name ∉ pre ∧ f.evaluated = false := by
  simp [plainPart]

theorem sortedPart_nodup {pre : List α} {fields : List (Field α)} (hn : (names fields).Nodup) :
    (names (sortedPart pre fields)).Nodup := names_filter_nodup hn _

/-- `dependencies[f]` is exactly the reference relation `Dep`. -/
theorem mem_depsIn_iff {pre : List α} {fields : List (Field α)} (hn : (names fields).Nodup)
    {f : Field α} (hf : f ∈ sortedPart pre fields) (g : α) :
    g ∈ depsIn (sortedPart pre fields) f ↔ Dep pre fields f.name g := by
  unfold depsIn Dep
  simp only [List.mem_filter, List.mem_map, decide_eq_true_eq, ne_eq, Bool.decide_and, Bool.and_eq_true]
  constructor
  · rintro ⟨⟨g', hg', rfl⟩, hne, hin⟩
    exact ⟨f, hf, rfl, hin, hne, g', hg', rfl⟩
  · rintro ⟨f', hf', hname, hin, hne, g', hg', rfl⟩
    have : f' = f := eq_of_name_eq (sortedPart_nodup hn) hf' hf hname
    subst this
    exact ⟨⟨g', hg', rfl⟩, hne, hin⟩

/-! ## successful ordering -/

theorem order_ok_spec {pre : List α} {fields : List (Field α)} (hn : (names fields).Nodup) {out : List α}
    (h : order pre fields = .ok out) :
    ∃ suf, out = (pre ++ names (plainPart pre fields)) ++ suf ∧ suf.Perm (names (sortedPart pre fields)) ∧
      ∀ x y, Dep pre fields x y → ∀ l1 l2, suf = l1 ++ x :: l2 → y ∈ l1 := by
  unfold order at h
  rw [split_eq pre fields hn] at h
  simp only at h
  obtain ⟨suf, hout, hperm, hdep⟩ :=
    kahn_ok _ _ _ _ _ (Nat.le_refl _) (sortedPart_nodup hn) h
  refine ⟨suf, hout, hperm, ?_⟩
  intro x y hxy l1 l2 hs
  have hxy' := hxy
  obtain ⟨f, hf, rfl, _, _, g, hg, rfl⟩ := hxy
  have := hdep f hf l1 l2 hs g.name ((mem_depsIn_iff hn hf g.name).mpr hxy')
  simp only [List.mem_append] at this
  have hgs := mem_sortedPart.mp hg
  rcases this with (h1 | h1) | h1
  · exact absurd h1 hgs.2.1
  · obtain ⟨p, hp, hpn⟩ := List.mem_map.mp h1
    have hpp := mem_plainPart.mp hp
    have : p = g := eq_of_name_eq hn hpp.1 hgs.1 hpn
    subst this
    rw [hgs.2.2] at hpp
    exact absurd hpp.2.2 (by simp)
  · exact h1

/-! ## failing ordering -/

theorem order_err_spec {pre : List α} {fields : List (Field α)} (hn : (names fields).Nodup) {stuck : List α}
    (h : order pre fields = .error stuck) :
    stuck ≠ [] ∧ (∀ x ∈ stuck, x ∈ names (sortedPart pre fields)) ∧
      ∀ x ∈ stuck, ∃ y ∈ stuck, Dep pre fields x y := by
  unfold order at h
  rw [split_eq pre fields hn] at h
  simp only at h
  obtain ⟨S, hne, hst, hsub, hS⟩ := kahn_err _ _ _ _ _ h (by
    intro f _ g hg
    right
    unfold depsIn at hg
    exact (List.mem_filter.mp hg).1)
  subst hst
  refine ⟨by simpa using hne, ?_, ?_⟩
  · intro x hx
    obtain ⟨f, hf, rfl⟩ := List.mem_map.mp hx
    exact List.mem_map.mpr ⟨f, hsub f hf, rfl⟩
  · intro x hx
    obtain ⟨f, hf, rfl⟩ := List.mem_map.mp hx
    obtain ⟨g, hg, hgS⟩ := hS f hf
    exact ⟨g, hgS, (mem_depsIn_iff hn (hsub f hf) g).mp hg⟩

/-! ## positions -/

theorem idxOf_split {l1 l2 : List α} {x : α} (hx : x ∉ l1) : (l1 ++ x :: l2).idxOf x = l1.length := by
  rw [List.idxOf_append]
  simp [hx]

theorem idxOf_lt_of_mem_left {l1 l2 : List α} {y : α} (hy : y ∈ l1) : (l1 ++ l2).idxOf y < l1.length := by
  rw [List.idxOf_append]
  simp only [hy, if_true]
  exact List.idxOf_lt_length_iff.mpr hy

/-- In a successful order, dependencies strictly decrease the position. -/
theorem dep_idx_lt {pre : List α} {fields : List (Field α)} {suf : List α}
    (hsn : suf.Nodup) (hperm : suf.Perm (names (sortedPart pre fields)))
    (hdep : ∀ x y, Dep pre fields x y → ∀ l1 l2, suf = l1 ++ x :: l2 → y ∈ l1)
    {x y : α} (hxy : TransGen (Dep pre fields) x y) : suf.idxOf y < suf.idxOf x := by
  have step : ∀ a b, Dep pre fields a b → suf.idxOf b < suf.idxOf a := by
    intro a b hab
    have ha : a ∈ suf := by
      obtain ⟨f, hf, rfl, _⟩ := hab
      exact hperm.mem_iff.mpr (List.mem_map.mpr ⟨f, hf, rfl⟩)
    obtain ⟨l1, l2, hs⟩ := List.append_of_mem ha
    have hb := hdep a b hab l1 l2 hs
    have hal1 : a ∉ l1 := by
      intro hin
      rw [hs] at hsn
      have := (List.nodup_append.mp hsn).2.2 a hin a (by simp)
      exact this rfl
    rw [hs, idxOf_split hal1]
    exact idxOf_lt_of_mem_left hb
  induction hxy with
  | single h1 => exact step _ _ h1
  | tail _ h2 ih => exact Nat.lt_trans (step _ _ h2) ih

end AFV.Topo
