import AFV.Lemmas.ParetoBnl
/-!
Block minima + window-min quick check = plain window scan, for EVERY initial value `S` of the block minima.
-/
namespace AFV.Pareto

theorem any_congr_mem {α} {l : List α} {p q : α → Bool} (h : ∀ x ∈ l, p x = q x) : l.any p = l.any q := by
  induction l with
  | nil => rfl
  | cons x xs ih =>
    simp only [List.any_cons, h x List.mem_cons_self, ih fun y hy => h y (List.mem_cons_of_mem _ hy)]

/-- `m` is a coordinatewise lower bound of `r`. -/
def lowerBd (d : Nat) (m r : Row) : Prop := ∀ k, k < d → EV.le (cell m k) (cell r k) = true

theorem cell_map_range (d : Nat) (f : Nat → EV) {k : Nat} (hk : k < d) :
    cell ((List.range d).map f) k = f k := by
  simp [cell, List.getD_eq_getElem?_getD, hk]

theorem cell_minRow (d : Nat) (m v : Row) {k : Nat} (hk : k < d) :
    cell (minRow d m v) k = minUpd (cell m k) (cell v k) := cell_map_range d _ hk

theorem minUpd_le_left (m v : EV) : EV.le (minUpd m v) m = true := by
  unfold minUpd; split
  · exact EV.lt_imp_le ‹_›
  · exact EV.le_refl m

theorem minUpd_le_right (m v : EV) : EV.le (minUpd m v) v = true := by
  unfold minUpd; split
  · exact EV.le_refl v
  · rename_i h; exact EV.le_of_not_lt (by simpa using h)

theorem lowerBd_refl (d : Nat) (r : Row) : lowerBd d r r := fun _ _ => EV.le_refl _

theorem lowerBd_minRow_old {d : Nat} {m v r : Row} (h : lowerBd d m r) : lowerBd d (minRow d m v) r := by
  intro k hk; rw [cell_minRow d m v hk]; exact EV.le_trans (minUpd_le_left _ _) (h k hk)

theorem lowerBd_minRow_new (d : Nat) (m v : Row) : lowerBd d (minRow d m v) v := by
  intro k hk; rw [cell_minRow d m v hk]; exact minUpd_le_right _ _

/-- a row that is somewhere strictly above `c`'s lower bound test cannot dominate `c`. -/
theorem not_dom_of_lowerBd {d : Nat} {m r c : Row} (h : lowerBd d m r)
    (hc : ((List.range d).any fun k => EV.lt (cell c k) (cell m k)) = true) : domV d r c = false := by
  obtain ⟨k, hk, hlt⟩ := List.any_eq_true.mp hc
  have hk' : k < d := List.mem_range.mp hk
  cases hd : domV d r c
  · rfl
  · have hle := (domV_iff.mp hd).1 k hk'
    have := EV.lt_of_lt_of_le (EV.lt_of_lt_of_le hlt (h k hk')) hle
    simp [EV.lt_irrefl] at this

/-- invariant tying the block structure to the flat window `rows`. -/
structure WinOK (d : Nat) (w : Win) (rows : List Row) : Prop where
  flat : w.blocks.flatMap (·.rows) = rows
  bmins : ∀ b ∈ w.blocks, ∀ r ∈ b.rows, lowerBd d b.mins r
  wminOK : ∀ r ∈ rows, lowerBd d w.wmin r

theorem Win.dominates_eq {d : Nat} {w : Win} {rows : List Row} (h : WinOK d w rows) (c : Row) :
    w.dominates d c = rows.any fun r => domV d r c := by
  unfold Win.dominates
  cases hq : quickSafe d w.wmin c
  · simp only [Bool.not_false, Bool.true_and]
    rw [← h.flat, List.any_flatMap]
    refine any_congr_mem ?_
    intro b hb
    cases hbo : blockOk d b.mins c
    · simp only [Bool.false_and]
      symm
      apply List.any_eq_false.mpr
      intro r hr
      have : ((List.range d).any fun k => EV.lt (cell c k) (cell b.mins k)) = true := by
        simpa [blockOk] using hbo
      simp [not_dom_of_lowerBd (h.bmins b hb r hr) this]
    · simp
  · simp only [Bool.not_true, Bool.false_and]
    symm
    apply List.any_eq_false.mpr
    intro r hr
    simp [not_dom_of_lowerBd (h.wminOK r hr) hq]

theorem pushBlocks_flat (d : Nat) (S : EV) (bs : List Block) (v : Row) :
    (pushBlocks d S bs v).flatMap (·.rows) = bs.flatMap (·.rows) ++ [v] := by
  fun_induction pushBlocks d S bs v with
  | case1 v => simp
  | case2 b v b' hlen => simp [b']
  | case3 b v b' hlen => simp [b']
  | case4 b b2 bs v ih => simp [ih]

theorem pushBlocks_mins (d : Nat) (S : EV) (bs : List Block) (v : Row)
    (h : ∀ b ∈ bs, ∀ r ∈ b.rows, lowerBd d b.mins r) :
    ∀ b ∈ pushBlocks d S bs v, ∀ r ∈ b.rows, lowerBd d b.mins r := by
  fun_induction pushBlocks d S bs v with
  | case1 v =>
    intro b hb r hr
    simp only [List.mem_singleton] at hb; subst hb
    simp only [List.mem_singleton] at hr; subst hr
    exact lowerBd_minRow_new d _ _
  | case2 b0 v b' hlen =>
    have hb' : ∀ r ∈ b'.rows, lowerBd d b'.mins r := by
      intro r hr
      simp only [b', List.mem_append, List.mem_singleton] at hr
      rcases hr with hr | rfl
      · exact lowerBd_minRow_old (h b0 (List.mem_singleton.mpr rfl) r hr)
      · exact lowerBd_minRow_new d _ _
    intro b hb r hr
    simp only [List.mem_cons, List.not_mem_nil, or_false] at hb
    rcases hb with rfl | rfl
    · exact hb' r hr
    · simp at hr
  | case3 b0 v b' hlen =>
    have hb' : ∀ r ∈ b'.rows, lowerBd d b'.mins r := by
      intro r hr
      simp only [b', List.mem_append, List.mem_singleton] at hr
      rcases hr with hr | rfl
      · exact lowerBd_minRow_old (h b0 (List.mem_singleton.mpr rfl) r hr)
      · exact lowerBd_minRow_new d _ _
    intro b hb r hr
    simp only [List.mem_singleton] at hb; subst hb; exact hb' r hr
  | case4 b0 b2 bs v ih =>
    intro b hb r hr
    rcases List.mem_cons.mp hb with rfl | hb
    · exact h _ List.mem_cons_self r hr
    · exact ih (fun b hb => h b (List.mem_cons_of_mem _ hb)) b hb r hr

theorem WinOK.push {d : Nat} {w : Win} {rows : List Row} (h : WinOK d w rows) (S : EV) (v : Row) :
    WinOK d (w.push d S v) (rows ++ [v]) where
  flat := by simp [Win.push, pushBlocks_flat, h.flat]
  bmins := pushBlocks_mins d S w.blocks v h.bmins
  wminOK := by
    intro r hr
    rcases List.mem_append.mp hr with hr | hr
    · exact lowerBd_minRow_old (h.wminOK r hr)
    · simp only [List.mem_singleton] at hr; subst hr; exact lowerBd_minRow_new d _ _

/-- **block minima are harmless for every sentinel `S`.** -/
theorem bnlBlocksGo_eq_bnlGo (d : Nat) (S : EV) (w : Win) (rows : List Row) (xs : List Item)
    (h : WinOK d w rows) : bnlBlocksGo d S w xs = bnlGo d rows xs := by
  induction xs generalizing w rows with
  | nil => simp [bnlBlocksGo, bnlGo]
  | cons x xs ih =>
    unfold bnlBlocksGo bnlGo
    rw [Win.dominates_eq h]
    split
    · exact ih w rows h
    · rw [ih _ _ (h.push S x.2)]

theorem bnlBlocks_eq_bnlGo (cfg : Cfg) (d : Nat) (L : List Item) :
    bnlBlocks cfg d L = bnlGo d [] (sortByKey cfg.key L) := by
  unfold bnlBlocks
  cases hs : sortByKey cfg.key L with
  | nil => simp [bnlGo]
  | cons x xs =>
    have h0 : WinOK d ⟨[⟨x.2, [x.2]⟩], x.2⟩ [x.2] :=
      ⟨by simp, by intro b hb r hr; simp at hb; subst hb; simp at hr; subst hr; exact lowerBd_refl d _,
       by intro r hr; simp at hr; subst hr; exact lowerBd_refl d _⟩
    simp only [bnlGo, List.any_nil, Bool.false_eq_true, if_false, List.nil_append]
    rw [bnlBlocksGo_eq_bnlGo d cfg.blockInit _ [x.2] xs h0]

end AFV.Pareto
