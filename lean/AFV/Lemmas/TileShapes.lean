import AFV.Spec.TileShapes
/-!
Helper lemmas for C10: integer ceiling division, the sqrt bound, sorted-deduplicated lists,
the divisor loop.  (No Mathlib needed; core `omega`/`simp` suffice.)
-/
namespace AFV.TileShapes

/-! ### ceilDiv -/

theorem ceilDiv_le_iff {a b t : Nat} (hb : 0 < b) : ceilDiv a b ≤ t ↔ a ≤ t * b := by
  unfold ceilDiv
  rw [← Nat.lt_succ_iff, Nat.div_lt_iff_lt_mul hb, Nat.succ_mul]
  omega

theorem le_ceilDiv_mul {a b : Nat} (hb : 0 < b) : a ≤ ceilDiv a b * b :=
  (ceilDiv_le_iff hb).1 (Nat.le_refl _)

theorem ceilDiv_zero_right (a : Nat) : ceilDiv a 0 = 0 := by
  simp [ceilDiv]

theorem ceilDiv_le_self (a t : Nat) : ceilDiv a t ≤ a := by
  rcases Nat.eq_zero_or_pos t with h | h
  · subst h; simp [ceilDiv_zero_right]
  · rw [ceilDiv_le_iff h]; exact Nat.le_mul_of_pos_right a h

theorem ceilDiv_pos {a b : Nat} (ha : 0 < a) (hb : 0 < b) : 0 < ceilDiv a b := by
  apply Nat.pos_of_ne_zero
  intro h
  have := (ceilDiv_le_iff (a := a) (t := 0) hb).1 (by omega)
  omega

theorem ceilDiv_galois {o m t : Nat} (hm : 0 < m) (ht : 0 < t) :
    ceilDiv o m ≤ t ↔ ceilDiv o t ≤ m := by
  rw [ceilDiv_le_iff hm, ceilDiv_le_iff ht, Nat.mul_comm]

theorem ceilDiv_anti {o m m' : Nat} (hm : 0 < m) (h : m ≤ m') : ceilDiv o m' ≤ ceilDiv o m := by
  rw [ceilDiv_le_iff (by omega)]
  exact Nat.le_trans (le_ceilDiv_mul hm) (Nat.mul_le_mul_left _ h)

theorem ceilDiv_ceilDiv_le {o n : Nat} (ho : 0 < o) (hn : 0 < n) :
    ceilDiv o (ceilDiv o n) ≤ n :=
  (ceilDiv_galois hn (ceilDiv_pos ho hn)).1 (Nat.le_refl _)

/-- `ceilDiv o ∘ ceilDiv o` is a closure: applying `ceilDiv o` three times is applying it once. -/
theorem ceilDiv_triple {o n : Nat} (ho : 0 < o) (hn : 0 < n) :
    ceilDiv o (ceilDiv o (ceilDiv o n)) = ceilDiv o n := by
  have ht := ceilDiv_pos ho hn
  have hm := ceilDiv_pos ho ht
  apply Nat.le_antisymm
  · exact ceilDiv_ceilDiv_le ho ht
  · exact ceilDiv_anti hm (ceilDiv_ceilDiv_le ho hn)

theorem ceilDiv_mul_self {k b : Nat} (hb : 0 < b) : ceilDiv (k * b) b = k := by
  apply Nat.le_antisymm
  · rw [ceilDiv_le_iff hb]; exact Nat.le_refl _
  · exact Nat.le_of_mul_le_mul_right (le_ceilDiv_mul hb) hb

theorem ceilDiv_one (a : Nat) : ceilDiv a 1 = a := by
  simp [ceilDiv]

theorem ceilDiv_self {a : Nat} (ha : 0 < a) : ceilDiv a a = 1 := by
  have := ceilDiv_mul_self (k := 1) ha
  simpa using this

theorem ceilDiv_of_dvd {n i : Nat} (hi : 0 < i) (h : i ∣ n) : ceilDiv n i = n / i := by
  obtain ⟨q, rfl⟩ := h
  rw [Nat.mul_comm, ceilDiv_mul_self hi, Nat.mul_div_cancel _ hi]

/-! ### ceilSqrt -/

theorem ceilSqrtGo_spec (n : Nat) : ∀ fuel r, n ≤ fuel + r →
    n ≤ ceilSqrtGo n fuel r * ceilSqrtGo n fuel r := by
  intro fuel
  induction fuel with
  | zero =>
    intro r h
    simp only [ceilSqrtGo]
    rcases Nat.eq_zero_or_pos r with h0 | h0
    · subst h0; omega
    · exact Nat.le_trans (by omega) (Nat.le_mul_of_pos_right r h0)
  | succ fuel ih =>
    intro r h
    simp only [ceilSqrtGo]
    split
    · assumption
    · exact ih (r + 1) (by omega)

theorem le_ceilSqrt_sq (n : Nat) : n ≤ ceilSqrt n * ceilSqrt n :=
  ceilSqrtGo_spec n n 0 (by omega)

theorem ceilSqrtGo_least (n : Nat) : ∀ fuel r, (∀ r', r' < r → r' * r' < n) →
    ∀ r', r' < ceilSqrtGo n fuel r → r' * r' < n := by
  intro fuel
  induction fuel with
  | zero => intro r h; simpa [ceilSqrtGo] using h
  | succ fuel ih =>
    intro r h
    simp only [ceilSqrtGo]
    split
    · exact h
    · rename_i hlt
      apply ih
      intro r' hr'
      by_cases e : r' = r
      · subst e; omega
      · exact h r' (by omega)

/-- `ceilSqrt n` is the least `r` with `n ≤ r * r` (so it is `⌈√n⌉`). -/
theorem ceilSqrt_least (n r' : Nat) (h : r' < ceilSqrt n) : r' * r' < n :=
  ceilSqrtGo_least n n 0 (by intro r' h; omega) r' h

/-! ### insertSorted / sortDedup -/

theorem mem_insertSorted {x y : Nat} {l : List Nat} : y ∈ insertSorted x l ↔ y = x ∨ y ∈ l := by
  induction l with
  | nil => simp [insertSorted]
  | cons a l ih =>
    simp only [insertSorted]
    split
    · simp
    · split
      · rename_i h; subst h; simp
      · simp only [List.mem_cons, ih]; exact or_left_comm

theorem mem_sortDedup {y : Nat} {l : List Nat} : y ∈ sortDedup l ↔ y ∈ l := by
  induction l with
  | nil => simp [sortDedup]
  | cons a l ih =>
    have : sortDedup (a :: l) = insertSorted a (sortDedup l) := rfl
    rw [this, mem_insertSorted, ih]; simp

theorem pairwise_insertSorted {x : Nat} {l : List Nat} (h : l.Pairwise (· < ·)) :
    (insertSorted x l).Pairwise (· < ·) := by
  induction l with
  | nil => simp [insertSorted]
  | cons a l ih =>
    rw [List.pairwise_cons] at h
    simp only [insertSorted]
    split
    · rename_i hlt
      rw [List.pairwise_cons]
      refine ⟨?_, List.pairwise_cons.2 h⟩
      intro z hz
      rcases List.mem_cons.1 hz with rfl | hz
      · exact hlt
      · exact Nat.lt_trans hlt (h.1 z hz)
    · split
      · exact List.pairwise_cons.2 h
      · rw [List.pairwise_cons]
        refine ⟨?_, ih h.2⟩
        intro z hz
        rcases mem_insertSorted.1 hz with rfl | hz
        · omega
        · exact h.1 z hz

theorem pairwise_sortDedup (l : List Nat) : (sortDedup l).Pairwise (· < ·) := by
  induction l with
  | nil => simp [sortDedup]
  | cons a l ih => exact pairwise_insertSorted ih

/-- A strictly increasing list is determined by its members. -/
theorem sorted_ext : ∀ {l₁ l₂ : List Nat}, l₁.Pairwise (· < ·) → l₂.Pairwise (· < ·) →
    (∀ x, x ∈ l₁ ↔ x ∈ l₂) → l₁ = l₂ := by
  intro l₁
  induction l₁ with
  | nil =>
    intro l₂ _ _ h
    cases l₂ with
    | nil => rfl
    | cons b l₂ => exact absurd ((h b).2 (by simp)) (by simp)
  | cons a l₁ ih =>
    intro l₂ h₁ h₂ h
    cases l₂ with
    | nil => exact absurd ((h a).1 (by simp)) (by simp)
    | cons b l₂ =>
      rw [List.pairwise_cons] at h₁ h₂
      have hab : a = b := by
        have ha := (h a).1 (by simp)
        have hb := (h b).2 (by simp)
        rcases List.mem_cons.1 ha with e | ha
        · exact e
        · rcases List.mem_cons.1 hb with e | hb
          · exact e.symm
          · have := h₂.1 a ha; have := h₁.1 b hb; omega
      subst hab
      congr 1
      apply ih h₁.2 h₂.2
      intro x
      constructor
      · intro hx
        have := (h x).1 (List.mem_cons_of_mem _ hx)
        rcases List.mem_cons.1 this with e | hx'
        · have := h₁.1 x hx; omega
        · exact hx'
      · intro hx
        have := (h x).2 (List.mem_cons_of_mem _ hx)
        rcases List.mem_cons.1 this with e | hx'
        · have := h₂.1 x hx; omega
        · exact hx'

/-- `find?` on a strictly increasing list returns the least member satisfying `p`. -/
theorem find?_sorted_eq_some {p : Nat → Bool} : ∀ {l : List Nat} {b : Nat}, l.Pairwise (· < ·) →
    b ∈ l → p b = true → (∀ a ∈ l, a < b → p a = false) → l.find? p = some b := by
  intro l
  induction l with
  | nil => intro b _ hb; simp at hb
  | cons x l ih =>
    intro b hs hb hp hlt
    rw [List.pairwise_cons] at hs
    rcases List.mem_cons.1 hb with rfl | hb'
    · simp [hp]
    · have hx : p x = false := hlt x (by simp) (hs.1 b hb')
      rw [List.find?_cons, hx]
      exact ih hs.2 hb' hp (fun a ha => hlt a (List.mem_cons_of_mem _ ha))

/-! ### the divisor loop of `_factorize` -/

theorem mem_foldl_factorizeStep (n : Nat) (x : Nat) : ∀ (l init : List Nat),
    x ∈ l.foldl (factorizeStep n) init ↔
      x ∈ init ∨ ∃ i ∈ l, n % i = 0 ∧ (x = i ∨ x = ceilDiv n i) := by
  intro l
  induction l with
  | nil => intro init; simp
  | cons a l ih =>
    intro init
    rw [List.foldl_cons, ih]
    unfold factorizeStep
    by_cases h : n % a = 0
    · simp only [h, if_true, List.mem_append, List.mem_cons, List.not_mem_nil, or_false,
        exists_eq_or_imp, true_and]
      constructor
      · rintro ((h1 | h2 | h3) | h4)
        · exact Or.inl h1
        · exact Or.inr (Or.inl (Or.inl h2))
        · exact Or.inr (Or.inl (Or.inr h3))
        · exact Or.inr (Or.inr h4)
      · rintro (h1 | (h2 | h3) | h4)
        · exact Or.inl (Or.inl h1)
        · exact Or.inl (Or.inr (Or.inl h2))
        · exact Or.inl (Or.inr (Or.inr h3))
        · exact Or.inr h4
    · simp [h]

/-- `_factorize n` returns exactly the divisors of `n` (for `n ≥ 1`), for every `n`. -/
theorem mem_factorize {n d : Nat} (hn : 0 < n) : d ∈ factorize n ↔ d ∣ n := by
  unfold factorize
  rw [mem_sortDedup, mem_foldl_factorizeStep]
  simp only [List.not_mem_nil, false_or, List.mem_range'_1]
  constructor
  · rintro ⟨i, ⟨hi1, _⟩, hmod, rfl | rfl⟩
    · exact Nat.dvd_of_mod_eq_zero hmod
    · rw [ceilDiv_of_dvd (by omega) (Nat.dvd_of_mod_eq_zero hmod)]
      exact Nat.div_dvd_of_dvd (Nat.dvd_of_mod_eq_zero hmod)
  · rintro ⟨e, he⟩
    have hd : 0 < d := Nat.pos_of_ne_zero (by rintro rfl; simp at he; omega)
    have he0 : 0 < e := Nat.pos_of_ne_zero (by rintro rfl; simp at he; omega)
    by_cases hdB : d ≤ ceilSqrt n
    · exact ⟨d, ⟨hd, by omega⟩, by simp [he], Or.inl rfl⟩
    · have heB : e ≤ ceilSqrt n := by
        apply Nat.le_of_not_lt
        intro hlt
        have h1 : (ceilSqrt n + 1) * (ceilSqrt n + 1) ≤ d * e :=
          Nat.mul_le_mul (by omega) (by omega)
        have h2 := le_ceilSqrt_sq n
        have h3 : ceilSqrt n * ceilSqrt n < (ceilSqrt n + 1) * (ceilSqrt n + 1) :=
          Nat.mul_lt_mul_of_lt_of_le (by omega) (by omega) (by omega)
        omega
      refine ⟨e, ⟨he0, by omega⟩, by simp [he], Or.inr ?_⟩
      rw [he, ceilDiv_mul_self he0]

end AFV.TileShapes
