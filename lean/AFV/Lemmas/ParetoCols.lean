import AFV.Lemmas.ParetoSort
/-!
Running minima / maxima, the 1-D path, varying-column detection and restriction to varying columns.
-/
namespace AFV.Pareto

theorem colMin_le (k : Nat) (init : EV) (G : List Item) :
    EV.le (colMin k init G) init = true ∧ ∀ y ∈ G, EV.le (colMin k init G) (cell y.2 k) = true := by
  induction G generalizing init with
  | nil => simp [colMin, EV.le_refl]
  | cons z zs ih =>
    simp only [colMin, List.foldl_cons]
    have := ih (if EV.lt (cell z.2 k) init then cell z.2 k else init)
    simp only [colMin] at this
    refine ⟨?_, ?_⟩
    · refine EV.le_trans this.1 ?_
      split
      · exact EV.lt_imp_le ‹_›
      · exact EV.le_refl _
    · intro y hy
      rcases List.mem_cons.mp hy with rfl | hy
      · refine EV.le_trans this.1 ?_
        split
        · exact EV.le_refl _
        · rename_i h; exact EV.le_of_not_lt (by simpa using h)
      · exact this.2 y hy

theorem colMin_attained (k : Nat) (init : EV) (G : List Item) :
    colMin k init G = init ∨ ∃ y ∈ G, colMin k init G = cell y.2 k := by
  induction G generalizing init with
  | nil => simp [colMin]
  | cons z zs ih =>
    simp only [colMin, List.foldl_cons]
    have := ih (if EV.lt (cell z.2 k) init then cell z.2 k else init)
    simp only [colMin] at this
    rcases this with h | ⟨y, hy, h⟩
    · rw [h]; split
      · exact Or.inr ⟨z, List.mem_cons_self, rfl⟩
      · exact Or.inl rfl
    · exact Or.inr ⟨y, List.mem_cons_of_mem _ hy, h⟩

theorem le_colMax (k : Nat) (init : EV) (G : List Item) :
    EV.le init (colMax k init G) = true ∧ ∀ y ∈ G, EV.le (cell y.2 k) (colMax k init G) = true := by
  induction G generalizing init with
  | nil => simp [colMax, EV.le_refl]
  | cons z zs ih =>
    simp only [colMax, List.foldl_cons]
    have := ih (if EV.lt init (cell z.2 k) then cell z.2 k else init)
    simp only [colMax] at this
    refine ⟨?_, ?_⟩
    · refine EV.le_trans ?_ this.1
      split
      · exact EV.lt_imp_le ‹_›
      · exact EV.le_refl _
    · intro y hy
      rcases List.mem_cons.mp hy with rfl | hy
      · refine EV.le_trans ?_ this.1
        split
        · exact EV.le_refl _
        · rename_i h; exact EV.le_of_not_lt (by simpa using h)
      · exact this.2 y hy

/-- the 1-D paths keep exactly the rows that are minimal in column `k`. -/
theorem mem_path1 (k : Nat) (G : List Item) (i : Nat) :
    i ∈ path1 k G ↔ ∃ x ∈ G, x.1 = i ∧ ∀ y ∈ G, EV.lt (cell y.2 k) (cell x.2 k) = false := by
  cases G with
  | nil => simp [path1]
  | cons x0 xs =>
    have hle := colMin_le k (cell x0.2 k) xs
    have hlb : ∀ y ∈ x0 :: xs, EV.le (colMin k (cell x0.2 k) xs) (cell y.2 k) = true := by
      intro y hy
      rcases List.mem_cons.mp hy with rfl | hy
      · exact hle.1
      · exact hle.2 y hy
    have hat : ∃ y ∈ x0 :: xs, colMin k (cell x0.2 k) xs = cell y.2 k := by
      rcases colMin_attained k (cell x0.2 k) xs with h | ⟨y, hy, h⟩
      · exact ⟨x0, List.mem_cons_self, h⟩
      · exact ⟨y, List.mem_cons_of_mem _ hy, h⟩
    simp only [path1, List.mem_map, List.mem_filter]
    constructor
    · rintro ⟨x, ⟨hx, hxm⟩, rfl⟩
      exact ⟨x, hx, rfl, fun y hy => EV.not_lt_of_le (EV.le_trans hxm (hlb y hy))⟩
    · rintro ⟨x, hx, rfl, h⟩
      obtain ⟨y, hy, hym⟩ := hat
      exact ⟨x, ⟨hx, by rw [hym]; exact EV.le_of_not_lt (h y hy)⟩, rfl⟩

/-- outside the varying columns all rows of a group agree. -/
theorem const_of_not_varying {d : Nat} {G : List Item} {k : Nat} (hk : k < d) (hv : k ∉ varying d G) :
    ∀ x ∈ G, ∀ y ∈ G, cell x.2 k = cell y.2 k := by
  cases G with
  | nil => simp
  | cons x0 xs =>
    have heq : colMin k (cell x0.2 k) xs = colMax k (cell x0.2 k) xs := by
      simp only [varying, List.mem_filter, List.mem_range, hk, true_and, bne_iff_ne, ne_eq,
        Decidable.not_not] at hv
      exact hv
    have h1 := colMin_le k (cell x0.2 k) xs
    have h2 := le_colMax k (cell x0.2 k) xs
    have hc : ∀ z ∈ x0 :: xs, cell z.2 k = colMin k (cell x0.2 k) xs := by
      intro z hz
      rcases List.mem_cons.mp hz with rfl | hz
      · exact EV.le_antisymm (by rw [heq]; exact h2.1) h1.1
      · exact EV.le_antisymm (by rw [heq]; exact h2.2 z hz) (h1.2 z hz)
    intro x hx y hy
    rw [hc x hx, hc y hy]

theorem varying_sub {d : Nat} {G : List Item} {k : Nat} (h : k ∈ varying d G) : k < d := by
  cases G with
  | nil => simp [varying] at h
  | cons x xs => simp only [varying, List.mem_filter, List.mem_range] at h; exact h.1

theorem cell_pick (vs : List Nat) (r : Row) {j : Nat} (hj : j < vs.length) :
    cell (pick vs r) j = cell r vs[j] := by
  simp [cell, pick, List.getD_eq_getElem?_getD, hj]

/-- dominance inside a group only depends on the varying columns. -/
theorem domV_pick {d : Nat} {G : List Item} {vs : List Nat} (hvs : vs = varying d G)
    {x y : Item} (hx : x ∈ G) (hy : y ∈ G) :
    domV vs.length (pick vs y.2) (pick vs x.2) = domV d y.2 x.2 := by
  have hconst : ∀ k, k < d → k ∉ vs → cell y.2 k = cell x.2 k := fun k hk hv =>
    const_of_not_varying hk (hvs ▸ hv) y hy x hx
  have hsub : ∀ k ∈ vs, k < d := fun k hk => varying_sub (hvs ▸ hk)
  rw [Bool.eq_iff_iff, domV_iff, domV_iff]
  constructor
  · rintro ⟨hl, j, hj, hlt⟩
    refine ⟨?_, vs[j], hsub _ (List.getElem_mem hj), ?_⟩
    · intro k hk
      by_cases hv : k ∈ vs
      · obtain ⟨j, hj, rfl⟩ := List.mem_iff_getElem.mp hv
        have := hl j hj
        rwa [cell_pick vs _ hj, cell_pick vs _ hj] at this
      · rw [hconst k hk hv]; exact EV.le_refl _
    · rwa [cell_pick vs _ hj, cell_pick vs _ hj] at hlt
  · rintro ⟨hl, k, hk, hlt⟩
    refine ⟨?_, ?_⟩
    · intro j hj
      rw [cell_pick vs _ hj, cell_pick vs _ hj]
      exact hl _ (hsub _ (List.getElem_mem hj))
    · by_cases hv : k ∈ vs
      · obtain ⟨j, hj, rfl⟩ := List.mem_iff_getElem.mp hv
        exact ⟨j, hj, by rwa [cell_pick vs _ hj, cell_pick vs _ hj]⟩
      · rw [hconst k hk hv, EV.lt_irrefl] at hlt
        exact Bool.noConfusion hlt

end AFV.Pareto
