import AFV.Lemmas.PeakLeaf2
/-!
# PeakLeaf3 — single-Einsum peak = sum of the buffer sizes at their allocation points
-/
namespace AFV.FusedPeak

/-- Side conditions of `peak_leaf` (all decidable): the Einsum exists, loop ids are distinct, every loop has at least one
iteration, a holder names a tensor once and holder ids are distinct, persistent holders stand above all loops (as backing
stores), sizes are non-negative. -/
def leafOK (w : Workload) (pre : List PNode) (e : Nat) : Bool :=
  let D := descsOf w (.leaf pre e) e
  decide (e < w.einsums.length) && decide ((loopIds pre).Nodup) && decide (0 < count pre w.bounds) &&
  decide ((D.map (fun d => (d.holder, d.tensor))).Nodup) &&
  D.all (fun d => !d.persistent || d.allocLoops.isEmpty) && D.all (fun d => decide (0 ≤ d.size))

theorem foldl_add_nonneg (l : List Rat) : ∀ x : Rat, 0 ≤ x → (∀ y ∈ l, 0 ≤ y) → 0 ≤ l.foldl (· + ·) x := by
  induction l with
  | nil => intro x hx _; exact hx
  | cons a r ih =>
    intro x hx h
    simp only [List.foldl_cons]
    exact ih _ (add_nonneg hx (h a List.mem_cons_self)) (fun y hy => h y (List.mem_cons_of_mem _ hy))

def leafNest (w : Workload) (pre : List PNode) (e : Nat) (h : leafOK w pre e = true) : Nest where
  ds := (List.range w.einsums.length).map (descsOf w (.leaf pre e))
  D := descsOf w (.leaf pre e) e
  e := e
  N := count pre w.bounds
  f := ctxAt pre w.bounds []
  hD := by
    simp only [leafOK, Bool.and_eq_true, decide_eq_true_eq] at h
    have he := h.1.1.1.1.1
    simp [List.getD, he]
  key := by
    simp only [leafOK, Bool.and_eq_true, decide_eq_true_eq] at h
    exact h.1.1.2
  cl := by
    intro d hd
    rw [descsOf_leaf] at hd
    exact closure_none_aux w _ (leafPath_flags w pre e) _ _ _ d hd
  pers := by
    intro d hd hp
    simp only [leafOK, Bool.and_eq_true, decide_eq_true_eq, List.all_eq_true, Bool.or_eq_true, Bool.not_eq_true',
      List.isEmpty_iff] at h
    rcases h.1.2 d hd with h' | h'
    · rw [hp] at h'; exact absurd h' (by simp)
    · exact h'
  conv := by
    intro d hd i j k hij hjk hk heq
    simp only [leafOK, Bool.and_eq_true, decide_eq_true_eq] at h
    have hnd := h.1.1.1.1.2
    rw [descsOf_leaf] at hd
    have hpre := alloc_prefix w _ _ _ _ d hd
    rw [List.nil_append, leafPath_ids] at hpre
    exact proj_convex pre d.allocLoops w.bounds [] i j k hpre hnd hij hjk hk heq

theorem leafNest_evs (w : Workload) (pre : List PNode) (e : Nat) (h : leafOK w pre e = true) :
    eventsT (.leaf pre e) w.bounds [] = (leafNest w pre e h).evs := events_leaf w pre e

/-- **Single Einsum: the execution-time peak of a memory is the sum of the sizes of its buffers at their allocation points** —
the uses of one residency are contiguous in execution order, so at every instant exactly one residency of every buffer is live. -/
theorem peak_leaf (w : Workload) (pre : List PNode) (e : Nat) (lvl : Lvl) (h : leafOK w pre e = true) :
    peak w (.leaf pre e) lvl = Nest.allocSum (descsOf w (.leaf pre e) e) lvl := by
  have hN : 0 < count pre w.bounds := by
    simp only [leafOK, Bool.and_eq_true, decide_eq_true_eq] at h
    exact h.1.1.1.2
  have hsz : ∀ d ∈ descsOf w (.leaf pre e) e, 0 ≤ d.size := by
    simp only [leafOK, Bool.and_eq_true, decide_eq_true_eq, List.all_eq_true] at h
    exact h.2
  let n := leafNest w pre e h
  have hpk : peak w (.leaf pre e) lvl = ratMaxL ((List.range n.N).map (fun ti =>
      (((n.R.filter (fun r => r.d.lvl == lvl)).map (fun r => (r.d.size, cover n.ds n.evs r))).filter
        (fun c => liveAt c.2 ti)).foldl (fun a c => a + c.1) 0)) := by
    simp only [peak, leafNest_evs w pre e h]
    rw [n.evs_length]
    rfl
  rw [hpk]
  apply ratMaxL_const _ hN
  · apply foldl_add_nonneg _ _ (le_refl _)
    intro y hy
    obtain ⟨d, hd, rfl⟩ := List.mem_map.1 hy
    exact hsz d (List.mem_filter.1 hd).1
  · intro i hi
    exact n.occupancy_eq lvl i hi

end AFV.FusedPeak
