import AFV.Lemmas.BreakdownTable
/-!
Proofs for C28 (aggregation lemmas, access chains on well-formed rows, permutation invariance).
The property theorems are restated in `AFV/Props/C28.lean`.
-/
namespace AFV.Breakdown.Main
open AFV.Breakdown AFV.Breakdown.Spec AFV.Breakdown.Lemmas

/-! ## A. aggregation -/

theorem foldl_add (vs : List Int) (a : Int) : vs.foldl (fun a v => a + v) a = a + vs.sum := by
  induction vs generalizing a with
  | nil => simp
  | cons v vs ih => rw [List.foldl_cons, ih, List.sum_cons]; omega

theorem total_dictAdd {κ : Type} [DecidableEq κ] (d : List (κ × Int)) (k : κ) (v : Int) :
    total (dictAdd d k v) = total d + v := by
  unfold dictAdd
  induction d with
  | nil => simp [dictUpd, total]
  | cons kv rest ih =>
    obtain ⟨k', v'⟩ := kv
    by_cases h : k' = k
    · simp only [dictUpd, h, if_true, total, List.map_cons, List.sum_cons]; omega
    · simp only [total] at ih
      simp only [dictUpd, h, if_false, total, List.map_cons, List.sum_cons, ih]; omega

/-- **sum_fiberwise.** Regrouping a table by ANY projection of its keys preserves the grand total:
the sum of the projected breakdown equals the sum of the table. -/
theorem sum_fiberwise {κ κ' : Type} [DecidableEq κ'] (f : κ → κ') (tbl : List (κ × Int)) :
    total (groupSum f tbl) = total tbl := by
  unfold groupSum
  suffices ∀ acc : List (κ' × Int),
      total (tbl.foldl (fun acc kv => dictAdd acc (f kv.1) kv.2) acc) = total acc + total tbl by
    simpa [total] using this []
  induction tbl with
  | nil => intro acc; simp [total]
  | cons kv rest ih =>
    intro acc
    rw [List.foldl_cons, ih, total_dictAdd]
    simp only [total, List.map_cons, List.sum_cons]; omega

theorem fiberVals_map {κ κ' : Type} [DecidableEq κ'] (f : κ → κ') (tbl : List (κ × Int)) (k' : κ') :
    fiberVals (tbl.map (fun kv => (f kv.1, kv.2))) k' = (tbl.filter (fun kv => f kv.1 = k')).map (·.2) := by
  induction tbl with
  | nil => rfl
  | cons kv rest ih =>
    simp only [fiberVals] at ih ⊢
    by_cases h : f kv.1 = k'
    · simp [List.filter_cons, h, ih]
    · simp [List.filter_cons, h, ih]

/-- **The regrouping loop computes exactly the fibre-wise sums**, one entry per projected key,
in order of first appearance. -/
theorem groupSum_eq_breakdown {κ κ' : Type} [DecidableEq κ'] (f : κ → κ') (tbl : List (κ × Int)) :
    groupSum f tbl = breakdown f tbl := by
  have h1 : groupSum f tbl =
      (tbl.map (fun kv => (f kv.1, kv.2))).foldl
        (fun d kv => dictUpd (fun v => 0 + v) (fun a v => a + v) d kv.1 kv.2) [] := by
    unfold groupSum dictAdd
    rw [List.foldl_map]
  rw [h1, foldl_dictUpd_eq_specFold]
  unfold specFold breakdown
  have hk : keys (tbl.map (fun kv => (f kv.1, kv.2))) = tbl.map (fun kv => f kv.1) := by
    simp [keys, Function.comp_def]
  rw [hk]
  apply List.map_congr_left
  intro k' _
  rw [fiberVals_map]
  unfold fiberSum
  cases hv : (tbl.filter (fun kv => f kv.1 = k')).map (·.2) with
  | nil => simp [foldVals]
  | cons v vs =>
    simp only [foldVals, Option.getD_some, foldl_add, List.sum_cons, Prod.mk.injEq, true_and]; omega

/-- What energy()/actions() return for every flag combination is what the property demands. -/
theorem aggregate_eq_spec (mask : Bool × Bool × Bool × Bool) (tbl : List (Key4 × Int)) :
    aggregate mask tbl =
      if mask = (false, false, false, false) then [([], total tbl)] else breakdown (proj mask) tbl := by
  unfold aggregate
  split
  · rfl
  · exact groupSum_eq_breakdown _ _

/-- **All 16 (energy) / 8 (actions) flag combinations sum to the same total.** -/
theorem aggregate_sum (mask : Bool × Bool × Bool × Bool) (tbl : List (Key4 × Int)) :
    total (aggregate mask tbl) = total tbl := by
  unfold aggregate
  split
  · simp [total]
  · exact sum_fiberwise _ _

theorem maxOpt_eq_foldVals (vs : List Int) : maxOpt vs = foldVals id max vs := by
  cases vs <;> rfl

/-- The `if not per_component` loop computes the per-Einsum maximum over components. -/
theorem perEinsumMax_eq (tbl : List (Key2 × Int)) : perEinsumMax tbl = breakdownMax tbl := by
  have h1 : perEinsumMax tbl =
      (tbl.map (fun kv => (kv.1.1, kv.2))).foldl (fun d kv => dictUpd id max d kv.1 kv.2) [] := by
    unfold perEinsumMax dictMax
    rw [List.foldl_map]
  rw [h1, foldl_dictUpd_eq_specFold]
  unfold specFold breakdownMax
  have hk : keys (tbl.map (fun kv => (kv.1.1, kv.2))) = tbl.map (fun kv => kv.1.1) := by
    simp [keys, Function.comp_def]
  rw [hk]
  apply List.map_congr_left
  intro e _
  rw [maxOpt_eq_foldVals]

/-- Per-component latency summed over Einsums = fibre sums. -/
theorem perComponentSum_eq (tbl : List (Key2 × Int)) :
    perComponentSum tbl = breakdown (fun k : Key2 => k.2) tbl := by
  rw [← groupSum_eq_breakdown]
  rfl

theorem sumOpt_eq (l : List Int) : sumOpt l = match l with | [] => none | _ => some l.sum := by
  cases l with
  | nil => rfl
  | cons v vs => simp only [sumOpt, foldl_add, List.sum_cons]

/-- **latency_agg.** latency() with no flags = Σ over Einsums of the maximum component latency. -/
theorem latency_agg (tbl : List (Key2 × Int)) : Breakdown.latencyTotal tbl = Spec.latencyTotal tbl := by
  unfold Breakdown.latencyTotal Spec.latencyTotal
  rw [perEinsumMax_eq, sumOpt_eq]
  cases breakdownMax tbl <;> rfl

/-- The reservation entries `(memory, value)` read off the `access("reservation")` table. -/
def res3 (pv : Col × Int) : Option (String × Int) :=
  match pv.1 with
  | [r, _, _] => some (r, pv.2)
  | _ => none

theorem usageOf_eq_fold (res : Row) (acc : List (String × Int)) :
    res.foldl usageStep acc =
      (res.filterMap res3).foldl (fun d kv => dictUpd (fun v => max 0 v) max d kv.1 kv.2) acc := by
  induction res generalizing acc with
  | nil => rfl
  | cons pv rest ih =>
    rw [List.foldl_cons, ih]
    obtain ⟨p, v⟩ := pv
    match p with
    | [] => rfl
    | [_] => rfl
    | [_, _] => rfl
    | [r, _, _] => rfl
    | _ :: _ :: _ :: _ :: _ => rfl

/-- **usage_max.** resource_usage() = maximum reservation per memory (floor 0, the initial value). -/
theorem usage_max (res : Row) : usageOf res = usage (res.filterMap res3) := by
  unfold usageOf
  rw [usageOf_eq_fold, foldl_dictUpd_eq_specFold]
  unfold specFold usage
  apply List.map_congr_left
  intro r _
  cases fiberVals (res.filterMap res3) r with
  | nil => rfl
  | cons v vs => rfl

/-- Non-negative reservations: the floor at 0 is invisible. -/
theorem maxList_zero_of_nonneg (v : Int) (vs : List Int) (hv : 0 ≤ v) :
    maxList 0 (v :: vs) = maxList v vs := by
  simp [maxList, List.foldl_cons, Int.max_eq_right hv]

/-! ## B. column selection against the grammar (well-formed rows) -/

theorem foldl_last_mem (vs : List Int) (a : Int) : vs.foldl (fun _ v => v) a ∈ a :: vs := by
  induction vs generalizing a with
  | nil => simp
  | cons v vs ih =>
    rw [List.foldl_cons]
    have := ih v
    simp only [List.mem_cons] at this ⊢
    rcases this with h | h
    · right; left; exact h
    · right; right; exact h

theorem mem_fiberVals {κ : Type} [DecidableEq κ] (W : List (κ × Int)) (k : κ) (w : Int) :
    w ∈ fiberVals W k ↔ (k, w) ∈ W := by
  simp only [fiberVals, List.mem_map, List.mem_filter, decide_eq_true_eq]
  constructor
  · rintro ⟨⟨k', w'⟩, ⟨hm, rfl⟩, rfl⟩; exact hm
  · intro h; exact ⟨(k, w), ⟨h, rfl⟩, rfl⟩

theorem dictOfWrites_eq {κ : Type} [DecidableEq κ] (W : List (κ × Int)) :
    dictOfWrites W = specFold id (fun _ v => v) W := by
  unfold dictOfWrites dictSet
  exact foldl_dictUpd_eq_specFold _ _ W

theorem keys_dictOfWrites_nodup {κ : Type} [DecidableEq κ] (W : List (κ × Int)) :
    (keys (dictOfWrites W)).Nodup := by
  rw [dictOfWrites_eq]
  simp only [specFold, keys, List.map_map, Function.comp_def, List.map_id']
  exact firstKeys_nodup _

/-- Every entry of the result dictionary was written. -/
theorem mem_of_mem_dictOfWrites {κ : Type} [DecidableEq κ] (W : List (κ × Int)) (k : κ) (v : Int)
    (h : (k, v) ∈ dictOfWrites W) : (k, v) ∈ W := by
  rw [dictOfWrites_eq] at h
  simp only [specFold, List.mem_map, Prod.mk.injEq] at h
  obtain ⟨k', hk', rfl, hv⟩ := h
  have hk : k' ∈ keys W := (mem_firstKeys _ _).mp hk'
  cases hf : fiberVals W k' with
  | nil => exact absurd hk ((fiberVals_eq_nil_iff W k').mp hf)
  | cons a vs =>
    rw [hf] at hv
    simp only [foldVals, id, Option.getD_some] at hv
    have := foldl_last_mem vs a
    rw [hv, ← hf] at this
    exact (mem_fiberVals W k' v).mp this

/-- If no key is written with two different values, every write is in the result dictionary. -/
theorem mem_dictOfWrites_of_mem {κ : Type} [DecidableEq κ] (W : List (κ × Int))
    (hfun : ∀ k v w, (k, v) ∈ W → (k, w) ∈ W → v = w) (k : κ) (v : Int) (h : (k, v) ∈ W) :
    (k, v) ∈ dictOfWrites W := by
  have hk : k ∈ firstKeys (keys W) :=
    (mem_firstKeys _ _).mpr (List.mem_map.mpr ⟨(k, v), h, rfl⟩)
  have hin : (k, (foldVals id (fun _ v => v) (fiberVals W k)).getD 0) ∈ dictOfWrites W := by
    rw [dictOfWrites_eq]
    exact List.mem_map.mpr ⟨k, hk, rfl⟩
  have := mem_of_mem_dictOfWrites W _ _ hin
  rw [hfun k v _ h this]
  exact hin

theorem nodup_of_map {α β} (f : α → β) (l : List α) (h : (l.map f).Nodup) : l.Nodup := by
  induction l with
  | nil => simp
  | cons x xs ih =>
    simp only [List.map_cons, List.nodup_cons, List.mem_map, not_exists, not_and] at h
    exact List.nodup_cons.mpr ⟨fun hx => h.1 x hx rfl, ih h.2⟩

theorem nodup_of_keys_nodup {κ : Type} (d : List (κ × Int)) (h : (d.map (·.1)).Nodup) : d.Nodup :=
  nodup_of_map _ _ h

theorem nodup_filterMap {α β} (g : α → Option β) (l : List α) (hn : l.Nodup)
    (hinj : ∀ a ∈ l, ∀ a' ∈ l, ∀ b, g a = some b → g a' = some b → a = a') : (l.filterMap g).Nodup := by
  induction l with
  | nil => simp
  | cons x xs ih =>
    have ih' := ih (List.nodup_cons.mp hn).2 (fun a ha a' ha' => hinj a (by simp [ha]) a' (by simp [ha']))
    rw [List.filterMap_cons]
    cases hx : g x with
    | none => exact ih'
    | some b =>
      simp only [List.nodup_cons, List.mem_filterMap, not_exists, not_and]
      refine ⟨?_, ih'⟩
      intro y hy hgy
      have := hinj y (by simp [hy]) x (by simp) b hgy hx
      subst this
      exact (List.nodup_cons.mp hn).1 hy

theorem cols4_nodup (kind : String) (withLeak : Bool) (row : Row) (ns : List String)
    (hn : (row.map (·.1)).Nodup) : (cols4 kind withLeak row ns).Nodup := by
  unfold cols4
  apply nodup_filterMap _ _ (nodup_of_map _ _ hn)
  rintro ⟨p, v⟩ _ ⟨p', v'⟩ _ b h1 h2
  match p, h1 with
  | [e, k, c, t, a], h1 =>
    simp only at h1
    split at h1
    · rename_i hc
      simp only [Option.some.injEq] at h1
      subst h1
      match p', h2 with
      | [e', k', c', t', a'], h2 =>
        simp only at h2
        split at h2
        · rename_i hc'
          simp only [Option.some.injEq, Prod.mk.injEq, Option.some.injEq] at h2
          obtain ⟨⟨rfl, rfl, rfl, rfl⟩, rfl⟩ := h2
          rw [hc.1, hc'.1]
        · cases h2
      | [e', k', c', a'], h2 =>
        simp only at h2
        split at h2
        · simp at h2
        · cases h2
      | [], h2 => simp at h2
      | [_], h2 => simp at h2
      | [_, _], h2 => simp at h2
      | [_, _, _], h2 => simp at h2
      | _ :: _ :: _ :: _ :: _ :: _ :: _, h2 => simp at h2
    · cases h1
  | [e, k, c, a], h1 =>
    simp only at h1
    split at h1
    · rename_i hc
      simp only [Option.some.injEq] at h1
      subst h1
      match p', h2 with
      | [e', k', c', t', a'], h2 =>
        simp only at h2
        split at h2
        · simp at h2
        · cases h2
      | [e', k', c', a'], h2 =>
        simp only at h2
        split at h2
        · rename_i hc'
          simp only [Option.some.injEq, Prod.mk.injEq] at h2
          obtain ⟨⟨rfl, rfl, _, rfl⟩, rfl⟩ := h2
          rw [hc.2.1, hc'.2.1]
        · cases h2
      | [], h2 => simp at h2
      | [_], h2 => simp at h2
      | [_, _], h2 => simp at h2
      | [_, _, _], h2 => simp at h2
      | _ :: _ :: _ :: _ :: _ :: _ :: _, h2 => simp at h2
    · cases h1
  | [], h1 => simp at h1
  | [_], h1 => simp at h1
  | [_, _], h1 => simp at h1
  | [_, _, _], h1 => simp at h1
  | _ :: _ :: _ :: _ :: _ :: _ :: _, h1 => simp at h1

/-- Two entries of the grammar's table with the same key carry the same value. -/
theorem cols4_functional (kind : String) (withLeak : Bool) (row : Row) (ns : List String)
    (hn : (row.map (·.1)).Nodup) (k : Key4) (v w : Int)
    (h1 : (k, v) ∈ cols4 kind withLeak row ns) (h2 : (k, w) ∈ cols4 kind withLeak row ns) : v = w := by
  rw [mem_cols4] at h1 h2
  rcases h1 with ⟨e, c, t, a, hr, _, rfl⟩ | ⟨_, e, c, hr, _, rfl⟩ <;>
    rcases h2 with ⟨e', c', t', a', hr', _, hk⟩ | ⟨_, e', c', hr', _, hk⟩
  · simp only [Prod.mk.injEq, Option.some.injEq] at hk
    obtain ⟨rfl, rfl, rfl, rfl⟩ := hk
    exact value_unique hn hr hr'
  · simp at hk
  · simp at hk
  · simp only [Prod.mk.injEq, and_true] at hk
    obtain ⟨rfl, rfl, _⟩ := hk
    exact value_unique hn hr hr'

/-- **energy()/actions() build exactly the grammar's table** (as a set of (key, value) entries —
the dictionary order is the code's loop order, the spec's is column order), on every row whose
names follow the grammar without collisions.

FULL STATEMENT (false for the current code, see `energy_tensor_named_like_component_counterexample`):
the same without `hwf`. -/
theorem table4_eq_spec_partial (kind : String) (withLeak : Bool) (row : Row) (es : Einsums)
    (hwf : wf4 kind withLeak row es = true) :
    ∃ T, table4 kind withLeak row es = .ok T ∧ T.Perm (cols4 kind withLeak row (names es)) := by
  obtain ⟨hWF, _⟩ := wf4_decode hwf
  refine ⟨dictOfWrites (writesOf kind withLeak row es), ?_, ?_⟩
  · unfold table4; rw [table4Writes_ok hwf]
  · have hfun : ∀ k v w, (k, v) ∈ writesOf kind withLeak row es → (k, w) ∈ writesOf kind withLeak row es → v = w := by
      intro k v w h1 h2
      exact cols4_functional kind withLeak row (names es) hWF.nodup k v w
        ((writes_iff_spec hwf k v).mp h1) ((writes_iff_spec hwf k w).mp h2)
    rw [List.perm_ext_iff_of_nodup (nodup_of_keys_nodup _ (keys_dictOfWrites_nodup _))
      (cols4_nodup kind withLeak row (names es) hWF.nodup)]
    rintro ⟨k, v⟩
    rw [← writes_iff_spec hwf]
    exact ⟨mem_of_mem_dictOfWrites _ k v, mem_dictOfWrites_of_mem _ hfun k v⟩

theorem perm_total {κ : Type} {T S : List (κ × Int)} (h : T.Perm S) : total T = total S := by
  unfold total
  induction h with
  | nil => rfl
  | cons x _ ih => simp only [List.map_cons, List.sum_cons, ih]
  | swap x y l => simp only [List.map_cons, List.sum_cons]; omega
  | trans _ _ ih1 ih2 => rw [ih1, ih2]

theorem perm_fiberSum {κ κ' : Type} [DecidableEq κ'] (f : κ → κ') {T S : List (κ × Int)} (h : T.Perm S)
    (k' : κ') : fiberSum f T k' = fiberSum f S k' := by
  have := perm_total (h.filter (fun kv => f kv.1 = k'))
  simpa [fiberSum, total] using this

/-- **energy(): every one of the 16 flag combinations sums to the sum of all per-Einsum energy
columns, and each entry of each breakdown is the fibre sum of the grammar's table.** -/
theorem energy_consistent_partial (row : Row) (es : Einsums) (hwf : wfEnergy row es = true) :
    ∃ T, energyTable row es = .ok T ∧ T.Perm (energyCols row (names es)) ∧
      (∀ mask, total (aggregate mask T) = total (energyCols row (names es))) ∧
      (∀ mask k', fiberSum (proj mask) T k' = fiberSum (proj mask) (energyCols row (names es)) k') := by
  obtain ⟨T, hT, hp⟩ := table4_eq_spec_partial "energy" true row es hwf
  exact ⟨T, hT, hp, fun mask => by rw [aggregate_sum, perm_total hp]; rfl, fun mask k' => perm_fiberSum _ hp k'⟩

/-- **actions(): the same for the 8 flag combinations (per_action is always kept).** -/
theorem actions_consistent_partial (row : Row) (es : Einsums) (hwf : wfActions row es = true) :
    ∃ T, actionsTable row es = .ok T ∧ T.Perm (actionCols row (names es)) ∧
      (∀ mask, total (aggregate mask T) = total (actionCols row (names es))) ∧
      (∀ mask k', fiberSum (proj mask) T k' = fiberSum (proj mask) (actionCols row (names es)) k') := by
  obtain ⟨T, hT, hp⟩ := table4_eq_spec_partial "action" false row es hwf
  exact ⟨T, hT, hp, fun mask => by rw [aggregate_sum, perm_total hp]; rfl, fun mask k' => perm_fiberSum _ hp k'⟩

/-- If the data satisfies the invariant "Total<SEP>energy = Σ per-Einsum energy columns" (established by
run_model/join, checked by the harness on real results), then energy() equals the Total column. -/
theorem energy_eq_total_column_partial (row : Row) (es : Einsums) (hwf : wfEnergy row es = true)
    (tot : Int) (hinv : totalCol row "energy" = some tot) (hsum : tot = total (energyCols row (names es))) :
    ∃ T, energyTable row es = .ok T ∧
      aggregate (false, false, false, false) T = [([], tot)] ∧ totalCol row "energy" = some tot := by
  obtain ⟨T, hT, hp, _, _⟩ := energy_consistent_partial row es hwf
  refine ⟨T, hT, ?_, hinv⟩
  simp only [aggregate, if_true, hsum, perm_total hp]

/-! ### latency() -/

def mk2 (e : String) (pv : Col × Int) : Option (Key2 × Int) :=
  match pv.1 with
  | [c] => some ((e, c), pv.2)
  | _ => none

def latWritesOf (row : Row) (es : List String) : List (Key2 × Int) :=
  (es.map (fun e => ((row.filterMap (selAt "latency" 1)).filterMap (selAt e 0)).filterMap (mk2 e))).flatten

theorem wfLatency_decode {row : Row} {es : List String} (h : wfLatency row es = true) :
    WF "latency" 1 row ∧ ∀ pv ∈ row, "latency" ∈ pv.1 → pv.1.head? ∈ es.map some → pv.1.length = 3 := by
  simp only [wfLatency, keywordAt, List.all_eq_true, Bool.and_eq_true, decide_eq_true_eq, Bool.decide_and,
    Bool.decide_or, Bool.or_eq_true] at h
  refine ⟨⟨h.1, ?_⟩, fun pv hpv hk hh => h.2.2 pv hpv ⟨hk, hh⟩⟩
  intro pv hpv hk
  rcases h.2.1 pv hpv with h1 | h1
  · exact absurd hk h1
  · exact h1

theorem latencyWrites_ok {row : Row} {es : List String} (h : wfLatency row es = true) :
    latencyWrites row es = .ok (latWritesOf row es) := by
  obtain ⟨hWF, hlen⟩ := wfLatency_decode h
  have hen : ((row.filterMap (selAt "latency" 1)).map (·.1)).Nodup := nodup_selected _ 1 row hWF.nodup
  unfold latencyWrites
  rw [access_kind_ok hWF]
  simp only
  rw [mapE_ok _ (fun e => ((row.filterMap (selAt "latency" 1)).filterMap (selAt e 0)).filterMap (mk2 e))]
  · rfl
  · intro e he
    rw [access_some_ok _ e 0 hen]
    · rfl
    · intro pv hpv hk hi
      obtain ⟨q1, v⟩ := pv
      obtain ⟨rest, rfl⟩ := idxOf_eq_zero hk hi
      have hrow := (mem_einsum_accessed hWF e rest v).mp
        ((mem_selAt e 0 _ _ v).mpr ⟨e :: rest, hpv, hk, hi, by simp⟩)
      have := hlen _ hrow (by simp) (by simp [he])
      simp only [List.length_cons] at this ⊢
      omega

theorem mem_latWritesOf {row : Row} {es : List String} (hWF : WF "latency" 1 row) (k : Key2) (v : Int) :
    (k, v) ∈ latWritesOf row es ↔ k.1 ∈ es ∧ ([k.1, "latency", k.2], v) ∈ row := by
  unfold latWritesOf
  constructor
  · intro h
    obtain ⟨l, hl, hkl⟩ := List.mem_flatten.mp h
    obtain ⟨e, he, rfl⟩ := List.mem_map.mp hl
    obtain ⟨⟨q, w⟩, hq, hmk⟩ := List.mem_filterMap.mp hkl
    have hrow := (mem_einsum_accessed hWF e q w).mp hq
    unfold mk2 at hmk
    match q, hmk, hrow with
    | [c], hmk, hrow =>
      simp only [Option.some.injEq, Prod.mk.injEq] at hmk
      obtain ⟨rfl, rfl⟩ := hmk
      exact ⟨he, hrow⟩
    | [], hmk, _ => simp at hmk
    | _ :: _ :: _, hmk, _ => simp at hmk
  · rintro ⟨he, hrow⟩
    obtain ⟨e, c⟩ := k
    apply List.mem_flatten.mpr
    refine ⟨_, List.mem_map.mpr ⟨e, he, rfl⟩, ?_⟩
    apply List.mem_filterMap.mpr
    exact ⟨([c], v), (mem_einsum_accessed hWF e _ v).mpr hrow, rfl⟩

theorem mem_latencyCols (row : Row) (es : List String) (k : Key2) (v : Int) :
    (k, v) ∈ latencyCols row es ↔ k.1 ∈ es ∧ ([k.1, "latency", k.2], v) ∈ row := by
  unfold latencyCols
  rw [List.mem_filterMap]
  constructor
  · rintro ⟨⟨p, w⟩, hm, hs⟩
    match p, hm, hs with
    | [e, k', c], hm, hs =>
      simp only at hs
      split at hs
      · rename_i hc
        simp only [Option.some.injEq, Prod.mk.injEq] at hs
        obtain ⟨rfl, rfl⟩ := hs
        obtain ⟨rfl, he⟩ := hc
        exact ⟨he, hm⟩
      · cases hs
    | [], _, hs => simp at hs
    | [_], _, hs => simp at hs
    | [_, _], _, hs => simp at hs
    | _ :: _ :: _ :: _ :: _, _, hs => simp at hs
  · rintro ⟨he, hm⟩
    obtain ⟨e, c⟩ := k
    exact ⟨([e, "latency", c], v), hm, by simp [he]⟩

theorem latencyCols_nodup (row : Row) (es : List String) (hn : (row.map (·.1)).Nodup) :
    (latencyCols row es).Nodup := by
  unfold latencyCols
  apply nodup_filterMap _ _ (nodup_of_map _ _ hn)
  rintro ⟨p, v⟩ _ ⟨p', v'⟩ _ b h1 h2
  match p, h1 with
  | [e, k, c], h1 =>
    simp only at h1
    split at h1
    · rename_i hc
      simp only [Option.some.injEq] at h1
      subst h1
      match p', h2 with
      | [e', k', c'], h2 =>
        simp only at h2
        split at h2
        · rename_i hc'
          simp only [Option.some.injEq, Prod.mk.injEq] at h2
          obtain ⟨⟨rfl, rfl⟩, rfl⟩ := h2
          rw [hc.1, hc'.1]
        · cases h2
      | [], h2 => simp at h2
      | [_], h2 => simp at h2
      | [_, _], h2 => simp at h2
      | _ :: _ :: _ :: _ :: _, h2 => simp at h2
    · cases h1
  | [], h1 => simp at h1
  | [_], h1 => simp at h1
  | [_, _], h1 => simp at h1
  | _ :: _ :: _ :: _ :: _, h1 => simp at h1

/-- **latency() reads exactly the `<einsum><SEP>latency<SEP><component>` columns** of the Einsums in
`einsum_names` (well-formed rows).  FULL STATEMENT without `hwf` is false:
`latency_einsum_named_Total_counterexample`. -/
theorem latency_eq_spec_partial (row : Row) (es : List String) (hwf : wfLatency row es = true) :
    ∃ T, latencyTable row es = .ok T ∧ T.Perm (latencyCols row es) := by
  obtain ⟨hWF, _⟩ := wfLatency_decode hwf
  refine ⟨dictOfWrites (latWritesOf row es), ?_, ?_⟩
  · unfold latencyTable; rw [latencyWrites_ok hwf]
  · have hfun : ∀ k v w, (k, v) ∈ latWritesOf row es → (k, w) ∈ latWritesOf row es → v = w := by
      intro k v w h1 h2
      exact value_unique hWF.nodup ((mem_latWritesOf hWF k v).mp h1).2 ((mem_latWritesOf hWF k w).mp h2).2
    rw [List.perm_ext_iff_of_nodup (nodup_of_keys_nodup _ (keys_dictOfWrites_nodup _))
      (latencyCols_nodup row es hWF.nodup)]
    rintro ⟨k, v⟩
    rw [mem_latencyCols, ← mem_latWritesOf hWF]
    exact ⟨mem_of_mem_dictOfWrites _ k v, mem_dictOfWrites_of_mem _ hfun k v⟩

/-! Σ_einsum max_component does not depend on the order of the table. -/

theorem le_maxList (v : Int) (vs : List Int) : ∀ x ∈ v :: vs, x ≤ maxList v vs := by
  unfold maxList
  induction vs generalizing v with
  | nil => intro x hx; simp only [List.mem_singleton] at hx; simp only [List.foldl_nil]; omega
  | cons w ws ih =>
    intro x hx
    rw [List.foldl_cons]
    have h1 := ih (max v w)
    simp only [List.mem_cons] at hx h1
    rcases hx with rfl | rfl | hx
    · have := h1 (max x w) (Or.inl rfl); omega
    · have := h1 (max v x) (Or.inl rfl); omega
    · exact h1 x (Or.inr hx)

theorem maxList_mem (v : Int) (vs : List Int) : maxList v vs ∈ v :: vs := by
  unfold maxList
  induction vs generalizing v with
  | nil => simp
  | cons w ws ih =>
    rw [List.foldl_cons]
    have h1 := ih (max v w)
    simp only [List.mem_cons] at h1 ⊢
    rcases h1 with h | h
    · rcases Int.le_total v w with hvw | hvw
      · right; left; rw [h]; omega
      · left; rw [h]; omega
    · right; right; exact h

theorem maxOpt_perm {l1 l2 : List Int} (h : l1.Perm l2) : maxOpt l1 = maxOpt l2 := by
  cases l1 with
  | nil => rw [List.nil_perm.mp h]
  | cons v vs =>
    cases l2 with
    | nil => exact absurd h.length_eq (by simp)
    | cons w ws =>
      simp only [maxOpt, Option.some.injEq]
      have a1 := le_maxList w ws _ ((h.mem_iff).mp (maxList_mem v vs))
      have a2 := le_maxList v vs _ ((h.mem_iff).mpr (maxList_mem w ws))
      omega

theorem perm_sum {l1 l2 : List Int} (h : l1.Perm l2) : l1.sum = l2.sum := by
  induction h with
  | nil => rfl
  | cons x _ ih => simp only [List.sum_cons, ih]
  | swap x y l => simp only [List.sum_cons]; omega
  | trans _ _ ih1 ih2 => rw [ih1, ih2]

theorem firstKeys_perm {κ : Type} [DecidableEq κ] {l1 l2 : List κ} (h : l1.Perm l2) :
    (firstKeys l1).Perm (firstKeys l2) := by
  rw [List.perm_ext_iff_of_nodup (firstKeys_nodup _) (firstKeys_nodup _)]
  intro a
  rw [mem_firstKeys, mem_firstKeys, h.mem_iff]

theorem latencyTotal_perm {T S : List (Key2 × Int)} (h : T.Perm S) :
    Spec.latencyTotal T = Spec.latencyTotal S := by
  have hg : ∀ e, (maxOpt (fiberVals (T.map (fun kv => (kv.1.1, kv.2))) e)).getD 0 =
      (maxOpt (fiberVals (S.map (fun kv => (kv.1.1, kv.2))) e)).getD 0 := by
    intro e
    rw [maxOpt_perm]
    exact ((h.map _).filter _).map _
  have hk : (firstKeys (T.map (·.1.1))).Perm (firstKeys (S.map (·.1.1))) := firstKeys_perm (h.map _)
  have hsum : ((breakdownMax T).map (·.2)).sum = ((breakdownMax S).map (·.2)).sum := by
    unfold breakdownMax
    simp only [List.map_map, Function.comp_def]
    rw [show (fun e => (maxOpt (fiberVals (T.map (fun kv => (kv.1.1, kv.2))) e)).getD 0) =
        (fun e => (maxOpt (fiberVals (S.map (fun kv => (kv.1.1, kv.2))) e)).getD 0) from funext hg]
    exact perm_sum (hk.map _)
  have hlen : (breakdownMax T).length = (breakdownMax S).length := by
    unfold breakdownMax
    simp only [List.length_map]
    exact hk.length_eq
  unfold Spec.latencyTotal
  cases hT : breakdownMax T with
  | nil =>
    cases hS : breakdownMax S with
    | nil => rfl
    | cons _ _ => rw [hT, hS] at hlen; simp at hlen
  | cons a as =>
    cases hS : breakdownMax S with
    | nil => rw [hT, hS] at hlen; simp at hlen
    | cons b bs => rw [hT, hS] at hsum; simp only [hsum]

/-- **latency() = Σ over Einsums of the maximum of the Einsum's `latency` columns.** -/
theorem latency_total_partial (row : Row) (es : List String) (hwf : wfLatency row es = true) :
    ∃ T, latencyTable row es = .ok T ∧
      Breakdown.latencyTotal T = Spec.latencyTotal (latencyCols row es) := by
  obtain ⟨T, hT, hp⟩ := latency_eq_spec_partial row es hwf
  exact ⟨T, hT, by rw [latency_agg, latencyTotal_perm hp]⟩

/-! ### resource_usage() -/

theorem wfUsage_decode {row : Row} (h : wfUsage row = true) :
    WF "reservation" 0 row ∧ ∀ pv ∈ row, "reservation" ∈ pv.1 →
      (2 ≤ pv.1.length ∧ (pv.1.length = 4 → pv.1[3]? = some "left" ∨ pv.1[3]? = some "right")) := by
  simp only [wfUsage, keywordAt, List.all_eq_true, Bool.and_eq_true, decide_eq_true_eq, Bool.decide_and,
    Bool.decide_or, Bool.or_eq_true] at h
  refine ⟨⟨h.1, ?_⟩, h.2.2⟩
  intro pv hpv hk
  rcases h.2.1 pv hpv with h1 | h1
  · exact absurd hk h1
  · exact h1

theorem filterMap_congr_mem {α β} (f g : α → Option β) (l : List α) (h : ∀ a ∈ l, f a = g a) :
    l.filterMap f = l.filterMap g := by
  induction l with
  | nil => rfl
  | cons x xs ih =>
    rw [List.filterMap_cons, List.filterMap_cons, h x (by simp), ih (fun a ha => h a (by simp [ha]))]

/-- **resource_usage() = maximum over the `reservation<SEP><memory><SEP>…` columns, per memory.**
FULL STATEMENT without `hwf` is false: `usage_einsum_named_reservation_counterexample`. -/
theorem usage_eq_spec_partial (row : Row) (hwf : wfUsage row = true) :
    usageTable row = .ok (usage (reservationCols row)) := by
  obtain ⟨hWF, hsh⟩ := wfUsage_decode hwf
  have hacc : access row "reservation" none = .ok (row.filterMap (selAt "reservation" 0)) := by
    apply access_none_ok row _ 0 hWF.nodup
    intro pv hpv hk
    obtain ⟨h1, h2⟩ := hWF.kw pv hpv hk
    exact ⟨h1, by omega, (hsh pv hpv hk).1⟩
  unfold usageTable
  rw [hacc]
  simp only
  rw [usage_max, List.filterMap_filterMap]
  congr 2
  unfold reservationCols
  apply filterMap_congr_mem
  rintro ⟨p, v⟩ hpv
  by_cases hk : "reservation" ∈ p
  · obtain ⟨hi, _⟩ := hWF.kw _ hpv hk
    obtain ⟨rest, rfl⟩ := idxOf_eq_zero hk hi
    have hs := (hsh _ hpv hk).2
    simp only [selAt, hk, hi, and_self, if_true, List.eraseIdx_cons_zero, Option.bind_some, res3]
    match rest, hs with
    | [], _ => rfl
    | [_], _ => rfl
    | [_, _], _ => rfl
    | [r, n, s], hs =>
      have := hs rfl
      simp only [List.getElem?_cons_succ, List.getElem?_cons_zero, Option.some.injEq] at this
      simp [this]
    | _ :: _ :: _ :: _ :: _, _ => rfl
  · simp only [selAt, hk, false_and, if_false, Option.bind_none]
    match p, hk with
    | [k, r, n, s], hk =>
      have : ¬ k = "reservation" := by
        intro he; apply hk; simp [he]
      simp [this]
    | [], _ => rfl
    | [_], _ => rfl
    | [_, _], _ => rfl
    | [_, _, _], _ => rfl
    | _ :: _ :: _ :: _ :: _ :: _, _ => rfl

end AFV.Breakdown.Main
