import AFV.Lemmas.NestCosts2
import AFV.Lemmas.NestCongr
/-!
# The usage part of `assemble` only reads `isToll` and `size` of the levels
-/
namespace AFV.Nest

/-- occupancy, usage, reservations, memBits, memUsage -/
def usageView (r : Result Rat) :=
  (r.occupancy, r.usage, r.reservations, r.memBits, r.memUsage)

theorem usage_congr (arch arch' : Arch Rat) (w w' : Workload Rat) (m m' : Mapping Rat) (bs : List (Buffet Rat))
    (hlen : arch'.levels.length = arch.levels.length)
    (htoll : ∀ l, (arch'.levels.getD l Level.dflt).isToll = (arch.levels.getD l Level.dflt).isToll)
    (hsize : ∀ l, (arch'.levels.getD l Level.dflt).size = (arch.levels.getD l Level.dflt).size) :
    usageView (assemble arch' w' m' bs) = usageView (assemble arch w m bs) := by
  simp only [usageView, assemble, levelIds, hlen, htoll, hsize]

end AFV.Nest
