import AFV.Lemmas.ParetoOrder
/-!
The window (block-nested-loop) filter: exact under a topological processing order; block minima and the
window-minimum quick check never change its answer, whatever the initial value of the block minima.
-/
namespace AFV.Pareto

theorem domV_irrefl (d : Nat) (r : Row) : domV d r r = false := by
  cases h : domV d r r
  · rfl
  · obtain ⟨_, k, _, hk⟩ := domV_iff.mp h
    simp [EV.lt_irrefl] at hk

theorem domV_trans {d : Nat} {a b c : Row} (h1 : domV d a b = true) (h2 : domV d b c = true) :
    domV d a c = true := by
  obtain ⟨l1, k, hk, s1⟩ := domV_iff.mp h1
  obtain ⟨l2, _⟩ := domV_iff.mp h2
  exact domV_iff.mpr ⟨fun j hj => EV.le_trans (l1 j hj) (l2 j hj), k, hk, EV.lt_of_lt_of_le s1 (l2 k hk)⟩

/-- processing order in which no later row dominates an earlier one. -/
def Topo (d : Nat) (xs : List Item) : Prop := xs.Pairwise fun a b => domV d b.2 a.2 = false

/-- what the plain window filter keeps, for an arbitrary initial window `w`. -/
theorem mem_bnlGo (d : Nat) (w : List Row) (xs : List Item) (hT : Topo d xs) (i : Nat) :
    i ∈ bnlGo d w xs ↔
      ∃ x ∈ xs, x.1 = i ∧ (w.any fun r => domV d r x.2) = false ∧
        (xs.any fun y => domV d y.2 x.2) = false := by
  induction xs generalizing w with
  | nil => simp [bnlGo]
  | cons x xs ih =>
    have hx : ∀ b ∈ xs, domV d b.2 x.2 = false := (List.pairwise_cons.mp hT).1
    have hT' : Topo d xs := (List.pairwise_cons.mp hT).2
    unfold bnlGo
    by_cases hw : (w.any fun r => domV d r x.2) = true
    · rw [if_pos hw, ih w hT']
      constructor
      · rintro ⟨y, hy, rfl, h1, h2⟩
        refine ⟨y, List.mem_cons_of_mem _ hy, rfl, h1, ?_⟩
        rw [List.any_cons, h2, Bool.or_false]
        cases hxy : domV d x.2 y.2
        · rfl
        · exfalso
          obtain ⟨r, hr, hrx⟩ := List.any_eq_true.mp hw
          have : (w.any fun r => domV d r y.2) = true :=
            List.any_eq_true.mpr ⟨r, hr, domV_trans hrx hxy⟩
          rw [h1] at this; exact Bool.noConfusion this
      · rintro ⟨y, hy, rfl, h1, h2⟩
        rcases List.mem_cons.mp hy with rfl | hy
        · rw [hw] at h1; exact Bool.noConfusion h1
        · rw [List.any_cons, Bool.or_eq_false_iff] at h2
          exact ⟨y, hy, rfl, h1, h2.2⟩
    · have hw' : (w.any fun r => domV d r x.2) = false := by simpa using hw
      rw [if_neg hw, List.mem_cons, ih _ hT']
      constructor
      · rintro (rfl | ⟨y, hy, rfl, h1, h2⟩)
        · refine ⟨x, List.mem_cons_self, rfl, hw', ?_⟩
          rw [List.any_cons, domV_irrefl, Bool.false_or]
          exact List.any_eq_false.mpr fun b hb => by simp [hx b hb]
        · rw [List.any_append, Bool.or_eq_false_iff] at h1
          refine ⟨y, List.mem_cons_of_mem _ hy, rfl, h1.1, ?_⟩
          rw [List.any_cons, h2, Bool.or_false]
          simpa using h1.2
      · rintro ⟨y, hy, rfl, h1, h2⟩
        rcases List.mem_cons.mp hy with rfl | hy
        · exact Or.inl rfl
        · right
          rw [List.any_cons, Bool.or_eq_false_iff] at h2
          refine ⟨y, hy, rfl, ?_, h2.2⟩
          rw [List.any_append, Bool.or_eq_false_iff]
          exact ⟨h1, by simpa using h2.1⟩

end AFV.Pareto
