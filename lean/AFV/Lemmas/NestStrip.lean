import AFV.Lemmas.NestSimple
import Mathlib.Tactic.Ring
import Mathlib.Data.Rat.Defs
import Mathlib.Algebra.Order.Field.Rat
/-!
# The real per-tensor analysis (on the mapping with Reservation nodes) computes the counts of `simple`

`Placed t pend m L` says that `L` is the single-tensor view of `m` for tensor `t` with Reservation nodes placed the way
the tracker state machine places them: every holder of `t` is followed, after loops only, by its own Reservation;
`pend = some l` means that the Reservation of the holder at level `l` above is still to come.
-/
namespace AFV.Nest

/-- Levels of the holders of `t` in a mapping, outermost first. -/
def holderLevels {α : Type} (t : TId) : Mapping α → List Lvl
  | [] => []
  | .storage l ts _ :: r => if ts.contains t then l :: holderLevels t r else holderLevels t r
  | .toll l ts _ :: r => if ts.contains t then l :: holderLevels t r else holderLevels t r
  | _ :: r => holderLevels t r

inductive Placed {α : Type} (t : TId) (nlv : Nat) : Option Lvl → Mapping α → List (RNode α) → Prop
  | compute (rest : Mapping α) (restL : List (RNode α)) : Placed t nlv none (.compute :: rest) (.node .compute :: restL)
  | loopNone (rv : RV) (tile : α) {m : Mapping α} {L : List (RNode α)} :
      Placed t nlv none m L → Placed t nlv none (.loop rv tile :: m) (.node (.loop rv tile) :: L)
  | loopSome (l : Lvl) (rv : RV) (tile : α) {m : Mapping α} {L : List (RNode α)} :
      Placed t nlv (some l) m L → Placed t nlv (some l) (.loop rv tile :: m) (.node (.loop rv tile) :: L)
  | res (l : Lvl) {m : Mapping α} {L : List (RNode α)} :
      l < nlv → l ∉ holderLevels t m → Placed t nlv none m L → Placed t nlv (some l) m (.reservation t l :: L)
  | skipS (l : Lvl) (ts : List TId) (lo : Bool) {m : Mapping α} {L : List (RNode α)} :
      ts.contains t = false → Placed t nlv none m L → Placed t nlv none (.storage l ts lo :: m) L
  | skipT (l : Lvl) (ts : List TId) (lo : Bool) {m : Mapping α} {L : List (RNode α)} :
      ts.contains t = false → Placed t nlv none m L → Placed t nlv none (.toll l ts lo :: m) L
  | holdS (l : Lvl) (ts ts' : List TId) (lo lo' : Bool) {m : Mapping α} {L : List (RNode α)} :
      ts.contains t = true → l < nlv → Placed t nlv (some l) m L →
      Placed t nlv none (.storage l ts lo :: m) (.node (.storage l ts' lo') :: L)
  | holdT (l : Lvl) (ts ts' : List TId) (lo lo' : Bool) {m : Mapping α} {L : List (RNode α)} :
      ts.contains t = true → l < nlv → Placed t nlv (some l) m L →
      Placed t nlv none (.toll l ts lo :: m) (.node (.toll l ts' lo') :: L)

def proj (tb : Table Rat) : CTable Rat := tb.map (fun e => (e.1, e.2.c))

theorem keys_simple (c : Ctx Rat) (m : Mapping Rat) :
    ∀ hp shape, ∀ k ∈ (simple c hp shape m).map (·.1), k = .comp ∨ ∃ l ∈ holderLevels c.t m, k = .mem l := by
  induction m with
  | nil => intro hp shape k hk; simp [simple] at hk
  | cons n r ih =>
    intro hp shape k hk
    cases n with
    | compute => simp [simple] at hk; exact Or.inl hk
    | loop rv tile =>
      simp only [simple, List.map_map] at hk
      have : (simple c hp (shape.set rv tile) r).map (·.1) = List.map ((fun x => x.1) ∘ fun x => (x.1, x.2.repeatTemporal (getShape shape rv / tile) (c.w.relevant c.t rv))) (simple c hp (shape.set rv tile) r) := by
        apply List.map_congr_left; intro a _; rfl
      rw [← this] at hk
      exact ih hp _ k hk
    | storage l ts lo =>
      simp only [simple, holderLevels] at hk ⊢
      split at hk
      · rename_i hc
        simp only [hc, if_true, List.map_cons, List.mem_cons] at hk ⊢
        rcases hk with hk | hk
        · exact Or.inr ⟨l, Or.inl rfl, hk⟩
        · rcases ih true shape k hk with h | ⟨l', hl', h⟩
          · exact Or.inl h
          · exact Or.inr ⟨l', Or.inr hl', h⟩
      · rename_i hc
        simp only [hc, Bool.false_eq_true, if_false]
        exact ih hp shape k hk
    | toll l ts lo =>
      simp only [simple, holderLevels] at hk ⊢
      split at hk
      · rename_i hc
        simp only [hc, if_true, List.map_cons, List.mem_cons] at hk ⊢
        rcases hk with hk | hk
        · exact Or.inr ⟨l, Or.inl rfl, hk⟩
        · rcases ih true shape k hk with h | ⟨l', hl', h⟩
          · exact Or.inl h
          · exact Or.inr ⟨l', Or.inr hl', h⟩
      · rename_i hc
        simp only [hc, Bool.false_eq_true, if_false]
        exact ih hp shape k hk

theorem find_none_of_not_mem (tb : Table Rat) (k : BKey) (h : k ∉ tb.map (·.1)) : Table.find tb k = none := by
  induction tb with
  | nil => rfl
  | cons e r ih =>
    obtain ⟨k', s⟩ := e
    simp only [List.map_cons, List.mem_cons, not_or] at h
    simp only [Table.find]
    rw [if_neg (fun h' => h.1 h'.symm)]
    exact ih h.2

theorem zero_repeat (n : Rat) (rel : Bool) : (Counts.zero : Counts Rat).repeatTemporal n rel = Counts.zero := by
  cases rel <;> simp [Counts.repeatTemporal, Counts.zero]

theorem proj_repeat (tb : Table Rat) (n : Rat) (rel : Bool) :
    proj (tb.map (fun (k, s) => (k, s.repeatTemporal n rel))) = (proj tb).map (fun (k, s) => (k, s.repeatTemporal n rel)) := by
  simp [proj, List.map_map, Stats.repeatTemporal]

end AFV.Nest

namespace AFV.Nest

theorem getElem?_lvl (arch : Arch Rat) (l : Lvl) (h : l < arch.levels.length) :
    arch.levels[l]? = some (lvlOf arch l) := by
  simp [lvlOf, List.getD, List.getElem?_eq_getElem h]

/-- What `analyzeNodes` yields on a placed list. -/
def Yields (c : Ctx Rat) (hp : Bool) (shape : List Rat) (m : Mapping Rat) (L : List (RNode Rat)) : Option Lvl → Prop
  | none => ∃ tb ops, analyzeNodes c hp shape L = some (tb, ops) ∧ proj tb = simple c hp shape m
  | some l => ∃ z tb ops, analyzeNodes c hp shape L = some ((.mem l, z) :: tb, ops) ∧ z.c = Counts.zero ∧
      proj tb = simple c hp shape m

theorem analyze_placed (c : Ctx Rat) (pend : Option Lvl) (m : Mapping Rat) (L : List (RNode Rat))
    (h : Placed c.t c.arch.levels.length pend m L) : ∀ hp shape, Yields c hp shape m L pend := by
  induction h with
  | compute rest restL =>
    intro hp shape
    exact ⟨_, _, rfl, rfl⟩
  | loopNone rv tile _ ih =>
    intro hp shape
    obtain ⟨tb, ops, h1, h2⟩ := ih hp (shape.set rv tile)
    refine ⟨_, _, by simp only [analyzeNodes, h1]; rfl, ?_⟩
    rw [proj_repeat, h2]; rfl
  | loopSome l rv tile _ ih =>
    intro hp shape
    obtain ⟨z, tb, ops, h1, h2, h3⟩ := ih hp (shape.set rv tile)
    refine ⟨_, _, _, by simp only [analyzeNodes, h1, List.map_cons]; rfl, ?_, ?_⟩
    · simp only [Stats.repeatTemporal, h2, zero_repeat]
    · rw [proj_repeat, h3]; rfl
  | @res l m' L' hl hnot _ ih =>
    intro hp shape
    obtain ⟨tb, ops, h1, h2⟩ := ih hp shape
    have hfind : Table.find tb (.mem l) = none := by
      apply find_none_of_not_mem
      intro hk
      have hk' : BKey.mem l ∈ (simple c hp shape m').map (·.1) := by
        rw [← h2]; simpa [proj, List.map_map] using hk
      rcases keys_simple c m' hp shape _ hk' with h | ⟨l', hl', h⟩
      · cases h
      · cases h; exact hnot hl'
    refine ⟨{ c := Counts.zero, maxOccupancy := tileSize shape c.spec.rvs * bitsPerValue (lvlOf c.arch l) c.t c.spec.bpv,
              nLoopsAbove := 0 }, tb, ops, ?_, rfl, h2⟩
    simp only [analyzeNodes, h1, getElem?_lvl c.arch l hl, hfind, Option.isSome_none, Bool.false_eq_true, if_false]
  | skipS l ts lo hc _ ih =>
    intro hp shape
    obtain ⟨tb, ops, h1, h2⟩ := ih hp shape
    exact ⟨tb, ops, h1, by simp only [simple, hc, Bool.false_eq_true, if_false]; exact h2⟩
  | skipT l ts lo hc _ ih =>
    intro hp shape
    obtain ⟨tb, ops, h1, h2⟩ := ih hp shape
    exact ⟨tb, ops, h1, by simp only [simple, hc, Bool.false_eq_true, if_false]; exact h2⟩
  | holdS l ts ts' lo lo' hc hl _ ih =>
    intro hp shape
    obtain ⟨z, tb, ops, h1, h2, h3⟩ := ih true shape
    refine ⟨(.mem l, holderStats (lvlOf c.arch l) c.t c.spec false hp shape z (tb.head?.map (·.2))) :: tb, ops, ?_, ?_⟩
    · simp only [analyzeNodes, h1, analyzeHolder, getElem?_lvl c.arch l hl, Table.find, if_true, Table.set, Table.child,
        Option.map_some]
      cases tb <;> rfl
    · simp only [proj, List.map_cons, simple, hc, if_true, holderStats, h2]
      congr 2
      all_goals first | exact h3 | (congr 1; rw [← h3]; cases tb <;> simp [proj])
  | holdT l ts ts' lo lo' hc hl _ ih =>
    intro hp shape
    obtain ⟨z, tb, ops, h1, h2, h3⟩ := ih true shape
    refine ⟨(.mem l, holderStats (lvlOf c.arch l) c.t c.spec true hp shape z (tb.head?.map (·.2))) :: tb, ops, ?_, ?_⟩
    · simp only [analyzeNodes, h1, analyzeHolder, getElem?_lvl c.arch l hl, Table.find, if_true, Table.set, Table.child,
        Option.map_some]
      cases tb <;> rfl
    · simp only [proj, List.map_cons, simple, hc, if_true, holderStats, h2]
      congr 2
      all_goals first | exact h3 | (congr 1; rw [← h3]; cases tb <;> simp [proj])

end AFV.Nest
