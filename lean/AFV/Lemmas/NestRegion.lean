import AFV.Spec.NestExec
import Mathlib.Tactic.Ring
import Mathlib.Tactic.Linarith
/-!
# Regions of the iteration space: tiles, sub-tiles of a loop, counting elements
-/
namespace AFV.NestExec
open AFV.Nest

/-! ## One dimension -/

theorem iv_sub {b tile n j x : Nat} (hj : j < n) (h1 : b + j * tile ≤ x) (h2 : x < b + j * tile + tile) :
    b ≤ x ∧ x < b + tile * n := by
  have : (j + 1) * tile ≤ n * tile := Nat.mul_le_mul_right tile hj
  constructor
  · omega
  · have h3 : (j + 1) * tile = j * tile + tile := by ring
    have h4 : tile * n = n * tile := by ring
    omega

theorem iv_disj {b tile j j' x : Nat} (h1 : b + j * tile ≤ x) (h2 : x < b + j * tile + tile)
    (h1' : b + j' * tile ≤ x) (h2' : x < b + j' * tile + tile) : j = j' := by
  by_contra hne
  rcases Nat.lt_or_gt_of_ne hne with h | h
  · have : (j + 1) * tile ≤ j' * tile := Nat.mul_le_mul_right tile h
    have h3 : (j + 1) * tile = j * tile + tile := by ring
    omega
  · have : (j' + 1) * tile ≤ j * tile := Nat.mul_le_mul_right tile h
    have h3 : (j' + 1) * tile = j' * tile + tile := by ring
    omega

theorem iv_cover {b tile n x : Nat} (ht : 0 < tile) (h1 : b ≤ x) (h2 : x < b + tile * n) :
    ∃ j, j < n ∧ b + j * tile ≤ x ∧ x < b + j * tile + tile := by
  refine ⟨(x - b) / tile, ?_, ?_, ?_⟩
  · rw [Nat.div_lt_iff_lt_mul ht]
    have : tile * n = n * tile := by ring
    omega
  · have := Nat.div_mul_le_self (x - b) tile
    omega
  · have := Nat.lt_div_mul_add (a := x - b) ht
    omega

/-! ## `getD` / `set` -/

theorem getD_set_ne {α} (l : List α) (i j : Nat) (v d : α) (h : i ≠ j) : (l.set i v).getD j d = l.getD j d := by
  simp [List.getD, h]

theorem getD_set_eq {α} (l : List α) (i : Nat) (v d : α) (h : i < l.length) : (l.set i v).getD i d = v := by
  simp [List.getD, h]

/-! ## Regions -/

/-- Entering a loop over a rank variable that does not index the tensor does not change the tile. -/
theorem inRegion_enter_irrel (e : Env) (rv : RV) (tile j : Nat) (rvs : List RV) (h : rv ∉ rvs) (x : Elem) :
    inRegion (e.enter rv tile j) rvs x = inRegion e rvs x := by
  induction rvs generalizing x with
  | nil => cases x <;> rfl
  | cons r rs ih =>
    cases x with
    | nil => rfl
    | cons y ys =>
      have hne : rv ≠ r := fun h' => h (by simp [h'])
      have hrs : rv ∉ rs := fun h' => h (by simp [h'])
      simp only [inRegion, Env.enter, getD_set_ne _ _ _ _ _ hne]
      rw [← ih hrs ys]
      rfl

theorem elems_enter_irrel (e : Env) (rv : RV) (tile j : Nat) (rvs : List RV) (h : rv ∉ rvs) :
    elems (e.enter rv tile j) rvs = elems e rvs := by
  induction rvs with
  | nil => rfl
  | cons r rs ih =>
    have hne : rv ≠ r := fun h' => h (by simp [h'])
    have hrs : rv ∉ rs := fun h' => h (by simp [h'])
    simp only [elems, ih hrs]
    simp only [Env.enter, getD_set_ne _ _ _ _ _ hne]

theorem mem_elems (e : Env) (rvs : List RV) (x : Elem) : x ∈ elems e rvs ↔ inRegion e rvs x = true := by
  induction rvs generalizing x with
  | nil => cases x <;> simp [elems, inRegion]
  | cons r rs ih =>
    cases x with
    | nil => simp [elems, inRegion]
    | cons y ys =>
      simp only [elems, inRegion, List.mem_flatMap, List.mem_range, List.mem_map, List.cons.injEq,
        Bool.and_eq_true, decide_eq_true_eq]
      constructor
      · rintro ⟨i, hi, z, hz, rfl, rfl⟩
        exact ⟨⟨by omega, by omega⟩, (ih z).1 hz⟩
      · rintro ⟨⟨h1, h2⟩, h3⟩
        exact ⟨y - e.base.getD r 0, by omega, ys, (ih ys).2 h3, by omega, rfl⟩

theorem elems_length (e : Env) (rvs : List RV) : (elems e rvs).length = tileSize e.shape rvs := by
  induction rvs with
  | nil => rfl
  | cons r rs ih =>
    simp only [elems, tileSize, getShape, List.length_flatMap, List.length_map, ih]
    simp [List.map_const', List.sum_replicate_nat]

/-- The sub-tile of iteration `j` lies inside the tile. -/
theorem inRegion_enter_sub (e : Env) (rv : RV) (tile n j : Nat) (rvs : List RV) (hnd : rvs.Nodup)
    (hb : rv < e.base.length) (hs : rv < e.shape.length) (hdiv : e.shape.getD rv 1 = tile * n) (hj : j < n)
    (x : Elem) (hx : inRegion (e.enter rv tile j) rvs x = true) : inRegion e rvs x = true := by
  induction rvs generalizing x with
  | nil => cases x <;> simp_all [inRegion]
  | cons r rs ih =>
    cases x with
    | nil => simp [inRegion] at hx
    | cons y ys =>
      have hnd' : rs.Nodup := (List.nodup_cons.1 hnd).2
      by_cases hr : rv = r
      · subst hr
        have hrs : rv ∉ rs := (List.nodup_cons.1 hnd).1
        simp only [inRegion, Env.enter, getD_set_eq _ _ _ _ hb, getD_set_eq _ _ _ _ hs, Bool.and_eq_true,
          decide_eq_true_eq] at hx
        obtain ⟨⟨h1, h2⟩, h3⟩ := hx
        have h3' : inRegion e rs ys = true := by
          rw [← inRegion_enter_irrel e rv tile j rs hrs ys]; exact h3
        have := iv_sub hj h1 h2
        simp only [inRegion, Bool.and_eq_true, decide_eq_true_eq, hdiv]
        exact ⟨⟨this.1, this.2⟩, h3'⟩
      · simp only [inRegion, Env.enter, getD_set_ne _ _ _ _ _ hr, Bool.and_eq_true, decide_eq_true_eq] at hx
        simp only [inRegion, Bool.and_eq_true, decide_eq_true_eq]
        exact ⟨hx.1, ih hnd' ys hx.2⟩

/-- Sub-tiles of different iterations of a loop over a rank variable of the tensor are disjoint. -/
theorem inRegion_enter_disj (e : Env) (rv : RV) (tile j j' : Nat) (rvs : List RV) (hmem : rv ∈ rvs)
    (hb : rv < e.base.length) (hs : rv < e.shape.length)
    (x : Elem) (hx : inRegion (e.enter rv tile j) rvs x = true) (hx' : inRegion (e.enter rv tile j') rvs x = true) :
    j = j' := by
  induction rvs generalizing x with
  | nil => simp at hmem
  | cons r rs ih =>
    cases x with
    | nil => simp [inRegion] at hx
    | cons y ys =>
      by_cases hr : rv = r
      · subst hr
        simp only [inRegion, Env.enter, getD_set_eq _ _ _ _ hb, getD_set_eq _ _ _ _ hs, Bool.and_eq_true,
          decide_eq_true_eq] at hx hx'
        exact iv_disj hx.1.1 hx.1.2 hx'.1.1 hx'.1.2
      · have hmem' : rv ∈ rs := by
          rcases List.mem_cons.1 hmem with h | h
          · exact absurd h hr
          · exact h
        simp only [inRegion, Bool.and_eq_true] at hx hx'
        exact ih hmem' ys hx.2 hx'.2

/-- Every element of the tile lies in the sub-tile of some iteration. -/
theorem inRegion_enter_cover (e : Env) (rv : RV) (tile n : Nat) (rvs : List RV) (hnd : rvs.Nodup)
    (hb : rv < e.base.length) (hs : rv < e.shape.length) (hdiv : e.shape.getD rv 1 = tile * n) (ht : 0 < tile)
    (hn : 0 < n) (x : Elem) (hx : inRegion e rvs x = true) : ∃ j, j < n ∧ inRegion (e.enter rv tile j) rvs x = true := by
  induction rvs generalizing x with
  | nil => exact ⟨0, hn, by cases x <;> simp_all [inRegion]⟩
  | cons r rs ih =>
    cases x with
    | nil => simp [inRegion] at hx
    | cons y ys =>
      have hnd' : rs.Nodup := (List.nodup_cons.1 hnd).2
      simp only [inRegion, Bool.and_eq_true, decide_eq_true_eq] at hx
      by_cases hr : rv = r
      · subst hr
        have hrs : rv ∉ rs := (List.nodup_cons.1 hnd).1
        rw [hdiv] at hx
        obtain ⟨j, hj, h1, h2⟩ := iv_cover ht hx.1.1 hx.1.2
        refine ⟨j, hj, ?_⟩
        simp only [inRegion, Env.enter, getD_set_eq _ _ _ _ hb, getD_set_eq _ _ _ _ hs, Bool.and_eq_true,
          decide_eq_true_eq]
        refine ⟨⟨h1, h2⟩, ?_⟩
        have := inRegion_enter_irrel e rv tile j rs hrs ys
        simp only [Env.enter] at this
        rw [this]; exact hx.2
      · obtain ⟨j, hj, h⟩ := ih hnd' ys hx.2
        refine ⟨j, hj, ?_⟩
        simp only [inRegion, Env.enter, getD_set_ne _ _ _ _ _ hr, Bool.and_eq_true, decide_eq_true_eq]
        exact ⟨hx.1, h⟩

/-! ## Counting never-written elements -/

theorem countP_fresh (e : Env) (rvs : List RV) (w : Elem → Bool)
    (h : ∀ x, inRegion e rvs x = true → w x = false) :
    (elems e rvs).countP (fun x => !w x) = (elems e rvs).length := by
  rw [List.countP_eq_length]
  intro x hx
  simp [h x ((mem_elems e rvs x).1 hx)]

theorem countP_stale (e : Env) (rvs : List RV) (w : Elem → Bool)
    (h : ∀ x, inRegion e rvs x = true → w x = true) :
    (elems e rvs).countP (fun x => !w x) = 0 := by
  rw [List.countP_eq_zero]
  intro x hx
  simp [h x ((mem_elems e rvs x).1 hx)]

end AFV.NestExec
