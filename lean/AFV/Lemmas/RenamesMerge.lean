import AFV.Lemmas.SetAlg
/-!
The "append if not yet named" merge of rename lists (`mergeInto`) versus first-definition-wins
(`dedupRenames`, `find?`).
-/
namespace AFV.Renames
open AFV.SetAlg AFV.SetSpec

theorem hasName_iff {l : List Rename} {n : Name} : hasName l n = true ↔ ∃ r ∈ l, r.name = n := by
  simp [hasName]

theorem hasName_append (a b : List Rename) (n : Name) :
    hasName (a ++ b) n = (hasName a n || hasName b n) := by
  simp [hasName]

theorem mergeInto_nil (dst : List Rename) : mergeInto dst [] = dst := rfl

theorem mergeInto_cons (dst : List Rename) (r : Rename) (src : List Rename) :
    mergeInto dst (r :: src) =
      mergeInto (if hasName dst r.name then dst else dst ++ [r]) src := rfl

theorem mergeInto_append (dst a b : List Rename) :
    mergeInto dst (a ++ b) = mergeInto (mergeInto dst a) b := by
  simp [mergeInto, List.foldl_append]

/-- lookup by name does not see the difference between merging and concatenating -/
theorem find_mergeInto (dst src : List Rename) (n : Name) :
    (mergeInto dst src).find? (fun r => r.name == n) = (dst ++ src).find? (fun r => r.name == n) := by
  induction src generalizing dst with
  | nil => simp [mergeInto_nil]
  | cons r rest ih =>
    rw [mergeInto_cons, ih]
    by_cases hk : hasName dst r.name = true
    · simp only [hk, if_true, List.find?_append, List.find?_cons]
      by_cases hrn : (r.name == n) = true
      · obtain ⟨q, hq, hqn⟩ := hasName_iff.mp hk
        have hrn' : r.name = n := by simpa using hrn
        cases hf : List.find? (fun r => r.name == n) dst with
        | some x => simp
        | none =>
          rw [List.find?_eq_none] at hf
          have := hf q hq
          simp [hqn, hrn'] at this
      · simp [hrn]
    · simp only [hk, Bool.false_eq_true, if_false, List.append_assoc, List.singleton_append]

/-- the merge, in closed form -/
theorem mergeInto_eq (dst src : List Rename) :
    mergeInto dst src = dst ++ (dedupRenames src).filter (fun r => !hasName dst r.name) := by
  induction src generalizing dst with
  | nil => simp [mergeInto_nil, dedupRenames]
  | cons r rest ih =>
    rw [mergeInto_cons, ih]
    by_cases hk : hasName dst r.name = true
    · simp only [hk, if_true, dedupRenames, List.filter_cons, Bool.not_true, Bool.false_eq_true,
        if_false, List.filter_filter]
      congr 1
      apply List.filter_congr
      intro x _
      by_cases hx : x.name = r.name
      · simp [hx, hk]
      · simp [hx]
    · have hk' : hasName dst r.name = false := by simpa using hk
      simp only [hk', Bool.false_eq_true, if_false, dedupRenames, List.filter_cons, Bool.not_false,
        if_true, List.append_assoc, List.singleton_append, List.filter_filter]
      congr 2
      apply List.filter_congr
      intro x _
      rw [hasName_append]
      simp only [hasName, List.any_cons, List.any_nil, Bool.or_false, Bool.not_or]
      by_cases hx : x.name = r.name
      · simp [hx]
      · have : (r.name == x.name) = false := by simpa using fun h => hx h.symm
        simp [hx, this, Bool.and_comm]

theorem mergeInto_nil_left (src : List Rename) : mergeInto [] src = dedupRenames src := by
  rw [mergeInto_eq]; simp [hasName]

theorem hasName_dedupRenames (l : List Rename) (n : Name) :
    hasName (dedupRenames l) n = hasName l n := by
  induction l with
  | nil => rfl
  | cons r rest ih =>
    simp only [dedupRenames, hasName, List.any_cons] at ih ⊢
    by_cases hrn : r.name = n
    · simp [hrn]
    · have h1 : (r.name == n) = false := by simpa using hrn
      simp only [h1, Bool.false_or]
      rw [← ih]
      rw [Bool.eq_iff_iff]
      simp only [List.any_eq_true, List.mem_filter, Bool.not_eq_true', beq_iff_eq]
      constructor
      · rintro ⟨x, ⟨hx, _⟩, hxn⟩; exact ⟨x, hx, hxn⟩
      · rintro ⟨x, hx, hxn⟩
        refine ⟨x, ⟨hx, ?_⟩, hxn⟩
        simpa [hxn] using fun h : n = r.name => hrn h.symm

theorem dedupRenames_append (a b : List Rename) :
    dedupRenames (a ++ b) = dedupRenames a ++ (dedupRenames b).filter (fun r => !hasName a r.name) := by
  rw [← mergeInto_nil_left, mergeInto_append, mergeInto_nil_left, mergeInto_eq]
  congr 1
  apply List.filter_congr
  intro x _
  rw [hasName_dedupRenames]

theorem dedupRenames_of_nodup {l : List Rename} (h : (l.map (·.name)).Nodup) : dedupRenames l = l := by
  induction l with
  | nil => rfl
  | cons r rest ih =>
    simp only [List.map_cons, List.nodup_cons] at h
    simp only [dedupRenames, ih h.2]
    congr 1
    rw [List.filter_eq_self]
    intro x hx
    have : x.name ≠ r.name := fun hxr => h.1 (hxr ▸ List.mem_map.mpr ⟨x, hx, rfl⟩)
    simpa using this

theorem nodup_dedupRenames (l : List Rename) : ((dedupRenames l).map (·.name)).Nodup := by
  induction l with
  | nil => simp [dedupRenames]
  | cons r rest ih =>
    simp only [dedupRenames, List.map_cons, List.nodup_cons, List.mem_map, List.mem_filter]
    refine ⟨?_, (ih.sublist ((List.filter_sublist).map _))⟩
    rintro ⟨x, ⟨_, hx⟩, hxn⟩
    simp [hxn] at hx

theorem dedupRenames_idem (l : List Rename) : dedupRenames (dedupRenames l) = dedupRenames l :=
  dedupRenames_of_nodup (nodup_dedupRenames l)

/-! ## `get_renames_for_einsum` (entries named like the Einsum, then "default"; `taken` per entry) -/

theorem find_filter_of_imp {l : List Rename} {p : Rename → Bool} {n : Name}
    (h : ∀ r ∈ l, r.name = n → p r = true) :
    (l.filter p).find? (fun r => r.name == n) = l.find? (fun r => r.name == n) := by
  induction l with
  | nil => rfl
  | cons r rest ih =>
    have ih' := ih (fun x hx => h x (List.mem_cons_of_mem _ hx))
    by_cases hrn : r.name = n
    · have hp : p r = true := h r (by simp) hrn
      simp [List.filter_cons, hp, List.find?_cons, hrn]
    · have hb : (r.name == n) = false := by simpa using hrn
      by_cases hp : p r = true
      · simp [List.filter_cons, hp, List.find?_cons, hb, ih']
      · simp [List.filter_cons, hp, List.find?_cons, hb, ih']

theorem find_filter_none {l : List Rename} {p : Rename → Bool} {n : Name}
    (h : ∀ r ∈ l, r.name = n → p r = false) :
    (l.filter p).find? (fun r => r.name == n) = none := by
  rw [List.find?_eq_none]
  intro r hr
  obtain ⟨hr1, hr2⟩ := List.mem_filter.mp hr
  intro hn
  have := h r hr1 (by simpa using hn)
  simp [this] at hr2

/-- the definition of `n` merged so far: tensor renames are looked at first -/
def foundIn (n : Name) (acc : EinsumRename) : Option Rename :=
  (acc.tensorAccesses.find? (fun r => r.name == n)).or (acc.rankVariables.find? (fun r => r.name == n))

theorem find_none_of_hasName_false {l : List Rename} {n : Name} (h : hasName l n = false) :
    l.find? (fun r => r.name == n) = none := by
  rw [List.find?_eq_none]
  intro r hr hn
  have : hasName l n = true := hasName_iff.mpr ⟨r, hr, by simpa using hn⟩
  simp [h] at this

theorem foundIn_mergeEntry (acc er : EinsumRename) (n : Name) :
    foundIn n (mergeEntry acc er) =
      (foundIn n acc).or ((er.tensorAccesses ++ er.rankVariables).find? (fun r => r.name == n)) := by
  simp only [foundIn, mergeEntry, List.find?_append]
  cases hk : hasName (acc.tensorAccesses ++ acc.rankVariables) n with
  | true =>
    have h1 : (List.filter (fun r => !hasName (acc.tensorAccesses ++ acc.rankVariables) r.name)
        er.tensorAccesses).find? (fun r => r.name == n) = none :=
      find_filter_none (fun r _ hn => by simp [hn, hk])
    have h2 : (List.filter (fun r => !hasName (acc.tensorAccesses ++ acc.rankVariables) r.name)
        er.rankVariables).find? (fun r => r.name == n) = none :=
      find_filter_none (fun r _ hn => by simp [hn, hk])
    rw [h1, h2]
    obtain ⟨q, hq, hqn⟩ := hasName_iff.mp hk
    have hsome : ((acc.tensorAccesses.find? (fun r => r.name == n)).or
        (acc.rankVariables.find? (fun r => r.name == n))).isSome = true := by
      rw [← List.find?_append, List.find?_isSome]
      exact ⟨q, hq, by simpa using hqn⟩
    cases hf : (acc.tensorAccesses.find? (fun r => r.name == n)).or
        (acc.rankVariables.find? (fun r => r.name == n)) with
    | none => simp [hf] at hsome
    | some x => simp [hf]
  | false =>
    rw [hasName_append, Bool.or_eq_false_iff] at hk
    have h1 : (List.filter (fun r => !hasName (acc.tensorAccesses ++ acc.rankVariables) r.name)
        er.tensorAccesses).find? (fun r => r.name == n) = er.tensorAccesses.find? (fun r => r.name == n) :=
      find_filter_of_imp (fun r _ hn => by simp [hn, hasName_append, hk.1, hk.2])
    have h2 : (List.filter (fun r => !hasName (acc.tensorAccesses ++ acc.rankVariables) r.name)
        er.rankVariables).find? (fun r => r.name == n) = er.rankVariables.find? (fun r => r.name == n) :=
      find_filter_of_imp (fun r _ hn => by simp [hn, hasName_append, hk.1, hk.2])
    rw [h1, h2, find_none_of_hasName_false hk.1, find_none_of_hasName_false hk.2]
    simp

theorem foundIn_foldl (entries : List EinsumRename) (acc : EinsumRename) (n : Name) :
    foundIn n (entries.foldl mergeEntry acc) =
      (foundIn n acc).or ((entries.flatMap (fun er => er.tensorAccesses ++ er.rankVariables)).find?
        (fun r => r.name == n)) := by
  induction entries generalizing acc with
  | nil => simp
  | cons er rest ih =>
    rw [List.foldl_cons, ih, foundIn_mergeEntry, List.flatMap_cons, Option.or_assoc]
    simp only [List.find?_append]

/-- **which definition `get_renames_for_einsum` keeps** -/
theorem foundIn_getRenames (rs : List EinsumRename) (e n : Name) :
    foundIn n (getRenamesForEinsum rs e) =
      ((topLevelFor rs e).find? (fun r => r.name == n)).or
        ((topLevelFor rs "default").find? (fun r => r.name == n)) := by
  simp only [getRenamesForEinsum, foundIn_foldl, topLevelFor]
  simp [foundIn, Option.or_assoc]

/-! ## whole-list form, when no name is used in both kinds -/

/-- `dst` followed by the elements of `l` whose name `dst` does not have yet -/
def mergeT (a l : List Rename) : List Rename := a ++ l.filter (fun r => !hasName a r.name)

theorem dedupRenames_filter_name (q : Name → Bool) (l : List Rename) :
    dedupRenames (l.filter (fun r => q r.name)) = (dedupRenames l).filter (fun r => q r.name) := by
  induction l with
  | nil => rfl
  | cons r rest ih =>
    by_cases hq : q r.name = true
    · simp only [List.filter_cons, hq, if_true, dedupRenames, ih, List.filter_filter]
      congr 1
      apply List.filter_congr
      intro x _
      exact Bool.and_comm _ _
    · have hq' : q r.name = false := by simpa using hq
      simp only [List.filter_cons, hq', Bool.false_eq_true, if_false, dedupRenames, ih,
        List.filter_filter]
      apply List.filter_congr
      intro x _
      by_cases hx : x.name = r.name
      · simp [hx, hq']
      · simp [hx]

theorem dedupRenames_congr_left {x x' : List Rename} (y : List Rename)
    (h : dedupRenames x = dedupRenames x') : dedupRenames (x ++ y) = dedupRenames (x' ++ y) := by
  rw [dedupRenames_append, dedupRenames_append, h]
  congr 1
  apply List.filter_congr
  intro r _
  rw [← hasName_dedupRenames x, ← hasName_dedupRenames x', h]

theorem dedupRenames_congr_right (x : List Rename) {y y' : List Rename}
    (h : dedupRenames y = dedupRenames y') : dedupRenames (x ++ y) = dedupRenames (x ++ y') := by
  rw [dedupRenames_append, dedupRenames_append, h]

theorem dedupRenames_mergeT (a l : List Rename) : dedupRenames (mergeT a l) = dedupRenames (a ++ l) := by
  rw [mergeT, dedupRenames_append, dedupRenames_append,
    dedupRenames_filter_name (fun n => !hasName a n), List.filter_filter]
  congr 1
  apply List.filter_congr
  intro x _
  simp

theorem dedupRenames_foldl_mergeT (f : EinsumRename → List Rename) (entries : List EinsumRename)
    (a0 : List Rename) :
    dedupRenames (entries.foldl (fun a er => mergeT a (f er)) a0) =
      dedupRenames (a0 ++ entries.flatMap f) := by
  induction entries generalizing a0 with
  | nil => simp
  | cons er rest ih =>
    rw [List.foldl_cons, ih, List.flatMap_cons, ← List.append_assoc]
    exact dedupRenames_congr_left _ (dedupRenames_mergeT a0 (f er))

/-- everything merged so far comes from the top-level list, kind by kind -/
def FromRs (rs : List EinsumRename) (acc : EinsumRename) : Prop :=
  (∀ r ∈ acc.tensorAccesses, ∃ er ∈ rs, r ∈ er.tensorAccesses) ∧
  (∀ r ∈ acc.rankVariables, ∃ er ∈ rs, r ∈ er.rankVariables)

theorem mergeEntry_kindsDisjoint {rs : List EinsumRename} (hkd : KindsDisjoint rs)
    {acc er : EinsumRename} (her : er ∈ rs) (hacc : FromRs rs acc) :
    (mergeEntry acc er).tensorAccesses = mergeT acc.tensorAccesses er.tensorAccesses ∧
    (mergeEntry acc er).rankVariables = mergeT acc.rankVariables er.rankVariables ∧
    FromRs rs (mergeEntry acc er) := by
  have hT : ∀ r ∈ er.tensorAccesses, hasName acc.rankVariables r.name = false := by
    intro r hr
    rw [Bool.eq_false_iff]
    intro h
    obtain ⟨q, hq, hqn⟩ := hasName_iff.mp h
    obtain ⟨er2, her2, hq2⟩ := hacc.2 q hq
    exact hkd er her er2 her2 r hr q hq2 hqn.symm
  have hR : ∀ r ∈ er.rankVariables, hasName acc.tensorAccesses r.name = false := by
    intro r hr
    rw [Bool.eq_false_iff]
    intro h
    obtain ⟨q, hq, hqn⟩ := hasName_iff.mp h
    obtain ⟨er1, her1, hq1⟩ := hacc.1 q hq
    exact hkd er1 her1 er her q hq1 r hr hqn
  refine ⟨?_, ?_, ?_, ?_⟩
  · simp only [mergeEntry, mergeT]
    congr 1
    apply List.filter_congr
    intro r hr
    simp [hasName_append, hT r hr]
  · simp only [mergeEntry, mergeT]
    congr 1
    apply List.filter_congr
    intro r hr
    simp [hasName_append, hR r hr]
  · intro r hr
    simp only [mergeEntry, List.mem_append, List.mem_filter] at hr
    rcases hr with hr | ⟨hr, _⟩
    · exact hacc.1 r hr
    · exact ⟨er, her, hr⟩
  · intro r hr
    simp only [mergeEntry, List.mem_append, List.mem_filter] at hr
    rcases hr with hr | ⟨hr, _⟩
    · exact hacc.2 r hr
    · exact ⟨er, her, hr⟩

theorem foldl_mergeEntry_kindsDisjoint {rs : List EinsumRename} (hkd : KindsDisjoint rs)
    (entries : List EinsumRename) (hsub : ∀ er ∈ entries, er ∈ rs) (acc : EinsumRename)
    (hacc : FromRs rs acc) :
    (entries.foldl mergeEntry acc).tensorAccesses =
      entries.foldl (fun a er => mergeT a er.tensorAccesses) acc.tensorAccesses ∧
    (entries.foldl mergeEntry acc).rankVariables =
      entries.foldl (fun a er => mergeT a er.rankVariables) acc.rankVariables := by
  induction entries generalizing acc with
  | nil => exact ⟨rfl, rfl⟩
  | cons er rest ih =>
    obtain ⟨h1, h2, h3⟩ := mergeEntry_kindsDisjoint hkd (hsub er (by simp)) hacc
    have := ih (fun x hx => hsub x (List.mem_cons_of_mem _ hx)) (mergeEntry acc er) h3
    simp only [List.foldl_cons]
    rw [this.1, this.2, h1, h2]
    exact ⟨rfl, rfl⟩

theorem getRenames_kindsDisjoint {rs : List EinsumRename} (hkd : KindsDisjoint rs) (e : Name) :
    dedupRenames (getRenamesForEinsum rs e).tensorAccesses =
      dedupRenames (topT rs e ++ topT rs "default") ∧
    dedupRenames (getRenamesForEinsum rs e).rankVariables =
      dedupRenames (topR rs e ++ topR rs "default") := by
  have hfold := foldl_mergeEntry_kindsDisjoint hkd
    (rs.filter (fun er => er.name == e) ++ rs.filter (fun er => er.name == "default"))
    (by intro er her
        rcases List.mem_append.mp her with h | h <;> exact (List.mem_filter.mp h).1)
    { name := e, tensorAccesses := [], rankVariables := [] }
    ⟨by simp, by simp⟩
  simp only [getRenamesForEinsum, ← List.foldl_append]
  rw [hfold.1, hfold.2, dedupRenames_foldl_mergeT, dedupRenames_foldl_mergeT]
  simp [topT, topR, List.flatMap_append]

theorem mergeInto_mergeInto_eq {l : List Rename} (hnd : (l.map (·.name)).Nodup) (a b : List Rename) :
    mergeInto (mergeInto l a) b = dedupRenames (l ++ (a ++ b)) := by
  rw [← mergeInto_append, mergeInto_eq, dedupRenames_append l, dedupRenames_of_nodup hnd]

end AFV.Renames
