import AFV.Lemmas.SetAlg
/-!
The "append if not yet named" merge of rename lists (`mergeInto`) versus first-definition-wins
(`dedupRenames`, `find?`).
-/
namespace AFV.Renames
open AFV.SetAlg AFV.SetSpec

theorem hasName_iff {l : List Rename} {n : Name} : hasName l n = true ↔ ∃ r ∈ l, r.name = n := by
  simp [hasName]

theorem hasName_append (a b : List Rename) (n : Name) :
    hasName (a ++ b) n = (hasName a n || hasName b n) := by
  simp [hasName]

theorem mergeInto_nil (dst : List Rename) : mergeInto dst [] = dst := rfl

theorem mergeInto_cons (dst : List Rename) (r : Rename) (src : List Rename) :
    mergeInto dst (r :: src) =
      mergeInto (if hasName dst r.name then dst else dst ++ [r]) src := rfl

theorem mergeInto_append (dst a b : List Rename) :
    mergeInto dst (a ++ b) = mergeInto (mergeInto dst a) b := by
  simp [mergeInto, List.foldl_append]

/-- lookup by name does not see the difference between merging and concatenating -/
theorem find_mergeInto (dst src : List Rename) (n : Name) :
    (mergeInto dst src).find? (fun r => r.name == n) = (dst ++ src).find? (fun r => r.name == n) := by
  induction src generalizing dst with
  | nil => simp [mergeInto_nil]
  | cons r rest ih =>
    rw [mergeInto_cons, ih]
    by_cases hk : hasName dst r.name = true
    · simp only [hk, if_true, List.find?_append, List.find?_cons]
      by_cases hrn : (r.name == n) = true
      · obtain ⟨q, hq, hqn⟩ := hasName_iff.mp hk
        have hrn' : r.name = n := by simpa using hrn
        cases hf : List.find? (fun r => r.name == n) dst with
        | some x => simp
        | none =>
          rw [List.find?_eq_none] at hf
          have := hf q hq
          simp [hqn, hrn'] at this
      · simp [hrn]
    · simp only [hk, Bool.false_eq_true, if_false, List.append_assoc, List.singleton_append]

/-- the merge, in closed form -/
theorem mergeInto_eq (dst src : List Rename) :
    mergeInto dst src = dst ++ (dedupRenames src).filter (fun r => !hasName dst r.name) := by
  induction src generalizing dst with
  | nil => simp [mergeInto_nil, dedupRenames]
  | cons r rest ih =>
    rw [mergeInto_cons, ih]
    by_cases hk : hasName dst r.name = true
    · simp only [hk, if_true, dedupRenames, List.filter_cons, Bool.not_true, Bool.false_eq_true,
        if_false, List.filter_filter]
      congr 1
      apply List.filter_congr
      intro x _
      by_cases hx : x.name = r.name
      · simp [hx, hk]
      · simp [hx]
    · have hk' : hasName dst r.name = false := by simpa using hk
      simp only [hk', Bool.false_eq_true, if_false, dedupRenames, List.filter_cons, Bool.not_false,
        if_true, List.append_assoc, List.singleton_append, List.filter_filter]
      congr 2
      apply List.filter_congr
      intro x _
      rw [hasName_append]
      simp only [hasName, List.any_cons, List.any_nil, Bool.or_false, Bool.not_or]
      by_cases hx : x.name = r.name
      · simp [hx]
      · have : (r.name == x.name) = false := by simpa using fun h => hx h.symm
        simp [hx, this, Bool.and_comm]

theorem mergeInto_nil_left (src : List Rename) : mergeInto [] src = dedupRenames src := by
  rw [mergeInto_eq]; simp [hasName]

theorem hasName_dedupRenames (l : List Rename) (n : Name) :
    hasName (dedupRenames l) n = hasName l n := by
  induction l with
  | nil => rfl
  | cons r rest ih =>
    simp only [dedupRenames, hasName, List.any_cons] at ih ⊢
    by_cases hrn : r.name = n
    · simp [hrn]
    · have h1 : (r.name == n) = false := by simpa using hrn
      simp only [h1, Bool.false_or]
      rw [← ih]
      rw [Bool.eq_iff_iff]
      simp only [List.any_eq_true, List.mem_filter, Bool.not_eq_true', beq_iff_eq]
      constructor
      · rintro ⟨x, ⟨hx, _⟩, hxn⟩; exact ⟨x, hx, hxn⟩
      · rintro ⟨x, hx, hxn⟩
        refine ⟨x, ⟨hx, ?_⟩, hxn⟩
        simpa [hxn] using fun h : n = r.name => hrn h.symm

theorem dedupRenames_append (a b : List Rename) :
    dedupRenames (a ++ b) = dedupRenames a ++ (dedupRenames b).filter (fun r => !hasName a r.name) := by
  rw [← mergeInto_nil_left, mergeInto_append, mergeInto_nil_left, mergeInto_eq]
  congr 1
  apply List.filter_congr
  intro x _
  rw [hasName_dedupRenames]

theorem dedupRenames_of_nodup {l : List Rename} (h : (l.map (·.name)).Nodup) : dedupRenames l = l := by
  induction l with
  | nil => rfl
  | cons r rest ih =>
    simp only [List.map_cons, List.nodup_cons] at h
    simp only [dedupRenames, ih h.2]
    congr 1
    rw [List.filter_eq_self]
    intro x hx
    have : x.name ≠ r.name := fun hxr => h.1 (hxr ▸ List.mem_map.mpr ⟨x, hx, rfl⟩)
    simpa using this

theorem nodup_dedupRenames (l : List Rename) : ((dedupRenames l).map (·.name)).Nodup := by
  induction l with
  | nil => simp [dedupRenames]
  | cons r rest ih =>
    simp only [dedupRenames, List.map_cons, List.nodup_cons, List.mem_map, List.mem_filter]
    refine ⟨?_, (ih.sublist ((List.filter_sublist).map _))⟩
    rintro ⟨x, ⟨_, hx⟩, hxn⟩
    simp [hxn] at hx

theorem dedupRenames_idem (l : List Rename) : dedupRenames (dedupRenames l) = dedupRenames l :=
  dedupRenames_of_nodup (nodup_dedupRenames l)

/-- the fold of `get_renames_for_einsum` over the top-level list -/
theorem getRenames_fold (rs : List EinsumRename) (acc : EinsumRename) :
    let r := rs.foldl (fun acc er =>
      if er.name != "default" then acc else
        { acc with tensorAccesses := mergeInto acc.tensorAccesses er.tensorAccesses,
                   rankVariables := mergeInto acc.rankVariables er.rankVariables }) acc
    r.tensorAccesses = mergeInto acc.tensorAccesses (topT rs "default") ∧
    r.rankVariables = mergeInto acc.rankVariables (topR rs "default") := by
  induction rs generalizing acc with
  | nil => simp [topT, topR, mergeInto_nil]
  | cons er rest ih =>
    simp only [List.foldl_cons]
    by_cases hd : er.name = "default"
    · have h1 : (er.name != "default") = false := by simp [hd]
      have h2 : (er.name == "default") = true := by simp [hd]
      simp only [h1, Bool.false_eq_true, if_false]
      have := ih { acc with tensorAccesses := mergeInto acc.tensorAccesses er.tensorAccesses,
                            rankVariables := mergeInto acc.rankVariables er.rankVariables }
      simp only at this
      rw [this.1, this.2]
      simp [topT, topR, List.filter_cons, h2, mergeInto_append]
    · have h1 : (er.name != "default") = true := by simp [hd]
      have h2 : (er.name == "default") = false := by simp [hd]
      simp only [h1, if_true]
      have := ih acc
      simp only at this
      rw [this.1, this.2]
      simp [topT, topR, List.filter_cons, h2]

theorem getRenamesForEinsum_default (rs : List EinsumRename) (n : Name) :
    (getRenamesForEinsum rs n).tensorAccesses = dedupRenames (topT rs "default") ∧
    (getRenamesForEinsum rs n).rankVariables = dedupRenames (topR rs "default") := by
  have := getRenames_fold rs { name := n, tensorAccesses := [], rankVariables := [] }
  simp only [mergeInto_nil_left] at this
  simpa [getRenamesForEinsum, strInEinsumRenameList] using this

theorem effectiveRenames_eq (rs : List EinsumRename) (e : Einsum) :
    effectiveRenames rs e =
      mergeInto (mergeInto e.renames (dedupRenames (topT rs "default")))
        (dedupRenames (topR rs "default")) := by
  simp only [effectiveRenames, (getRenamesForEinsum_default rs "default").1,
    (getRenamesForEinsum_default rs "default").2]

end AFV.Renames
