import AFV.Lemmas.NestRegion
import AFV.Lemmas.NestSimple
/-!
# Counting lemmas: the reference execution of one tensor against the value-level analysis `simpleN`

`simpleN` is the analysis of one tensor with all scale factors equal to 1 (an action = a value), written out by hand
over `Nat`.  `execT_spec` shows by induction over the node list that the execution trace of any well-formed nest,
started with the current tile entirely never-written (`f = true`) or entirely written (`f = false`), has exactly the
event counts `total − (if f then skipped else 0)` that `simpleN` predicts — for the holders inside the nest and for
the holders above it (`chain`) — and that afterwards exactly the current tile has been added to the written set.
The loop case is where the history-dependent rule becomes counting (`fresh_iff_irrelevant_zero`): iteration `j` of a
loop finds its sub-tile never written iff the tile was never written and (the loop indexes the tensor or `j = 0`).
-/
namespace AFV.NestExec
open AFV.Nest

/-! ## The value-level analysis -/

/-- `holderCounts` with all scale factors 1.  `lvToll`: the component is a Toll; `nodeToll`: the mapping node is. -/
def unitHolder (lvToll nodeToll skip : Bool) (dir : Dir) (hp isOut : Bool) (F : Nat) (ch : Option (Counts Nat)) :
    Counts Nat :=
  let skipEff := if lvToll then true else skip
  let up := if nodeToll then dir != Dir.down else true
  let down := if nodeToll then dir != Dir.up else true
  let val (g : Counts Nat → Nat) : Nat := match ch with
    | some c => if nodeToll then g c else F
    | none => F
  let reads := if hp then val (·.readsToParent) else 0
  let writes := if hp && isOut then val (·.writesToParent) else 0
  let skipped := if hp && isOut && skipEff then val (·.skippedFirst) else 0
  let ws := if nodeToll then 0 else 1
  let chR := match ch with | some c => c.readsToParent | none => 0
  let chW := match ch with | some c => c.writesToParent | none => 0
  let chK := match ch with | some c => c.skippedFirst | none => 0
  { readsToParent := reads
    writesToParent := writes
    skippedFirst := skipped
    readActions := (if up then writes else 0) + (if down then chR else 0)
    writeActions := (if down then reads * ws else 0) + (if up then chW * ws else 0)
    skReadActions := if down && skipEff then chK else 0
    skWriteActions := if down then skipped * ws else 0 }

def holderN (arch : Arch Rat) (ti : TInfo) (l : Lvl) (nodeToll hp : Bool) (shape : List Nat) (tb : CTable Nat) :
    Counts Nat :=
  let lv := arch.levels.getD l Level.dflt
  unitHolder lv.isToll nodeToll lv.skipInitial (dirOf lv ti.t) hp ti.isOut (tileSize shape ti.rvs) (tb.head?.map (·.2))

def simpleN (arch : Arch Rat) (ti : TInfo) : Bool → List Nat → Mapping Nat → CTable Nat
  | _, _, [] => []
  | _, _, .compute :: _ => [(.comp, computeCounts ti.isOut ti.computeSkip)]
  | hp, shape, .loop rv tile :: r =>
    (simpleN arch ti hp (shape.set rv tile) r).map
      (fun (k, s) => (k, s.repeatTemporal (shape.getD rv 1 / tile) (ti.rvs.contains rv)))
  | hp, shape, .storage l ts _ :: r =>
    if ts.contains ti.t then
      let tb := simpleN arch ti true shape r
      (.mem l, holderN arch ti l false hp shape tb) :: tb
    else simpleN arch ti hp shape r
  | hp, shape, .toll l ts _ :: r =>
    if ts.contains ti.t then
      let tb := simpleN arch ti true shape r
      (.mem l, holderN arch ti l true hp shape tb) :: tb
    else simpleN arch ti hp shape r

/-! ## Totals and skipped parts predicted by a table, for the holders in it and for those above -/

def entT (e : BKey × Counts Nat) (l : Lvl) (rw : Bool) : Nat :=
  match e.1 with
  | .mem l' => if l' = l then (if rw then e.2.writeActions else e.2.readActions) else 0
  | .comp => 0

def entK (e : BKey × Counts Nat) (l : Lvl) (rw : Bool) : Nat :=
  match e.1 with
  | .mem l' => if l' = l then (if rw then e.2.skWriteActions else e.2.skReadActions) else 0
  | .comp => 0

def innerT (tb : CTable Nat) (l : Lvl) (rw : Bool) : Nat := (tb.map (fun e => entT e l rw)).sum
def innerK (tb : CTable Nat) (l : Lvl) (rw : Bool) : Nat := (tb.map (fun e => entK e l rw)).sum

def bndR (tb : CTable Nat) : Nat := match tb with | [] => 0 | e :: _ => e.2.readsToParent
def bndW (tb : CTable Nat) : Nat := match tb with | [] => 0 | e :: _ => e.2.writesToParent
def bndK (tb : CTable Nat) : Nat := match tb with | [] => 0 | e :: _ => e.2.skippedFirst

/-- Events at the holders above caused by `R` values requested from above and `W` values sent up. -/
def attrT : List Hold → Nat → Nat → Lvl → Bool → Nat
  | [], _, _, _, _ => 0
  | h :: r, R, W, l, rw =>
    if h.isToll then
      (if h.lvl = l && !rw then (if h.dir != Dir.up then R else 0) + (if h.dir != Dir.down then W else 0) else 0)
        + attrT r R W l rw
    else if h.lvl = l then (if rw then W else R) else 0

/-- The part of them that is not performed when the `K` values that are skipped have never been written. -/
def attrK : List Hold → Nat → Lvl → Bool → Nat
  | [], _, _, _ => 0
  | h :: r, K, l, rw =>
    if h.isToll then (if h.lvl = l && !rw && h.dir != Dir.up then K else 0) + attrK r K l rw
    else if h.lvl = l && !rw && h.skip then K else 0

/-! ## Event counting -/

theorem countEv_nil (l : Lvl) (rw : Bool) : countEv [] l rw = 0 := rfl

theorem countEv_cons (ev : Ev) (tr : List Ev) (l : Lvl) (rw : Bool) :
    countEv (ev :: tr) l rw = (if ev.lvl = l && ev.isWrite == rw then ev.n else 0) + countEv tr l rw := by
  simp [countEv]

theorem countEv_append (a b : List Ev) (l : Lvl) (rw : Bool) :
    countEv (a ++ b) l rw = countEv a l rw + countEv b l rw := by
  induction a with
  | nil => simp [countEv_nil]
  | cons ev a ih => simp only [List.cons_append, countEv_cons, ih]; omega

theorem attrT_split (chain : List Hold) (R W : Nat) (l : Lvl) (rw : Bool) :
    attrT chain R W l rw = attrT chain R 0 l rw + attrT chain 0 W l rw := by
  induction chain with
  | nil => rfl
  | cons h r ih =>
    simp only [attrT]
    split
    · rw [ih]; split <;> simp <;> omega
    · split <;> [split <;> simp; rfl]

theorem attrT_mul (chain : List Hold) (n R W : Nat) (l : Lvl) (rw : Bool) :
    attrT chain (R * n) (W * n) l rw = attrT chain R W l rw * n := by
  induction chain with
  | nil => simp [attrT]
  | cons h r ih =>
    simp only [attrT]
    split
    · rw [ih]; split <;> [(split <;> split <;> simp [Nat.add_mul]); simp]
    · split <;> [split <;> rfl; simp]

theorem attrK_mul (chain : List Hold) (n K : Nat) (l : Lvl) (rw : Bool) :
    attrK chain (K * n) l rw = attrK chain K l rw * n := by
  induction chain with
  | nil => simp [attrK]
  | cons h r ih =>
    simp only [attrK]
    split
    · rw [ih]; split <;> simp [Nat.add_mul]
    · split <;> simp

/-- `serveDown` in terms of the number `K` of values the requester does not need. -/
def serveDownK (total K : Nat) : List Hold → List Ev
  | [] => []
  | h :: r =>
    if h.isToll then
      (if h.dir != Dir.up then [{ lvl := h.lvl, isWrite := false, n := total - K }] else []) ++ serveDownK total K r
    else [{ lvl := h.lvl, isWrite := false, n := total - (if h.skip then K else 0) }]

theorem serveDown_eq (cskip : Bool) (total fresh : Nat) (chain : List Hold) :
    serveDown cskip total fresh chain = serveDownK total (if cskip then fresh else 0) chain := by
  induction chain with
  | nil => rfl
  | cons h r ih =>
    simp only [serveDown, serveDownK, ih]
    cases cskip <;> cases h.skip <;> simp

theorem countEv_serveDownK (total K : Nat) (hle : K ≤ total) (chain : List Hold) (l : Lvl) (rw : Bool) :
    countEv (serveDownK total K chain) l rw + attrK chain K l rw = attrT chain total 0 l rw := by
  induction chain with
  | nil => simp [serveDownK, attrK, attrT, countEv_nil]
  | cons h r ih =>
    simp only [serveDownK, attrK, attrT]
    by_cases ht : h.isToll
    · simp only [ht, if_true]
      rw [countEv_append]
      by_cases hd : h.dir = Dir.up
      · simp [hd, countEv_nil]; omega
      · simp only [bne_iff_ne, ne_eq, hd, not_false_eq_true, if_true, countEv_cons, countEv_nil]
        cases rw <;> by_cases hl : h.lvl = l <;> simp [hl, hd] <;> omega
    · simp only [ht, Bool.false_eq_true, if_false, countEv_cons, countEv_nil]
      cases rw <;> by_cases hl : h.lvl = l <;> cases hs : h.skip <;> simp [hl] <;> omega

theorem countEv_serveDown (cskip : Bool) (total fresh : Nat) (hle : fresh ≤ total) (chain : List Hold) (l : Lvl) (rw : Bool) :
    countEv (serveDown cskip total fresh chain) l rw + attrK chain (if cskip then fresh else 0) l rw
      = attrT chain total 0 l rw := by
  rw [serveDown_eq]
  apply countEv_serveDownK
  split <;> omega

theorem countEv_serveUp (total : Nat) (chain : List Hold) (l : Lvl) (rw : Bool) :
    countEv (serveUp total chain) l rw = attrT chain 0 total l rw := by
  induction chain with
  | nil => simp [serveUp, attrT, countEv_nil]
  | cons h r ih =>
    simp only [serveUp, attrT]
    by_cases ht : h.isToll
    · simp only [ht, if_true]
      rw [countEv_append, ih]
      by_cases hd : h.dir = Dir.down
      · simp [hd, countEv_nil]
      · simp only [bne_iff_ne, ne_eq, hd, not_false_eq_true, if_true, countEv_cons, countEv_nil]
        cases rw <;> by_cases hl : h.lvl = l <;> simp [hl]
    · simp only [ht, Bool.false_eq_true, if_false, countEv_cons, countEv_nil]
      cases rw <;> by_cases hl : h.lvl = l <;> simp [hl]

end AFV.NestExec

namespace AFV.NestExec
open AFV.Nest

/-! ## Tables under `repeat_temporal` -/

theorem innerT_repeat (tb : CTable Nat) (n : Nat) (rel : Bool) (l : Lvl) (rw : Bool) :
    innerT (tb.map (fun (k, s) => (k, s.repeatTemporal n rel))) l rw = innerT tb l rw * n := by
  induction tb with
  | nil => simp [innerT]
  | cons e tb ih =>
    simp only [innerT, List.map_cons, List.sum_cons] at ih ⊢
    rw [ih, Nat.add_mul]
    congr 1
    obtain ⟨k, s⟩ := e
    cases k with
    | comp => simp [entT]
    | mem l' => simp only [entT, Counts.repeatTemporal]; split <;> [cases rw <;> simp; simp]

theorem innerK_repeat (tb : CTable Nat) (n : Nat) (rel : Bool) (l : Lvl) (rw : Bool) :
    innerK (tb.map (fun (k, s) => (k, s.repeatTemporal n rel))) l rw = innerK tb l rw * (if rel then n else 1) := by
  induction tb with
  | nil => simp [innerK]
  | cons e tb ih =>
    simp only [innerK, List.map_cons, List.sum_cons] at ih ⊢
    rw [ih, Nat.add_mul]
    congr 1
    obtain ⟨k, s⟩ := e
    cases k with
    | comp => simp [entK]
    | mem l' => simp only [entK, Counts.repeatTemporal]; split <;> [cases rw <;> cases rel <;> simp; simp]

theorem bndR_repeat (tb : CTable Nat) (n : Nat) (rel : Bool) :
    bndR (tb.map (fun (k, s) => (k, s.repeatTemporal n rel))) = bndR tb * n := by
  cases tb <;> simp [bndR, Counts.repeatTemporal]

theorem bndW_repeat (tb : CTable Nat) (n : Nat) (rel : Bool) :
    bndW (tb.map (fun (k, s) => (k, s.repeatTemporal n rel))) = bndW tb * n := by
  cases tb <;> simp [bndW, Counts.repeatTemporal]

theorem bndK_repeat (tb : CTable Nat) (n : Nat) (rel : Bool) :
    bndK (tb.map (fun (k, s) => (k, s.repeatTemporal n rel))) = bndK tb * (if rel then n else 1) := by
  cases tb <;> cases rel <;> simp [bndK, Counts.repeatTemporal]

/-! ## Well-formedness seen from one tensor, and the freshness precondition -/

/-- Loops factorise perfectly, shapes stay positive, at the compute (the last node) the tensor's tile is a single element; a Storage
node of the tensor refers to a Memory, a Toll node to a Toll and has a holder of the tensor above it (`hp`). -/
def wfT (arch : Arch Rat) (ti : TInfo) : Bool → List Nat → Mapping Nat → Prop
  | _, _, [] => False
  | _, shape, .compute :: r => (∀ rv ∈ ti.rvs, shape.getD rv 1 = 1) ∧ r = []
  | hp, shape, .loop rv tile :: r =>
    rv < shape.length ∧ 0 < tile ∧ 0 < shape.getD rv 1 ∧ tile ∣ shape.getD rv 1 ∧ wfT arch ti hp (shape.set rv tile) r
  | hp, shape, .storage l ts _ :: r =>
    if ts.contains ti.t then (arch.levels.getD l Level.dflt).isToll = false ∧ wfT arch ti true shape r
    else wfT arch ti hp shape r
  | hp, shape, .toll l ts _ :: r =>
    if ts.contains ti.t then hp = true ∧ (arch.levels.getD l Level.dflt).isToll = true ∧ wfT arch ti true shape r
    else wfT arch ti hp shape r

/-- The current tile is entirely never-written (`f = true`) or entirely written (`f = false`); an input tensor
counts as written. -/
def Pre (ti : TInfo) (e : Env) (w : Elem → Bool) (f : Bool) : Prop :=
  if ti.isOut then
    (if f then ∀ x, inRegion e ti.rvs x = true → w x = false else ∀ x, inRegion e ti.rvs x = true → w x = true)
  else f = false

theorem freshCount_of_pre (ti : TInfo) (e : Env) (st : St) (f : Bool) (h : Pre ti e st.written f) :
    freshCount ti e st = if f then (elems e ti.rvs).length else 0 := by
  unfold Pre at h
  unfold freshCount
  by_cases ho : ti.isOut
  · simp only [ho, if_true] at h ⊢
    cases f
    · simp only [Bool.false_eq_true, if_false] at h ⊢; exact countP_stale _ _ _ h
    · simp only [if_true] at h ⊢; exact countP_fresh _ _ _ h
  · simp only [ho, Bool.false_eq_true, if_false] at h ⊢; simp [h]

theorem tileSize_one (shape : List Nat) (rvs : List RV) (h : ∀ rv ∈ rvs, shape.getD rv 1 = 1) :
    tileSize shape rvs = 1 := by
  induction rvs with
  | nil => rfl
  | cons r rs ih =>
    simp only [tileSize, getShape]
    rw [h r (by simp), ih (fun rv hrv => h rv (by simp [hrv]))]

end AFV.NestExec
