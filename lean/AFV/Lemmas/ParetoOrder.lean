import AFV.Model.Pareto
/-!
Order facts about `EV` / `FKey` and coordinatewise dominance `domV` (core Lean only).
-/
namespace AFV.Pareto

namespace EV

theorem le_refl (a : EV) : le a a = true := by cases a <;> simp [le]

theorem le_trans {a b c : EV} (h1 : le a b = true) (h2 : le b c = true) : le a c = true := by
  cases a <;> cases b <;> cases c <;> simp_all [le] <;> omega

theorem le_total (a b : EV) : le a b = true ∨ le b a = true := by
  cases a <;> cases b <;> simp [le] <;> omega

theorem le_antisymm {a b : EV} (h1 : le a b = true) (h2 : le b a = true) : a = b := by
  cases a <;> cases b <;> simp_all [le] <;> omega

theorem lt_iff {a b : EV} : lt a b = true ↔ le b a = false := by simp [lt]

theorem lt_imp_le {a b : EV} (h : lt a b = true) : le a b = true := by
  rcases le_total a b with h' | h'
  · exact h'
  · simp [lt, h'] at h

theorem lt_irrefl (a : EV) : lt a a = false := by simp [lt, le_refl]

theorem lt_of_lt_of_le {a b c : EV} (h1 : lt a b = true) (h2 : le b c = true) : lt a c = true := by
  simp only [lt, Bool.not_eq_true', ← Bool.not_eq_true] at *
  intro h; exact h1 (le_trans h2 h)

theorem lt_of_le_of_lt {a b c : EV} (h1 : le a b = true) (h2 : lt b c = true) : lt a c = true := by
  simp only [lt, Bool.not_eq_true', ← Bool.not_eq_true] at *
  intro h; exact h2 (le_trans h h1)

theorem not_lt_of_le {a b : EV} (h : le a b = true) : lt b a = false := by simp [lt, h]

theorem le_of_not_lt {a b : EV} (h : lt a b = false) : le b a = true := by simpa [lt] using h

theorem lt_or_eq_of_le {a b : EV} (h : le a b = true) : lt a b = true ∨ a = b := by
  cases hb : le b a
  · left; simp [lt, hb]
  · right; exact le_antisymm h hb

theorem ne_of_lt {a b : EV} (h : lt a b = true) : a ≠ b := by
  intro e; subst e; simp [lt_irrefl] at h

theorem neg_neg (a : EV) : neg (neg a) = a := by cases a <;> simp [neg]

theorem neg_inj {a b : EV} (h : neg a = neg b) : a = b := by
  have := congrArg neg h; simpa [neg_neg] using this

theorem le_neg_neg (a b : EV) : le (neg a) (neg b) = le b a := by
  cases a <;> cases b <;> simp [neg, le]

theorem lt_neg_neg (a b : EV) : lt (neg a) (neg b) = lt b a := by simp [lt, le_neg_neg]

end EV

namespace FKey

theorem le_refl (a : FKey) : le a a = true := by cases a <;> simp [le, EV.le_refl]

theorem le_trans {a b c : FKey} (h1 : le a b = true) (h2 : le b c = true) : le a c = true := by
  cases a <;> cases b <;> cases c <;> simp_all [le]
  exact EV.le_trans h1 h2

theorem le_total (a b : FKey) : le a b = true ∨ le b a = true := by
  cases a <;> cases b <;> simp [le]
  exact EV.le_total _ _

end FKey

/-! ## coordinatewise order -/

theorem leqAll_iff {d : Nat} {w c : Row} :
    leqAll d w c = true ↔ ∀ k, k < d → EV.le (cell w k) (cell c k) = true := by
  simp [leqAll]

theorem anyLt_iff {d : Nat} {w c : Row} :
    anyLt d w c = true ↔ ∃ k, k < d ∧ EV.lt (cell w k) (cell c k) = true := by
  simp [anyLt]

theorem domV_iff {d : Nat} {w c : Row} :
    domV d w c = true ↔ (∀ k, k < d → EV.le (cell w k) (cell c k) = true) ∧
      ∃ k, k < d ∧ EV.lt (cell w k) (cell c k) = true := by
  simp [domV, leqAll_iff, anyLt_iff]

/-- `any_less` is "not `≥` everywhere" (the order is total). -/
theorem anyLt_eq_not_leqAll (d : Nat) (w c : Row) : anyLt d w c = !leqAll d c w := by
  unfold anyLt leqAll EV.lt
  induction (List.range d) with
  | nil => rfl
  | cons k ks ih => simp [List.any_cons, List.all_cons, ih, Bool.not_and]

end AFV.Pareto
