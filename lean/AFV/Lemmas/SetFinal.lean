import AFV.Lemmas.SetAlg
/-!
The table the architecture is evaluated against (`einsumTable`): names not shadowed by a rename
keep the binding of `rename_symbol_table`.
-/
namespace AFV.Renames
open AFV.SetAlg AFV.SetSpec

theorem mem_appendMissing {l ex : List (Name × ISet)} {p : Name × ISet}
    (h : p ∈ appendMissing l ex) : p ∈ l ∨ p ∈ ex := by
  unfold appendMissing at h
  induction ex generalizing l with
  | nil => exact Or.inl (by simpa using h)
  | cons q qs ih =>
    simp only [List.foldl_cons] at h
    by_cases hk : hasKey l q.1 = true
    · simp only [hk, if_true] at h
      rcases ih h with h | h
      · exact Or.inl h
      · exact Or.inr (List.mem_cons_of_mem _ h)
    · simp only [hk] at h
      rcases ih h with h | h
      · rcases List.mem_append.mp h with h | h
        · exact Or.inl h
        · simp only [List.mem_singleton] at h; subst h; exact Or.inr (by simp)
      · exact Or.inr (List.mem_cons_of_mem _ h)

theorem subset_appendMissing {l ex : List (Name × ISet)} {p : Name × ISet} (h : p ∈ l) :
    p ∈ appendMissing l ex := by
  unfold appendMissing
  induction ex generalizing l with
  | nil => simpa using h
  | cons q qs ih =>
    simp only [List.foldl_cons]
    by_cases hk : hasKey l q.1 = true
    · simp only [hk, if_true]; exact ih h
    · simp only [hk]; exact ih (List.mem_append_left _ h)

theorem key_appendMissing {l ex : List (Name × ISet)} {p : Name × ISet} (h : p ∈ ex) :
    ∃ q ∈ appendMissing l ex, q.1 = p.1 := by
  unfold appendMissing
  induction ex generalizing l with
  | nil => simp at h
  | cons q qs ih =>
    simp only [List.foldl_cons]
    rcases List.mem_cons.mp h with h | h
    · subst h
      by_cases hk : hasKey l p.1 = true
      · simp only [hk, if_true]
        simp only [hasKey, List.any_eq_true, beq_iff_eq] at hk
        obtain ⟨r, hr, hrn⟩ := hk
        exact ⟨r, subset_appendMissing (ex := qs) hr, hrn⟩
      · simp only [hk]
        exact ⟨p, subset_appendMissing (ex := qs) (by simp), rfl⟩
    · by_cases hk : hasKey l q.1 = true
      · simp only [hk, if_true]; exact ih h
      · simp only [hk]; exact ih h

theorem evalRenames_keys {st : Table} {l : List Rename} {vs : List (Name × ISet)}
    (h : evalRenames st l = .ok vs) : vs.map (·.1) = l.map (·.name) := by
  induction l generalizing st vs with
  | nil => simp [evalRenames] at h; subst h; rfl
  | cons r rest ih =>
    simp only [evalRenames, bind, Except.bind] at h
    cases hv : evalSetExpression st r.source (some spaceTensor) r.expectedCount with
    | error e => simp [hv] at h
    | ok v =>
      simp only [hv] at h
      cases hvs : evalRenames (insert st r.name v) rest with
      | error e => simp [hvs] at h
      | ok vs' =>
        simp only [hvs, pure, Except.pure, Except.ok.injEq] at h
        subst h
        simp [ih hvs]

theorem mem_dictItems {kvs : List (Name × ISet)} {p : Name × ISet} (h : p ∈ dictItems kvs) :
    lookup (ofDictLiteral kvs) p.1 = some p.2 := by
  simp only [dictItems, List.mem_filterMap] at h
  obtain ⟨k, _, hk⟩ := h
  cases hl : lookup (ofDictLiteral kvs) k with
  | none => simp [hl] at hk
  | some v => simp only [hl, Option.map_some, Option.some.injEq] at hk; subst hk; exact hl

theorem dictItems_of_lookup {kvs : List (Name × ISet)} {n : Name} {v : ISet}
    (h : lookup (ofDictLiteral kvs) n = some v) : (n, v) ∈ dictItems kvs := by
  simp only [dictItems, List.mem_filterMap]
  refine ⟨n, ?_, by simp [h]⟩
  rw [mem_dedup]
  have := lookup_mem h
  simp only [ofDictLiteral, List.mem_reverse] at this
  exact List.mem_map.mpr ⟨(n, v), this, rfl⟩

/-- **Unshadowed names keep their binding.** If no effective rename is called `n`, the table the
architecture sees binds `n` exactly as `rename_symbol_table` does. -/
theorem final_lookup_unshadowed {w : Workload} {e : Einsum} {eff : List Rename}
    {l : List (Name × ISet)} (h : evaluatedRenamesWith w e eff = .ok l) {n : Name} {v : ISet}
    (hv : lookup (renameSymbolTable w e) n = some v) (hn : ∀ r ∈ eff, r.name ≠ n) :
    lookup (ofDictLiteral l) n = some v := by
  simp only [evaluatedRenamesWith, bind, Except.bind] at h
  cases hvs : evalRenames (renameSymbolTable w e) eff with
  | error er => simp [hvs] at h
  | ok vs =>
    simp only [hvs, pure, Except.pure, Except.ok.injEq] at h
    subst h
    have hkeys := evalRenames_keys hvs
    have hvsn : ∀ p ∈ vs, p.1 ≠ n := by
      intro p hp hpn
      have : p.1 ∈ vs.map (·.1) := List.mem_map.mpr ⟨p, hp, rfl⟩
      rw [hkeys] at this
      obtain ⟨r, hr, hrn⟩ := List.mem_map.mp this
      exact hn r hr (hrn.trans hpn)
    have hD : (n, v) ∈ dictItems (namedEntries w e ++ tensorEntries e ++ rankEntries e) :=
      dictItems_of_lookup hv
    obtain ⟨q, hq, hqn⟩ := key_appendMissing (l := vs) hD
    simp only at hqn
    unfold ofDictLiteral
    have hpres : n ∈ List.map (fun x => x.1)
        (appendMissing vs (dictItems (namedEntries w e ++ tensorEntries e ++ rankEntries e))) :=
      List.mem_map.mpr ⟨q, hq, hqn⟩
    apply lookup_reverse_of_all_eq
    · exact ⟨q, List.mem_append_left _ (List.mem_append_left _ hq), hqn⟩
    · intro p hp hpn
      rcases List.mem_append.mp hp with hp | hp
      · rcases List.mem_append.mp hp with hp | hp
        · rcases mem_appendMissing hp with hp | hp
          · exact absurd hpn (hvsn p hp)
          · have := mem_dictItems hp
            unfold renameSymbolTable at hv
            rw [hpn, hv] at this
            exact (Option.some.inj this).symm
        · exfalso
          obtain ⟨t, ht, rfl⟩ := List.mem_map.mp hp
          have ht2 := (List.mem_filter.mp ht).2
          simp only at hpn
          subst hpn
          rw [List.contains_iff_mem.mpr hpres] at ht2
          simp at ht2
      · exfalso
        obtain ⟨t, ht, rfl⟩ := List.mem_map.mp hp
        have ht2 := (List.mem_filter.mp ht).2
        simp only at hpn
        subst hpn
        rw [List.contains_iff_mem.mpr hpres] at ht2
        simp at ht2

theorem evaluatedRenames_eq_with (w : Workload) (rs : List EinsumRename) (e : Einsum) :
    evaluatedRenames w rs e = evaluatedRenamesWith w e (effectiveRenames rs e) := rfl

/-! ## the rebinding of `Persistent` after the workload-level `persistent_tensors` step -/

theorem lookup_map_rebind (e : Einsum) (p : List Name) (l : Table) (n : Name) :
    lookup (l.map (fun kv => if kv.1 == "Persistent" then (kv.1, tset e p) else kv)) n =
      if n = "Persistent" then (lookup l n).map (fun _ => tset e p) else lookup l n := by
  induction l with
  | nil => simp [lookup]
  | cons kv rest ih =>
    obtain ⟨k, v⟩ := kv
    by_cases hk : k = "Persistent"
    · subst hk
      by_cases hn : n = "Persistent"
      · subst hn; simp [lookup]
      · have : ("Persistent" == n) = false := by simpa using fun h : "Persistent" = n => hn h.symm
        simp only [List.map_cons, beq_self_eq_true, if_true, lookup, this, Bool.false_eq_true,
          if_false, ih, hn]
    · have hkb : (k == "Persistent") = false := by simpa using hk
      simp only [List.map_cons, hkb, Bool.false_eq_true, if_false, lookup, ih]
      by_cases hkn : (k == n) = true
      · have : n ≠ "Persistent" := by
          have hkn' : k = n := by simpa using hkn
          exact hkn' ▸ hk
        simp [hkn, this]
      · simp [hkn]

theorem lookup_rebind (e : Einsum) (p : List Name) (l : List (Name × ISet)) (n : Name) :
    lookup (ofDictLiteral (rebindPersistent e p l)) n =
      if n = "Persistent" then (lookup (ofDictLiteral l) n).map (fun _ => tset e p)
      else lookup (ofDictLiteral l) n := by
  simp only [ofDictLiteral, rebindPersistent, ← List.map_reverse]
  exact lookup_map_rebind e p l.reverse n

/-- the two ways `einsumTable` comes about -/
theorem einsumTable_ok {w : Workload} {rs : List EinsumRename} {e : Einsum} {t : Table}
    (ht : einsumTable w rs e = .ok t) :
    ∃ l, evaluatedRenames w rs e = .ok l ∧
      (((w.persistentTensors = none ∨ hasName (effectiveRenames rs e) "Persistent" = true) ∧
          t = ofDictLiteral l) ∨
       (w.persistentTensors ≠ none ∧ hasName (effectiveRenames rs e) "Persistent" = false ∧
          ∃ p, persistentAfterEval w rs e = .ok p ∧ t = ofDictLiteral (rebindPersistent e p l))) := by
  simp only [einsumTable, finalRenames, bind, Except.bind] at ht
  cases hl : evaluatedRenames w rs e with
  | error er => simp [hl] at ht
  | ok l =>
    refine ⟨l, rfl, ?_⟩
    simp only [hl] at ht
    cases hpt : w.persistentTensors with
    | none =>
      simp only [hpt, pure, Except.pure, Except.ok.injEq] at ht
      exact Or.inl ⟨Or.inl rfl, ht.symm⟩
    | some pt =>
      simp only [hpt] at ht
      cases hp : persistentAfterEval w rs e with
      | error er => simp [hp] at ht
      | ok p =>
        simp only [hp] at ht
        cases hh : hasName (effectiveRenames rs e) "Persistent" with
        | true =>
          simp only [hh, if_true, pure, Except.pure, Except.ok.injEq] at ht
          exact Or.inl ⟨Or.inr rfl, ht.symm⟩
        | false =>
          simp only [hh, Bool.false_eq_true, if_false, pure, Except.pure, Except.ok.injEq] at ht
          exact Or.inr ⟨by simp, rfl, p, rfl, ht.symm⟩

end AFV.Renames
