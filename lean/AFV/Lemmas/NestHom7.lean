import AFV.Lemmas.NestHom6
namespace AFV.Nest

variable {α β : Type}
  [Add α] [Mul α] [Div α] [Max α] [Sub α] [OfNat α 0] [OfNat α 1]
  [Add β] [Mul β] [Div β] [Max β] [Sub β] [OfNat β 0] [OfNat β 1]
variable {f : α → β}

theorem filter_lvl_map (bs : List (Buffet α)) (l : Lvl) :
    (bs.map (Buffet.map f)).filter (fun b => b.lvl == l) = (bs.filter (fun b => b.lvl == l)).map (Buffet.map f) := by
  rw [List.filter_map]; rfl

theorem any_lvl_map (bs : List (Buffet α)) (l : Lvl) :
    (bs.map (Buffet.map f)).any (fun b => b.lvl == l) = bs.any (fun b => b.lvl == l) := by
  rw [List.any_map]; rfl

theorem sum_over_map (hf : IsHom f) (g : Stats α → α) (g' : Stats β → β) (hg : ∀ s, g' (s.map f) = f (g s))
    (bs : List (Buffet α)) :
    sumList ((bs.map (Buffet.map f)).map (fun b => g' b.s)) = f (sumList (bs.map (fun b => g b.s))) := by
  rw [← sumList_map hf, List.map_map, List.map_map]
  congr 1
  apply List.map_congr_left
  intro b _
  simp [Function.comp, Buffet.map, hg]

theorem sumR_map (hf : IsHom f) (bs : List (Buffet α)) :
    sumList ((bs.map (Buffet.map f)).map (fun b => netRead b.s)) = f (sumList (bs.map (fun b => netRead b.s))) :=
  sum_over_map hf (fun s => netRead s) (fun s => netRead s) (netRead_map hf) bs

theorem sumW_map (hf : IsHom f) (bs : List (Buffet α)) :
    sumList ((bs.map (Buffet.map f)).map (fun b => netWrite b.s)) = f (sumList (bs.map (fun b => netWrite b.s))) :=
  sum_over_map hf (fun s => netWrite s) (fun s => netWrite s) (netWrite_map hf) bs

/-- The latency entry of one level. -/
def latEntry (arch : Arch α) (bs : List (Buffet α)) (l : Lvl) : α :=
  let lv := arch.levels.getD l Level.dflt
  let mine := bs.filter (fun b => b.lvl == l)
  let reads := sumList (mine.map (fun b => netRead b.s))
  let writes := sumList (mine.map (fun b => netWrite b.s))
  let rl := reads * lv.actionsScale / lv.read.throughput
  if lv.isToll then rl else rl + writes * lv.actionsScale / lv.write.throughput

theorem latEntry_map (hf : IsHom f) (arch : Arch α) (bs : List (Buffet α)) (l : Lvl) :
    latEntry (arch.map f) (bs.map (Buffet.map f)) l = f (latEntry arch bs l) := by
  simp only [latEntry, lvOf_map hf, filter_lvl_map, sumR_map hf, sumW_map hf]
  have h1 : ((arch.levels.getD l Level.dflt).map f).isToll = (arch.levels.getD l Level.dflt).isToll := rfl
  have h2 : ((arch.levels.getD l Level.dflt).map f).actionsScale = f (arch.levels.getD l Level.dflt).actionsScale := rfl
  have h3 : ((arch.levels.getD l Level.dflt).map f).read.throughput = f (arch.levels.getD l Level.dflt).read.throughput := rfl
  have h4 : ((arch.levels.getD l Level.dflt).map f).write.throughput = f (arch.levels.getD l Level.dflt).write.throughput := rfl
  rw [h1, h2, h3, h4]
  split <;> simp only [hf.add, hf.mul, hf.div]

end AFV.Nest
