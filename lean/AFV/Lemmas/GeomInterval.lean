import AFV.Lemmas.GeomAffine
/-! When is the one-dimensional image `{Σ aᵢ xᵢ : 0 ≤ xᵢ < nᵢ}` an interval? -/
namespace AFV.Geometry

/-- `v = Σ aᵢ xᵢ` for some `0 ≤ xᵢ < nᵢ`. -/
def Reach : List (Nat × Nat) → Nat → Prop
  | [], v => v = 0
  | (a, n) :: ts, v => ∃ x, x < n ∧ ∃ w, Reach ts w ∧ v = a * x + w

def maxV : List (Nat × Nat) → Nat
  | [] => 0
  | (a, n) :: ts => a * (n - 1) + maxV ts

/-- Reachable from a base interval `[0, m]` plus the terms. -/
def ReachFrom (m : Nat) (ts : List (Nat × Nat)) (v : Nat) : Prop := ∃ u, u ≤ m ∧ ∃ w, Reach ts w ∧ v = u + w

/-- Every value up to the maximum is reachable. -/
def IntervalFrom (m : Nat) (ts : List (Nat × Nat)) : Prop := ∀ v, v ≤ m + maxV ts → ReachFrom m ts v

theorem reach_ge_coeff {ts : List (Nat × Nat)} {w a : Nat} (h : Reach ts w) (hw : w ≠ 0)
    (ha : ∀ t ∈ ts, a ≤ t.1) : a ≤ w := by
  induction ts generalizing w with
  | nil => exact absurd h hw
  | cons t ts ih =>
    obtain ⟨a', n⟩ := t
    obtain ⟨x, _, w', hw', rfl⟩ := h
    have ha' : a ≤ a' := ha (a', n) (by simp)
    cases x with
    | zero =>
      have : w' ≠ 0 := by intro e; apply hw; simp [e]
      have := ih hw' this (fun t ht => ha t (by simp [ht]))
      omega
    | succ x =>
      have : a' ≤ a' * (x + 1) := Nat.le_mul_of_pos_right _ (by omega)
      omega

theorem split_interval (a m n u' : Nat) (ha : 1 ≤ a) (ham : a ≤ m + 1) (hn : 1 ≤ n)
    (hu : u' ≤ m + a * (n - 1)) : ∃ x, x < n ∧ ∃ u, u ≤ m ∧ u' = u + a * x := by
  by_cases hq : u' / a ≤ n - 1
  · refine ⟨u' / a, by omega, u' % a, ?_, ?_⟩
    · have := Nat.mod_lt u' (show a > 0 by omega); omega
    · have := Nat.div_add_mod u' a; omega
  · have h1 : n ≤ u' / a := by omega
    have h2 : n * a ≤ u' := (Nat.le_div_iff_mul_le (show 0 < a by omega)).mp h1
    have h3 : a * (n - 1) + a = n * a := by
      have : n = (n - 1) + 1 := by omega
      conv_rhs => rw [this]
      rw [Nat.add_mul, Nat.one_mul, Nat.mul_comm]
    refine ⟨n - 1, by omega, u' - a * (n - 1), ?_, ?_⟩
    · omega
    · generalize a * (n - 1) = K at *
      omega

theorem interval_iff (ts : List (Nat × Nat)) (hs : ts.Pairwise (fun s t => s.1 ≤ t.1))
    (hpos : ∀ t ∈ ts, 1 ≤ t.1 ∧ 2 ≤ t.2) : ∀ m, IntervalFrom m ts ↔ intervalCond m ts = true := by
  induction ts with
  | nil =>
    intro m
    simp only [intervalCond, iff_true]
    intro v hv
    exact ⟨v, by simpa [maxV] using hv, 0, rfl, rfl⟩
  | cons t ts ih =>
    obtain ⟨a, n⟩ := t
    intro m
    have hs' := List.pairwise_cons.mp hs
    have ha : 1 ≤ a := (hpos (a, n) (by simp)).1
    have hn : 2 ≤ n := (hpos (a, n) (by simp)).2
    have ih' := ih hs'.2 (fun t ht => hpos t (by simp [ht]))
    simp only [intervalCond, Bool.and_eq_true, decide_eq_true_eq]
    constructor
    · intro hI
      have hle : a ≤ m + 1 := by
        apply Decidable.byContradiction
        intro hcon
        have hgt : m + 1 < a := by omega
        have hbig : a ≤ a * (n - 1) := Nat.le_mul_of_pos_right _ (by omega)
        obtain ⟨u, hu, w, ⟨x, _, w', hw', rfl⟩, he⟩ := hI (m + 1) (by simp only [maxV]; omega)
        cases x with
        | zero =>
          have hw0 : w' ≠ 0 := by intro e; subst e; omega
          have := reach_ge_coeff hw' hw0 (a := a) (fun t ht => hs'.1 t ht)
          omega
        | succ x =>
          have : a ≤ a * (x + 1) := Nat.le_mul_of_pos_right _ (by omega)
          omega
      refine ⟨hle, (ih' _).mp ?_⟩
      intro v hv
      obtain ⟨u, hu, w, ⟨x, hx, w', hw', rfl⟩, he⟩ := hI v (by simp only [maxV]; omega)
      have : a * x ≤ a * (n - 1) := Nat.mul_le_mul_left _ (by omega)
      exact ⟨u + a * x, by omega, w', hw', by omega⟩
    · rintro ⟨hle, hc⟩
      have hI := (ih' _).mpr hc
      intro v hv
      obtain ⟨u', hu', w, hw, rfl⟩ := hI v (by simp only [maxV] at hv; omega)
      obtain ⟨x, hx, u, hu, rfl⟩ := split_interval a m n u' ha hle (by omega) hu'
      exact ⟨u, hu, a * x + w, ⟨x, hx, w, hw, rfl⟩, by omega⟩

/-! ### bridge to the enumerated image -/

/-- The box `0 ≤ xᵢ < nᵢ` and the form `Σ aᵢ xᵢ` of a list of terms. -/
def box0 (ts : List (Nat × Nat)) : Box := ts.map (fun t => ((0 : Int), t.2))
def aff0 (ts : List (Nat × Nat)) : Aff := ⟨ts.map (fun t => (t.1 : Int)), 0⟩

theorem reach_iff_dot (ts : List (Nat × Nat)) (v : Int) :
    (∃ x, InBox x (box0 ts) ∧ dot (aff0 ts).coeffs x = v) ↔ ∃ w, Reach ts w ∧ v = (w : Int) := by
  induction ts generalizing v with
  | nil =>
    simp only [box0, aff0, List.map_nil, dot_nil_left, Reach]
    constructor
    · rintro ⟨x, _, rfl⟩; exact ⟨0, rfl, rfl⟩
    · rintro ⟨w, rfl, rfl⟩; exact ⟨[], trivial, rfl⟩
  | cons t ts ih =>
    obtain ⟨a, n⟩ := t
    simp only [box0, aff0, List.map_cons] at ih ⊢
    constructor
    · rintro ⟨x, hx, rfl⟩
      cases x with
      | nil => simp [InBox] at hx
      | cons y ys =>
        obtain ⟨h1, h2, h3⟩ := hx
        obtain ⟨w, hw, he⟩ := (ih (dot (ts.map (fun t => (t.1 : Int))) ys)).mp ⟨ys, h3, rfl⟩
        refine ⟨a * y.toNat + w, ⟨y.toNat, by omega, w, hw, rfl⟩, ?_⟩
        simp only [dot, he, Nat.cast_add, Nat.cast_mul]
        have : ((y.toNat : Nat) : Int) = y := Int.toNat_of_nonneg h1
        rw [this]
    · rintro ⟨w, ⟨x, hx, w', hw', rfl⟩, rfl⟩
      obtain ⟨ys, hys, he⟩ := (ih (w' : Int)).mpr ⟨w', hw', rfl⟩
      refine ⟨(x : Int) :: ys, ⟨by omega, by omega, hys⟩, ?_⟩
      simp only [dot, he, Nat.cast_add, Nat.cast_mul]

theorem minDot_box0 (ts : List (Nat × Nat)) : minDot (aff0 ts).coeffs (box0 ts) = 0 := by
  induction ts with
  | nil => rfl
  | cons t ts ih =>
    obtain ⟨a, n⟩ := t
    simp only [aff0, box0, List.map_cons, minDot] at ih ⊢
    have : (0 : Int) ≤ (a : Int) := Int.natCast_nonneg a
    simp [this, ih]

theorem absSum_box0 (ts : List (Nat × Nat)) : absSum (aff0 ts).coeffs (box0 ts) = maxV ts := by
  induction ts with
  | nil => rfl
  | cons t ts ih =>
    obtain ⟨a, n⟩ := t
    simp only [aff0, box0, List.map_cons, absSum, maxV] at ih ⊢
    simp [ih]

theorem allPos_box0 (ts : List (Nat × Nat)) (h : ∀ t ∈ ts, 1 ≤ t.2) : AllPos (box0 ts) := by
  intro e he
  simp only [box0, List.mem_map] at he
  obtain ⟨t, ht, rfl⟩ := he
  exact h t ht

/-- **The image of `Σ aᵢ xᵢ` over `0 ≤ xᵢ < nᵢ` is a box (an interval) iff the coefficient condition holds.** -/
theorem isBox_image_iff (ts : List (Nat × Nat)) (hs : ts.Pairwise (fun s t => s.1 ≤ t.1))
    (hpos : ∀ t ∈ ts, 1 ≤ t.1 ∧ 2 ≤ t.2) :
    isBox 1 (image [aff0 ts] (box0 ts)) = true ↔ intervalCond 0 ts = true := by
  rw [← interval_iff ts hs hpos 0]
  have hap : AllPos (box0 ts) := allPos_box0 ts (fun t ht => by have := (hpos t ht).2; omega)
  -- heads of the image are the values of the form
  have hheads : ∀ v, v ∈ heads (image [aff0 ts] (box0 ts)) ↔ v ∈ imageVals (aff0 ts) (box0 ts) := by
    intro v
    simp only [mem_heads, mem_image, mem_imageVals]
    constructor
    · rintro ⟨p, ⟨x, hx, rfl⟩, rfl⟩; exact ⟨x, hx, rfl⟩
    · rintro ⟨x, hx, rfl⟩; exact ⟨_, ⟨x, hx, rfl⟩, rfl⟩
  have hmin : lmin (heads (image [aff0 ts] (box0 ts))) = 0 := by
    rw [lmin_congr hheads, lmin_imageVals _ _ hap, minDot_box0]; rfl
  have hext : extentOf (heads (image [aff0 ts] (box0 ts))) = maxV ts + 1 := by
    rw [extentOf_congr hheads, extentOf_imageVals _ _ hap, absSum_box0]
  have hmem : ∀ v : Int, [v] ∈ image [aff0 ts] (box0 ts) ↔ ∃ w, Reach ts w ∧ v = (w : Int) := by
    intro v
    rw [← reach_iff_dot, mem_image]
    constructor
    · rintro ⟨x, hx, he⟩
      refine ⟨x, hx, ?_⟩
      simp only [List.map_cons, List.map_nil, List.cons.injEq, and_true] at he
      simp only [he, Aff.eval, aff0]; omega
    · rintro ⟨x, hx, rfl⟩
      exact ⟨x, hx, by simp [Aff.eval, aff0]⟩
  simp only [isBox, bbox, hmin, hext, List.all_eq_true, decide_eq_true_eq, points, mem_consAll, mem_range]
  constructor
  · intro h v hv
    have := h [(v : Int)] ⟨(v : Int), ⟨by omega, by simp at hv ⊢; omega⟩, [], by simp, rfl⟩
    obtain ⟨w, hw, he⟩ := (hmem v).mp this
    have : v = w := by omega
    subst this
    exact ⟨0, Nat.le_refl _, v, hw, by omega⟩
  · intro h p hp
    obtain ⟨x, ⟨hx1, hx2⟩, q, hq, rfl⟩ := hp
    simp only [List.mem_singleton] at hq
    subst hq
    obtain ⟨u, hu, w, hw, he⟩ := h x.toNat (by omega)
    have hu0 : u = 0 := by omega
    subst hu0
    exact (hmem x).mpr ⟨w, hw, by omega⟩

end AFV.Geometry
