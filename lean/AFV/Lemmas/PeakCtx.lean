import AFV.Spec.FusedPeak
/-!
# PeakCtx — the execution order of a single loop nest is a mixed-radix count

`ctxAt pre shape env i` is the environment of the `i`-th compute event below the prefix `pre`; `contexts` enumerates exactly
these, in order (`contexts_eq`).  The iteration indices of an outer group of loops are therefore *contiguous* in execution order
(`proj_convex`): if two instants agree on them, so does every instant in between.
-/
namespace AFV.FusedPeak

/-- number of compute events below a prefix -/
def count : List PNode → List Nat → Nat
  | [], _ => 1
  | .storage _ _ _ _ :: r, shape => count r shape
  | .loop _ rv tile :: r, shape => (shape.getD rv 1 / tile) * count r (shape.set rv tile)

/-- environment of the `i`-th event -/
def ctxAt : List PNode → List Nat → Env → Nat → Env
  | [], _, env, _ => env
  | .storage _ _ _ _ :: r, shape, env, i => ctxAt r shape env i
  | .loop id rv tile :: r, shape, env, i =>
    let M := count r (shape.set rv tile)
    ctxAt r (shape.set rv tile) ((id, i / M) :: env) (i % M)

def loopIds : List PNode → List NodeId
  | [] => []
  | .storage _ _ _ _ :: r => loopIds r
  | .loop id _ _ :: r => id :: loopIds r

theorem flatMap_uniform {β : Type} (n M : Nat) (g : Nat → Nat → β) :
    (List.range n).flatMap (fun j => (List.range M).map (g j)) = (List.range (n * M)).map (fun i => g (i / M) (i % M)) := by
  induction n with
  | zero => simp
  | succ n ih =>
    rw [List.range_succ, List.flatMap_append, ih, Nat.succ_mul, List.range_add, List.map_append]
    congr 1
    simp only [List.flatMap_cons, List.flatMap_nil, List.append_nil, List.map_map]
    apply List.map_congr_left
    intro i hi
    have hi' : i < M := List.mem_range.1 hi
    have hM : 0 < M := by omega
    simp only [Function.comp]
    have h1 : (n * M + i) / M = n := by
      rw [Nat.mul_comm, Nat.mul_add_div hM, Nat.div_eq_of_lt hi']; rfl
    have h2 : (n * M + i) % M = i := by
      rw [Nat.mul_comm, Nat.mul_add_mod, Nat.mod_eq_of_lt hi']
    rw [h1, h2]

/-- `contexts` enumerates `ctxAt` in order. -/
theorem contexts_env (pre : List PNode) : ∀ (shape : List Nat) (env : Env),
    (contexts pre shape env).map (·.2) = (List.range (count pre shape)).map (ctxAt pre shape env) := by
  induction pre with
  | nil => intro shape env; simp [contexts, count, ctxAt]
  | cons n r ih =>
    intro shape env
    cases n with
    | storage id l ts p => simpa only [contexts, count, ctxAt] using ih shape env
    | loop id rv tile =>
      simp only [contexts, count, ctxAt, List.map_flatMap, ih]
      exact flatMap_uniform _ _ (fun j i => ctxAt r (shape.set rv tile) ((id, j) :: env) i)

theorem contexts_length (pre : List PNode) (shape : List Nat) (env : Env) :
    (contexts pre shape env).length = count pre shape := by
  have := congrArg List.length (contexts_env pre shape env)
  simpa using this

/-- loops not below do not change -/
theorem envGet_ctxAt_other (pre : List PNode) (x : NodeId) : ∀ (shape : List Nat) (env : Env) (i : Nat),
    x ∉ loopIds pre → envGet (ctxAt pre shape env i) x = envGet env x := by
  induction pre with
  | nil => intro shape env i _; rfl
  | cons n r ih =>
    intro shape env i hx
    cases n with
    | storage id l ts p => exact ih shape env i hx
    | loop id rv tile =>
      simp only [loopIds, List.mem_cons, not_or] at hx
      simp only [ctxAt]
      rw [ih _ _ _ hx.2]
      simp only [envGet]
      rw [if_neg (fun h => hx.1 h.symm)]

/-- projection of an environment on a list of loops -/
def proj (A : List NodeId) (env : Env) : List (Option Nat) := A.map (envGet env)

theorem proj_congr (A : List NodeId) (e1 e2 : Env) (h : ∀ x ∈ A, envGet e1 x = envGet e2 x) : proj A e1 = proj A e2 :=
  List.map_congr_left h

/-- **Contiguity.** `A` = the outermost loops of the nest (a prefix of its loop ids, which are distinct): the instants that
agree with a given one on the indices of `A` form an interval of the execution order. -/
theorem proj_convex (pre : List PNode) : ∀ (A : List NodeId) (shape : List Nat) (env : Env) (i j k : Nat),
    A <+: loopIds pre → (loopIds pre).Nodup → i ≤ j → j ≤ k → k < count pre shape →
    proj A (ctxAt pre shape env i) = proj A (ctxAt pre shape env k) →
    proj A (ctxAt pre shape env j) = proj A (ctxAt pre shape env i) := by
  induction pre with
  | nil =>
    intro A shape env i j k hA _ _ _ _ _
    rfl
  | cons n r ih =>
    intro A shape env i j k hA hnd hij hjk hk heq
    cases n with
    | storage id l ts p => exact ih A shape env i j k hA hnd hij hjk hk heq
    | loop id rv tile =>
      simp only [loopIds] at hA hnd
      cases A with
      | nil => rfl
      | cons a A' =>
        have ha : a = id := by
          obtain ⟨t, ht⟩ := hA
          simp only [List.cons_append, List.cons.injEq] at ht
          exact ht.1
        subst ha
        have hA' : A' <+: loopIds r := by
          obtain ⟨t, ht⟩ := hA
          simp only [List.cons_append, List.cons.injEq] at ht
          exact ⟨t, ht.2⟩
        have hnd' := (List.nodup_cons.1 hnd)
        simp only [count] at hk
        generalize hM : count r (shape.set rv tile) = M at hk
        have hMpos : 0 < M := by
          rcases Nat.eq_zero_or_pos M with h | h
          · subst h; simp at hk
          · exact h
        simp only [ctxAt, hM, proj, List.map_cons] at heq ⊢
        have hget : ∀ q i', envGet (ctxAt r (shape.set rv tile) ((a, q) :: env) i') a = some q := by
          intro q i'
          rw [envGet_ctxAt_other r a _ _ _ hnd'.1]
          simp [envGet]
        rw [hget, hget] at heq
        rw [hget, hget]
        simp only [List.cons.injEq, Option.some.injEq] at heq
        obtain ⟨hq, hrest⟩ := heq
        have hqj : j / M = i / M := by
          have h1 : i / M ≤ j / M := Nat.div_le_div_right hij
          have h2 : j / M ≤ k / M := Nat.div_le_div_right hjk
          omega
        have hi := Nat.div_add_mod i M
        have hj := Nat.div_add_mod j M
        have hk' := Nat.div_add_mod k M
        rw [hqj] at hj
        rw [← hq] at hk'
        rw [hqj]
        simp only [List.cons.injEq, true_and]
        rw [← hq] at hrest
        have := ih A' (shape.set rv tile) ((a, i / M) :: env) (i % M) (j % M) (k % M) hA' hnd'.2
          (by omega) (by omega) (by rw [hM]; exact Nat.mod_lt _ hMpos) hrest
        exact this

end AFV.FusedPeak
