import AFV.Lemmas.NestScale
import Mathlib.Data.List.Forall2
/-!
# `simple` over the rationals (real architecture) = `simpleN` scaled, table entry by table entry
-/
namespace AFV.NestExec
open AFV.Nest

/-- The rational workload and the natural one describe the same Einsum. -/
structure Compat (wq : Workload Rat) (wn : Workload Nat) : Prop where
  bounds : wq.bounds = wn.bounds.map (fun (n : Nat) => (n : Rat))
  len : wq.tensors.length = wn.tensors.length
  rvs : ∀ t, (wq.tensors.getD t { rvs := [], isOutput := false, bpv := 1 }).rvs
          = (wn.tensors.getD t { rvs := [], isOutput := false, bpv := 1 }).rvs
  out : ∀ t, (wq.tensors.getD t { rvs := [], isOutput := false, bpv := 1 }).isOutput
          = (wn.tensors.getD t { rvs := [], isOutput := false, bpv := 1 }).isOutput

theorem relChild_head (arch : Arch Rat) (wq : Workload Rat) (t : TId) (tq : CTable Rat) (tn : CTable Nat)
    (h : List.Forall₂ (RelE arch wq t) tq tn) : RelChild (tq.head?.map (·.2)) (tn.head?.map (·.2)) := by
  cases h with
  | nil => simp [RelChild]
  | cons hx _ => exact ⟨hx.2.r, hx.2.w, hx.2.k⟩

theorem set_cast (shape : List Nat) (rv : RV) (tile : Nat) :
    (shape.map (fun (n : Nat) => (n : Rat))).set rv (tile : Rat) = (shape.set rv tile).map (fun (n : Nat) => (n : Rat)) := by
  rw [List.map_set]

theorem relevant_eq (wq : Workload Rat) (t : TId) (rv : RV) :
    wq.relevant t rv = (wq.tensors.getD t { rvs := [], isOutput := false, bpv := 1 }).rvs.contains rv := by
  unfold Workload.relevant
  simp only [List.getD_eq_getElem?_getD]
  cases wq.tensors[t]? <;> simp

theorem simple_rel (arch : Arch Rat) (wq : Workload Rat) (wn : Workload Nat) (hc : Compat wq wn) (t : TId) (m : Mapping Nat) :
    ∀ (hp hp' : Bool) (shape : List Nat), wfT arch (tinfo arch wn t) hp' shape m →
      List.Forall₂ (RelE arch wq t)
        (simple { arch := arch, w := wq, t := t } hp (shape.map (fun (n : Nat) => (n : Rat))) (castMapping m))
        (simpleN arch (tinfo arch wn t) hp shape m) := by
  induction m with
  | nil => intro hp hp' shape h; exact absurd h (by simp [wfT])
  | cons nd rest ih =>
    intro hp hp' shape hwf
    have hrvs := hc.rvs t
    have hout := hc.out t
    cases nd with
    | compute =>
      simp only [castMapping, List.map_cons, castNode, simple, simpleN, Ctx.spec, tinfo]
      refine List.Forall₂.cons ⟨rfl, ?_⟩ List.Forall₂.nil
      rw [hout]
      constructor <;> simp [computeCounts, Counts.zero] <;> split <;> simp
    | loop rv tile =>
      obtain ⟨hrv, htile, hpos, hdvd, hwr⟩ := hwf
      simp only [castMapping, List.map_cons, castNode, simple, simpleN]
      have hn : getShape (shape.map (fun (n : Nat) => (n : Rat))) rv / (tile : Rat) = ((shape.getD rv 1 / tile : Nat) : Rat) := by
        rw [getShape_cast, Nat.cast_div hdvd (by exact_mod_cast (Nat.pos_iff_ne_zero.1 htile))]
      rw [hn, set_cast]
      have ih' := ih hp hp' (shape.set rv tile) hwr
      simp only [castMapping] at ih'
      rw [List.forall₂_map_left_iff, List.forall₂_map_right_iff]
      refine List.Forall₂.imp ?_ ih'
      rintro ⟨kq, cq⟩ ⟨kn, cn⟩ ⟨hk, hrel⟩
      refine ⟨hk, ?_⟩
      have hrl : wq.relevant t rv = (tinfo arch wn t).rvs.contains rv := by
        rw [relevant_eq, hrvs]; rfl
      simp only [hrl]
      exact repeat_rel _ _ _ _ _ _ hrel
    | storage l ts lo =>
      simp only [castMapping, List.map_cons, castNode, simple, simpleN]
      have htt : (tinfo arch wn t).t = t := rfl
      rw [htt]
      by_cases hts : ts.contains t = true
      · simp only [wfT, htt, hts, if_true] at hwf ⊢
        have ih' := ih true true shape hwf.2
        simp only [castMapping] at ih'
        refine List.Forall₂.cons ⟨rfl, ?_⟩ ih'
        have := holder_rel (lvlOf arch l) t ({ arch := arch, w := wq, t := t } : Ctx Rat).spec false hp shape _ _
          (relChild_head arch wq t _ _ ih')
        simp only [Ctx.spec, hrvs, hout] at this ⊢
        exact this
      · have hts' : ts.contains t = false := by simpa using hts
        simp only [wfT, htt, hts', Bool.false_eq_true, if_false] at hwf ⊢
        exact ih hp hp' shape hwf
    | toll l ts lo =>
      simp only [castMapping, List.map_cons, castNode, simple, simpleN]
      have htt : (tinfo arch wn t).t = t := rfl
      rw [htt]
      by_cases hts : ts.contains t = true
      · simp only [wfT, htt, hts, if_true] at hwf ⊢
        have ih' := ih true true shape hwf.2.2
        simp only [castMapping] at ih'
        refine List.Forall₂.cons ⟨rfl, ?_⟩ ih'
        have := holder_rel (lvlOf arch l) t ({ arch := arch, w := wq, t := t } : Ctx Rat).spec true hp shape _ _
          (relChild_head arch wq t _ _ ih')
        simp only [Ctx.spec, hrvs, hout] at this ⊢
        exact this
      · have hts' : ts.contains t = false := by simpa using hts
        simp only [wfT, htt, hts', Bool.false_eq_true, if_false] at hwf ⊢
        exact ih hp hp' shape hwf

end AFV.NestExec
