import AFV.Lemmas.PeakLeaf
/-!
# PeakLeaf2 — a single-Einsum tree is a `Nest`: the descriptors of `descsAux`
-/
namespace AFV.FusedPeak

def pathIds : List (PNode × Bool) → List NodeId
  | [] => []
  | (.storage _ _ _ _, _) :: r => pathIds r
  | (.loop id _ _, _) :: r => id :: pathIds r

theorem pathIds_map (pre : List PNode) (b : Bool) : pathIds (pre.map (fun n => (n, b))) = loopIds pre := by
  induction pre with
  | nil => rfl
  | cons n r ih => cases n <;> simp [pathIds, loopIds, ih]

theorem pathIds_own (own : List TId) (p : List (PNode × Bool)) : pathIds (ownPath own p) = pathIds p := by
  induction p with
  | nil => rfl
  | cons n r ih =>
    obtain ⟨n, s⟩ := n
    cases n with
    | storage id l ts pp =>
      simp only [ownPath, pathIds]
      split <;> simp [pathIds, ih]
    | loop id rv tile => simp [ownPath, pathIds, ih]

theorem pathIds_append (a b : List (PNode × Bool)) : pathIds (a ++ b) = pathIds a ++ pathIds b := by
  induction a with
  | nil => rfl
  | cons n r ih =>
    obtain ⟨n, s⟩ := n
    cases n <;> simp [pathIds, ih]

theorem pathIds_storages (id : NodeId) (l : Lvl) (p : Bool) (s : Bool) (ts : List TId) :
    pathIds (ts.map (fun t => (PNode.storage id l [t] p, s))) = [] := by
  induction ts with
  | nil => rfl
  | cons t r ih => simp [pathIds, ih]

theorem pathIds_split (p : List (PNode × Bool)) : pathIds (splitPath p) = pathIds p := by
  induction p with
  | nil => rfl
  | cons n r ih =>
    obtain ⟨n, s⟩ := n
    cases n with
    | storage id l ts pp => simp [splitPath, pathIds, pathIds_append, pathIds_storages, ih]
    | loop id rv tile => simp [splitPath, pathIds, ih]

theorem flags_own (own : List TId) (p : List (PNode × Bool)) (h : ∀ x ∈ p, x.2 = false) : ∀ x ∈ ownPath own p, x.2 = false := by
  induction p with
  | nil => intro x hx; simp [ownPath] at hx
  | cons n r ih =>
    obtain ⟨n, s⟩ := n
    have hs : s = false := h (n, s) List.mem_cons_self
    have hr : ∀ x ∈ r, x.2 = false := fun x hx => h x (List.mem_cons_of_mem _ hx)
    intro x hx
    cases n with
    | storage id l ts pp =>
      simp only [ownPath] at hx
      split at hx
      · exact ih hr x hx
      · rcases List.mem_cons.1 hx with rfl | hx
        · exact hs
        · exact ih hr x hx
    | loop id rv tile =>
      simp only [ownPath] at hx
      rcases List.mem_cons.1 hx with rfl | hx
      · exact hs
      · exact ih hr x hx

theorem flags_split (p : List (PNode × Bool)) (h : ∀ x ∈ p, x.2 = false) : ∀ x ∈ splitPath p, x.2 = false := by
  induction p with
  | nil => intro x hx; simp [splitPath] at hx
  | cons n r ih =>
    obtain ⟨n, s⟩ := n
    have hs : s = false := h (n, s) List.mem_cons_self
    have hr : ∀ x ∈ r, x.2 = false := fun x hx => h x (List.mem_cons_of_mem _ hx)
    intro x hx
    cases n with
    | storage id l ts pp =>
      simp only [splitPath, List.mem_append, List.mem_map] at hx
      rcases hx with ⟨t, _, rfl⟩ | hx
      · exact hs
      · exact ih hr x hx
    | loop id rv tile =>
      simp only [splitPath] at hx
      rcases List.mem_cons.1 hx with rfl | hx
      · exact hs
      · exact ih hr x hx

theorem firstShared_none (l : List (PNode × Bool)) : ∀ (a : List NodeId), (∀ x ∈ l, x.2 = false) → firstShared l a = none := by
  induction l with
  | nil => intro a _; rfl
  | cons n r ih =>
    intro a h
    obtain ⟨n, s⟩ := n
    have hs : s = false := h (n, s) List.mem_cons_self
    have hr : ∀ x ∈ r, x.2 = false := fun x hx => h x (List.mem_cons_of_mem _ hx)
    subst hs
    cases n with
    | storage id l ts pp => simp only [firstShared]; exact ih a hr
    | loop id rv tile => simp only [firstShared, Bool.false_eq_true, if_false]; exact ih _ hr

theorem dropLoops_subset (l : List (PNode × Bool)) : ∀ (k : Nat) (x : PNode × Bool), x ∈ dropLoops k l → x ∈ l := by
  induction l with
  | nil => intro k x hx; cases k <;> simp [dropLoops] at hx
  | cons n r ih =>
    intro k x hx
    cases k with
    | zero => simpa [dropLoops] using hx
    | succ k =>
      obtain ⟨n, s⟩ := n
      cases n with
      | storage id l ts pp =>
        simp only [dropLoops] at hx
        exact List.mem_cons_of_mem _ (ih _ x hx)
      | loop id rv tile =>
        simp only [dropLoops] at hx
        exact List.mem_cons_of_mem _ (ih _ x hx)

theorem lower_prefix (w : Workload) (t : TId) (r : List (PNode × Bool)) : ∀ (shape : List Nat),
    (lower w t r shape).1 <+: pathIds r := by
  induction r with
  | nil => intro shape; simp [lower, pathIds]
  | cons n r ih =>
    intro shape
    obtain ⟨n, s⟩ := n
    cases n with
    | storage id l ts pp => simp [lower, pathIds]
    | loop id rv tile =>
      simp only [lower, pathIds]
      split
      · have := ih (shape.set rv tile)
        rcases hl : lower w t r (shape.set rv tile) with ⟨ls, sh⟩
        rw [hl] at this
        simp only
        exact (List.prefix_cons_inj id).2 this
      · simp

/-- the descriptor of tensor `t` in a holder -/
def mkDesc (w : Workload) (id : NodeId) (l : Lvl) (pers : Bool) (r : List (PNode × Bool)) (seen : List TId) (above : List NodeId)
    (shape : List Nat) (t : TId) : Desc :=
  let first := !seen.contains t
  let lw := if first then ([], shape) else lower w t r shape
  let bits := (w.bits.getD l []).getD t 0
  { holder := id, tensor := t, lvl := l, allocLoops := above ++ lw.1,
    size := (tileElems w t lw.2 : Rat) * bits * (if pers then w.nInstances else 1),
    persistent := pers, first := first,
    closure := firstShared (dropLoops lw.1.length r) (above ++ lw.1) }

theorem descsAux_storage (w : Workload) (id : NodeId) (l : Lvl) (ts : List TId) (pers s : Bool) (r : List (PNode × Bool))
    (seen : List TId) (above : List NodeId) (shape : List Nat) :
    descsAux w ((.storage id l ts pers, s) :: r) seen above shape
      = ts.map (mkDesc w id l pers r seen above shape) ++ descsAux w r (seen ++ ts) above shape := by
  simp only [descsAux]
  congr 1

theorem mkDesc_alloc_prefix (w : Workload) (id : NodeId) (l : Lvl) (pers : Bool) (r : List (PNode × Bool)) (seen : List TId)
    (above : List NodeId) (shape : List Nat) (t : TId) :
    (mkDesc w id l pers r seen above shape t).allocLoops <+: above ++ pathIds r := by
  simp only [mkDesc]
  apply (List.prefix_append_right_inj above).2
  split
  · exact List.nil_prefix
  · exact lower_prefix w t r shape

theorem alloc_prefix (w : Workload) (path : List (PNode × Bool)) : ∀ (seen : List TId) (above : List NodeId) (shape : List Nat),
    ∀ d ∈ descsAux w path seen above shape, d.allocLoops <+: above ++ pathIds path := by
  induction path with
  | nil => intro seen above shape d hd; simp [descsAux] at hd
  | cons n r ih =>
    intro seen above shape d hd
    obtain ⟨n, s⟩ := n
    cases n with
    | storage id l ts pp =>
      rw [descsAux_storage] at hd
      simp only [pathIds]
      rcases List.mem_append.1 hd with hd | hd
      · obtain ⟨t, _, rfl⟩ := List.mem_map.1 hd
        exact mkDesc_alloc_prefix ..
      · exact ih _ _ _ d hd
    | loop id rv tile =>
      simp only [descsAux] at hd
      have := ih _ _ _ d hd
      simpa [pathIds] using this

theorem closure_none_aux (w : Workload) (path : List (PNode × Bool)) (h : ∀ x ∈ path, x.2 = false) :
    ∀ (seen : List TId) (above : List NodeId) (shape : List Nat),
    ∀ d ∈ descsAux w path seen above shape, d.closure = none := by
  induction path with
  | nil => intro seen above shape d hd; simp [descsAux] at hd
  | cons n r ih =>
    intro seen above shape d hd
    obtain ⟨n, s⟩ := n
    have hr : ∀ x ∈ r, x.2 = false := fun x hx => h x (List.mem_cons_of_mem _ hx)
    cases n with
    | storage id l ts pp =>
      rw [descsAux_storage] at hd
      rcases List.mem_append.1 hd with hd | hd
      · obtain ⟨t, _, rfl⟩ := List.mem_map.1 hd
        simp only [mkDesc]
        exact firstShared_none _ _ (fun x hx => hr x (dropLoops_subset _ _ _ hx))
      · exact ih hr _ _ _ d hd
    | loop id rv tile =>
      simp only [descsAux] at hd
      exact ih hr _ _ _ d hd

/-- the (own, split) path of the single Einsum -/
def leafPath (w : Workload) (pre : List PNode) (e : Nat) : List (PNode × Bool) :=
  splitPath (ownPath (w.einsums.getD e []) (pre.map (fun n => (n, false))))

theorem descsOf_leaf (w : Workload) (pre : List PNode) (e : Nat) :
    descsOf w (.leaf pre e) e = descsAux w (leafPath w pre e) [] [] w.bounds := by
  simp [descsOf, pathsT, leafPath]

theorem leafPath_ids (w : Workload) (pre : List PNode) (e : Nat) : pathIds (leafPath w pre e) = loopIds pre := by
  simp only [leafPath, pathIds_split, pathIds_own, pathIds_map]

theorem leafPath_flags (w : Workload) (pre : List PNode) (e : Nat) : ∀ x ∈ leafPath w pre e, x.2 = false := by
  apply flags_split
  apply flags_own
  intro x hx
  obtain ⟨n, _, rfl⟩ := List.mem_map.1 hx
  rfl

theorem events_leaf (w : Workload) (pre : List PNode) (e : Nat) :
    eventsT (.leaf pre e) w.bounds [] = (List.range (count pre w.bounds)).map (fun i => (e, ctxAt pre w.bounds [] i)) := by
  have h := contexts_env pre w.bounds []
  have : (contexts pre w.bounds []).map (fun c => (e, c.2)) = ((contexts pre w.bounds []).map (·.2)).map (fun env => (e, env)) := by
    rw [List.map_map]; rfl
  simp only [eventsT]
  rw [this, h, List.map_map]
  rfl

end AFV.FusedPeak
