import AFV.Lemmas.SearchTol
/-!
# Metric consistency, EDP re-pruning, relaxations, schedule independence, class renaming

* `metric_consistency` — over any finite set of non-negative points, the minimum of a column over the
  front equals its minimum over the set; same for the product of the first two columns (EDP).
* `edp_column`, `edp_reprune` — the EDP column is energy × latency, and pruning on (E, L, …), applying
  `_apply_edp_columns` and pruning again equals applying it to all rows and pruning once.
* `relax_mono` and abstract mapspace-inclusion corollaries (C18).
* `joinStep_split`, `front_flatten_perm`, `ffm_congr` … — nothing depends on row order, on the order in
  which parts are completed, or on splitting a table for fan-out (C20).
* `allCombos_mapKey` — replacing compatibility classes by representatives of an equivalence that
  `merge_next` respects changes neither which combinations exist nor their costs (C13 `perm_equiv`).
-/
set_option linter.unusedSectionVars false

namespace AFV.Search
open AFV.Front

variable {K : Type} [DecidableEq K]

/-! ## Columns and products -/

/-- Column `i` of a vector (0 if absent). -/
def col (i : Nat) (v : Vec) : Int := v.getD i 0

theorem col_mono : ∀ (i : Nat) {a b : Vec}, leqAll a b = true → col i a ≤ col i b
  | _, [], [], _ => by simp [col]
  | _, [], _ :: _, h => by simp [leqAll] at h
  | _, _ :: _, [], h => by simp [leqAll] at h
  | 0, x :: xs, y :: ys, h => by
    simp only [leqAll, Bool.and_eq_true, decide_eq_true_eq] at h
    simpa [col] using h.1
  | i + 1, x :: xs, y :: ys, h => by
    simp only [leqAll, Bool.and_eq_true, decide_eq_true_eq] at h
    have := col_mono i h.2
    simpa [col] using this

/-- Energy–delay product of a row whose first two columns are energy and latency. -/
def edp (v : Vec) : Int := col 0 v * col 1 v

theorem col_nonneg {v : Vec} (hv : ∀ x ∈ v, 0 ≤ x) (i : Nat) : 0 ≤ col i v := by
  unfold col
  rw [List.getD_eq_getElem?_getD]
  cases h : v[i]? with
  | none => simp
  | some x => exact hv x (List.mem_of_getElem? h)

theorem edp_mono {a b : Vec} (ha : ∀ x ∈ a, 0 ≤ x) (h : leqAll a b = true) : edp a ≤ edp b := by
  unfold edp
  have h0 := col_mono 0 h
  have h1 := col_mono 1 h
  have a0 := col_nonneg ha 0
  have a1 := col_nonneg ha 1
  exact Int.mul_le_mul h0 h1 a1 (Int.le_trans a0 h0)

/-- **`metric_consistency`.** For every finite set `S` of points with non-negative coordinates
(energy, latency, …): the minimum energy over the front of `S` is the minimum energy over `S`, the same
for latency (and any column), and the minimum energy × latency over the front is the minimum over `S`. -/
theorem metric_consistency (S : List Vec) (hS : ∀ v ∈ S, ∀ x ∈ v, 0 ≤ x) :
    (∀ i, minOf (col i) (front S) = minOf (col i) S) ∧ minOf edp (front S) = minOf edp S :=
  ⟨fun i => minOf_front (fun _ _ _ _ h => col_mono i h),
   minOf_front (fun a ha _ _ h => edp_mono (hS a ha) h)⟩

/-- A front computed on fewer columns: the single-metric optimum is the minimum of that column over
the multi-metric front (what "ENERGY alone" returns vs. the ENERGY|LATENCY front). -/
theorem front_single_column (S : List Vec) (i : Nat) :
    front (S.map (fun v => [col i v])) = front ((front S).map (fun v => [col i v])) := by
  symm
  apply front_map_mono
  intro a _ b _ h
  simp [leqAll, col_mono i h]

theorem sle_col {a b : Int} : ∀ (i : Nat) {y x : Vec}, sle a b y x → b * col i y ≤ a * col i x
  | _, [], [], _ => by simp [col]
  | _, [], _ :: _, h => by cases h
  | _, _ :: _, [], h => by cases h
  | 0, y :: ys, x :: xs, h => by simpa [col] using h.1
  | i + 1, y :: ys, x :: xs, h => by simpa [col] using sle_col i h.2

/-- Two columns each within the factor `a / b` ⇒ their product within `a² / b²`. -/
theorem edp_sle {a b : Int} (ha : 0 ≤ a) (hb : 0 ≤ b) {y x : Vec} (hy : ∀ u ∈ y, 0 ≤ u)
    (hx : ∀ u ∈ x, 0 ≤ u) (h : sle a b y x) : (b * b) * edp y ≤ (a * a) * edp x := by
  have h0 := sle_col 0 h
  have h1 := sle_col 1 h
  have y1 := col_nonneg hy 1
  have x0 := col_nonneg hx 0
  have e := Int.mul_le_mul h0 h1 (Int.mul_nonneg hb y1) (Int.mul_nonneg ha x0)
  unfold edp
  grind

/-- Best energy × latency over a table. -/
def bestEdp (cs : List (Cand K)) : Option Int := minOf (fun c => edp c.obj) cs

/-- With an approximate reduction of factor `a / b` per column, the best EDP is never below the true
optimum and at most `a² / b²` times it: for EDP the documented factor `(1 + t)` **squares**. -/
theorem bestEdp_of_acov {a b : Int} (ha : 0 ≤ a) (hb : 0 ≤ b) {A' A : List (Cand K)}
    (hA : ∀ c ∈ A, ∀ u ∈ c.obj, 0 ≤ u) (h : ACov a b A' A) {m : Int} (hm : bestEdp A = some m) :
    ∃ m', bestEdp A' = some m' ∧ m ≤ m' ∧ (b * b) * m' ≤ (a * a) * m := by
  obtain ⟨⟨x, hx, hxm⟩, hlb⟩ := minOf_eq_some.1 hm
  obtain ⟨y, hy, _, ho, _⟩ := h.cov x hx
  cases hA' : bestEdp A' with
  | none =>
    have : A' = [] := minOf_eq_none.1 hA'
    rw [this] at hy; cases hy
  | some m' =>
    obtain ⟨⟨z, hz, hzm⟩, hlb'⟩ := minOf_eq_some.1 hA'
    refine ⟨m', rfl, ?_, ?_⟩
    · rw [← hzm]; exact hlb z (h.sub z hz)
    · have h1 : m' ≤ edp y.obj := hlb' y hy
      have h2 := edp_sle ha hb (hA y (h.sub y hy)) (hA x hx) ho
      have h3 := Int.mul_le_mul_of_nonneg_left h1 (Int.mul_nonneg hb hb)
      rw [hxm] at h2
      omega

/-! ## `_apply_edp_columns` -/

/-- `edp_column`: the appended column is energy × latency, for every row and every flag combination. -/
theorem edp_column (wantE wantL : Bool) (e l : Int) (rest : Vec) :
    (applyEdp true wantE wantL (e :: l :: rest)).getLast? = some (e * l) := by
  simp [applyEdp]

theorem applyEdp_false (wantE wantL : Bool) (v : Vec) : applyEdp false wantE wantL v = v := by
  unfold applyEdp
  split <;> simp

theorem leqAll_singleton {x y : Int} : leqAll [x] [y] = true ↔ x ≤ y := by simp [leqAll]

theorem leqAll_ite_singleton (c : Bool) {x y : Int} (h : x ≤ y) :
    leqAll (if c then [x] else []) (if c then [y] else []) = true := by
  cases c <;> simp [leqAll, h]

/-- `_apply_edp_columns` is monotone on rows with non-negative energy and latency. -/
theorem applyEdp_mono (wantEdp wantE wantL : Bool) : ∀ {a b : Vec},
    (∀ x ∈ a, 0 ≤ x) → leqAll a b = true →
    leqAll (applyEdp wantEdp wantE wantL a) (applyEdp wantEdp wantE wantL b) = true
  | [], [], _, _ => by simp [applyEdp, leqAll]
  | [], _ :: _, _, h => by simp [leqAll] at h
  | _ :: _, [], _, h => by simp [leqAll] at h
  | [x], [y], _, h => by simpa [applyEdp] using h
  | [_], _ :: _ :: _, _, h => by simp [leqAll] at h
  | _ :: _ :: _, [_], _, h => by simp [leqAll] at h
  | e :: l :: rest, e' :: l' :: rest', ha, h => by
    cases wantEdp with
    | false => simpa [applyEdp] using h
    | true =>
      simp only [leqAll, Bool.and_eq_true, decide_eq_true_eq] at h
      obtain ⟨he, hl, hrest⟩ := h
      have he0 : 0 ≤ e := ha e (by simp)
      have hl0 : 0 ≤ l := ha l (by simp)
      simp only [applyEdp, if_true]
      refine leqAll_append (leqAll_append (leqAll_append (leqAll_ite_singleton _ he)
        (leqAll_ite_singleton _ hl)) hrest) ?_
      exact leqAll_singleton.2 (Int.mul_le_mul he hl hl0 (Int.le_trans he0 he))

/-- **`edp_reprune`.** Pruning on (E, L, …), mapping rows through `_apply_edp_columns` and pruning
again gives the same front as mapping all rows and pruning once — in particular for EDP alone: the
front of `E·L` over the (E, L)-front is the front of `E·L` over everything. -/
theorem edp_reprune (wantEdp wantE wantL : Bool) (S : List Vec) (hS : ∀ v ∈ S, ∀ x ∈ v, 0 ≤ x) :
    front ((front S).map (applyEdp wantEdp wantE wantL)) =
      front (S.map (applyEdp wantEdp wantE wantL)) :=
  front_map_mono _ (fun a ha _ _ h => applyEdp_mono wantEdp wantE wantL (hS a ha) h)

/-! ## Relaxations -/

/-- **`relax_mono`.** A minimum over a superset is at most the minimum over the subset
(`none` = no valid mapping = `+∞`). -/
theorem relax_mono {α : Type} (cost : α → Int) {M M' : List α} (h : ∀ x ∈ M, x ∈ M') :
    optLe (minOf cost M') (minOf cost M) := minOf_mono_subset h

/-- Abstract relaxation (C18): `ι` maps every valid mapping of the original mapspace to a valid
mapping of the relaxed one whose cost is not larger (for the relaxations of the property, the same
mapping with the same cost). Then the relaxed optimum is at most the original optimum. -/
theorem relax_map {α β : Type} (ι : α → β) (valid : α → Bool) (valid' : β → Bool)
    (cost : α → Int) (cost' : β → Int) (M : List α) (M' : List β)
    (hι : ∀ x ∈ M, valid x = true → ι x ∈ M' ∧ valid' (ι x) = true ∧ cost' (ι x) ≤ cost x) :
    optLe (minOf cost' (M'.filter valid')) (minOf cost (M.filter valid)) := by
  apply minOf_le_of_cover
  intro x hx
  rw [List.mem_filter] at hx
  obtain ⟨h1, h2, h3⟩ := hι x hx.1 hx.2
  exact ⟨ι x, List.mem_filter.2 ⟨h1, h2⟩, h3⟩

/-- Member-wise inclusion of tables gives inclusion of the sets of combinations. -/
theorem allCombos_subtables {ops : Ops K} {tables tables' : List (List (Cand K))}
    (hsub : SubTables tables tables') {s : Cand K} (h : s ∈ allCombos ops tables) :
    s ∈ allCombos ops tables' :=
  (surv_noFilter ops tables' s).1
    (surv_subtables (F := noFilter) (fun _ _ _ hk => hk) hsub ((surv_noFilter ops tables s).2 h))

/-- Mapspace inclusion for the abstract mapper: more candidates per Einsum (larger `may_keep`, smaller
`keep`, fewer loop-bound constraints, higher fused-loop limit, lower `min_usage`, imperfect
factorisation — each of these only *adds* pmappings) and/or a larger capacity can only enlarge the
set of valid combinations. -/
theorem validCombos_relax {ops : Ops K} {cap cap' : Int} (hcap : cap ≤ cap')
    {tables tables' : List (List (Cand K))} (hsub : SubTables tables tables') {s : Cand K}
    (h : s ∈ validCombos ops cap tables) : s ∈ validCombos ops cap' tables' := by
  simp only [validCombos, List.mem_filter] at h ⊢
  exact ⟨allCombos_subtables hsub h.1, fits_mono_cap hcap h.2⟩

/-- The optimum found by the pipeline never gets worse under such a relaxation. -/
theorem ffm_relax_mono {ops : Ops K} (hr : RMono ops) (hc : CapClosed ops) {cap cap' : Int}
    (hcap : cap ≤ cap') {w : Vec} (hw : ∀ u ∈ w, 0 ≤ u)
    {tables tables' : List (List (Cand K))} (hsub : SubTables tables tables') :
    optLe (best w (ffm ops cap' tables')) (best w (ffm ops cap tables)) := by
  rw [ffm_best_eq_exact_best hr hc cap' hw, ffm_best_eq_exact_best hr hc cap hw]
  exact relax_mono _ (fun s hs => validCombos_relax hcap hsub hs)

/-! ## Independence of order, fan-out and completion order -/

theorem subTables_refl : ∀ tables : List (List (Cand K)), SubTables tables tables
  | [] => trivial
  | _ :: Ts => ⟨fun _ h => h, subTables_refl Ts⟩

/-- Tables with the same rows (in any order, with any multiplicities) table by table. -/
def SameTables (tables tables' : List (List (Cand K))) : Prop :=
  SubTables tables tables' ∧ SubTables tables' tables

/-- Table by table, the rows are permuted. -/
def PermTables : List (List (Cand K)) → List (List (Cand K)) → Prop
  | [], [] => True
  | T :: Ts, T' :: Ts' => T.Perm T' ∧ PermTables Ts Ts'
  | _, _ => False

theorem sameTables_of_perm : ∀ {tables tables' : List (List (Cand K))},
    PermTables tables tables' → SameTables tables tables'
  | [], [], _ => ⟨trivial, trivial⟩
  | [], _ :: _, h => by cases h
  | _ :: _, [], h => by cases h
  | _ :: _, _ :: _, h =>
    ⟨⟨fun _ hx => h.1.mem_iff.1 hx, (sameTables_of_perm h.2).1⟩,
     ⟨fun _ hx => h.1.mem_iff.2 hx, (sameTables_of_perm h.2).2⟩⟩

theorem joinExact_congr {ops : Ops K} (cap : Int) {tables tables' : List (List (Cand K))}
    (h : SameTables tables tables') :
    SetEq (joinExact ops cap tables) (joinExact ops cap tables') :=
  frontL_congr (fun _ => ⟨validCombos_relax (Int.le_refl _) h.1, validCombos_relax (Int.le_refl _) h.2⟩)

/-- The result of the pipeline depends only on the *sets* of rows of the per-Einsum tables: not on row
order, duplicates, or the order in which parallel jobs delivered the rows. -/
theorem ffm_congr {ops : Ops K} (hr : RMono ops) (hc : CapClosed ops) (cap : Int)
    {tables tables' : List (List (Cand K))} (h : SameTables tables tables') :
    SetEq (ffm ops cap tables) (ffm ops cap tables') :=
  ((ffm_eq_joinExact hr hc cap tables).trans (joinExact_congr cap h)).trans
    (ffm_eq_joinExact hr hc cap tables').symm

theorem cross_append_left (ops : Ops K) (A₁ A₂ B : List (Cand K)) :
    cross ops (A₁ ++ A₂) B = cross ops A₁ B ++ cross ops A₂ B := by
  simp [cross, List.flatMap_append]

/-- **`split_in_half` fan-out.** Splitting the left table into two parts (at any point), merging each
part with the right table separately (each with its own `limit_capacity` and `make_pareto`) and pruning
the concatenation gives the same front as the unsplit merge. -/
theorem joinStep_split (ops : Ops K) (cap : Int) (A₁ A₂ B : List (Cand K)) :
    SetEq (joinStep ops cap (A₁ ++ A₂) B)
      (prune (joinStep ops cap A₁ B ++ joinStep ops cap A₂ B)) := by
  unfold joinStep
  rw [cross_append_left, List.filter_append]
  exact frontL_union cle_po _ _

/-- Any number of pieces, merged in any order of completion. -/
theorem prune_flatten_perm {L L' : List (List (Cand K))} (h : L.Perm L') :
    SetEq (prune L.flatten) (prune L'.flatten) := by
  apply frontL_congr
  intro x
  simp only [List.mem_flatten]
  constructor
  · rintro ⟨l, hl, hx⟩; exact ⟨l, h.mem_iff.1 hl, hx⟩
  · rintro ⟨l, hl, hx⟩; exact ⟨l, h.mem_iff.2 hl, hx⟩

/-- The same for plain vectors, with `=` on canonical fronts. -/
theorem front_flatten_perm {L L' : List (List Vec)} (h : L.Perm L') :
    front L.flatten = front L'.flatten := by
  apply front_congr
  intro x
  simp only [List.mem_flatten]
  constructor
  · rintro ⟨l, hl, hx⟩; exact ⟨l, h.mem_iff.1 hl, hx⟩
  · rintro ⟨l, hl, hx⟩; exact ⟨l, h.mem_iff.2 hl, hx⟩

/-- Consolidation order is irrelevant: grouping any permutation of the groups gives the same table. -/
theorem consolidate_perm {gs gs' : List (Group K)} (h : gs.Perm gs') :
    SetEq (flatten (consolidate gs)) (flatten (consolidate gs')) := by
  refine (group_consolidate_sound gs).trans (SetEq.trans ?_ (group_consolidate_sound gs').symm)
  apply frontL_congr
  intro x
  simp only [flatten, List.mem_flatMap]
  constructor
  · rintro ⟨g, hg, hx⟩; exact ⟨g, h.mem_iff.1 hg, hx⟩
  · rintro ⟨g, hg, hx⟩; exact ⟨g, h.mem_iff.2 hg, hx⟩

/-! ## Renaming compatibility classes -/

section MapKey
variable {K' : Type} [DecidableEq K']

/-- `ρ` sends classes to representatives in a way the join respects: joinability, the class of the
result and the reservation algebra are unchanged. -/
structure KeyHom (ops : Ops K) (ops' : Ops K') (ρ : K → K') : Prop where
  kjoin : ∀ k l, ops'.kjoin (ρ k) (ρ l) = (ops.kjoin k l).map ρ
  rjoin : ∀ k l r s, ops'.rjoin (ρ k) (ρ l) r s = ops.rjoin k l r s

theorem combine_mapKey {ops : Ops K} {ops' : Ops K'} {ρ : K → K'} (h : KeyHom ops ops' ρ)
    (a b : Cand K) :
    combine ops' (mapKey ρ a) (mapKey ρ b) = (combine ops a b).map (mapKey ρ) := by
  simp only [combine, mapKey, h.kjoin, h.rjoin]
  cases ops.kjoin a.key b.key <;> rfl

theorem combineFrom_mapKey {ops : Ops K} {ops' : Ops K'} {ρ : K → K'} (h : KeyHom ops ops' ρ) :
    ∀ (cs : List (Cand K)) (a : Cand K),
      combineFrom ops' (mapKey ρ a) (cs.map (mapKey ρ)) = (combineFrom ops a cs).map (mapKey ρ)
  | [], a => rfl
  | c :: cs, a => by
    simp only [List.map_cons, combineFrom, combine_mapKey h]
    cases combine ops a c with
    | none => rfl
    | some q => exact combineFrom_mapKey h cs q

theorem combineAll_mapKey {ops : Ops K} {ops' : Ops K'} {ρ : K → K'} (h : KeyHom ops ops' ρ)
    (cs : List (Cand K)) :
    combineAll ops' (cs.map (mapKey ρ)) = (combineAll ops cs).map (mapKey ρ) := by
  cases cs with
  | nil => rfl
  | cons a cs => exact combineFrom_mapKey h cs a

theorem choices_map {α β : Type} (f : α → β) : ∀ (Ts : List (List α)),
    choices (Ts.map (List.map f)) = (choices Ts).map (List.map f)
  | [] => rfl
  | T :: Ts => by
    simp only [List.map_cons, choices, choices_map f Ts, List.flatMap_map, List.map_flatMap,
      List.map_map]
    rfl

/-- **Class renaming (`perm_equiv`, abstractly).** Replacing every compatibility by its representative
commutes with exhaustive combination: the same combinations exist, with the same objectives and
reservations. -/
theorem allCombos_mapKey {ops : Ops K} {ops' : Ops K'} {ρ : K → K'} (h : KeyHom ops ops' ρ)
    (tables : List (List (Cand K))) :
    allCombos ops' (tables.map (List.map (mapKey ρ))) = (allCombos ops tables).map (mapKey ρ) := by
  unfold allCombos
  rw [choices_map, List.filterMap_map, List.map_filterMap]
  congr 1
  funext cs
  simp [combineAll_mapKey h]

theorem validCombos_mapKey {ops : Ops K} {ops' : Ops K'} {ρ : K → K'} (h : KeyHom ops ops' ρ)
    (cap : Int) (tables : List (List (Cand K))) :
    validCombos ops' cap (tables.map (List.map (mapKey ρ))) =
      (validCombos ops cap tables).map (mapKey ρ) := by
  unfold validCombos
  rw [allCombos_mapKey h, List.filter_map]
  rfl

end MapKey

/-! ## Dropping reservation columns that can never bind ("untracked memories") -/

/-- Apply `π` (e.g. delete the columns of some memories) to the reservation profile. -/
def mapRes (π : Vec → Vec) (c : Cand K) : Cand K := ⟨c.key, c.obj, π c.res⟩

/-- The reservation algebra commutes with `π` (columns of different memories do not interact). -/
structure ResHom (ops ops' : Ops K) (π : Vec → Vec) : Prop where
  kjoin : ∀ k l, ops'.kjoin k l = ops.kjoin k l
  rjoin : ∀ k l r s, ops'.rjoin k l (π r) (π s) = π (ops.rjoin k l r s)

theorem combine_mapRes {ops ops' : Ops K} {π : Vec → Vec} (h : ResHom ops ops' π) (a b : Cand K) :
    combine ops' (mapRes π a) (mapRes π b) = (combine ops a b).map (mapRes π) := by
  simp only [combine, mapRes, h.kjoin, h.rjoin]
  cases ops.kjoin a.key b.key <;> rfl

theorem combineFrom_mapRes {ops ops' : Ops K} {π : Vec → Vec} (h : ResHom ops ops' π) :
    ∀ (cs : List (Cand K)) (a : Cand K),
      combineFrom ops' (mapRes π a) (cs.map (mapRes π)) = (combineFrom ops a cs).map (mapRes π)
  | [], a => rfl
  | c :: cs, a => by
    simp only [List.map_cons, combineFrom, combine_mapRes h]
    cases combine ops a c with
    | none => rfl
    | some q => exact combineFrom_mapRes h cs q

theorem allCombos_mapRes {ops ops' : Ops K} {π : Vec → Vec} (h : ResHom ops ops' π)
    (tables : List (List (Cand K))) :
    allCombos ops' (tables.map (List.map (mapRes π))) = (allCombos ops tables).map (mapRes π) := by
  unfold allCombos
  rw [choices_map, List.filterMap_map, List.map_filterMap]
  congr 1
  funext cs
  cases cs with
  | nil => rfl
  | cons a cs => simpa [combineAll] using combineFrom_mapRes h cs a

/-- **`untracked_sound`.** If the dropped reservation columns never decide the capacity test on any
full combination (e.g. because the per-Einsum maxima of that memory sum to at most its capacity, or it
is never reserved across a fused loop), then joining the tables *without* those columns yields exactly
the same valid combinations, seen through their class and objectives. -/
theorem untracked_sound {ops ops' : Ops K} {π : Vec → Vec} (h : ResHom ops ops' π) (cap : Int)
    (tables : List (List (Cand K)))
    (hnb : ∀ s ∈ allCombos ops tables, fits cap (π s.res) = fits cap s.res) :
    validCombos ops' cap (tables.map (List.map (mapRes π))) =
      (validCombos ops cap tables).map (mapRes π) := by
  unfold validCombos
  rw [allCombos_mapRes h, List.filter_map]
  congr 1
  apply List.filter_congr
  intro s hs
  exact hnb s hs

end AFV.Search
