import AFV.Lemmas.TopoOrder
/-!
Lemmas about `evalOrder` / `evalScopeG` (`_eval_expressions_final`).
-/
namespace AFV.Topo
open Relation

set_option linter.unusedSectionVars false
variable {α : Type} [DecidableEq α]

/-! ## tables -/

theorem Table.get_cons (st : Table α) (x y : α) (v : Int) :
    Table.get ((x, v) :: st) y = if y = x then some v else st.get y := by
  unfold Table.get
  rw [List.lookup_cons]
  by_cases h : y = x
  · simp [h]
  · have : (y == x) = false := by simpa using h
    simp [this, h]

/-! ## looking a field up by name -/

def exprOf (fields : List (Field α)) (x : α) : Option (Expr α) := (lookField fields x).bind Field.expr?

theorem lookField_of_mem {fields : List (Field α)} (hn : (names fields).Nodup) {f : Field α} (hf : f ∈ fields) :
    lookField fields f.name = some f := by
  unfold lookField
  cases h : fields.find? (fun g => g.name == f.name) with
  | none =>
    have := List.find?_eq_none.mp h f hf
    simp at this
  | some g =>
    have hg : g ∈ fields := List.mem_of_find?_eq_some h
    have hgn : g.name = f.name := by simpa using List.find?_some h
    rw [eq_of_name_eq hn hg hf hgn]

theorem exprOf_of_mem {fields : List (Field α)} (hn : (names fields).Nodup) {f : Field α} (hf : f ∈ fields) :
    exprOf fields f.name = f.expr? := by
  unfold exprOf
  rw [lookField_of_mem hn hf]
  rfl

theorem exprOf_some_iff {fields : List (Field α)} (hn : (names fields).Nodup) {x : α} {e : Expr α} :
    exprOf fields x = some e ↔ ∃ f ∈ fields, f.name = x ∧ f.expr? = some e := by
  constructor
  · intro h
    unfold exprOf lookField at h
    cases hf : fields.find? (fun g => g.name == x) with
    | none => rw [hf] at h; cases h
    | some g =>
      rw [hf] at h
      exact ⟨g, List.mem_of_find?_eq_some hf, by simpa using List.find?_some hf, h⟩
  · rintro ⟨f, hf, rfl, he⟩
    rw [exprOf_of_mem hn hf, he]

theorem exprOf_none_of_not_isExprName {fields : List (Field α)} (hn : (names fields).Nodup) {y : α}
    (h : ¬ isExprName fields y) : exprOf fields y = none := by
  cases he : exprOf fields y with
  | none => rfl
  | some e =>
    obtain ⟨f, hf, hname, hfe⟩ := (exprOf_some_iff hn).mp he
    exact absurd ⟨f, hf, hname, by simp [hfe]⟩ h

theorem isExprName_iff {fields : List (Field α)} (hn : (names fields).Nodup) {y : α} :
    isExprName fields y ↔ ∃ e, exprOf fields y = some e := by
  constructor
  · rintro ⟨f, hf, rfl, hs⟩
    obtain ⟨e, he⟩ := Option.isSome_iff_exists.mp hs
    exact ⟨e, (exprOf_some_iff hn).mpr ⟨f, hf, rfl, he⟩⟩
  · rintro ⟨e, he⟩
    obtain ⟨f, hf, hname, hfe⟩ := (exprOf_some_iff hn).mp he
    exact ⟨f, hf, hname, by simp [hfe]⟩

/-! ## the evaluation loop -/

theorem evalOrder_cons_none {fields : List (Field α)} {x : α} (he : exprOf fields x = none)
    (xs : List α) (st : Table α) : evalOrder fields (x :: xs) st = evalOrder fields xs st := by
  unfold exprOf at he
  rw [evalOrder, he]

theorem evalOrder_cons_some {fields : List (Field α)} {x : α} {e : Expr α} (he : exprOf fields x = some e)
    (xs : List α) {st : Table α} {v : Int} (hv : e.eval st.get = some v) :
    evalOrder fields (x :: xs) st = evalOrder fields xs ((x, v) :: st) := by
  unfold exprOf at he
  rw [evalOrder, he]
  simp only
  rw [hv]

theorem evalOrder_cons_undef {fields : List (Field α)} {x : α} {e : Expr α} (he : exprOf fields x = some e)
    (xs : List α) {st : Table α} (hv : e.eval st.get = none) :
    evalOrder fields (x :: xs) st = .error (.undefined x) := by
  unfold exprOf at he
  rw [evalOrder, he]
  simp only
  rw [hv]

/-- names that are not evaluated in `xs` keep their binding -/
theorem evalOrder_frame (fields : List (Field α)) :
    ∀ (xs : List α) (st st' : Table α), evalOrder fields xs st = .ok st' →
      ∀ y, (y ∉ xs ∨ exprOf fields y = none) → st'.get y = st.get y := by
  intro xs
  induction xs with
  | nil => intro st st' h y _; simp only [evalOrder, Except.ok.injEq] at h; rw [h]
  | cons x xs ih =>
    intro st st' h y hy
    cases he : exprOf fields x with
    | none =>
      rw [evalOrder_cons_none he] at h
      exact ih st st' h y (hy.imp (fun h1 h2 => h1 (List.mem_cons_of_mem _ h2)) id)
    | some e =>
      cases hv : e.eval st.get with
      | none => rw [evalOrder_cons_undef he xs hv] at h; cases h
      | some v =>
        rw [evalOrder_cons_some he xs hv] at h
        rw [ih _ st' h y (hy.imp (fun h1 h2 => h1 (List.mem_cons_of_mem _ h2)) id), Table.get_cons]
        have : y ≠ x := by
          rcases hy with h1 | h1
          · intro hyx; exact h1 (by simp [hyx])
          · intro hyx; rw [hyx, he] at h1; cases h1
        simp [this]

/-- a list without integer definitions leaves the table alone -/
theorem evalOrder_noexpr (fields : List (Field α)) :
    ∀ (xs : List α) (st : Table α), (∀ x ∈ xs, exprOf fields x = none) → evalOrder fields xs st = .ok st := by
  intro xs
  induction xs with
  | nil => intro st _; rfl
  | cons x xs ih =>
    intro st h
    rw [evalOrder_cons_none (h x (by simp))]
    exact ih st (fun y hy => h y (List.mem_cons_of_mem _ hy))

theorem evalOrder_append (fields : List (Field α)) :
    ∀ (l1 l2 : List α) (st : Table α),
      evalOrder fields (l1 ++ l2) st =
        match evalOrder fields l1 st with
        | .ok st1 => evalOrder fields l2 st1
        | .error e => .error e := by
  intro l1
  induction l1 with
  | nil => intro l2 st; simp [evalOrder]
  | cons x l1 ih =>
    intro l2 st
    rw [List.cons_append]
    cases he : exprOf fields x with
    | none => rw [evalOrder_cons_none he, evalOrder_cons_none he]; exact ih l2 st
    | some e =>
      cases hv : e.eval st.get with
      | none => rw [evalOrder_cons_undef he _ hv, evalOrder_cons_undef he _ hv]
      | some v => rw [evalOrder_cons_some he _ hv, evalOrder_cons_some he _ hv]; exact ih l2 _

/-- evaluation only looks at the table through `get` -/
theorem evalOrder_congr (fields : List (Field α)) :
    ∀ (xs : List α) (st st' : Table α), (∀ y, st.get y = st'.get y) →
      ResEquiv (evalOrder fields xs st) (evalOrder fields xs st') := by
  intro xs
  induction xs with
  | nil => intro st st' h; simpa [evalOrder, ResEquiv] using h
  | cons x xs ih =>
    intro st st' h
    have hfun : st.get = st'.get := funext h
    cases he : exprOf fields x with
    | none => rw [evalOrder_cons_none he, evalOrder_cons_none he]; exact ih st st' h
    | some e =>
      cases hv : e.eval st'.get with
      | none =>
        rw [evalOrder_cons_undef he _ hv, evalOrder_cons_undef he _ (hfun ▸ hv)]
        simp [ResEquiv]
      | some v =>
        rw [evalOrder_cons_some he _ hv, evalOrder_cons_some he _ (hfun ▸ hv)]
        apply ih
        intro y
        rw [Table.get_cons, Table.get_cons, h y]

/-! ## a successful order, unpacked -/

/-- What the three order theorems give for a scope with distinct names. -/
structure GoodOrder (pre : List α) (fields : List (Field α)) (out : List α) (suf : List α) : Prop where
  out_eq : out = (pre ++ names (plainPart pre fields)) ++ suf
  perm : suf.Perm (names (sortedPart pre fields))
  nodup : suf.Nodup
  dep : ∀ x y, Dep pre fields x y → ∀ l1 l2, suf = l1 ++ x :: l2 → y ∈ l1

theorem goodOrder_of_ok {pre : List α} {fields : List (Field α)} (hn : (names fields).Nodup) {out : List α}
    (h : order pre fields = .ok out) : ∃ suf, GoodOrder pre fields out suf := by
  obtain ⟨suf, h1, h2, h3⟩ := order_ok_spec hn h
  exact ⟨suf, h1, h2, h2.nodup_iff.mpr (sortedPart_nodup hn), h3⟩

/-- the well-formedness the theorems need: distinct names, and pre-ordered fields are never integer definitions
(in the code they are the nested objects `variables`, `extra_attributes_for_…`) -/
structure WF (pre : List α) (fields : List (Field α)) : Prop where
  nodup : (names fields).Nodup
  pre_noexpr : ∀ f ∈ fields, f.name ∈ pre → f.expr? = none

theorem expr_mem_sortedPart {pre : List α} {fields : List (Field α)} (hw : WF pre fields) {f : Field α}
    (hf : f ∈ fields) {e : Expr α} (he : f.expr? = some e) : f ∈ sortedPart pre fields := by
  refine mem_sortedPart.mpr ⟨hf, ?_, ?_⟩
  · intro hp; rw [hw.pre_noexpr f hf hp] at he; cases he
  · unfold Field.expr? at he
    unfold Field.evaluated
    cases hk : f.kind <;> rw [hk] at he <;> simp at he ⊢

theorem prefix_noexpr {pre : List α} {fields : List (Field α)} (hw : WF pre fields) :
    ∀ x ∈ pre ++ names (plainPart pre fields), exprOf fields x = none := by
  intro x hx
  cases he : exprOf fields x with
  | none => rfl
  | some e =>
    obtain ⟨f, hf, rfl, hfe⟩ := (exprOf_some_iff hw.nodup).mp he
    have hs := mem_sortedPart.mp (expr_mem_sortedPart hw hf hfe)
    rcases List.mem_append.mp hx with h | h
    · exact absurd h hs.2.1
    · obtain ⟨p, hp, hpn⟩ := List.mem_map.mp h
      have hpp := mem_plainPart.mp hp
      have : p = f := eq_of_name_eq hw.nodup hpp.1 hf hpn
      subst this
      rw [hs.2.2] at hpp
      exact absurd hpp.2.2 (by simp)

/-- if `y` is mentioned by the definition of `x` and both are integer definitions, it is a dependency -/
theorem dep_of_mention {pre : List α} {fields : List (Field α)} (hw : WF pre fields) {f : Field α}
    (hf : f ∈ fields) {e : Expr α} (he : f.expr? = some e) {y : α} (hy : y ∈ e.vars) (hne : y ≠ f.name)
    (hex : isExprName fields y) : Dep pre fields f.name y := by
  obtain ⟨g, hg, hgn, hgs⟩ := hex
  obtain ⟨e', he'⟩ := Option.isSome_iff_exists.mp hgs
  refine ⟨f, expr_mem_sortedPart hw hf he, rfl, ?_, hne, g, expr_mem_sortedPart hw hg he', hgn⟩
  unfold Field.rawDeps
  unfold Field.expr? at he
  cases hk : f.kind <;> rw [hk] at he <;> simp at he
  subst he
  exact hy

/-! ## soundness: the evaluated table is a meaning of the scope -/

theorem evalOrder_sem {pre : List α} {fields : List (Field α)} (hw : WF pre fields) {out suf : List α}
    (hg : GoodOrder pre fields out suf) {outer st : Table α} (h : evalOrder fields out outer = .ok st) :
    Sem outer.get fields st.get := by
  have hn := hw.nodup
  rw [hg.out_eq, evalOrder_append, evalOrder_noexpr fields _ outer (prefix_noexpr hw)] at h
  simp only at h
  constructor
  · intro f hf e he
    have hfs := expr_mem_sortedPart hw hf he
    have hmem : f.name ∈ suf := hg.perm.mem_iff.mpr (List.mem_map.mpr ⟨f, hfs, rfl⟩)
    obtain ⟨l1, l2, hs⟩ := List.append_of_mem hmem
    have hnd := hg.nodup
    rw [hs] at hnd
    have hnl1 : f.name ∉ l1 := fun hin => (List.nodup_append.mp hnd).2.2 _ hin _ (by simp) rfl
    have hnl2 : f.name ∉ l2 := (List.nodup_cons.mp (List.nodup_append.mp hnd).2.1).1
    rw [hs, evalOrder_append] at h
    cases h1 : evalOrder fields l1 outer with
    | error err => rw [h1] at h; cases h
    | ok st1 =>
      rw [h1] at h
      simp only at h
      have hex : exprOf fields f.name = some e := by rw [exprOf_of_mem hn hf, he]
      cases hv : e.eval st1.get with
      | none => rw [evalOrder_cons_undef hex _ hv] at h; cases h
      | some v =>
        rw [evalOrder_cons_some hex _ hv] at h
        refine ⟨v, ?_, ?_⟩
        · rw [evalOrder_frame fields l2 _ st h f.name (Or.inl hnl2), Table.get_cons]; simp
        · rw [← hv]
          apply Expr.eval_congr
          intro y hy
          unfold selfEnv
          by_cases hyf : y = f.name
          · rw [if_pos hyf, evalOrder_frame fields l1 outer st1 h1 y (Or.inl (hyf ▸ hnl1))]
          · rw [if_neg hyf]
            by_cases hex : isExprName fields y
            · have hy1 : y ∈ l1 := hg.dep _ _ (dep_of_mention hw hf he hy hyf hex) l1 l2 hs
              have hy2 : y ∉ l2 := fun hin =>
                (List.nodup_append.mp hnd).2.2 _ hy1 _ (List.mem_cons_of_mem _ hin) rfl
              rw [evalOrder_frame fields l2 _ st h y (Or.inl hy2), Table.get_cons, if_neg hyf]
            · have hnone := exprOf_none_of_not_isExprName hn hex
              rw [evalOrder_frame fields l2 _ st h y (Or.inr hnone), Table.get_cons, if_neg hyf]
  · intro y hy
    exact evalOrder_frame fields suf outer st h y (Or.inr (exprOf_none_of_not_isExprName hn hy))

/-! ## uniqueness: an acyclic scope has at most one meaning -/

theorem sem_unique_of_order {pre : List α} {fields : List (Field α)} (hw : WF pre fields) {out suf : List α}
    (hg : GoodOrder pre fields out suf) {outer t t' : α → Option Int}
    (h : Sem outer fields t) (h' : Sem outer fields t') : ∀ y, t y = t' y := by
  have hn := hw.nodup
  have key : ∀ n y, suf.idxOf y = n → isExprName fields y → t y = t' y := by
    intro n
    induction n using Nat.strongRecOn with
    | ind n ih =>
      intro y hyn hex
      obtain ⟨f, hf, rfl, hs⟩ := hex
      obtain ⟨e, he⟩ := Option.isSome_iff_exists.mp hs
      obtain ⟨v, hv1, hv2⟩ := h.1 f hf e he
      obtain ⟨v', hv1', hv2'⟩ := h'.1 f hf e he
      rw [hv1, hv1', ← hv2, ← hv2']
      apply Expr.eval_congr
      intro z hz
      unfold selfEnv
      by_cases hzf : z = f.name
      · simp [hzf]
      · rw [if_neg hzf, if_neg hzf]
        by_cases hex : isExprName fields z
        · have hd := dep_of_mention hw hf he hz hzf hex
          have hlt := dep_idx_lt hg.nodup hg.perm hg.dep (TransGen.single hd)
          exact ih _ (hyn ▸ hlt) z rfl hex
        · rw [h.2 z hex, h'.2 z hex]
  intro y
  by_cases hex : isExprName fields y
  · exact key _ y rfl hex
  · rw [h.2 y hex, h'.2 y hex]

/-! ## completeness: if the scope has a meaning, evaluation finds it (no spurious error) -/

theorem evalOrder_complete {pre : List α} {fields : List (Field α)} (hw : WF pre fields) {out suf : List α}
    (hg : GoodOrder pre fields out suf) {outer : Table α} {t : α → Option Int}
    (hs : Sem outer.get fields t) : ∃ st, evalOrder fields out outer = .ok st := by
  have hn := hw.nodup
  rw [hg.out_eq, evalOrder_append, evalOrder_noexpr fields _ outer (prefix_noexpr hw)]
  simp only
  have key : ∀ (rest done : List α) (st : Table α), suf = done ++ rest →
      (∀ y, y ∈ done → isExprName fields y → st.get y = t y) →
      (∀ y, ¬ (y ∈ done ∧ isExprName fields y) → st.get y = outer.get y) →
      ∃ st', evalOrder fields rest st = .ok st' := by
    intro rest
    induction rest with
    | nil => intro done st _ _ _; exact ⟨st, rfl⟩
    | cons x rest ih =>
      intro done st hsplit hin hout
      have hnd := hg.nodup
      rw [hsplit] at hnd
      have hxd : x ∉ done := fun hin => (List.nodup_append.mp hnd).2.2 _ hin _ (by simp) rfl
      cases he : exprOf fields x with
      | none =>
        rw [evalOrder_cons_none he]
        have hxn : ¬ isExprName fields x := by
          intro hex
          obtain ⟨e, he'⟩ := (isExprName_iff hn).mp hex
          rw [he] at he'; cases he'
        apply ih (done ++ [x]) st (by simp [hsplit])
        · intro y hy hex
          rcases List.mem_append.mp hy with h1 | h1
          · exact hin y h1 hex
          · have : y = x := by simpa using h1
            exact absurd (this ▸ hex) hxn
        · intro y hy
          apply hout y
          rintro ⟨h1, h2⟩
          exact hy ⟨List.mem_append.mpr (Or.inl h1), h2⟩
      | some e =>
        obtain ⟨f, hf, rfl, hfe⟩ := (exprOf_some_iff hn).mp he
        obtain ⟨v, hv1, hv2⟩ := hs.1 f hf e hfe
        have hev : e.eval st.get = some v := by
          rw [← hv2]
          apply Expr.eval_congr
          intro z hz
          unfold selfEnv
          by_cases hzf : z = f.name
          · rw [if_pos hzf]
            exact hout z (fun h => hxd (hzf ▸ h.1))
          · rw [if_neg hzf]
            by_cases hex : isExprName fields z
            · have := hg.dep _ _ (dep_of_mention hw hf hfe hz hzf hex) done rest hsplit
              exact hin z this hex
            · rw [hout z (fun h => hex h.2), hs.2 z hex]
        rw [evalOrder_cons_some he _ hev]
        apply ih (done ++ [f.name]) _ (by simp [hsplit])
        · intro y hy hex
          rw [Table.get_cons]
          by_cases hyx : y = f.name
          · rw [if_pos hyx, hyx, hv1]
          · rw [if_neg hyx]
            rcases List.mem_append.mp hy with h1 | h1
            · exact hin y h1 hex
            · exact absurd (by simpa using h1) hyx
        · intro y hy
          rw [Table.get_cons]
          have hyx : y ≠ f.name := by
            intro hyx
            exact hy ⟨by simp [hyx], hyx ▸ ⟨f, hf, rfl, by simp [hfe]⟩⟩
          rw [if_neg hyx]
          apply hout y
          rintro ⟨h1, h2⟩
          exact hy ⟨List.mem_append.mpr (Or.inl h1), h2⟩
  exact key suf [] outer (by simp) (by intro y hy; cases hy) (by intro y _; rfl)

end AFV.Topo
