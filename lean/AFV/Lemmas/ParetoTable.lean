import AFV.Lemmas.ParetoFront
import AFV.Spec.ParetoTable
/-!
Table pruning: constant columns are irrelevant; the column-form specification is the C11 specification of the
row matrix; zero-tolerance `makepareto` = specification.
-/
namespace AFV.Pareto

theorem ppfLeq_refl (a : Nat) : ppfLeq a a = true := by
  simp [ppfLeq]

theorem leqGoal_refl (one : Int) (g : Goal) (a : EV) : leqGoal one g a a = true := by
  cases g <;> simp [leqGoal, EV.le_refl, ppfLeq_refl]

theorem constOn_of_isConst {n : Nat} {col : List EV} (hlen : col.length = n) (h : isConst col = true) :
    constOn n col := by
  intro i j hi hj
  have hi' : cell col i ∈ col := by simp [cell, List.getD_eq_getElem?_getD, hlen ▸ hi]
  have hj' : cell col j ∈ col := by simp [cell, List.getD_eq_getElem?_getD, hlen ▸ hj]
  exact isConst_spec h _ hi' _ hj'

theorem constOn_of_le_one {n : Nat} (col : List EV) (h : n ≤ 1) : constOn n col := by
  intro i j hi hj
  have : i = j := by omega
  rw [this]

theorem all_filter_of {α} (l : List α) (p q : α → Bool) (h : ∀ x ∈ l, p x = false → q x = true) :
    (l.filter p).all q = l.all q := by
  induction l with
  | nil => rfl
  | cons x xs ih =>
    have ih := ih fun y hy => h y (List.mem_cons_of_mem _ hy)
    cases hp : p x
    · simp [hp, ih, h x List.mem_cons_self hp]
    · simp [hp, ih]

/-- **constant columns never change the result** (specification level). -/
theorem tableSpec_filter (one : Int) (cols : List (Goal × List EV)) (n : Nat) (keep : Goal × List EV → Bool)
    (h : ∀ gc ∈ cols, keep gc = false → constOn n gc.2) :
    tableSpec one (cols.filter keep) n = tableSpec one cols n := by
  unfold tableSpec
  apply List.map_congr_left
  intro i hi
  have hi : i < n := List.mem_range.mp hi
  have hS : ∀ j, j < n → tSame (cols.filter keep) j i = tSame cols j i := by
    intro j hj
    unfold tSame
    apply all_filter_of
    intro gc hgc hk
    simp [h gc hgc hk j i hj hi]
  have hL : ∀ j k, j < n → k < n → tLeq one (cols.filter keep) j k = tLeq one cols j k := by
    intro j k hj hk
    unfold tLeq
    apply all_filter_of
    intro gc hgc hkp
    rw [h gc hgc hkp j k hj hk]; exact leqGoal_refl _ _ _
  have hE : ∀ j, j < n → tEqual (cols.filter keep) j i = tEqual cols j i := by
    intro j hj
    unfold tEqual
    apply all_filter_of
    intro gc hgc hk
    simp [h gc hgc hk j i hj hi]
  congr 1
  · congr 1
    apply any_congr_mem
    intro j hj
    have hj : j < n := List.mem_range.mp hj
    unfold tDominates
    rw [hS j hj, hL j i hj hi, hL i j hi hj]
  · congr 1
    apply any_congr_mem
    intro j hj
    have hj : j < i := List.mem_range.mp hj
    exact hE j (Nat.lt_trans hj hi)

/-! ### the column form is the C11 specification of the row matrix -/

theorem rowsOf_length (cs : List (List EV)) (n : Nat) : (rowsOf cs n).length = n := by simp [rowsOf]

theorem rowsOf_getD (cs : List (List EV)) (n : Nat) {i : Nat} (hi : i < n) :
    (rowsOf cs n).getD i [] = effRow cs i := by
  simp [rowsOf, effRow, List.getD_eq_getElem?_getD, hi]

theorem zipIdx_all_cols (cols : List (Goal × List EV)) (j i : Nat) (f : Goal → EV → EV → Bool) :
    ((cols.map (·.1)).zipIdx.all fun gc =>
        f gc.1 (cell (effRow (cols.map (·.2)) j) gc.2) (cell (effRow (cols.map (·.2)) i) gc.2)) =
      cols.all fun gc => f gc.1 (cell gc.2 j) (cell gc.2 i) := by
  rw [Bool.eq_iff_iff, List.all_eq_true, List.all_eq_true]
  constructor
  · intro h gc hgc
    obtain ⟨c, hc, rfl⟩ := List.mem_iff_getElem.mp hgc
    have hc2 : c < (cols.map (·.2)).length := by simpa using hc
    have := h (cols[c].1, c) (by
      rw [List.mem_zipIdx_iff_getElem?]; simp [hc])
    rw [cell_effRow _ _ hc2, cell_effRow _ _ hc2] at this
    simpa using this
  · intro h gc hgc
    rw [List.mem_zipIdx_iff_getElem?] at hgc
    obtain ⟨g, c⟩ := gc
    simp only [List.getElem?_map, Option.map_eq_some_iff] at hgc
    obtain ⟨gc', hgc', rfl⟩ := hgc
    have hc : c < cols.length := (List.getElem?_eq_some_iff.mp hgc').1
    have hcc : cols[c] = gc' := (List.getElem?_eq_some_iff.mp hgc').2
    have hc2 : c < (cols.map (·.2)).length := by simpa using hc
    rw [cell_effRow _ _ hc2, cell_effRow _ _ hc2]
    have := h gc' (hcc ▸ List.getElem_mem hc)
    simpa [hcc] using this

theorem effRow_eq_iff (cols : List (Goal × List EV)) (j i : Nat) :
    (effRow (cols.map (·.2)) j == effRow (cols.map (·.2)) i) = tEqual cols j i := by
  rw [Bool.eq_iff_iff]
  unfold tEqual effRow
  simp only [beq_iff_eq, List.all_eq_true]
  rw [List.map_inj_left]
  constructor
  · intro h gc hgc
    exact h gc.2 (List.mem_map.mpr ⟨gc, hgc, rfl⟩)
  · intro h a ha
    obtain ⟨gc, hgc, rfl⟩ := List.mem_map.mp ha
    exact h gc hgc

theorem rowsOf_eq (cs : List (List EV)) (n : Nat) : rowsOf cs n = (List.range n).map (effRow cs) := rfl

theorem dominates_rows (one : Int) (cols : List (Goal × List EV)) (j i : Nat) :
    dominates one (cols.map (·.1)) (effRow (cols.map (·.2)) j) (effRow (cols.map (·.2)) i) =
      tDominates one cols j i := by
  unfold tDominates dominates sameDiff leqOpt tSame tLeq
  rw [zipIdx_all_cols cols j i (fun g a b => g != Goal.diff || a == b),
    zipIdx_all_cols cols j i (leqGoal one), zipIdx_all_cols cols i j (leqGoal one)]

/-- the column-form specification is `paretoMaskSpec` of the row matrix. -/
theorem tableSpec_eq_paretoMaskSpec (one : Int) (cols : List (Goal × List EV)) (n : Nat) :
    tableSpec one cols n = paretoMaskSpec one (cols.map (·.1)) (rowsOf (cols.map (·.2)) n) := by
  unfold tableSpec paretoMaskSpec
  rw [rowsOf_length]
  apply List.map_congr_left
  intro i hi
  have hi : i < n := List.mem_range.mp hi
  simp only [rowsOf_getD _ _ hi]
  congr 1
  · congr 1
    rw [rowsOf_eq, List.any_map]
    apply any_congr_mem
    intro j _
    simp only [Function.comp_apply]
    exact (dominates_rows one cols j i).symm
  · congr 1
    rw [any_take_range _ [] _ i (by rw [rowsOf_length]; exact Nat.le_of_lt hi)]
    apply any_congr_mem
    intro j hj
    have hj : j < i := List.mem_range.mp hj
    rw [rowsOf_getD _ _ (Nat.lt_trans hj hi)]
    exact (effRow_eq_iff cols j i).symm

end AFV.Pareto
