import AFV.Spec.Routes
import AFV.Lemmas.LExprSound
import Mathlib.Tactic.Ring
import Mathlib.Tactic.Linarith
import Mathlib.Algebra.Order.Field.Rat
import Mathlib.Data.List.Nodup
/-!
# Lemmas about route enumeration (used by `AFV/Props/C30.lean`)
-/
namespace AFV.Routes
open AFV.LExpr (rmax)

theorem rmax_eq_max (a b : Rat) : rmax a b = max a b := by
  unfold rmax; rw [max_def]

/-! ## maximum over a list, starting from 0 -/

theorem foldr_rmax_le (l : List Rat) (B : Rat) (hB : 0 ≤ B) (h : ∀ x ∈ l, x ≤ B) :
    l.foldr rmax 0 ≤ B := by
  induction l with
  | nil => simpa using hB
  | cons a l ih =>
    simp only [List.foldr_cons, rmax_eq_max]
    exact max_le (h a (by simp)) (ih (fun x hx => h x (by simp [hx])))

theorem le_foldr_rmax (l : List Rat) (x : Rat) (hx : x ∈ l) : x ≤ l.foldr rmax 0 := by
  induction l with
  | nil => simp at hx
  | cons a l ih =>
    simp only [List.foldr_cons, rmax_eq_max]
    rcases List.mem_cons.mp hx with rfl | hx
    · exact le_max_left _ _
    · exact le_trans (ih hx) (le_max_right _ _)

theorem foldr_rmax_eq (l : List Rat) (B : Rat) (hB : 0 ≤ B) (h : ∀ x ∈ l, x ≤ B) (hmem : B ∈ l) :
    l.foldr rmax 0 = B :=
  le_antisymm (foldr_rmax_le l B hB h) (le_foldr_rmax l B hmem)

/-! ## per-link traffic -/

section generic
variable {L : Type} [BEq L]

theorem maxLinkTraffic_nil (v : Rat) : maxLinkTraffic ([] : List L) v = 0 := rfl

/-- If every traversed link is traversed at most `M` times and some link exactly `M` times, the
maximum link traffic is `M · v` (volumes are non-negative). -/
theorem maxLinkTraffic_eq (tr : List L) (v : Rat) (M : Nat) (hv : 0 ≤ v)
    (hub : ∀ l ∈ tr, tr.count l ≤ M) (hex : ∃ l ∈ tr, tr.count l = M) :
    maxLinkTraffic tr v = (M : Rat) * v := by
  unfold maxLinkTraffic maxTraffic linkLoads
  rw [List.map_map]
  apply foldr_rmax_eq
  · exact mul_nonneg (by exact_mod_cast Nat.zero_le M) hv
  · intro x hx
    obtain ⟨l, hl, rfl⟩ := List.mem_map.mp hx
    exact mul_le_mul_of_nonneg_right (by exact_mod_cast hub l hl) hv
  · obtain ⟨l, hl, hc⟩ := hex
    exact List.mem_map.mpr ⟨l, hl, by simp [hc]⟩

theorem usedOnce_nodup (allLinks tr : List L) (h : allLinks.Nodup) : (usedOnce allLinks tr).Nodup :=
  h.filter _

/-- A shared value crosses each used link once: the busiest link carries exactly `v`
(or nothing moves at all). -/
theorem maxLinkTraffic_nodup [LawfulBEq L] (tr : List L) (v : Rat) (hv : 0 ≤ v) (hnd : tr.Nodup) :
    maxLinkTraffic tr v = if tr = [] then 0 else v := by
  by_cases he : tr = []
  · subst he; simp [maxLinkTraffic_nil]
  · simp only [he, if_false]
    obtain ⟨a, ha⟩ := List.exists_mem_of_ne_nil tr he
    have hc : ∀ l ∈ tr, tr.count l = 1 := fun l hl => by
      rw [hnd.count]; simp [hl]
    have := maxLinkTraffic_eq tr v 1 hv (fun l hl => le_of_eq (hc l hl)) ⟨a, ha, hc a ha⟩
    simpa using this

end generic

/-! ## line mesh -/

theorem dests_succ (n s : Nat) : dests (n + 1) s = dests n s ++ [n * s] := by
  simp [dests, List.range_succ]

theorem meshUnicastTraversals_succ (n s : Nat) :
    meshUnicastTraversals (n + 1) s = meshUnicastTraversals n s ++ List.range (n * s) := by
  simp [meshUnicastTraversals, dests_succ, route]

theorem meshUnicastTraversals_zero (s : Nat) : meshUnicastTraversals 0 s = [] := by
  simp [meshUnicastTraversals, dests]

/-- Twice the number of unicast link traversals is `s·n·(n-1)`. -/
theorem two_mul_length_meshUnicast (n s : Nat) :
    2 * (meshUnicastTraversals n s).length = s * n * (n - 1) := by
  induction n with
  | zero => simp [meshUnicastTraversals_zero]
  | succ n ih =>
    rw [meshUnicastTraversals_succ, List.length_append, List.length_range, Nat.mul_add, ih]
    cases n with
    | zero => simp
    | succ m => simp only [Nat.add_sub_cancel]; ring

theorem count_range (j m : Nat) : (List.range m).count j = if j < m then 1 else 0 := by
  rw [List.nodup_range.count]; simp [List.mem_range]

theorem count_meshUnicast_le (j n s : Nat) : (meshUnicastTraversals (n + 1) s).count j ≤ n := by
  induction n with
  | zero => simp [meshUnicastTraversals_succ, meshUnicastTraversals_zero]
  | succ n ih =>
    rw [meshUnicastTraversals_succ, List.count_append, count_range]
    split <;> omega

/-- Link 0 (next to the source) lies on the route of every destination but the source itself. -/
theorem count_zero_meshUnicast (n s : Nat) (hs : 1 ≤ s) :
    (meshUnicastTraversals (n + 1) s).count 0 = n := by
  induction n with
  | zero => simp [meshUnicastTraversals_succ, meshUnicastTraversals_zero]
  | succ n ih =>
    rw [meshUnicastTraversals_succ, List.count_append, count_range, ih]
    have : 0 < (n + 1) * s := Nat.mul_pos (Nat.succ_pos n) hs
    simp [this]

theorem mem_meshUnicast (j n s : Nat) (h : j < (n - 1) * s) : j ∈ meshUnicastTraversals n s := by
  unfold meshUnicastTraversals
  rw [List.mem_flatMap]
  refine ⟨(n - 1) * s, ?_, by simpa [route] using h⟩
  unfold dests
  rw [List.mem_map]
  refine ⟨n - 1, ?_, rfl⟩
  rw [List.mem_range]
  rcases n with _ | n
  · simp at h
  · omega

/-- The shared value is forwarded over every link of the line exactly once. -/
theorem meshMulticastTraversals_eq (n s : Nat) :
    meshMulticastTraversals n s = List.range ((n - 1) * s) := by
  unfold meshMulticastTraversals usedOnce meshLinks
  rw [List.filter_eq_self]
  intro j hj
  rw [List.mem_range] at hj
  simpa using mem_meshUnicast j n s hj

theorem meshLongestRoute_succ (n s : Nat) : meshLongestRoute (n + 1) s = n * s := by
  induction n with
  | zero => simp [meshLongestRoute, dests, route]
  | succ n ih =>
    unfold meshLongestRoute at ih ⊢
    rw [dests_succ, List.map_append, List.foldr_append]
    simp only [List.map_cons, List.map_nil, List.foldr_cons, List.foldr_nil, route,
      List.length_range] at ih ⊢
    -- foldr max over the earlier destinations started from (n+1)*s
    have key : ∀ (l : List Nat) (a b : Nat), l.foldr max 0 = b → b ≤ a → l.foldr max a = a := by
      intro l a
      induction l with
      | nil => intro b _ _; rfl
      | cons x l ihl =>
        intro b hb hba
        simp only [List.foldr_cons] at hb ⊢
        have h1 : l.foldr max 0 ≤ b := by rw [← hb]; exact Nat.le_max_right _ _
        have h2 : x ≤ b := by rw [← hb]; exact Nat.le_max_left _ _
        rw [ihl (l.foldr max 0) rfl (le_trans h1 hba)]
        exact Nat.max_eq_right (le_trans h2 hba)
    have hmax : max ((n + 1) * s) 0 = (n + 1) * s := Nat.max_eq_left (Nat.zero_le _)
    rw [hmax]
    exact key _ _ _ ih (Nat.mul_le_mul_right s (Nat.le_succ n))

/-! ## all-to-all switch -/

theorem a2aDeliveries_zero : a2aDeliveries 0 = [] := rfl
theorem a2aDeliveries_one : a2aDeliveries 1 = [] := by decide

theorem a2aDeliveries_succ_succ (n : Nat) :
    a2aDeliveries (n + 2) = a2aDeliveries (n + 1) ++ [n + 1] := by
  unfold a2aDeliveries
  rw [List.range_succ, List.filter_append]
  simp

theorem length_a2aDeliveries (n : Nat) : (a2aDeliveries n).length = n - 1 := by
  rcases n with _ | n
  · rfl
  · induction n with
    | zero => simp [a2aDeliveries_one]
    | succ n ih => rw [a2aDeliveries_succ_succ, List.length_append, ih]; simp

theorem length_a2aHops (n : Nat) : (a2aHops n).length = n - 1 := by
  unfold a2aHops a2aRoute
  rw [List.length_flatMap]
  simp [length_a2aDeliveries]

theorem a2aUnicastTraversals_one : a2aUnicastTraversals 1 = [] := by
  simp [a2aUnicastTraversals, a2aHops, a2aDeliveries_one]

theorem a2aUnicastTraversals_zero : a2aUnicastTraversals 0 = [] := by
  simp [a2aUnicastTraversals, a2aHops, a2aDeliveries_zero]

theorem a2aUnicastTraversals_succ_succ (n : Nat) :
    a2aUnicastTraversals (n + 2) = a2aUnicastTraversals (n + 1) ++ [.up 0, .down (n + 1)] := by
  simp [a2aUnicastTraversals, a2aHops, a2aDeliveries_succ_succ, a2aRoute, hopLinks]

theorem count_a2aUnicast_le (l : SwLink) (n : Nat) : (a2aUnicastTraversals (n + 1)).count l ≤ n := by
  induction n with
  | zero => simp [a2aUnicastTraversals_one]
  | succ n ih =>
    rw [a2aUnicastTraversals_succ_succ, List.count_append]
    have : ([SwLink.up 0, SwLink.down (n + 1)]).count l ≤ 1 := by
      have hnd : ([SwLink.up 0, SwLink.down (n + 1)]).Nodup := by simp
      rw [hnd.count]; split <;> omega
    omega

/-- The source's uplink carries every delivery. -/
theorem count_up0_a2aUnicast (n : Nat) : (a2aUnicastTraversals (n + 1)).count (.up 0) = n := by
  induction n with
  | zero => simp [a2aUnicastTraversals_one]
  | succ n ih =>
    rw [a2aUnicastTraversals_succ_succ, List.count_append, ih]
    simp

theorem a2aLinks_nodup (n : Nat) : (a2aLinks n).Nodup := by
  unfold a2aLinks
  rw [List.nodup_append]
  refine ⟨?_, ?_, ?_⟩
  · exact List.Nodup.map (fun a b h => by injection h) List.nodup_range
  · exact List.Nodup.map (fun a b h => by injection h) List.nodup_range
  · intro a ha b hb
    obtain ⟨i, _, rfl⟩ := List.mem_map.mp ha
    obtain ⟨j, _, rfl⟩ := List.mem_map.mp hb
    simp

theorem up0_mem_a2aMulticast (n : Nat) : SwLink.up 0 ∈ a2aMulticastTraversals (n + 2) := by
  unfold a2aMulticastTraversals usedOnce
  rw [List.mem_filter]
  constructor
  · simp [a2aLinks]
  · have h : (a2aUnicastTraversals (n + 2)).count (.up 0) = n + 1 := count_up0_a2aUnicast (n + 1)
    have : SwLink.up 0 ∈ a2aUnicastTraversals (n + 2) := by
      rw [← List.count_pos_iff]; omega
    simpa using this

end AFV.Routes
