import AFV.Lemmas.EinsumParse
/-! Well-formed verbose Einsums, their printed text, and what the scanners make of it. -/
namespace AFV.EinsumStr

def okProj : VProj → Bool
  | .list xs => !xs.isEmpty && xs.all okVar
  | .dict items => !items.isEmpty && items.all okEntry && keysNodup items

def okAccess (a : VAccess) : Bool := validName a.name && okProj a.proj

/-- Well-formed Einsum `out = ins…` (what both notations can express and accept):
one output, at least one input, valid tensor names, at least one rank per tensor,
rank variables / rank names outside the words reserved by `_ISL_REGEX`, explicit expressions free of
`, : [ ] =` and blanks, distinct rank names in a dict projection. -/
def WF (out : VAccess) (ins : List VAccess) : Bool :=
  out.output && okAccess out && !ins.isEmpty && ins.all (fun a => !a.output && okAccess a)

/-- Characters that may occur in a printed projection text. -/
def textChar (c : Char) : Bool := c != '[' && c != ']' && c != '=' && !isSpace c

theorem word_textChar (c : Char) (h : isWord c = true) : textChar c = true := by
  have hs := word_not_space c h
  have h1 : c ≠ '[' := by intro e; subst e; exact absurd h (by decide)
  have h2 : c ≠ ']' := by intro e; subst e; exact absurd h (by decide)
  have h3 : c ≠ '=' := by intro e; subst e; exact absurd h (by decide)
  simp [textChar, h1, h2, h3, hs]

theorem printItem_chars (b : Bool) (kv : Str × Str) (h : okEntry kv = true) :
    ∀ c ∈ printItem b kv, textChar c = true ∧ c ≠ ',' := by
  have hv := okEntry_val h
  have hk : ∀ c ∈ kv.1, isWord c = true := by
    simp only [okEntry, Bool.and_eq_true] at h
    exact islIdent_all_word h.1.1
  have hvc : ∀ c ∈ kv.2, textChar c = true ∧ c ≠ ',' := by
    intro c hc
    obtain ⟨a1, a2, a3, a4, a5, a6⟩ := hv c hc
    simp [textChar, a1, a3, a4, a5, a6]
  intro c hc
  unfold printItem at hc
  split at hc
  · exact hvc c hc
  · simp only [List.mem_append, List.mem_cons] at hc
    rcases hc with hc | rfl | hc
    · refine ⟨word_textChar c (hk c hc), ?_⟩
      intro e; subst e; exact absurd (hk _ hc) (by decide)
    · exact ⟨by decide, by decide⟩
    · exact hvc c hc

theorem printItems_chars (sty : List Bool) (items : Proj) (h : ∀ kv ∈ items, okEntry kv = true) :
    ∀ p ∈ printItems sty items, ∀ c ∈ p, textChar c = true ∧ c ≠ ',' := by
  induction items generalizing sty with
  | nil => cases sty <;> simp [printItems]
  | cons kv r ih =>
    have h1 := fun b => printItem_chars b kv (h kv (by simp))
    have h2 := fun sty' => ih sty' (fun e he => h e (by simp [he]))
    cases sty with
    | nil =>
      intro p hp
      simp only [printItems, List.mem_cons] at hp
      rcases hp with rfl | hp
      · exact h1 false
      · exact h2 [] p hp
    | cons b bs =>
      intro p hp
      simp only [printItems, List.mem_cons] at hp
      rcases hp with rfl | hp
      · exact h1 b
      · exact h2 bs p hp

theorem printItems_ne_nil (sty : List Bool) (kv : Str × Str) (r : Proj) :
    printItems sty (kv :: r) ≠ [] := by
  cases sty <;> simp [printItems]

theorem printItem_ne_nil (b : Bool) (kv : Str × Str) (h : okEntry kv = true) : printItem b kv ≠ [] := by
  unfold printItem
  split
  · rename_i hb
    simp only [Bool.and_eq_true] at hb
    intro e
    rw [e] at hb
    simp [shorthandOK] at hb
  · simp

/-- The parts joined by `,` in the printed text of a projection. -/
def projParts (sty : List Bool) : VProj → List Str
  | .list xs => xs
  | .dict items => printItems sty items

theorem printProjText_eq (sty : List Bool) (p : VProj) :
    printProjText sty p = joinWith ',' (projParts sty p) := by
  cases p <;> rfl

theorem projParts_chars (sty : List Bool) (p : VProj) (h : okProj p = true) :
    ∀ q ∈ projParts sty p, ∀ c ∈ q, textChar c = true ∧ c ≠ ',' := by
  cases p with
  | list xs =>
    simp only [okProj, Bool.and_eq_true, List.all_eq_true] at h
    intro q hq c hc
    have hw := okVar_all_word (h.2 q hq) c hc
    refine ⟨word_textChar c hw, ?_⟩
    intro e; subst e; exact absurd hw (by decide)
  | dict items =>
    simp only [okProj, Bool.and_eq_true, List.all_eq_true] at h
    exact printItems_chars sty items h.1.2

theorem projParts_head_ne_nil (sty : List Bool) (p : VProj) (h : okProj p = true) :
    ∃ q qs, projParts sty p = q :: qs ∧ q ≠ [] := by
  cases p with
  | list xs =>
    simp only [okProj, Bool.and_eq_true, List.all_eq_true, Bool.not_eq_true', List.isEmpty_eq_false_iff] at h
    cases xs with
    | nil => exact absurd rfl h.1
    | cons x r =>
      refine ⟨x, r, rfl, ?_⟩
      have := h.2 x (by simp)
      intro e; subst e; simp [okVar] at this
  | dict items =>
    simp only [okProj, Bool.and_eq_true, List.all_eq_true, Bool.not_eq_true', List.isEmpty_eq_false_iff] at h
    cases items with
    | nil => exact absurd rfl h.1.1
    | cons kv r =>
      cases sty with
      | nil => exact ⟨_, _, rfl, printItem_ne_nil false kv (h.1.2 kv (by simp))⟩
      | cons b bs => exact ⟨_, _, rfl, printItem_ne_nil b kv (h.1.2 kv (by simp))⟩

theorem printProjText_chars (sty : List Bool) (p : VProj) (h : okProj p = true) :
    ∀ c ∈ printProjText sty p, textChar c = true := by
  intro c hc
  rw [printProjText_eq] at hc
  rcases mem_joinWith hc with rfl | ⟨q, hq, hcq⟩
  · decide
  · exact (projParts_chars sty p h q hq c hcq).1

theorem dictSet_keys (P : Str → Prop) (d : Proj) (k v : Str) (hd : ∀ e ∈ d, P e.1) (hk : P k) :
    ∀ e ∈ dictSet d k v, P e.1 := by
  induction d with
  | nil => intro e he; simp only [dictSet, List.mem_singleton] at he; subst he; exact hk
  | cons e0 es ih =>
    obtain ⟨k', v'⟩ := e0
    intro e he
    simp only [dictSet] at he
    split at he
    · simp only [List.mem_cons] at he
      rcases he with rfl | he
      · exact hd (k', v') (by simp)
      · exact hd e (by simp [he])
    · simp only [List.mem_cons] at he
      rcases he with rfl | he
      · exact hd (k', v') (by simp)
      · exact ih (fun x hx => hd x (by simp [hx])) e he

theorem foldl_dictSet_keys (P : Str → Prop) (xs : List Str) (acc : Proj) (hacc : ∀ e ∈ acc, P e.1)
    (hx : ∀ x ∈ xs, P (upper x)) :
    ∀ e ∈ xs.foldl (fun d x => dictSet d (upper x) x) acc, P e.1 := by
  induction xs generalizing acc with
  | nil => simpa using hacc
  | cons x r ih =>
    simp only [List.foldl_cons]
    exact ih _ (dictSet_keys P acc (upper x) x hacc (hx x (by simp))) (fun y hy => hx y (by simp [hy]))

theorem okVar_okKey_upper {x : Str} (h : okVar x = true) : okKey (upper x) = true := by
  have hid := okVar_islIdent_upper h
  cases x with
  | nil => simp [okVar] at h
  | cons c cs =>
    simp only [upper, List.map_cons] at hid ⊢
    simp only [islIdent, Bool.and_eq_true, List.all_eq_true] at hid
    simp only [okKey, isPyIdent, isNameStart, Bool.and_eq_true, Bool.or_eq_true, List.all_eq_true,
      Bool.not_eq_true', toUpper_not_lower, and_true]
    exact ⟨Or.inl hid.1.1, hid.1.2⟩

theorem okVar_okListVar {x : Str} (h : okVar x = true) : okListVar x = true := by
  cases x with
  | nil => simp [okVar] at h
  | cons c cs =>
    simp only [okVar, Bool.and_eq_true] at h
    simp [okListVar, lower_isAlpha c h.1.1, lower_not_upper c h.1.1]

theorem okEntry_okKey {kv : Str × Str} (h : okEntry kv = true) : okKey kv.1 = true := by
  simp only [okEntry, Bool.and_eq_true] at h
  obtain ⟨⟨hid, hlow⟩, _⟩ := h
  cases hk : kv.1 with
  | nil => rw [hk] at hid; simp [islIdent] at hid
  | cons c cs =>
    rw [hk] at hid hlow
    simp only [islIdent, Bool.and_eq_true, List.all_eq_true] at hid
    simp only [Bool.not_eq_true'] at hlow
    simp only [okKey, isPyIdent, isNameStart, Bool.and_eq_true, Bool.or_eq_true, List.all_eq_true,
      Bool.not_eq_true', hlow, and_true]
    exact ⟨Or.inl hid.1.1, hid.1.2⟩

/-- Both notations give the same projection for a well-formed access:
`_parse_projection(printed text) = _projection_factory(verbose projection)`, and it is defined. -/
theorem parseProjection_print (sty : List Bool) (p : VProj) (h : okProj p = true) :
    ∃ d, projFactory p = some d ∧ parseProjection (printProjText sty p) = some d := by
  obtain ⟨q, qs, hq, hqne⟩ := projParts_head_ne_nil sty p h
  have hne : printProjText sty p ≠ [] := by
    rw [printProjText_eq, hq]; exact joinWith_ne_nil ',' q qs hqne
  have hsplit : splitOn ',' (printProjText sty p) = projParts sty p := by
    rw [printProjText_eq]
    apply splitOn_joinWith
    · rw [hq]; simp
    · intro r hr x hx; exact (projParts_chars sty p h r hr x hx).2
  have hemp : (printProjText sty p).isEmpty = false := by
    cases hh : printProjText sty p with
    | nil => exact absurd hh hne
    | cons _ _ => rfl
  simp only [parseProjection, hemp, Bool.false_eq_true, if_false, hsplit]
  cases p with
  | list xs =>
    simp only [okProj, Bool.and_eq_true, List.all_eq_true] at h
    refine ⟨xs.foldl (fun d x => dictSet d (upper x) x) [], ?_, ?_⟩
    · have h1 : xs.all okListVar = true := by
        simp only [List.all_eq_true]; exact fun x hx => okVar_okListVar (h.2 x hx)
      have h2 : (xs.foldl (fun d x => dictSet d (upper x) x) []).all (fun e => okKey e.1) = true := by
        simp only [List.all_eq_true]
        exact foldl_dictSet_keys (fun k => okKey k = true) xs [] (by simp)
          (fun x hx => okVar_okKey_upper (h.2 x hx))
      simp only [projFactory, h1, if_true, h2]
    · exact foldItems_vars xs h.2 []
  | dict items =>
    simp only [okProj, Bool.and_eq_true, List.all_eq_true] at h
    refine ⟨items, ?_, ?_⟩
    · have h1 : items.all (fun e => okKey e.1) = true := by
        simp only [List.all_eq_true]; exact fun e he => okEntry_okKey (h.1.2 e he)
      simp only [projFactory, h1, if_true]
    · have := foldItems_printItems items sty [] h.1.2 h.2 (by intro kv _; rfl)
      simpa [projParts] using this

end AFV.EinsumStr
