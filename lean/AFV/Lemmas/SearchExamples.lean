import AFV.Lemmas.SearchMetric
/-!
# Concrete instances used by the non-vacuity examples and witnesses of the Props files

* `opsChain` — classes are naturals; a left class `k` joins a right class `l` iff `k = l / 10`, giving
  class `l % 10`; reservations are added column by column (the right operand clamped at 0; missing
  columns count as 0). It satisfies `RMono`, `CapClosed`.
* `maxCol`   — the final column merge: one column holding the maximum (`free_to_loop_index(-2)`).
* `cfgEx`    — a staged-join configuration over `opsChain` satisfying every field of `StagedHyp`.
-/
set_option linter.unusedSectionVars false

namespace AFV.Search
open AFV.Front

/-- Column-wise sum, right operand clamped at 0, the longer profile is kept. -/
def radd : Vec → Vec → Vec
  | [], ys => ys.map (fun y => max y 0)
  | xs, [] => xs
  | x :: xs, y :: ys => (x + max y 0) :: radd xs ys

theorem radd_mono : ∀ {r' r s' s : Vec}, leqAll r' r = true → leqAll s' s = true →
    leqAll (radd r' s') (radd r s) = true
  | [], [], [], [], _, _ => by simp [radd, leqAll]
  | [], [], [], _ :: _, _, h => by simp [leqAll] at h
  | [], [], _ :: _, [], _, h => by simp [leqAll] at h
  | [], [], y' :: ys', y :: ys, _, h => by
    simp only [leqAll, Bool.and_eq_true, decide_eq_true_eq] at h
    have ih := radd_mono (r' := []) (r := []) rfl h.2
    simp only [radd] at ih
    simp only [radd, List.map_cons, leqAll, Bool.and_eq_true, decide_eq_true_eq]
    exact ⟨by omega, ih⟩
  | [], _ :: _, _, _, h, _ => by simp [leqAll] at h
  | _ :: _, [], _, _, h, _ => by simp [leqAll] at h
  | _ :: _, _ :: _, [], [], h, _ => by simpa [radd] using h
  | _ :: _, _ :: _, [], _ :: _, _, h => by simp [leqAll] at h
  | _ :: _, _ :: _, _ :: _, [], _, h => by simp [leqAll] at h
  | x' :: xs', x :: xs, y' :: ys', y :: ys, h₁, h₂ => by
    simp only [leqAll, Bool.and_eq_true, decide_eq_true_eq] at h₁ h₂
    simp only [radd, leqAll, Bool.and_eq_true, decide_eq_true_eq]
    exact ⟨by omega, radd_mono h₁.2 h₂.2⟩

theorem fits_radd_left {c : Int} : ∀ {r s : Vec}, fits c (radd r s) = true → fits c r = true
  | [], _, _ => by simp [fits]
  | _ :: _, [], h => by simpa [radd] using h
  | x :: xs, y :: ys, h => by
    simp only [radd, fits, List.all_cons, Bool.and_eq_true, decide_eq_true_eq] at h ⊢
    exact ⟨by omega, fits_radd_left (c := c) h.2⟩

/-- The example join operations. -/
def opsChain : Ops Nat where
  kjoin k l := if k = l / 10 then some (l % 10) else none
  rjoin _ _ r s := radd r s

theorem opsChain_rmono : RMono opsChain := fun _ _ _ _ _ _ h₁ h₂ => radd_mono h₁ h₂
theorem opsChain_capClosed : CapClosed opsChain := fun _ _ _ _ _ h => fits_radd_left h

/-- Lookahead test for `opsChain`: always "may" (the weakest sound test) … -/
def mayAll : Nat → Nat → Bool := fun _ _ => true
theorem maySound_all (ops : Ops Nat) : MaySound ops mayAll := ⟨fun _ _ _ _ => rfl, fun _ _ _ _ _ _ => rfl⟩

/-- One column holding the largest reservation (0 if there is none). -/
def maxCol (r : Vec) : Vec := [r.foldr max 0]

theorem foldr_max_le {c : Int} (hc : 0 ≤ c) : ∀ r : Vec, r.foldr max 0 ≤ c ↔ ∀ x ∈ r, x ≤ c
  | [] => by simp [hc]
  | x :: xs => by
    have ih := foldr_max_le hc xs
    simp only [List.foldr_cons, List.mem_cons, forall_eq_or_imp]
    rw [← ih]
    omega

theorem fits_maxCol {c : Int} (hc : 0 ≤ c) (r : Vec) : fits c (maxCol r) = fits c r := by
  have h := foldr_max_le hc r
  cases hf : fits c r with
  | true =>
    simp only [fits, List.all_eq_true, decide_eq_true_eq] at hf
    simp [maxCol, fits, h.2 hf]
  | false =>
    have : ¬ (∀ x ∈ r, x ≤ c) := by
      intro hall
      have : fits c r = true := by simp [fits, List.all_eq_true]; exact hall
      rw [hf] at this; cases this
    have h' : ¬ (r.foldr max 0 ≤ c) := fun hle => this (h.1 hle)
    simp [maxCol, fits, h']

theorem foldr_max_mono : ∀ {r s : Vec}, leqAll r s = true → r.foldr max 0 ≤ s.foldr max 0
  | [], [], _ => by simp
  | [], _ :: _, h => by simp [leqAll] at h
  | _ :: _, [], h => by simp [leqAll] at h
  | x :: xs, y :: ys, h => by
    simp only [leqAll, Bool.and_eq_true, decide_eq_true_eq] at h
    have := foldr_max_mono h.2
    simp only [List.foldr_cons]
    omega

theorem maxCol_mono {r s : Vec} (h : leqAll r s = true) : leqAll (maxCol r) (maxCol s) = true := by
  simp [maxCol, leqAll, foldr_max_mono h]

/-- Example configuration: capacity 10, metric = identity on one objective column, final column merge
by maximum, weakest lookahead, `RESOURCE_USAGE` not requested, dirty round keeps the first row of
each table, thresholds = the whole dirty result. -/
def cfgEx : Cfg Nat where
  ops := opsChain
  cap := 10
  metric := fun v => [v.headD 0]
  m := 1
  resFin := maxCol
  may := mayAll
  dropRes := true
  dirty := fun T => T.take 1
  pick := id

theorem cfgEx_hyp (tables : List (List (Cand Nat)))
    (hgood : ∀ T ∈ tables, ∀ c ∈ T, GoodObj 1 c) : StagedHyp cfgEx 1 tables where
  rmono := opsChain_rmono
  capClosed := opsChain_capClosed
  maySound := maySound_all _
  good := hgood
  metricLen := fun _ => rfl
  mpos := by decide
  metricMono := by
    intro a b _ h
    cases a with
    | nil => cases b with
      | nil => simp [cfgEx, leqAll]
      | cons _ _ => simp [leqAll] at h
    | cons x xs => cases b with
      | nil => simp [leqAll] at h
      | cons y ys =>
        simp only [leqAll, Bool.and_eq_true, decide_eq_true_eq] at h
        simp [cfgEx, leqAll, h.1]
  resFinMono := fun _ _ h => maxCol_mono h
  resFinFits := fun r => fits_maxCol (by decide) r
  resLB := fun h => by simp [cfgEx] at h
  dirtySub := fun T c hc => List.mem_of_mem_take hc
  pickSub := fun _ _ h => h

/-- Three Einsums; classes chain as `k → 1k' → k'' …`; rows that are dominated, incompatible, over
capacity and tied all occur. -/
def exTables : List (List (Cand Nat)) :=
  [ [⟨1, [5, 2], [3]⟩, ⟨1, [6, 3], [4]⟩, ⟨1, [4, 9], [3]⟩, ⟨2, [1, 1], [9]⟩, ⟨1, [5, 2], [3]⟩],
    [⟨13, [2, 2], [3]⟩, ⟨14, [1, 5], [6]⟩, ⟨23, [1, 1], [2]⟩, ⟨53, [0, 0], [0]⟩],
    [⟨30, [1, 1], [1]⟩, ⟨30, [1, 1], [4]⟩, ⟨40, [7, 0], [0]⟩] ]

end AFV.Search
