import AFV.Lemmas.NestHom
namespace AFV.Nest

variable {α β : Type}
  [Add α] [Mul α] [Div α] [Max α] [Sub α] [OfNat α 0] [OfNat α 1]
  [Add β] [Mul β] [Div β] [Max β] [Sub β] [OfNat β 0] [OfNat β 1]
variable {f : α → β}

theorem holderCounts_map (hf : IsHom f) (lv : Level α) (t : TId) (ts : TensorSpec α) (nt hp : Bool) (shape : List α)
    (c : Counts α) (ch : Option (Counts α)) :
    holderCounts (lv.map f) t (ts.map f) nt hp (shape.map f) (c.map f) (ch.map (Counts.map f))
      = (holderCounts lv t ts nt hp shape c ch).map f := by
  have hr := vpa_map hf lv lv.read t ts.bpv
  have hw := vpa_map hf lv lv.write t ts.bpv
  have ht := tileSize_map hf shape ts.rvs
  have hlr : (lv.map f).read = lv.read.map f := rfl
  have hlw : (lv.map f).write = lv.write.map f := rfl
  have hb : (ts.map f).bpv = f ts.bpv := rfl
  have hrv : (ts.map f).rvs = ts.rvs := rfl
  have hio : (ts.map f).isOutput = ts.isOutput := rfl
  have hit : (lv.map f).isToll = lv.isToll := rfl
  have hsk : (lv.map f).skipInitial = lv.skipInitial := rfl
  cases ch with
  | none =>
    simp only [holderCounts, Option.map_none, hlr, hlw, hb, hrv, hio, hit, hsk, hr, hw, ht, dirOf_map, Option.isSome_none,
      Bool.and_false, Bool.false_eq_true, if_false, Counts.map]
    cases nt <;> cases hp <;> cases ts.isOutput <;> cases lv.isToll <;> cases lv.skipInitial <;> cases dirOf lv t <;>
      simp [hf.add, hf.mul, hf.div, hf.one, hf.zero]
  | some x =>
    simp only [holderCounts, Option.map_some, hlr, hlw, hb, hrv, hio, hit, hsk, hr, hw, ht, dirOf_map, Option.isSome_some,
      Bool.and_true, Counts.map]
    cases nt <;> cases hp <;> cases ts.isOutput <;> cases lv.isToll <;> cases lv.skipInitial <;> cases dirOf lv t <;>
      simp [hf.add, hf.mul, hf.div, hf.one, hf.zero]

end AFV.Nest
