import AFV.Lemmas.NestHom4
import AFV.Lemmas.NestTracker
namespace AFV.Nest

variable {α β : Type}
  [Add α] [Mul α] [Div α] [Max α] [Sub α] [OfNat α 0] [OfNat α 1]
  [Add β] [Mul β] [Div β] [Max β] [Sub β] [OfNat β 0] [OfNat β 1]
variable {f : α → β}

theorem splitHolders_map (m : Mapping α) : splitHolders (m.map (Node.map f)) = (splitHolders m).map (Node.map f) := by
  induction m with
  | nil => rfl
  | cons n r ih =>
    cases n with
    | storage l ts lo =>
      simp only [List.map_cons, Node.map, splitHolders, ih, List.map_append]
      split <;> simp [Node.map, List.map_map, Function.comp_def]
    | toll l ts lo =>
      simp only [List.map_cons, Node.map, splitHolders, ih, List.map_append]
      split <;> simp [Node.map, List.map_map, Function.comp_def]
    | loop rv tile => simp only [List.map_cons, Node.map, splitHolders, ih]
    | compute => simp only [List.map_cons, Node.map, splitHolders, ih]

theorem placeAround_map (n : RNode α) (b a : List (RNode α)) :
    placeAround (n.map f) (b.map (RNode.map f)) (a.map (RNode.map f)) = (placeAround n b a).map (RNode.map f) := by
  simp only [placeAround, ← List.map_reverse]
  cases b.reverse <;> simp [List.map_reverse]

theorem resOf_map (trs : List Tracker) : (resOf (α := α) trs).map (RNode.map f) = resOf (α := β) trs := by
  simp [resOf, List.map_map, Function.comp_def, RNode.map]

theorem insertReservationsAux_map (w : Workload α) (m : Mapping α) :
    ∀ trs seen, insertReservationsAux (w.map f) trs seen (m.map (Node.map f))
      = (insertReservationsAux w trs seen m).map (RNode.map f) := by
  induction m with
  | nil => intro trs seen; rfl
  | cons n r ih =>
    intro trs seen
    cases n <;>
      simp only [List.map_cons, Node.map, insertReservationsAux, popStopped_spec, ih, relevant_map, List.map_append,
        ← placeAround_map, resOf_map, RNode.map, Node.map]

theorem insertReservations_map (w : Workload α) (m : Mapping α) :
    insertReservations (w.map f) (m.map (Node.map f)) = (insertReservations w m).map (RNode.map f) :=
  insertReservationsAux_map w m [] []

theorem singleTensor_map (t : TId) (L : List (RNode α)) :
    singleTensor t (L.map (RNode.map f)) = (singleTensor t L).map (RNode.map f) := by
  induction L with
  | nil => rfl
  | cons n r ih =>
    cases n with
    | reservation t' l => simp only [List.map_cons, RNode.map, singleTensor, ih]; split <;> simp [RNode.map]
    | node nd =>
      cases nd with
      | storage l ts lo => simp only [List.map_cons, RNode.map, Node.map, singleTensor, ih]; split <;> simp [RNode.map, Node.map]
      | toll l ts lo => simp only [List.map_cons, RNode.map, Node.map, singleTensor, ih]; split <;> simp [RNode.map, Node.map]
      | loop rv tile => simp only [List.map_cons, RNode.map, Node.map, singleTensor, ih]
      | compute => simp only [List.map_cons, RNode.map, Node.map, singleTensor, ih]

theorem computeOps_map (hf : IsHom f) (m : Mapping α) :
    ∀ shape : List α, computeOps (shape.map f) (m.map (Node.map f)) = f (computeOps shape m) := by
  induction m with
  | nil => intro shape; simp [computeOps, hf.one]
  | cons n r ih =>
    intro shape
    cases n <;> simp only [List.map_cons, Node.map, computeOps, ih, set_shape_map, getShape_map hf, hf.mul, hf.div]

theorem tableBuffets_map (t : TId) (tb : Table α) :
    tableBuffets t (Table.mapT f tb) = (tableBuffets t tb).map (Buffet.map f) := by
  induction tb with
  | nil => rfl
  | cons e r ih =>
    obtain ⟨k, s⟩ := e
    cases k <;> simp only [Table.mapT, List.map_cons, tableBuffets] at ih ⊢ <;> simp [ih, Buffet.map]

theorem allBuffets_map (hf : IsHom f) (arch : Arch α) (w : Workload α) (rm : List (RNode α)) :
    ∀ fuel t, allBuffets (arch.map f) (w.map f) (rm.map (RNode.map f)) t fuel
      = (allBuffets arch w rm t fuel).map (List.map (Buffet.map f)) := by
  intro fuel
  induction fuel with
  | zero => intro t; rfl
  | succ n ih =>
    intro t
    have h := analyzeNodes_map hf { arch := arch, w := w, t := t } (singleTensor t rm) false w.bounds
    have hc : ({ arch := arch, w := w, t := t } : Ctx α).map f = { arch := arch.map f, w := w.map f, t := t } := rfl
    rw [hc] at h
    have hb : (w.map f).bounds = w.bounds.map f := rfl
    simp only [allBuffets, ih, hb, singleTensor_map, h]
    cases analyzeNodes { arch := arch, w := w, t := t } false w.bounds (singleTensor t rm) with
    | none => rfl
    | some p =>
      cases allBuffets arch w rm (t + 1) n with
      | none => rfl
      | some bs => simp [tableBuffets_map]

end AFV.Nest
