import AFV.Lemmas.NestHom9
namespace AFV.Nest

variable {α β : Type}
  [Add α] [Mul α] [Div α] [Max α] [Sub α] [OfNat α 0] [OfNat α 1]
  [Add β] [Mul β] [Div β] [Max β] [Sub β] [OfNat β 0] [OfNat β 1]
variable {f : α → β}

theorem memBA_map (hf : IsHom f) (arch : Arch α) (bs : List (Buffet α)) :
    memBA (arch.map f) (bs.map (Buffet.map f)) = (memBA arch bs).map (Buffet.map f) := by
  simp only [memBA, List.filter_map]
  congr 1
  apply List.filter_congr
  intro b _
  simp only [Function.comp, Buffet.map, lvOf_map hf]
  rfl

theorem occA_map (hf : IsHom f) (arch : Arch α) (bs : List (Buffet α)) :
    occA (arch.map f) (bs.map (Buffet.map f)) = (occA arch bs).map (fun x => (x.1, x.2.1, f x.2.2)) := by
  simp only [occA, memBA_map hf, List.map_map]; rfl

theorem memsA_map (hf : IsHom f) (arch : Arch α) (bs : List (Buffet α)) :
    memsA (arch.map f) (bs.map (Buffet.map f)) = memsA arch bs := by
  simp only [memsA, memBA_map hf, levelIds_map, any_lvl_map]

theorem sumOcc_map (hf : IsHom f) (bs : List (Buffet α)) :
    sumList ((bs.map (Buffet.map f)).map (fun b => b.s.maxOccupancy)) = f (sumList (bs.map (fun b => b.s.maxOccupancy))) := by
  rw [← sumList_map hf, List.map_map, List.map_map]; rfl

theorem memBitsA_map (hf : IsHom f) (arch : Arch α) (bs : List (Buffet α)) :
    memBitsA (arch.map f) (bs.map (Buffet.map f)) = (memBitsA arch bs).map (fun x => (x.1, f x.2)) := by
  simp only [memBitsA, memsA_map hf, memBA_map hf, filter_lvl_map, sumOcc_map hf]
  rw [List.map_map]; rfl

theorem nOptsA_map (hf : IsHom f) (arch : Arch α) (bs : List (Buffet α)) :
    nOptsA (arch.map f) (bs.map (Buffet.map f)) = nOptsA arch bs := by
  simp only [nOptsA, memBA_map hf, List.foldl_map]; rfl

theorem filter_n_map (bs : List (Buffet α)) (n : Nat) :
    (bs.map (Buffet.map f)).filter (fun b => b.s.nLoopsAbove == n) = (bs.filter (fun b => b.s.nLoopsAbove == n)).map (Buffet.map f) := by
  rw [List.filter_map]; rfl

theorem resvStep_map (hf : IsHom f) (size : α) (l : Lvl) (mine : List (Buffet α)) (acc : α × List (Lvl × Nat × α)) (n : Nat) :
    resvStep (f size) l (mine.map (Buffet.map f)) (f acc.1, acc.2.map (fun x => (x.1, x.2.1, f x.2.2))) n
      = (f (resvStep size l mine acc n).1, (resvStep size l mine acc n).2.map (fun x => (x.1, x.2.1, f x.2.2))) := by
  simp only [resvStep, filter_n_map, List.isEmpty_map, sumOcc_map hf]
  split
  · rfl
  · simp [hf.add, hf.div]

theorem resv_fold_map (hf : IsHom f) (size : α) (l : Lvl) (mine : List (Buffet α)) (ns : List Nat) :
    ∀ acc : α × List (Lvl × Nat × α),
      ns.foldl (resvStep (f size) l (mine.map (Buffet.map f))) (f acc.1, acc.2.map (fun x => (x.1, x.2.1, f x.2.2)))
        = (f (ns.foldl (resvStep size l mine) acc).1, (ns.foldl (resvStep size l mine) acc).2.map (fun x => (x.1, x.2.1, f x.2.2))) := by
  induction ns with
  | nil => intro acc; rfl
  | cons n r ih => intro acc; simp only [List.foldl_cons, resvStep_map hf, ih]

theorem resvA_map (hf : IsHom f) (arch : Arch α) (bs : List (Buffet α)) :
    resvA (arch.map f) (bs.map (Buffet.map f)) = (resvA arch bs).map (fun x => (x.1, x.2.1, f x.2.2)) := by
  simp only [resvA, memsA_map hf, nOptsA_map hf, memBA_map hf, filter_lvl_map, List.map_flatMap, lvOf_map hf]
  congr 1
  funext l
  have h0 : ((0 : β), ([] : List (Lvl × Nat × β)))
      = (f ((0 : α), ([] : List (Lvl × Nat × α))).1,
         ((0 : α), ([] : List (Lvl × Nat × α))).2.map (fun x => (x.1, x.2.1, f x.2.2))) := by
    simp [hf.zero]
  have hs : ((arch.levels.getD l Level.dflt).map f).size = f (arch.levels.getD l Level.dflt).size := rfl
  rw [hs, h0]
  exact congrArg Prod.snd (resv_fold_map hf _ l _ (nOptsA arch bs) (0, []))

/-- **`assemble` commutes with homomorphisms.** -/
theorem assemble_map (hf : IsHom f) (arch : Arch α) (w : Workload α) (m : Mapping α) (bs : List (Buffet α)) :
    assemble (arch.map f) (w.map f) (m.map (Node.map f)) (bs.map (Buffet.map f)) = (assemble arch w m bs).map f := by
  rw [assemble_eq, assemble_eq]
  have hni : (w.map f).nInstances = f w.nInstances := rfl
  have hce : (arch.map f).compute.energy = f arch.compute.energy := rfl
  have hcl : (arch.map f).compute.leak = f arch.compute.leak := rfl
  simp only [Result.map, actsA_map hf, ensA_map hf, ccA_map hf, overallA_map hf, latsA_map hf, compLatA_map hf, dynA_map hf,
    leakA_map hf, occA_map hf, resvA_map hf, memBitsA_map hf, hni, hce, hcl, List.map_map, ← hf.mul, ← hf.add, lvOf_map hf]
  have hlev : (arch.map f).levels = arch.levels.map (Level.map f) := rfl
  rw [hlev, List.map_map]
  congr 1 <;>
    first
    | rfl
    | (apply List.map_congr_left; intro x _
       simp only [Function.comp, quadMap, hf.mul, hf.div, Level.map])

end AFV.Nest
