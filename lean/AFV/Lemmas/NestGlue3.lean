import AFV.Lemmas.NestGlue2
namespace AFV.Nest
open AFV.NestExec

theorem OKm_singles {α : Type} (t : TId) (nlv : Nat) (l : Lvl) (isS : Bool) (ts : List TId) (R : Mapping α)
    (hR : OKm t nlv R) (hl : l < nlv) (hnd : ts.Nodup) (hnot : ts.contains t = true → (l, t) ∉ holderKeys R) :
    OKm t nlv (ts.map (fun t' => if isS then Node.storage l [t'] true else Node.toll l [t'] true) ++ R) := by
  induction ts with
  | nil => exact hR
  | cons x xs ih =>
    have hnd' := (List.nodup_cons.1 hnd).2
    have hx := (List.nodup_cons.1 hnd).1
    have ih' := ih hnd' (fun h => hnot (by simp only [List.contains_cons, h, Bool.or_true]))
    have key : ([x] : List TId).contains t = true → l < nlv ∧
        l ∉ holderLevels t (xs.map (fun t' => if isS then Node.storage l [t'] true else Node.toll l [t'] true) ++ R) := by
      intro hc
      have hxt : x = t := by simpa [List.contains_cons, eq_comm] using hc
      subst hxt
      refine ⟨hl, ?_⟩
      rw [mem_holderLevels, holderKeys_singles]
      simp only [List.mem_append, List.mem_map, Prod.mk.injEq, true_and, exists_eq_right, not_or]
      exact ⟨hx, hnot (by simp)⟩
    cases isS
    · simp only [List.map_cons, List.cons_append, Bool.false_eq_true, if_false, OKm] at ih' key ⊢
      exact ⟨⟨x, rfl⟩, trivial, key, ih'⟩
    · simp only [List.map_cons, List.cons_append, if_true, OKm] at ih' key ⊢
      exact ⟨⟨x, rfl⟩, trivial, key, ih'⟩

theorem wfNode_storage (arch : Arch Rat) (n : Nat) (l : Lvl) (ts : List TId) (lo : Bool)
    (h : wfNode arch n (.storage l ts lo) = true) :
    l < arch.levels.length ∧ (arch.levels.getD l Level.dflt).isToll = false ∧ ts ≠ [] ∧ ts.Nodup ∧ lo = true := by
  simp only [wfNode, Bool.and_eq_true] at h
  obtain ⟨⟨⟨⟨h1, h2⟩, _⟩, h4⟩, h5⟩ := h
  have hl : l < arch.levels.length := by
    by_contra hc
    have hle : arch.levels.length ≤ l := Nat.le_of_not_lt hc
    rw [List.getElem?_eq_none hle] at h1
    simp at h1
  refine ⟨hl, ?_, ?_, (nodupB_iff ts).1 h4, h5⟩
  · simp only [List.getD, List.getElem?_eq_getElem hl, Option.getD_some] at h1 ⊢
    simpa using h1
  · intro he; subst he; simp at h2

theorem wfNode_toll (arch : Arch Rat) (n : Nat) (l : Lvl) (ts : List TId) (lo : Bool)
    (h : wfNode arch n (.toll l ts lo) = true) :
    l < arch.levels.length ∧ (arch.levels.getD l Level.dflt).isToll = true ∧ ts ≠ [] ∧ ts.Nodup ∧ lo = true := by
  simp only [wfNode, Bool.and_eq_true] at h
  obtain ⟨⟨⟨⟨h1, h2⟩, _⟩, h4⟩, h5⟩ := h
  have hl : l < arch.levels.length := by
    by_contra hc
    have hle : arch.levels.length ≤ l := Nat.le_of_not_lt hc
    rw [List.getElem?_eq_none hle] at h1
    simp at h1
  refine ⟨hl, ?_, ?_, (nodupB_iff ts).1 h4, h5⟩
  · simp only [List.getD, List.getElem?_eq_getElem hl, Option.getD_some] at h1 ⊢
    simpa using h1
  · intro he; subst he; simp at h2

theorem OKm_of_wf (arch : Arch Rat) (ntens : Nat) (t : TId) (m : Mapping Nat) :
    ∀ shape, wfLoops shape m = true → (∀ n ∈ m, wfNode arch ntens n = true) → (holderKeys m).Nodup →
      OKm (α := Rat) t arch.levels.length (splitHolders (castMapping m)) := by
  induction m with
  | nil => intro shape h; simp [wfLoops] at h
  | cons n r ih =>
    intro shape hl hn hk
    have hn' : ∀ n ∈ r, wfNode arch ntens n = true := fun n h => hn n (List.mem_cons_of_mem _ h)
    cases n with
    | compute =>
      cases r with
      | nil => simp [castMapping, castNode, splitHolders, OKm]
      | cons x xs => simp [wfLoops] at hl
    | loop rv tile =>
      simp only [wfLoops, Bool.and_eq_true] at hl
      simp only [castMapping, List.map_cons, castNode, splitHolders, OKm]
      exact ih _ hl.2 hn' (by simpa [holderKeys] using hk)
    | storage l ts lo =>
      obtain ⟨hlv, _, hne, hnd, hlo⟩ := wfNode_storage arch ntens l ts lo (hn _ (List.mem_cons_self ..))
      subst hlo
      have hk' : (holderKeys r).Nodup := by
        simp only [holderKeys] at hk; exact (List.nodup_append.1 hk).2.1
      have hR := ih shape (by simpa [wfLoops] using hl) hn' hk'
      have hnot : ∀ t', t' ∈ ts → (l, t') ∉ holderKeys (splitHolders (castMapping r)) := by
        intro t' ht' hmem
        rw [holderKeys_split, holderKeys_cast] at hmem
        simp only [holderKeys] at hk
        exact (List.nodup_append.1 hk).2.2 (l, t') (by simp [ht']) (l, t') hmem rfl
      simp only [castMapping, List.map_cons, castNode, splitHolders]
      split
      · have := OKm_singles (α := Rat) t arch.levels.length l true ts (splitHolders (castMapping r)) hR hlv hnd
          (fun hc => hnot t (by simpa using hc))
        simpa only [if_true, castMapping] using this
      · rename_i hlen
        obtain ⟨t', rfl⟩ : ∃ t', ts = [t'] := by
          match ts, hne, hlen with
          | [x], _, _ => exact ⟨x, rfl⟩
          | x :: y :: zs, _, h => simp at h
        simp only [List.singleton_append, OKm]
        refine ⟨⟨t', rfl⟩, trivial, ?_, hR⟩
        intro hc
        have htt : t' = t := by simpa [List.contains_cons, eq_comm] using hc
        subst htt
        exact ⟨hlv, fun h => hnot t' (by simp) ((mem_holderLevels t' l _).1 h)⟩
    | toll l ts lo =>
      obtain ⟨hlv, _, hne, hnd, hlo⟩ := wfNode_toll arch ntens l ts lo (hn _ (List.mem_cons_self ..))
      subst hlo
      have hk' : (holderKeys r).Nodup := by
        simp only [holderKeys] at hk; exact (List.nodup_append.1 hk).2.1
      have hR := ih shape (by simpa [wfLoops] using hl) hn' hk'
      have hnot : ∀ t', t' ∈ ts → (l, t') ∉ holderKeys (splitHolders (castMapping r)) := by
        intro t' ht' hmem
        rw [holderKeys_split, holderKeys_cast] at hmem
        simp only [holderKeys] at hk
        exact (List.nodup_append.1 hk).2.2 (l, t') (by simp [ht']) (l, t') hmem rfl
      simp only [castMapping, List.map_cons, castNode, splitHolders]
      split
      · have := OKm_singles (α := Rat) t arch.levels.length l false ts (splitHolders (castMapping r)) hR hlv hnd
          (fun hc => hnot t (by simpa using hc))
        simpa only [Bool.false_eq_true, if_false, castMapping] using this
      · rename_i hlen
        obtain ⟨t', rfl⟩ : ∃ t', ts = [t'] := by
          match ts, hne, hlen with
          | [x], _, _ => exact ⟨x, rfl⟩
          | x :: y :: zs, _, h => simp at h
        simp only [List.singleton_append, OKm]
        refine ⟨⟨t', rfl⟩, trivial, ?_, hR⟩
        intro hc
        have htt : t' = t := by simpa [List.contains_cons, eq_comm] using hc
        subst htt
        exact ⟨hlv, fun h => hnot t' (by simp) ((mem_holderLevels t' l _).1 h)⟩

end AFV.Nest
