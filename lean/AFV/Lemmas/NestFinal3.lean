import AFV.Lemmas.NestFinal2
namespace AFV.Nest
open AFV.NestExec

def bpvOf (wq : Workload Rat) (t : TId) : Rat := (wq.tensors.getD t { rvs := [], isOutput := false, bpv := 1 }).bpv

/-- One row of `action` counts as `analytic` computes it (before `n_instances`). -/
def rowA (arch : Arch Rat) (b : Buffet Rat) : Lvl × TId × Rat × Rat :=
  (b.lvl, b.t, netRead b.s * (arch.levels.getD b.lvl Level.dflt).actionsScale,
    netWrite b.s * (arch.levels.getD b.lvl Level.dflt).actionsScale)

/-- One row as the reference execution gives it. -/
def rowE (arch : Arch Rat) (wq : Workload Rat) (wn : Workload Nat) (m : Mapping Nat) (t : TId) (l : Lvl) :
    Lvl × TId × Rat × Rat :=
  let lv := arch.levels.getD l Level.dflt
  (l, t, ((valueCounts arch wn m t l).1 : Rat) / valuesPerActionSpec lv lv.read t (bpvOf wq t) * lv.actionsScale,
    if lv.isToll then 0 else ((valueCounts arch wn m t l).2 : Rat) / valuesPerActionSpec lv lv.write t (bpvOf wq t) * lv.actionsScale)

theorem entry_actions (arch : Arch Rat) (wq : Workload Rat) (wn : Workload Nat) (m : Mapping Nat)
    (hf : WFfacts arch wn m) (t : TId) (ht : t < wn.tensors.length) (tb : Table Rat)
    (hrel : List.Forall₂ (RelE arch wq t) (proj tb) (simpleN arch (tinfo arch wn t) false wn.bounds m))
    (l : Lvl) (s : Stats Rat) (hmem : (BKey.mem l, s) ∈ tb) :
    rowA arch { lvl := l, t := t, s := s } = rowE arch wq wn m t l := by
  have hp : (BKey.mem l, s.c) ∈ proj tb := List.mem_map.2 ⟨_, hmem, rfl⟩
  obtain ⟨⟨k, cn⟩, hn, hk, hr⟩ := forall₂_mem_left hrel hp
  simp only at hk; subst hk
  obtain ⟨h1, h2⟩ := trace_counts arch wn m hf t ht l cn hn
  have hwfT := wfT_of_wf arch wn.tensors.length (tinfo arch wn t) m false wn.bounds hf.bounds hf.loops hf.nodes
    (Or.inr (hf.backed t ht))
  have hR : ((countEv (traceOf arch wn m t) l false : Nat) : Rat) = (cn.readActions : Rat) - (cn.skReadActions : Rat) := by
    rw [← h1]; push_cast; ring
  have hW : ((countEv (traceOf arch wn m t) l true : Nat) : Rat) = (cn.writeActions : Rat) - (cn.skWriteActions : Rat) := by
    rw [← h2]; push_cast; ring
  have hra : s.c.readActions = (cn.readActions : Rat) *
      (1 / valuesPerAction (arch.levels.getD l Level.dflt) (arch.levels.getD l Level.dflt).read t (bpvOf wq t)) := hr.ra
  have hkra : s.c.skReadActions = (cn.skReadActions : Rat) *
      (1 / valuesPerAction (arch.levels.getD l Level.dflt) (arch.levels.getD l Level.dflt).read t (bpvOf wq t)) := hr.kra
  have hwa : s.c.writeActions = (cn.writeActions : Rat) *
      (1 / valuesPerAction (arch.levels.getD l Level.dflt) (arch.levels.getD l Level.dflt).write t (bpvOf wq t)) := hr.wa
  have hkwa : s.c.skWriteActions = (cn.skWriteActions : Rat) *
      (1 / valuesPerAction (arch.levels.getD l Level.dflt) (arch.levels.getD l Level.dflt).write t (bpvOf wq t)) := hr.kwa
  unfold rowA rowE
  refine Prod.ext rfl (Prod.ext rfl (Prod.ext ?_ ?_))
  · show netRead s * _ = ((countEv (traceOf arch wn m t) l false : Nat) : Rat) / _ * _
    rw [← vpa_precedence, hR]
    simp only [netRead, hra, hkra]
    ring
  · show netWrite s * _ = if _ then (0 : Rat) else ((countEv (traceOf arch wn m t) l true : Nat) : Rat) / _ * _
    by_cases htoll : (arch.levels.getD l Level.dflt).isToll = true
    · obtain ⟨z1, z2⟩ := simpleN_toll_write arch (tinfo arch wn t) m false false wn.bounds hwfT _ hn l rfl htoll
      have z1' : cn.writeActions = 0 := z1
      have z2' : cn.skWriteActions = 0 := z2
      rw [if_pos htoll]
      simp only [netWrite, hwa, hkwa, z1', z2']
      simp
    · rw [if_neg htoll, ← vpa_precedence, hW]
      simp only [netWrite, hwa, hkwa]
      ring

/-- The rows of one tensor. -/
theorem rows_tensor (arch : Arch Rat) (t : TId) (g : Lvl → Lvl × TId × Rat × Rat) (ls : List Lvl) :
    ∀ (tb : Table Rat), tb.map (·.1) = ls.map BKey.mem ++ [BKey.comp] →
      (∀ l s, (BKey.mem l, s) ∈ tb → rowA arch { lvl := l, t := t, s := s } = g l) →
      (tableBuffets t tb).map (rowA arch) = ls.map g := by
  induction ls with
  | nil =>
    intro tb hk _
    match tb, hk with
    | [(BKey.comp, s)], _ => simp [tableBuffets]
  | cons l ls ih =>
    intro tb hk hpt
    match tb, hk with
    | (k, s) :: tb', hk =>
      simp only [List.map_cons, List.cons_append, List.cons.injEq] at hk
      obtain ⟨rfl, hk'⟩ := hk
      simp only [tableBuffets, List.map_cons]
      rw [hpt l s (List.mem_cons_self ..), ih tb' hk' (fun l' s' h => hpt l' s' (List.mem_cons_of_mem _ h))]

end AFV.Nest
