import AFV.Lemmas.Mapspace
/-!
# The step relation is the declarative description, read from a state

`steps_iff`: from any state, `steps` holds iff every clause of `inSpace` holds, each clause started at the corresponding
component of the state.  `mem_all_iff` instantiates it at the initial states of all storage choices.
-/
namespace AFV.Mapspace
open AFV.Nest

theorem all_perm {α : Type} {l₁ l₂ : List α} (h : l₁.Perm l₂) (p : α → Bool) : l₁.all p = l₂.all p := by
  rw [Bool.eq_iff_iff]
  simp only [List.all_eq_true]
  exact ⟨fun H x hx => H x (h.mem_iff.2 hx), fun H x hx => H x (h.mem_iff.1 hx)⟩

theorem steps_iff (s : SpecDesc) : ∀ (m : Mapping Nat) (σ : St),
    (∀ k ∈ σ.todo, k.1 < s.nLevels ∧ k.2 < s.nTensors) →
    (steps s σ m = true ↔
      endsWithCompute m = true ∧ m.all (nodeOk s) = true ∧ loopsOk σ.shape m = true ∧
      (holderKeys m).Perm σ.todo ∧ orderOk s.forceOrder (holderKeys m) = true ∧
      topOk σ.seenLoop m = true ∧ validOk s σ.heldT m = true)
  | [], σ, _ => by simp [steps, endsWithCompute]
  | .compute :: r, σ, _ => by
    cases r with
    | nil =>
      simp only [steps, List.isEmpty_nil, Bool.true_and, endsWithCompute, List.all_cons, nodeOk, List.all_nil,
        loopsOk, holderKeys, orderOk, topOk, validOk, St.done, Bool.and_eq_true, List.isEmpty_iff, true_and, and_true]
      constructor
      · rintro ⟨h1, h2⟩; exact ⟨h2, by rw [h1]⟩
      · rintro ⟨h2, h1⟩; exact ⟨(List.perm_nil.1 h1.symm), h2⟩
    | cons x r' => simp [steps, endsWithCompute]
  | .toll _ _ _ :: r, σ, _ => by simp [steps, nodeOk]
  | .storage l ts lo :: r, σ, hb => by
    match ts with
    | [] => simp [steps, nodeOk]
    | _ :: _ :: _ => simp [steps, nodeOk]
    | [t] =>
      have hb' : ∀ k ∈ (σ.afterStorage (l, t)).todo, k.1 < s.nLevels ∧ k.2 < s.nTensors := by
        intro k hk
        exact hb k (List.mem_of_mem_erase hk)
      have ih := steps_iff s r (σ.afterStorage (l, t)) hb'
      simp only [St.afterStorage] at ih
      simp only [steps, Bool.and_eq_true, ih, endsWithCompute, List.all_cons, nodeOk, loopsOk, holderKeys,
        List.map_cons, List.map_nil, List.cons_append, List.nil_append, orderOk, topOk, validOk,
        List.cons_perm_iff_perm_erase, decide_eq_true_eq, List.contains_iff_mem, placeable, St.afterStorage]
      constructor
      · rintro ⟨⟨⟨hlo, hk⟩, hpl, hpt⟩, he, hn, hl, hp, ho, htop, hv⟩
        have hkb := hb _ hk
        refine ⟨he, ⟨⟨⟨hkb.1, hkb.2⟩, hlo⟩, hn⟩, hl, ⟨hk, hp⟩, ⟨?_, ho⟩, ⟨hpt, htop⟩, hv⟩
        rw [all_perm hp]; exact hpl
      · rintro ⟨he, ⟨⟨_, hlo⟩, hn⟩, hl, ⟨hk, hp⟩, ⟨hab, ho⟩, ⟨hpt, htop⟩, hv⟩
        refine ⟨⟨⟨hlo, hk⟩, ?_, hpt⟩, he, hn, hl, hp, ho, htop, hv⟩
        rw [← all_perm hp]; exact hab
  | .loop rv tile :: r, σ, hb => by
    have ih := steps_iff s r (σ.afterLoop rv tile) hb
    simp only [St.afterLoop] at ih
    simp only [steps, Bool.and_eq_true, ih, endsWithCompute, List.all_cons, nodeOk, loopsOk, holderKeys,
      topOk, validOk, List.contains_iff_mem, mem_loopOptions, decide_eq_true_eq, beq_iff_eq,
      St.afterLoop, Bool.true_and]
    constructor
    · rintro ⟨⟨h1, h2, h3, h4, h5⟩, he, hn, hl, hp, ho, htop, hv⟩
      exact ⟨he, hn, ⟨⟨⟨⟨h1, h3⟩, h4⟩, h5⟩, hl⟩, hp, ho, htop, h2, hv⟩
    · rintro ⟨he, hn, ⟨⟨⟨⟨h1, h3⟩, h4⟩, h5⟩, hl⟩, hp, ho, htop, h2, hv⟩
      exact ⟨⟨h1, h2, h3, h4, h5⟩, he, hn, hl, hp, ho, htop, hv⟩

/-! ## Storage choices -/

theorem mem_subsets {α : Type} : ∀ {l l' : List α}, l' ∈ subsets l ↔ l'.Sublist l
  | [], l' => by simp [subsets]
  | a :: l, l' => by
    simp only [subsets, List.mem_append, List.mem_map, mem_subsets (l := l)]
    constructor
    · rintro (⟨x, hx, rfl⟩ | h)
      · exact hx.cons_cons a
      · exact h.cons a
    · intro h
      cases h with
      | cons _ h => exact Or.inr h
      | cons_cons _ h => exact Or.inl ⟨_, h, rfl⟩

theorem mem_allKeys {s : SpecDesc} {k : Key} : k ∈ allKeys s ↔ k.1 < s.nLevels ∧ k.2 < s.nTensors := by
  obtain ⟨l, t⟩ := k
  simp [allKeys, List.mem_flatMap, List.mem_map, List.mem_range]

theorem nodup_allKeys (s : SpecDesc) : (allKeys s).Nodup := by
  unfold allKeys
  rw [List.nodup_flatMap]
  refine ⟨fun l _ => ?_, ?_⟩
  · exact (List.nodup_range).map (fun a b h => by simpa using h)
  · refine (List.nodup_range).pairwise_of_forall_ne ?_
    intro a _ b _ hab
    simp only [Function.onFun, List.disjoint_left, List.mem_map, List.mem_range]
    rintro x ⟨t, _, rfl⟩ ⟨t', _, h⟩
    exact hab (by simpa using (congrArg Prod.fst h).symm)

theorem nodupB_iff {β : Type} [DecidableEq β] : ∀ (l : List β), nodupB l = true ↔ l.Nodup
  | [] => by simp [nodupB]
  | a :: l => by simp [nodupB, nodupB_iff l]

theorem all_congr_mem {α : Type} {A B : List α} (h : ∀ k, k ∈ A ↔ k ∈ B) (p : α → Bool) : A.all p = B.all p := by
  rw [Bool.eq_iff_iff]
  simp only [List.all_eq_true]
  exact ⟨fun H x hx => H x ((h x).2 hx), fun H x hx => H x ((h x).1 hx)⟩

theorem any_congr_mem {α : Type} {A B : List α} (h : ∀ k, k ∈ A ↔ k ∈ B) (p : α → Bool) : A.any p = B.any p := by
  rw [Bool.eq_iff_iff]
  simp only [List.any_eq_true]
  exact ⟨fun ⟨x, hx, hp⟩ => ⟨x, (h x).1 hx, hp⟩, fun ⟨x, hx, hp⟩ => ⟨x, (h x).2 hx, hp⟩⟩

theorem keyMem_congr {A B : List Key} (h : ∀ k, k ∈ A ↔ k ∈ B) (k : Key) : keyMem k A = keyMem k B := by
  rw [Bool.eq_iff_iff]
  simp [keyMem, h]

theorem mustKeep_congr {A B : List Key} (h : ∀ k, k ∈ A ↔ k ∈ B) (r : LevelRule) (t : TId) :
    mustKeep r A t = mustKeep r B t := by
  unfold mustKeep
  cases r.keepNotIn with
  | none => rfl
  | some l' => simp only [keyMem_congr h]

theorem heldOk_congr (s : SpecDesc) {A B : List Key} (h : ∀ k, k ∈ A ↔ k ∈ B) (k : Key) :
    heldOk s A k = heldOk s B k := by
  unfold heldOk
  cases s.rules[k.1]? with
  | none => rfl
  | some r => simp only [mustKeep_congr h]

theorem levelOk_congr (s : SpecDesc) {A B : List Key} (h : ∀ k, k ∈ A ↔ k ∈ B) (l : Lvl) :
    levelOk s A l = levelOk s B l := by
  unfold levelOk
  cases s.rules[l]? with
  | none => rfl
  | some r => simp only [mustKeep_congr h, keyMem_congr h]

/-- `choiceOk` only looks at which pairs are held, not at their order. -/
theorem choiceOk_congr (s : SpecDesc) {A B : List Key} (h : ∀ k, k ∈ A ↔ k ∈ B) : choiceOk s A = choiceOk s B := by
  unfold choiceOk
  have e1 : heldOk s A = heldOk s B := funext (heldOk_congr s h)
  have e2 : levelOk s A = levelOk s B := funext (levelOk_congr s h)
  have e3 : (fun t => A.any (fun k => k.2 == t)) = (fun t => B.any (fun k => k.2 == t)) :=
    funext (fun t => any_congr_mem h _)
  rw [e1, e2, e3, all_congr_mem h]

theorem holderKeys_bounds (s : SpecDesc) : ∀ (m : Mapping Nat), m.all (nodeOk s) = true →
    ∀ k ∈ holderKeys m, k.1 < s.nLevels ∧ k.2 < s.nTensors
  | [], _, k, hk => by simp [holderKeys] at hk
  | .compute :: r, h, k, hk => by
    simp only [List.all_cons, Bool.and_eq_true] at h
    exact holderKeys_bounds s r h.2 k (by simpa [holderKeys] using hk)
  | .loop _ _ :: r, h, k, hk => by
    simp only [List.all_cons, Bool.and_eq_true] at h
    exact holderKeys_bounds s r h.2 k (by simpa [holderKeys] using hk)
  | .toll _ _ _ :: r, h, k, hk => by simp [nodeOk] at h
  | .storage l ts lo :: r, h, k, hk => by
    simp only [List.all_cons, Bool.and_eq_true] at h
    match ts, h with
    | [], h => simp [nodeOk] at h
    | _ :: _ :: _, h => simp [nodeOk] at h
    | [t], h =>
      simp only [nodeOk, Bool.and_eq_true, decide_eq_true_eq] at h
      simp only [holderKeys, List.map_cons, List.map_nil, List.cons_append, List.nil_append, List.mem_cons] at hk
      rcases hk with rfl | hk
      · exact ⟨h.1.1.1, h.1.1.2⟩
      · exact holderKeys_bounds s r h.2 k hk

/-- **The enumerator produces exactly the described space.** -/
theorem mem_all_iff (s : SpecDesc) (m : Mapping Nat) : m ∈ all s ↔ inSpace s m = true := by
  simp only [all, List.mem_flatMap, choices, List.mem_filter, mem_subsets]
  constructor
  · rintro ⟨ch, ⟨hsub, hok⟩, hm⟩
    have hb : ∀ k ∈ (St.init s ch).todo, k.1 < s.nLevels ∧ k.2 < s.nTensors :=
      fun k hk => mem_allKeys.1 (hsub.subset hk)
    have hst := (mem_gen_iff (Nat.lt_succ_self _)).1 hm
    obtain ⟨he, hn, hl, hp, ho, htop, hv⟩ := (steps_iff s m _ hb).1 hst
    have hnd : (holderKeys m).Nodup := hp.nodup_iff.2 (hsub.nodup (nodup_allKeys s))
    simp only [inSpace, Bool.and_eq_true]
    refine ⟨⟨⟨⟨⟨⟨⟨he, hn⟩, hl⟩, (nodupB_iff _).2 hnd⟩, ?_⟩, ho⟩, htop⟩, hv⟩
    rw [choiceOk_congr s (fun k => hp.mem_iff)]
    exact hok
  · intro h
    simp only [inSpace, Bool.and_eq_true] at h
    obtain ⟨⟨⟨⟨⟨⟨⟨he, hn⟩, hl⟩, hnd⟩, hok⟩, ho⟩, htop⟩, hv⟩ := h
    have hnd' := (nodupB_iff _).1 hnd
    let ch := (allKeys s).filter (fun k => (holderKeys m).contains k)
    have hsub : ch.Sublist (allKeys s) := List.filter_sublist
    have hmem : ∀ k, k ∈ holderKeys m ↔ k ∈ ch := by
      intro k
      simp only [ch, List.mem_filter, List.contains_iff_mem, mem_allKeys]
      exact ⟨fun hk => ⟨holderKeys_bounds s m hn k hk, hk⟩, fun hk => hk.2⟩
    have hp : (holderKeys m).Perm ch :=
      (List.perm_ext_iff_of_nodup hnd' (hsub.nodup (nodup_allKeys s))).2 hmem
    refine ⟨ch, ⟨hsub, ?_⟩, ?_⟩
    · rw [← choiceOk_congr s hmem]; exact hok
    · have hb : ∀ k ∈ (St.init s ch).todo, k.1 < s.nLevels ∧ k.2 < s.nTensors :=
        fun k hk => mem_allKeys.1 (hsub.subset hk)
      exact (mem_gen_iff (Nat.lt_succ_self _)).2 ((steps_iff s m _ hb).2 ⟨he, hn, hl, hp, ho, htop, hv⟩)

end AFV.Mapspace
