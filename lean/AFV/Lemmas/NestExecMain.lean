import AFV.Lemmas.NestCount
/-!
# The reference execution of one tensor has the counts predicted by `simpleN`  (main induction)
-/
namespace AFV.NestExec
open AFV.Nest

/-- Total events predicted for the nest `m` under the holders `chain`. -/
def TT (arch : Arch Rat) (ti : TInfo) (hp : Bool) (shape : List Nat) (m : Mapping Nat) (chain : List Hold)
    (l : Lvl) (rw : Bool) : Nat :=
  innerT (simpleN arch ti hp shape m) l rw
    + attrT chain (bndR (simpleN arch ti hp shape m)) (bndW (simpleN arch ti hp shape m)) l rw

/-- The part of them that does not happen when the tile has never been written. -/
def KK (arch : Arch Rat) (ti : TInfo) (hp : Bool) (shape : List Nat) (m : Mapping Nat) (chain : List Hold)
    (l : Lvl) (rw : Bool) : Nat :=
  innerK (simpleN arch ti hp shape m) l rw + attrK chain (bndK (simpleN arch ti hp shape m)) l rw

def Post (arch : Arch Rat) (ti : TInfo) (m : Mapping Nat) (chain : List Hold) (e : Env) (st st' : St) (f : Bool) : Prop :=
  (∀ x, st'.written x = (st.written x || (ti.isOut && inRegion e ti.rvs x))) ∧
  ∃ Δ, st'.trace = st.trace ++ Δ ∧
    ∀ l rw, countEv Δ l rw + (if f then KK arch ti (!chain.isEmpty) e.shape m chain l rw else 0)
      = TT arch ti (!chain.isEmpty) e.shape m chain l rw

theorem attrT_zero (chain : List Hold) (l : Lvl) (rw : Bool) : attrT chain 0 0 l rw = 0 := by
  induction chain with
  | nil => rfl
  | cons h r ih => simp only [attrT, ih]; split <;> [(split <;> simp); (split <;> [split <;> rfl; rfl])]

theorem attrK_zero (chain : List Hold) (l : Lvl) (rw : Bool) : attrK chain 0 l rw = 0 := by
  induction chain with
  | nil => rfl
  | cons h r ih => simp only [attrK, ih]; split <;> split <;> simp

/-- An input tensor never sends anything up and never skips. -/
theorem simpleN_input (arch : Arch Rat) (ti : TInfo) (hin : ti.isOut = false) (m : Mapping Nat) :
    ∀ hp shape, bndW (simpleN arch ti hp shape m) = 0 ∧ bndK (simpleN arch ti hp shape m) = 0 := by
  induction m with
  | nil => intro hp shape; simp [simpleN, bndW, bndK]
  | cons n r ih =>
    intro hp shape
    cases n with
    | compute => simp [simpleN, bndW, bndK, computeCounts, hin]
    | loop rv tile =>
      simp only [simpleN, bndW_repeat, bndK_repeat, (ih hp (shape.set rv tile)).1, (ih hp (shape.set rv tile)).2]
      simp
    | storage l ts lo =>
      simp only [simpleN]
      split
      · simp [bndW, bndK, holderN, unitHolder, hin]
      · exact ih hp shape
    | toll l ts lo =>
      simp only [simpleN]
      split
      · simp [bndW, bndK, holderN, unitHolder, hin]
      · exact ih hp shape

theorem simpleN_ne_nil (arch : Arch Rat) (ti : TInfo) (m : Mapping Nat) :
    ∀ hp hp' shape, wfT arch ti hp' shape m → simpleN arch ti hp shape m ≠ [] := by
  induction m with
  | nil => intro hp hp' shape h; exact absurd h (by simp [wfT])
  | cons n r ih =>
    intro hp hp' shape h
    cases n with
    | compute => simp [simpleN]
    | loop rv tile =>
      simp only [simpleN, ne_eq, List.map_eq_nil_iff]
      exact ih hp hp' _ h.2.2.2.2
    | storage l ts lo =>
      simp only [simpleN, wfT] at h ⊢
      split
      · simp
      · rename_i hc; simp only [hc, Bool.false_eq_true, if_false] at h; exact ih hp hp' shape h
    | toll l ts lo =>
      simp only [simpleN, wfT] at h ⊢
      split
      · simp
      · rename_i hc; simp only [hc, Bool.false_eq_true, if_false] at h; exact ih hp hp' shape h

end AFV.NestExec

namespace AFV.NestExec
open AFV.Nest

theorem pre_out_of_f (ti : TInfo) (e : Env) (w : Elem → Bool) (f : Bool) (h : Pre ti e w f) (hf : f = true) :
    ti.isOut = true := by
  unfold Pre at h
  by_cases ho : ti.isOut
  · exact ho
  · simp only [ho, Bool.false_eq_true, if_false] at h; simp [h] at hf

/-- Compute node. -/
theorem exec_compute (arch : Arch Rat) (ti : TInfo) (rest : Mapping Nat) (chain : List Hold) (e : Env) (st : St) (f : Bool)
    (hwf : wfT arch ti (!chain.isEmpty) e.shape (.compute :: rest)) (hpre : Pre ti e st.written f) :
    Post arch ti (.compute :: rest) chain e st (execT arch ti (.compute :: rest) chain e st) f := by
  have hone : (elems e ti.rvs).length = 1 := by
    rw [elems_length]; exact tileSize_one _ _ hwf.1
  have hfresh := freshCount_of_pre ti e st f hpre
  rw [hone] at hfresh
  refine ⟨?_, ?_⟩
  · intro x
    simp only [execT]
    cases ti.isOut <;> simp
  · simp only [execT, hone, hfresh]
    refine ⟨_, List.append_assoc _ _ _, ?_⟩
    intro l rw
    simp only [TT, KK, simpleN, innerT, innerK, entT, entK, bndR, bndW, bndK, computeCounts, Counts.zero,
      List.map_cons, List.map_nil, List.sum_cons, List.sum_nil, countEv_append]
    have hD := countEv_serveDown ti.computeSkip 1 (if f then 1 else 0) (by split <;> omega) chain l rw
    have hU := countEv_serveUp 1 chain l rw
    have hS := attrT_split chain 1 (if ti.isOut then 1 else 0) l rw
    have hZ := attrT_zero chain l rw
    have hKZ := attrK_zero chain l rw
    cases hf : f
    · simp only [hf, Bool.false_eq_true, if_false] at hD ⊢
      have : attrK chain (if ti.computeSkip = true then 0 else 0) l rw = 0 := by split <;> exact hKZ
      rw [this] at hD
      cases ho : ti.isOut
      · simp only [ho, Bool.false_eq_true, if_false, countEv_nil] at hS ⊢; omega
      · simp only [ho, if_true] at hS ⊢; omega
    · have ho := pre_out_of_f ti e st.written f hpre hf
      simp only [hf, ho, if_true, Bool.true_and] at hD hS ⊢
      cases hc : ti.computeSkip
      · simp only [hc, Bool.false_eq_true, if_false] at hD ⊢; omega
      · simp only [hc, if_true] at hD ⊢; omega

end AFV.NestExec

namespace AFV.NestExec
open AFV.Nest

theorem innerT_cons (x : BKey × Counts Nat) (tb : CTable Nat) (l : Lvl) (rw : Bool) :
    innerT (x :: tb) l rw = entT x l rw + innerT tb l rw := by simp [innerT]

theorem innerK_cons (x : BKey × Counts Nat) (tb : CTable Nat) (l : Lvl) (rw : Bool) :
    innerK (x :: tb) l rw = entK x l rw + innerK tb l rw := by simp [innerK]

theorem bndR_cons (x : BKey × Counts Nat) (tb : CTable Nat) : bndR (x :: tb) = x.2.readsToParent := rfl
theorem bndW_cons (x : BKey × Counts Nat) (tb : CTable Nat) : bndW (x :: tb) = x.2.writesToParent := rfl
theorem bndK_cons (x : BKey × Counts Nat) (tb : CTable Nat) : bndK (x :: tb) = x.2.skippedFirst := rfl

/-- The entry of a Storage node (component is a Memory). -/
theorem holderN_storage (arch : Arch Rat) (ti : TInfo) (l : Lvl) (hp : Bool) (shape : List Nat) (tb : CTable Nat)
    (hmem : (arch.levels.getD l Level.dflt).isToll = false) :
    holderN arch ti l false hp shape tb =
      let F := tileSize shape ti.rvs
      let skip := (arch.levels.getD l Level.dflt).skipInitial
      { readsToParent := if hp then F else 0
        writesToParent := if hp && ti.isOut then F else 0
        skippedFirst := if hp && ti.isOut && skip then F else 0
        readActions := (if hp && ti.isOut then F else 0) + bndR tb
        writeActions := (if hp then F else 0) + bndW tb
        skReadActions := if skip then bndK tb else 0
        skWriteActions := if hp && ti.isOut && skip then F else 0 } := by
  simp only [holderN]
  generalize (arch.levels.getD l Level.dflt) = lv at hmem ⊢
  cases tb <;> simp [unitHolder, hmem, bndR, bndW, bndK]

/-- The entry of a Toll node (component is a Toll, the table below is non-empty). -/
theorem holderN_toll (arch : Arch Rat) (ti : TInfo) (l : Lvl) (hp : Bool) (shape : List Nat) (tb : CTable Nat)
    (htoll : (arch.levels.getD l Level.dflt).isToll = true) (hne : tb ≠ []) :
    holderN arch ti l true hp shape tb =
      let dir := dirOf (arch.levels.getD l Level.dflt) ti.t
      { readsToParent := if hp then bndR tb else 0
        writesToParent := if hp && ti.isOut then bndW tb else 0
        skippedFirst := if hp && ti.isOut then bndK tb else 0
        readActions := (if dir != Dir.down then (if hp && ti.isOut then bndW tb else 0) else 0)
                        + (if dir != Dir.up then bndR tb else 0)
        writeActions := 0
        skReadActions := if dir != Dir.up then bndK tb else 0
        skWriteActions := 0 } := by
  simp only [holderN]
  generalize (arch.levels.getD l Level.dflt) = lv at htoll ⊢
  cases tb with
  | nil => exact absurd rfl hne
  | cons x xs => simp [unitHolder, htoll, bndR, bndW, bndK]

end AFV.NestExec

namespace AFV.NestExec
open AFV.Nest

/-- Storage node holding the tensor. -/
theorem exec_storage (arch : Arch Rat) (ti : TInfo) (lvl : Lvl) (ts : List TId) (lo : Bool) (rest : Mapping Nat)
    (chain : List Hold) (e : Env) (st : St) (f : Bool)
    (hts : ts.contains ti.t = true)
    (hmem : (arch.levels.getD lvl Level.dflt).isToll = false)
    (hpre : Pre ti e st.written f)
    (ih : ∀ st0 : St, st0.written = st.written →
      Post arch ti rest (holdOf arch ti.t lvl false :: chain) e st0
        (execT arch ti rest (holdOf arch ti.t lvl false :: chain) e st0) f) :
    Post arch ti (.storage lvl ts lo :: rest) chain e st (execT arch ti (.storage lvl ts lo :: rest) chain e st) f := by
  have hfresh := freshCount_of_pre ti e st f hpre
  have hlen := elems_length e ti.rvs
  simp only [execT, hts, if_true]
  have hhl : (holdOf arch ti.t lvl false).lvl = lvl := rfl
  have hhT : (holdOf arch ti.t lvl false).isToll = false := rfl
  have hhs : (holdOf arch ti.t lvl false).skip = (arch.levels.getD lvl Level.dflt).skipInitial := rfl
  generalize holdOf arch ti.t lvl false = h at *
  generalize hfetch : (if (!chain.isEmpty) = true then
      ({ lvl := lvl, isWrite := true,
         n := (elems e ti.rvs).length - (if h.skip = true then freshCount ti e st else 0) } : Ev)
        :: serveDown h.skip (elems e ti.rvs).length (freshCount ti e st) chain
      else []) = fetch
  generalize hwb : (if (!chain.isEmpty && ti.isOut) = true then
      ({ lvl := lvl, isWrite := false, n := (elems e ti.rvs).length } : Ev) :: serveUp (elems e ti.rvs).length chain
      else []) = wb
  obtain ⟨hw, Δr, htr, hcnt⟩ := ih { st with trace := st.trace ++ fetch } rfl
  refine ⟨fun x => by simpa using hw x, ?_⟩
  refine ⟨fetch ++ Δr ++ wb, by simp only [htr, List.append_assoc], ?_⟩
  intro l rw
  have hc := hcnt l rw
  simp only [TT, KK, simpleN, hts, if_true, List.isEmpty_cons, Bool.not_false, innerT_cons, innerK_cons,
    holderN_storage arch ti lvl _ e.shape _ hmem, attrT, attrK, hhT, hhl, Bool.false_eq_true, if_false, entT, entK,
    bndR_cons, bndW_cons, bndK_cons] at hc ⊢
  rw [hhs] at hfetch hc
  rw [← hlen]
  generalize (elems e ti.rvs).length = F at *
  generalize (arch.levels.getD lvl Level.dflt).skipInitial = skip at *
  generalize innerT (simpleN arch ti true e.shape rest) l rw = iT at *
  generalize innerK (simpleN arch ti true e.shape rest) l rw = iK at *
  generalize bndR (simpleN arch ti true e.shape rest) = cR at *
  generalize bndW (simpleN arch ti true e.shape rest) = cW at *
  generalize bndK (simpleN arch ti true e.shape rest) = cK at *
  rw [hfresh] at hfetch
  subst hfetch
  subst hwb
  simp only [countEv_append]
  generalize countEv Δr l rw = dR at *
  cases chain with
  | nil =>
    simp only [List.isEmpty_nil, Bool.not_true, Bool.false_eq_true, if_false, Bool.false_and, countEv_nil, attrT, attrK,
      Nat.zero_add, Nat.add_zero]
    cases f <;> cases rw <;> by_cases hl : lvl = l <;> cases skip <;> simp [hl] at hc ⊢ <;> omega
  | cons h' r' =>
    have hZ := attrT_zero (h' :: r') l rw
    have hKZ := attrK_zero (h' :: r') l rw
    have hU := countEv_serveUp F (h' :: r') l rw
    have hS0 := attrT_split (h' :: r') F 0 l rw
    have hSF := attrT_split (h' :: r') F F l rw
    cases hf : f
    · -- the tile has been written before: nothing is skipped
      have hD := countEv_serveDown skip F 0 (Nat.zero_le _) (h' :: r') l rw
      have h0 : attrK (h' :: r') (if skip = true then 0 else 0) l rw = 0 := by split <;> exact hKZ
      rw [h0] at hD
      subst hf
      cases ho : ti.isOut <;>
        simp only [ho, List.isEmpty_cons, Bool.not_false, Bool.true_and, Bool.false_eq_true, if_false, if_true,
          Bool.and_false, Bool.and_true, countEv_cons, countEv_nil, ite_self, Nat.sub_zero] at hc ⊢ <;>
        cases rw <;> by_cases hl : lvl = l <;> simp [hl] at hc ⊢ <;> omega
    · have ho := pre_out_of_f ti e st.written f hpre hf
      subst hf
      cases skip
      · have hD := countEv_serveDown false F F (Nat.le_refl _) (h' :: r') l rw
        simp only [Bool.false_eq_true, if_false] at hD
        rw [hKZ] at hD
        simp only [ho, List.isEmpty_cons, Bool.not_false, Bool.true_and, Bool.false_eq_true, if_false, if_true,
          Bool.and_false, Bool.and_true, countEv_cons, countEv_nil, Nat.sub_zero, hKZ] at hc ⊢
        cases rw <;> by_cases hl : lvl = l <;> simp [hl] at hc ⊢ <;> omega
      · have hD := countEv_serveDown true F F (Nat.le_refl _) (h' :: r') l rw
        simp only [if_true] at hD
        simp only [ho, List.isEmpty_cons, Bool.not_false, Bool.true_and, Bool.false_eq_true, if_false, if_true,
          Bool.and_false, Bool.and_true, countEv_cons, countEv_nil, Nat.sub_self] at hc ⊢
        cases rw <;> by_cases hl : lvl = l <;> simp [hl] at hc ⊢ <;> omega

end AFV.NestExec
