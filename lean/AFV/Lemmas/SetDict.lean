import AFV.Lemmas.SetAlg
/-!
Lemmas about `eval_set_expression_dict`'s loop (`evalDictLoop`), the shrinking `Other` set and the
overlap check.
-/
namespace AFV.SetAlg

theorem lookup_insert_ne {st : Table} {n m : Name} {v : ISet} (h : n ≠ m) :
    lookup (insert st n v) m = lookup st m := by
  have : (n == m) = false := by simpa using h
  simp [insert, lookup, this]

theorem lookup_insert_self {st : Table} {n : Name} {v : ISet} :
    lookup (insert st n v) n = some v := by
  simp [insert, lookup]

/-- A binding the expression does not mention is irrelevant. -/
theorem evalExpr_insert_irrelevant (st : Table) (n : Name) (v : ISet) (e : SExpr)
    (h : n ∉ e.names) : evalExpr (insert st n v) e = evalExpr st e := by
  induction e with
  | name m =>
    have : n ≠ m := by simpa [SExpr.names] using h
    simp [evalExpr, lookup_insert_ne this]
  | and a b iha ihb | or a b iha ihb | sub a b iha ihb | xor a b iha ihb =>
    simp only [SExpr.names, List.mem_append, not_or] at h
    simp [evalExpr, iha h.1, ihb h.2]
  | inv a iha | call a iha =>
    simp only [SExpr.names] at h
    simp [evalExpr, iha h]

theorem evalSetExpression_none_ok {st : Table} {k : SExpr} {sp : Option Nat} {r : ISet}
    (h : evalSetExpression st k sp none = .ok r) : evalExpr st k = .ok r := by
  unfold evalSetExpression at h
  cases he : evalExpr st k with
  | error e => simp [he, bind, Except.bind] at h
  | ok r' =>
    simp only [he, bind, Except.bind] at h
    cases sp with
    | none => simpa [pure, Except.pure] using h
    | some s =>
      by_cases hs : (r'.space != s) = true
      · simp [hs, throw, throwThe, MonadExceptOf.throw] at h
      · simp [hs, pure, Except.pure] at h
        simpa using h

/-- `Other` after the keys evaluated so far have been subtracted. -/
def shrink (o : ISet) (es : List Entry) : ISet := es.foldl (fun o en => o.subRaw en.ins) o

theorem mem_shrink (o : ISet) (es : List Entry) (x : Name) :
    x ∈ (shrink o es).inst ↔ x ∈ o.inst ∧ ∀ en ∈ es, x ∉ en.ins := by
  induction es generalizing o with
  | nil => simp [shrink]
  | cons en rest ih =>
    have := ih (o.subRaw en.ins)
    simp only [shrink, List.foldl_cons] at this ⊢
    rw [this]
    simp [ISet.subRaw, ISet.toMySpace, and_assoc]

theorem shrink_full (o : ISet) (es : List Entry) : (shrink o es).full = o.full := by
  induction es generalizing o with
  | nil => rfl
  | cons en rest ih => simp only [shrink, List.foldl_cons] at ih ⊢; rw [ih]; rfl

theorem shrink_space (o : ISet) (es : List Entry) : (shrink o es).space = o.space := by
  induction es generalizing o with
  | nil => rfl
  | cons en rest ih => simp only [shrink, List.foldl_cons] at ih ⊢; rw [ih]; rfl

theorem evalDictLoop_append (st : Table) (sp : Option Nat) (o : ISet) (a b : List (SExpr × Int)) :
    evalDictLoop st sp o (a ++ b) =
      (do let ea ← evalDictLoop st sp o a
          let eb ← evalDictLoop st sp (shrink o ea) b
          pure (ea ++ eb)) := by
  induction a generalizing o with
  | nil =>
    simp only [List.nil_append, evalDictLoop, bind, Except.bind, shrink, List.foldl_nil]
    cases evalDictLoop st sp o b <;> simp [pure, Except.pure]
  | cons p rest ih =>
    obtain ⟨k, v⟩ := p
    simp only [List.cons_append, evalDictLoop, bind, Except.bind]
    cases evalSetExpression (insert st "Other" o) k sp none with
    | error e => rfl
    | ok r =>
      simp only [ih, bind, Except.bind]
      cases evalDictLoop st sp (o.subRaw r.inst) rest with
      | error e => rfl
      | ok ea =>
        simp only [pure, Except.pure, shrink, List.foldl_cons]
        cases evalDictLoop st sp (List.foldl (fun o en => o.subRaw en.ins) (o.subRaw r.inst) ea) b <;> rfl

/-- What the loop returns for keys that do not mention `Other`: each key evaluated in the
original table. -/
theorem evalDictLoop_plain {st : Table} {sp : Option Nat} {o : ISet} {items : List (SExpr × Int)}
    {es : List Entry} (hno : ∀ p ∈ items, p.1.mentionsOther = false)
    (h : evalDictLoop st sp o items = .ok es) :
    List.Forall₂ (fun (it : SExpr × Int) (en : Entry) =>
      ∃ r, evalExpr st it.1 = .ok r ∧ en.ins = r.inst ∧ en.val = it.2) items es := by
  induction items generalizing o es with
  | nil => simp [evalDictLoop] at h; subst h; exact .nil
  | cons p rest ih =>
    obtain ⟨k, v⟩ := p
    simp only [evalDictLoop, bind, Except.bind] at h
    cases hr : evalSetExpression (insert st "Other" o) k sp none with
    | error e => simp [hr] at h
    | ok r =>
      simp only [hr] at h
      cases hes : evalDictLoop st sp (o.subRaw r.inst) rest with
      | error e => simp [hes] at h
      | ok es' =>
        simp only [hes, pure, Except.pure, Except.ok.injEq] at h
        subst h
        have hk : "Other" ∉ k.names := by
          have := hno (k, v) (by simp)
          simpa [SExpr.mentionsOther] using this
        have h1 := evalSetExpression_none_ok hr
        rw [evalExpr_insert_irrelevant st "Other" o k hk] at h1
        exact .cons ⟨r, h1, rfl, rfl⟩ (ih (fun p hp => hno p (List.mem_cons_of_mem _ hp)) hes)

theorem forall₂_append_left {α β} {R : α → β → Prop} {a b : List α} {u : List β}
    (h : List.Forall₂ R (a ++ b) u) :
    ∃ u1 u2, u = u1 ++ u2 ∧ List.Forall₂ R a u1 ∧ List.Forall₂ R b u2 := by
  induction a generalizing u with
  | nil => exact ⟨[], u, rfl, .nil, h⟩
  | cons x xs ih =>
    cases h with
    | cons hx hrest =>
      obtain ⟨u1, u2, rfl, h1, h2⟩ := ih hrest
      exact ⟨_ :: u1, u2, rfl, .cons hx h1, h2⟩

/-- entries are pairwise disjoint -/
def Disjoint (es : List Entry) : Prop := es.Pairwise (fun a b => ∀ x ∈ a.ins, x ∉ b.ins)

theorem hasOverlap_eq_false_iff (es : List Entry) : hasOverlap es = false ↔ Disjoint es := by
  induction es with
  | nil => simp [hasOverlap, Disjoint]
  | cons e rest ih =>
    simp only [hasOverlap, Bool.or_eq_false_iff, Disjoint, List.pairwise_cons]
    rw [ih]
    constructor
    · rintro ⟨h1, h2⟩
      refine ⟨?_, h2⟩
      intro e' he' x hx hx'
      have := List.any_eq_false.mp h1 e' he'
      simp only [overlaps, Bool.not_eq_true] at this
      have := List.any_eq_false.mp this x hx
      simp [hx'] at this
    · rintro ⟨h1, h2⟩
      refine ⟨?_, h2⟩
      rw [List.any_eq_false]
      intro e' he'
      simp only [overlaps, Bool.not_eq_true]
      rw [List.any_eq_false]
      intro x hx
      simpa using h1 e' he' x hx

/-- In a pairwise disjoint list, a tensor contained in some entry is contained in exactly one. -/
theorem count_one_of_disjoint {es : List Entry} (hd : Disjoint es) {en : Entry} (hen : en ∈ es)
    {x : Name} (hx : x ∈ en.ins) : (es.filter (fun e => e.ins.contains x)).length = 1 := by
  induction es with
  | nil => simp at hen
  | cons e rest ih =>
    simp only [Disjoint, List.pairwise_cons] at hd
    by_cases hxe : x ∈ e.ins
    · have : rest.filter (fun e => e.ins.contains x) = [] := by
        rw [List.filter_eq_nil_iff]
        intro e' he'
        simpa using hd.1 e' he' x hxe
      have hc : (e.ins.contains x) = true := by simpa using hxe
      rw [List.filter_cons_of_pos (p := fun e : Entry => e.ins.contains x) hc, this]; rfl
    · have hen' : en ∈ rest := by
        rcases List.mem_cons.mp hen with h | h
        · subst h; exact absurd hx hxe
        · exact h
      have hc : ¬ (e.ins.contains x) = true := by simpa using hxe
      rw [List.filter_cons_of_neg (p := fun e : Entry => e.ins.contains x) hc]; exact ih hd.2 hen'

theorem find_assign_of_disjoint {es : List Entry} (hd : Disjoint es) {en : Entry} (hen : en ∈ es)
    {x : Name} (hx : x ∈ en.ins) : assigned es x = some en.val := by
  unfold assigned assign
  induction es with
  | nil => simp at hen
  | cons e rest ih =>
    simp only [Disjoint, List.pairwise_cons] at hd
    simp only [List.flatMap_cons, List.reverse_append, List.find?_append]
    by_cases hxe : x ∈ e.ins
    · -- nothing in `rest` contains x
      have hnone : List.find? (fun p => p.1 == x)
          (List.flatMap (fun e => e.ins.map (fun t => (t, e.val))) rest).reverse = none := by
        rw [List.find?_eq_none]
        intro p hp
        simp only [List.mem_reverse, List.mem_flatMap, List.mem_map] at hp
        obtain ⟨e', he', t, ht, rfl⟩ := hp
        have := hd.1 e' he' x hxe
        simp only [beq_iff_eq]
        intro h; subst h; exact this ht
      rw [hnone]
      simp only [Option.none_or]
      have hval : en.val = e.val := by
        rcases List.mem_cons.mp hen with h | h
        · rw [h]
        · exact absurd hx (hd.1 en h x hxe)
      rw [hval]
      have : ∃ p, List.find? (fun p => p.1 == x) (e.ins.map (fun t => (t, e.val))).reverse = some p := by
        cases hf : List.find? (fun p => p.1 == x) (e.ins.map (fun t => (t, e.val))).reverse with
        | some p => exact ⟨p, rfl⟩
        | none =>
          rw [List.find?_eq_none] at hf
          have := hf (x, e.val) (by simp; exact hxe)
          simp at this
      obtain ⟨p, hp⟩ := this
      have hm := List.mem_of_find?_eq_some hp
      simp only [List.mem_reverse, List.mem_map] at hm
      obtain ⟨t, _, rfl⟩ := hm
      simp [hp]
    · have hen' : en ∈ rest := by
        rcases List.mem_cons.mp hen with h | h
        · subst h; exact absurd hx hxe
        · exact h
      have := ih hd.2 hen'
      cases hf : List.find? (fun p => p.1 == x)
          (List.flatMap (fun e => e.ins.map (fun t => (t, e.val))) rest).reverse with
      | some p => rw [hf] at this; simp [this]
      | none => rw [hf] at this; simp at this

end AFV.SetAlg
