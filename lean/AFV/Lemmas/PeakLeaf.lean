import AFV.Lemmas.PeakCtx
import Mathlib.Data.List.Nodup
import Mathlib.Data.List.Perm.Basic
import Mathlib.Algebra.Order.Field.Rat
/-!
# PeakLeaf — the timeline of one loop nest: at every instant exactly one residency of every buffer is live

Abstract setting (`Nest`): the events of one Einsum `e` are `f 0, …, f (N-1)`, the buffers are described by `D`; the indices of
the loops above every allocation point are contiguous in execution order (`conv`), no loop is shared (`closure = none`).
Then the occupancy of every instant is the sum of the buffer sizes (`occupancy_eq`).
-/
namespace AFV.FusedPeak

def mkRes (ev : Event) (d : Desc) : Res := { e := ev.1, d := d, vals := d.allocLoops.map (envGet ev.2) }

def ins (acc : List Res) (r : Res) : List Res := if acc.any (resKeyEq r) then acc else acc ++ [r]

theorem residencies_eq (ds : List (List Desc)) (evs : List Event) :
    residencies ds evs = (evs.flatMap (fun ev => (ds.getD ev.1 []).map (mkRes ev))).foldl ins [] := by
  simp only [residencies, List.foldl_flatMap, List.foldl_map]
  rfl

theorem mem_foldl_ins (l : List Res) : ∀ (acc : List Res) (x : Res), x ∈ l.foldl ins acc → x ∈ acc ∨ x ∈ l := by
  induction l with
  | nil => intro acc x h; exact Or.inl h
  | cons a r ih =>
    intro acc x h
    simp only [List.foldl_cons] at h
    rcases ih _ x h with h | h
    · simp only [ins] at h
      split at h
      · exact Or.inl h
      · rcases List.mem_append.1 h with h | h
        · exact Or.inl h
        · simp only [List.mem_singleton] at h; subst h; exact Or.inr List.mem_cons_self
    · exact Or.inr (List.mem_cons_of_mem _ h)

theorem subset_foldl_ins (l : List Res) : ∀ (acc : List Res) (x : Res), x ∈ acc → x ∈ l.foldl ins acc := by
  induction l with
  | nil => intro acc x h; exact h
  | cons a r ih =>
    intro acc x h
    simp only [List.foldl_cons]
    apply ih
    simp only [ins]
    split
    · exact h
    · exact List.mem_append_left _ h

theorem resKeyEq_refl (r : Res) : resKeyEq r r = true := by simp [resKeyEq]

theorem rep_foldl_ins (l : List Res) : ∀ (acc : List Res) (x : Res), x ∈ l → ∃ y ∈ l.foldl ins acc, resKeyEq x y = true := by
  induction l with
  | nil => intro acc x h; simp at h
  | cons a r ih =>
    intro acc x h
    simp only [List.foldl_cons]
    rcases List.mem_cons.1 h with h | h
    · subst h
      by_cases hc : acc.any (resKeyEq x) = true
      · obtain ⟨y, hy, hk⟩ := List.any_eq_true.1 hc
        exact ⟨y, subset_foldl_ins r _ y (by simp only [ins, hc, if_true]; exact hy), hk⟩
      · refine ⟨x, subset_foldl_ins r _ x ?_, resKeyEq_refl x⟩
        simp only [ins, hc]
        simp
    · exact ih _ x h

theorem pairwise_foldl_ins (l : List Res) : ∀ (acc : List Res),
    acc.Pairwise (fun a b => resKeyEq b a = false) → (l.foldl ins acc).Pairwise (fun a b => resKeyEq b a = false) := by
  induction l with
  | nil => intro acc h; exact h
  | cons a r ih =>
    intro acc h
    simp only [List.foldl_cons]
    apply ih
    simp only [ins]
    split
    · exact h
    · rename_i hc
      rw [List.pairwise_append]
      refine ⟨h, List.pairwise_singleton _ _, ?_⟩
      intro x hx y hy
      simp only [List.mem_singleton] at hy
      subst hy
      cases hk : resKeyEq y x with
      | false => rfl
      | true => exact absurd (List.any_eq_true.2 ⟨x, hx, hk⟩) hc

theorem zip_map_self {β : Type} (l : List Nat) (g : Nat → β) : l.zip (l.map g) = l.map (fun i => (i, g i)) := by
  induction l with
  | nil => rfl
  | cons a r ih => simp [ih]

/-- `cover` with its local definitions named -/
def useDesc (ds : List (List Desc)) (r : Res) (ev : Event) : Option Desc :=
  match (ds.getD ev.1 []).find? (fun d => d.holder == r.d.holder && d.tensor == r.d.tensor && d.allocLoops == r.d.allocLoops) with
  | some d => if usesRes d r.vals ev && ((d.first && r.d.first) || ev.1 == r.e) then some d else none
  | none => none

theorem cover_eq (ds : List (List Desc)) (evs : List Event) (r : Res) :
    cover ds evs r = if r.d.persistent then List.range evs.length else
      (((List.range evs.length).zip evs).filter (fun p =>
        (useDesc ds r p.2).isSome ||
        (evs.filterMap (fun ev => (useDesc ds r ev).map (fun d => (ev, d)))).any (fun u => match u.2.closure with
          | some cl => inClosure cl u.1 p.2
          | none => false))).map (·.1) := rfl

/-- One loop nest, abstractly. -/
structure Nest where
  ds : List (List Desc)
  D : List Desc
  e : Nat
  N : Nat
  f : Nat → Env
  hD : ds.getD e [] = D
  key : (D.map (fun d => (d.holder, d.tensor))).Nodup
  cl : ∀ d ∈ D, d.closure = none
  pers : ∀ d ∈ D, d.persistent = true → d.allocLoops = []
  conv : ∀ d ∈ D, ∀ i j k, i ≤ j → j ≤ k → k < N →
    proj d.allocLoops (f i) = proj d.allocLoops (f k) → proj d.allocLoops (f j) = proj d.allocLoops (f i)

namespace Nest
variable (n : Nest)

def evs : List Event := (List.range n.N).map (fun i => (n.e, n.f i))

theorem evs_length : n.evs.length = n.N := by simp [evs]

theorem key_inj {a b : Desc} (ha : a ∈ n.D) (hb : b ∈ n.D) (h1 : a.holder = b.holder) (h2 : a.tensor = b.tensor) : a = b :=
  List.inj_on_of_nodup_map n.key ha hb (by simp [h1, h2])

def R : List Res := residencies n.ds n.evs

theorem pairs_mem (x : Res) :
    x ∈ (n.evs.flatMap (fun ev => (n.ds.getD ev.1 []).map (mkRes ev))) ↔ ∃ i, i < n.N ∧ ∃ d ∈ n.D, x = mkRes (n.e, n.f i) d := by
  simp only [evs, List.mem_flatMap, List.mem_map, List.mem_range]
  constructor
  · rintro ⟨ev, ⟨i, hi, rfl⟩, d, hd, rfl⟩
    simp only [n.hD] at hd
    exact ⟨i, hi, d, hd, rfl⟩
  · rintro ⟨i, hi, d, hd, rfl⟩
    exact ⟨(n.e, n.f i), ⟨i, hi, rfl⟩, d, by simpa only [n.hD] using hd, rfl⟩

theorem R_mem {x : Res} (h : x ∈ n.R) : ∃ i, i < n.N ∧ ∃ d ∈ n.D, x = mkRes (n.e, n.f i) d := by
  simp only [R, residencies_eq] at h
  rcases mem_foldl_ins _ _ _ h with h | h
  · simp at h
  · exact (n.pairs_mem x).1 h

theorem R_rep (i : Nat) (hi : i < n.N) (d : Desc) (hd : d ∈ n.D) : ∃ y ∈ n.R, resKeyEq (mkRes (n.e, n.f i) d) y = true := by
  simp only [R, residencies_eq]
  exact rep_foldl_ins _ _ _ ((n.pairs_mem _).2 ⟨i, hi, d, hd, rfl⟩)

theorem R_pairwise : n.R.Pairwise (fun a b => resKeyEq b a = false) := by
  simp only [R, residencies_eq]
  exact pairwise_foldl_ins _ _ List.Pairwise.nil

/-- key equality of residencies of this nest -/
theorem key_iff {a b : Res} (ha : a.d ∈ n.D) (hb : b.d ∈ n.D) (hea : a.e = n.e) (heb : b.e = n.e) :
    resKeyEq a b = true ↔ a.d = b.d ∧ a.vals = b.vals := by
  simp only [resKeyEq, Bool.and_eq_true, Bool.or_eq_true, beq_iff_eq, hea, heb, or_true, and_true]
  constructor
  · rintro ⟨⟨⟨h1, h2⟩, _⟩, h4⟩
    exact ⟨n.key_inj ha hb h1 h2, h4⟩
  · rintro ⟨h1, h2⟩
    rw [h1]
    exact ⟨⟨⟨rfl, rfl⟩, rfl⟩, h2⟩

/-- a use of residency `r` by an event of the nest -/
theorem useDesc_eq {r : Res} (hr : r.d ∈ n.D) (he : r.e = n.e) (env : Env) :
    useDesc n.ds r (n.e, env) = if proj r.d.allocLoops env = r.vals then some r.d else none := by
  simp only [useDesc, n.hD]
  cases hf : n.D.find? (fun d => d.holder == r.d.holder && d.tensor == r.d.tensor && d.allocLoops == r.d.allocLoops) with
  | none =>
    have := List.find?_eq_none.1 hf r.d hr
    simp at this
  | some d' =>
    have hp := List.find?_some hf
    have hm := List.mem_of_find?_eq_some hf
    simp only [Bool.and_eq_true, beq_iff_eq] at hp
    have : d' = r.d := n.key_inj hm hr hp.1.1 hp.1.2
    subst this
    simp only [usesRes, he, beq_self_eq_true, Bool.or_true, Bool.and_true, beq_iff_eq, proj]
    rfl

theorem closure_none {r : Res} (hr : r.d ∈ n.D) (he : r.e = n.e) (p : Event) :
    (n.evs.filterMap (fun ev => (useDesc n.ds r ev).map (fun d => (ev, d)))).any (fun u => match u.2.closure with
          | some cl => inClosure cl u.1 p
          | none => false) = false := by
  rw [List.any_eq_false]
  intro u hu
  simp only [List.mem_filterMap, evs, List.mem_map, List.mem_range, Option.map_eq_some_iff] at hu
  obtain ⟨ev, ⟨i, _, rfl⟩, d, hd, rfl⟩ := hu
  rw [n.useDesc_eq hr he] at hd
  split at hd
  · simp only [Option.some.injEq] at hd
    subst hd
    simp only [n.cl _ hr]
    simp
  · simp at hd

theorem mem_cover {r : Res} (hr : r.d ∈ n.D) (he : r.e = n.e) (hp : r.d.persistent = false) (i : Nat) :
    i ∈ cover n.ds n.evs r ↔ i < n.N ∧ proj r.d.allocLoops (n.f i) = r.vals := by
  rw [cover_eq, hp]
  simp only [Bool.false_eq_true, if_false, n.evs_length]
  simp only [n.closure_none hr he, Bool.or_false]
  simp only [evs, zip_map_self, List.filter_map, List.map_map, List.mem_map, List.mem_filter, List.mem_range, Function.comp]
  constructor
  · rintro ⟨j, ⟨hj, hu⟩, rfl⟩
    rw [n.useDesc_eq hr he] at hu
    split at hu
    · rename_i h; exact ⟨hj, h⟩
    · simp at hu
  · rintro ⟨hi, h⟩
    refine ⟨i, ⟨hi, ?_⟩, rfl⟩
    rw [n.useDesc_eq hr he, if_pos h]
    rfl

/-- **A residency is live exactly at the instants that use it.** -/
theorem live_iff {r : Res} (hr : r ∈ n.R) (ti : Nat) (hti : ti < n.N) :
    liveAt (cover n.ds n.evs r) ti = true ↔ r.vals = proj r.d.allocLoops (n.f ti) := by
  obtain ⟨i0, hi0, d, hd, rfl⟩ := n.R_mem hr
  have hrd : (mkRes (n.e, n.f i0) d).d ∈ n.D := hd
  have he : (mkRes (n.e, n.f i0) d).e = n.e := rfl
  cases hp : d.persistent with
  | true =>
    have hA := n.pers d hd hp
    constructor
    · intro _
      simp only [mkRes, hA, proj, List.map_nil]
    · intro _
      have : ti ∈ cover n.ds n.evs (mkRes (n.e, n.f i0) d) := by
        rw [cover_eq]
        simp only [mkRes, hp, if_true, n.evs_length, List.mem_range]
        exact hti
      simp only [liveAt, Bool.and_eq_true, List.any_eq_true, decide_eq_true_eq]
      exact ⟨⟨ti, this, Nat.le_refl _⟩, ⟨ti, this, Nat.le_refl _⟩⟩
  | false =>
    have hp' : (mkRes (n.e, n.f i0) d).d.persistent = false := hp
    constructor
    · intro h
      simp only [liveAt, Bool.and_eq_true, List.any_eq_true, decide_eq_true_eq] at h
      obtain ⟨⟨a, ha, hale⟩, ⟨b, hb, hble⟩⟩ := h
      obtain ⟨_, hav⟩ := (n.mem_cover hrd he hp' a).1 ha
      obtain ⟨hbN, hbv⟩ := (n.mem_cover hrd he hp' b).1 hb
      have := n.conv d hd a ti b hale hble hbN (hav.trans hbv.symm)
      exact (this.trans hav).symm
    · intro h
      have : ti ∈ cover n.ds n.evs (mkRes (n.e, n.f i0) d) := (n.mem_cover hrd he hp' ti).2 ⟨hti, h.symm⟩
      simp only [liveAt, Bool.and_eq_true, List.any_eq_true, decide_eq_true_eq]
      exact ⟨⟨ti, this, Nat.le_refl _⟩, ⟨ti, this, Nat.le_refl _⟩⟩

/-- the residencies of level `lvl` live at instant `ti` -/
def liveSet (lvl : Lvl) (ti : Nat) : List Res :=
  n.R.filter (fun r => r.d.lvl == lvl && liveAt (cover n.ds n.evs r) ti)

theorem liveSet_nodup (lvl : Lvl) (ti : Nat) (hti : ti < n.N) : ((n.liveSet lvl ti).map (·.d)).Nodup := by
  rw [List.Nodup, List.pairwise_map]
  have hsub : (n.liveSet lvl ti).Pairwise (fun a b => resKeyEq b a = false) := n.R_pairwise.sublist List.filter_sublist
  refine hsub.imp_of_mem ?_
  intro a b ha hb hk hab
  simp only [liveSet, List.mem_filter, Bool.and_eq_true] at ha hb
  have hva := (n.live_iff ha.1 ti hti).1 ha.2.2
  have hvb := (n.live_iff hb.1 ti hti).1 hb.2.2
  obtain ⟨ia, _, da, hda, rfl⟩ := n.R_mem ha.1
  obtain ⟨ib, _, db, hdb, rfl⟩ := n.R_mem hb.1
  have : resKeyEq (mkRes (n.e, n.f ib) db) (mkRes (n.e, n.f ia) da) = true := by
    rw [n.key_iff (a := mkRes _ db) (b := mkRes _ da) hdb hda rfl rfl]
    refine ⟨hab.symm, ?_⟩
    rw [hvb, hva]
    have : (mkRes (n.e, n.f ib) db).d = (mkRes (n.e, n.f ia) da).d := hab.symm
    rw [this]
  rw [this] at hk
  exact absurd hk (by simp)

theorem liveSet_mem (lvl : Lvl) (ti : Nat) (hti : ti < n.N) (d : Desc) :
    d ∈ (n.liveSet lvl ti).map (·.d) ↔ d ∈ n.D.filter (fun d => d.lvl == lvl) := by
  simp only [List.mem_map, liveSet, List.mem_filter, Bool.and_eq_true]
  constructor
  · rintro ⟨r, ⟨hr, hl, _⟩, rfl⟩
    obtain ⟨_, _, d, hd, rfl⟩ := n.R_mem hr
    exact ⟨hd, hl⟩
  · rintro ⟨hd, hl⟩
    obtain ⟨y, hy, hk⟩ := n.R_rep ti hti d hd
    obtain ⟨i1, hi1, d1, hd1, rfl⟩ := n.R_mem hy
    rw [n.key_iff (a := mkRes _ d) (b := mkRes _ d1) hd hd1 rfl rfl] at hk
    have hdd : d = d1 := hk.1
    subst hdd
    refine ⟨mkRes (n.e, n.f i1) d, ⟨hy, hl, ?_⟩, rfl⟩
    rw [n.live_iff hy ti hti]
    exact hk.2.symm

theorem D_nodup : n.D.Nodup := List.Nodup.of_map _ n.key

instance ratAddRC : RightCommutative (fun (a b : Rat) => a + b) := ⟨fun a b c => add_right_comm a b c⟩

/-- sum of the buffer sizes of a level -/
def allocSum (D : List Desc) (lvl : Lvl) : Rat := ((D.filter (fun d => d.lvl == lvl)).map (·.size)).foldl (· + ·) 0

/-- **Occupancy of an instant = sum of the buffer sizes.** -/
theorem occupancy_eq (lvl : Lvl) (ti : Nat) (hti : ti < n.N) :
    (((n.R.filter (fun r => r.d.lvl == lvl)).map (fun r => (r.d.size, cover n.ds n.evs r))).filter
        (fun c => liveAt c.2 ti)).foldl (fun a c => a + c.1) 0 = allocSum n.D lvl := by
  have h1 : (((n.R.filter (fun r => r.d.lvl == lvl)).map (fun r => (r.d.size, cover n.ds n.evs r))).filter
        (fun c => liveAt c.2 ti)) = (n.liveSet lvl ti).map (fun r => (r.d.size, cover n.ds n.evs r)) := by
    rw [List.filter_map, List.filter_filter]
    congr 1
    apply List.filter_congr
    intro x _
    simp only [Function.comp, Bool.and_comm]
  rw [h1, List.foldl_map]
  have h2 : (n.liveSet lvl ti).foldl (fun a r => a + r.d.size) 0
      = (((n.liveSet lvl ti).map (·.d)).map (·.size)).foldl (· + ·) 0 := by
    rw [List.map_map, List.foldl_map]; rfl
  rw [h2, allocSum]
  have hperm : ((n.liveSet lvl ti).map (·.d)).Perm (n.D.filter (fun d => d.lvl == lvl)) :=
    (List.perm_ext_iff_of_nodup (n.liveSet_nodup lvl ti hti) (n.D_nodup.filter _)).2 (n.liveSet_mem lvl ti hti)
  exact List.Perm.foldl_eq (f := fun (a b : Rat) => a + b) (hperm.map (·.size)) 0

end Nest

theorem ratMaxL_const (N : Nat) (hN : 0 < N) (g : Nat → Rat) (T : Rat) (hT : 0 ≤ T) (hg : ∀ i, i < N → g i = T) :
    ratMaxL ((List.range N).map g) = T := by
  have hmap : (List.range N).map g = List.replicate N T := by
    apply List.eq_replicate_iff.2
    refine ⟨by simp, ?_⟩
    intro b hb
    simp only [List.mem_map, List.mem_range] at hb
    obtain ⟨i, hi, rfl⟩ := hb
    exact hg i hi
  rw [hmap, ratMaxL]
  have : ∀ k x, (x = 0 ∨ x = T) → (List.replicate (k + 1) T).foldl (fun a b => if a ≤ b then b else a) x = T := by
    intro k
    induction k with
    | zero =>
      intro x hx
      simp only [List.replicate, List.foldl_cons, List.foldl_nil]
      rcases hx with rfl | rfl
      · rw [if_pos hT]
      · rw [if_pos Rat.le_refl]
    | succ k ih =>
      intro x hx
      rw [List.replicate_succ, List.foldl_cons]
      apply ih
      rcases hx with rfl | rfl
      · rw [if_pos hT]; exact Or.inr rfl
      · rw [if_pos Rat.le_refl]; exact Or.inr rfl
  obtain ⟨k, rfl⟩ : ∃ k, N = k + 1 := ⟨N - 1, by omega⟩
  exact this k 0 (Or.inl rfl)

end AFV.FusedPeak
