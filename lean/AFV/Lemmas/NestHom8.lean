import AFV.Lemmas.NestHom7
/-!
# `assemble` in named pieces, and their commutation with homomorphisms
-/
namespace AFV.Nest

section Defs
variable {α : Type} [Add α] [Mul α] [Div α] [Max α] [Sub α] [OfNat α 0] [OfNat α 1]

def actsA (arch : Arch α) (bs : List (Buffet α)) : List (Lvl × TId × α × α) :=
  bs.map (fun b => (b.lvl, b.t, netRead b.s * (arch.levels.getD b.lvl Level.dflt).actionsScale,
    netWrite b.s * (arch.levels.getD b.lvl Level.dflt).actionsScale))

def ensA (arch : Arch α) (bs : List (Buffet α)) : List (Lvl × TId × α × α) :=
  (actsA arch bs).map (fun (l, t, r, wr) => (l, t, r * (arch.levels.getD l Level.dflt).read.energy,
    wr * (arch.levels.getD l Level.dflt).write.energy))

def usedA (arch : Arch α) (bs : List (Buffet α)) : List Lvl :=
  (levelIds arch).filter (fun l => bs.any (fun b => b.lvl == l))

def latsA (arch : Arch α) (bs : List (Buffet α)) : List (Lvl × α) := (usedA arch bs).map (fun l => (l, latEntry arch bs l))

def ccA (arch : Arch α) (w : Workload α) (m : Mapping α) : α := computeOps w.bounds m * arch.compute.actionsScale

def compLatA (arch : Arch α) (w : Workload α) (m : Mapping α) : α :=
  computeOps w.bounds m * arch.compute.actionsScale / arch.compute.throughput

def overallA (arch : Arch α) (w : Workload α) (m : Mapping α) (bs : List (Buffet α)) : α :=
  maxList (compLatA arch w m) ((latsA arch bs).map (·.2))

def dynA (arch : Arch α) (w : Workload α) (m : Mapping α) (bs : List (Buffet α)) : α :=
  sumList ((ensA arch bs).map (fun (_, _, r, wr) => r + wr)) + ccA arch w m * arch.compute.energy

def leakA (arch : Arch α) (ov : α) : α := sumList (arch.levels.map (fun lv => lv.leak * ov)) + arch.compute.leak * ov

def memBA (arch : Arch α) (bs : List (Buffet α)) : List (Buffet α) :=
  bs.filter (fun b => !(arch.levels.getD b.lvl Level.dflt).isToll)

def occA (arch : Arch α) (bs : List (Buffet α)) : List (Lvl × TId × α) :=
  (memBA arch bs).map (fun b => (b.lvl, b.t, b.s.maxOccupancy))

def memsA (arch : Arch α) (bs : List (Buffet α)) : List Lvl :=
  (levelIds arch).filter (fun l => (memBA arch bs).any (fun b => b.lvl == l))

def memBitsA (arch : Arch α) (bs : List (Buffet α)) : List (Lvl × α) :=
  (memsA arch bs).map (fun l => (l, sumList (((memBA arch bs).filter (fun b => b.lvl == l)).map (fun b => b.s.maxOccupancy))))

def nOptsA (arch : Arch α) (bs : List (Buffet α)) : List Nat :=
  (memBA arch bs).foldl (fun acc b => insertSorted b.s.nLoopsAbove acc) []

def resvStep (size : α) (l : Lvl) (mine : List (Buffet α)) (acc : α × List (Lvl × Nat × α)) (n : Nat) : α × List (Lvl × Nat × α) :=
  let here := mine.filter (fun b => b.s.nLoopsAbove == n)
  if here.isEmpty then acc else
    let tot := acc.1 + sumList (here.map (fun b => b.s.maxOccupancy))
    (tot, acc.2 ++ [(l, n, tot / size)])

def resvA (arch : Arch α) (bs : List (Buffet α)) : List (Lvl × Nat × α) :=
  (memsA arch bs).flatMap (fun l =>
    ((nOptsA arch bs).foldl (resvStep (arch.levels.getD l Level.dflt).size l ((memBA arch bs).filter (fun b => b.lvl == l))) (0, [])).2)

/-- `assemble`, written with the named pieces. -/
theorem assemble_eq (arch : Arch α) (w : Workload α) (m : Mapping α) (bs : List (Buffet α)) :
    assemble arch w m bs =
      { actions := (actsA arch bs).map (fun (l, t, r, wr) => (l, t, r * w.nInstances, wr * w.nInstances))
        computes := ccA arch w m * w.nInstances
        energies := (ensA arch bs).map (fun (l, t, r, wr) => (l, t, r * w.nInstances, wr * w.nInstances))
        computeEnergy := ccA arch w m * arch.compute.energy * w.nInstances
        leaks := (arch.levels.map (fun lv => lv.leak * overallA arch w m bs)).map (· * w.nInstances)
        computeLeak := arch.compute.leak * overallA arch w m bs * w.nInstances
        latencies := (latsA arch bs).map (fun (l, x) => (l, x * w.nInstances))
        computeLatency := compLatA arch w m * w.nInstances
        totalLatency := overallA arch w m bs * w.nInstances
        dynamicEnergy := dynA arch w m bs * w.nInstances
        leakEnergy := leakA arch (overallA arch w m bs) * w.nInstances
        totalEnergy := leakA arch (overallA arch w m bs) * w.nInstances + dynA arch w m bs * w.nInstances
        occupancy := occA arch bs
        usage := (occA arch bs).map (fun (l, t, o) => (l, t, o / (arch.levels.getD l Level.dflt).size))
        reservations := resvA arch bs
        memBits := memBitsA arch bs
        memUsage := (memBitsA arch bs).map (fun (l, b) => (l, b / (arch.levels.getD l Level.dflt).size)) } := rfl

end Defs
end AFV.Nest
