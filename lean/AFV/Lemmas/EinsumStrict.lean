import AFV.Lemmas.EinsumPrint
/-! The grammar of the property, the recogniser, and the repaired parser. -/
namespace AFV.EinsumStr

/-- A reference token of the grammar: `T '[' … ']'` with `…` free of `[ ] =`. -/
def TokOK (r : Str × Str) : Prop := validName r.1 = true ∧ okText r.2 = true

/-- The grammar of the property on blank-free text: `T[…] = T[…] (* T[…])*`. -/
def Grammar (t : Str) : Prop :=
  ∃ (out : Str × Str) (ins : List (Str × Str)), ins ≠ [] ∧ TokOK out ∧ (∀ r ∈ ins, TokOK r) ∧
    t = printRef out ++ '=' :: joinWith '*' (ins.map printRef)

theorem okText_no_close {p : Str} (h : okText p = true) : ∀ x ∈ p, x ≠ ']' := by
  simp only [okText, List.all_eq_true, Bool.and_eq_true, bne_iff_ne, ne_eq] at h
  exact fun x hx => (h x hx).1.2

theorem TokOK.refOK {r : Str × Str} (h : TokOK r) : RefOK r := ⟨h.1, okText_no_close h.2⟩

theorem joinWith_cons_cons (sep : Char) (p q : Str) (ps : List Str) :
    joinWith sep (p :: q :: ps) = p ++ sep :: joinWith sep (q :: ps) := rfl

/-- The recogniser accepts every `ref ('*' ref)*`. -/
theorem refsStrict_join (refs : List (Str × Str)) (hne : refs ≠ []) (h : ∀ r ∈ refs, TokOK r) :
    ∀ fuel, (joinWith '*' (refs.map printRef)).length < fuel →
      refsStrict fuel (joinWith '*' (refs.map printRef)) = true := by
  induction refs with
  | nil => exact absurd rfl hne
  | cons r rs ih =>
    intro fuel hf
    have hr := h r (by simp)
    cases fuel with
    | zero => omega
    | succ f =>
      cases rs with
      | nil =>
        simp only [List.map_cons, List.map_nil, joinWith]
        have hm := matchRef_print r.1 r.2 [] hr.1 (okText_no_close hr.2)
        simp only [List.append_nil] at hm
        simp only [refsStrict, hm, hr.2, Bool.true_and]
      | cons q qs =>
        simp only [List.map_cons, joinWith_cons_cons] at hf ⊢
        have hm := matchRef_print r.1 r.2 ('*' :: joinWith '*' (printRef q :: qs.map printRef)) hr.1
          (okText_no_close hr.2)
        simp only [refsStrict, hm, hr.2, Bool.true_and]
        have := ih (by simp) (fun x hx => h x (by simp only [List.mem_cons] at hx ⊢; exact Or.inr hx)) f
          (by simp only [List.map_cons, List.length_append, List.length_cons] at hf ⊢; omega)
        simpa using this

/-- Everything the recogniser accepts is a `ref ('*' ref)*`. -/
theorem refsStrict_sound : ∀ (fuel : Nat) (s : Str), refsStrict fuel s = true →
    ∃ refs : List (Str × Str), refs ≠ [] ∧ (∀ r ∈ refs, TokOK r) ∧ s = joinWith '*' (refs.map printRef) := by
  intro fuel
  induction fuel with
  | zero => intro s h; simp [refsStrict] at h
  | succ f ih =>
    intro s h
    simp only [refsStrict] at h
    split at h
    · rename_i n p rest hm
      obtain ⟨hs, hn, _⟩ := matchRef_sound hm
      simp only [Bool.and_eq_true] at h
      obtain ⟨hp, hrest⟩ := h
      split at hrest
      · refine ⟨[(n, p)], by simp, ?_, ?_⟩
        · intro r hr; simp only [List.mem_singleton] at hr; subst hr; exact ⟨hn, hp⟩
        · simpa [joinWith] using hs
      · rename_i rest'
        obtain ⟨refs, hne, hok, hj⟩ := ih rest' hrest
        refine ⟨(n, p) :: refs, by simp, ?_, ?_⟩
        · intro r hr
          simp only [List.mem_cons] at hr
          rcases hr with rfl | hr
          · exact ⟨hn, hp⟩
          · exact hok r hr
        · cases refs with
          | nil => exact absurd rfl hne
          | cons q qs =>
            simp only [List.map_cons, joinWith_cons_cons]
            rw [hs, hj]; simp
      · simp at hrest
    · simp at h

theorem recogniseNoWs_iff (t : Str) : recogniseNoWs t = true ↔ Grammar t := by
  constructor
  · intro h
    simp only [recogniseNoWs] at h
    split at h
    · rename_i n p rhs hm
      obtain ⟨hs, hn, _⟩ := matchRef_sound hm
      simp only [Bool.and_eq_true] at h
      obtain ⟨refs, hne, hok, hj⟩ := refsStrict_sound _ _ h.2
      exact ⟨(n, p), refs, hne, ⟨hn, h.1⟩, hok, by rw [hs, hj]⟩
    · simp at h
  · rintro ⟨out, ins, hne, hout, hins, rfl⟩
    have hm := matchRef_print out.1 out.2 ('=' :: joinWith '*' (ins.map printRef)) hout.1 (okText_no_close hout.2)
    simp only [recogniseNoWs, hm, hout.2, Bool.true_and]
    exact refsStrict_join ins hne hins _ (Nat.lt_succ_self _)

/-! ### what a successful parse tells about the text -/

theorem parseNoWs_some {t : Str} {e : Parsed} (h : parseNoWs t = some e) :
    t.count '=' = 1 ∧ ∃ on op rhs, matchRef t = some (on, op, '=' :: rhs) ∧ findAll rhs.length rhs ≠ [] := by
  simp only [parseNoWs] at h
  split at h
  · simp at h
  · split at h
    · simp at h
    · rename_i hc
      simp only [bne_iff_ne, ne_eq, Decidable.not_not] at hc
      refine ⟨hc, ?_⟩
      split at h
      · rename_i on op rhs hm
        split at h
        · simp at h
        · split at h
          · simp at h
          · rename_i hne
            refine ⟨on, op, rhs, hm, ?_⟩
            intro e0; rw [e0] at hne; simp at hne
      · simp at h

theorem count_zero_of_append_one {a b : Str} (c : Char) (h : (a ++ c :: b).count c = 1) :
    a.count c = 0 ∧ b.count c = 0 := by
  rw [List.count_append, List.count_cons_self] at h
  omega

theorem count_printRef (r : Str × Str) (c : Char) (h : (printRef r).count c = 0) : r.2.count c = 0 := by
  simp only [printRef, List.count_append, List.count_cons] at h
  omega

theorem not_mem_of_count_zero {l : Str} {c : Char} (h : l.count c = 0) : c ∉ l :=
  List.count_eq_zero.mp h

/-- Text made of references joined by `*`: no `=` anywhere means no `=` in any projection text. -/
theorem joined_no_eq (refs : List (Str × Str)) (h : '=' ∉ joinWith '*' (refs.map printRef)) :
    ∀ r ∈ refs, '=' ∉ r.2 := by
  induction refs with
  | nil => simp
  | cons r rs ih =>
    intro x hx
    cases rs with
    | nil =>
      simp only [List.mem_singleton] at hx; subst hx
      simp only [List.map_cons, List.map_nil, joinWith, printRef, List.mem_append, List.mem_cons] at h
      intro hc; exact h (Or.inr (Or.inr (Or.inl hc)))
    | cons q qs =>
      simp only [List.map_cons, joinWith_cons_cons, List.mem_append, List.mem_cons] at h
      simp only [List.mem_cons] at hx
      rcases hx with rfl | hx
      · intro hc
        apply h; left
        simp only [printRef, List.mem_append, List.mem_cons]
        exact Or.inr (Or.inr (Or.inl hc))
      · exact ih (fun hc => h (Or.inr (Or.inr (by simpa using hc)))) x (by simpa using hx)

theorem okText_of {p : Str} (h1 : noOpen p = true) (h2 : ∀ x ∈ p, x ≠ ']') (h3 : '=' ∉ p) : okText p = true := by
  simp only [okText, List.all_eq_true, Bool.and_eq_true, bne_iff_ne, ne_eq]
  intro x hx
  refine ⟨⟨?_, h2 x hx⟩, ?_⟩
  · intro e; subst e
    simp only [noOpen, Bool.not_eq_true'] at h1
    have : List.contains p '[' = true := by simpa using hx
    rw [h1] at this; exact absurd this (by decide)
  · intro e; subst e; exact h3 hx

/-- A successful parse of validated text: the text is in the grammar. -/
theorem validated_grammar {t : Str} {e : Parsed} (hp : parseNoWs t = some e) (hv : validated t = true) :
    Grammar t := by
  obtain ⟨hcount, on, op, rhs, hm, hne⟩ := parseNoWs_some hp
  simp only [validated, hm, Bool.and_eq_true, List.all_eq_true] at hv
  obtain ⟨⟨hcov, hop⟩, hall⟩ := hv
  obtain ⟨hs, hn, hcl⟩ := matchRef_sound hm
  simp only [rhsCovered, beq_iff_eq] at hcov
  -- exactly one '=' : none in the head, none in the right-hand side
  rw [hs] at hcount
  obtain ⟨c1, c2⟩ := count_zero_of_append_one '=' hcount
  have hop_eq : '=' ∉ op := not_mem_of_count_zero (count_printRef (on, op) '=' c1)
  have hrhs_eq : '=' ∉ rhs := not_mem_of_count_zero c2
  have hrefs := findAll_refOK rhs.length rhs
  refine ⟨(on, op), findAll rhs.length rhs, hne, ⟨hn, okText_of hop hcl hop_eq⟩, ?_, ?_⟩
  · intro r hr
    have hj : '=' ∉ joinWith '*' ((findAll rhs.length rhs).map printRef) := by rw [hcov]; exact hrhs_eq
    exact ⟨(hrefs r hr).1, okText_of (hall r hr) (hrefs r hr).2 (joined_no_eq _ hj r hr)⟩
  · rw [hs, hcov]

/-! ### blanks that do not split words -/

theorem noSplitWord_spaces_append (g rest : Str) (hg : ∀ x ∈ g, isSpace x = true) :
    noSplitWord (g ++ rest) = noSplitWord rest := by
  induction g with
  | nil => rfl
  | cons x xs ih =>
    have hx : isWord x = false := space_not_word x (hg x (by simp))
    have := ih (fun y hy => hg y (by simp [hy]))
    simp only [List.cons_append, noSplitWord, hx, Bool.false_and, Bool.false_eq_true, if_false, this]
    cases xs ++ rest <;> simp

theorem dropWhile_spaces_append (g rest : Str) (hg : ∀ x ∈ g, isSpace x = true) :
    (g ++ rest).dropWhile isSpace = rest.dropWhile isSpace := by
  induction g with
  | nil => rfl
  | cons x xs ih =>
    simp only [List.cons_append, List.dropWhile_cons, hg x (by simp), if_true]
    exact ih (fun y hy => hg y (by simp [hy]))

/-- The check `noSplitWord` makes after a word character `p`, on what follows. -/
def gapOK (follow : Str) : Bool :=
  match follow with
  | d :: _ =>
    if isSpace d then
      (match follow.dropWhile isSpace with
       | e :: _ => !isWord e
       | [] => true)
    else true
  | [] => true

theorem noSplitWord_cons (c : Char) (cs : Str) :
    noSplitWord (c :: cs) = ((!isWord c || gapOK cs) && noSplitWord cs) := by
  cases cs with
  | nil => simp [noSplitWord, gapOK]
  | cons d ds =>
    conv_lhs => unfold noSplitWord
    simp only [gapOK]
    cases isWord c <;> cases isSpace d <;> simp <;>
      (cases List.dropWhile isSpace (d :: ds) <;> rfl)

theorem gapOK_insertWs (ws : Nat → Str) (i : Nat) (p : Char) (t : Str) (hp : isWord p = true)
    (ht : ∀ c ∈ t, isSpace c = false) : gapOK (insertWs ws i (some p) t) = true := by
  cases t with
  | nil =>
    simp only [insertWs]
    have hg : ∀ x ∈ (ws i).filter isSpace, isSpace x = true := fun x hx => (List.mem_filter.mp hx).2
    cases hh : (ws i).filter isSpace with
    | nil => rfl
    | cons d ds =>
      rw [hh] at hg
      have hd := hg d (by simp)
      have : (d :: ds).dropWhile isSpace = [] := by
        have := dropWhile_spaces_append (d :: ds) [] hg
        simpa using this
      simp only [gapOK, hd, if_true, this]
  | cons c cs =>
    have hc : isSpace c = false := ht c (by simp)
    simp only [insertWs, hp, Bool.true_and]
    by_cases hw : isWord c = true
    · simp only [hw, if_true, List.nil_append, gapOK, hc, Bool.false_eq_true, if_false]
    · simp only [hw, Bool.false_eq_true, if_false]
      have hg : ∀ x ∈ (ws i).filter isSpace, isSpace x = true := fun x hx => (List.mem_filter.mp hx).2
      cases hh : (ws i).filter isSpace with
      | nil => simp only [List.nil_append, gapOK, hc, Bool.false_eq_true, if_false]
      | cons d ds =>
        rw [hh] at hg
        have hd := hg d (by simp)
        have : ((d :: ds) ++ c :: insertWs ws (i + 1) (some c) cs).dropWhile isSpace
            = c :: insertWs ws (i + 1) (some c) cs := by
          rw [dropWhile_spaces_append _ _ hg]
          simp [List.dropWhile_cons, hc]
        simp only [List.cons_append] at this
        simp only [List.cons_append, gapOK, hd, if_true, this]
        simpa using hw

theorem noSplitWord_insertWs (ws : Nat → Str) (i : Nat) (prev : Option Char) (t : Str)
    (ht : ∀ c ∈ t, isSpace c = false) : noSplitWord (insertWs ws i prev t) = true := by
  induction t generalizing i prev with
  | nil =>
    simp only [insertWs]
    have hg : ∀ x ∈ (ws i).filter isSpace, isSpace x = true := fun x hx => (List.mem_filter.mp hx).2
    have := noSplitWord_spaces_append ((ws i).filter isSpace) [] hg
    simpa [noSplitWord] using this
  | cons c cs ih =>
    have hrest := ih (i + 1) (some c) (fun x hx => ht x (by simp [hx]))
    have hbody : noSplitWord (c :: insertWs ws (i + 1) (some c) cs) = true := by
      rw [noSplitWord_cons, hrest, Bool.and_true]
      by_cases hw : isWord c = true
      · rw [gapOK_insertWs ws (i + 1) c cs hw (fun x hx => ht x (by simp [hx]))]; simp
      · simp [hw]
    simp only [insertWs]
    have hg : ∀ x ∈ (ws i).filter isSpace, isSpace x = true := fun x hx => (List.mem_filter.mp hx).2
    cases prev with
    | none => rw [noSplitWord_spaces_append _ _ hg]; exact hbody
    | some p =>
      simp only
      split
      · simpa using hbody
      · rw [noSplitWord_spaces_append _ _ hg]; exact hbody

end AFV.EinsumStr
