import AFV.Lemmas.PeakTracker
import AFV.Lemmas.PeakLeaf2
import AFV.Spec.PeakSingle
/-!
# PeakDecl — the allocation points of the tracker state machine are those of the reference

`tracker_alloc`: the sizes of the Reservation nodes that `insert_reservation_nodes` creates for a memory level add up to the sum of
the reference's buffer sizes (`descsOf` of the one-leaf tree): both allocate the first holder of a tensor where it stands and every
other holder below the run of loops indexing the tensor that immediately follows it.
-/
namespace AFV.PeakSingle
open AFV.Nest AFV.FusedPeak

/-- forget ids and flags -/
def erase : List (PNode × Bool) → Mapping Nat
  | [] => []
  | (.storage _ l ts _, _) :: r => .storage l ts true :: erase r
  | (.loop _ rv tile, _) :: r => .loop rv tile :: erase r

theorem erase_append (a b : List (PNode × Bool)) : erase (a ++ b) = erase a ++ erase b := by
  induction a with
  | nil => rfl
  | cons n r ih =>
    obtain ⟨n, s⟩ := n
    cases n <;> simp [erase, ih]

/-- size of a tile of tensor `t` in level `l`, as the reference computes it -/
def szOf (W : FusedPeak.Workload) (t : Nat) (l : Nat) (shape : List Nat) : Rat :=
  (tileElems W t shape : Rat) * (W.bits.getD l []).getD t 0

/-- single-tensor, non-persistent holders -/
def PathOK : List (PNode × Bool) → Prop
  | [] => True
  | (.storage _ _ ts p, _) :: r => (∃ t, ts = [t]) ∧ p = false ∧ PathOK r
  | (.loop _ _ _, _) :: r => PathOK r

def sumL : List Rat → Rat
  | [] => 0
  | x :: r => x + sumL r

theorem foldl_add (l : List Rat) : ∀ x : Rat, l.foldl (· + ·) x = x + sumL l := by
  induction l with
  | nil => intro x; simp [sumL]
  | cons a r ih => intro x; simp only [List.foldl_cons, ih, sumL]; ring

theorem allocSum_eq (D : List Desc) (l : Nat) : Nest.allocSum D l = sumL ((D.filter (fun d => d.lvl == l)).map (·.size)) := by
  simp only [Nest.allocSum, foldl_add, zero_add]

theorem sumL_append (a b : List Rat) : sumL (a ++ b) = sumL a + sumL b := by
  induction a with
  | nil => simp [sumL]
  | cons x xs ih => simp only [List.cons_append, sumL, ih]; ring

theorem seen_step (seenA seenB : List Nat) (t' : Nat) (h : ∀ t, seenA.contains t = seenB.contains t) :
    ∀ t, (seenA ++ [t']).contains t = (seenAdd seenB t').contains t := by
  intro t
  simp only [seenAdd]
  split
  · rename_i hc
    simp only [List.contains_append, h t, List.contains_cons, List.contains_nil, Bool.or_false]
    by_cases htt : t = t'
    · subst htt; simp only [List.contains_iff_mem] at hc; simp [hc]
    · simp [htt]
  · simp only [List.contains_append, h t]

section
variable (W : FusedPeak.Workload) (wn : Nest.Workload Nat) (hrel : ∀ t rv, relevantRv W t rv = wn.relevant t rv)
include hrel

theorem lower_lowered (t : Nat) (r : List (PNode × Bool)) : ∀ shape : List Nat,
    (lower W t r shape).2 = lowered wn t shape (erase r ++ [.compute]) := by
  induction r with
  | nil => intro shape; rfl
  | cons n r ih =>
    intro shape
    obtain ⟨n, s⟩ := n
    cases n with
    | storage id l ts p => rfl
    | loop id rv tile =>
      simp only [lower, erase, List.cons_append, lowered, hrel]
      split
      · have := ih (shape.set rv tile)
        rcases hl : lower W t r (shape.set rv tile) with ⟨ls, sh⟩
        rw [hl] at this
        exact this
      · rfl

/-- **The reference's buffer sizes follow the declarative rule.** -/
theorem decl_descs (l : Nat) (p : List (PNode × Bool)) : ∀ (seenA seenB : List Nat) (above : List Nat) (shape : List Nat),
    PathOK p → (∀ t, seenA.contains t = seenB.contains t) →
    sumL (((descsAux W p seenA above shape).filter (fun d => d.lvl == l)).map (·.size))
      = declBits wn (szOf W) l seenB shape (erase p ++ [.compute]) := by
  induction p with
  | nil => intro seenA seenB above shape _ _; simp [descsAux, sumL, erase, declBits]
  | cons n r ih =>
    intro seenA seenB above shape hp hs
    obtain ⟨n, s⟩ := n
    cases n with
    | loop id rv tile =>
      simp only [PathOK] at hp
      simp only [descsAux, erase, List.cons_append, declBits]
      exact ih seenA seenB _ _ hp hs
    | storage id l' ts pp =>
      simp only [PathOK] at hp
      obtain ⟨⟨t', rfl⟩, rfl, hpr⟩ := hp
      rw [descsAux_storage]
      simp only [List.map_cons, List.map_nil, List.cons_append, List.nil_append, erase, declBits]
      rw [← ih (seenA ++ [t']) (seenAdd seenB t') above shape hpr (seen_step seenA seenB t' hs)]
      have hsz : (mkDesc W id l' false r seenA above shape t').size
          = szOf W t' l' (if seenB.contains t' then lowered wn t' shape (erase r ++ [.compute]) else shape) := by
        simp only [mkDesc, szOf, hs t', Bool.false_eq_true, if_false, mul_one]
        cases hc : seenB.contains t'
        · simp
        · simp only [Bool.not_true, Bool.false_eq_true, if_false, if_true, lower_lowered W wn hrel]
      have hlv : (mkDesc W id l' false r seenA above shape t').lvl = l' := rfl
      simp only [List.filter_cons, hlv]
      by_cases hll : l' = l
      · subst hll
        simp only [beq_self_eq_true, if_true, List.map_cons, sumL, hsz]
      · have : (l' == l) = false := by simpa using hll
        simp only [this, Bool.false_eq_true, if_false, if_neg hll, zero_add]

end

/-- shape of the (unsplit) single-Einsum mappings handled: Toll-free, non-empty holders of existing tensors with `_lower = True`,
the Compute is the last node -/
def M2 (ntens : Nat) : Mapping Nat → Prop
  | [] => False
  | .compute :: r => r = []
  | .loop _ _ :: r => M2 ntens r
  | .storage _ ts lo :: r => ts ≠ [] ∧ (∀ t ∈ ts, t < ntens) ∧ lo = true ∧ M2 ntens r
  | .toll _ _ _ :: _ => False

theorem erase_storages (k : Nat) (l : Nat) (ts : List Nat) :
    erase (ts.map (fun t => (PNode.storage k l [t] false, false))) = ts.map (fun t => Node.storage l [t] true) := by
  induction ts with
  | nil => rfl
  | cons t r ih => simp [erase, ih]

theorem pathOK_append (a b : List (PNode × Bool)) (ha : PathOK a) (hb : PathOK b) : PathOK (a ++ b) := by
  induction a with
  | nil => exact hb
  | cons n r ih =>
    obtain ⟨n, s⟩ := n
    cases n with
    | storage id l ts p => simp only [PathOK, List.cons_append] at ha ⊢; exact ⟨ha.1, ha.2.1, ih ha.2.2⟩
    | loop id rv tile => simp only [PathOK, List.cons_append] at ha ⊢; exact ih ha

theorem pathOK_storages (k : Nat) (l : Nat) (ts : List Nat) : PathOK (ts.map (fun t => (PNode.storage k l [t] false, false))) := by
  induction ts with
  | nil => trivial
  | cons t r ih => simp only [List.map_cons, PathOK]; exact ⟨⟨t, rfl⟩, trivial, ih⟩

theorem filter_own (ntens : Nat) (ts : List Nat) (h : ∀ t ∈ ts, t < ntens) : ts.filter (List.range ntens).contains = ts := by
  rw [List.filter_eq_self]
  intro t ht
  simp [h t ht]

/-- the own, split path of the converted nest is the split mapping (ids and flags forgotten) -/
theorem erase_leafPath (ntens : Nat) (m : Mapping Nat) : ∀ k : Nat, M2 ntens m →
    erase (splitPath (ownPath (List.range ntens) ((toPre k m).map (fun n => (n, false))))) ++ [.compute] = splitHolders m
    ∧ PathOK (splitPath (ownPath (List.range ntens) ((toPre k m).map (fun n => (n, false))))) := by
  induction m with
  | nil => intro k h; exact absurd h (by simp [M2])
  | cons n r ih =>
    intro k h
    cases n with
    | compute =>
      simp only [M2] at h
      subst h
      simp [toPre, ownPath, splitPath, erase, splitHolders, PathOK]
    | loop rv tile =>
      simp only [M2] at h
      obtain ⟨h1, h2⟩ := ih (k + 1) h
      simp only [toPre, List.map_cons, ownPath, splitPath, erase, List.cons_append, splitHolders, PathOK]
      exact ⟨by rw [h1], h2⟩
    | toll l ts lo => exact absurd h (by simp [M2])
    | storage l ts lo =>
      simp only [M2] at h
      obtain ⟨hne, hlt, rfl, hr⟩ := h
      obtain ⟨h1, h2⟩ := ih (k + 1) hr
      simp only [toPre, List.map_cons, ownPath, filter_own ntens ts hlt]
      have hemp : ts.isEmpty = false := by cases ts <;> simp at hne ⊢
      simp only [hemp, Bool.false_eq_true, if_false, splitPath, erase_append, erase_storages, List.append_assoc, h1, splitHolders]
      refine ⟨?_, pathOK_append _ _ (pathOK_storages k l ts) h2⟩
      congr 1
      split
      · rfl
      · rename_i hlen
        match ts, hne with
        | [t], _ => rfl
        | t1 :: t2 :: r', _ => simp at hlen

theorem sok_split (ntens : Nat) (m : Mapping Nat) (h : M2 ntens m) : SOK (splitHolders m) := by
  induction m with
  | nil => exact absurd h (by simp [M2])
  | cons n r ih =>
    cases n with
    | compute => simp only [M2] at h; subst h; simp [splitHolders, SOK]
    | loop rv tile => simp only [M2] at h; simp only [splitHolders, SOK]; exact ih h
    | toll l ts lo => exact absurd h (by simp [M2])
    | storage l ts lo =>
      simp only [M2] at h
      obtain ⟨hne, _, rfl, hr⟩ := h
      simp only [splitHolders]
      have key : ∀ (ts' : List Nat), SOK (ts'.map (fun t => Node.storage l [t] true) ++ splitHolders r) := by
        intro ts'
        induction ts' with
        | nil => exact ih hr
        | cons t r' ih' => simp only [List.map_cons, List.cons_append, SOK]; exact ⟨⟨t, rfl⟩, trivial, ih'⟩
      split
      · exact key ts
      · rename_i hlen
        match ts, hne with
        | [t], _ => simp only [List.cons_append, List.nil_append, SOK]; exact ⟨⟨t, rfl⟩, trivial, ih hr⟩
        | t1 :: t2 :: r', _ => simp at hlen

theorem relevant_toWorkload (arch : Arch Rat) (wq : Nest.Workload Rat) (wn : Nest.Workload Nat) (t : Nat) (rv : Nat) :
    relevantRv (toWorkload arch wq wn) t rv = wn.relevant t rv := by
  simp only [relevantRv, toWorkload, Nest.Workload.relevant, List.getD, List.getElem?_map]
  cases wn.tensors[t]? <;> simp

/-- **The tracker state machine allocates at the reference's allocation points**: the sizes of the Reservation nodes of
level `l` add up to the sum of the reference's buffer sizes. -/
theorem tracker_alloc (arch : Arch Rat) (wq : Nest.Workload Rat) (wn : Nest.Workload Nat) (m : Mapping Nat) (l : Nat)
    (hM : M2 wn.tensors.length m) :
    resBits (szOf (toWorkload arch wq wn)) l wn.bounds (insertReservations wn (splitHolders m))
      = Nest.allocSum (descsOf (toWorkload arch wq wn) (.leaf (toPre 1 m) 0) 0) l := by
  have hA := resBits_insert wn (szOf (toWorkload arch wq wn)) l (splitHolders m) [] [] wn.bounds (sok_split _ m hM)
  simp only [sumT, zero_add] at hA
  rw [insertReservations, hA, allocSum_eq, descsOf_leaf]
  obtain ⟨h1, h2⟩ := erase_leafPath wn.tensors.length m 1 hM
  have hlp : leafPath (toWorkload arch wq wn) (toPre 1 m) 0
      = splitPath (ownPath (List.range wn.tensors.length) ((toPre 1 m).map (fun n => (n, false)))) := by
    simp [leafPath, toWorkload]
  rw [hlp, ← h1]
  exact (decl_descs (toWorkload arch wq wn) wn (relevant_toWorkload arch wq wn) l _ [] [] [] wn.bounds h2 (fun _ => rfl)).symm

end AFV.PeakSingle
