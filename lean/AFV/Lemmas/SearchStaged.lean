import AFV.Lemmas.Search
/-!
# Soundness of the join accelerations: optimality thresholds and lookahead

* `thresholder_sound` — dropping every (partial) combination that is strictly worse *in every compared
  column* than some achievable full solution loses no point of the final front, **provided** (explicit
  hypotheses) the compared vector of a part is a lower bound of the compared vector of every combination
  containing it (objectives are non-negative and summed; reservations only grow), there is at least one
  compared column, and every threshold is achievable in the *same* search (same tables, same capacity).
* `lookahead_sound` — dropping partial combinations that fail a *necessary* condition for being
  joinable with some later table changes nothing at all.
-/
set_option linter.unusedSectionVars false

namespace AFV.Search
open AFV.Front

variable {K : Type} [DecidableEq K]

/-! ## `allLt` -/

theorem allLt_of_leqAll_right : ∀ {t v w : Vec}, allLt t v = true → leqAll v w = true →
    allLt t w = true
  | [], [], [], _, _ => rfl
  | [], [], _ :: _, _, h => by simp [leqAll] at h
  | [], _ :: _, _, h, _ => by simp [allLt] at h
  | _ :: _, [], _, h, _ => by simp [allLt] at h
  | _ :: _, _ :: _, [], _, h => by simp [leqAll] at h
  | t :: ts, v :: vs, w :: ws, h₁, h₂ => by
    simp only [allLt, leqAll, Bool.and_eq_true, decide_eq_true_eq] at h₁ h₂ ⊢
    exact ⟨by omega, allLt_of_leqAll_right h₁.2 h₂.2⟩

theorem allLt_of_leqAll_left : ∀ {s t v : Vec}, leqAll s t = true → allLt t v = true →
    allLt s v = true
  | [], [], [], _, _ => rfl
  | [], [], _ :: _, _, h => by simp [allLt] at h
  | [], _ :: _, _, h, _ => by simp [leqAll] at h
  | _ :: _, [], _, h, _ => by simp [leqAll] at h
  | _ :: _, _ :: _, [], _, h => by simp [allLt] at h
  | s :: ss, t :: ts, v :: vs, h₁, h₂ => by
    simp only [allLt, leqAll, Bool.and_eq_true, decide_eq_true_eq] at h₁ h₂ ⊢
    exact ⟨by omega, allLt_of_leqAll_left h₁.2 h₂.2⟩

theorem leqAll_of_allLt : ∀ {t v : Vec}, allLt t v = true → leqAll t v = true
  | [], [], _ => rfl
  | [], _ :: _, h => by simp [allLt] at h
  | _ :: _, [], h => by simp [allLt] at h
  | t :: ts, v :: vs, h => by
    simp only [allLt, leqAll, Bool.and_eq_true, decide_eq_true_eq] at h ⊢
    exact ⟨by omega, leqAll_of_allLt h.2⟩

/-- With at least one column, nothing is strictly below itself. -/
theorem allLt_irrefl {v : Vec} (h : v ≠ []) : allLt v v = false := by
  cases v with
  | nil => exact absurd rfl h
  | cons x xs => simp [allLt]

theorem thrKeep_eq_false {cv : Cand K → Vec} {T : List Vec} {c : Cand K} :
    thrKeep cv T c = false ↔ ∃ t ∈ T, allLt t (cv c) = true := by
  simp [thrKeep]

/-! ## Adding filters -/

/-- Add the optimality filter (on input rows and on joined rows). -/
def Filters.withThr (F : Filters K) (cv : Cand K → Vec) (T : List Vec) : Filters K :=
  ⟨fun c => F.keepI c && thrKeep cv T c, fun rest c => F.keepJ rest c && thrKeep cv T c⟩

/-- Add the lookahead filter (on joined rows). -/
def Filters.withLook (F : Filters K) (may : K → K → Bool) : Filters K :=
  ⟨F.keepI, fun rest c => F.keepJ rest c && lookKeep may rest c⟩

theorem stageFilters_eq (capi : Int) (cv : Cand K → Vec) (T : List Vec) (may : K → K → Bool) :
    stageFilters capi cv T may = ((capFilter capi).withThr cv T).withLook may := rfl

theorem withThr_le (F : Filters K) (cv : Cand K → Vec) (T : List Vec) : (F.withThr cv T).le F :=
  ⟨fun c h => by simp only [Filters.withThr, Bool.and_eq_true] at h; exact h.1,
   fun rest c h => by simp only [Filters.withThr, Bool.and_eq_true] at h; exact h.1⟩

theorem withLook_le (F : Filters K) (may : K → K → Bool) : (F.withLook may).le F :=
  ⟨fun _ h => h, fun rest c h => by simp only [Filters.withLook, Bool.and_eq_true] at h; exact h.1⟩

/-- The compared vector is monotone on good candidates. -/
def CvMonoOn (G : Cand K → Prop) (cv : Cand K → Vec) : Prop :=
  ∀ a b, G a → G b → cle a b = true → leqAll (cv a) (cv b) = true

theorem withThr_downClosedOn {G : Cand K → Prop} {F : Filters K} (hF : F.DownClosedOn G)
    {cv : Cand K → Vec} (hcv : CvMonoOn G cv) (T : List Vec) : (F.withThr cv T).DownClosedOn G := by
  have key : ∀ a b, G a → G b → cle a b = true → thrKeep cv T b = true → thrKeep cv T a = true := by
    intro a b ha hb hle hkb
    cases hka : thrKeep cv T a with
    | true => rfl
    | false =>
      obtain ⟨t, ht, hlt⟩ := thrKeep_eq_false.1 hka
      have : thrKeep cv T b = false :=
        thrKeep_eq_false.2 ⟨t, ht, allLt_of_leqAll_right hlt (hcv a b ha hb hle)⟩
      rw [this] at hkb; cases hkb
  constructor
  · intro a b ha hb hle h
    simp only [Filters.withThr, Bool.and_eq_true] at h ⊢
    exact ⟨hF.1 a b ha hb hle h.1, key a b ha hb hle h.2⟩
  · intro rest a b ha hb hle h
    simp only [Filters.withThr, Bool.and_eq_true] at h ⊢
    exact ⟨hF.2 rest a b ha hb hle h.1, key a b ha hb hle h.2⟩

theorem withLook_downClosedOn {G : Cand K → Prop} {F : Filters K} (hF : F.DownClosedOn G)
    (may : K → K → Bool) : (F.withLook may).DownClosedOn G := by
  constructor
  · exact hF.1
  · intro rest a b ha hb hle h
    simp only [Filters.withLook, Bool.and_eq_true] at h ⊢
    refine ⟨hF.2 rest a b ha hb hle h.1, ?_⟩
    have hk : a.key = b.key := (cle_iff.1 hle).1
    simpa [lookKeep, hk] using h.2

theorem capFilter_downClosedOn (G : Cand K → Prop) (cap : Int) :
    (capFilter cap : Filters K).DownClosedOn G :=
  ⟨fun _ _ _ _ _ _ => rfl, fun _ a b _ _ h hb => fitsC_down cap a b h hb⟩

/-! ## Invariants along paths -/

theorem good_of_runPath {ops : Ops K} {G : Cand K → Prop} (hG : Closed ops G) {F : Filters K} :
    ∀ {Ts : List (List (Cand K))} {cs : List (Cand K)} {p s : Cand K},
      (∀ T ∈ Ts, ∀ x ∈ T, G x) → G p → runPath ops F p Ts cs = some s → G s
  | [], [], _, _, _, hp, h => by
    obtain ⟨_, rfl⟩ := runPath_nil_left.1 h; exact hp
  | [], _ :: _, _, _, _, _, h => by simp [runPath] at h
  | _ :: _, [], _, _, _, _, h => by simp [runPath] at h
  | T :: Ts, c :: cs, p, s, hGT, hp, h => by
    obtain ⟨hc, _, q, hpc, _, h'⟩ := runPath_cons.1 h
    exact good_of_runPath hG (fun T' hT' => hGT T' (List.mem_cons_of_mem _ hT'))
      (hG p c q hp (hGT T (List.mem_cons_self) c hc) hpc) h'

theorem good_surv {ops : Ops K} {G : Cand K → Prop} (hG : Closed ops G) {F : Filters K}
    {tables : List (List (Cand K))} (hGT : ∀ T ∈ tables, ∀ x ∈ T, G x) {s : Cand K}
    (h : s ∈ surv ops F tables) : G s := by
  cases tables with
  | nil => simp [surv] at h
  | cons T Ts =>
    obtain ⟨p, hp, _, cs, hrun⟩ := mem_surv.1 h
    exact good_of_runPath hG (fun T' hT' => hGT T' (List.mem_cons_of_mem _ hT'))
      (hGT T (List.mem_cons_self) p hp) hrun

/-- "The compared vector of a part is a lower bound of that of any combination containing it." -/
def LowerBound (ops : Ops K) (G : Cand K → Prop) (cv : Cand K → Vec) : Prop :=
  ∀ a b c, G a → G b → combine ops a b = some c →
    leqAll (cv a) (cv c) = true ∧ leqAll (cv b) (cv c) = true

theorem cv_le_end_of_path {ops : Ops K} {G : Cand K → Prop} (hG : Closed ops G)
    {cv : Cand K → Vec} (hLB : LowerBound ops G cv) {F : Filters K} :
    ∀ {Ts : List (List (Cand K))} {cs : List (Cand K)} {p s : Cand K},
      (∀ T ∈ Ts, ∀ x ∈ T, G x) → G p → runPath ops F p Ts cs = some s →
      leqAll (cv p) (cv s) = true
  | [], [], _, _, _, _, h => by
    obtain ⟨_, rfl⟩ := runPath_nil_left.1 h; exact leqAll_refl _
  | [], _ :: _, _, _, _, _, h => by simp [runPath] at h
  | _ :: _, [], _, _, _, _, h => by simp [runPath] at h
  | T :: Ts, c :: cs, p, s, hGT, hp, h => by
    obtain ⟨hc, _, q, hpc, _, h'⟩ := runPath_cons.1 h
    have hGc := hGT T (List.mem_cons_self) c hc
    have hGq := hG p c q hp hGc hpc
    exact leqAll_trans _ _ _ (hLB p c q hp hGc hpc).1
      (cv_le_end_of_path hG hLB (fun T' hT' => hGT T' (List.mem_cons_of_mem _ hT')) hGq h')

/-- Along a path that passes the base filters, either the optimality filter passes everywhere too, or
the end point is strictly worse than some threshold in every compared column. -/
theorem runPath_thr_or {ops : Ops K} {G : Cand K → Prop} (hG : Closed ops G)
    {cv : Cand K → Vec} (hLB : LowerBound ops G cv) {F : Filters K} {T : List Vec} :
    ∀ {Ts : List (List (Cand K))} {cs : List (Cand K)} {p s : Cand K},
      (∀ T' ∈ Ts, ∀ x ∈ T', G x) → G p → runPath ops F p Ts cs = some s →
      runPath ops (F.withThr cv T) p Ts cs = some s ∨ ∃ t ∈ T, allLt t (cv s) = true
  | [], [], _, _, _, _, h => by
    obtain ⟨_, rfl⟩ := runPath_nil_left.1 h
    exact Or.inl (by simp [runPath])
  | [], _ :: _, _, _, _, _, h => by simp [runPath] at h
  | _ :: _, [], _, _, _, _, h => by simp [runPath] at h
  | T' :: Ts, c :: cs, p, s, hGT, hp, h => by
    obtain ⟨hc, hkc, q, hpc, hkq, h'⟩ := runPath_cons.1 h
    have hGc := hGT T' (List.mem_cons_self) c hc
    have hGq := hG p c q hp hGc hpc
    have hGTs : ∀ T'' ∈ Ts, ∀ x ∈ T'', G x := fun T'' hT'' => hGT T'' (List.mem_cons_of_mem _ hT'')
    have hqs := cv_le_end_of_path hG hLB hGTs hGq h'
    cases htc : thrKeep cv T c with
    | false =>
      obtain ⟨t, ht, hlt⟩ := thrKeep_eq_false.1 htc
      exact Or.inr ⟨t, ht, allLt_of_leqAll_right hlt
        (leqAll_trans _ _ _ (hLB p c q hp hGc hpc).2 hqs)⟩
    | true =>
      cases htq : thrKeep cv T q with
      | false =>
        obtain ⟨t, ht, hlt⟩ := thrKeep_eq_false.1 htq
        exact Or.inr ⟨t, ht, allLt_of_leqAll_right hlt hqs⟩
      | true =>
        rcases runPath_thr_or hG hLB hGTs hGq h' with hl | hr
        · refine Or.inl (runPath_cons.2 ⟨hc, ?_, q, hpc, ?_, hl⟩)
          · simp [Filters.withThr, hkc, htc]
          · simp [Filters.withThr, hkq, htq]
        · exact Or.inr hr

/-- **`thresholder_sound`.** `S` = full combinations surviving the base filters `F`; `S'` = those
surviving `F` plus the optimality filter with thresholds `T`. Then `S' ⊆ S`, and every `s ∈ S`
satisfying an arbitrary side condition `P` (e.g. "within the final capacity") has some `s' ∈ S'`, also
satisfying `P`, whose compared vector is `≤` that of `s`; hence the front on the compared columns is
unchanged.  Hypotheses: `G` is an invariant of the tables and of joining; parts bound combinations
from below (`LowerBound`); at least one compared column; every threshold is weakly dominated by (the
compared vector of) some member of `S` satisfying `P`. -/
theorem thresholder_sound {ops : Ops K} {G : Cand K → Prop} (hG : Closed ops G)
    {cv : Cand K → Vec} (hLB : LowerBound ops G cv) (hne : ∀ c, cv c ≠ [])
    (F : Filters K) (T : List Vec) (P : Cand K → Prop) (tables : List (List (Cand K)))
    (hGT : ∀ T' ∈ tables, ∀ x ∈ T', G x)
    (hT : ∀ t ∈ T, ∃ s ∈ surv ops F tables, P s ∧ leqAll (cv s) t = true) :
    (∀ s ∈ surv ops (F.withThr cv T) tables, s ∈ surv ops F tables) ∧
    ∀ s ∈ surv ops F tables, P s →
      ∃ s' ∈ surv ops (F.withThr cv T) tables, P s' ∧ leqAll (cv s') (cv s) = true := by
  refine ⟨fun s hs => surv_mono (withThr_le F cv T) hs, ?_⟩
  suffices h : ∀ n, ∀ s ∈ surv ops F tables, P s →
      (surv ops F tables).countP (fun u => allLt (cv u) (cv s)) = n →
      ∃ s' ∈ surv ops (F.withThr cv T) tables, P s' ∧ leqAll (cv s') (cv s) = true from
    fun s hs hP => h _ s hs hP rfl
  intro n
  induction n using Nat.strongRecOn with
  | _ n ih =>
    intro s hs hP hn
    -- either `s` survives the optimality filter, or it is strictly worse than a threshold
    have hcase : s ∈ surv ops (F.withThr cv T) tables ∨ ∃ t ∈ T, allLt t (cv s) = true := by
      cases tables with
      | nil => simp [surv] at hs
      | cons T₀ Ts =>
        obtain ⟨p, hp, hkp, cs, hrun⟩ := mem_surv.1 hs
        have hGp := hGT T₀ (List.mem_cons_self) p hp
        have hGTs : ∀ T'' ∈ Ts, ∀ x ∈ T'', G x :=
          fun T'' hT'' => hGT T'' (List.mem_cons_of_mem _ hT'')
        cases htp : thrKeep cv T p with
        | false =>
          obtain ⟨t, ht, hlt⟩ := thrKeep_eq_false.1 htp
          exact Or.inr ⟨t, ht, allLt_of_leqAll_right hlt (cv_le_end_of_path hG hLB hGTs hGp hrun)⟩
        | true =>
          rcases runPath_thr_or (T := T) hG hLB hGTs hGp hrun with hl | hr
          · exact Or.inl (mem_surv.2 ⟨p, hp, by simp [Filters.withThr, hkp, htp], cs, hl⟩)
          · exact Or.inr hr
    rcases hcase with hin | ⟨t, ht, hlt⟩
    · exact ⟨s, hin, hP, leqAll_refl _⟩
    · obtain ⟨s₁, hs₁, hP₁, hle₁⟩ := hT t ht
      have hlt₁ : allLt (cv s₁) (cv s) = true := allLt_of_leqAll_left hle₁ hlt
      have hcount : (surv ops F tables).countP (fun u => allLt (cv u) (cv s₁)) <
          (surv ops F tables).countP (fun u => allLt (cv u) (cv s)) := by
        refine countP_lt_countP (p := fun u => allLt (cv u) (cv s₁))
          (q := fun u => allLt (cv u) (cv s)) ?_ s₁ hs₁ hlt₁ (allLt_irrefl (hne s₁))
        intro u _ hu
        exact allLt_of_leqAll_right hu (leqAll_of_allLt hlt₁)
      obtain ⟨s', hs', hP', hle'⟩ := ih _ (hn ▸ hcount) s₁ hs₁ hP₁ rfl
      exact ⟨s', hs', hP', leqAll_trans _ _ _ hle' (leqAll_of_allLt hlt₁)⟩

/-! ## Lookahead -/

/-- The lookahead test is a *necessary* condition: it holds for the next partner, and if it holds
after an intermediate join it held before it. -/
structure MaySound (ops : Ops K) (may : K → K → Bool) : Prop where
  now : ∀ k l m, ops.kjoin k l = some m → may k l = true
  later : ∀ k l m d, ops.kjoin k l = some m → may m d = true → may k d = true

theorem lookKeep_of_runPath {ops : Ops K} {may : K → K → Bool} (hm : MaySound ops may)
    {F : Filters K} : ∀ {Ts : List (List (Cand K))} {cs : List (Cand K)} {q s : Cand K},
      runPath ops F q Ts cs = some s → lookKeep may Ts q = true
  | [], _, _, _, _ => by simp [lookKeep]
  | _ :: _, [], _, _, h => by simp [runPath] at h
  | T :: Ts, c :: cs, q, s, h => by
    obtain ⟨hc, _, q₂, hqc, _, h'⟩ := runPath_cons.1 h
    obtain ⟨k, hk, rfl⟩ := combine_eq_some.1 hqc
    have ih := lookKeep_of_runPath hm h'
    simp only [lookKeep, List.all_cons, Bool.and_eq_true, List.any_eq_true, List.all_eq_true] at ih ⊢
    refine ⟨⟨c, hc, hm.now _ _ _ hk⟩, fun T' hT' => ?_⟩
    obtain ⟨d, hd, hmay⟩ := ih T' hT'
    exact ⟨d, hd, hm.later _ _ _ _ hk hmay⟩

theorem runPath_withLook {ops : Ops K} {may : K → K → Bool} (hm : MaySound ops may)
    {F : Filters K} : ∀ {Ts : List (List (Cand K))} {cs : List (Cand K)} {p s : Cand K},
      runPath ops F p Ts cs = some s → runPath ops (F.withLook may) p Ts cs = some s
  | [], [], _, _, h => by simp [runPath] at h ⊢; exact h
  | [], _ :: _, _, _, h => by simp [runPath] at h
  | _ :: _, [], _, _, h => by simp [runPath] at h
  | T :: Ts, c :: cs, p, s, h => by
    obtain ⟨hc, hkc, q, hpc, hkq, h'⟩ := runPath_cons.1 h
    refine runPath_cons.2 ⟨hc, hkc, q, hpc, ?_, runPath_withLook hm h'⟩
    simp [Filters.withLook, hkq, lookKeep_of_runPath hm h']

/-- **`lookahead_sound`.** Eliminating joined groups that have no compatible partner in some later
table does not change the set of full combinations at all. -/
theorem lookahead_sound {ops : Ops K} {may : K → K → Bool} (hm : MaySound ops may)
    (F : Filters K) (tables : List (List (Cand K))) :
    SetEq (surv ops (F.withLook may) tables) (surv ops F tables) := by
  intro s
  constructor
  · exact surv_mono (withLook_le F may)
  · intro h
    cases tables with
    | nil => simp [surv] at h
    | cons T Ts =>
      obtain ⟨p, hp, hk, cs, hrun⟩ := mem_surv.1 h
      exact mem_surv.2 ⟨p, hp, hk, cs, runPath_withLook hm hrun⟩

/-- Table by table, `Ts` only contains rows of `Ts'`. -/
def SubTables : List (List (Cand K)) → List (List (Cand K)) → Prop
  | [], [] => True
  | T :: Ts, T' :: Ts' => (∀ x ∈ T, x ∈ T') ∧ SubTables Ts Ts'
  | _, _ => False

theorem subTables_map {f : List (Cand K) → List (Cand K)} (hf : ∀ T, ∀ x ∈ f T, x ∈ T) :
    ∀ tables : List (List (Cand K)), SubTables (tables.map f) tables
  | [] => trivial
  | T :: Ts => ⟨hf T, subTables_map hf Ts⟩

/-- Survivors of a search over sub-tables are survivors of the search over the full tables (for
filters that do not look at the remaining tables). -/
theorem runPath_subtables {ops : Ops K} {F : Filters K}
    (hrest : ∀ (r r' : List (List (Cand K))) c, F.keepJ r c = true → F.keepJ r' c = true) :
    ∀ {Ts Ts' : List (List (Cand K))} {cs : List (Cand K)} {p s : Cand K},
      SubTables Ts Ts' → runPath ops F p Ts cs = some s → runPath ops F p Ts' cs = some s
  | [], [], _, _, _, _, h => h
  | [], _ :: _, _, _, _, hsub, _ => by cases hsub
  | _ :: _, [], _, _, _, hsub, _ => by cases hsub
  | _ :: _, _ :: _, [], _, _, _, h => by simp [runPath] at h
  | T :: Ts, T' :: Ts', c :: cs, p, s, hsub, h => by
    obtain ⟨hc, hkc, q, hpc, hkq, h'⟩ := runPath_cons.1 h
    exact runPath_cons.2 ⟨hsub.1 c hc, hkc, q, hpc, hrest _ _ _ hkq,
      runPath_subtables hrest hsub.2 h'⟩

theorem surv_subtables {ops : Ops K} {F : Filters K}
    (hrest : ∀ (r r' : List (List (Cand K))) c, F.keepJ r c = true → F.keepJ r' c = true)
    {tables tables' : List (List (Cand K))} (hsub : SubTables tables tables') {s : Cand K}
    (h : s ∈ surv ops F tables) : s ∈ surv ops F tables' := by
  cases tables with
  | nil => simp [surv] at h
  | cons T Ts =>
    cases tables' with
    | nil => cases hsub
    | cons T' Ts' =>
      obtain ⟨p, hp, hk, cs, hrun⟩ := mem_surv.1 h
      exact mem_surv.2 ⟨p, hsub.1 p hp, hk, cs, runPath_subtables hrest hsub.2 hrun⟩

end AFV.Search
